(* Proofs/TypesPrefix.v — every strict prefix of an encoding produced by encode_ty makes decode_ty fail
   with the end-of-input class (never another error, never a value, never a panic). *)
From MC Require Import Bytes BytesFacts Monad Cbor Utf8 Half Decoder Encoder Methods Types
  EncoderFacts DecoderFacts IntFacts TypesEnc TypesLen TypesDec TypesFacts.
From Coq Require Import Lia.
Local Open Scope N_scope.

Definition eoi {A} (r : result A * dst) : Prop := exists q, r = (Err EndOfInput, q).

Lemma bind_eoi {A B} (m : M A) (f : A -> M B) s : eoi (m s) -> eoi (bind m f s).
Proof. intros [q H]. exists q. now apply bind_err. Qed.
Lemma fmap_eoi {A B} (g : A -> B) (m : M A) s : eoi (m s) -> eoi (fmap g m s).
Proof. intros [q H]. exists q. now apply fmap_err. Qed.
Lemma eoi_intro {A} q : @eoi A (Err EndOfInput, q).
Proof. now exists q. Qed.

Lemma firstn_app_cases {A} k (a b : list A) :
  ((k < length a)%nat /\ firstn k (a ++ b) = firstn k a) \/
  ((length a <= k)%nat /\ firstn k (a ++ b) = a ++ firstn (k - length a) b).
Proof.
  rewrite firstn_app. destruct (Nat.lt_ge_cases k (length a)) as [H|H]; [left|right]; split; try assumption.
  - replace (k - length a)%nat with 0%nat by lia. cbn [firstn]. apply app_nil_r.
  - now rewrite firstn_all2.
Qed.

Lemma len_firstn {A} k (l : list A) : (k <= length l)%nat -> len (firstn k l) = N.of_nat k.
Proof. intro H. unfold len. now rewrite firstn_length_le. Qed.

Lemma read_be_short k l p L : len l < N.of_nat k -> eoi (read_be k (mkdst p l L)).
Proof. intro H. unfold read_be. apply fmap_eoi. rewrite read_slice_short by assumption. apply eoi_intro. Qed.

Lemma length_args w n : length (args w n) = match w with W0 => 0 | W1 => 1 | W2 => 2 | W4 => 4 | W8 => 8 end%nat.
Proof. destruct w; cbn [args]; rewrite ?be_length; reflexivity. Qed.

Lemma unsigned_short w n j p L : (j < length (args w n))%nat ->
  eoi (unsigned (ai w n) (mkdst p (firstn j (args w n)) L)).
Proof.
  intro Hj. pose proof Hj as Hj'. rewrite length_args in Hj'.
  destruct w; cbn [ai]; try lia.
  - replace j with 0%nat by lia. change (unsigned 24) with read. cbn [args firstn]. rewrite read_nil. apply eoi_intro.
  - change (unsigned 25) with (read_be 2). apply read_be_short. rewrite len_firstn by lia. lia.
  - change (unsigned 26) with (read_be 4). apply read_be_short. rewrite len_firstn by lia. lia.
  - change (unsigned 27) with (read_be 8). apply read_be_short. rewrite len_firstn by lia. lia.
Qed.

Lemma length_head mt w n : length (Cbor.head mt w n) = S (length (args w n)).
Proof. now rewrite head_split. Qed.

(* a strict prefix of a head is empty or the initial byte followed by a strict prefix of the argument *)
Lemma firstn_head mt w n k : (k < length (Cbor.head mt w n))%nat ->
  firstn k (Cbor.head mt w n) = [] \/
  exists j, (j < length (args w n))%nat /\ firstn k (Cbor.head mt w n) = ib mt w n :: firstn j (args w n).
Proof.
  rewrite length_head, head_split. intro H. destruct k as [|j]; [left; reflexivity|right].
  exists j. split; [lia|reflexivity].
Qed.

Lemma dec_uint_short max w n k p L : (k < length (Cbor.head 0 w n))%nat ->
  eoi (dec_uint max (mkdst p (firstn k (Cbor.head 0 w n)) L)).
Proof.
  intro H. unfold dec_uint. destruct (firstn_head 0 w n k H) as [->|(j & Hj & ->)].
  - apply bind_eoi. rewrite read_nil. apply eoi_intro.
  - rewrite (bind_ok _ _ _ _ _ (read_cons _ _ _ _)), ib0. apply bind_eoi. now apply unsigned_short.
Qed.

Lemma dec_sint_short0 max w n k p L : fits w n = true -> (k < length (Cbor.head 0 w n))%nat ->
  eoi (dec_sint max (mkdst p (firstn k (Cbor.head 0 w n)) L)).
Proof.
  intros Hf H. unfold dec_sint. destruct (firstn_head 0 w n k H) as [->|(j & Hj & ->)].
  - apply bind_eoi. rewrite read_nil. apply eoi_intro.
  - rewrite (bind_ok _ _ _ _ _ (read_cons _ _ _ _)), ib0.
    pose proof (ai_lt w n Hf) as Ha. destruct (N.leb_spec (ai w n) 27); [|lia].
    apply bind_eoi. now apply unsigned_short.
Qed.

Lemma dec_sint_short1 max w n k p L : fits w n = true -> (k < length (Cbor.head 1 w n))%nat ->
  eoi (dec_sint max (mkdst p (firstn k (Cbor.head 1 w n)) L)).
Proof.
  intros Hf H. unfold dec_sint. destruct (firstn_head 1 w n k H) as [->|(j & Hj & ->)].
  - apply bind_eoi. rewrite read_nil. apply eoi_intro.
  - rewrite (bind_ok _ _ _ _ _ (read_cons _ _ _ _)). unfold ib.
    pose proof (ai_lt w n Hf) as Ha.
    destruct (N.leb_spec (1 * 32 + ai w n) 27); [lia|].
    destruct (N.leb_spec 32 (1 * 32 + ai w n)); [|lia].
    destruct (N.leb_spec (1 * 32 + ai w n) 59); [|lia]. cbn [andb].
    replace (1 * 32 + ai w n - 32) with (ai w n) by lia.
    apply bind_eoi. now apply unsigned_short.
Qed.

Lemma dec_int_short0 w n k p L : fits w n = true -> (k < length (Cbor.head 0 w n))%nat ->
  eoi (dec_int (mkdst p (firstn k (Cbor.head 0 w n)) L)).
Proof.
  intros Hf H. unfold dec_int. destruct (firstn_head 0 w n k H) as [->|(j & Hj & ->)].
  - apply bind_eoi. rewrite read_nil. apply eoi_intro.
  - rewrite (bind_ok _ _ _ _ _ (read_cons _ _ _ _)), ib0.
    pose proof (ai_lt w n Hf) as Ha. destruct (N.leb_spec (ai w n) 27); [|lia].
    apply bind_eoi. now apply unsigned_short.
Qed.

Lemma dec_int_short1 w n k p L : fits w n = true -> (k < length (Cbor.head 1 w n))%nat ->
  eoi (dec_int (mkdst p (firstn k (Cbor.head 1 w n)) L)).
Proof.
  intros Hf H. unfold dec_int. destruct (firstn_head 1 w n k H) as [->|(j & Hj & ->)].
  - apply bind_eoi. rewrite read_nil. apply eoi_intro.
  - rewrite (bind_ok _ _ _ _ _ (read_cons _ _ _ _)). unfold ib.
    pose proof (ai_lt w n Hf) as Ha.
    destruct (N.leb_spec (1 * 32 + ai w n) 27); [lia|].
    destruct (N.leb_spec 32 (1 * 32 + ai w n)); [|lia].
    destruct (N.leb_spec (1 * 32 + ai w n) 59); [|lia]. cbn [andb].
    replace (1 * 32 + ai w n - 32) with (ai w n) by lia.
    apply bind_eoi. now apply unsigned_short.
Qed.

Lemma dec_container_short mt w n k p L : fits w n = true -> (k < length (Cbor.head mt w n))%nat ->
  eoi (dec_container (mt * 32) (mkdst p (firstn k (Cbor.head mt w n)) L)).
Proof.
  intros Hf H. unfold dec_container. destruct (firstn_head mt w n k H) as [->|(j & Hj & ->)].
  - apply bind_eoi. rewrite read_nil. apply eoi_intro.
  - rewrite (bind_ok _ _ _ _ _ (read_cons _ _ _ _)).
    rewrite (major_ib _ _ _ Hf), N.eqb_refl. cbn [negb].
    rewrite (info_ib _ _ _ Hf). pose proof (ai_lt w n Hf) as Ha.
    destruct (N.eqb_spec (ai w n) 31); [lia|].
    apply bind_eoi. now apply unsigned_short.
Qed.

Lemma dec_array_short n k p L : n < 18446744073709551616 -> (k < length (phead 4 n))%nat ->
  eoi (dec_array (mkdst p (firstn k (phead 4 n)) L)).
Proof. intros Hn H. apply (dec_container_short 4); [now apply fits_min_width|exact H]. Qed.
Lemma dec_map_short n k p L : n < 18446744073709551616 -> (k < length (phead 5 n))%nat ->
  eoi (dec_map (mkdst p (firstn k (phead 5 n)) L)).
Proof. intros Hn H. apply (dec_container_short 5); [now apply fits_min_width|exact H]. Qed.

Lemma dec_tag_short n k p L : n < 18446744073709551616 -> (k < length (phead 6 n))%nat ->
  eoi (dec_tag (mkdst p (firstn k (phead 6 n)) L)).
Proof.
  intros Hn H. pose proof (fits_min_width n Hn) as Hf. unfold phead in *.
  unfold dec_tag. destruct (firstn_head 6 _ n k H) as [->|(j & Hj & ->)].
  - apply bind_eoi. rewrite read_nil. apply eoi_intro.
  - rewrite (bind_ok _ _ _ _ _ (read_cons _ _ _ _)).
    rewrite (major_ib _ _ _ Hf). change (6 * 32 =? 192) with true. cbn [negb].
    rewrite (info_ib _ _ _ Hf). now apply unsigned_short.
Qed.

(* byte / text strings: the cut falls in the head or in the body *)
Lemma dec_bytes_short b k p L : len b < 18446744073709551616 -> (k < length (phead 2 (len b) ++ b))%nat ->
  p + N.of_nat k <= L ->
  eoi (dec_bytes (mkdst p (firstn k (phead 2 (len b) ++ b)) L)).
Proof.
  intros Hn H HL. pose proof (fits_min_width _ Hn) as Hf. unfold phead in *.
  set (w := min_width (len b)) in *.
  destruct (firstn_app_cases k (Cbor.head 2 w (len b)) b) as [[Hk ->]|[Hk ->]].
  - unfold dec_bytes. destruct (firstn_head 2 w (len b) k Hk) as [->|(j & Hj & ->)].
    + apply bind_eoi. rewrite read_nil. apply eoi_intro.
    + rewrite (bind_ok _ _ _ _ _ (read_cons _ _ _ _)).
      rewrite (major_ib _ _ _ Hf). change (2 * 32 =? 64) with true. cbn [negb orb].
      rewrite (info_ib _ _ _ Hf). pose proof (ai_lt _ _ Hf) as Ha.
      destruct (N.eqb_spec (ai w (len b)) 31); [lia|].
      apply bind_eoi. now apply unsigned_short.
  - rewrite app_length in H. rewrite length_head in *. rewrite head_split. cbn [app].
    unfold dec_bytes. rewrite (bind_ok _ _ _ _ _ (read_cons _ _ _ _)).
    rewrite (major_ib _ _ _ Hf). change (2 * 32 =? 64) with true. cbn [negb orb].
    rewrite (info_ib _ _ _ Hf). pose proof (ai_lt _ _ Hf) as Ha.
    destruct (N.eqb_spec (ai w (len b)) 31); [lia|].
    assert (Hla: len (args w (len b)) = N.of_nat (length (args w (len b)))) by reflexivity.
    rewrite (bind_ok _ _ _ _ _ (unsigned_args w (len b) _ (p + 1) L Hf ltac:(lia))).
    rewrite read_slice_short; [apply eoi_intro|].
    rewrite len_firstn by lia. unfold len in *. lia.
Qed.

Lemma dec_str_short b k p L : len b < 18446744073709551616 -> (k < length (phead 3 (len b) ++ b))%nat ->
  p + N.of_nat k <= L ->
  eoi (dec_str (mkdst p (firstn k (phead 3 (len b) ++ b)) L)).
Proof.
  intros Hn H HL. pose proof (fits_min_width _ Hn) as Hf. unfold phead in *.
  set (w := min_width (len b)) in *.
  destruct (firstn_app_cases k (Cbor.head 3 w (len b)) b) as [[Hk ->]|[Hk ->]].
  - unfold dec_str. destruct (firstn_head 3 w (len b) k Hk) as [->|(j & Hj & ->)].
    + apply bind_eoi. rewrite read_nil. apply eoi_intro.
    + rewrite (bind_ok _ _ _ _ _ (read_cons _ _ _ _)).
      rewrite (major_ib _ _ _ Hf). change (3 * 32 =? 96) with true. cbn [negb orb].
      rewrite (info_ib _ _ _ Hf). pose proof (ai_lt _ _ Hf) as Ha.
      destruct (N.eqb_spec (ai w (len b)) 31); [lia|].
      apply bind_eoi. now apply unsigned_short.
  - rewrite app_length in H. rewrite length_head in *. rewrite head_split. cbn [app].
    unfold dec_str. rewrite (bind_ok _ _ _ _ _ (read_cons _ _ _ _)).
    rewrite (major_ib _ _ _ Hf). change (3 * 32 =? 96) with true. cbn [negb orb].
    rewrite (info_ib _ _ _ Hf). pose proof (ai_lt _ _ Hf) as Ha.
    destruct (N.eqb_spec (ai w (len b)) 31); [lia|].
    assert (Hla: len (args w (len b)) = N.of_nat (length (args w (len b)))) by reflexivity.
    rewrite (bind_ok _ _ _ _ _ (unsigned_args w (len b) _ (p + 1) L Hf ltac:(lia))).
    apply bind_eoi. rewrite read_slice_short; [apply eoi_intro|].
    rewrite len_firstn by lia. unfold len in *. lia.
Qed.

(* ---- an encoding that starts with the null byte is the null byte ---- *)
Lemma first_shape_not_null bs tl : first_shape bs -> bs <> 246 :: tl.
Proof.
  intros [mt w n t Hm Hf ->|x t Hx Hy ->] E.
  - rewrite head_split in E. cbn [app] in E. injection E as E _. pose proof (ai_lt w n Hf). unfold ib in E. lia.
  - injection E as E _. contradiction.
Qed.

Lemma enc_null_first t : forall v cs tl, encode_ty t v = Some cs -> flat cs = 246 :: tl -> tl = [].
Proof.
  induction t; intros v cs tl H E;
    try (exfalso; eapply first_shape_not_null; [eapply enc_first; [|exact H]; reflexivity|exact E]).
  destruct v; cbn [encode_ty] in H; try discriminate.
  - inj_cs H. now injection E as <-.
  - eapply IHt; eassumption.
Qed.

(* datatype() on a prefix (of at least one byte) of an integer item *)
Lemma datatype_int_prefix mt w n tl j p L : mt <= 1 -> fits w n = true ->
  let s := mkdst p (ib mt w n :: firstn j (args w n ++ tl)) L in
  eoi (datatype s) \/ exists ct, datatype s = (Ok ct, s) /\ ctype_is_null ct = false.
Proof.
  intros Hm Hf s. unfold datatype, s. rewrite (bind_ok _ _ _ _ _ (current_cons _ _ _ _)).
  assert (Hmt: mt = 0 \/ mt = 1) by lia. destruct Hmt as [-> | ->].
  - right. rewrite ib0. destruct w; cbn [ai fits] in *.
    + apply N.ltb_lt in Hf. rewrite type_of_small by assumption. eexists; split; reflexivity.
    + eexists; split; reflexivity.
    + eexists; split; reflexivity.
    + eexists; split; reflexivity.
    + eexists; split; reflexivity.
  - unfold ib. destruct w; cbn [ai fits] in *.
    + right. apply N.ltb_lt in Hf. change (1 * 32 + n) with (32 + n). rewrite type_of_nsmall by assumption.
      eexists; split; reflexivity.
    + change (type_of (1 * 32 + 24)) with (b <- peek ;; ret (if b <? 128 then TI8 else TI16)).
      destruct (firstn j (args W1 n ++ tl)) as [|b1 r].
      * left. apply bind_eoi. eexists. reflexivity.
      * right. rewrite (bind_ok _ _ _ _ _ (peek2 _ _ _ _ _)). unfold ret. eexists. split; [reflexivity|].
        destruct (b1 <? 128); reflexivity.
    + change (type_of (1 * 32 + 25)) with (b <- peek ;; ret (if b <? 128 then TI16 else TI32)).
      destruct (firstn j (args W2 n ++ tl)) as [|b1 r].
      * left. apply bind_eoi. eexists. reflexivity.
      * right. rewrite (bind_ok _ _ _ _ _ (peek2 _ _ _ _ _)). unfold ret. eexists. split; [reflexivity|].
        destruct (b1 <? 128); reflexivity.
    + change (type_of (1 * 32 + 26)) with (b <- peek ;; ret (if b <? 128 then TI32 else TI64)).
      destruct (firstn j (args W4 n ++ tl)) as [|b1 r].
      * left. apply bind_eoi. eexists. reflexivity.
      * right. rewrite (bind_ok _ _ _ _ _ (peek2 _ _ _ _ _)). unfold ret. eexists. split; [reflexivity|].
        destruct (b1 <? 128); reflexivity.
    + change (type_of (1 * 32 + 27)) with (b <- peek ;; ret (if b <? 128 then TI64 else TInt)).
      destruct (firstn j (args W8 n ++ tl)) as [|b1 r].
      * left. apply bind_eoi. eexists. reflexivity.
      * right. rewrite (bind_ok _ _ _ _ _ (peek2 _ _ _ _ _)). unfold ret. eexists. split; [reflexivity|].
        destruct (b1 <? 128); reflexivity.
Qed.

Lemma datatype_shape_prefix bs j b tl p L : first_shape bs -> bs = b :: tl ->
  let s := mkdst p (b :: firstn j tl) L in
  eoi (datatype s) \/ exists ct, datatype s = (Ok ct, s) /\ ctype_is_null ct = false.
Proof.
  intros [mt w n t Hm Hf ->|x t Hx Hy ->] E s.
  - rewrite head_split in E. cbn [app] in E. injection E as <- <-. now apply datatype_int_prefix.
  - injection E as <- <-. right. now apply datatype_ge64.
Qed.

Lemma skip_nil c p L : eoi (skip_auto c (mkdst p [] L)).
Proof. unfold skip_auto, skip, fuel_of. cbn [drest length]. destruct (c_alloc c); eexists; reflexivity. Qed.

Ltac lens2 :=
  unfold two64 in *;
  repeat rewrite ?flat_app, ?app_length, ?firstn_length, ?len_app, ?len_cons in *;
  cbn [length] in *;
  repeat rewrite ?app_length, ?firstn_length in *;
  unfold len in *; lia.

Section Pfx.
  Variable c : cfg.
  Variable fuel : nat.
  Notation D := (fun t' : ty => decode_ty c t' fuel).
  Notation good := (good fuel).

  Definition pfx (d : M value) (f : value -> option (list chunk)) : Prop :=
    forall v cs k p L, f v = Some cs -> len (flat cs) < two64 -> (k < length (flat cs))%nat ->
      p + N.of_nat k <= L -> (k < fuel)%nat ->
      eoi (d (mkdst p (firstn k (flat cs)) L)).

  Definition gp (t : ty) : Prop := good (D t) (encode_ty t) /\ pfx (D t) (encode_ty t).

  Lemma dec_n_pfx d f : good d f -> pfx d f -> nonempty f -> forall l fl acc cs k p L,
    enc_all f l = Some cs -> len (flat cs) < two64 -> (k < length (flat cs))%nat ->
    p + N.of_nat k <= L -> (k < fuel)%nat -> (k < fl)%nat ->
    eoi (dec_n d (len l) fl acc (mkdst p (firstn k (flat cs)) L)).
  Proof.
    intros Hg Hp Hne. induction l as [|v l IH]; intros fl acc cs k p L He H64 Hk HL Hfu Hfl; cbn [enc_all] in He.
    - inj_cs He. cbn [flat concat length] in Hk. lia.
    - apply ocat_some in He as (x & y & Hx & Hy & ->). pose proof (Hne _ _ Hx) as Hx1.
      destruct fl as [|fl]; [lia|].
      rewrite dec_n_S by (rewrite len_cons; lia).
      rewrite flat_app in *.
      destruct (firstn_app_cases k (flat x) (flat y)) as [[Hk1 ->]|[Hk1 ->]].
      + apply bind_eoi. apply (Hp v x k p L Hx); try assumption. lens2.
      + rewrite (bind_ok _ _ _ _ _ (Hg v x (firstn (k - length (flat x)) (flat y)) p L Hx
                   ltac:(lens2) ltac:(lens2) ltac:(lens2))).
        replace (N.pred (len (v :: l))) with (len l) by (rewrite len_cons; lia).
        apply IH; try assumption; try lens2.
  Qed.

  Lemma arr_n_pfx d f cap : good d f -> pfx d f -> nonempty f -> forall l fl acc cs k p L,
    enc_all f l = Some cs -> len (flat cs) < two64 -> (k < length (flat cs))%nat ->
    p + N.of_nat k <= L -> (k < fuel)%nat -> (k < fl)%nat -> len acc + len l = cap ->
    eoi (arr_n d cap (len l) fl acc (mkdst p (firstn k (flat cs)) L)).
  Proof.
    intros Hg Hp Hne. induction l as [|v l IH]; intros fl acc cs k p L He H64 Hk HL Hfu Hfl Hcap; cbn [enc_all] in He.
    - inj_cs He. cbn [flat concat length] in Hk. lia.
    - apply ocat_some in He as (x & y & Hx & Hy & ->). pose proof (Hne _ _ Hx) as Hx1.
      destruct fl as [|fl]; [lia|].
      rewrite arr_n_S by (rewrite len_cons; lia).
      rewrite flat_app in *.
      destruct (firstn_app_cases k (flat x) (flat y)) as [[Hk1 ->]|[Hk1 ->]].
      + apply bind_eoi. apply (Hp v x k p L Hx); try assumption. lens2.
      + rewrite (bind_ok _ _ _ _ _ (Hg v x (firstn (k - length (flat x)) (flat y)) p L Hx
                   ltac:(lens2) ltac:(lens2) ltac:(lens2))).
        rewrite len_cons in Hcap. destruct (N.ltb_spec (len acc) cap); [|lia].
        replace (N.pred (len (v :: l))) with (len l) by (rewrite len_cons; lia).
        apply IH; try assumption; try lens2.
  Qed.

  Lemma dec_n_alt_pfx dk dv fk fv : good dk fk -> pfx dk fk -> good dv fv -> pfx dv fv -> nonempty fk ->
    forall n l fl acc cs k p L,
    length l = (2 * n)%nat -> enc_alt fk fv l = Some cs -> len (flat cs) < two64 -> (k < length (flat cs))%nat ->
    p + N.of_nat k <= L -> (k < fuel)%nat -> (k < fl)%nat ->
    eoi (dec_n (dec_pair dk dv) (N.of_nat n) fl acc (mkdst p (firstn k (flat cs)) L)).
  Proof.
    intros Hgk Hpk Hgv Hpv Hne. induction n as [|n IH]; intros l fl acc cs k p L Hl He H64 Hk HL Hfu Hfl.
    - destruct l; [|cbn [length] in Hl; lia]. cbn [enc_alt] in He. inj_cs He. cbn [flat concat length] in Hk. lia.
    - destruct l as [|kk [|v l]]; cbn [length] in Hl; try lia. cbn [enc_alt] in He.
      apply ocat_some in He as (x & y & Hx & Hy & ->).
      apply ocat_some in Hy as (y1 & y2 & Hy1 & Hy2 & ->). pose proof (Hne _ _ Hx) as Hx1.
      destruct fl as [|fl]; [lia|].
      rewrite dec_n_S by lia.
      rewrite !flat_app in *.
      destruct (firstn_app_cases k (flat x) (flat y1 ++ flat y2)) as [[Hk1 ->]|[Hk1 ->]].
      + apply bind_eoi. unfold dec_pair. apply bind_eoi. apply (Hpk kk x k p L Hx); try assumption. lens2.
      + destruct (firstn_app_cases (k - length (flat x)) (flat y1) (flat y2)) as [[Hk2 ->]|[Hk2 ->]].
        * apply bind_eoi. unfold dec_pair.
          rewrite (bind_ok _ _ _ _ _ (Hgk kk x (firstn (k - length (flat x)) (flat y1)) p L Hx
                     ltac:(lens2) ltac:(lens2) ltac:(lens2))).
          apply bind_eoi. apply (Hpv v y1 _ _ L Hy1); try assumption; lens2.
        * rewrite (bind_ok _ _ _ _ _ (dec_pair_ok _ _ _ _ _ _ _
                    (Hgk kk x (flat y1 ++ firstn (k - length (flat x) - length (flat y1)) (flat y2)) p L Hx
                       ltac:(lens2) ltac:(lens2) ltac:(lens2))
                    (Hgv v y1 (firstn (k - length (flat x) - length (flat y1)) (flat y2)) (p + len (flat x)) L Hy1
                       ltac:(lens2) ltac:(lens2) ltac:(lens2)))).
          replace (N.pred (N.of_nat (S n))) with (N.of_nat n) by lia.
          apply (IH l); try assumption; try lens2.
  Qed.

  Lemma dec_each_pfx ts : Forall gp ts -> forall l cs k p L,
    enc_zip (map encode_ty ts) l = Some cs -> len (flat cs) < two64 -> (k < length (flat cs))%nat ->
    p + N.of_nat k <= L -> (k < fuel)%nat ->
    eoi (dec_each (map D ts) (mkdst p (firstn k (flat cs)) L)).
  Proof.
    induction 1 as [|t ts [Hg Hp] Hts IH]; intros l cs k p L He H64 Hk HL Hfu; cbn [map enc_zip] in He.
    - destruct l; [|discriminate]. inj_cs He. cbn [flat concat length] in Hk. lia.
    - destruct l as [|v l]; [discriminate|].
      apply ocat_some in He as (x & y & Hx & Hy & ->).
      cbn [map dec_each]. rewrite flat_app in *.
      destruct (firstn_app_cases k (flat x) (flat y)) as [[Hk1 ->]|[Hk1 ->]].
      + apply bind_eoi. apply (Hp v x k p L Hx); try assumption. lens2.
      + rewrite (bind_ok _ _ _ _ _ (Hg v x (firstn (k - length (flat x)) (flat y)) p L Hx
                   ltac:(lens2) ltac:(lens2) ltac:(lens2))).
        apply bind_eoi. apply (IH l y); try assumption; lens2.
  Qed.

  Lemma field_step_at pre t post slots s :
    field_step c (map D (pre ++ t :: post)) (len pre) slots s
    = (x <- D t ;; ret (set_slot slots (len pre) x)) s.
  Proof.
    unfold field_step.
    destruct (N.ltb_spec (len pre) (len (map D (pre ++ t :: post)))) as [_|Hge].
    2:{ unfold len in Hge. rewrite map_length, app_length in Hge. cbn [length] in Hge. lia. }
    unfold len at 1. rewrite Nat2N.id, map_app. cbn [map].
    replace (length pre) with (length (map D pre)) by apply map_length.
    rewrite nth_error_mid. reflexivity.
  Qed.

  Lemma fields_n_pfx : forall post pre slots l fl cs k p L,
    Forall gp post -> enc_zip (map encode_ty post) l = Some cs -> len (flat cs) < two64 ->
    (k < length (flat cs))%nat -> p + N.of_nat k <= L -> (k < fuel)%nat -> (k < fl)%nat ->
    eoi (fields_n c (map D (pre ++ post)) (len pre) (len post) fl slots (mkdst p (firstn k (flat cs)) L)).
  Proof.
    induction post as [|t post IH]; intros pre slots l fl cs k p L Hall He H64 Hk HL Hfu Hfl;
      cbn [map enc_zip] in He.
    - destruct l; [|discriminate]. inj_cs He. cbn [flat concat length] in Hk. lia.
    - destruct l as [|v l]; [discriminate|].
      apply ocat_some in He as (x & y & Hx & Hy & ->).
      inversion Hall as [|t0 post0 [Hg Hp] Hpost]; subst t0 post0. pose proof (enc_nonempty _ _ _ Hx) as Hx1.
      destruct fl as [|fl]; [lia|].
      rewrite fields_n_S by (rewrite len_cons; lia).
      rewrite flat_app in *.
      destruct (firstn_app_cases k (flat x) (flat y)) as [[Hk1 ->]|[Hk1 ->]].
      + apply bind_eoi. rewrite field_step_at. apply bind_eoi.
        apply (Hp v x k p L Hx); try assumption. lens2.
      + assert (Hstep: field_step c (map D (pre ++ t :: post)) (len pre) slots
                  (mkdst p (flat x ++ firstn (k - length (flat x)) (flat y)) L)
                = (Ok (set_slot slots (len pre) v), mkdst (p + len (flat x)) (firstn (k - length (flat x)) (flat y)) L)).
        { rewrite field_step_at.
          rewrite (bind_ok _ _ _ _ _ (Hg v x (firstn (k - length (flat x)) (flat y)) p L Hx
                     ltac:(lens2) ltac:(lens2) ltac:(lens2))). reflexivity. }
        rewrite (bind_ok _ _ _ _ _ Hstep).
        replace (N.pred (len (t :: post))) with (len post) by (rewrite len_cons; lia).
        replace (len pre + 1) with (len (pre ++ [t])) by (rewrite len_app; reflexivity).
        replace (pre ++ t :: post) with ((pre ++ [t]) ++ post) by (rewrite <- app_assoc; reflexivity).
        apply (IH (pre ++ [t]) _ l); try assumption; try lens2.
  Qed.

  Lemma dec_fields_pfx ts : len ts < two64 -> Forall gp ts -> forall l y k p L,
    enc_zip (map encode_ty ts) l = Some y -> len (flat (enc_array (len ts) ++ y)) < two64 ->
    (k < length (flat (enc_array (len ts) ++ y)))%nat -> p + N.of_nat k <= L -> (k < fuel)%nat ->
    eoi (dec_fields c (map D ts) fuel (mkdst p (firstn k (flat (enc_array (len ts) ++ y))) L)).
  Proof.
    intros Hts Hall l y k p L Hy H64 Hk HL Hfu.
    unfold two64 in Hts. rewrite flat_app, enc_array_head in * by assumption.
    unfold dec_fields.
    destruct (firstn_app_cases k (phead 4 (len ts)) (flat y)) as [[Hk1 ->]|[Hk1 ->]].
    - apply bind_eoi. now apply dec_array_short.
    - rewrite (bind_ok _ _ _ _ _ (dec_array_phead (len ts) _ p L Hts ltac:(lens2))).
      destruct (enc_zip_length _ _ _ Hy) as [Hl1 Hl2].
      apply bind_eoi.
      apply (fields_n_pfx ts [] _ l fuel y); try assumption; try lens2.
  Qed.
End Pfx.

Section PrefixThm.
  Variable c : cfg.
  Variable fuel : nat.
  Notation D := (fun t' : ty => decode_ty c t' fuel).
  Notation good := (good fuel).
  Notation pfx := (pfx fuel).
  Notation gp := (gp c fuel).

  Definition pf (t : ty) : Prop := ty_ok t = true -> rt_ok t = true -> pfx (D t) (encode_ty t).

  Lemma gp_forall ts : Forall pf ts -> forallb ty_ok ts = true -> forallb rt_ok ts = true -> Forall gp ts.
  Proof.
    intros H H1 H2. rewrite Forall_forall in *. rewrite forallb_forall in H1, H2.
    intros t Ht. split; [apply roundtrip_all; auto|apply H; auto].
  Qed.

  Lemma pfx_TyU w : pfx (D (TyU w)) (encode_ty (TyU w)).
  Proof.
    intros v cs k p L He H64 Hk HL Hfu.
    destruct v; cbn [encode_ty] in He; try discriminate.
    destruct (N.leb_spec n (umax w)) as [Hn|]; [|discriminate]. inj_cs He.
    rewrite enc_uw_head in * by assumption. cbn [decode_ty]. apply fmap_eoi. now apply dec_uint_short.
  Qed.

  Lemma dec_duration_pfx s ns k p L :
    s <= umax B64 -> ns <= nanos_max ->
    len (flat (enc_array 2 ++ enc_u64 s ++ enc_u32 ns)) < two64 ->
    (k < length (flat (enc_array 2 ++ enc_u64 s ++ enc_u32 ns)))%nat ->
    p + N.of_nat k <= L -> (k < fuel)%nat ->
    eoi (dec_fields c [fmap VNat dec_u64; fmap VNat dec_u32] fuel
           (mkdst p (firstn k (flat (enc_array 2 ++ enc_u64 s ++ enc_u32 ns))) L)).
  Proof.
    unfold nanos_max. intros Hs Hns H64 Hk HL Hfu.
    assert (Hy: enc_zip (map encode_ty [TyU B64; TyU B32]) [VNat s; VNat ns] = Some (enc_u64 s ++ enc_u32 ns ++ [])).
    { cbn [map enc_zip encode_ty]. cbn [umax] in *.
      destruct (N.leb_spec s 18446744073709551615); [|lia].
      destruct (N.leb_spec ns 4294967295); [|lia]. reflexivity. }
    assert (Hall: Forall gp [TyU B64; TyU B32]).
    { repeat constructor; (apply good_TyU || apply pfx_TyU). }
    replace (enc_array 2 ++ enc_u64 s ++ enc_u32 ns)
      with (enc_array (len [TyU B64; TyU B32]) ++ enc_u64 s ++ enc_u32 ns ++ []) in *
      by (now rewrite app_nil_r).
    change [fmap VNat dec_u64; fmap VNat dec_u32] with (map D [TyU B64; TyU B32]).
    apply (dec_fields_pfx c fuel [TyU B64; TyU B32] ltac:(reflexivity) Hall _ _ k p L Hy H64 Hk HL Hfu).
  Qed.

  Theorem prefix_all : forall t, pf t.
  Proof.
    induction t as [w|w| | | | | |w|w| | |m| | |t IH|t IH|m t IH|tk tv IHk IHv|ts IH|ts IH|ts IH|t IH| |m t IH| |]
      using ty_ind'; unfold pf; intros Hok Hrt v cs k p L He H64 Hk HL Hfu.
    - (* TyU *) now apply (pfx_TyU w v cs k p L He).
    - (* TyI *) destruct v; cbn [encode_ty] in He; try discriminate.
      destruct (zin w z) eqn:Hz; [|discriminate]. inj_cs He.
      rewrite enc_iw_head in * by assumption. apply zin_spec in Hz. pose proof (imax_lt w) as Hm. cbn [decode_ty].
      apply fmap_eoi. unfold phead in *.
      destruct (Z.leb_spec 0 z); [apply dec_sint_short0|apply dec_sint_short1]; try assumption;
        apply fits_min_width; unfold neg_arg; lia.
    - (* TyInt *) destruct v; cbn [encode_ty] in He; try discriminate.
      destruct (Z.leb_spec (-18446744073709551616) z); cbn [andb] in He; [|discriminate].
      destruct (Z.leb_spec z 18446744073709551615); [|discriminate]. inj_cs He.
      cbn [decode_ty]. apply fmap_eoi. unfold enc_int in *. destruct (Z.ltb_spec z 0); cbn [negb] in *.
      + rewrite enc_neg64_head in * by lia. unfold phead in *.
        apply dec_int_short1; [apply fits_min_width; lia|assumption].
      + rewrite enc_u64_head in * by lia. unfold phead in *.
        apply dec_int_short0; [apply fits_min_width; lia|assumption].
    - (* TyBool *) destruct v; cbn [encode_ty] in He; try discriminate. inj_cs He.
      destruct b; (destruct k; [|cbn in Hk; lia]); cbn [firstn decode_ty]; apply fmap_eoi;
        unfold dec_bool; apply bind_eoi; rewrite read_nil; apply eoi_intro.
    - (* TyChar *) destruct v; cbn [encode_ty] in He; try discriminate.
      destruct (is_scalar n) eqn:Hs; [|discriminate]. inj_cs He. pose proof (is_scalar_lt _ Hs) as Hlt.
      unfold enc_char in *. rewrite enc_u32_head in * by assumption. cbn [decode_ty].
      apply fmap_eoi. unfold dec_char, dec_u32. apply bind_eoi. now apply dec_uint_short.
    - (* TyF32 *) destruct v; cbn [encode_ty] in He; try discriminate.
      destruct (N.ltb_spec bits 4294967296) as [Hb|]; [|discriminate]. inj_cs He.
      rewrite flat_enc_f32 in *. cbn [length] in Hk. rewrite be_length in Hk. cbn [decode_ty]. apply fmap_eoi.
      unfold dec_f32. destruct k as [|j]; cbn [firstn].
      + apply bind_eoi. rewrite current_nil. apply eoi_intro.
      + rewrite (bind_ok _ _ _ _ _ (current_cons _ _ _ _)).
        change (250 =? 249) with false. rewrite andb_false_r. change (250 =? 250) with true. cbv iota.
        rewrite (bind_ok _ _ _ _ _ (read_cons _ _ _ _)).
        apply read_be_short. rewrite len_firstn by (rewrite be_length; lia). lia.
    - (* TyF64 *) destruct v; cbn [encode_ty] in He; try discriminate.
      destruct (N.ltb_spec bits 18446744073709551616) as [Hb|]; [|discriminate]. inj_cs He.
      rewrite flat_enc_f64 in *. cbn [length] in Hk. rewrite be_length in Hk. cbn [decode_ty]. apply fmap_eoi.
      unfold dec_f64. destruct k as [|j]; cbn [firstn].
      + apply bind_eoi. rewrite current_nil. apply eoi_intro.
      + rewrite (bind_ok _ _ _ _ _ (current_cons _ _ _ _)).
        change (251 =? 249) with false. rewrite andb_false_r. change (251 =? 250) with false.
        change (251 =? 251) with true. cbv iota.
        rewrite (bind_ok _ _ _ _ _ (read_cons _ _ _ _)).
        apply read_be_short. rewrite len_firstn by (rewrite be_length; lia). lia.
    - (* TyNZU *) destruct v; cbn [encode_ty] in He; try discriminate.
      destruct (N.leb_spec n (umax w)) as [Hn|]; cbn [andb] in He; [|discriminate].
      destruct (negb (n =? 0)); [|discriminate]. inj_cs He.
      rewrite enc_uw_head in * by assumption. cbn [decode_ty]. apply bind_eoi. now apply dec_uint_short.
    - (* TyNZI *) destruct v; cbn [encode_ty] in He; try discriminate.
      destruct (zin w z) eqn:Hz; cbn [andb] in He; [|discriminate].
      destruct (negb (z =? 0)%Z); [|discriminate]. inj_cs He.
      rewrite enc_iw_head in * by assumption. apply zin_spec in Hz. pose proof (imax_lt w) as Hm. cbn [decode_ty].
      apply bind_eoi. unfold phead in *.
      destruct (Z.leb_spec 0 z); [apply dec_sint_short0|apply dec_sint_short1]; try assumption;
        apply fits_min_width; unfold neg_arg; lia.
    - (* TyStr *) destruct v; cbn [encode_ty] in He; try discriminate.
      destruct (bytes_ok b && utf8_valid b); [|discriminate]. inj_cs He.
      assert (Hb: len b < 18446744073709551616) by (rewrite len_enc_str in H64; unfold two64 in *; lia).
      rewrite enc_str_head in * by assumption. cbn [decode_ty]. apply fmap_eoi. now apply dec_str_short.
    - (* TyBytes *) destruct v; cbn [encode_ty] in He; try discriminate.
      destruct (bytes_ok b); [|discriminate]. inj_cs He.
      assert (Hb: len b < 18446744073709551616) by (rewrite len_enc_bytes in H64; unfold two64 in *; lia).
      rewrite enc_bytes_head in * by assumption. cbn [decode_ty]. apply fmap_eoi. now apply dec_bytes_short.
    - (* TyByteArr *) destruct v; cbn [encode_ty] in He; try discriminate.
      destruct (bytes_ok b && (len b =? m)); [|discriminate]. inj_cs He.
      assert (Hb: len b < 18446744073709551616) by (rewrite len_enc_bytes in H64; unfold two64 in *; lia).
      rewrite enc_bytes_head in * by assumption. cbn [decode_ty]. apply bind_eoi. now apply dec_bytes_short.
    - (* TyCStr *) destruct v; cbn [encode_ty] in He; try discriminate.
      destruct (bytes_ok b && no_nul b); [|discriminate]. inj_cs He.
      assert (Hb: len (b ++ [0]) < 18446744073709551616) by (rewrite len_enc_bytes in H64; unfold two64 in *; lia).
      rewrite enc_bytes_head in * by assumption. cbn [decode_ty]. apply bind_eoi. now apply dec_bytes_short.
    - (* TyUnit *) destruct v; cbn [encode_ty] in He; try discriminate. inj_cs He.
      change (length (flat (enc_array 0))) with 1%nat in Hk.
      destruct k; [|lia]. cbn [firstn decode_ty]. apply bind_eoi.
      unfold dec_array, dec_container. apply bind_eoi. rewrite read_nil. apply eoi_intro.
    - (* TyOpt *) cbn [ty_ok rt_ok] in Hok, Hrt. apply andb_prop in Hrt as [Hnn Hrt].
      apply negb_true_iff in Hnn. cbn [decode_ty].
      destruct k as [|j].
      { cbn [firstn]. apply bind_eoi. unfold datatype. apply bind_eoi. rewrite current_nil. apply eoi_intro. }
      destruct v; cbn [encode_ty] in He; try discriminate.
      + inj_cs He. change (length (flat enc_null)) with 1%nat in Hk. lia.
      + pose proof (enc_first _ _ _ Hnn He) as Hsh.
        destruct (flat cs) as [|b tl] eqn:Efl; [cbn [length] in Hk; lia|]. cbn [firstn].
        destruct (datatype_shape_prefix _ j b tl p L Hsh eq_refl) as [Hd|(ct & Ed & Hct)].
        * now apply bind_eoi.
        * rewrite (bind_ok _ _ _ _ _ Ed), Hct. apply fmap_eoi.
          change (b :: firstn j tl) with (firstn (S j) (b :: tl)). rewrite <- Efl.
          apply (IH Hok Hrt v cs (S j) p L He); try assumption; rewrite Efl; assumption.
    - (* TySeq *) cbn [ty_ok rt_ok] in Hok, Hrt.
      destruct v; cbn [encode_ty] in He; try discriminate.
      apply ocat_some in He as (x & y & Hx & Hy & ->). inj_cs Hx.
      pose proof (enc_all_length _ _ _ (nonempty_enc t) Hy) as Hlen.
      assert (Hl: len l < 18446744073709551616) by lens2.
      rewrite flat_app, enc_array_head in * by assumption.
      cbn [decode_ty]. apply fmap_eoi. unfold dec_seq.
      destruct (firstn_app_cases k (phead 4 (len l)) (flat y)) as [[Hk1 ->]|[Hk1 ->]].
      + apply bind_eoi. now apply dec_array_short.
      + rewrite (bind_ok _ _ _ _ _ (dec_array_phead (len l) _ p L Hl ltac:(lens2))).
        apply (dec_n_pfx fuel (D t) (encode_ty t) (roundtrip_all c fuel t Hok Hrt) (IH Hok Hrt) (nonempty_enc t) l);
          try assumption; lens2.
    - (* TyArr *) cbn [ty_ok rt_ok] in Hok, Hrt.
      destruct v; cbn [encode_ty] in He; try discriminate.
      destruct (N.eqb_spec (len l) m) as [Hm|]; [|discriminate].
      apply ocat_some in He as (x & y & Hx & Hy & ->). inj_cs Hx.
      pose proof (enc_all_length _ _ _ (nonempty_enc t) Hy) as Hlen.
      assert (Hl: m < 18446744073709551616) by lens2.
      rewrite flat_app, enc_array_head in * by assumption.
      cbn [decode_ty]. apply fmap_eoi. unfold dec_arr.
      destruct (firstn_app_cases k (phead 4 m) (flat y)) as [[Hk1 ->]|[Hk1 ->]].
      + apply bind_eoi. now apply dec_array_short.
      + rewrite (bind_ok _ _ _ _ _ (dec_array_phead m _ p L Hl ltac:(lens2))).
        apply bind_eoi. rewrite <- Hm at 2.
        apply (arr_n_pfx fuel (D t) (encode_ty t) m (roundtrip_all c fuel t Hok Hrt) (IH Hok Hrt) (nonempty_enc t) l);
          try assumption; try lens2.
    - (* TyMap *) cbn [ty_ok rt_ok] in Hok, Hrt.
      apply andb_prop in Hok as [Hok1 Hok2]. apply andb_prop in Hrt as [Hrt1 Hrt2].
      destruct v; cbn [encode_ty] in He; try discriminate.
      destruct (N.even (len l)) eqn:Hev; [|discriminate].
      apply ocat_some in He as (x & y & Hx & Hy & ->). inj_cs Hx.
      apply N.even_spec in Hev as [h Hh].
      assert (Hlen: length l = (2 * N.to_nat h)%nat) by (unfold len in Hh; lia).
      assert (Hdiv: len l / 2 = N.of_nat (N.to_nat h)).
      { rewrite Hh, N2Nat.id, N.mul_comm. apply N.div_mul. lia. }
      pose proof (enc_alt_length _ _ _ _ (nonempty_enc tk) Hy) as Hl2.
      rewrite Hdiv in *.
      assert (Hl: N.of_nat (N.to_nat h) < 18446744073709551616) by lens2.
      rewrite flat_app, enc_map_head in * by assumption.
      cbn [decode_ty]. apply fmap_eoi. unfold dec_map_seq.
      destruct (firstn_app_cases k (phead 5 (N.of_nat (N.to_nat h))) (flat y)) as [[Hk1 ->]|[Hk1 ->]].
      + apply bind_eoi. now apply dec_map_short.
      + rewrite (bind_ok _ _ _ _ _ (dec_map_phead _ _ p L Hl ltac:(lens2))).
        apply bind_eoi.
        apply (dec_n_alt_pfx fuel (D tk) (D tv) (encode_ty tk) (encode_ty tv)
                 (roundtrip_all c fuel tk Hok1 Hrt1) (IHk Hok1 Hrt1)
                 (roundtrip_all c fuel tv Hok2 Hrt2) (IHv Hok2 Hrt2) (nonempty_enc tk) (N.to_nat h) l);
          try assumption; lens2.
    - (* TyTuple *) cbn [ty_ok rt_ok] in Hok, Hrt. apply andb_prop in Hok as [Hn Hok]. apply N.leb_le in Hn.
      destruct v; cbn [encode_ty] in He; try discriminate.
      apply ocat_some in He as (x & y & Hx & Hy & ->). inj_cs Hx.
      assert (Hl: len ts < 18446744073709551616) by lia.
      rewrite flat_app, enc_array_head in * by assumption.
      cbn [decode_ty].
      destruct (firstn_app_cases k (phead 4 (len ts)) (flat y)) as [[Hk1 ->]|[Hk1 ->]].
      + apply bind_eoi. now apply dec_array_short.
      + rewrite (bind_ok _ _ _ _ _ (dec_array_phead (len ts) _ p L Hl ltac:(lens2))).
        cbn [opt_eqb]. rewrite N.eqb_refl. apply fmap_eoi.
        apply (dec_each_pfx c fuel ts (gp_forall ts IH Hok Hrt) l y); try assumption; lens2.
    - (* TyFields *) cbn [ty_ok rt_ok] in Hok, Hrt. apply andb_prop in Hok as [Hn Hok]. apply N.leb_le in Hn.
      destruct v; cbn [encode_ty] in He; try discriminate.
      apply ocat_some in He as (x & y & Hx & Hy & ->). inj_cs Hx.
      cbn [decode_ty]. apply fmap_eoi.
      apply (dec_fields_pfx c fuel ts ltac:(unfold two64; lia) (gp_forall ts IH Hok Hrt) l y k p L Hy H64 Hk HL Hfu).
    - (* TyEnum *) cbn [ty_ok rt_ok] in Hok, Hrt. apply andb_prop in Hok as [Hn Hok].
      destruct v; cbn [encode_ty] in He; try discriminate.
      destruct (nth_error (map encode_ty ts) (N.to_nat idx)) as [f|] eqn:Hf; [|discriminate].
      destruct (N.ltb_spec idx 4294967296) as [Hi|]; [|discriminate].
      apply ocat_some in He as (x & y & Hx & Hy & ->). inj_cs Hx.
      apply nth_error_map_inv in Hf as (t' & Ht' & <-).
      pose proof (gp_forall ts IH Hok Hrt) as Hall. rewrite Forall_forall in Hall.
      destruct (Hall t' (nth_error_In _ _ Ht')) as [Hg Hp].
      rewrite !flat_app, flat_enc_array_2, enc_u32_head in * by assumption.
      rewrite <- !app_assoc in *. cbn [app] in *. cbn [decode_ty]. unfold dec_enum.
      destruct k as [|j]; cbn [firstn].
      { apply bind_eoi. unfold dec_array, dec_container. apply bind_eoi. rewrite read_nil. apply eoi_intro. }
      rewrite (bind_ok _ _ _ _ _ (dec_array_2 _ _ _)). cbv iota. unfold dec_u32.
      destruct (firstn_app_cases j (phead 0 idx) (flat y)) as [[Hk1 ->]|[Hk1 ->]].
      + apply bind_eoi. now apply dec_uint_short.
      + rewrite (bind_ok _ _ _ _ _ (dec_uint_phead 4294967295 idx _ (p + 1) L ltac:(lia) ltac:(lia) ltac:(lens2))).
        assert (Hlt : (idx <? len (map D ts)) = true).
        { apply N.ltb_lt. unfold len. rewrite map_length. pose proof (proj1 (nth_error_Some ts (N.to_nat idx)) ltac:(congruence)). lia. }
        rewrite Hlt.
        rewrite (map_nth_error D _ _ Ht'). apply bind_eoi.
        apply (Hp v y _ _ L Hy); try assumption; lens2.
    - (* TyBound *) cbn [ty_ok rt_ok] in Hok, Hrt.
      destruct v; cbn [encode_ty] in He; try discriminate.
      destruct (N.ltb_spec idx 2) as [Hi|Hi].
      + apply ocat_some in He as (x & y & Hx & Hy & ->). inj_cs Hx.
        rewrite !flat_app, flat_enc_array_2, enc_u32_head in * by lia.
        rewrite <- !app_assoc in *. cbn [app] in *. cbn [decode_ty].
        destruct k as [|j]; cbn [firstn].
        { apply bind_eoi. unfold dec_array, dec_container. apply bind_eoi. rewrite read_nil. apply eoi_intro. }
        rewrite (bind_ok _ _ _ _ _ (dec_array_2 _ _ _)). cbn [opt_eqb]. change (2 =? 2) with true. cbv iota.
        unfold dec_u32.
        destruct (firstn_app_cases j (phead 0 idx) (flat y)) as [[Hk1 ->]|[Hk1 ->]].
        * apply bind_eoi. now apply dec_uint_short.
        * rewrite (bind_ok _ _ _ _ _ (dec_uint_phead 4294967295 idx _ (p + 1) L ltac:(lia) ltac:(lia) ltac:(lens2))).
          destruct (N.ltb_spec idx 2); [|lia]. apply bind_eoi.
          apply (IH Hok Hrt v y _ _ L Hy); try assumption; lens2.
      + destruct (N.eqb_spec idx 2) as [->|]; [|discriminate]. destruct v; try discriminate. inj_cs He.
        cbn [decode_ty]. change (flat (enc_array 2 ++ enc_u32 2 ++ enc_array 0)) with [130; 2; 128] in *.
        destruct k as [|[|[|j]]]; cbn [firstn]; [| | |cbn [length] in Hk; lia].
        * apply bind_eoi. unfold dec_array, dec_container. apply bind_eoi. rewrite read_nil. apply eoi_intro.
        * rewrite (bind_ok _ _ _ _ _ (dec_array_2 _ _ _)). cbn [opt_eqb]. change (2 =? 2) with true. cbv iota.
          apply bind_eoi. unfold dec_u32, dec_uint. apply bind_eoi. rewrite read_nil. apply eoi_intro.
        * rewrite (bind_ok _ _ _ _ _ (dec_array_2 _ _ _)). cbn [opt_eqb]. change (2 =? 2) with true. cbv iota.
          rewrite (bind_ok _ _ _ _ _ (dec_u32_2 _ _ _)).
          change (2 <? 2) with false. change (2 =? 2) with true. cbv iota.
          apply bind_eoi. apply skip_nil.
    - (* TyTag *) destruct v; cbn [encode_ty] in He; try discriminate.
      destruct (N.ltb_spec n 18446744073709551616) as [Hn|]; [|discriminate]. inj_cs He.
      rewrite enc_tag_head in * by assumption. cbn [decode_ty]. apply fmap_eoi. now apply dec_tag_short.
    - (* TyTagged *) cbn [ty_ok rt_ok] in Hok, Hrt. cbn [encode_ty] in He.
      destruct (N.ltb_spec m 18446744073709551616) as [Hn|]; [|discriminate].
      apply ocat_some in He as (x & y & Hx & Hy & ->). inj_cs Hx.
      rewrite flat_app, enc_tag_head in * by assumption. cbn [decode_ty].
      destruct (firstn_app_cases k (phead 6 m) (flat y)) as [[Hk1 ->]|[Hk1 ->]].
      + apply bind_eoi. now apply dec_tag_short.
      + rewrite (bind_ok _ _ _ _ _ (dec_tag_phead m _ p L Hn ltac:(lens2))).
        rewrite N.eqb_refl. apply (IH Hok Hrt v y _ _ L Hy); try assumption; lens2.
    - (* TyDuration *) destruct v; cbn [encode_ty] in He; try discriminate.
      destruct l as [|[s| | | | | | | | |] [|[ns| | | | | | | | |] [|? ?]]]; try discriminate.
      destruct (N.leb_spec s (umax B64)) as [Hs|]; cbn [andb] in He; [|discriminate].
      destruct (N.leb_spec ns nanos_max) as [Hns|]; [|discriminate]. inj_cs He.
      cbn [decode_ty]. apply bind_eoi. now apply dec_duration_pfx.
    - (* TySystemTime *) destruct v; cbn [encode_ty] in He; try discriminate. destruct v; try discriminate.
      destruct l as [|[s| | | | | | | | |] [|[ns| | | | | | | | |] [|? ?]]]; try discriminate.
      destruct (N.eqb_spec idx 0) as [->|]; cbn [andb] in He; [|discriminate].
      destruct (N.leb_spec s (imax B64)) as [Hs|]; cbn [andb] in He; [|discriminate].
      destruct (N.leb_spec ns nanos_max) as [Hns|]; [|discriminate]. inj_cs He.
      assert (Hs': s <= umax B64) by (cbn [imax umax] in *; lia).
      cbn [decode_ty]. apply bind_eoi. now apply dec_duration_pfx.
  Qed.
End PrefixThm.

Theorem prefix_eoi : forall c t v cs k fuel,
  ty_ok t = true -> rt_ok t = true -> encode_ty t v = Some cs -> len (flat cs) < two64 ->
  (k < length (flat cs))%nat -> (k < fuel)%nat ->
  exists q, decode_ty c t fuel (start (firstn k (flat cs))) = (Err EndOfInput, q).
Proof.
  intros c t v cs k fuel Hok Hrt He H64 Hk Hfu. unfold start.
  apply (prefix_all c fuel t Hok Hrt v cs k 0 _ He H64 Hk); [|exact Hfu].
  rewrite len_firstn by lia. lia.
Qed.

Theorem prefix_eoi_auto : forall c t v cs k,
  ty_ok t = true -> rt_ok t = true -> encode_ty t v = Some cs -> len (flat cs) < two64 ->
  (k < length (flat cs))%nat ->
  exists q, run (decode_auto c t) (firstn k (flat cs)) = (Err EndOfInput, q).
Proof.
  intros c t v cs k Hok Hrt He H64 Hk. unfold run, decode_auto, fuel_of.
  apply (prefix_eoi c t v cs k _ Hok Hrt He H64 Hk). unfold start. cbn [drest].
  rewrite firstn_length. lia.
Qed.
