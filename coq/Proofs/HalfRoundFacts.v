(* Proofs/HalfRoundFacts.v — half's software f32 -> f16 conversion is IEEE roundTiesToEven (C12_round):
   both sides are brought to the same arithmetic normal form over the three fields of the operand. *)
From MC Require Import Bytes Half Float16 RoundFacts HalfFacts.
From Coq Require Import Lia.
Local Open Scope N_scope.
Ltac Zify.zify_post_hook ::= Z.to_euclidean_division_equations.

Definition f32_to_f16_arith (s e m : N) : N :=
  if e =? 255 then s * 32768 + 31744 + (if m =? 0 then 0 else 512 + (m / 8192) mod 512)
  else if 143 <=? e then s * 32768 + 31744
  else if 113 <=? e then s * 32768 + (e - 112) * 1024 + m / 8192 + (if round_up_arith m 12 then 1 else 0)
  else if 102 <=? e then
    s * 32768 + (8388608 + m) / 2 ^ (126 - e) + (if round_up_arith (8388608 + m) (125 - e) then 1 else 0)
  else s * 32768.

Lemma f32_to_f16_fields s e m : s < 2 -> e < 256 -> m < 2 ^ 23 ->
  f32_to_f16 (s * 2 ^ 31 + e * 2 ^ 23 + m) = f32_to_f16_arith s e m.
Proof.
  intros Hs He Hm. unfold f32_to_f16, f32_to_f16_arith. cbv zeta.
  set (x := s * 2 ^ 31 + e * 2 ^ 23 + m).
  assert (L1: N.land x 2147483648 = s * 2 ^ 31).
  { change 2147483648 with (N.ones 1 * 2 ^ 31). rewrite land_mask. f_equal. subst x. lia. }
  assert (L2: N.land x 2139095040 = e * 2 ^ 23).
  { change 2139095040 with (N.ones 8 * 2 ^ 23). rewrite land_mask. f_equal. subst x. lia. }
  assert (L3: N.land x 8388607 = m).
  { change 8388607 with (N.ones 23). rewrite N.land_ones. subst x. lia. }
  rewrite L1, L2, L3. clearbody x. clear L1 L2 L3 x.
  replace (s * 2 ^ 31 / 65536) with (s * 32768) by lia.
  replace (e * 2 ^ 23 / 2 ^ 23) with e by lia.
  assert (S15: (s * 32768) mod 2 ^ 15 = 0) by lia.
  destruct (N.eqb_spec e 255) as [->|Ne].
  - (* infinity / NaN *)
    change (255 * 2 ^ 23 =? 2139095040) with true. cbv iota.
    rewrite (lor_disjoint (s * 32768) 31744 15) by (try exact S15; lia).
    destruct (N.eqb_spec m 0) as [->|Nm].
    + change (0 / 8192) with 0. rewrite !N.lor_0_r. lia.
    + rewrite <- N.lor_assoc.
      change 512 with (2 ^ 9) at 1. rewrite lor_pow2_low by (change (2 ^ (9 + 1)) with 1024; lia).
      rewrite (lor_disjoint (s * 32768 + 31744) _ 10) by lia.
      change (2 ^ 9) with 512. lia.
  - destruct (N.eqb_spec (e * 2 ^ 23) 2139095040) as [Q|_]; [lia|].
    destruct (Z.leb_spec 31 (Z.of_N e - 127 + 15)) as [A|A].
    + (* overflow *)
      destruct (N.leb_spec 143 e); [|lia].
      apply lor_disjoint with 15; [exact S15|lia].
    + destruct (N.leb_spec 143 e); [lia|].
      destruct (Z.leb_spec (Z.of_N e - 127 + 15) 0) as [B|B].
      * destruct (N.leb_spec 113 e); [lia|].
        destruct (Z.ltb_spec 24 (14 - (Z.of_N e - 127 + 15))) as [C|C].
        -- destruct (N.leb_spec 102 e); [lia|]. reflexivity.
        -- (* subnormal result *)
           destruct (N.leb_spec 102 e); [|lia].
           replace (Z.to_N (14 - (Z.of_N e - 127 + 15))) with (126 - e) by lia.
           replace (Z.to_N (13 - (Z.of_N e - 127 + 15))) with (125 - e) by lia.
           rewrite (N.lor_comm m 8388608), (lor_disjoint 8388608 m 23) by (try reflexivity; exact Hm).
           rewrite round_up_spec.
           assert (Q: (8388608 + m) / 2 ^ (126 - e) < 1024).
           { apply N.div_lt_upper_bound; [apply N.pow_nonzero; lia|].
             assert (2 ^ 14 <= 2 ^ (126 - e)) by (apply N.pow_le_mono_r; lia). lia. }
           set (hm := (8388608 + m) / 2 ^ (126 - e)) in *. clearbody hm.
           destruct (round_up_arith (8388608 + m) (125 - e)).
           ++ rewrite (lor_disjoint (s * 32768) (hm + 1) 15) by (try exact S15; lia). lia.
           ++ rewrite (lor_disjoint (s * 32768) hm 15) by (try exact S15; lia). lia.
      * (* normal result *)
        destruct (N.leb_spec 113 e); [|lia].
        replace (Z.to_N (Z.of_N e - 127 + 15)) with (e - 112) by lia.
        change 4096 with (2 ^ 12). rewrite round_up_spec.
        rewrite (lor_disjoint (s * 32768) ((e - 112) * 1024) 15) by (try exact S15; lia).
        rewrite (lor_disjoint (s * 32768 + (e - 112) * 1024) (m / 8192) 10) by lia.
        destruct (round_up_arith m 12); lia.
Qed.


(* ---- the specification side ---- *)
Lemma odd_N_mod q : N.odd q = (q mod 2 =? 1).
Proof. rewrite <- N.bit0_odd. apply N.bit0_eqb. Qed.
Lemma even_Z_mod z : Z.even z = negb (z mod 2 =? 1)%Z.
Proof. rewrite Zeven.Zeven_odd_bool, <- Z.bit0_odd, Z.bit0_eqb. reflexivity. Qed.

Lemma rne_div_pow2 a k :
  rne_div (Z.of_N a) (2 ^ Z.of_N (k + 1)) = Z.of_N (a / 2 ^ (k + 1) + (if round_up_arith a k then 1 else 0)).
Proof.
  unfold rne_div, round_up_arith. cbv zeta.
  replace (2 ^ Z.of_N (k + 1))%Z with (Z.of_N (2 ^ (k + 1))) by lia.
  rewrite <- N2Z.inj_div, <- N2Z.inj_mod.
  rewrite pow2_succ.
  assert (P: 0 < 2 ^ k) by (apply N.neq_0_lt_0, N.pow_nonzero; lia).
  set (p := 2 ^ k) in *. clearbody p.
  assert (Hr: a mod (2 * p) < 2 * p) by (apply N.mod_lt; lia).
  set (q := a / (2 * p)). set (r := a mod (2 * p)) in *. clearbody q r.
  rewrite even_Z_mod, odd_N_mod.
  destruct (Z.ltb_spec (2 * Z.of_N r) (Z.of_N (2 * p))) as [A|A].
  - destruct (N.ltb_spec p r); [lia|]. destruct (N.eqb_spec r p); [lia|]. cbn [orb andb]. lia.
  - destruct (Z.ltb_spec (Z.of_N (2 * p)) (2 * Z.of_N r)) as [B|B].
    + destruct (N.ltb_spec p r); [|lia]. cbn [orb]. lia.
    + destruct (N.ltb_spec p r); [lia|]. destruct (N.eqb_spec r p); [|lia]. cbn [orb andb].
      destruct (Z.eqb_spec (Z.of_N q mod 2) 1); destruct (N.eqb_spec (q mod 2) 1); cbn [negb]; lia.
Qed.

Lemma rne_div_small a b : (0 <= a)%Z -> (2 * a < b)%Z -> rne_div a b = 0%Z.
Proof.
  intros Ha Hb. unfold rne_div. rewrite Z.div_small, Z.mod_small by lia.
  destruct (Z.ltb_spec (2 * a) b); [reflexivity|lia].
Qed.

Lemma pow2_pow k : (0 <= k)%Z -> pow2 k = (2 ^ k)%Z.
Proof. intro H. unfold pow2. rewrite scale_pow by exact H. lia. Qed.

Lemma round_mag16 M E : round_mag binary16 M E =
  (let q := Z.max (-24) (Z.log2 M + E - 10) in
   let n := if q <=? E then M * 2 ^ (E - q) else rne_div M (2 ^ (q - E)) in
   if 2047 * 2 ^ 29 <? n * 2 ^ (q + 24) then 31744 else (q + 24) * 1024 + n)%Z.
Proof.
  unfold round_mag. cbn [mbits ebits binary16].
  change (fbias binary16) with 15%Z. change (fqmin binary16) with (-24)%Z. cbv zeta.
  set (q := Z.max (-24) (Z.log2 M + E - 10)).
  assert (Hq: (-24 <= q)%Z) by (subst q; lia).
  change (pow2 (10 + 1) - 1)%Z with 2047%Z. change (15 - 10 - -24)%Z with 29%Z.
  change (pow2 5 - 1)%Z with 31%Z.
  rewrite !(scale_pow _ 29), !(scale_pow _ 10) by lia.
  replace (q - -24)%Z with (q + 24)%Z by lia.
  rewrite (scale_pow _ (q + 24)) by lia.
  destruct (Z.leb_spec q E) as [A|A].
  - rewrite scale_pow by lia. reflexivity.
  - rewrite pow2_pow by lia. reflexivity.
Qed.

Lemma rne16_fields s e m : s < 2 -> e < 256 -> m < 2 ^ 23 ->
  rne16 (s * 2 ^ 31 + e * 2 ^ 23 + m) = f32_to_f16_arith s e m.
Proof.
  intros Hs He Hm. unfold rne16, f32_to_f16_arith.
  rewrite fdecode32_fields by assumption.
  assert (SB: forall b, fsign_bit binary16 b = (if b then 32768 else 0)%Z) by (intros []; reflexivity).
  assert (SN: Z.of_N (s * 32768) = if s =? 1 then 32768%Z else 0%Z).
  { assert (s = 0 \/ s = 1) as [->| ->] by lia; reflexivity. }
  destruct (N.eqb_spec e 255) as [->|Ne].
  - destruct (N.eqb_spec m 0) as [->|Nm].
    + cbn [encode_rne]. rewrite SB. cbn [ebits mbits binary16].
      change (scale (pow2 5 - 1) 10) with 31744%Z. lia.
    + cbn [encode_rne]. rewrite SB.
      set (x := s * 2 ^ 31 + 255 * 2 ^ 23 + m).
      assert (F1: fld_sign binary32 (Z.of_N x) = (s =? 1)).
      { unfold fld_sign. cbn [mbits ebits binary32]. change (pow2 (23 + 8)) with 2147483648%Z.
        replace (Z.of_N x / 2147483648)%Z with (Z.of_N s) by (subst x; lia).
        assert (s = 0 \/ s = 1) as [->| ->] by lia; reflexivity. }
      assert (F2: fld_man binary32 (Z.of_N x) = Z.of_N m).
      { unfold fld_man. cbn [mbits binary32]. change (pow2 23) with 8388608%Z. subst x. lia. }
      rewrite F1, F2. change (scale 31 10) with 31744%Z. change (pow2 9) with 512%Z. change (pow2 13) with 8192%Z.
      lia.
  - assert (FIN: forall M E,
       (forall n, round_mag binary16 M E = Z.of_N n ->
        Z.to_N (fsign_bit binary16 (s =? 1) + round_mag binary16 M E) = s * 32768 + n)).
    { intros M E n Hn. rewrite Hn, SB. lia. }
    destruct (N.eqb_spec e 0) as [->|Ne0].
    + destruct (N.leb_spec 143 0); [lia|]. destruct (N.leb_spec 113 0); [lia|]. destruct (N.leb_spec 102 0); [lia|].
      destruct (N.eqb_spec m 0) as [->|Nm].
      * cbn [encode_rne]. rewrite SB. lia.
      * cbn [encode_rne]. rewrite (FIN _ _ 0); [lia|].
        rewrite round_mag16. cbv zeta.
        assert (L: (Z.log2 (Z.of_N m) < 23)%Z) by (apply Z.log2_lt_pow2; lia).
        pose proof (Z.log2_nonneg (Z.of_N m)) as L0.
        rewrite Z.max_l by lia.
        destruct (Z.leb_spec (-24) (-149)); [lia|].
        change (-24 - -149)%Z with 125%Z. rewrite rne_div_small by lia. reflexivity.
    + cbn [encode_rne].
      assert (LG: Z.log2 (8388608 + Z.of_N m) = 23%Z) by (apply Z.log2_unique; lia).
      assert (R: round_mag binary16 (8388608 + Z.of_N m) (Z.of_N e - 150) =
        (let q := Z.max (-24) (Z.of_N e - 137) in
         let n := rne_div (8388608 + Z.of_N m) (2 ^ (q - (Z.of_N e - 150))) in
         if 2047 * 2 ^ 29 <? n * 2 ^ (q + 24) then 31744 else (q + 24) * 1024 + n)%Z).
      { rewrite round_mag16, LG. cbv zeta.
        replace (23 + (Z.of_N e - 150) - 10)%Z with (Z.of_N e - 137)%Z by lia.
        destruct (Z.leb_spec (Z.max (-24) (Z.of_N e - 137)) (Z.of_N e - 150)); [lia|reflexivity]. }
      cbv zeta in R.
      destruct (N.leb_spec 143 e) as [A|A].
      * (* overflow *)
        rewrite (FIN _ _ 31744); [lia|]. rewrite R.
        rewrite Z.max_r by lia.
        replace (Z.of_N e - 137 - (Z.of_N e - 150))%Z with (Z.of_N (12 + 1)) by lia.
        replace (8388608 + Z.of_N m)%Z with (Z.of_N (8388608 + m)) by lia.
        rewrite rne_div_pow2.
        assert (Q: 1024 <= (8388608 + m) / 2 ^ (12 + 1)) by (change (2 ^ (12 + 1)) with 8192; lia).
        set (n := (8388608 + m) / 2 ^ (12 + 1) + (if round_up_arith (8388608 + m) 12 then 1 else 0)).
        assert (Hn: 1024 <= n) by (subst n; destruct (round_up_arith (8388608 + m) 12); lia).
        clearbody n.
        assert (PW: (2 ^ 30 <= 2 ^ (Z.of_N e - 137 + 24))%Z) by (apply Z.pow_le_mono_r; lia).
        destruct (Z.ltb_spec (2047 * 2 ^ 29) (Z.of_N n * 2 ^ (Z.of_N e - 137 + 24))); [reflexivity|nia].
      * destruct (N.leb_spec 113 e) as [B|B].
        -- (* normal result *)
           set (ru := if round_up_arith m 12 then 1 else 0).
           assert (RU: ru <= 1) by (subst ru; destruct (round_up_arith m 12); lia).
           assert (RN: rne_div (8388608 + Z.of_N m) (2 ^ 13) = Z.of_N (1024 + m / 8192 + ru)).
           { replace (8388608 + Z.of_N m)%Z with (Z.of_N (8388608 + m)) by lia.
             change 13%Z with (Z.of_N (12 + 1)). rewrite rne_div_pow2. f_equal.
             assert (RA: round_up_arith (8388608 + m) 12 = round_up_arith m 12).
             { unfold round_up_arith. cbv zeta. change (2 ^ (12 + 1)) with 8192. change (2 ^ 12) with 4096.
               replace ((8388608 + m) mod 8192) with (m mod 8192) by lia.
               replace ((8388608 + m) / 8192) with (1024 + m / 8192) by lia.
               rewrite !odd_N_mod. replace ((1024 + m / 8192) mod 2) with ((m / 8192) mod 2) by lia. reflexivity. }
             rewrite RA. fold ru. change (2 ^ (12 + 1)) with 8192. lia. }
           rewrite (FIN _ _ ((e - 112) * 1024 + m / 8192 + ru)); [lia|]. rewrite R.
           rewrite Z.max_r by lia.
           replace (Z.of_N e - 137 - (Z.of_N e - 150))%Z with 13%Z by lia.
           rewrite RN.
           assert (MQ: m / 8192 < 1024) by lia.
           set (mq := m / 8192) in *. clearbody mq ru.
           replace (Z.of_N e - 137 + 24)%Z with (Z.of_N e - 113)%Z by lia.
           destruct (N.eq_dec e 142) as [->|N142].
           ++ change (Z.of_N 142 - 113)%Z with 29%Z.
              destruct (Z.ltb_spec (2047 * 2 ^ 29) (Z.of_N (1024 + mq + ru) * 2 ^ 29)); lia.
           ++ assert (PW: (2 ^ (Z.of_N e - 113) <= 2 ^ 28)%Z) by (apply Z.pow_le_mono_r; lia).
              assert (PW0: (0 < 2 ^ (Z.of_N e - 113))%Z) by (apply Z.pow_pos_nonneg; lia).
              destruct (Z.ltb_spec (2047 * 2 ^ 29) (Z.of_N (1024 + mq + ru) * 2 ^ (Z.of_N e - 113))); [nia|lia].
        -- destruct (N.leb_spec 102 e) as [C|C].
           ++ (* subnormal result *)
              rewrite (FIN _ _ ((8388608 + m) / 2 ^ (126 - e) + (if round_up_arith (8388608 + m) (125 - e) then 1 else 0))); [lia|].
              rewrite R. rewrite Z.max_l by lia.
              replace (-24 - (Z.of_N e - 150))%Z with (Z.of_N (125 - e + 1)) by lia.
              replace (8388608 + Z.of_N m)%Z with (Z.of_N (8388608 + m)) by lia.
              rewrite rne_div_pow2. replace (125 - e + 1) with (126 - e) by lia.
              assert (Q: (8388608 + m) / 2 ^ (126 - e) < 1024).
              { apply N.div_lt_upper_bound; [apply N.pow_nonzero; lia|].
                assert (2 ^ 14 <= 2 ^ (126 - e)) by (apply N.pow_le_mono_r; lia). lia. }
              set (n := (8388608 + m) / 2 ^ (126 - e) + (if round_up_arith (8388608 + m) (125 - e) then 1 else 0)).
              assert (Hn: n <= 1024) by (subst n; destruct (round_up_arith (8388608 + m) (125 - e)); lia).
              clearbody n. change (-24 + 24)%Z with 0%Z.
              destruct (Z.ltb_spec (2047 * 2 ^ 29) (Z.of_N n * 2 ^ 0)); lia.
           ++ (* below half of the smallest subnormal: zero *)
              rewrite (FIN _ _ 0); [lia|]. rewrite R. rewrite Z.max_l by lia.
              assert (PW: (2 ^ 25 <= 2 ^ (-24 - (Z.of_N e - 150)))%Z) by (apply Z.pow_le_mono_r; lia).
              rewrite rne_div_small by lia. reflexivity.
Qed.

Lemma round_eq x : x < 2 ^ 32 -> f32_to_f16 x = rne16 x.
Proof.
  intro H. destruct (f32_split x H) as (s & e & m & Hs & He & Hm & ->).
  rewrite f32_to_f16_fields, rne16_fields by assumption. reflexivity.
Qed.


(* ---- corollaries of round_eq ---- *)
Lemma fdecode16_unfold x : fdecode binary16 x =
  (let b := Z.of_N x in let m := b mod 1024 in let e := (b / 1024) mod 32 in let s := Z.odd (b / 32768) in
  if e =? 31 then (if m =? 0 then FInf s else FNan)
  else if e =? 0 then (if m =? 0 then FZero s else FFin s m (-24))
  else FFin s (1024 + m) (e - 15 - 10))%Z.
Proof. reflexivity. Qed.

Lemma nan16_iff h : h < 65536 -> fv_is_nan (fdecode binary16 h) = (31744 <? h mod 32768).
Proof.
  intro H. rewrite fdecode16_unfold. cbv zeta.
  set (b := Z.of_N h).
  destruct (Z.eqb_spec ((b / 1024) mod 32) 31) as [A|A].
  - destruct (Z.eqb_spec (b mod 1024) 0) as [B|B]; cbn [fv_is_nan];
    destruct (N.ltb_spec 31744 (h mod 32768)); subst b; lia.
  - destruct (Z.eqb_spec ((b / 1024) mod 32) 0) as [B|B];
    [destruct (Z.eqb_spec (b mod 1024) 0)|]; cbn [fv_is_nan];
    destruct (N.ltb_spec 31744 (h mod 32768)); subst b; lia.
Qed.

Lemma f32_to_f16_arith_range s e m : s < 2 -> e < 256 -> m < 2 ^ 23 ->
  f32_to_f16_arith s e m < 65536 /\
  (f32_to_f16_arith s e m) mod 32768 =
    if e =? 255 then 31744 + (if m =? 0 then 0 else 512 + (m / 8192) mod 512)
    else if 143 <=? e then 31744
    else if 113 <=? e then (e - 112) * 1024 + m / 8192 + (if round_up_arith m 12 then 1 else 0)
    else if 102 <=? e then (8388608 + m) / 2 ^ (126 - e) + (if round_up_arith (8388608 + m) (125 - e) then 1 else 0)
    else 0.
Proof.
  intros Hs He Hm. unfold f32_to_f16_arith.
  destruct (N.eqb_spec e 255); [destruct (N.eqb_spec m 0); lia|].
  destruct (N.leb_spec 143 e); [lia|].
  destruct (N.leb_spec 113 e); [destruct (round_up_arith m 12); lia|].
  destruct (N.leb_spec 102 e); [|lia].
  assert (Q: (8388608 + m) / 2 ^ (126 - e) < 1024).
  { apply N.div_lt_upper_bound; [apply N.pow_nonzero; lia|].
    assert (2 ^ 14 <= 2 ^ (126 - e)) by (apply N.pow_le_mono_r; lia). lia. }
  set (hm := (8388608 + m) / 2 ^ (126 - e)) in *. clearbody hm.
  destruct (round_up_arith (8388608 + m) (125 - e)); lia.
Qed.

(* NaN -> NaN, and nothing else becomes a NaN *)
Lemma round_nan x : x < 2 ^ 32 ->
  fv_is_nan (fdecode binary16 (f32_to_f16 x)) = fv_is_nan (fdecode binary32 x).
Proof.
  intro H. destruct (f32_split x H) as (s & e & m & Hs & He & Hm & ->).
  rewrite f32_to_f16_fields, fdecode32_fields by assumption.
  destruct (f32_to_f16_arith_range s e m Hs He Hm) as [R1 R2].
  rewrite nan16_iff by exact R1. rewrite R2.
  destruct (N.eqb_spec e 255).
  - destruct (N.eqb_spec m 0); cbn [fv_is_nan]; [destruct (N.ltb_spec 31744 (31744 + 0))|destruct (N.ltb_spec 31744 (31744 + (512 + (m / 8192) mod 512)))]; lia.
  - assert (NN: forall v, (if e =? 0 then if m =? 0 then FZero (s =? 1) else FFin (s =? 1) (Z.of_N m) (-149)
                           else v) = v \/ True) by (intros; right; exact I).
    assert (F: fv_is_nan (if e =? 0 then if m =? 0 then FZero (s =? 1) else FFin (s =? 1) (Z.of_N m) (-149)
                          else FFin (s =? 1) (8388608 + Z.of_N m) (Z.of_N e - 150)) = false).
    { destruct (e =? 0); [destruct (m =? 0)|]; reflexivity. }
    rewrite F. apply N.ltb_ge.
    destruct (N.leb_spec 143 e); [lia|].
    destruct (N.leb_spec 113 e); [destruct (round_up_arith m 12); lia|].
    destruct (N.leb_spec 102 e); [|lia].
    assert (Q: (8388608 + m) / 2 ^ (126 - e) < 1024).
    { apply N.div_lt_upper_bound; [apply N.pow_nonzero; lia|].
      assert (2 ^ 14 <= 2 ^ (126 - e)) by (apply N.pow_le_mono_r; lia). lia. }
    set (hm := (8388608 + m) / 2 ^ (126 - e)) in *. clearbody hm.
    destruct (round_up_arith (8388608 + m) (125 - e)); lia.
Qed.

(* a finite operand becomes an infinity exactly when its magnitude is at least 65520 *)
Lemma round_overflow x : x < 2 ^ 32 -> fv_is_finite (fdecode binary32 x) = true ->
  ((f32_to_f16 x) mod 32768 =? 31744) = overflows16 (fdecode binary32 x).
Proof.
  intros H. destruct (f32_split x H) as (s & e & m & Hs & He & Hm & ->).
  rewrite f32_to_f16_fields by assumption. rewrite fdecode32_fields by assumption.
  destruct (f32_to_f16_arith_range s e m Hs He Hm) as [_ R2]. rewrite R2. clear R2.
  destruct (N.eqb_spec e 255); [destruct (m =? 0); intro D; discriminate D|].
  intros _.
  destruct (N.eqb_spec e 0) as [->|Ne0].
  - destruct (N.leb_spec 143 0); [lia|]. destruct (N.leb_spec 113 0); [lia|]. destruct (N.leb_spec 102 0); [lia|].
    destruct (N.eqb_spec m 0); [reflexivity|]. cbn [overflows16].
    change (0 <=? -149)%Z with false. cbv iota. rewrite scale_pow by lia.
    destruct (Z.leb_spec (65520 * 2 ^ (- -149)) (Z.of_N m)); [lia|reflexivity].
  - cbn [overflows16].
    destruct (N.leb_spec 143 e) as [A|A].
    + change (31744 =? 31744) with true. symmetry.
      destruct (Z.leb_spec 0 (Z.of_N e - 150)) as [B|B].
      * rewrite scale_pow by lia. apply Z.leb_le.
        assert (0 < 2 ^ (Z.of_N e - 150))%Z by (apply Z.pow_pos_nonneg; lia). nia.
      * rewrite scale_pow by lia. apply Z.leb_le.
        assert (2 ^ (- (Z.of_N e - 150)) <= 2 ^ 7)%Z by (apply Z.pow_le_mono_r; lia). lia.
    + destruct (Z.leb_spec 0 (Z.of_N e - 150)) as [B|B]; [lia|]. rewrite scale_pow by lia.
      destruct (N.leb_spec 113 e) as [C|C].
      * destruct (N.eq_dec e 142) as [->|N142].
        -- change (- (Z.of_N 142 - 150))%Z with 8%Z.
           unfold round_up_arith. cbv zeta. change (2 ^ (12 + 1)) with 8192. change (2 ^ 12) with 4096.
           rewrite odd_N_mod.
           destruct (N.ltb_spec 4096 (m mod 8192)); destruct (N.eqb_spec (m mod 8192) 4096);
           destruct (N.eqb_spec ((m / 8192) mod 2) 1); cbn [orb andb];
           match goal with |- (?a =? ?b) = (?c <=? ?d)%Z => destruct (N.eqb_spec a b); destruct (Z.leb_spec c d) end; lia.
        -- assert (2 ^ 9 <= 2 ^ (- (Z.of_N e - 150)))%Z by (apply Z.pow_le_mono_r; lia).
           destruct (Z.leb_spec (65520 * 2 ^ (- (Z.of_N e - 150))) (8388608 + Z.of_N m)); [lia|].
           apply N.eqb_neq. destruct (round_up_arith m 12); lia.
      * assert (2 ^ 9 <= 2 ^ (- (Z.of_N e - 150)))%Z by (apply Z.pow_le_mono_r; lia).
        destruct (Z.leb_spec (65520 * 2 ^ (- (Z.of_N e - 150))) (8388608 + Z.of_N m)); [lia|].
        apply N.eqb_neq.
        destruct (N.leb_spec 102 e); [|lia].
        assert (Q: (8388608 + m) / 2 ^ (126 - e) < 1024).
        { apply N.div_lt_upper_bound; [apply N.pow_nonzero; lia|].
          assert (2 ^ 14 <= 2 ^ (126 - e)) by (apply N.pow_le_mono_r; lia). lia. }
        set (hm := (8388608 + m) / 2 ^ (126 - e)) in *. clearbody hm.
        destruct (round_up_arith (8388608 + m) (125 - e)); lia.
Qed.

(* the sign is kept *)
Lemma round_sign x : x < 2 ^ 32 -> (f32_to_f16 x) / 32768 = x / 2 ^ 31.
Proof.
  intro H. destruct (f32_split x H) as (s & e & m & Hs & He & Hm & ->).
  rewrite f32_to_f16_fields by assumption.
  destruct (f32_to_f16_arith_range s e m Hs He Hm) as [R1 R2].
  assert (B: (f32_to_f16_arith s e m) mod 32768 < 32768) by (apply N.mod_lt; lia).
  assert (S: f32_to_f16_arith s e m = s * 32768 + (f32_to_f16_arith s e m) mod 32768).
  { unfold f32_to_f16_arith in *.
    destruct (e =? 255); [|destruct (143 <=? e); [|destruct (113 <=? e); [|destruct (102 <=? e)]]];
    match goal with |- ?a = _ => set (v := a) in * end; lia. }
  rewrite S. lia.
Qed.


(* decoding a half and re-encoding it gives the pattern back (every non-NaN pattern) *)
Lemma half_round_trip : forall h, h < 65536 ->
  fv_is_nan (fdecode binary16 h) = false -> f32_to_f16 (f16_to_f32 h) = h.
Proof.
  intros h Hh N.
  assert (A: (fv_is_nan (fdecode binary16 h) || (f32_to_f16 (f16_to_f32 h) =? h)) = true).
  { revert h Hh N. intros h Hh _. revert h Hh. apply forall16. vm_compute. reflexivity. }
  rewrite N in A. apply N.eqb_eq. exact A.
Qed.

Lemma feq_sym a b : feq a b = feq b a.
Proof.
  destruct a as [|s1|s1|s1 m1 e1], b as [|s2|s2|s2 m2 e2]; cbn [feq]; try reflexivity;
  try (destruct s1, s2; reflexivity).
  rewrite (Z.min_comm e2 e1), (Z.eqb_sym (scale m2 _)). destruct s1, s2; reflexivity.
Qed.

Lemma feq_nan_l a b : feq a b = true -> fv_is_nan a = fv_is_nan b.
Proof. destruct a, b; cbn; congruence. Qed.

(* a non-NaN datum has exactly one binary32 pattern *)
Lemma fdecode32_inj x y : x < 2 ^ 32 -> y < 2 ^ 32 ->
  fv_is_nan (fdecode binary32 x) = false ->
  feq (fdecode binary32 x) (fdecode binary32 y) = true -> x = y.
Proof.
  intros Hx Hy.
  destruct (f32_split x Hx) as (s & e & m & Hs & He & Hm & ->).
  destruct (f32_split y Hy) as (s' & e' & m' & Hs' & He' & Hm' & ->).
  rewrite !fdecode32_fields by assumption.
  assert (SS: forall P : Prop, (s = s' -> P) -> Bool.eqb (s =? 1) (s' =? 1) = true -> P).
  { intros P HP Q. apply HP. apply Bool.eqb_prop in Q.
    assert (s = 0 \/ s = 1) as [->| ->] by lia; assert (s' = 0 \/ s' = 1) as [->| ->] by lia;
    try reflexivity; discriminate Q. }
  assert (PW: forall d, (0 < d)%Z -> (2 <= 2 ^ d)%Z).
  { intros d Hd. change 2%Z with (2 ^ 1)%Z at 1. apply Z.pow_le_mono_r; lia. }
  destruct (N.eqb_spec e 255) as [->|Ne]; [destruct (N.eqb_spec m 0) as [->|Nm]; [|discriminate]|].
  - intros _. destruct (N.eqb_spec e' 255) as [->|Ne']; [destruct (N.eqb_spec m' 0) as [->|Nm']|destruct (e' =? 0); [destruct (m' =? 0)|]];
    cbn [feq]; try discriminate. apply SS. intros ->. reflexivity.
  - intros _.
    destruct (N.eqb_spec e 0) as [->|Ne0]; [destruct (N.eqb_spec m 0) as [->|Nm]|].
    + destruct (N.eqb_spec e' 255) as [->|Ne']; [destruct (m' =? 0); discriminate|].
      destruct (N.eqb_spec e' 0) as [->|Ne0']; [destruct (N.eqb_spec m' 0) as [->|Nm']|]; cbn [feq]; try discriminate.
      apply SS. intros ->. reflexivity.
    + destruct (N.eqb_spec e' 255) as [->|Ne']; [destruct (m' =? 0); discriminate|].
      destruct (N.eqb_spec e' 0) as [->|Ne0']; [destruct (N.eqb_spec m' 0) as [->|Nm']|]; cbn [feq]; try discriminate.
      * intro Q. apply andb_true_iff in Q. destruct Q as [Q1 Q2]. revert Q1. apply SS. intros ->.
        cbv zeta in Q2. rewrite Z.min_id, Z.sub_diag in Q2. rewrite !scale_pow in Q2 by lia.
        apply Z.eqb_eq in Q2. lia.
      * intro Q. apply andb_true_iff in Q. destruct Q as [_ Q2]. exfalso.
        cbv zeta in Q2. rewrite Z.min_l in Q2 by lia. rewrite !scale_pow in Q2 by lia.
        apply Z.eqb_eq in Q2. rewrite Z.sub_diag in Q2.
        assert (0 < 2 ^ (Z.of_N e' - 150 - -149))%Z by (apply Z.pow_pos_nonneg; lia). nia.
    + destruct (N.eqb_spec e' 255) as [->|Ne']; [destruct (m' =? 0); discriminate|].
      destruct (N.eqb_spec e' 0) as [->|Ne0']; [destruct (N.eqb_spec m' 0) as [->|Nm']|]; cbn [feq]; try discriminate.
      * intro Q. apply andb_true_iff in Q. destruct Q as [_ Q2]. exfalso.
        cbv zeta in Q2. rewrite Z.min_r in Q2 by lia. rewrite !scale_pow in Q2 by lia.
        apply Z.eqb_eq in Q2. rewrite Z.sub_diag in Q2.
        assert (0 < 2 ^ (Z.of_N e - 150 - -149))%Z by (apply Z.pow_pos_nonneg; lia). nia.
      * intro Q. apply andb_true_iff in Q. destruct Q as [Q1 Q2]. revert Q1. apply SS. intros ->.
        cbv zeta in Q2. apply Z.eqb_eq in Q2.
        destruct (Z.lt_trichotomy (Z.of_N e) (Z.of_N e')) as [L|[L|L]].
        -- exfalso. rewrite Z.min_l in Q2 by lia. rewrite !scale_pow in Q2 by lia. rewrite Z.sub_diag in Q2.
           pose proof (PW (Z.of_N e' - 150 - (Z.of_N e - 150))%Z ltac:(lia)). nia.
        -- assert (e = e') by lia. subst e'. rewrite Z.min_id, Z.sub_diag in Q2. rewrite !scale_pow in Q2 by lia. lia.
        -- exfalso. rewrite Z.min_r in Q2 by lia. rewrite !scale_pow in Q2 by lia. rewrite Z.sub_diag in Q2.
           pose proof (PW (Z.of_N e - 150 - (Z.of_N e' - 150))%Z ltac:(lia)). nia.
Qed.

(* exact on every half-representable value: if the operand denotes what the half pattern h denotes, h is the result *)
Lemma round_exact x h : x < 2 ^ 32 -> h < 65536 ->
  fv_is_nan (fdecode binary16 h) = false ->
  feq (fdecode binary32 x) (fdecode binary16 h) = true -> f32_to_f16 x = h.
Proof.
  intros Hx Hh N Q.
  assert (E: x = f16_to_f32 h).
  { apply fdecode32_inj; [exact Hx|apply N.ltb_lt, half_range, Hh| |].
    - rewrite (feq_nan_l _ _ Q). exact N.
    - apply feq_trans with (fdecode binary16 h); [exact Q|]. rewrite feq_sym. apply half_exact, Hh. }
  rewrite E. apply half_round_trip; assumption.
Qed.

(* ---- the hypotheses of the lemmas above are satisfiable by non-trivial instances ---- *)
(* 65520 = 0x477ff000 is finite and overflows; 65519.996 = 0x477fefff is finite and does not *)
Example overflow_instance :
  fdecode binary32 0x477ff000 = FFin false 16773120 (-8) /\ fv_is_finite (fdecode binary32 0x477ff000) = true /\
  overflows16 (fdecode binary32 0x477ff000) = true /\ f32_to_f16 0x477ff000 = 0x7c00 /\
  fdecode binary32 0x477fefff = FFin false 16773119 (-8) /\
  overflows16 (fdecode binary32 0x477fefff) = false /\ f32_to_f16 0x477fefff = 0x7bff.
Proof. vm_compute. repeat split. Qed.

(* 2^-24 (smallest half subnormal) as a single is 0x33800000 and denotes what the half pattern 1 denotes;
   1.0 = 0x3f800000 ~ 0x3c00; -0 ~ 0x8000 *)
Example exact_instance :
  feq (fdecode binary32 0x33800000) (fdecode binary16 1) = true /\ fv_is_nan (fdecode binary16 1) = false /\
  feq (fdecode binary32 0x3f800000) (fdecode binary16 0x3c00) = true /\
  feq (fdecode binary32 0x80000000) (fdecode binary16 0x8000) = true /\
  feq (fdecode binary32 0x80000000) (fdecode binary16 0) = false.
Proof. vm_compute. repeat split. Qed.

(* ties go to even: 1 + 2^-11 -> 1, 1 + 3 * 2^-11 -> 1 + 2^-9; 2^-25 -> 0, 3 * 2^-25 -> 2^-23;
   a signalling NaN becomes a quiet NaN with the top payload bits kept *)
Example rounding_instances :
  rne16 0x3f801000 = 0x3c00 /\ rne16 0x3f803000 = 0x3c02 /\ rne16 0x3f801001 = 0x3c01 /\
  rne16 0x33000000 = 0 /\ rne16 0x33c00000 = 2 /\ rne16 0x33000001 = 1 /\
  rne16 0x7f800001 = 0x7e00 /\ rne16 0xffa02000 = 0xff01.
Proof. vm_compute. repeat split. Qed.
