(* Proofs/AdvFacts.v — the decoder accessors only move forward: every M computation built from the
   primitives consumes a prefix of the remaining input, never panics, never runs out of fuel, and an
   Ok result has consumed at least a stated number of bytes.  Foundation for C11_bound / C19_total. *)
From MC Require Import Bytes BytesFacts Monad Utf8 Half Decoder DecoderFacts.
From Coq Require Import Lia.
Local Open Scope N_scope.

(* the position is inside the buffer and the remaining input is what is left of it *)
Definition wfd (s : dst) : Prop := dpos s + len (drest s) = dlen s.

Lemma wfd_start bs : wfd (start bs).
Proof. unfold wfd, start. cbn. lia. Qed.

(* m consumes a prefix `pre` of the remaining input; w a bounds from below what an Ok a consumed *)
Definition adv {A} (w : A -> N) (m : M A) : Prop :=
  forall s r s', m s = (r, s') ->
    exists pre, drest s = pre ++ drest s' /\ dpos s' = dpos s + len pre /\ dlen s' = dlen s
                /\ ((exists a, r = Ok a /\ w a <= len pre) \/ (exists e, r = Err e)).

Lemma adv_wfd {A} (w : A -> N) m s r s' : adv w m -> m s = (r, s') -> wfd s -> wfd s'.
Proof.
  intros Ha E Hw. destruct (Ha _ _ _ E) as (pre & E1 & E2 & E3 & _).
  unfold wfd in *. rewrite E1, len_app in Hw. lia.
Qed.

Ltac adv_ex p := exists p; split; [|split; [|split]].

Lemma adv_weaken {A} (w w' : A -> N) m : adv w m -> (forall a, w' a <= w a) -> adv w' m.
Proof.
  intros Ha Hle s r s' E. destruct (Ha _ _ _ E) as (pre & E1 & E2 & E3 & [(a & -> & Hl)|(e & ->)]);
    adv_ex pre; auto.
  - left. exists a. split; [reflexivity|]. specialize (Hle a). lia.
  - right. eauto.
Qed.

Lemma adv_ret {A} (w : A -> N) a : w a = 0 -> adv w (ret a).
Proof.
  intros H s r s' E. injection E as <- <-. adv_ex (@nil N); rewrite ?len_nil; cbn; try lia; try reflexivity.
  left. exists a. split; [reflexivity|]. change (len []) with 0. lia.
Qed.

Lemma adv_fail {A} (w : A -> N) e : adv w (fail e).
Proof.
  intros s r s' E. injection E as <- <-. adv_ex (@nil N); rewrite ?len_nil; cbn; try lia; try reflexivity. right. eauto.
Qed.

Lemma adv_bind {A B} (w1 : A -> N) (W : B -> N) (m : M A) (f : A -> M B) :
  adv w1 m -> (forall a, adv (fun b => W b - w1 a) (f a)) -> adv W (bind m f).
Proof.
  intros Hm Hf s r s' E. unfold bind in E.
  destruct (m s) as [r1 s1] eqn:E1.
  destruct (Hm _ _ _ E1) as (pre1 & P1 & P2 & P3 & [(a & -> & Hl)|(e & ->)]).
  - destruct (Hf a _ _ _ E) as (pre2 & Q1 & Q2 & Q3 & Q4).
    adv_ex (pre1 ++ pre2).
    + rewrite <- app_assoc, <- Q1. exact P1.
    + rewrite len_app. lia.
    + congruence.
    + destruct Q4 as [(b & -> & Hb)|(e & ->)]; [left|right; eauto].
      exists b. split; [reflexivity|]. rewrite len_app. lia.
  - injection E as <- <-. adv_ex pre1; auto. right. eauto.
Qed.

Lemma adv_fmap {A B} (w1 : A -> N) (W : B -> N) (g : A -> B) (m : M A) :
  adv w1 m -> (forall a, W (g a) <= w1 a) -> adv W (fmap g m).
Proof.
  intros Hm Hle. unfold fmap. eapply adv_bind; [exact Hm|]. intro a. apply adv_ret. specialize (Hle a). lia.
Qed.

Lemma adv_read : adv (fun _ => 1) read.
Proof.
  intros s r s' E. unfold read in E. destruct (drest s) as [|b t] eqn:D.
  - injection E as <- <-. adv_ex (@nil N); rewrite ?D, ?len_nil; cbn; try lia; try reflexivity. right. eauto.
  - injection E as <- <-. adv_ex [b]; rewrite ?len_cons, ?len_nil; cbn; try lia; try reflexivity. left. exists b. split; [reflexivity|].
    change (len [b]) with 1. lia.
Qed.

Lemma adv_current : adv (fun _ => 0) current.
Proof.
  intros s r s' E. unfold current in E.
  destruct (drest s) as [|b t] eqn:D; injection E as <- <-; adv_ex (@nil N); rewrite ?D, ?len_nil; cbn; try lia; try reflexivity.
  - right. eauto.
  - left. exists b. split; [reflexivity|]. change (len []) with 0. lia.
Qed.

Lemma adv_peek : adv (fun _ => 0) peek.
Proof.
  intros s r s' E. unfold peek in E.
  destruct (drest s) as [|b [|b1 t]] eqn:D; injection E as <- <-; adv_ex (@nil N); rewrite ?D, ?len_nil; cbn; try lia; try reflexivity;
    try (right; eauto; fail).
  left. exists b1. split; [reflexivity|]. change (len []) with 0. lia.
Qed.

Lemma adv_read_slice n : adv (fun a => len a) (read_slice n).
Proof.
  intros s r s' E. unfold read_slice in E. destruct (dlen s <? dpos s).
  - injection E as <- <-. adv_ex (@nil N); rewrite ?len_nil; cbn; try lia; try reflexivity. right. eauto.
  - destruct (take (drest s) n) as [[a t]|] eqn:T.
    + injection E as <- <-. apply take_spec in T as [T1 T2]. adv_ex a; cbn; auto; try lia.
      left. exists a. split; [reflexivity|]. lia.
    + injection E as <- <-. adv_ex (@nil N); rewrite ?len_nil; cbn; try lia; try reflexivity. right. eauto.
Qed.

Lemma adv_read_be k : adv (fun _ => 0) (read_be k).
Proof. unfold read_be. eapply adv_fmap; [apply adv_read_slice|]. intros. cbn beta. lia. Qed.

Ltac adv_basic :=
  repeat first
    [ apply adv_fail
    | apply adv_ret; cbn beta; lia
    | eapply adv_bind; [apply adv_read|intros ?]
    | eapply adv_bind; [apply adv_current|intros ?]
    | eapply adv_bind; [apply adv_peek|intros ?]
    | eapply adv_bind; [apply adv_read_be|intros ?]
    | eapply adv_weaken; [apply adv_read|cbn beta; intros; lia]
    | eapply adv_weaken; [apply adv_read_be|cbn beta; intros; lia]
    | match goal with |- adv _ (if ?c then _ else _) => destruct c end ].

Lemma adv_type_of (w : ctype -> N) n : (forall t, w t = 0) -> adv w (type_of n).
Proof.
  intro Hw. unfold type_of.
  repeat match goal with |- adv _ (if ?c then _ else _) => destruct c end;
    try (apply adv_ret; apply Hw);
    (eapply adv_bind; [apply adv_peek|intros ?]; apply adv_ret; cbn beta; rewrite Hw; lia).
Qed.

Lemma adv_mismatch {A} (w : A -> N) b : adv w (@mismatch A b).
Proof.
  unfold mismatch. eapply adv_bind; [apply (adv_type_of (fun _ => 0)); reflexivity|]. intros. apply adv_fail.
Qed.

Lemma adv_unsigned b : adv (fun _ => 0) (unsigned b).
Proof. unfold unsigned. adv_basic. apply adv_mismatch. Qed.

Lemma adv_try_as max n : adv (fun _ => 0) (try_as max n).
Proof. unfold try_as. adv_basic. Qed.

Ltac adv_tac :=
  repeat first
    [ apply adv_fail
    | apply adv_mismatch
    | apply adv_ret; cbn beta; lia
    | eapply adv_bind; [apply adv_read|intros ?]
    | eapply adv_bind; [apply adv_current|intros ?]
    | eapply adv_bind; [apply adv_peek|intros ?]
    | eapply adv_bind; [apply adv_read_be|intros ?]
    | eapply adv_bind; [apply adv_unsigned|intros ?]
    | eapply adv_bind; [apply adv_try_as|intros ?]
    | eapply adv_bind; [apply adv_read_slice|intros ?]
    | eapply adv_weaken; [apply adv_read|cbn beta; intros; lia]
    | eapply adv_weaken; [apply adv_read_be|cbn beta; intros; lia]
    | eapply adv_weaken; [apply adv_unsigned|cbn beta; intros; lia]
    | eapply adv_weaken; [apply adv_try_as|cbn beta; intros; lia]
    | eapply adv_weaken; [apply adv_read_slice|cbn beta; intros; lia]
    | match goal with |- adv _ (if ?c then _ else _) => destruct c end
    | match goal with |- adv _ (match ?o with Some _ => _ | None => _ end) => destruct o end ].

(* every accessor that starts with `read` consumes at least one byte when it succeeds *)
Lemma adv_dec_uint max : adv (fun _ => 1) (dec_uint max).
Proof. unfold dec_uint. adv_tac. Qed.
Lemma adv_dec_sint max : adv (fun _ => 1) (dec_sint max).
Proof. unfold dec_sint. adv_tac. Qed.
Lemma adv_dec_int : adv (fun _ => 1) dec_int.
Proof. unfold dec_int. adv_tac. Qed.
Lemma adv_dec_f16 : adv (fun _ => 1) dec_f16.
Proof. unfold dec_f16. adv_tac. Qed.
Lemma adv_dec_f32 c : adv (fun _ => 1) (dec_f32 c).
Proof.
  unfold dec_f32. eapply adv_bind; [apply adv_current|intros b]. cbn beta.
  destruct (c_half c && (b =? 249)).
  - eapply adv_weaken; [apply adv_dec_f16|]. intros. cbn beta. lia.
  - adv_tac.
Qed.
Lemma adv_dec_f64 c : adv (fun _ => 1) (dec_f64 c).
Proof.
  unfold dec_f64. eapply adv_bind; [apply adv_current|intros b]. cbn beta.
  destruct (c_half c && (b =? 249)).
  - eapply adv_fmap; [apply adv_dec_f16|]. intros. cbn beta. lia.
  - destruct (b =? 250).
    + eapply adv_fmap; [apply adv_dec_f32|]. intros. cbn beta. lia.
    + adv_tac.
Qed.
Lemma adv_dec_bool : adv (fun _ => 1) dec_bool.
Proof. unfold dec_bool. adv_tac. Qed.
Lemma adv_dec_bytes : adv (fun a => 1 + len a) dec_bytes.
Proof. unfold dec_bytes. adv_tac. Qed.
Lemma adv_dec_str : adv (fun a => 1 + len a) dec_str.
Proof. unfold dec_str. adv_tac. Qed.
Lemma adv_dec_container mt : adv (fun _ => 1) (dec_container mt).
Proof. unfold dec_container. adv_tac. Qed.
Lemma adv_dec_tag : adv (fun _ => 1) dec_tag.
Proof. unfold dec_tag. adv_tac. Qed.
Lemma adv_dec_simple : adv (fun _ => 1) dec_simple.
Proof. unfold dec_simple. adv_tac. Qed.
Lemma adv_datatype : adv (fun _ => 0) datatype.
Proof. unfold datatype. eapply adv_bind; [apply adv_current|intros b]. apply adv_type_of. reflexivity. Qed.
