(* Proofs/SkipNoalloc.v — Decoder::skip built without `alloc` (decoder.rs:598) against the alloc variant (C06).
   The two loops run in lockstep while the alloc variant's stack is empty; the no-alloc variant answers
   Err Message exactly where the alloc variant switches to its stack.  A syntactic class of items on
   which the switch never happens is given (noalloc_ok, Spec/Acc.v). *)
From MC Require Import Bytes BytesFacts Monad Cbor Utf8 Half Decoder Acc Accessors DecoderFacts IntFacts SkipItems SkipSim.
From Coq Require Import Lia.
Local Open Scope N_scope.

(* ---- one iteration of each loop from the same counters ---- *)
Definition srel (x : result (option skst) * dst) (y : result sknst * dst) : Prop :=
  match x, y with
  | (Ok o, s1), (Ok c', s2) =>
      s1 = s2 /\ oc o = mksk (nnr c') (nir c') [] /\ nnr c' <= u64_max /\ nir c' <= u64_max
  | (Ok o, s1), (Err Message, s2) => s1 = s2 /\ stk (oc o) <> []
  | (Err e1, s1), (Err e2, s2) => e1 = e2 /\ s1 = s2
  | (Panic, s1), (Panic, s2) => s1 = s2
  | (OutOfFuel, s1), (OutOfFuel, s2) => s1 = s2
  | _, _ => False
  end.

Lemma bind_srel {A} (m : M A) (f1 : A -> M (option skst)) (f2 : A -> M sknst) st :
  (forall a s, srel (f1 a s) (f2 a s)) -> srel (bind m f1 st) (bind m f2 st).
Proof. intro H. unfold bind. destruct (m st) as [[a|e| |] s]; cbn [srel]; auto. Qed.

Lemma mismatch_srel b s : srel (mismatch b s) (mismatch b s).
Proof. unfold mismatch. apply bind_srel. intros t s'. unfold fail. cbn [srel]. auto. Qed.

Lemma oc_after n i : oc (skip_after (mksk n i [])) = mksk (n - 1) i [].
Proof.
  unfold skip_after, counting. cbn [nr ir stk].
  destruct (N.eqb_spec n 0) as [->|]; [|reflexivity].
  destruct (N.eqb_spec i 0) as [->|]; reflexivity.
Qed.

Lemma sat_add_le a b : sat_add a b <= u64_max.
Proof. unfold sat_add. apply N.le_min_l. Qed.

Lemma oc_definite n i k : counting (mksk n i []) = true -> n <= u64_max ->
  oc (skip_after (skip_definite (mksk n i []) k)) = mksk (sat_add n k - 1) i [].
Proof.
  intros Hc Hn. unfold skip_definite. destruct (N.eqb_spec k 0) as [->|Hk].
  - rewrite oc_after. unfold sat_add. rewrite N.add_0_r, N.min_r by exact Hn. reflexivity.
  - rewrite Hc. cbn [nr ir stk]. apply oc_after.
Qed.

Lemma oc_indefinite_lt n i : counting (mksk n i []) = true -> n < 2 ->
  oc (skip_after (skip_indefinite (mksk n i []))) = mksk (n - 1) (sat_add i 1) [].
Proof.
  intros Hc Hn. unfold skip_indefinite. rewrite Hc. cbn [negb nr ir stk].
  destruct (N.ltb_spec n 2); [|lia]. apply oc_after.
Qed.

Lemma oc_indefinite_ge n i : counting (mksk n i []) = true -> 2 <= n ->
  stk (oc (skip_after (skip_indefinite (mksk n i [])))) <> [].
Proof.
  intros Hc Hn. unfold skip_indefinite. rewrite Hc. cbn [negb nr ir stk].
  destruct (N.ltb_spec n 2); [lia|]. cbn. discriminate.
Qed.

Lemma oc_break n i : counting (mksk n i []) = true ->
  oc (skip_after (skip_break (mksk n i []))) = mksk (n - 1) (i - 1) [].
Proof. intro Hc. unfold skip_break. rewrite Hc. cbn [nr ir stk]. apply oc_after. Qed.

Lemma step_rel fuel n i st : counting (mksk n i []) = true -> n <= u64_max -> i <= u64_max ->
  srel (skip_step fuel (mksk n i []) st) (skipn_step fuel (mkskn n i) st).
Proof.
  intros Hc Hn Hi. unfold skip_step, skipn_step. cbv zeta. apply bind_srel. intros b s.
  repeat match goal with |- context [if ?c then _ else _] =>
    lazymatch c with
    | N.ltb _ _ => fail
    | _ => destruct c
    end end.
  - apply bind_srel. intros a s'. unfold ret. cbn [srel nnr nir]. rewrite oc_after. repeat split; lia.
  - apply bind_srel. intros a s'. unfold ret. cbn [srel nnr nir]. rewrite oc_after. repeat split; lia.
  - apply bind_srel. intros a s'. unfold ret. cbn [srel nnr nir]. rewrite oc_after. repeat split; lia.
  - apply bind_srel. intros a s'. unfold ret. cbn [srel nnr nir]. rewrite oc_after. repeat split; lia.
  - apply bind_srel. intros [k|] s'.
    + unfold ret. cbn [srel nnr nir]. rewrite oc_definite by assumption. pose proof (sat_add_le n k). repeat split; lia.
    + cbn [nnr nir]. destruct (N.ltb_spec n 2).
      * unfold ret. cbn [srel nnr nir]. rewrite oc_indefinite_lt by assumption. pose proof (sat_add_le i 1). repeat split; lia.
      * unfold ret, fail. cbn [srel]. split; [reflexivity|]. now apply oc_indefinite_ge.
  - apply bind_srel. intros [k|] s'.
    + unfold ret. cbn [srel nnr nir]. rewrite oc_definite by assumption. pose proof (sat_add_le n (sat_mul k 2)). repeat split; lia.
    + cbn [nnr nir]. destruct (N.ltb_spec n 2).
      * unfold ret. cbn [srel nnr nir]. rewrite oc_indefinite_lt by assumption. pose proof (sat_add_le i 1). repeat split; lia.
      * unfold ret, fail. cbn [srel]. split; [reflexivity|]. now apply oc_indefinite_ge.
  - apply bind_srel. intros a s'. apply bind_srel. intros a' s''. unfold ret. cbn [srel oc nnr nir]. repeat split; lia.
  - apply bind_srel. intros a s'. apply bind_srel. intros a' s''. unfold ret. cbn [srel nnr nir]. rewrite oc_after. repeat split; lia.
  - apply bind_srel. intros a s'. unfold ret. cbn [srel nnr nir]. rewrite oc_break by assumption. repeat split; lia.
  - apply mismatch_srel.
Qed.

(* ---- the no-alloc loop refines the alloc loop up to the documented error ---- *)
Lemma counting_running n i : skip_running (mksk n i []) = counting (mksk n i []).
Proof. unfold skip_running, counting. cbn [nr ir stk]. now rewrite andb_true_r. Qed.

Lemma loops_lockstep fuel : forall n i st r st', n <= u64_max -> i <= u64_max ->
  skipn_loop fuel (mkskn n i) st = (r, st') ->
  r = Err Message \/ skip_loop fuel (mksk n i []) st = (r, st').
Proof.
  induction fuel as [|fuel IH]; intros n i st r st' Hn Hi H; cbn [skipn_loop skip_loop] in *;
  rewrite counting_running; unfold counting; cbn [nnr nir nr ir stk] in *;
  destruct (negb ((n =? 0) && (i =? 0))) eqn:Hc; try (right; exact H).
  pose proof (step_rel (S fuel) n i st Hc Hn Hi) as Hs.
  unfold bind in *.
  destruct (skip_step (S fuel) (mksk n i []) st) as [[o|e1| |] s1];
  destruct (skipn_step (S fuel) (mkskn n i) st) as [[c'|e2| |] s2]; cbn [srel] in Hs; try contradiction.
  - destruct Hs as (<- & Ho & Hn' & Hi'). destruct c' as [n' i']. cbn [nnr nir] in *.
    destruct (IH n' i' s1 r st' Hn' Hi' H) as [->|E]; [left; reflexivity|right].
    destruct o as [c1|]; cbn [oc] in Ho.
    + rewrite Ho. exact E.
    + unfold fin in Ho. injection Ho as <- <-. destruct fuel; cbn [skip_loop] in E; exact E.
  - destruct e2; try contradiction. injection H as <- <-. left. reflexivity.
  - destruct Hs as [<- <-]. right. exact H.
  - subst s2. right. exact H.
  - subst s2. right. exact H.
Qed.

Theorem noalloc_refines fuel st r st' : skip_noalloc fuel st = (r, st') ->
  r = Err Message \/ skip_alloc fuel st = (r, st').
Proof. apply loops_lockstep; unfold u64_max; lia. Qed.

(* ---- tokens for the no-alloc loop, transferred from the alloc token lemmas ---- *)
Lemma tokn fuel bs g n i p L rest : tok_ok fuel bs g ->
  counting (mksk n i []) = true -> n <= u64_max -> i <= u64_max -> p + len bs <= L ->
  stk (oc (g (mksk n i []))) = [] ->
  skipn_step fuel (mkskn n i) (mkdst p (bs ++ rest) L)
  = (Ok (mkskn (nr (oc (g (mksk n i [])))) (ir (oc (g (mksk n i []))))), mkdst (p + len bs) rest L).
Proof.
  intros Ht Hc Hn Hi HL Hs.
  pose proof (step_rel fuel n i (mkdst p (bs ++ rest) L) Hc Hn Hi) as H.
  rewrite (Ht (mksk n i []) p L rest HL) in H.
  destruct (skipn_step fuel (mkskn n i) (mkdst p (bs ++ rest) L)) as [[c'|e| |] s2]; cbn [srel] in H; try contradiction.
  - destruct H as (<- & -> & _). destruct c'. reflexivity.
  - destruct e; try contradiction. destruct H as [_ H]. contradiction.
Qed.

Lemma loopn_step f n i st c' st' : counting (mksk n i []) = true ->
  skipn_step (S f) (mkskn n i) st = (Ok c', st') -> skipn_loop (S f) (mkskn n i) st = skipn_loop f c' st'.
Proof.
  intros Hc H. cbn [skipn_loop]. unfold counting in Hc. cbn [nnr nir nr ir stk] in *. rewrite Hc.
  unfold bind. rewrite H. reflexivity.
Qed.

Lemma counting_iff n i : counting (mksk n i []) = true <-> (i <> 0 \/ 1 <= n).
Proof.
  unfold counting. cbn [nr ir stk]. destruct (N.eqb_spec n 0); destruct (N.eqb_spec i 0); cbn [andb negb]; split; intro; try lia; auto.
Qed.

(* ---- definite-only items: exact counting ---- *)
Definition dsim (m : nat) (bs : bytes) : Prop := forall n i K f rest p L,
  (i <> 0 \/ 1 <= n) -> i <= u64_max -> n - 1 <= K -> K + len bs <= u64_max -> p + len bs <= L ->
  exists f', (f <= f')%nat /\
    skipn_loop (m + f) (mkskn n i) (mkdst p (bs ++ rest) L) = skipn_loop f' (mkskn (n - 1) i) (mkdst (p + len bs) rest L).

Definition dsims (es : list enc) : Prop := forall n i K f rest p L,
  (i <> 0 \/ len es <= n) -> i <= u64_max -> n - len es <= K -> K + len (flat_map ser es) <= u64_max ->
  p + len (flat_map ser es) <= L ->
  exists f', (f <= f')%nat /\
    skipn_loop (lsteps es + f) (mkskn n i) (mkdst p (flat_map ser es ++ rest) L)
    = skipn_loop f' (mkskn (n - len es) i) (mkdst (p + len (flat_map ser es)) rest L).

Lemma dsims_of es : Forall (fun e => dsim (steps e) (ser e)) es -> dsims es.
Proof.
  induction 1 as [|e es He _ IH]; intros n i K f rest p L Hrun Hi HK Hmax HL.
  - exists f. split; [lia|]. cbn [flat_map lsteps fold_right app]. change (len (@nil enc)) with 0.
    change (len (@nil N)) with 0. now rewrite N.sub_0_r, N.add_0_r.
  - cbn [flat_map] in *. rewrite len_app in *. rewrite len_cons in *. pose proof (flat_len_geN es) as Hge.
    destruct (He n i (K + len (flat_map ser es)) (lsteps es + f)%nat (flat_map ser es ++ rest) p L
                ltac:(destruct Hrun; [left; assumption|right; lia]) Hi ltac:(lia) ltac:(lia) ltac:(lia)) as (f1 & Hf1 & E1).
    destruct (IH (n - 1) i K (f1 - lsteps es)%nat rest (p + len (ser e)) L
                ltac:(destruct Hrun; [left; assumption|right; lia]) Hi ltac:(lia) ltac:(lia) ltac:(lia)) as (f2 & Hf2 & E2).
    exists f2. split; [lia|].
    rewrite <- app_assoc. change (lsteps (e :: es)) with (steps e + lsteps es)%nat.
    rewrite <- Nat.add_assoc, E1.
    replace f1 with (lsteps es + (f1 - lsteps es))%nat at 1 by lia. rewrite E2.
    replace (n - 1 - len es) with (n - (1 + len es)) by lia.
    replace (p + len (ser e) + len (flat_map ser es)) with (p + (len (ser e) + len (flat_map ser es))) by lia.
    reflexivity.
Qed.

Lemma dleaf e k : steps e = S k -> (forall f, tok_ok (S (k + f)) (ser e) skip_after) -> dsim (steps e) (ser e).
Proof.
  intros Es Ht n i K f rest p L Hrun Hi HK Hmax HL.
  exists (k + f)%nat. split; [lia|]. rewrite Es. cbn [Nat.add].
  apply loopn_step; [now apply counting_iff|].
  rewrite (tokn _ _ _ n i p L rest (Ht f)); [rewrite oc_after; reflexivity|now apply counting_iff| |exact Hi|exact HL|now rewrite oc_after].
  pose proof (ser_len_pos e). unfold len in Hmax. unfold u64_max in *. lia.
Qed.

Lemma ddef hd k es :
  (forall f, tok_ok (S f) hd (fun c => skip_after (skip_definite c k))) ->
  (len (flat_map ser es) <= u64_max -> k = len es) -> 1 <= len hd -> dsims es ->
  dsim (S (lsteps es)) (hd ++ flat_map ser es).
Proof.
  intros Ht Hk Hhd Hes n i K f rest p L Hrun Hi HK Hmax HL.
  rewrite len_app in *. pose proof (flat_len_geN es) as Hge. rewrite Hk in * by lia. clear Hk.
  rewrite <- app_assoc. cbn [Nat.add].
  assert (Hc: counting (mksk n i []) = true) by now apply counting_iff.
  assert (Hn: n <= u64_max) by lia.
  assert (Hs: stk (oc (skip_after (skip_definite (mksk n i []) (len es)))) = [])
    by (rewrite oc_definite by assumption; reflexivity).
  rewrite (loopn_step _ n i _ _ _ Hc (tokn _ hd _ n i p L _ (Ht _) Hc Hn Hi ltac:(lia) Hs)). cbv beta.
  rewrite oc_definite by assumption. cbn [nr ir]. rewrite sat_add_small by lia.
  destruct (Hes (n + len es - 1) i K f rest (p + len hd) L ltac:(destruct Hrun; [left; assumption|right; lia]) Hi
              ltac:(lia) ltac:(lia) ltac:(lia)) as (f2 & Hf2 & E2).
  exists f2. split; [exact Hf2|]. rewrite E2.
  replace (n + len es - 1 - len es) with (n - 1) by lia.
  replace (p + len hd + len (flat_map ser es)) with (p + (len hd + len (flat_map ser es))) by lia. reflexivity.
Qed.

Lemma dtag hd bs m : (forall f, tok_ok (S f) hd (fun c => Some c)) -> 1 <= len hd -> dsim m bs -> dsim (S m) (hd ++ bs).
Proof.
  intros Ht Hhd He n i K f rest p L Hrun Hi HK Hmax HL.
  rewrite len_app in *. rewrite <- app_assoc. cbn [Nat.add].
  assert (Hc: counting (mksk n i []) = true) by now apply counting_iff.
  assert (Hn: n <= u64_max) by lia.
  rewrite (loopn_step _ n i _ _ _ Hc (tokn _ hd _ n i p L _ (Ht _) Hc Hn Hi ltac:(lia) ltac:(reflexivity))).
  cbn [oc nr ir].
  destruct (He n i K f rest (p + len hd) L Hrun Hi HK ltac:(lia) ltac:(lia)) as (f2 & Hf2 & E2).
  exists f2. split; [exact Hf2|]. rewrite E2.
  replace (p + len hd + len bs) with (p + (len hd + len bs)) by lia. reflexivity.
Qed.

Lemma Forall_wf_text_def (P : enc -> Prop) es :
  Forall (fun e => wf e = true -> utf8_ok e = true -> defonly e = true -> P e) es ->
  forallb wf es = true -> forallb utf8_ok es = true -> forallb defonly es = true -> Forall P es.
Proof.
  induction 1 as [|e es He _ IH]; cbn [forallb]; intros Hw Ht Hd; constructor;
  apply andb_prop in Hw as [? ?]; apply andb_prop in Ht as [? ?]; apply andb_prop in Hd as [? ?]; auto.
Qed.

Theorem dsim_all e : wf e = true -> utf8_ok e = true -> defonly e = true -> dsim (steps e) (ser e).
Proof.
  induction e as [w n|w n|w b|cs|w b|cs|w es IH|es IH|w es IH|es IH|w t e IH|n|b|b|b] using enc_tree_ind;
  cbn [wf utf8_ok defonly]; intros Hw Ht Hd; try discriminate.
  - apply (dleaf _ 0); [reflexivity|]. intro f. now apply tok_uint.
  - apply (dleaf _ 0); [reflexivity|]. intro f. now apply tok_nint.
  - apply andb_prop in Hw as [Hf _]. apply (dleaf _ 0); [reflexivity|]. intro f. now apply tok_bytes.
  - apply (dleaf _ (length cs)); [reflexivity|]. intro f. apply tok_bytesI; [exact Hw|lia].
  - apply andb_prop in Hw as [Hf _]. apply (dleaf _ 0); [reflexivity|]. intro f. now apply tok_text.
  - apply (dleaf _ (length cs)); [reflexivity|]. intro f. apply tok_textI; [exact Hw|exact Ht|lia].
  - apply andb_prop in Hw as [Hf Hw].
    apply (ddef (Cbor.head 4 w (len es)) (len es) es).
    + intro f. now apply tok_array.
    + reflexivity.
    + rewrite len_head1. lia.
    + apply dsims_of. now apply Forall_wf_text_def.
  - apply andb_prop in Hw as [Hw Hw3]. apply andb_prop in Hw as [Hev Hf].
    apply (ddef (Cbor.head 5 w (len es / 2)) (sat_mul (len es / 2) 2) es).
    + intro f. now apply tok_map.
    + intro Hb. pose proof (flat_len_geN es). rewrite <- (half_twice _ Hev) at 2. apply sat_mul_small.
      rewrite half_twice by exact Hev. lia.
    + rewrite len_head1. lia.
    + apply dsims_of. now apply Forall_wf_text_def.
  - apply andb_prop in Hw as [Hf Hw]. apply (dtag (Cbor.head 6 w t) (ser e) (steps e)); [intro f; now apply tok_tag|rewrite len_head1; lia|]. now apply IH.
  - destruct (ser_simple n Hw) as (w & Hf & E). apply (dleaf _ 0); [reflexivity|]. intro f. rewrite E. now apply tok_simple.
  - apply (dleaf _ 0); [reflexivity|]. intro f. change (ser (EF16 b)) with (Cbor.head 7 W2 b). now apply tok_simple.
  - apply (dleaf _ 0); [reflexivity|]. intro f. change (ser (EF32 b)) with (Cbor.head 7 W4 b). now apply tok_simple.
  - apply (dleaf _ 0); [reflexivity|]. intro f. change (ser (EF64 b)) with (Cbor.head 7 W8 b). now apply tok_simple.
Qed.

(* ---- items whose indefinite containers are all above the definite ones: nrounds stays below 2 at every
   indefinite header ---- *)
Definition tsim (m : nat) (bs : bytes) : Prop := forall n i f rest p L,
  n <= 1 -> (i <> 0 \/ 1 <= n) -> i + len bs <= u64_max -> p + len bs <= L ->
  exists f', (f <= f')%nat /\
    skipn_loop (m + f) (mkskn n i) (mkdst p (bs ++ rest) L) = skipn_loop f' (mkskn 0 i) (mkdst (p + len bs) rest L).

Definition tsims (es : list enc) : Prop := forall i f rest p L,
  i <> 0 -> i + len (flat_map ser es) <= u64_max -> p + len (flat_map ser es) <= L ->
  exists f', (f <= f')%nat /\
    skipn_loop (lsteps es + f) (mkskn 0 i) (mkdst p (flat_map ser es ++ rest) L)
    = skipn_loop f' (mkskn 0 i) (mkdst (p + len (flat_map ser es)) rest L).

Lemma tsims_of es : Forall (fun e => tsim (steps e) (ser e)) es -> tsims es.
Proof.
  induction 1 as [|e es He _ IH]; intros i f rest p L Hi0 Hmax HL.
  - exists f. split; [lia|]. cbn [flat_map lsteps fold_right app]. change (len (@nil N)) with 0. now rewrite N.add_0_r.
  - cbn [flat_map] in *. rewrite len_app in *.
    destruct (He 0 i (lsteps es + f)%nat (flat_map ser es ++ rest) p L ltac:(lia) ltac:(left; assumption) ltac:(lia) ltac:(lia))
      as (f1 & Hf1 & E1).
    destruct (IH i (f1 - lsteps es)%nat rest (p + len (ser e)) L Hi0 ltac:(lia) ltac:(lia)) as (f2 & Hf2 & E2).
    exists f2. split; [lia|].
    rewrite <- app_assoc. change (lsteps (e :: es)) with (steps e + lsteps es)%nat.
    rewrite <- Nat.add_assoc, E1.
    replace f1 with (lsteps es + (f1 - lsteps es))%nat at 1 by lia. rewrite E2.
    replace (p + len (ser e) + len (flat_map ser es)) with (p + (len (ser e) + len (flat_map ser es))) by lia.
    reflexivity.
Qed.

Lemma tsim_of_dsim m bs : dsim m bs -> tsim m bs.
Proof.
  intros H n i f rest p L Hn Hrun Hmax HL.
  destruct (H n i 0 f rest p L Hrun ltac:(lia) ltac:(lia) ltac:(lia) HL) as (f' & Hf & E).
  exists f'. split; [exact Hf|]. rewrite E. replace (n - 1) with 0 by lia. reflexivity.
Qed.

Lemma tindef b es :
  (forall f, tok_ok (S f) [b] (fun c => skip_after (skip_indefinite c))) -> tsims es ->
  tsim (S (S (lsteps es))) (b :: flat_map ser es ++ [255]).
Proof.
  intros Ht Hes n i f rest p L Hn Hrun Hmax HL.
  rewrite len_cons, len_app in *. change (len [255]) with 1 in *.
  replace (S (S (lsteps es)) + f)%nat with (S (lsteps es + S f))%nat by lia.
  change ((b :: flat_map ser es ++ [255]) ++ rest) with ([b] ++ ((flat_map ser es ++ [255]) ++ rest)).
  rewrite <- app_assoc.
  assert (Hc: counting (mksk n i []) = true) by now apply counting_iff.
  assert (Hn': n <= u64_max) by (unfold u64_max; lia). assert (Hi: i <= u64_max) by lia.
  assert (Hs: stk (oc (skip_after (skip_indefinite (mksk n i [])))) = [])
    by (rewrite oc_indefinite_lt by (assumption || lia); reflexivity).
  rewrite (loopn_step _ n i _ _ _ Hc (tokn _ [b] _ n i p L _ (Ht _) Hc Hn' Hi ltac:(change (len [b]) with 1; lia) Hs)).
  cbv beta. rewrite oc_indefinite_lt by (assumption || lia). cbn [nr ir]. change (len [b]) with 1.
  rewrite sat_add_small by lia. replace (n - 1) with 0 by lia.
  destruct (Hes (i + 1) (S f) ([255] ++ rest) (p + 1) L ltac:(lia) ltac:(lia) ltac:(lia)) as (f2 & Hf2 & E2).
  rewrite E2. destruct f2 as [|f2]; [lia|].
  assert (Hc2: counting (mksk 0 (i + 1) []) = true) by (apply counting_iff; left; lia).
  assert (Hs2: stk (oc (skip_after (skip_break (mksk 0 (i + 1) [])))) = [])
    by (rewrite oc_break by assumption; reflexivity).
  rewrite (loopn_step _ 0 (i + 1) _ _ _ Hc2 (tokn _ [255] _ 0 (i + 1) (p + 1 + len (flat_map ser es)) L _ (tok_break _) Hc2
             ltac:(unfold u64_max; lia) ltac:(lia) ltac:(change (len [255]) with 1; lia) Hs2)).
  cbv beta. rewrite oc_break by assumption. cbn [nr ir]. change (len [255]) with 1.
  exists f2. split; [lia|].
  replace (0 - 1) with 0 by lia. replace (i + 1 - 1) with i by lia.
  replace (p + 1 + len (flat_map ser es) + 1) with (p + (1 + (len (flat_map ser es) + 1))) by lia. reflexivity.
Qed.

Lemma ttag hd bs m : (forall f, tok_ok (S f) hd (fun c => Some c)) -> tsim m bs -> tsim (S m) (hd ++ bs).
Proof.
  intros Ht He n i f rest p L Hn Hrun Hmax HL.
  rewrite len_app in *. rewrite <- app_assoc. cbn [Nat.add].
  assert (Hc: counting (mksk n i []) = true) by now apply counting_iff.
  assert (Hn': n <= u64_max) by (unfold u64_max; lia). assert (Hi: i <= u64_max) by lia.
  rewrite (loopn_step _ n i _ _ _ Hc (tokn _ hd _ n i p L _ (Ht _) Hc Hn' Hi ltac:(lia) ltac:(reflexivity))).
  cbn [oc nr ir].
  destruct (He n i f rest (p + len hd) L Hn Hrun ltac:(lia) ltac:(lia)) as (f2 & Hf2 & E2).
  exists f2. split; [exact Hf2|]. rewrite E2.
  replace (p + len hd + len bs) with (p + (len hd + len bs)) by lia. reflexivity.
Qed.

Lemma Forall_wf_text_na (P : enc -> Prop) es :
  Forall (fun e => wf e = true -> utf8_ok e = true -> noalloc_ok e = true -> P e) es ->
  forallb wf es = true -> forallb utf8_ok es = true -> forallb noalloc_ok es = true -> Forall P es.
Proof.
  induction 1 as [|e es He _ IH]; cbn [forallb]; intros Hw Ht Hd; constructor;
  apply andb_prop in Hw as [? ?]; apply andb_prop in Ht as [? ?]; apply andb_prop in Hd as [? ?]; auto.
Qed.

Theorem tsim_all e : wf e = true -> utf8_ok e = true -> noalloc_ok e = true -> tsim (steps e) (ser e).
Proof.
  induction e as [w n|w n|w b|cs|w b|cs|w es IH|es IH|w es IH|es IH|w t e IH|n|b|b|b] using enc_tree_ind;
  intros Hw Ht Hd;
  try (apply tsim_of_dsim; apply dsim_all; [exact Hw|exact Ht|exact Hd]).
  - cbn [wf utf8_ok noalloc_ok] in *.
    apply (tindef 159 es); [intro f; apply tok_array_indef|]. apply tsims_of. now apply Forall_wf_text_na.
  - cbn [wf utf8_ok noalloc_ok] in *. apply andb_prop in Hw as [_ Hw].
    apply (tindef 191 es); [intro f; apply tok_map_indef|]. apply tsims_of. now apply Forall_wf_text_na.
  - cbn [wf utf8_ok noalloc_ok] in *. apply andb_prop in Hw as [Hf Hw].
    apply (ttag (Cbor.head 6 w t) (ser e) (steps e)); [intro f; now apply tok_tag|]. now apply IH.
Qed.

Theorem skip_noalloc_ok e rest p L fuel :
  wf e = true -> utf8_ok e = true -> noalloc_ok e = true -> len (ser e) < 18446744073709551616 ->
  p + len (ser e) <= L -> (steps e <= fuel)%nat ->
  skip_noalloc fuel (mkdst p (ser e ++ rest) L) = (Ok tt, mkdst (p + len (ser e)) rest L).
Proof.
  intros Hw Ht Hn Hlen HL Hfu. unfold skip_noalloc.
  destruct (tsim_all e Hw Ht Hn 1 0 (fuel - steps e)%nat rest p L ltac:(lia) ltac:(right; lia)
              ltac:(unfold u64_max; lia) HL) as (f' & _ & E).
  replace (steps e + (fuel - steps e))%nat with fuel in E by lia. rewrite E.
  destruct f'; reflexivity.
Qed.
