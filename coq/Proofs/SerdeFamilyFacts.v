(* Proofs/SerdeFamilyFacts.v — the side conditions of the any-driven round trip (shape_ok_any, untagged_disjoint,
   no Option in Option) evaluated on the internally / adjacently tagged, untagged and flattened types of the correspondence family
   (ocaml/ops_serde.ml FAMILY; checks/C17.py asserts the same for every family type through the driver: D=),
   and closed examples of any-driven round trips.  Names are ASCII: [116] = "t", [120] = "x", … *)
From MC Require Import Bytes Monad Cbor Encoder Decoder Types Serde SerdeDoc SerdeCont SerdeAny SerdeAnyFacts SerdeAnyRtFacts SerdeAdjFacts SerdeFlatFacts.
Local Open Scope N_scope.

Definition fam_US := ShUnitStruct.
Definition fam_P2 := ShStruct [([120], ShU B8); ([121], ShI B16)].
Definition fam_WithOpt := ShStruct [([97], ShOption (ShU B8)); ([98], ShU B8); ([99], ShOption (ShStr false))].
Definition fam_Ext1 := ShEnum [([65], (KUnit, ShUnit)); ([66], (KNewtype, ShU B8)); ([67], (KTuple, ShTuple [ShU B8; ShU B8]));
                               ([68], (KStruct, ShStruct [([120], ShU B8)]))].
Definition fam_ExtU := ShEnum [([65], (KUnit, ShUnit)); ([69], (KNewtype, ShUnit)); ([71], (KNewtype, fam_US))].
Definition fam_Int := ShInternal [116]
  [([65], (KUnit, ShUnit));
   ([66], (KStruct, ShStruct [([120], ShU B8); ([121], ShStr false)]));
   ([67], (KNewtype, fam_P2));
   ([77], (KNewtype, ShMap true (ShStr false) (ShU B8)));
   ([85; 110], (KNewtype, ShUnit));
   ([85; 115], (KNewtype, fam_US));
   ([87], (KNewtype, fam_WithOpt));
   ([73], (KStruct, ShStruct [([118], ShI B64); ([115], ShSeq true (ShI B8)); ([101], fam_Ext1)]))].
Definition fam_IntF := ShInternal [116]
  [([79; 107], (KStruct, ShStruct [([120], ShU B8)]));
   ([85], (KStruct, ShStruct [([117], ShUnit)]));
   ([67; 104], (KStruct, ShStruct [([99], ShChar)]));
   ([78; 117], (KNewtype, ShStruct [([117], ShUnit)]));
   ([78; 99], (KNewtype, ShStruct [([99], ShChar)]));
   ([75; 115], (KNewtype, ShStruct [([107], fam_US)]));
   ([69; 117], (KNewtype, ShStruct [([101], fam_ExtU)]))].
Definition fam_Unt := ShUntagged
  [(KNewtype, ShU B8); (KTuple, ShTuple [ShI B16; ShStr false]); (KStruct, ShStruct [([120], ShU B8)]);
   (KNewtype, ShStr false); (KNewtype, ShSeq true (ShI B16)); (KNewtype, ShBool); (KUnit, ShUnit)].
Definition fam_UntF := ShUntagged
  [(KNewtype, ShI B64); (KNewtype, ShChar); (KTuple, ShTuple [ShU B8; ShUnit]); (KStruct, ShStruct [([107], fam_US)]);
   (KNewtype, ShUnit)].
Definition fam_InnerB := ShStruct [([115], ShStr true); ([110], ShU B8)].
Definition fam_IntB := ShInternal [116]
  [([83], (KStruct, ShStruct [([115], ShStr true); ([110], ShU B8)])); ([85], (KUnit, ShUnit)); ([78], (KNewtype, fam_InnerB))].
Definition fam_UntB := ShUntagged [(KStruct, ShStruct [([115], ShStr true)]); (KNewtype, ShU B8); (KNewtype, ShStr true)].

Definition fam_Adj := ShAdjacent [116] [99]
  [([65], (KUnit, ShUnit)); ([66], (KNewtype, ShU B8)); ([67], (KTuple, ShTuple [ShU B8; ShStr false]));
   ([68], (KStruct, ShStruct [([120], ShU B8); ([121], ShOption (ShI B8))])); ([85], (KNewtype, ShUnit));
   ([67; 104], (KNewtype, ShChar)); ([79], (KNewtype, ShOption (ShU B8))); ([75], (KNewtype, fam_US)); ([80], (KNewtype, fam_P2))].
Definition fam_AdjB := ShAdjacent [116] [99]
  [([83], (KNewtype, ShStr true)); ([85], (KUnit, ShUnit)); ([78], (KNewtype, fam_InnerB))].

Definition fam_WithOpt2 := ShStruct [([113], ShOption (ShU B8)); ([114], ShStr false)].
Definition fam_Fl := ShFlat [([97], (false, ShU B8)); ([105], (true, fam_P2)); ([122], (false, ShBool))].
Definition fam_Fl2 := ShFlat [([105], (true, fam_P2)); ([111], (false, ShOption (ShU B8))); ([106], (true, fam_WithOpt2));
                              ([119], (false, ShSeq true (ShU B8)))].
Definition fam_FlM := ShFlat [([97], (false, ShU B8)); ([111], (false, ShOption (ShU B8))); ([109], (true, ShMap true (ShStr false) (ShI B16)))].
Definition fam_FlU := ShFlat [([97], (false, ShU B8)); ([117], (true, ShUnit)); ([98], (false, ShUnit)); ([99], (false, ShChar))].
Definition fam_FlF := ShFlat [([97], (false, ShU B8)); ([105], (true, ShStruct [([117], ShUnit)]))].
Definition fam_FlFC := ShFlat [([97], (false, ShU B8)); ([105], (true, ShStruct [([99], ShChar)]))].
Definition fam_FlK := ShFlat [([97], (false, ShU B8)); ([105], (true, ShStruct [([107], fam_US)]))].
Definition fam_FlMK := ShFlat [([97], (false, ShU B8)); ([109], (true, ShMap true (ShStr false) fam_US))].
Definition fam_FlMC := ShFlat [([97], (false, ShU B8)); ([109], (true, ShMap true (ShStr false) ShChar))].
Definition fam_FlB := ShFlat [([97], (false, ShU B8)); ([105], (true, fam_InnerB))].

Definition fam_any : list shape :=
  [fam_Int; fam_IntF; fam_Unt; fam_UntF; fam_IntB; fam_UntB; fam_Adj; fam_AdjB; ShSeq true fam_Unt; ShSeq true fam_Int;
   ShSeq true fam_Adj; ShMap true (ShStr false) fam_Adj; ShAny;
   fam_Fl; fam_Fl2; fam_FlM; fam_FlU; fam_FlF; fam_FlFC; fam_FlK; fam_FlMK; fam_FlMC; fam_FlB; ShSeq true fam_Fl].

(* every internally tagged / adjacently tagged / untagged / flattened type of the family satisfies the static hypotheses of the theorem *)
Lemma family_side_conditions :
  forallb (fun sh => shape_ok_any sh && negb (opt_in_opt sh) && untagged_disjoint sh) fam_any = true.
Proof. vm_compute. reflexivity. Qed.

(* an untagged enum with overlapping variants does not satisfy the side condition (and does not round-trip:
   S("a") is read by the earlier variant) *)
Lemma overlapping_untagged_excluded :
  untagged_disjoint (ShUntagged [(KNewtype, ShStr false); (KNewtype, ShDisplayStr)]) = false.
Proof. vm_compute. reflexivity. Qed.

(* ---- closed round trips with non-trivial values ---- *)
Definition all_hyps (sh : shape) (v : sval) : bool :=
  shape_ok_any sh && negb (opt_in_opt sh) && untagged_disjoint sh && conf_any sh v && f12_free sh v && sval_ok v.

(* #[serde(tag = "t")] enum E<'a> { S { m: BTreeMap<String, Vec<i16>>, s: &'a str, o: Option<u64> }, U } *)
Definition ex_internal : shape := ShInternal [116]
  [([83], (KStruct, ShStruct [([109], ShMap true (ShStr false) (ShSeq true (ShI B16))); ([115], ShStr true); ([111], ShOption (ShU B64))]));
   ([85], (KUnit, ShUnit))].
Definition ex_internal_v : sval :=
  SStruct 4 [([116], SStr [83]);
             ([109], SMap (Some 2) [SStr [107]; SSeq (Some 2) [SI B16 (-300); SI B16 7]; SStr [108; 108]; SSeq (Some 0) []]);
             ([115], SStr [104; 195; 169]);
             ([111], SSome (SU B64 4294967296))].
Lemma internal_example :
  all_hyps ex_internal ex_internal_v = true /\ rt_result ex_internal ex_internal_v = Some (Ok ex_internal_v, 36, 36).
Proof. vm_compute. auto. Qed.

(* #[serde(untagged)] enum E { B(u8), C(i16, String), D { x: u8 }, S(String), V(Vec<i16>), Z(bool), A }: E::C(-300, "ab") *)
Lemma untagged_tuple_example :
  let v := STuple 2 [SI B16 (-300); SStr [97; 98]] in
  all_hyps fam_Unt v = true /\ rt_result fam_Unt v = Some (Ok v, 7, 7).
Proof. vm_compute. auto. Qed.

(* … and a sequence variant that the earlier tuple variant has to reject first: E::V([1, -2]) *)
Lemma untagged_seq_example :
  let v := SSeq (Some 2) [SI B16 1; SI B16 (-2)] in
  all_hyps fam_Unt v = true /\ rt_result fam_Unt v = Some (Ok v, 3, 3).
Proof. vm_compute. auto. Qed.

(* struct Fl2 { #[serde(flatten)] i: P2, o: Option<u8>, #[serde(flatten)] j: WithOpt2, w: Vec<u8> }: two flattened
   sub-structs and an Option *)
Definition ex_flat : shape := fam_Fl2.
Definition ex_flat_v : sval :=
  SMap None [SStr [120]; SU B8 1; SStr [121]; SI B16 (-2); SStr [111]; SSome (SU B8 9); SStr [113]; SNone; SStr [114]; SStr [122];
             SStr [119]; SSeq (Some 2) [SU B8 1; SU B8 2]].
Lemma flatten_example :
  all_hyps ex_flat ex_flat_v = true /\ rt_result ex_flat ex_flat_v = Some (Ok ex_flat_v, 23, 23).
Proof. vm_compute. auto. Qed.

(* struct FlM { a: u8, o: Option<u8>, #[serde(flatten)] m: BTreeMap<String, i16> }: a flattened map as last field *)
Lemma flatten_map_example :
  let v := SMap None [SStr [97]; SU B8 1; SStr [111]; SNone; SStr [107]; SI B16 5; SStr [108]; SI B16 (-5)] in
  all_hyps fam_FlM v = true /\ rt_result fam_FlM v = Some (Ok v, 14, 14).
Proof. vm_compute. auto. Qed.

(* F12 below a flattened node.  Outside the class (and read back): a flattened `()`, unit / char in the fields that are
   read directly (FlU), a unit struct in a flattened struct (FlK, owned path), an empty flattened map of unit structs.
   Inside the class (f12_free = false, and the model does not read them back): a char in a flattened struct (FlFC), a unit
   struct / a char as the value of a flattened map (FlMK, FlMC: ContentRefDeserializer); FlF is w_flat_unit. *)
Lemma flatten_f12_interaction :
  (let v := SMap None [SStr [97]; SU B8 1; SStr [98]; SUnit; SStr [99]; SChar 97] in
   all_hyps fam_FlU v = true /\ rt_result fam_FlU v = Some (Ok v, 12, 12)) /\
  (let v := SMap None [SStr [97]; SU B8 1; SStr [107]; SUnitStruct] in
   all_hyps fam_FlK v = true /\ rt_result fam_FlK v = Some (Ok v, 8, 8)) /\
  (let v := SMap None [SStr [97]; SU B8 1] in
   all_hyps fam_FlMK v = true /\ rt_result fam_FlMK v = Some (Ok v, 5, 5)) /\
  (let v := SMap None [SStr [97]; SU B8 1; SStr [117]; SUnit] in
   conf_any fam_FlF v = true /\ f12_free fam_FlF v = false /\ rt_result fam_FlF v = Some (Err Message, 8, 8)) /\
  (let v := SMap None [SStr [97]; SU B8 1; SStr [99]; SChar 97] in
   conf_any fam_FlFC v = true /\ f12_free fam_FlFC v = false /\ rt_result fam_FlFC v = Some (Err Message, 9, 9)) /\
  (let v := SMap None [SStr [97]; SU B8 1; SStr [120]; SUnitStruct] in
   conf_any fam_FlMK v = true /\ f12_free fam_FlMK v = false /\ rt_result fam_FlMK v = Some (Err Message, 8, 8)) /\
  (let v := SMap None [SStr [97]; SU B8 1; SStr [120]; SChar 97] in
   conf_any fam_FlMC v = true /\ f12_free fam_FlMC v = false /\ rt_result fam_FlMC v = Some (Err Message, 9, 9)).
Proof. vm_compute. auto 20. Qed.

(* #[serde(tag = "t", content = "c")] enum Adj { .., D { x: u8, y: Option<i8> }, .., Ch(char), .. }: read directly, so
   a char (and a unit) below it is outside F12 *)
Lemma adjacent_example :
  let v1 := SStruct 2 [([116], SUnitVariant 3 [68]); ([99], SStruct 2 [([120], SU B8 200); ([121], SSome (SI B8 (-100)))])] in
  let v2 := SStruct 2 [([116], SUnitVariant 5 [67; 104]); ([99], SChar 8364)] in
  all_hyps fam_Adj v1 = true /\ rt_result fam_Adj v1 = Some (Ok v1, 16, 16) /\
  all_hyps fam_Adj v2 = true /\ rt_result fam_Adj v2 = Some (Ok v2, 11, 11).
Proof. vm_compute. auto. Qed.

(* the F12 witnesses are outside f12_free, as they must be *)
Lemma f12_witnesses_not_free :
  f12_free w_untagged_unit SUnit = false /\ f12_free w_untagged_char (SChar 97) = false /\
  f12_free w_flat_unit (SMap None [SStr [97]; SU B8 1; SStr [117]; SUnit]) = false /\
  f12_free w_internal_char (SStruct 2 [([116], SStr [86]); ([99], SChar 97)]) = false /\
  f12_free w_untagged_unit_struct SUnitStruct = false /\
  f12_free w_internal_unit_struct (SStruct 2 [([116], SStr [86]); ([107], SUnitStruct)]) = true.
Proof. vm_compute. auto 10. Qed.
