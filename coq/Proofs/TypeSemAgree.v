(* Proofs/TypeSemAgree.v — C04 for the built-in Decode impls: on every well-formed encoding of an item, decode_ty
   returns exactly what Spec/TypeSem.v assigns to the tree (value and end position), an error where the
   specification demands one; never Panic / OutOfFuel. *)
From MC Require Import Bytes BytesFacts Monad Cbor Utf8 Half Decoder Acc Accessors Types TypeSem
  DecoderFacts CborFacts IntFacts AccFacts AccAgreeFacts TypesEnc TypesDec TypesFacts SkipFacts
  TypeSemFacts TypeSemLoops TypeSemFields.
From Coq Require Import Lia.
Local Open Scope N_scope.

Lemma index_sem i r p L : wf i = true -> p + len (ser i) <= L ->
  match ts_index i with
  | Some n => dec_u32 (mkdst p (ser i ++ r) L) = (Ok n, mkdst (p + len (ser i)) r L)
  | None => is_err (dec_u32 (mkdst p (ser i ++ r) L))
  end.
Proof.
  intros Hw HL. unfold dec_u32.
  destruct i; cbn [ts_index]; try (first_byte Hw; apply dec_uint_ge28; lia).
  cbn [wf ser] in *. pose proof (dec_uint_uint 4294967295 w n r p L Hw HL) as E.
  destruct (n <=? 4294967295); [exact E|eexists _, _; exact E].
Qed.

Lemma Forall2_nth {A B} (R : A -> B -> Prop) a b k x : Forall2 R a b -> nth_error a k = Some x ->
  exists y, nth_error b k = Some y /\ R x y.
Proof.
  intro H. revert k. induction H as [|x0 y0 a b Hxy _ IH]; intros [|k] E; cbn [nth_error] in *; try discriminate.
  - injection E as <-. eauto.
  - now apply IH.
Qed.

Lemma Forall2_nth_none {A B} (R : A -> B -> Prop) a b k : Forall2 R a b -> nth_error a k = None -> nth_error b k = None.
Proof.
  intro H. revert k. induction H as [|x0 y0 a b Hxy _ IH]; intros [|k] E; cbn [nth_error] in *; try discriminate; auto.
Qed.

Lemma is_null_spec e : ctype_is_null (spec_type e) = is_null_item e.
Proof.
  destruct e; cbn [spec_type is_null_item]; try reflexivity.
  - destruct w; reflexivity.
  - destruct w; cbn [nint_type]; try reflexivity; match goal with |- context [if ?c then _ else _] => destruct c end; reflexivity.
  - destruct (N.eqb_spec n 20) as [->|]; [reflexivity|]. destruct (N.eqb_spec n 21) as [->|]; [reflexivity|]. cbn [orb].
    destruct (N.eqb_spec n 22); [reflexivity|]. destruct (n =? 23); reflexivity.
Qed.

Lemma ts_skip_all_shape alloc es : ts_skip_all alloc es = TsVal [] \/ ts_skip_all alloc es = TsAny.
Proof. induction es as [|e es IH]; cbn [ts_skip_all]; [now left|]. destruct (skippable alloc e); [exact IH|now right]. Qed.

Lemma duration_fields_shape alloc a b es l : ts_fields alloc [ts_uint a; ts_uint b] es = TsVal l ->
  exists s ns, l = [VNat s; VNat ns].
Proof.
  destruct es as [|e1 [|e2 es]]; cbn [ts_fields]; try discriminate.
  - unfold ts_uint at 1. destruct (ts_int 0 (Z.of_N a) e1); discriminate.
  - unfold ts_uint. destruct (ts_int 0 (Z.of_N a) e1) as [z1| |]; cbn [ts_map ts_bind]; try discriminate.
    destruct (ts_int 0 (Z.of_N b) e2) as [z2| |]; cbn [ts_map ts_bind]; try discriminate.
    destruct (ts_skip_all_shape alloc es) as [-> | ->]; cbn [ts_map]; try discriminate.
    intros [= <-]. eauto.
Qed.

Section Agree.
  Variable c : cfg.
  Variable fuel : nat.
  Notation alloc := (c_alloc c).
  Notation D := (fun t' : ty => decode_ty c t' fuel).

  (* ---- Option ---- *)
  Lemma opt_sem d f : elem_ok fuel d f ->
    elem_ok fuel (dt <- datatype ;; if ctype_is_null dt then skip_auto c ;;; ret VNone else fmap VSome d)
      (fun e => if is_null_item e then TsVal VNone else ts_map VSome (f e)).
  Proof.
    intros Hd e r p L Hw HL H64 Hfu.
    rewrite (bind_ok _ _ _ _ _ (datatype_spec e r p L Hw)). rewrite is_null_spec.
    destruct (is_null_item e) eqn:En.
    - destruct e; try discriminate En. cbn [is_null_item] in En. apply N.eqb_eq in En. subst n.
      cbn [ser sem_agrees]. change (22 <? 24) with true. cbv iota. cbn [app].
      rewrite (bind_ok _ _ _ _ _ (skip_null c r p L)). reflexivity.
    - apply sem_agrees_fmap. now apply Hd.
  Qed.

  (* ---- Tagged<N, T> ---- *)
  Lemma tagged_sem d f n : elem_ok fuel d f ->
    elem_ok fuel (tg <- dec_tag ;; if tg =? n then d else fail (TagMismatch tg))
      (fun e => match e with ETag _ g x => if g =? n then f x else TsErr | _ => TsErr end).
  Proof.
    intros Hd e r p L Hw HL H64 Hfu.
    destruct e; try (cbn [sem_agrees]; apply bind_is_err; apply tag_rej; [assumption|discriminate]).
    rewrite (bind_ok _ _ _ _ _ (tag_head w t e r p L Hw HL)). cbn [wf ser] in *.
    apply andb_prop in Hw as [_ Hwe]. rewrite len_app in *. rewrite <- app_assoc in Hfu.
    destruct (t =? n); [|apply is_err_fail].
    pose proof (Hd e r (p + len (Cbor.head 6 w t)) L Hwe ltac:(lia) ltac:(lia) ltac:(rewrite !app_length in *; lia)) as G.
    eapply sem_agrees_pos; [|exact G]. lia.
  Qed.

  (* ---- [index, payload] ---- *)
  Lemma dec_enum_two ds s s' : dec_array s = (Ok (Some 2), s') ->
    dec_enum ds s = (i <- dec_u32 ;;
                     if i <? len ds then
                       match nth_error ds (N.to_nat i) with
                       | Some d => x <- d ;; ret (VVar i x)
                       | None => fail (UnknownVariant i)
                       end
                     else fail (UnknownVariant i)) s'.
  Proof. intro H. unfold dec_enum. now rewrite (bind_ok _ _ _ _ _ H). Qed.

  Lemma dec_enum_not2 ds n s s' : dec_array s = (Ok (Some n), s') -> n <> 2 -> is_err (dec_enum ds s).
  Proof.
    intros H Hn. unfold dec_enum. rewrite (bind_ok _ _ _ _ _ H).
    destruct n as [|[[q|q|]|[q|q|]|]]; try apply is_err_fail. contradiction.
  Qed.

  Lemma dec_enum_none ds s s' : dec_array s = (Ok None, s') -> is_err (dec_enum ds s).
  Proof. intro H. unfold dec_enum. rewrite (bind_ok _ _ _ _ _ H). apply is_err_fail. Qed.

  Lemma len_two {A} (l : list A) : len l = 2 -> exists a b, l = [a; b].
  Proof. destruct l as [|a [|b [|x l]]]; rewrite ?len_cons, ?len_nil; intro H; try lia. eauto. Qed.

  Definition enum_spec (fs : list (enc -> tsem value)) (e : enc) : tsem value :=
    match def_array_elems e with
    | Some [i; x] =>
        match ts_index i with
        | Some n => if n <? len fs
                    then match nth_error fs (N.to_nat n) with
                         | Some f => ts_map (VVar n) (f x)
                         | None => TsErr
                         end
                    else TsErr
        | None => TsErr
        end
    | _ => TsErr
    end.

  Lemma enum_sem ds fs : Forall2 (elem_ok fuel) ds fs -> elem_ok fuel (dec_enum ds) (enum_spec fs).
  Proof.
    intros Hds e r p L Hw HL H64 Hfu. unfold enum_spec.
    destruct e; try (cbn [def_array_elems sem_agrees]; apply bind_is_err; apply array_rej; [assumption|reflexivity]).
    2:{ cbn [def_array_elems sem_agrees]. eapply dec_enum_none. apply array_head_indef. }
    cbn [def_array_elems]. pose proof (array_head_def w es r p L Hw HL) as Hh.
    destruct (N.eq_dec (len es) 2) as [E2|N2].
    2:{ assert (X: match es with [i; x] => False | _ => True end).
        { destruct es as [|a [|b [|x l]]]; try exact I. exfalso. apply N2. reflexivity. }
        destruct es as [|a [|b [|x l]]]; try contradiction; cbn [sem_agrees]; eapply dec_enum_not2; eauto. }
    destruct (len_two es E2) as (i & x & ->). change (len [i; x]) with 2 in *.
    rewrite (dec_enum_two ds _ _ Hh). cbn [wf ser flat_map forallb] in *. rewrite app_nil_r in *.
    apply andb_prop in Hw as [_ Hw]. apply andb_prop in Hw as [Hwi Hw]. apply andb_prop in Hw as [Hwx _].
    rewrite !len_app in *. rewrite <- !app_assoc in *. change (len [i; x]) with 2 in *.
    pose proof (index_sem i (ser x ++ r) (p + len (Cbor.head 4 w 2)) L Hwi ltac:(lia)) as Hi.
    destruct (ts_index i) as [n|]; [|cbn [sem_agrees]; now apply bind_is_err].
    rewrite (bind_ok _ _ _ _ _ Hi).
    replace (len fs) with (len ds) by (unfold len; f_equal; eapply Forall2_length'; eassumption).
    destruct (n <? len ds); [|apply is_err_fail].
    destruct (nth_error ds (N.to_nat n)) as [d|] eqn:En.
    - destruct (Forall2_nth _ _ _ _ _ Hds En) as (f & Ef & Hdf). rewrite Ef.
      match goal with |- sem_agrees (bind ?m _ _) _ _ _ _ => change (bind m (fun x0 => ret (VVar n x0))) with (fmap (VVar n) m) end.
      apply sem_agrees_fmap.
      pose proof (Hdf x r (p + len (Cbor.head 4 w 2) + len (ser i)) L Hwx ltac:(lia) ltac:(lia) ltac:(rewrite !app_length in *; lia)) as G.
      eapply sem_agrees_pos; [|exact G]. lia.
    - rewrite (Forall2_nth_none _ _ _ _ Hds En). apply is_err_fail.
  Qed.

  (* ---- Bound ---- *)
  Definition bound_spec (f : enc -> tsem value) (e : enc) : tsem value :=
    match def_array_elems e with
    | Some [i; x] =>
        match ts_index i with
        | Some n => if n <? 2 then ts_map (VVar n) (f x)
                    else if n =? 2 then (if skippable alloc x then TsVal (VVar 2 VUnit) else TsAny)
                    else TsErr
        | None => TsErr
        end
    | _ => TsErr
    end.

  Lemma bound_sem d f : elem_ok fuel d f ->
    elem_ok fuel (r <- dec_array ;;
                  if opt_eqb r 2 then
                    i <- dec_u32 ;;
                    if i <? 2 then x <- d ;; ret (VVar i x)
                    else if i =? 2 then skip_auto c ;;; ret (VVar 2 VUnit)
                    else fail (UnknownVariant i)
                  else fail Message) (bound_spec f).
  Proof.
    intros Hd e r p L Hw HL H64 Hfu. unfold bound_spec.
    destruct e; try (cbn [def_array_elems sem_agrees]; apply bind_is_err; apply array_rej; [assumption|reflexivity]).
    2:{ cbn [def_array_elems sem_agrees]. rewrite (bind_ok _ _ _ _ _ (array_head_indef es r p L)). apply is_err_fail. }
    cbn [def_array_elems]. rewrite (bind_ok _ _ _ _ _ (array_head_def w es r p L Hw HL)). cbn [opt_eqb].
    destruct (N.eqb_spec (len es) 2) as [E2|N2].
    2:{ destruct es as [|a [|b [|x l]]]; cbn [sem_agrees]; try apply is_err_fail. exfalso. apply N2. reflexivity. }
    destruct (len_two es E2) as (i & x & ->). change (len [i; x]) with 2 in *.
    cbn [wf ser flat_map forallb] in *. rewrite app_nil_r in *.
    apply andb_prop in Hw as [_ Hw]. apply andb_prop in Hw as [Hwi Hw]. apply andb_prop in Hw as [Hwx _].
    rewrite !len_app in *. rewrite <- !app_assoc in *. change (len [i; x]) with 2 in *.
    pose proof (index_sem i (ser x ++ r) (p + len (Cbor.head 4 w 2)) L Hwi ltac:(lia)) as Hi.
    destruct (ts_index i) as [n|]; [|cbn [sem_agrees]; now apply bind_is_err].
    rewrite (bind_ok _ _ _ _ _ Hi).
    destruct (n <? 2).
    - match goal with |- sem_agrees (bind ?m _ _) _ _ _ _ => change (bind m (fun x0 => ret (VVar n x0))) with (fmap (VVar n) m) end.
      apply sem_agrees_fmap.
      pose proof (Hd x r (p + len (Cbor.head 4 w 2) + len (ser i)) L Hwx ltac:(lia) ltac:(lia) ltac:(rewrite !app_length in *; lia)) as G.
      eapply sem_agrees_pos; [|exact G]. lia.
    - destruct (n =? 2); [|apply is_err_fail].
      destruct (skippable alloc x) eqn:Hs; [|exact I]. cbn [sem_agrees].
      rewrite (bind_ok _ _ _ _ _ (skip_item c x r (p + len (Cbor.head 4 w 2) + len (ser i)) L Hwx Hs ltac:(lia) ltac:(lia))). unfold ret. apply ok_pos. lia.
  Qed.

  (* ---- Duration / SystemTime ---- *)
  Lemma dur_fields : Forall2 (elem_ok fuel) [fmap VNat dec_u64; fmap VNat dec_u32]
                       [ts_uint 18446744073709551615; ts_uint 4294967295].
  Proof. repeat constructor; apply uint_sem; lia. Qed.

  Lemma duration_sem : elem_ok fuel (l <- dec_fields c [fmap VNat dec_u64; fmap VNat dec_u32] fuel ;; mk_duration l) (ts_duration alloc).
  Proof.
    intros e r p L Hw HL H64 Hfu. unfold ts_duration.
    eapply sem_agrees_bind; [apply (dec_fields_sem c fuel _ _ dur_fields); assumption|].
    intros a Ea. unfold ts_fields_of in Ea. destruct (array_elems e) as [es|]; [|discriminate].
    destruct (duration_fields_shape _ _ _ _ _ Ea) as (s & ns & ->).
    cbn [mk_duration umax]. cbv zeta.
    destruct (s + ns / 1000000000 <=? 18446744073709551615); cbn [sem_agrees]; [reflexivity|apply is_err_fail].
  Qed.

  Lemma systemtime_sem :
    elem_ok fuel (l <- dec_fields c [fmap VNat dec_u64; fmap VNat dec_u32] fuel ;; d <- mk_duration l ;;
                  match d with
                  | VList [VNat s; VNat ns] => if s <=? imax B64 then ret (VVar 0 d) else fail Message
                  | _ => fun st => (Panic, st)
                  end)
      (fun e => ts_bind (ts_duration alloc e)
                  (fun d => match d with
                            | VList [VNat s; _] => if s <=? 9223372036854775807 then TsVal (VVar 0 d) else TsErr
                            | _ => TsErr
                            end)).
  Proof.
    intros e r p L Hw HL H64 Hfu. unfold ts_duration. rewrite ts_bind_bind.
    eapply sem_agrees_bind; [apply (dec_fields_sem c fuel _ _ dur_fields); assumption|].
    intros a Ea. unfold ts_fields_of in Ea. destruct (array_elems e) as [es|]; [|discriminate].
    destruct (duration_fields_shape _ _ _ _ _ Ea) as (s & ns & ->).
    cbn [mk_duration umax imax]. cbv zeta.
    destruct (s + ns / 1000000000 <=? 18446744073709551615); cbn [ts_bind]; [|apply bind_is_err; apply is_err_fail].
    unfold ret at 1. unfold bind at 1.
    destruct (s + ns / 1000000000 <=? 9223372036854775807); cbn [sem_agrees]; [reflexivity|apply is_err_fail].
  Qed.

  (* ---- all built-in types ---- *)
  Lemma elems_forall2 ts : Forall (fun t => whole_ty t = true -> elem_ok fuel (D t) (sem_ty alloc t)) ts ->
    forallb whole_ty ts = true -> Forall2 (elem_ok fuel) (map D ts) (map (sem_ty alloc) ts).
  Proof.
    induction 1 as [|t ts Ht _ IH]; cbn [forallb map]; intro H; [constructor|].
    apply andb_prop in H as [H1 H2]. constructor; auto.
  Qed.

  Lemma len_map {A B} (g : A -> B) l : len (map g l) = len l.
  Proof. unfold len. now rewrite map_length. Qed.

  Theorem sem_ty_agrees : forall t, whole_ty t = true -> elem_ok fuel (D t) (sem_ty alloc t).
  Proof.
    induction t using ty_ind'; intro Hwt; cbn [whole_ty] in Hwt; try discriminate Hwt; cbn [decode_ty sem_ty].
    - apply uint_sem. destruct w; cbn [umax]; lia.
    - apply sint_sem.
    - apply int_sem.
    - apply (bool_sem fuel alloc).
    - apply (char_sem fuel alloc).
    - apply (f32_sem fuel alloc).
    - apply (f64_sem fuel alloc).
    - apply nzu_sem. destruct w; cbn [umax]; lia.
    - apply nzi_sem.
    - apply (str_sem fuel alloc).
    - apply (bytes_sem fuel alloc).
    - apply (bytearr_sem fuel alloc).
    - apply (cstr_sem fuel alloc).
    - apply (unit_sem fuel alloc).
    - apply opt_sem. auto.
    - apply seq_sem. auto.
    - apply arr_sem. auto.
    - apply andb_prop in Hwt as [H1 H2]. apply map_sem; auto.
    - pose proof (tuple_sem fuel _ _ (elems_forall2 ts H Hwt)) as G. rewrite !len_map in G. exact G.
    - intros e r p L Hw HL H64 Hfu. apply sem_agrees_fmap.
      apply (dec_fields_sem c fuel _ _ (elems_forall2 ts H Hwt)); assumption.
    - pose proof (enum_sem _ _ (elems_forall2 ts H Hwt)) as G. unfold enum_spec in G. rewrite len_map in G. exact G.
    - apply bound_sem. auto.
    - apply tagged_sem. auto.
    - apply duration_sem.
    - apply systemtime_sem.
  Qed.
End Agree.

(* ---- the statements pinned in Props/C04.v ---- *)
(* XOk v k: the decoder returns v, the position has advanced by exactly k, what remains is the input without
   its first k bytes; XErr: an error (never Panic / OutOfFuel); XAny: unconstrained *)
Definition tagrees_at (res : result value * dst) (x : texpect) (p : N) (inp : bytes) (L : N) : Prop :=
  match x with
  | TXOk v k => res = (Ok v, mkdst (p + k) (dropN inp k) L)
  | TXErr => is_err res
  | TXAny => True
  end.

(* the same for descriptors that consume the whole item: r is what follows the item *)
Definition tagrees (res : result value * dst) (x : texpect) (p : N) (r : bytes) (L : N) : Prop :=
  match x with
  | TXOk v k => res = (Ok v, mkdst (p + k) r L)
  | TXErr => is_err res
  | TXAny => True
  end.

Lemma consumed_whole t e : whole_ty t = true -> consumed_ty t e = len (ser e).
Proof. destruct t; try reflexivity. discriminate. Qed.

Theorem types_agree_whole c t e r p L fuel :
  whole_ty t = true -> wf e = true -> p + len (ser e) <= L -> len (ser e) < 18446744073709551616 ->
  (length (ser e ++ r) < fuel)%nat ->
  tagrees (decode_ty c t fuel (mkdst p (ser e ++ r) L)) (spec_ty_lenient_at (c_alloc c) t e) p r L.
Proof.
  intros Ht Hw HL H64 Hfu. pose proof (sem_ty_agrees c fuel t Ht e r p L Hw HL H64 Hfu) as H.
  unfold spec_ty_lenient_at. destruct (sem_ty (c_alloc c) t e); cbn [sem_agrees tagrees] in *; try assumption.
  now rewrite consumed_whole.
Qed.

Theorem types_agree c t e r p L fuel :
  tag_top t = true -> wf e = true -> p + len (ser e) <= L -> len (ser e) < 18446744073709551616 ->
  (length (ser e ++ r) < fuel)%nat ->
  tagrees_at (decode_ty c t fuel (mkdst p (ser e ++ r) L)) (spec_ty_lenient_at (c_alloc c) t e) p (ser e ++ r) L.
Proof.
  intros Ht Hw HL H64 Hfu. destruct (whole_ty t) eqn:Hwt.
  - pose proof (types_agree_whole c t e r p L fuel Hwt Hw HL H64 Hfu) as H.
    destruct (spec_ty_lenient_at (c_alloc c) t e) as [v k| |] eqn:E; cbn [tagrees tagrees_at] in *; try assumption.
    assert (k = len (ser e)) as ->.
    { unfold spec_ty_lenient_at in E. destruct (sem_ty (c_alloc c) t e); try discriminate. injection E as _ <-. now apply consumed_whole. }
    now rewrite dropN_app.
  - destruct t; cbn [tag_top whole_ty] in Ht, Hwt; try congruence. unfold spec_ty_lenient_at. cbn [decode_ty sem_ty].
    destruct e; try (cbn [tagrees_at]; apply fmap_is_err; apply tag_rej; [assumption|discriminate]).
    cbn [tagrees_at consumed_ty]. apply fmap_ok. rewrite (tag_head w t e r p L Hw HL).
    cbn [ser]. rewrite <- app_assoc, (head_len_eq 6 w t), dropN_app. reflexivity.
Qed.

(* with every feature enabled the specification is spec_ty_lenient *)
Corollary types_agree_full c t e r p L fuel :
  c_alloc c = true -> tag_top t = true -> wf e = true -> p + len (ser e) <= L ->
  len (ser e) < 18446744073709551616 -> (length (ser e ++ r) < fuel)%nat ->
  tagrees_at (decode_ty c t fuel (mkdst p (ser e ++ r) L)) (spec_ty_lenient t e) p (ser e ++ r) L.
Proof. intros Hc. unfold spec_ty_lenient. pose proof (types_agree c t e r p L fuel) as H. rewrite Hc in H. exact H. Qed.

(* through the entry point the correspondence check runs *)
Corollary types_agree_auto c t e r :
  tag_top t = true -> wf e = true -> len (ser e ++ r) < 18446744073709551616 ->
  tagrees_at (run (decode_auto c t) (ser e ++ r)) (spec_ty_lenient_at (c_alloc c) t e) 0 (ser e ++ r) (len (ser e ++ r)).
Proof.
  intros Ht Hw H64. unfold run, decode_auto, start, fuel_of. cbn [drest].
  apply types_agree; try assumption; rewrite ?len_app in *; try lia.
Qed.

(* position: whenever the specification assigns a value, decoding succeeds with it and stops exactly at the
   end of the item *)
Theorem types_position c t e r p L fuel v k :
  whole_ty t = true -> wf e = true -> p + len (ser e) <= L -> len (ser e) < 18446744073709551616 ->
  (length (ser e ++ r) < fuel)%nat -> spec_ty_lenient_at (c_alloc c) t e = TXOk v k ->
  decode_ty c t fuel (mkdst p (ser e ++ r) L) = (Ok v, mkdst (p + len (ser e)) r L) /\ k = len (ser e).
Proof.
  intros Ht Hw HL H64 Hfu E. pose proof (types_agree_whole c t e r p L fuel Ht Hw HL H64 Hfu) as H.
  rewrite E in H. cbn [tagrees] in H.
  assert (k = len (ser e)) as ->.
  { unfold spec_ty_lenient_at in E. destruct (sem_ty (c_alloc c) t e); try discriminate. injection E as _ <-. now apply consumed_whole. }
  split; [exact H|reflexivity].
Qed.

(* ... and conversely a success on a constrained combination is the specified value at the end of the item:
   a non-matching type never returns a value *)
Theorem types_success c t e r p L fuel v s' :
  whole_ty t = true -> wf e = true -> p + len (ser e) <= L -> len (ser e) < 18446744073709551616 ->
  (length (ser e ++ r) < fuel)%nat -> spec_ty_lenient_at (c_alloc c) t e <> TXAny ->
  decode_ty c t fuel (mkdst p (ser e ++ r) L) = (Ok v, s') ->
  spec_ty_lenient_at (c_alloc c) t e = TXOk v (len (ser e)) /\ s' = mkdst (p + len (ser e)) r L.
Proof.
  intros Ht Hw HL H64 Hfu Hna E. pose proof (types_agree_whole c t e r p L fuel Ht Hw HL H64 Hfu) as H.
  destruct (spec_ty_lenient_at (c_alloc c) t e) as [v' k| |] eqn:Es; cbn [tagrees] in H.
  - destruct (types_position c t e r p L fuel v' k Ht Hw HL H64 Hfu Es) as [E' ->].
    rewrite E in E'. injection E' as <- <-. split; reflexivity.
  - destruct H as (x & s'' & H). rewrite E in H. discriminate.
  - contradiction.
Qed.

(* ---- link with the encoder side (C01): on the bytes the matching encoder writes, read as a tree e, the
   specification assigns the encoded value — or does not constrain the combination; it never demands an error
   or another value ---- *)
Theorem types_roundtrip_consistent t v cs e :
  ty_ok t = true -> rt_ok t = true -> whole_ty t = true -> encode_ty t v = Some cs ->
  flat cs = ser e -> wf e = true -> len (ser e) < 18446744073709551616 ->
  spec_ty_lenient t e = TXOk v (len (ser e)) \/ spec_ty_lenient t e = TXAny.
Proof.
  intros Hok Hrt Hwt He Hs Hw H64.
  pose proof (roundtrip cfg_full t v cs [] 0 (len (flat cs)) (S (length (flat cs ++ []))) Hok Hrt He
                ltac:(lia) ltac:(rewrite Hs; exact H64) ltac:(lia)) as R.
  rewrite Hs in R.
  pose proof (types_agree_whole cfg_full t e [] 0 (len (ser e)) (S (length (ser e ++ []))) Hwt Hw ltac:(lia) H64 ltac:(lia)) as A.
  change (spec_ty_lenient_at (c_alloc cfg_full) t e) with (spec_ty_lenient t e) in A.
  destruct (spec_ty_lenient t e) as [v' k| |] eqn:E; cbn [tagrees] in A.
  - left. rewrite R in A. injection A as <- Hk. f_equal. lia.
  - destruct A as (x & s' & A). rewrite R in A. discriminate.
  - now right.
Qed.

(* ---- the specification proper (Spec/TypeSem.v spec_ty_at): outside the lenient class it is the lenient reading ---- *)
Lemma strict_eq alloc t e : lenient_hit t e = false -> spec_ty_at alloc t e = spec_ty_lenient_at alloc t e.
Proof. unfold spec_ty_at. now intros ->. Qed.

Theorem types_strict_agree c t e r p L fuel :
  tag_top t = true -> lenient_hit t e = false -> wf e = true -> p + len (ser e) <= L ->
  len (ser e) < 18446744073709551616 -> (length (ser e ++ r) < fuel)%nat ->
  tagrees_at (decode_ty c t fuel (mkdst p (ser e ++ r) L)) (spec_ty_at (c_alloc c) t e) p (ser e ++ r) L.
Proof. intros Ht Hh. rewrite (strict_eq _ _ _ Hh). now apply types_agree. Qed.

Theorem types_strict_agree_whole c t e r p L fuel :
  whole_ty t = true -> lenient_hit t e = false -> wf e = true -> p + len (ser e) <= L ->
  len (ser e) < 18446744073709551616 -> (length (ser e ++ r) < fuel)%nat ->
  tagrees (decode_ty c t fuel (mkdst p (ser e ++ r) L)) (spec_ty_at (c_alloc c) t e) p r L.
Proof. intros Ht Hh. rewrite (strict_eq _ _ _ Hh). now apply types_agree_whole. Qed.

Theorem types_strict_position c t e r p L fuel v k :
  whole_ty t = true -> wf e = true -> p + len (ser e) <= L -> len (ser e) < 18446744073709551616 ->
  (length (ser e ++ r) < fuel)%nat -> spec_ty_at (c_alloc c) t e = TXOk v k ->
  decode_ty c t fuel (mkdst p (ser e ++ r) L) = (Ok v, mkdst (p + len (ser e)) r L) /\ k = len (ser e).
Proof.
  intros Ht Hw HL H64 Hfu E. unfold spec_ty_at in E. destruct (lenient_hit t e); [discriminate|].
  now apply types_position.
Qed.

Theorem types_strict_success c t e r p L fuel v s' :
  whole_ty t = true -> lenient_hit t e = false -> wf e = true -> p + len (ser e) <= L ->
  len (ser e) < 18446744073709551616 -> (length (ser e ++ r) < fuel)%nat -> spec_ty_at (c_alloc c) t e <> TXAny ->
  decode_ty c t fuel (mkdst p (ser e ++ r) L) = (Ok v, s') ->
  spec_ty_at (c_alloc c) t e = TXOk v (len (ser e)) /\ s' = mkdst (p + len (ser e)) r L.
Proof. intros Ht Hh. rewrite (strict_eq _ _ _ Hh). now apply types_success. Qed.

(* the lenient class is empty for descriptors without decode_fields! types and Bound *)
Lemma existsb_none {A} (f : A -> bool) l : (forall x, f x = false) -> existsb f l = false.
Proof. intro H. induction l as [|x l IH]; cbn [existsb]; [reflexivity|]. now rewrite H, IH. Qed.

Lemma hit_alt_none fk fv es : (forall e, fk e = false) -> (forall e, fv e = false) -> hit_alt fk fv es = false.
Proof.
  intros Hk Hv. assert (G: forall n es, (length es <= n)%nat -> hit_alt fk fv es = false).
  { induction n as [|n IH]; intros [|k [|v l]] Hl; cbn [hit_alt length] in *; try reflexivity; try lia.
    rewrite Hk, Hv. cbn [orb]. apply IH. lia. }
  apply (G (length es)). lia.
Qed.

Lemma hit_zip_none ts es : Forall (fun t => forall e, lenient_hit t e = false) ts -> hit_zip (map lenient_hit ts) es = false.
Proof.
  intro H. revert es. induction H as [|t ts Ht _ IH]; intros [|e es]; cbn [map hit_zip]; try reflexivity.
  now rewrite Ht, IH.
Qed.

Theorem strict_ty_no_hit : forall t, strict_ty t = true -> forall e, lenient_hit t e = false.
Proof.
  induction t using ty_ind'; intros Hs e; cbn [strict_ty] in Hs; try discriminate Hs; cbn [lenient_hit]; try reflexivity.
  - auto.
  - destruct (array_elems e); [|reflexivity]. apply existsb_none. auto.
  - destruct (array_elems e); [|reflexivity]. apply existsb_none. auto.
  - apply andb_prop in Hs as [H1 H2]. destruct (map_elems e); [|reflexivity]. apply hit_alt_none; auto.
  - destruct (array_elems e); [|reflexivity]. apply hit_zip_none.
    rewrite Forall_forall in *. rewrite forallb_forall in Hs. auto.
  - destruct (array_elems e) as [[|i [|x [|y l]]]|]; try reflexivity.
    destruct (ts_index i) as [n|]; [|reflexivity]. destruct (n <? len ts); [|reflexivity].
    destruct (nth_error (map lenient_hit ts) (N.to_nat n)) as [f|] eqn:En; [|reflexivity].
    apply nth_error_In in En. apply in_map_iff in En as (t & <- & Hin).
    rewrite Forall_forall in H. rewrite forallb_forall in Hs. auto.
  - destruct e; try reflexivity. auto.
Qed.

Corollary types_strict_ty c t e r p L fuel :
  whole_ty t = true -> strict_ty t = true -> wf e = true -> p + len (ser e) <= L ->
  len (ser e) < 18446744073709551616 -> (length (ser e ++ r) < fuel)%nat ->
  tagrees (decode_ty c t fuel (mkdst p (ser e ++ r) L)) (spec_ty_at (c_alloc c) t e) p r L.
Proof. intros Ht Hs. apply types_strict_agree_whole; [assumption|now apply strict_ty_no_hit]. Qed.

(* the class is not empty, and the implementation does return a value on it (candidate finding): *)
Lemma lenient_refuted_range :
  let t := TyFields [TyU B8; TyU B8] in let e := EArray W0 [EUInt W0 1; EUInt W0 2; EUInt W0 3] in
  wf e = true /\ lenient_hit t e = true /\ spec_ty t e = TXErr
  /\ run (decode_auto cfg_full t) (ser e) = (Ok (VList [VNat 1; VNat 2]), mkdst 4 [] 4).
Proof. vm_compute. repeat split. Qed.

Lemma lenient_refuted_bound :
  let t := TyBound (TyI B32) in let e := EArray W0 [EUInt W0 2; EUInt W1 255] in
  wf e = true /\ lenient_hit t e = true /\ spec_ty t e = TXErr
  /\ run (decode_auto cfg_full t) (ser e) = (Ok (VVar 2 VUnit), mkdst 4 [] 4).
Proof. vm_compute. repeat split. Qed.

Lemma lenient_refuted_duration :
  let e := EArrayI [EUInt W0 5; EUInt W0 7; EText W0 [120]] in
  wf e = true /\ lenient_hit TyDuration e = true /\ spec_ty TyDuration e = TXErr
  /\ run (decode_auto cfg_full TyDuration) (ser e) = (Ok (VList [VNat 5; VNat 7]), mkdst 6 [] 6).
Proof. vm_compute. repeat split. Qed.

Theorem types_roundtrip_consistent_strict t v cs e :
  ty_ok t = true -> rt_ok t = true -> whole_ty t = true -> lenient_hit t e = false -> encode_ty t v = Some cs ->
  flat cs = ser e -> wf e = true -> len (ser e) < 18446744073709551616 ->
  spec_ty t e = TXOk v (len (ser e)) \/ spec_ty t e = TXAny.
Proof.
  intros Hok Hrt Hwt Hh. unfold spec_ty. rewrite (strict_eq true t e Hh). now apply types_roundtrip_consistent.
Qed.
