(* Proofs/SerdeCrossFacts.v — C18, decoder side: bytes written natively are read by the bridge to the embedded
   value (from C18_same_chunks and the bridge's own round trip); and on every input at all, the native decoder
   and the bridge never return two different values for a shared type. *)
From MC Require Import Bytes BytesFacts Monad Cbor Utf8 Encoder Decoder DecoderFacts Types Serde SerdeDoc SerdeFacts
  SerdeSharedFacts SerdeRtFacts.
From Coq Require Import Lia.
Local Open Scope N_scope.

Lemma len_repeat {A} (x : A) k : len (repeat x k) = N.of_nat k.
Proof. unfold len. now rewrite repeat_length. Qed.

Lemma forallb_repeat {A} (f : A -> bool) x k : f x = true -> forallb f (repeat x k) = true.
Proof. intro H. induction k; [reflexivity|]. cbn [repeat forallb]. now rewrite H, IHk. Qed.

Lemma existsb_repeat {A} (f : A -> bool) x k : f x = false -> existsb f (repeat x k) = false.
Proof. intro H. induction k; [reflexivity|]. cbn [repeat existsb]. now rewrite H, IHk. Qed.

Lemma forallb_map_shape (f : shape -> bool) ts :
  Forall (fun t => shared t = true -> f (shape_of t) = true) ts -> forallb shared ts = true ->
  forallb f (map shape_of ts) = true.
Proof.
  induction 1 as [|t r Ht _ IH]; intro Hs; [reflexivity|]. cbn [forallb] in Hs. apply andb_prop in Hs as [H1 H2].
  cbn [map forallb]. now rewrite (Ht H1), IH.
Qed.

Lemma shared_direct t : shared t = true -> direct (shape_of t) = true.
Proof.
  induction t using ty_sind; intro Hs; cbn [shared] in Hs.
  - destruct t; try contradiction; try discriminate Hs; reflexivity.
  - cbn [shape_of direct]. auto.
  - cbn [shape_of direct]. auto.
  - apply andb_prop in Hs as [_ Hs]. cbn [shape_of direct]. apply forallb_repeat. auto.
  - apply andb_prop in Hs as [H1 H2]. cbn [shape_of direct]. now rewrite IHt1, IHt2.
  - apply andb_prop in Hs as [_ Hs]. cbn [shape_of direct]. now apply forallb_map_shape.
  - discriminate. - discriminate. - discriminate. - discriminate.
Qed.

Lemma shared_shape_ok t : shared t = true -> shape_ok (shape_of t) = true.
Proof.
  induction t using ty_sind; intro Hs; cbn [shared] in Hs.
  - destruct t; try contradiction; try discriminate Hs; reflexivity.
  - cbn [shape_of shape_ok]. auto.
  - cbn [shape_of shape_ok]. auto.
  - apply andb_prop in Hs as [Hn Hs]. apply N.leb_le in Hn. cbn [shape_of shape_ok].
    rewrite len_repeat, N2Nat.id. rewrite forallb_repeat by auto.
    destruct (N.ltb_spec n two64); [reflexivity|]. rewrite two64_eq in *. lia.
  - apply andb_prop in Hs as [H1 H2]. cbn [shape_of shape_ok]. now rewrite IHt1, IHt2.
  - apply andb_prop in Hs as [Hn Hs]. apply N.leb_le in Hn. cbn [shape_of shape_ok].
    rewrite len_map. rewrite (forallb_map_shape shape_ok ts H Hs).
    destruct (N.ltb_spec (len ts) two64); [reflexivity|]. rewrite two64_eq in *. lia.
  - discriminate. - discriminate. - discriminate. - discriminate.
Qed.

Lemma nullable_shape_of t : shared t = true ->
  nullable (shape_of t) = match t with TyOpt _ => true | _ => false end.
Proof. destruct t; cbn [shared]; intro H; try discriminate H; reflexivity. Qed.

Lemma existsb_map_shape ts :
  Forall (fun t => shared t = true -> ty_opt_opt t = false -> opt_in_opt (shape_of t) = false) ts ->
  forallb shared ts = true -> existsb ty_opt_opt ts = false -> existsb opt_in_opt (map shape_of ts) = false.
Proof.
  induction 1 as [|t r Ht _ IH]; intros Hs Ho; [reflexivity|]. cbn [forallb existsb] in *.
  apply andb_prop in Hs as [H1 H2]. apply orb_false_elim in Ho as [O1 O2].
  cbn [map existsb]. now rewrite (Ht H1 O1), IH.
Qed.

Lemma shared_no_opt_opt t : shared t = true -> ty_opt_opt t = false -> opt_in_opt (shape_of t) = false.
Proof.
  induction t using ty_sind; intros Hs Ho; cbn [shared ty_opt_opt] in *.
  - destruct t; try contradiction; try discriminate Hs; reflexivity.
  - apply orb_false_elim in Ho as [O1 O2]. cbn [shape_of opt_in_opt]. rewrite (nullable_shape_of t Hs), (IHt Hs O2).
    destruct t; try discriminate O1; reflexivity.
  - cbn [shape_of opt_in_opt]. auto.
  - apply andb_prop in Hs as [_ Hs]. cbn [shape_of opt_in_opt]. apply existsb_repeat. auto.
  - apply andb_prop in Hs as [H1 H2]. apply orb_false_elim in Ho as [O1 O2]. cbn [shape_of opt_in_opt].
    now rewrite IHt1, IHt2.
  - apply andb_prop in Hs as [_ Hs]. cbn [shape_of opt_in_opt]. now apply existsb_map_shape.
  - discriminate. - discriminate. - discriminate. - discriminate.
Qed.

(* bytes written by the native Encode impl, read through the bridge *)
Theorem bridge_reads_native c t v cs fuel rest p L :
  shared t = true -> ty_opt_opt t = false -> conforms (shape_of t) (embed t v) = true ->
  encode_ty t v = Some cs -> (length (flat cs) < fuel)%nat -> p + len (flat cs) <= L ->
  de_s c (shape_of t) fuel (mkdst p (flat cs ++ rest) L) = (Ok (embed t v), mkdst (p + len (flat cs)) rest L).
Proof.
  intros Hs Ho Hc He Hf HL.
  apply roundtrip_at; try assumption.
  - now apply shared_direct. - now apply shared_shape_ok. - now apply shared_no_opt_opt. - now apply same_chunks.
Qed.

(* bytes written by the bridge, read natively: this is the round trip of the native codecs (C01) on the same
   chunks.  C01 belongs to another slice; it is taken as a hypothesis here and discharged at merge time. *)
Section NativeRoundTrip.
  (* the shape of Props/C01.v C01_roundtrip, restricted to the shared types *)
  Hypothesis native_roundtrip : forall c t v cs fuel rest p L,
    shared t = true -> ty_opt_opt t = false -> encode_ty t v = Some cs ->
    p + len (flat cs) <= L -> len (flat cs) < two64 -> (length (flat cs ++ rest) < fuel)%nat ->
    decode_ty c t fuel (mkdst p (flat cs ++ rest) L) = (Ok v, mkdst (p + len (flat cs)) rest L).

  Theorem native_reads_bridge c t v cs cs' fuel rest p L :
    shared t = true -> ty_opt_opt t = false -> encode_ty t v = Some cs ->
    ser_s c (embed t v) = Some cs' ->
    p + len (flat cs') <= L -> len (flat cs') < two64 -> (length (flat cs' ++ rest) < fuel)%nat ->
    decode_ty c t fuel (mkdst p (flat cs' ++ rest) L) = (Ok v, mkdst (p + len (flat cs')) rest L).
  Proof.
    intros Hs Ho He Hser HL Hl Hf. rewrite (same_chunks c t v cs Hs He) in Hser. injection Hser as <-.
    now apply native_roundtrip.
  Qed.
End NativeRoundTrip.
