(* Proofs/TypeSemLoops.v — the element loops of decode_ty (definite count / until break, arrays, [T; N],
   maps, tuples, decode_fields!) against the list combinators of Spec/TypeSem.v, on the serialisation of
   arbitrary well-formed element lists. *)
From MC Require Import Bytes BytesFacts Monad Cbor Utf8 Half Decoder Acc Accessors Types TypeSem
  DecoderFacts CborFacts IntFacts AccFacts AccAgreeFacts TypesEnc TypesDec TypesFacts SkipFacts TypeSemFacts.
From Coq Require Import Lia.
Local Open Scope N_scope.

Ltac lens' :=
  repeat rewrite ?app_length, ?len_app, ?len_cons, ?len_nil in *; cbn [length] in *; unfold len in *; lia.

(* ---- tsem algebra ---- *)
Lemma ts_map_bind {A B C} (g : B -> C) (s : tsem A) (k : A -> tsem B) :
  ts_map g (ts_bind s k) = ts_bind s (fun a => ts_map g (k a)).
Proof. destruct s; reflexivity. Qed.
Lemma ts_bind_map {A B C} (g : A -> B) (s : tsem A) (k : B -> tsem C) :
  ts_bind (ts_map g s) k = ts_bind s (fun a => k (g a)).
Proof. destruct s; reflexivity. Qed.
Lemma ts_bind_bind {A B C} (s : tsem A) (k : A -> tsem B) (h : B -> tsem C) :
  ts_bind (ts_bind s k) h = ts_bind s (fun a => ts_bind (k a) h).
Proof. destruct s; reflexivity. Qed.
Lemma ts_map_map {A B C} (g : B -> C) (h : A -> B) (s : tsem A) : ts_map g (ts_map h s) = ts_map (fun a => g (h a)) s.
Proof. destruct s; reflexivity. Qed.
Lemma ts_map_ext {A B} (g h : A -> B) (s : tsem A) : (forall a, g a = h a) -> ts_map g s = ts_map h s.
Proof. intro H. destruct s; cbn [ts_map]; [now rewrite H|reflexivity..]. Qed.
Lemma ts_bind_ext {A B} (g h : A -> tsem B) (s : tsem A) : (forall a, g a = h a) -> ts_bind s g = ts_bind s h.
Proof. intro H. destruct s; cbn [ts_bind]; [now rewrite H|reflexivity..]. Qed.
Lemma ts_map_id {A} (s : tsem A) : ts_map (fun a => a) s = s.
Proof. destruct s; reflexivity. Qed.

Lemma sem_agrees_eq {A} (res : result A * dst) s s' q r L : s = s' -> sem_agrees res s q r L -> sem_agrees res s' q r L.
Proof. now intros ->. Qed.

Lemma rev_cons_app {A} (a : A) acc l : rev (a :: acc) ++ l = rev acc ++ a :: l.
Proof. cbn [rev]. now rewrite <- app_assoc. Qed.

(* skip() on an item the specification calls skippable *)
Lemma skip_item c e r p L : wf e = true -> skippable (c_alloc c) e = true ->
  len (ser e) < 18446744073709551616 -> p + len (ser e) <= L ->
  skip_auto c (mkdst p (ser e ++ r) L) = (Ok tt, mkdst (p + len (ser e)) r L).
Proof.
  intros Hw Hs H64 HL. unfold skippable in Hs. apply andb_prop in Hs as [Hu Ha].
  unfold skip_auto, skip, fuel_of. cbn [drest].
  assert (Hf: (length (ser e) <= S (length (ser e ++ r)))%nat) by (rewrite app_length; lia).
  destruct (c_alloc c).
  - now apply skip_exact.
  - cbn [orb] in Ha. now apply skip_noalloc_exact.
Qed.

Lemma skip_break c r p L : skip_auto c (mkdst p (255 :: r) L) = (Ok tt, mkdst (p + 1) r L).
Proof. unfold skip_auto, skip, fuel_of. cbn [drest length]. destruct (c_alloc c); reflexivity. Qed.

(* ---- loops over an abstract unit of input (an item for arrays, a key and a value for maps) ---- *)
Section Loops.
  Variable fuel : nat.
  Context {X : Type}.
  Variable serX : X -> bytes.
  Variable okX : X -> Prop.
  Variable semX : X -> tsem value.
  Variable d : M value.
  Hypothesis Hd : forall x r p L, okX x -> p + len (serX x) <= L -> len (serX x) < 18446744073709551616 ->
    (length (serX x ++ r) < fuel)%nat ->
    sem_agrees (d (mkdst p (serX x ++ r) L)) (semX x) (p + len (serX x)) r L.
  Hypothesis Hfirst : forall x, okX x -> exists b t, serX x = b :: t /\ b <> 255.

  Lemma unit_nonempty x : okX x -> (1 <= length (serX x))%nat.
  Proof. intro H. destruct (Hfirst x H) as (b & t & -> & _). cbn [length]. lia. Qed.

  Lemma units_length xs : Forall okX xs -> (length xs <= length (flat_map serX xs))%nat.
  Proof.
    induction 1 as [|x xs Hx _ IH]; cbn [length flat_map]; [lia|].
    rewrite app_length. pose proof (unit_nonempty x Hx). lia.
  Qed.

  Lemma dec_n_sem : forall xs fl acc r p L,
    Forall okX xs -> p + len (flat_map serX xs) <= L -> len (flat_map serX xs) < 18446744073709551616 ->
    (length (flat_map serX xs ++ r) < fuel)%nat -> (length xs <= fl)%nat ->
    sem_agrees (dec_n d (len xs) fl acc (mkdst p (flat_map serX xs ++ r) L))
               (ts_map (fun l => rev acc ++ l) (ts_all semX xs)) (p + len (flat_map serX xs)) r L.
  Proof.
    induction xs as [|x xs IH]; intros fl acc r p L Hok HL H64 Hfu Hfl.
    - change (len (@nil X)) with 0. rewrite dec_n_0. cbn [flat_map app ts_all ts_map sem_agrees].
      unfold ret. rewrite app_nil_r. apply ok_pos. rewrite len_nil. lia.
    - inversion Hok as [|x0 xs0 Hx Hxs]; subst x0 xs0.
      destruct fl as [|fl]; [cbn [length] in Hfl; lia|].
      rewrite dec_n_S by (rewrite len_cons; lia).
      cbn [flat_map ts_all] in *. rewrite <- app_assoc. rewrite ts_map_bind.
      apply sem_agrees_bind with (q := p + len (serX x)) (r := flat_map serX xs ++ r).
      + apply Hd; [assumption|lens'..].
      + intros a _. replace (N.pred (len (x :: xs))) with (len xs) by (rewrite len_cons; lia).
        eapply sem_agrees_eq; [|eapply sem_agrees_pos; [|apply (IH fl (a :: acc)); [assumption|lens'..]]].
        * rewrite ts_map_map. apply ts_map_ext. intro l. apply rev_cons_app.
        * lens'.
  Qed.

  Lemma dec_until_break_sem : forall xs fl acc r p L,
    Forall okX xs -> p + len (flat_map serX xs) + 1 <= L -> len (flat_map serX xs) < 18446744073709551616 ->
    (length (flat_map serX xs ++ 255%N :: r) < fuel)%nat -> (length xs < fl)%nat ->
    sem_agrees (dec_until_break d fl acc (mkdst p (flat_map serX xs ++ 255 :: r) L))
               (ts_map (fun l => rev acc ++ l) (ts_all semX xs)) (p + len (flat_map serX xs) + 1) r L.
  Proof.
    induction xs as [|x xs IH]; intros fl acc r p L Hok HL H64 Hfu Hfl;
      (destruct fl as [|fl]; [cbn [length] in Hfl; lia|]); cbn [dec_until_break].
    - cbn [flat_map app ts_all ts_map sem_agrees].
      rewrite (bind_ok _ _ _ _ _ (current_cons _ _ _ _)). change (255 =? 255) with true. cbv iota.
      rewrite (bind_ok _ _ _ _ _ (read_cons _ _ _ _)). unfold ret. rewrite app_nil_r.
      apply ok_pos. rewrite len_nil. lia.
    - inversion Hok as [|x0 xs0 Hx Hxs]; subst x0 xs0.
      cbn [flat_map ts_all] in *. rewrite <- app_assoc.
      destruct (Hfirst x Hx) as (b & t & Eb & Hb). rewrite Eb at 1. cbn [app].
      rewrite (bind_ok _ _ _ _ _ (current_cons _ _ _ _)).
      destruct (N.eqb_spec b 255) as [|_]; [contradiction|].
      change (b :: t ++ flat_map serX xs ++ 255 :: r) with ((b :: t) ++ flat_map serX xs ++ 255 :: r). rewrite <- Eb.
      rewrite ts_map_bind.
      apply sem_agrees_bind with (q := p + len (serX x)) (r := flat_map serX xs ++ 255 :: r).
      + apply Hd; [assumption|lens'..].
      + intros a _.
        eapply sem_agrees_eq; [|eapply sem_agrees_pos; [|apply (IH fl (a :: acc)); [assumption|lens'..]]].
        * rewrite ts_map_map. apply ts_map_ext. intro l. apply rev_cons_app.
        * lens'.
  Qed.

  (* [T; N]: at most cap elements *)
  Definition cap_check (cap : N) (acc : list value) (l : list value) : tsem (list value) :=
    if len acc + len l <=? cap then TsVal (rev acc ++ l) else TsErr.

  Lemma cap_check_cons cap a acc l : len acc < cap -> cap_check cap (a :: acc) l = cap_check cap acc (a :: l).
  Proof. intros _. unfold cap_check. rewrite !len_cons, rev_cons_app. replace (1 + len acc + len l) with (len acc + (1 + len l)) by lia. reflexivity. Qed.
  Lemma cap_check_full cap a acc l : cap <= len acc -> cap_check cap acc (a :: l) = TsErr.
  Proof. intro H. unfold cap_check. rewrite len_cons. destruct (N.leb_spec (len acc + (1 + len l)) cap); [lia|reflexivity]. Qed.

  Lemma arr_n_sem cap : forall xs fl acc r p L,
    Forall okX xs -> p + len (flat_map serX xs) <= L -> len (flat_map serX xs) < 18446744073709551616 ->
    (length (flat_map serX xs ++ r) < fuel)%nat -> (length xs <= fl)%nat -> len acc <= cap ->
    sem_agrees (arr_n d cap (len xs) fl acc (mkdst p (flat_map serX xs ++ r) L))
               (ts_bind (ts_all semX xs) (cap_check cap acc)) (p + len (flat_map serX xs)) r L.
  Proof.
    induction xs as [|x xs IH]; intros fl acc r p L Hok HL H64 Hfu Hfl Hcap.
    - change (len (@nil X)) with 0. rewrite arr_n_0. cbn [flat_map app ts_all ts_bind].
      unfold cap_check. rewrite len_nil, N.add_0_r.
      destruct (N.leb_spec (len acc) cap); [|lia]. cbn [sem_agrees].
      unfold ret. rewrite app_nil_r. apply ok_pos. unfold len. cbn [length]. lia.
    - inversion Hok as [|x0 xs0 Hx Hxs]; subst x0 xs0.
      destruct fl as [|fl]; [cbn [length] in Hfl; lia|].
      rewrite arr_n_S by (rewrite len_cons; lia).
      cbn [flat_map ts_all] in *. rewrite <- app_assoc. rewrite ts_bind_bind.
      apply sem_agrees_bind with (q := p + len (serX x)) (r := flat_map serX xs ++ r).
      + apply Hd; [assumption|lens'..].
      + intros a _. rewrite ts_bind_map.
        replace (N.pred (len (x :: xs))) with (len xs) by (rewrite len_cons; lia).
        destruct (N.ltb_spec (len acc) cap) as [Hlt|Hge].
        * eapply sem_agrees_eq; [|eapply sem_agrees_pos; [|apply (IH fl (a :: acc)); [assumption|lens'..|rewrite len_cons; lia]]].
          -- apply ts_bind_ext. intro l. now apply cap_check_cons.
          -- lens'.
        * destruct (ts_all semX xs) as [l| |]; cbn [ts_bind sem_agrees]; try exact I; try apply is_err_fail.
          rewrite cap_check_full by assumption. apply is_err_fail.
  Qed.

  Lemma arr_until_break_sem cap : forall xs fl acc r p L,
    Forall okX xs -> p + len (flat_map serX xs) + 1 <= L -> len (flat_map serX xs) < 18446744073709551616 ->
    (length (flat_map serX xs ++ 255%N :: r) < fuel)%nat -> (length xs < fl)%nat -> len acc <= cap ->
    sem_agrees (arr_until_break d cap fl acc (mkdst p (flat_map serX xs ++ 255 :: r) L))
               (ts_bind (ts_all semX xs) (cap_check cap acc)) (p + len (flat_map serX xs) + 1) r L.
  Proof.
    induction xs as [|x xs IH]; intros fl acc r p L Hok HL H64 Hfu Hfl Hcap;
      (destruct fl as [|fl]; [cbn [length] in Hfl; lia|]); cbn [arr_until_break].
    - cbn [flat_map app ts_all ts_bind].
      rewrite (bind_ok _ _ _ _ _ (current_cons _ _ _ _)). change (255 =? 255) with true. cbv iota.
      rewrite (bind_ok _ _ _ _ _ (read_cons _ _ _ _)). unfold cap_check. rewrite len_nil, N.add_0_r.
      destruct (N.leb_spec (len acc) cap); [|lia]. cbn [sem_agrees]. unfold ret. rewrite app_nil_r.
      apply ok_pos. unfold len. cbn [length]. lia.
    - inversion Hok as [|x0 xs0 Hx Hxs]; subst x0 xs0.
      cbn [flat_map ts_all] in *. rewrite <- app_assoc.
      destruct (Hfirst x Hx) as (b & t & Eb & Hb). rewrite Eb at 1. cbn [app].
      rewrite (bind_ok _ _ _ _ _ (current_cons _ _ _ _)).
      destruct (N.eqb_spec b 255) as [|_]; [contradiction|].
      change (b :: t ++ flat_map serX xs ++ 255 :: r) with ((b :: t) ++ flat_map serX xs ++ 255 :: r). rewrite <- Eb.
      rewrite ts_bind_bind.
      apply sem_agrees_bind with (q := p + len (serX x)) (r := flat_map serX xs ++ 255 :: r).
      + apply Hd; [assumption|lens'..].
      + intros a _. rewrite ts_bind_map.
        destruct (N.ltb_spec (len acc) cap) as [Hlt|Hge].
        * eapply sem_agrees_eq; [|eapply sem_agrees_pos; [|apply (IH fl (a :: acc)); [assumption|lens'..|rewrite len_cons; lia]]].
          -- apply ts_bind_ext. intro l. now apply cap_check_cons.
          -- lens'.
        * destruct (ts_all semX xs) as [l| |]; cbn [ts_bind sem_agrees]; try exact I; try apply is_err_fail.
          rewrite cap_check_full by assumption. apply is_err_fail.
  Qed.
End Loops.

(* ---- the two instances: items, and key/value pairs ---- *)
Definition wf_item (e : enc) : Prop := wf e = true.

Lemma wf_items es : forallb wf es = true -> Forall wf_item es.
Proof. apply children_wf. Qed.

Lemma elem_ok_Hd fuel d f : elem_ok fuel d f ->
  forall x r p L, wf_item x -> p + len (ser x) <= L -> len (ser x) < 18446744073709551616 ->
    (length (ser x ++ r) < fuel)%nat -> sem_agrees (d (mkdst p (ser x ++ r) L)) (f x) (p + len (ser x)) r L.
Proof. intros H x r p L Hx. now apply H. Qed.

Definition ser_pair (kv : enc * enc) : bytes := ser (fst kv) ++ ser (snd kv).
Definition wf_pair (kv : enc * enc) : Prop := wf (fst kv) = true /\ wf (snd kv) = true.
Definition sem_pair (fk fv : enc -> tsem value) (kv : enc * enc) : tsem value :=
  ts_bind (fk (fst kv)) (fun a => ts_map (fun b => VList [a; b]) (fv (snd kv))).

Fixpoint pairs_of (es : list enc) : list (enc * enc) :=
  match es with k :: v :: r => (k, v) :: pairs_of r | _ => [] end.

Lemma pair_first kv : wf_pair kv -> exists b t, ser_pair kv = b :: t /\ b <> 255.
Proof.
  intros [Hk _]. destruct (ser_first_not_break _ Hk) as (b & t & E & Hb).
  exists b, (t ++ ser (snd kv)). unfold ser_pair. rewrite E. split; [reflexivity|assumption].
Qed.

Lemma pair_Hd fuel dk dv fk fv : elem_ok fuel dk fk -> elem_ok fuel dv fv ->
  forall x r p L, wf_pair x -> p + len (ser_pair x) <= L -> len (ser_pair x) < 18446744073709551616 ->
    (length (ser_pair x ++ r) < fuel)%nat ->
    sem_agrees (dec_pair dk dv (mkdst p (ser_pair x ++ r) L)) (sem_pair fk fv x) (p + len (ser_pair x)) r L.
Proof.
  intros Hk Hv [k v] r p L [Hwk Hwv] HL H64 Hfu. unfold ser_pair, sem_pair, dec_pair in *. cbn [fst snd] in *.
  rewrite <- app_assoc.
  apply sem_agrees_bind with (q := p + len (ser k)) (r := ser v ++ r).
  - apply Hk; [assumption|lens'..].
  - intros a _. change (fun v0 => ret (VList [a; v0])) with (fun v0 : value => ret ((fun b => VList [a; b]) v0)).
    eapply sem_agrees_pos; [|apply (sem_agrees_fmap (fun b => VList [a; b]) dv); apply Hv; [assumption|lens'..]].
    lens'.
Qed.

Lemma even_list_ind (P : list enc -> Prop) :
  P [] -> (forall k v r, P r -> P (k :: v :: r)) -> forall es, N.even (len es) = true -> P es.
Proof.
  intros H0 H2.
  assert (G: forall n es, length es = (2 * n)%nat -> P es).
  { induction n as [|n IH]; intros es Hl.
    - destruct es; [exact H0|cbn [length] in Hl; lia].
    - destruct es as [|k [|v r]]; cbn [length] in Hl; try lia. apply H2, IH. lia. }
  intros es He. apply N.even_spec in He as [m Hm]. apply (G (N.to_nat m)). unfold len in Hm. lia.
Qed.

Lemma pairs_ser es : N.even (len es) = true -> flat_map ser_pair (pairs_of es) = flat_map ser es.
Proof.
  revert es. apply (even_list_ind (fun es => flat_map ser_pair (pairs_of es) = flat_map ser es)); [reflexivity|]. intros k v r IH.
  cbn [pairs_of flat_map]. unfold ser_pair at 1. cbn [fst snd]. now rewrite IH, app_assoc.
Qed.

Lemma pairs_len es : N.even (len es) = true -> len (pairs_of es) = len es / 2.
Proof.
  revert es. apply (even_list_ind (fun es => len (pairs_of es) = len es / 2)); [reflexivity|]. intros k v r IH.
  cbn [pairs_of]. rewrite !len_cons, IH. set (q := len r / 2).
  replace (1 + (1 + len r)) with (len r + 1 * 2) by lia. rewrite N.div_add by lia. fold q. lia.
Qed.

Lemma pairs_wf es : N.even (len es) = true -> forallb wf es = true -> Forall wf_pair (pairs_of es).
Proof.
  revert es. apply (even_list_ind (fun es => forallb wf es = true -> Forall wf_pair (pairs_of es))); [constructor|]. intros k v r IH H. cbn [forallb] in H.
  apply andb_prop in H as [Hk H]. apply andb_prop in H as [Hv H]. cbn [pairs_of]. constructor; [now split|auto].
Qed.

Lemma pairs_sem fk fv es : N.even (len es) = true ->
  ts_map flatten_pairs (ts_all (sem_pair fk fv) (pairs_of es)) = ts_alt fk fv es.
Proof.
  revert es. apply (even_list_ind (fun es => ts_map flatten_pairs (ts_all (sem_pair fk fv) (pairs_of es)) = ts_alt fk fv es)); [reflexivity|]. intros k v r IH.
  cbn [pairs_of ts_all ts_alt]. unfold sem_pair at 1. cbn [fst snd]. rewrite <- IH.
  destruct (fk k) as [a| |]; cbn [ts_bind ts_map]; try reflexivity.
  destruct (fv v) as [b| |]; cbn [ts_bind ts_map]; try reflexivity.
  destruct (ts_all (sem_pair fk fv) (pairs_of r)); reflexivity.
Qed.

(* ---- containers ---- *)
Section Containers.
  Variable c : cfg.
  Variable fuel : nat.

  Lemma fuel_items es (r : bytes) : forallb wf es = true -> (length (flat_map ser es ++ r) < fuel)%nat -> (length es < fuel)%nat.
  Proof. intros _ H. pose proof (length_flat_ge es). rewrite app_length in H. lia. Qed.

  (* Vec-likes *)
  Lemma seq_sem d f : elem_ok fuel d f ->
    elem_ok fuel (fmap VList (dec_seq d fuel))
      (fun e => match array_elems e with Some es => ts_map VList (ts_all f es) | None => TsErr end).
  Proof.
    intros Hd e r p L Hw HL H64 Hfu.
    destruct (array_elems e) as [es|] eqn:Ea.
    2:{ cbn [sem_agrees]. apply fmap_is_err, bind_is_err. now apply array_rej. }
    apply sem_agrees_fmap. unfold dec_seq.
    destruct e; try discriminate Ea; injection Ea as ->.
    - rewrite (bind_ok _ _ _ _ _ (array_head_def w es r p L Hw HL)). cbn [wf ser] in *.
      apply andb_prop in Hw as [_ Hws]. rewrite len_app in *. rewrite <- app_assoc in Hfu.
      assert (F1: (length (flat_map ser es ++ r) < fuel)%nat) by (rewrite app_length in Hfu; lia).
      pose proof (fuel_items es r Hws F1) as F2.
      pose proof (dec_n_sem fuel ser wf_item f d (elem_ok_Hd _ _ _ Hd) es fuel [] r
                    (p + len (Cbor.head 4 w (len es))) L (wf_items _ Hws) ltac:(lia) ltac:(lia) F1 ltac:(lia)) as G.
      cbn [rev app] in G. rewrite ts_map_id in G. eapply sem_agrees_pos; [|exact G]. lia.
    - rewrite (bind_ok _ _ _ _ _ (array_head_indef es r p L)). cbn [wf ser] in *.
      rewrite len_indef in *. cbn [app] in Hfu. rewrite <- app_assoc in Hfu. cbn [app length] in Hfu.
      assert (F1: (length (flat_map ser es ++ 255%N :: r) < fuel)%nat) by lia.
      assert (F2: (length es < fuel)%nat) by (pose proof (length_flat_ge es); rewrite app_length in F1; lia).
      pose proof (dec_until_break_sem fuel ser wf_item f d (elem_ok_Hd _ _ _ Hd) ser_first_not_break es fuel [] r
                    (p + 1) L (wf_items _ Hw) ltac:(lia) ltac:(lia) F1 F2) as G.
      cbn [rev app] in G. rewrite ts_map_id in G. eapply sem_agrees_pos; [|exact G]. lia.
  Qed.

  (* [T; N] *)
  Lemma arr_sem d f n : elem_ok fuel d f ->
    elem_ok fuel (fmap VList (dec_arr d n fuel))
      (fun e => match array_elems e with
                | Some es => ts_bind (ts_all f es) (fun l => if len l =? n then TsVal (VList l) else TsErr)
                | None => TsErr
                end).
  Proof.
    intros Hd e r p L Hw HL H64 Hfu.
    destruct (array_elems e) as [es|] eqn:Ea.
    2:{ cbn [sem_agrees]. apply fmap_is_err, bind_is_err. now apply array_rej. }
    set (g := fun l : list value => if len l =? n then TsVal l else @TsErr (list value)).
    eapply sem_agrees_eq with (s := ts_map VList (ts_bind (ts_all f es) g)).
    { rewrite ts_map_bind. apply ts_bind_ext. intro l. unfold g. destruct (len l =? n); reflexivity. }
    apply sem_agrees_fmap. unfold dec_arr.
    assert (Eg: forall acc0 : list value, acc0 = [] -> ts_bind (ts_bind (ts_all f es) (cap_check n acc0)) g = ts_bind (ts_all f es) g).
    { intros acc0 ->. rewrite ts_bind_bind. apply ts_bind_ext. intro l. unfold cap_check, g. rewrite len_nil, N.add_0_l. cbn [rev app].
      destruct (N.leb_spec (len l) n); cbn [ts_bind]; [reflexivity|]. destruct (N.eqb_spec (len l) n); [lia|reflexivity]. }
    assert (K: forall (a : list value) st, sem_agrees ((if len a =? n then ret a else fail Message) st) (g a) (dpos st) (drest st) (dlen st)).
    { intros a [q0 r0 L0]. unfold g. destruct (len a =? n); cbn [sem_agrees]; [reflexivity|apply is_err_fail]. }
    destruct e; try discriminate Ea; injection Ea as ->.
    - rewrite (bind_ok _ _ _ _ _ (array_head_def w es r p L Hw HL)). cbn [wf ser] in *.
      apply andb_prop in Hw as [_ Hws]. rewrite len_app in *. rewrite <- app_assoc in Hfu.
      assert (F1: (length (flat_map ser es ++ r) < fuel)%nat) by (rewrite app_length in Hfu; lia).
      pose proof (fuel_items es r Hws F1) as F2.
      pose proof (arr_n_sem fuel ser wf_item f d (elem_ok_Hd _ _ _ Hd) n es fuel [] r
                    (p + len (Cbor.head 4 w (len es))) L (wf_items _ Hws) ltac:(lia) ltac:(lia) F1 ltac:(lia)
                    ltac:(rewrite len_nil; lia)) as G.
      rewrite <- (Eg [] eq_refl).
      eapply sem_agrees_bind; [exact G|]. intros a _.
      eapply sem_agrees_pos; [|apply (K a (mkdst _ r L))]. cbn [dpos]. lia.
    - rewrite (bind_ok _ _ _ _ _ (array_head_indef es r p L)). cbn [wf ser] in *.
      rewrite len_indef in *. cbn [app] in Hfu. rewrite <- app_assoc in Hfu. cbn [app length] in Hfu.
      assert (F1: (length (flat_map ser es ++ 255%N :: r) < fuel)%nat) by lia.
      assert (F2: (length es < fuel)%nat) by (pose proof (length_flat_ge es); rewrite app_length in F1; lia).
      pose proof (arr_until_break_sem fuel ser wf_item f d (elem_ok_Hd _ _ _ Hd) ser_first_not_break n es fuel [] r
                    (p + 1) L (wf_items _ Hw) ltac:(lia) ltac:(lia) F1 F2 ltac:(rewrite len_nil; lia)) as G.
      rewrite <- (Eg [] eq_refl).
      eapply sem_agrees_bind; [exact G|]. intros a _.
      eapply sem_agrees_pos; [|apply (K a (mkdst _ r L))]. cbn [dpos]. lia.
  Qed.

  (* BTreeMap / HashMap *)
  Lemma map_sem dk dv fk fv : elem_ok fuel dk fk -> elem_ok fuel dv fv ->
    elem_ok fuel (fmap VList (dec_map_seq dk dv fuel))
      (fun e => match map_elems e with Some es => ts_map VList (ts_alt fk fv es) | None => TsErr end).
  Proof.
    intros Hk Hv e r p L Hw HL H64 Hfu.
    destruct (map_elems e) as [es|] eqn:Ea.
    2:{ cbn [sem_agrees]. apply fmap_is_err, bind_is_err. now apply map_rej. }
    apply sem_agrees_fmap. unfold dec_map_seq.
    destruct e; try discriminate Ea; injection Ea as ->.
    - rewrite (bind_ok _ _ _ _ _ (map_head_def w es r p L Hw HL)). cbn [wf ser] in *.
      apply andb_prop in Hw as [Hw Hws]. apply andb_prop in Hw as [Hev _]. rewrite len_app in *. rewrite <- app_assoc in Hfu.
      rewrite <- (pairs_sem fk fv es Hev).
      match goal with |- sem_agrees (bind ?m _ _) _ _ _ _ => change (bind m (fun l => ret (flatten_pairs l))) with (fmap flatten_pairs m) end.
      apply sem_agrees_fmap.
      assert (F1: (length (flat_map ser es ++ r) < fuel)%nat) by (rewrite app_length in Hfu; lia).
      pose proof (pairs_wf es Hev Hws) as Hpw.
      pose proof (units_length ser_pair wf_pair pair_first _ Hpw) as F2.
      rewrite <- (pairs_ser es Hev) in *.
      pose proof (dec_n_sem fuel ser_pair wf_pair (sem_pair fk fv) (dec_pair dk dv) (pair_Hd fuel dk dv fk fv Hk Hv)
                    (pairs_of es) fuel [] r (p + len (Cbor.head 5 w (len es / 2))) L Hpw ltac:(lia) ltac:(lia) F1
                    ltac:(rewrite app_length in F1; lia)) as G.
      rewrite (pairs_len es Hev) in G.
      cbn [rev app] in G. rewrite ts_map_id in G. eapply sem_agrees_pos; [|exact G]. lia.
    - rewrite (bind_ok _ _ _ _ _ (map_head_indef es r p L)). cbn [wf ser] in *.
      apply andb_prop in Hw as [Hev Hws].
      rewrite len_indef in *. cbn [app] in Hfu. rewrite <- app_assoc in Hfu. cbn [app length] in Hfu.
      rewrite <- (pairs_sem fk fv es Hev).
      match goal with |- sem_agrees (bind ?m _ _) _ _ _ _ => change (bind m (fun l => ret (flatten_pairs l))) with (fmap flatten_pairs m) end.
      apply sem_agrees_fmap.
      assert (F1: (length (flat_map ser es ++ 255%N :: r) < fuel)%nat) by lia.
      pose proof (pairs_wf es Hev Hws) as Hpw.
      pose proof (units_length ser_pair wf_pair pair_first _ Hpw) as F2.
      rewrite <- (pairs_ser es Hev) in *.
      pose proof (dec_until_break_sem fuel ser_pair wf_pair (sem_pair fk fv) (dec_pair dk dv) (pair_Hd fuel dk dv fk fv Hk Hv)
                    pair_first (pairs_of es) fuel [] r (p + 1) L Hpw ltac:(lia) ltac:(lia) F1
                    ltac:(rewrite app_length in F1; lia)) as G.
      cbn [rev app] in G. rewrite ts_map_id in G. eapply sem_agrees_pos; [|exact G]. lia.
  Qed.
End Containers.
