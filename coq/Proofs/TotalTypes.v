(* Proofs/TotalTypes.v — C02, part 3: the collection loops of Model/Types.v, decode_ty at every type
   descriptor (induction over `ty` with a principle for the nested lists), the push bounds for
   sequences / maps / arrays, and the operation universe of Model/Ops.v. *)
From MC Require Import Bytes BytesFacts Monad Cbor Utf8 Half Decoder DecoderFacts Acc Accessors Encoder Types Ops
  TotalPrims TotalSkip.
From Coq Require Import Lia.
Local Open Scope N_scope.

(* ---------------------------------------------------------------- loops *)
Lemma good_dec_n (d : M value) F : safe true F d ->
  forall fuel n acc s, (rem s < fuel)%nat -> (rem s < F)%nat -> good false (dec_n d n fuel acc) s.
Proof.
  intros Hd. induction fuel as [|fuel IH]; intros n acc s Hf HF; [lia|].
  cbn [dec_n]. destruct (n =? 0); [apply good_ret|].
  eapply good_false. apply (good_bind true false); [exact (Hd s HF)|].
  intros x s1 _ _ R. specialize (R eq_refl). apply IH; lia.
Qed.

Lemma safe_dec_n d F fuel n acc : safe true F d -> (F <= fuel)%nat -> safe false F (dec_n d n fuel acc).
Proof. intros H HF s Hs. apply good_dec_n with F; try assumption; lia. Qed.

Lemma good_dec_until_break (d : M value) F : safe true F d ->
  forall fuel acc s, (rem s < fuel)%nat -> (rem s < F)%nat -> good true (dec_until_break d fuel acc) s.
Proof.
  intros Hd. induction fuel as [|fuel IH]; intros acc s Hf HF; [lia|].
  cbn [dec_until_break].
  apply (good_bind false true); [exact (safe_current F s HF)|].
  intros b s1 _ R1 _. destruct (b =? 255).
  - assert (G : safe true F (read ;;; ret (rev acc))) by safe_strict. refine (G s1 _). lia.
  - apply (good_bind true true); [refine (Hd s1 _); lia|].
    intros c s2 _ _ R2. specialize (R2 eq_refl). apply IH; lia.
Qed.

Lemma safe_dec_until_break d F fuel acc : safe true F d -> (F <= fuel)%nat ->
  safe true F (dec_until_break d fuel acc).
Proof. intros H HF s Hs. apply good_dec_until_break with F; try assumption; lia. Qed.

Lemma safe_dec_seq d F fuel : safe true F d -> (F <= fuel)%nat -> safe true F (dec_seq d fuel).
Proof.
  intros H HF. unfold dec_seq. apply safe_bind_sw; [apply safe_dec_array|]. intros [n|].
  - now apply safe_dec_n.
  - now apply safe_weaken, safe_dec_until_break.
Qed.

Lemma good_arr_n (d : M value) cap F : safe true F d ->
  forall fuel n acc s, (rem s < fuel)%nat -> (rem s < F)%nat -> good false (arr_n d cap n fuel acc) s.
Proof.
  intros Hd. induction fuel as [|fuel IH]; intros n acc s Hf HF; [lia|].
  cbn [arr_n]. destruct (n =? 0); [apply good_ret|].
  eapply good_false. apply (good_bind true false); [exact (Hd s HF)|].
  intros x s1 _ _ R. specialize (R eq_refl).
  destruct (len acc <? cap); [apply IH; lia|apply good_fail].
Qed.

Lemma good_arr_until_break (d : M value) cap F : safe true F d ->
  forall fuel acc s, (rem s < fuel)%nat -> (rem s < F)%nat -> good false (arr_until_break d cap fuel acc) s.
Proof.
  intros Hd. induction fuel as [|fuel IH]; intros acc s Hf HF; [lia|].
  cbn [arr_until_break].
  apply (good_bind false false); [exact (safe_current F s HF)|].
  intros b s1 _ R1 _. destruct (b =? 255).
  - assert (G : safe false F (read ;;; ret (rev acc))) by safe_weak. refine (G s1 _). lia.
  - eapply good_false. apply (good_bind true false); [refine (Hd s1 _); lia|].
    intros c s2 _ _ R2. specialize (R2 eq_refl).
    destruct (len acc <? cap); [apply IH; lia|apply good_fail].
Qed.

Lemma safe_dec_arr d cap F fuel : safe true F d -> (F <= fuel)%nat -> safe true F (dec_arr d cap fuel).
Proof.
  intros H HF. unfold dec_arr. apply safe_bind_sw; [apply safe_dec_array|]. intro r.
  apply safe_bind_ww.
  - destruct r as [n|]; intros s Hs.
    + apply good_arr_n with F; try assumption; lia.
    + apply good_arr_until_break with F; try assumption; lia.
  - intro l. destruct (len l =? cap); [apply safe_ret|apply safe_fail].
Qed.

Lemma safe_dec_pair dk dv F : safe true F dk -> safe true F dv -> safe true F (dec_pair dk dv).
Proof.
  intros Hk Hv. unfold dec_pair. apply safe_bind_sw; [exact Hk|]. intro k.
  apply safe_bind_ww; [now apply safe_weaken|]. intro v. apply safe_ret.
Qed.

Lemma safe_dec_map_seq dk dv F fuel : safe true F dk -> safe true F dv -> (F <= fuel)%nat ->
  safe true F (dec_map_seq dk dv fuel).
Proof.
  intros Hk Hv HF. unfold dec_map_seq. apply safe_bind_sw; [apply safe_dec_map|]. intro r.
  pose proof (safe_dec_pair dk dv F Hk Hv) as Hp.
  apply safe_bind_ww; [|intro; apply safe_ret].
  destruct r as [n|]; [now apply safe_dec_n|now apply safe_weaken, safe_dec_until_break].
Qed.

Lemma safe_dec_each ds F : Forall (safe true F) ds -> safe false F (dec_each ds).
Proof.
  induction 1 as [|d ds Hd _ IH]; cbn [dec_each]; [apply safe_ret|].
  apply safe_bind_ww; [now apply safe_weaken|]. intro x.
  apply safe_bind_ww; [exact IH|]. intro xs. apply safe_ret.
Qed.

Lemma safe_field_step c ds F i slots : Forall (safe true F) ds -> safe true F (field_step c ds i slots).
Proof.
  intro H. unfold field_step. destruct (N.ltb_spec i (len ds)) as [Hi|Hi].
  - destruct (nth_error ds (N.to_nat i)) as [d|] eqn:E.
    + apply safe_bind_sw; [|intro; apply safe_ret].
      apply nth_error_In in E. rewrite Forall_forall in H. now apply H.
    + apply nth_error_None in E. unfold len in Hi. lia.
  - apply safe_bind_sw; [apply safe_skip_auto|intro; apply safe_ret].
Qed.

Lemma good_fields_n c ds F : Forall (safe true F) ds ->
  forall fuel i n slots s, (rem s < fuel)%nat -> (rem s < F)%nat -> good false (fields_n c ds i n fuel slots) s.
Proof.
  intros Hd. induction fuel as [|fuel IH]; intros i n slots s Hf HF; [lia|].
  cbn [fields_n]. destruct (n =? 0); [apply good_ret|].
  eapply good_false. apply (good_bind true false); [exact (safe_field_step c ds F i slots Hd s HF)|].
  intros x s1 _ _ R. specialize (R eq_refl). apply IH; lia.
Qed.

Lemma good_fields_until_break c ds F : Forall (safe true F) ds ->
  forall fuel i slots s, (rem s < fuel)%nat -> (rem s < F)%nat -> good false (fields_until_break c ds i fuel slots) s.
Proof.
  intros Hd. induction fuel as [|fuel IH]; intros i slots s Hf HF; [lia|].
  cbn [fields_until_break].
  apply (good_bind false false); [exact (safe_datatype F s HF)|].
  intros t s1 _ R1 _. destruct (ctype_is_break t).
  - assert (G : safe false F (skip_auto c ;;; ret slots)) by safe_weak. refine (G s1 _). lia.
  - eapply good_false. apply (good_bind true false); [refine (safe_field_step c ds F i slots Hd s1 _); lia|].
    intros x s2 _ _ R2. specialize (R2 eq_refl). apply IH; lia.
Qed.

Lemma safe_dec_fields c ds F fuel : Forall (safe true F) ds -> (F <= fuel)%nat -> safe true F (dec_fields c ds fuel).
Proof.
  intros H HF. unfold dec_fields. apply safe_bind_sw; [apply safe_dec_array|]. intro r.
  apply safe_bind_ww.
  - destruct r as [n|]; intros s Hs.
    + apply good_fields_n with F; try assumption; lia.
    + apply good_fields_until_break with F; try assumption; lia.
  - intro slots. destruct (first_missing slots 0); [apply safe_fail|apply safe_ret].
Qed.

Lemma safe_dec_enum ds F : Forall (safe true F) ds -> safe true F (dec_enum ds).
Proof.
  intro H. unfold dec_enum. apply safe_bind_sw; [apply safe_dec_array|]. intro r.
  repeat match goal with |- safe _ _ (match ?x with _ => _ end) => destruct x end; try apply safe_fail.
  apply safe_bind_ww; [apply safe_weaken, safe_dec_u32|]. intro i.
  destruct (i <? len ds); [|apply safe_fail].
  destruct (nth_error ds (N.to_nat i)) as [d|] eqn:E; [|apply safe_fail].
  apply nth_error_In in E. rewrite Forall_forall in H.
  apply safe_bind_ww; [apply safe_weaken; now apply H|]. intro x. apply safe_ret.
Qed.

(* ---------------------------------------------------------------- Duration / SystemTime: no panic *)
Lemma ensures_bind2 {A B} (m : M A) (f : A -> M B) (Q1 : A -> Prop) (Q : B -> Prop) :
  ensures m Q1 -> (forall a, Q1 a -> ensures (f a) Q) -> ensures (bind m f) Q.
Proof.
  intros H1 H s b s'. unfold bind. destruct (m s) as [[a|e| |] s1] eqn:E; try discriminate.
  apply H. now apply (H1 _ _ _ E).
Qed.

Definition natopt (o : option value) : Prop := o = None \/ exists n, o = Some (VNat n).
Definition dur_slots (sl : list (option value)) : Prop :=
  exists o1 o2, sl = [o1; o2] /\ natopt o1 /\ natopt o2.
Definition dur_ds : list (M value) := [fmap VNat dec_u64; fmap VNat dec_u32].
Definition dur_shape (l : list value) : Prop := exists a b, l = [VNat a; VNat b].

Lemma ens_field_step_dur c i slots : dur_slots slots -> ensures (field_step c dur_ds i slots) dur_slots.
Proof.
  intros (o1 & o2 & -> & H1 & H2). unfold field_step. change (len dur_ds) with 2.
  destruct (N.ltb_spec i 2) as [Hi|Hi].
  - assert (Hc : i = 0 \/ i = 1) by lia. destruct Hc as [-> | ->].
    + change (nth_error dur_ds (N.to_nat 0)) with (Some (fmap VNat dec_u64)). cbv iota.
      apply ensures_bind2 with (Q1 := fun x => exists n, x = VNat n).
      * apply ensures_fmap. intro a. now exists a.
      * intros x [n ->]. apply ensures_ret. exists (Some (VNat n)), o2.
        split; [reflexivity|]. split; [right; now exists n|exact H2].
    + change (nth_error dur_ds (N.to_nat 1)) with (Some (fmap VNat dec_u32)). cbv iota.
      apply ensures_bind2 with (Q1 := fun x => exists n, x = VNat n).
      * apply ensures_fmap. intro a. now exists a.
      * intros x [n ->]. apply ensures_ret. exists o1, (Some (VNat n)).
        split; [reflexivity|]. split; [exact H1|right; now exists n].
  - apply ensures_bind. intros _. apply ensures_ret. now exists o1, o2.
Qed.

Lemma ens_fields_n_dur c fuel : forall i n slots, dur_slots slots ->
  ensures (fields_n c dur_ds i n fuel slots) dur_slots.
Proof.
  induction fuel as [|fuel IH]; intros i n slots H; cbn [fields_n]; destruct (n =? 0);
    try (now apply ensures_ret).
  - intros s a s'. discriminate.
  - apply ensures_bind2 with (Q1 := dur_slots); [now apply ens_field_step_dur|].
    intros sl Hsl. now apply IH.
Qed.

Lemma ens_fields_ub_dur c fuel : forall i slots, dur_slots slots ->
  ensures (fields_until_break c dur_ds i fuel slots) dur_slots.
Proof.
  induction fuel as [|fuel IH]; intros i slots H; cbn [fields_until_break].
  - intros s a s'. discriminate.
  - apply ensures_bind. intro t. destruct (ctype_is_break t).
    + apply ensures_bind. intros _. now apply ensures_ret.
    + apply ensures_bind2 with (Q1 := dur_slots); [now apply ens_field_step_dur|].
      intros sl Hsl. now apply IH.
Qed.

Lemma ens_dec_fields_dur c fuel : ensures (dec_fields c dur_ds fuel) dur_shape.
Proof.
  unfold dec_fields. apply ensures_bind. intro r.
  apply ensures_bind2 with (Q1 := dur_slots).
  - assert (H0 : dur_slots (map (fun _ => None) dur_ds)).
    { exists None, None. split; [reflexivity|]. split; now left. }
    destruct r as [n|]; [now apply ens_fields_n_dur|now apply ens_fields_ub_dur].
  - intros slots (o1 & o2 & -> & [-> | [a ->]] & [-> | [b ->]]); cbn [first_missing];
      try apply ensures_fail.
    apply ensures_ret. now exists a, b.
Qed.

Lemma safe_mk_duration F a b : safe false F (mk_duration [VNat a; VNat b]).
Proof. unfold mk_duration. safe_weak. Qed.

Lemma ens_mk_duration a b :
  ensures (mk_duration [VNat a; VNat b]) (fun d => exists s ns, d = VList [VNat s; VNat ns]).
Proof.
  unfold mk_duration. destruct (_ <=? _); [|apply ensures_fail]. apply ensures_ret. eauto.
Qed.

Lemma safe_dur_ds F : Forall (safe true F) dur_ds.
Proof. unfold dur_ds. constructor; [|constructor; [|constructor]]; apply safe_fmap; eauto with safe. Qed.

(* ---------------------------------------------------------------- induction over ty *)
Lemma ty_ind' (P : ty -> Prop) :
  (forall t,
     match t with
     | TyOpt t' | TySeq t' | TyArr _ t' | TyBound t' | TyTagged _ t' => P t'
     | TyMap k v => P k /\ P v
     | TyTuple ts | TyFields ts | TyEnum ts => Forall P ts
     | _ => True
     end -> P t) ->
  forall t, P t.
Proof.
  intro H. fix IH 1. intro t. apply H.
  destruct t; try exact I; try apply IH.
  - split; apply IH.
  - induction ts as [|x r IHr]; constructor; [apply IH|exact IHr].
  - induction ts as [|x r IHr]; constructor; [apply IH|exact IHr].
  - induction vs as [|x r IHr]; constructor; [apply IH|exact IHr].
Qed.

Lemma Forall_safe_map c F (ts : list ty) :
  Forall (fun t => forall fuel, safe true fuel (decode_ty c t fuel)) ts ->
  Forall (safe true F) (map (fun t' => decode_ty c t' F) ts).
Proof. intro H. apply Forall_map. revert H. apply Forall_impl. intros t Ht. apply Ht. Qed.

(* decode::<T>() for every T: safe for the fuel it was given, and an Ok result consumed >= 1 byte *)
Theorem safe_decode_ty c : forall t fuel, safe true fuel (decode_ty c t fuel).
Proof.
  apply (ty_ind' (fun t => forall fuel, safe true fuel (decode_ty c t fuel))).
  intros t IH fuel. destruct t; cbn [decode_ty]; try solve [apply safe_fmap; eauto with safe].
  - (* TyNZU *) safe_strict.
  - (* TyNZI *) safe_strict.
  - (* TyByteArr *) safe_strict.
  - (* TyCStr *) safe_strict.
  - (* TyUnit *) safe_strict.
  - (* TyOpt *) apply safe_bind_ws; [apply safe_datatype|]. intro dt. destruct (ctype_is_null dt).
    + safe_strict.
    + apply safe_fmap, IH.
  - (* TySeq *) apply safe_fmap, safe_dec_seq; [apply IH|lia].
  - (* TyArr *) apply safe_fmap, safe_dec_arr; [apply IH|lia].
  - (* TyMap *) destruct IH as [IHk IHv]. apply safe_fmap, safe_dec_map_seq; [apply IHk|apply IHv|lia].
  - (* TyTuple *) apply safe_bind_sw; [apply safe_dec_array|]. intro r.
    destruct (opt_eqb r (len ts)); [|apply safe_fail].
    apply safe_fmap, safe_dec_each, Forall_safe_map, IH.
  - (* TyFields *) apply safe_fmap, safe_dec_fields; [apply Forall_safe_map, IH|lia].
  - (* TyEnum *) apply safe_dec_enum, Forall_safe_map, IH.
  - (* TyBound *) apply safe_bind_sw; [apply safe_dec_array|]. intro r.
    destruct (opt_eqb r 2); [|apply safe_fail].
    apply safe_bind_ww; [apply safe_weaken, safe_dec_u32|]. intro i.
    destruct (i <? 2).
    + apply safe_bind_ww; [apply safe_weaken, IH|intro; apply safe_ret].
    + safe_weak.
  - (* TyTagged *) apply safe_bind_sw; [apply safe_dec_tag|]. intro tg.
    destruct (tg =? n); [apply safe_weaken, IH|apply safe_fail].
  - (* TyDuration *)
    apply (safe_bind_ens true false) with (Q := dur_shape).
    + apply safe_dec_fields; [apply safe_dur_ds|lia].
    + apply ens_dec_fields_dur.
    + intros l (a & b & ->). apply safe_mk_duration.
  - (* TySystemTime *)
    apply (safe_bind_ens true false) with (Q := dur_shape).
    + apply safe_dec_fields; [apply safe_dur_ds|lia].
    + apply ens_dec_fields_dur.
    + intros l (a & b & ->).
      apply (safe_bind_ens false false) with (Q := fun d => exists s ns, d = VList [VNat s; VNat ns]).
      * apply safe_mk_duration.
      * apply ens_mk_duration.
      * intros d (s & ns & ->). safe_weak.
Qed.

Lemma safe_decode_auto F c t : safe true F (decode_auto c t).
Proof. unfold decode_auto. apply (safe_auto true (decode_ty c t)). apply safe_decode_ty. Qed.
