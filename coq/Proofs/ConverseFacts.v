(* Proofs/ConverseFacts.v — C11, part 4: every admissible token sequence encodes, and tokenising the
   bytes yields tokens equal by value. *)
From MC Require Import Bytes BytesFacts Monad Cbor Utf8 Half Decoder DecoderFacts IntFacts AdvFacts Encoder EncoderFacts Methods
  Text Token Tokenizer Toks TokenFacts HeadFacts RetokFacts.
From Coq Require Import Lia.
Local Open Scope N_scope.

Lemma fits_min_width n : n < 18446744073709551616 -> fits (min_width n) n = true.
Proof.
  intro H. unfold min_width.
  repeat match goal with |- context [if (?a <? ?b) then _ else _] => destruct (N.ltb_spec a b) end;
    cbn [fits]; apply N.ltb_lt; lia.
Qed.

(* f32_to_f16 always returns a 16-bit pattern *)
Lemma lt_pow2_log2 a n : a < 2 ^ n -> a = 0 \/ N.log2 a < n.
Proof. intro H. destruct (N.eq_dec a 0); [now left|right]. apply N.log2_lt_pow2; lia. Qed.

Lemma half_sign_lt x : N.land x 0x80000000 / 65536 < 65536.
Proof.
  apply N.div_lt_upper_bound; [lia|].
  destruct (N.eq_dec (N.land x 0x80000000) 0) as [->|Hn]; [lia|].
  change (65536 * 65536) with (2 ^ 32). apply N.log2_lt_pow2; [lia|].
  eapply N.le_lt_trans; [apply N.log2_land|]. apply N.min_lt_iff. right. reflexivity.
Qed.

Lemma lor_lt16 a b : a < 65536 -> b < 65536 -> N.lor a b < 65536.
Proof.
  intros Ha Hb. destruct (N.eq_dec (N.lor a b) 0) as [->|Hn]; [lia|].
  change 65536 with (2 ^ 16). apply N.log2_lt_pow2; [lia|]. rewrite N.log2_lor.
  apply N.max_lub_lt.
  - destruct (N.eq_dec a 0) as [->|]; [reflexivity|]. apply N.log2_lt_pow2; [lia|exact Ha].
  - destruct (N.eq_dec b 0) as [->|]; [reflexivity|]. apply N.log2_lt_pow2; [lia|exact Hb].
Qed.

Lemma f32_to_f16_lt x : f32_to_f16 x < 65536.
Proof.
  unfold f32_to_f16.
  repeat match goal with |- context [if ?c then _ else _] => destruct c end;
    try (apply N.mod_lt; lia); try apply half_sign_lt.
  apply lor_lt16; [apply half_sign_lt|lia].
Qed.

(* one token: it encodes, and decoding the bytes gives a token of the same value *)
Definition conv (c : cfg) (t : token) : Prop :=
  exists cs t', enc_token t = Some cs /\ tok_val t' = tok_val t /\
    forall p r L, p + len (flat cs) <= L -> L < two64 ->
      dec_token c (mkdst p (flat cs ++ r) L) = (Ok t', mkdst (p + len (flat cs)) r L).

Lemma conv_uint c t n cs : n < 18446744073709551616 -> enc_token t = Some cs -> flat cs = phead 0 n ->
  tok_val t = TVInt (Z.of_N n) -> conv c t.
Proof.
  intros Hn E F V. exists cs, (uint_tok (min_width n) n). split; [exact E|]. split; [now rewrite tok_val_uint|].
  intros p r L HL HL2. rewrite F in *. rewrite phead_ser in *. apply tok_uint; [now apply fits_min_width|exact HL].
Qed.

Lemma conv_nint c t n cs : n < 18446744073709551616 -> enc_token t = Some cs -> flat cs = phead 1 n ->
  tok_val t = TVInt (-1 - Z.of_N n) -> conv c t.
Proof.
  intros Hn E F V. exists cs, (nint_tok (min_width n) n). split; [exact E|]. split; [now rewrite tok_val_nint|].
  intros p r L HL HL2. rewrite F in *. rewrite phead_ser in *. apply tok_nint; [now apply fits_min_width|exact HL].
Qed.

Lemma conv_signed c t z cs lo hi : zrange lo hi z = true -> (-9223372036854775808 <= lo)%Z -> (hi <= 9223372036854775807)%Z ->
  enc_token t = Some cs -> flat cs = enc_pref (z_item z) -> tok_val t = TVInt z -> conv c t.
Proof.
  unfold zrange. intros R Hlo Hhi E F V. apply andb_prop in R as [R1 R2]. apply Z.leb_le in R1, R2.
  destruct (Z.leb_spec 0 z).
  - rewrite z_item_pos in F by lia. apply (conv_uint c t (Z.to_N z) cs); [lia|exact E|exact F|rewrite V; f_equal; lia].
  - rewrite z_item_neg in F by lia. apply (conv_nint c t (neg_arg z) cs); [unfold neg_arg; lia|exact E|exact F|rewrite V; f_equal; unfold neg_arg; lia].
Qed.

Lemma conv_one c t (b : N) : enc_token t = Some [[b]] ->
  (forall p r L, p + 1 <= L -> L < two64 -> dec_token c (mkdst p (b :: r) L) = (Ok t, mkdst (p + 1) r L)) -> conv c t.
Proof.
  intros E H. exists [[b]], t. split; [exact E|]. split; [reflexivity|].
  intros p r L HL HL2. change (flat [[b]]) with [b] in *. change (len [b]) with 1 in *. cbn [app]. now apply H.
Qed.

Lemma token_conv c t : token_ok t = true -> conv c t.
Proof.
  destruct t; cbn [token_ok]; intro H.
  - (* Bool *) destruct b.
    + eapply conv_one; [reflexivity|]. intros. apply tok_true.
    + eapply conv_one; [reflexivity|]. intros. apply tok_false.
  - apply N.ltb_lt in H. apply (conv_uint c _ n (enc_u8 n)); [lia|reflexivity|apply enc_u8_head; lia|reflexivity].
  - apply N.ltb_lt in H. apply (conv_uint c _ n (enc_u16 n)); [lia|reflexivity|now apply enc_u16_head|reflexivity].
  - apply N.ltb_lt in H. apply (conv_uint c _ n (enc_u32 n)); [lia|reflexivity|now apply enc_u32_head|reflexivity].
  - apply N.ltb_lt in H. apply (conv_uint c _ n (enc_u64 n)); [lia|reflexivity|now apply enc_u64_head|reflexivity].
  - eapply (conv_signed c _ z (enc_i8 z)); [exact H|lia|lia|reflexivity|now apply enc_i8_ok|reflexivity].
  - eapply (conv_signed c _ z (enc_i16 z)); [exact H|lia|lia|reflexivity|now apply enc_i16_ok|reflexivity].
  - eapply (conv_signed c _ z (enc_i32 z)); [exact H|lia|lia|reflexivity|now apply enc_i32_ok|reflexivity].
  - eapply (conv_signed c _ z (enc_i64 z)); [exact H|lia|lia|reflexivity|now apply enc_i64_ok|reflexivity].
  - (* Int *) destruct i as [[|] v]; cbn [snd] in H; apply N.ltb_lt in H.
    + apply (conv_nint c _ v (enc_int true v)); [exact H|reflexivity|unfold enc_int; cbn [negb]; now apply enc_neg64_head|reflexivity].
    + apply (conv_uint c _ v (enc_int false v)); [exact H|reflexivity|unfold enc_int; cbn [negb]; now apply enc_u64_head|reflexivity].
  - (* F16 *) apply andb_prop in H as [H1 H2]. apply N.eqb_eq in H2.
    exists (enc_f16_bits (f32_to_f16 f32bits)), (TkF16 f32bits). split; [reflexivity|]. split; [reflexivity|].
    intros p r L HL HL2. change (flat (enc_f16_bits ?h)) with (249 :: be 2 h ++ []) in *. rewrite app_nil_r in *.
    rewrite len_cons, len_be in *. cbn [app].
    rewrite tok_f16 by (try apply f32_to_f16_lt; lia). rewrite H2. first [reflexivity | f_equal; f_equal; lia].
  - apply N.ltb_lt in H. exists (enc_f32 bits), (TkF32 bits). split; [reflexivity|]. split; [reflexivity|].
    intros p r L HL HL2. change (flat (enc_f32 ?h)) with (250 :: be 4 h ++ []) in *. rewrite app_nil_r in *.
    rewrite len_cons, len_be in *. cbn [app]. rewrite tok_f32 by (try assumption; lia). first [reflexivity | f_equal; f_equal; lia].
  - apply N.ltb_lt in H. exists (enc_f64 bits), (TkF64 bits). split; [reflexivity|]. split; [reflexivity|].
    intros p r L HL HL2. change (flat (enc_f64 ?h)) with (251 :: be 8 h ++ []) in *. rewrite app_nil_r in *.
    rewrite len_cons, len_be in *. cbn [app]. rewrite tok_f64 by (try assumption; lia). first [reflexivity | f_equal; f_equal; lia].
  - (* Bytes *) apply andb_prop in H as [_ H]. apply N.ltb_lt in H.
    exists (enc_bytes b), (TkBytes b). split; [reflexivity|]. split; [reflexivity|].
    assert (F: flat (enc_bytes b) = Cbor.head 2 (min_width (len b)) (len b) ++ b).
    { unfold enc_bytes. rewrite flat_app. change BYTES with (2 * 32). rewrite type_len_head by exact H. cbn [flat concat]. now rewrite app_nil_r. }
    intros p r L HL HL2. rewrite F in *. apply tok_bytes; [now apply fits_min_width|exact HL].
  - (* String *) apply andb_prop in H as [H0 H]. apply andb_prop in H0 as [_ Hu]. apply N.ltb_lt in H.
    exists (enc_str b), (TkString b). split; [reflexivity|]. split; [reflexivity|].
    assert (F: flat (enc_str b) = Cbor.head 3 (min_width (len b)) (len b) ++ b).
    { unfold enc_str. rewrite flat_app. change TEXT with (3 * 32). rewrite type_len_head by exact H. cbn [flat concat]. now rewrite app_nil_r. }
    intros p r L HL HL2. rewrite F in *. apply tok_text'; [now apply fits_min_width|exact Hu|exact HL].
  - (* Array *) apply N.ltb_lt in H. exists (enc_array n), (TkArray n). split; [reflexivity|]. split; [reflexivity|].
    intros p r L HL HL2. unfold enc_array in *. change ARRAY with (4 * 32) in *. rewrite type_len_head in * by exact H.
    rewrite phead_ser in *. apply tok_array; [now apply fits_min_width|exact HL].
  - apply N.ltb_lt in H. exists (enc_map n), (TkMap n). split; [reflexivity|]. split; [reflexivity|].
    intros p r L HL HL2. unfold enc_map in *. change MAP with (5 * 32) in *. rewrite type_len_head in * by exact H.
    rewrite phead_ser in *. apply tok_map; [now apply fits_min_width|exact HL].
  - apply N.ltb_lt in H. exists (enc_tag n), (TkTag n). split; [reflexivity|]. split; [reflexivity|].
    intros p r L HL HL2. unfold enc_tag in *. change TAGGED with (6 * 32) in *. rewrite type_len_head in * by exact H.
    rewrite phead_ser in *. apply tok_tag; [now apply fits_min_width|exact HL].
  - (* Simple: 0..=23 in one byte (wf), everything else — 24..=31 included, F2b — as f8 n, which reads back as Simple(n) *)
    apply N.ltb_lt in H. destruct (N.leb_spec n 23) as [Hn|Hn].
    + assert (Hw: wf (ESimple n) = true) by (cbn [wf]; destruct (N.ltb_spec n 24); [reflexivity|lia]).
      assert (ES: enc_simple n = [ser (ESimple n)]).
      { unfold enc_simple. cbn [ser]. destruct (N.leb_spec n 23); [|lia]. destruct (N.ltb_spec n 24); [reflexivity|lia]. }
      exists (enc_simple n), (simple_tok n).
      cbn [enc_token]. rewrite ES. split; [reflexivity|]. split; [now rewrite tok_val_simple|].
      intros p r L HL HL2. change (flat [ser (ESimple n)]) with (ser (ESimple n) ++ []) in *. rewrite app_nil_r in *.
      now apply tok_simple.
    + assert (ES: enc_simple n = [[248; n]]) by (unfold enc_simple; destruct (N.leb_spec n 23); [lia|reflexivity]).
      exists (enc_simple n), (TkSimple n).
      cbn [enc_token]. rewrite ES. split; [reflexivity|]. split; [reflexivity|].
      intros p r L HL HL2. change (flat [[248; n]]) with [248; n] in *. change (len [248; n]) with 2 in *. cbn [app].
      rewrite tok_simple_ext. f_equal. f_equal. lia.
  - eapply conv_one; [reflexivity|]. intros. now apply tok_break.
  - eapply conv_one; [reflexivity|]. intros. now apply tok_null.
  - eapply conv_one; [reflexivity|]. intros. now apply tok_undefined.
  - eapply conv_one; [reflexivity|]. intros. now apply tok_begin_bytes.
  - eapply conv_one; [reflexivity|]. intros. now apply tok_begin_text.
  - eapply conv_one; [reflexivity|]. intros. now apply tok_begin_array.
  - eapply conv_one; [reflexivity|]. intros. now apply tok_begin_map.
Qed.

Lemma converse_steps c ts : tokens_ok ts = true ->
  exists cs ts', enc_tokens ts = Some cs /\ map tok_val ts' = map tok_val ts /\
    forall p r L, p + len (flat cs) <= L -> L < two64 ->
      steps c (mkdst p (flat cs ++ r) L) ts' (mkdst (p + len (flat cs)) r L).
Proof.
  induction ts as [|t ts IH]; cbn [tokens_ok forallb]; intro H.
  - exists [], []. split; [reflexivity|]. split; [reflexivity|]. intros p r L _ _. cbn. rewrite len_nil, N.add_0_r. reflexivity.
  - apply andb_prop in H as [Ht H]. destruct (IH H) as (cs & ts' & E & V & S).
    destruct (token_conv c t Ht) as (c0 & t' & E0 & V0 & D).
    exists (c0 ++ cs), (t' :: ts'). cbn [enc_tokens]. rewrite E0, E. split; [reflexivity|].
    split; [cbn [map]; now rewrite V0, V|]. intros p r L HL HL2.
    rewrite flat_app, len_app in *. rewrite <- app_assoc. cbn [steps].
    exists (mkdst (p + len (flat c0)) (flat cs ++ r) L). split; [apply D; lia|].
    replace (p + (len (flat c0) + len (flat cs))) with (p + len (flat c0) + len (flat cs)) by lia.
    apply S; lia.
Qed.

(* C11_converse *)
Theorem converse c ts : tokens_ok ts = true ->
  exists cs, enc_tokens ts = Some cs /\
    (len (flat cs) < two64 ->
     exists ts', tokenise c (flat cs) = Ok (map IOk ts') /\ map tok_val ts' = map tok_val ts).
Proof.
  intro H. destruct (converse_steps c ts H) as (cs & ts' & E & V & S).
  exists cs. split; [exact E|]. intro HL. exists ts'. split; [|exact V].
  apply steps_tokenise; [exact HL|].
  pose proof (S 0 [] (len (flat cs)) ltac:(lia) HL) as S0. rewrite app_nil_r, N.add_0_l in S0. exact S0.
Qed.

(* ---- CborLen for Token is exact (C07, token clause) ---- *)
Ltac len_tac :=
  repeat match goal with
  | |- context [if (?a <=? ?b) then _ else _] => destruct (N.leb_spec a b)
  end;
  unfold flat; cbn [concat app]; rewrite ?app_nil_r;
  repeat first [progress rewrite len_app | progress rewrite len_cons | progress rewrite len_nil | progress rewrite len_be]; lia.

Lemma len_enc_u8 x : len (flat (enc_u8 x)) = len_u8 x.
Proof. unfold enc_u8, len_u8. len_tac. Qed.
Lemma len_enc_u16 x : len (flat (enc_u16 x)) = len_u16 x.
Proof. unfold enc_u16, len_u16. len_tac. Qed.
Lemma len_enc_u32 x : len (flat (enc_u32 x)) = len_u32 x.
Proof. unfold enc_u32, len_u32. len_tac. Qed.
Lemma len_enc_u64 x : len (flat (enc_u64 x)) = len_u64 x.
Proof. unfold enc_u64, len_u64. len_tac. Qed.
Lemma len_enc_neg64 x : len (flat (enc_neg64 x)) = len_u64 x.
Proof. unfold enc_neg64, len_u64. len_tac. Qed.
Lemma len_type_len t x : len (flat (type_len t x)) = len_u64 x.
Proof. unfold type_len, len_u64. len_tac. Qed.

Lemma len_arg_neg z : (z < 0)%Z -> len_arg z = neg_arg z.
Proof. intro H. unfold len_arg, neg_arg. destruct (Z.leb_spec 0 z); [lia|reflexivity]. Qed.
Lemma len_arg_pos z : (0 <= z)%Z -> len_arg z = Z.to_N z.
Proof. intro H. unfold len_arg. destruct (Z.leb_spec 0 z); [reflexivity|lia]. Qed.

Theorem len_token_exact t cs : enc_token t = Some cs -> len (flat cs) = len_token t.
Proof.
  destruct t; cbn [enc_token len_token]; intro E; try (injection E as <-); try reflexivity.
  - apply len_enc_u8.
  - apply len_enc_u16.
  - apply len_enc_u32.
  - apply len_enc_u64.
  - unfold enc_i8. destruct (Z.leb_spec 0 z); [rewrite len_arg_pos by lia; apply len_enc_u8|].
    rewrite len_arg_neg by lia. unfold len_u8, SIGNED. len_tac.
  - unfold enc_i16. destruct (Z.leb_spec 0 z); [rewrite len_arg_pos by lia; apply len_enc_u16|].
    rewrite len_arg_neg by lia. unfold len_u16, SIGNED. len_tac.
  - unfold enc_i32. destruct (Z.leb_spec 0 z); [rewrite len_arg_pos by lia; apply len_enc_u32|].
    rewrite len_arg_neg by lia. unfold len_u32, SIGNED. len_tac.
  - unfold enc_i64. destruct (Z.leb_spec 0 z); [rewrite len_arg_pos by lia; apply len_enc_u64|].
    rewrite len_arg_neg by lia. apply len_enc_neg64.
  - unfold enc_int. destruct (fst i); cbn [negb]; [apply len_enc_neg64|apply len_enc_u64].
  - unfold enc_bytes. rewrite flat_app, len_app, len_type_len. unfold flat. cbn [concat]. rewrite app_nil_r. reflexivity.
  - unfold enc_str. rewrite flat_app, len_app, len_type_len. unfold flat. cbn [concat]. rewrite app_nil_r. reflexivity.
  - apply len_type_len.
  - apply len_type_len.
  - apply len_type_len.
  - unfold enc_simple, len_u8. destruct (N.leb_spec n 23); reflexivity.
Qed.
