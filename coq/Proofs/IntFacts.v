(* Proofs/IntFacts.v — the integer accessors agree with the data model on every well-formed item (C05). *)
From MC Require Import Bytes BytesFacts Monad Cbor Utf8 Half Decoder Acc Accessors DecoderFacts.
From Coq Require Import Lia.
Local Open Scope N_scope.

(* what it means for an outcome to agree with the specification's expectation *)
Definition agrees (res : result aval * dst) (x : expect) (p : N) (r : bytes) (L : N) : Prop :=
  match x with
  | XOk v k => res = (Ok v, mkdst (p + k) r L)
  | XErr => is_err res
  | XAny => True
  end.

Lemma ib0 w n : ib 0 w n = ai w n.
Proof. unfold ib. lia. Qed.

Lemma len_ser_int mt w n : len (Cbor.head mt w n) = 1 + len (args w n).
Proof. rewrite head_split, len_cons. reflexivity. Qed.

Lemma try_as_spec max n s : try_as max n s = if n <=? max then (Ok n, s) else (Err (Overflow n), s).
Proof. unfold try_as. destruct (n <=? max); reflexivity. Qed.

(* ---- unsigned accessors ---- *)
Lemma dec_uint_uint max w n r p L : fits w n = true -> p + len (Cbor.head 0 w n) <= L ->
  dec_uint max (mkdst p (Cbor.head 0 w n ++ r) L) =
  if n <=? max then (Ok n, mkdst (p + len (Cbor.head 0 w n)) r L)
  else (Err (Overflow n), mkdst (p + len (Cbor.head 0 w n)) r L).
Proof.
  intros Hf HL. rewrite len_ser_int in *. rewrite head_split, ib0. cbn [app].
  unfold dec_uint. rewrite (bind_ok _ _ _ _ _ (read_cons _ _ _ _)).
  rewrite (bind_ok _ _ _ _ _ (unsigned_args w n r (p + 1) L Hf ltac:(lia))).
  rewrite try_as_spec. replace (p + 1 + len (args w n)) with (p + (1 + len (args w n))) by lia. reflexivity.
Qed.

Lemma unsigned_ge28 b s : 28 <= b -> is_err (unsigned b s).
Proof.
  intro H. unfold unsigned.
  destruct (N.leb_spec b 23); [lia|].
  destruct (N.eqb_spec b 24); [lia|]. destruct (N.eqb_spec b 25); [lia|].
  destruct (N.eqb_spec b 26); [lia|]. destruct (N.eqb_spec b 27); [lia|].
  apply mismatch_is_err.
Qed.

Lemma dec_uint_ge28 max b t p L : 28 <= b -> is_err (dec_uint max (mkdst p (b :: t) L)).
Proof.
  intro H. unfold dec_uint. rewrite (bind_ok _ _ _ _ _ (read_cons _ _ _ _)).
  apply bind_is_err. now apply unsigned_ge28.
Qed.

(* ---- signed accessors ---- *)
Lemma dec_sint_uint max w n r p L : fits w n = true -> p + len (Cbor.head 0 w n) <= L ->
  dec_sint max (mkdst p (Cbor.head 0 w n ++ r) L) =
  if n <=? max then (Ok (Z.of_N n), mkdst (p + len (Cbor.head 0 w n)) r L)
  else (Err (Overflow n), mkdst (p + len (Cbor.head 0 w n)) r L).
Proof.
  intros Hf HL. rewrite len_ser_int in *. rewrite head_split, ib0. cbn [app].
  unfold dec_sint. rewrite (bind_ok _ _ _ _ _ (read_cons _ _ _ _)).
  pose proof (ai_lt w n Hf) as Ha. destruct (N.leb_spec (ai w n) 27); [|lia].
  rewrite (bind_ok _ _ _ _ _ (unsigned_args w n r (p + 1) L Hf ltac:(lia))).
  unfold bind at 1. rewrite try_as_spec.
  replace (p + 1 + len (args w n)) with (p + (1 + len (args w n))) by lia.
  destruct (n <=? max); reflexivity.
Qed.

Lemma dec_sint_nint max w n r p L : fits w n = true -> p + len (Cbor.head 1 w n) <= L ->
  dec_sint max (mkdst p (Cbor.head 1 w n ++ r) L) =
  if n <=? max then (Ok (-1 - Z.of_N n)%Z, mkdst (p + len (Cbor.head 1 w n)) r L)
  else (Err (Overflow n), mkdst (p + len (Cbor.head 1 w n)) r L).
Proof.
  intros Hf HL. rewrite len_ser_int in *. rewrite head_split. cbn [app].
  unfold dec_sint. rewrite (bind_ok _ _ _ _ _ (read_cons _ _ _ _)).
  pose proof (ai_lt w n Hf) as Ha. unfold ib.
  destruct (N.leb_spec (1 * 32 + ai w n) 27); [lia|].
  destruct (N.leb_spec 32 (1 * 32 + ai w n)); [|lia].
  destruct (N.leb_spec (1 * 32 + ai w n) 59); [|lia]. cbn [andb].
  replace (1 * 32 + ai w n - 32) with (ai w n) by lia.
  rewrite (bind_ok _ _ _ _ _ (unsigned_args w n r (p + 1) L Hf ltac:(lia))).
  unfold bind at 1. rewrite try_as_spec.
  replace (p + 1 + len (args w n)) with (p + (1 + len (args w n))) by lia.
  destruct (n <=? max); reflexivity.
Qed.

Lemma dec_sint_ge60 max b t p L : 60 <= b -> is_err (dec_sint max (mkdst p (b :: t) L)).
Proof.
  intro H. unfold dec_sint. rewrite (bind_ok _ _ _ _ _ (read_cons _ _ _ _)).
  destruct (N.leb_spec b 27); [lia|]. destruct (N.leb_spec b 59); [lia|]. rewrite andb_false_r.
  apply mismatch_is_err.
Qed.

(* ---- Int ---- *)
Lemma dec_int_uint w n r p L : fits w n = true -> p + len (Cbor.head 0 w n) <= L ->
  dec_int (mkdst p (Cbor.head 0 w n ++ r) L) = (Ok (false, n), mkdst (p + len (Cbor.head 0 w n)) r L).
Proof.
  intros Hf HL. rewrite len_ser_int in *. rewrite head_split, ib0. cbn [app].
  unfold dec_int. rewrite (bind_ok _ _ _ _ _ (read_cons _ _ _ _)).
  pose proof (ai_lt w n Hf) as Ha. destruct (N.leb_spec (ai w n) 27); [|lia].
  rewrite (bind_ok _ _ _ _ _ (unsigned_args w n r (p + 1) L Hf ltac:(lia))).
  replace (p + 1 + len (args w n)) with (p + (1 + len (args w n))) by lia. reflexivity.
Qed.

Lemma dec_int_nint w n r p L : fits w n = true -> p + len (Cbor.head 1 w n) <= L ->
  dec_int (mkdst p (Cbor.head 1 w n ++ r) L) = (Ok (true, n), mkdst (p + len (Cbor.head 1 w n)) r L).
Proof.
  intros Hf HL. rewrite len_ser_int in *. rewrite head_split. cbn [app].
  unfold dec_int. rewrite (bind_ok _ _ _ _ _ (read_cons _ _ _ _)).
  pose proof (ai_lt w n Hf) as Ha. unfold ib.
  destruct (N.leb_spec (1 * 32 + ai w n) 27); [lia|].
  destruct (N.leb_spec 32 (1 * 32 + ai w n)); [|lia].
  destruct (N.leb_spec (1 * 32 + ai w n) 59); [|lia]. cbn [andb].
  replace (1 * 32 + ai w n - 32) with (ai w n) by lia.
  rewrite (bind_ok _ _ _ _ _ (unsigned_args w n r (p + 1) L Hf ltac:(lia))).
  replace (p + 1 + len (args w n)) with (p + (1 + len (args w n))) by lia. reflexivity.
Qed.

Lemma dec_int_ge60 b t p L : 60 <= b -> is_err (dec_int (mkdst p (b :: t) L)).
Proof.
  intro H. unfold dec_int. rewrite (bind_ok _ _ _ _ _ (read_cons _ _ _ _)).
  destruct (N.leb_spec b 27); [lia|]. destruct (N.leb_spec b 59); [lia|]. rewrite andb_false_r.
  apply mismatch_is_err.
Qed.

(* ---- first byte of a well-formed non-integer item ---- *)
Lemma head_first_ge mt w n : fits w n = true -> 2 <= mt ->
  exists t, Cbor.head mt w n = ib mt w n :: t /\ 64 <= ib mt w n.
Proof. intros Hf Hm. exists (args w n). split; [apply head_split|]. unfold ib. lia. Qed.

Definition is_int_item (e : enc) : bool := match e with EUInt _ _ | ENInt _ _ => true | _ => false end.

Lemma ser_first_nonint e : wf e = true -> is_int_item e = false ->
  exists b t, ser e = b :: t /\ 64 <= b.
Proof.
  destruct e; cbn [wf is_int_item ser]; intros Hw Hi; try discriminate;
  repeat match goal with H : _ && _ = true |- _ => apply andb_prop in H as [? ?] end.
  - destruct (head_first_ge 2 w (len b) ltac:(assumption) ltac:(lia)) as (t & -> & ?). cbn [app]. eauto.
  - eexists _, _. split; [reflexivity|lia].
  - destruct (head_first_ge 3 w (len b) ltac:(assumption) ltac:(lia)) as (t & -> & ?). cbn [app]. eauto.
  - eexists _, _. split; [reflexivity|lia].
  - destruct (head_first_ge 4 w (len es) ltac:(assumption) ltac:(lia)) as (t & -> & ?). cbn [app]. eauto.
  - eexists _, _. split; [reflexivity|lia].
  - destruct (head_first_ge 5 w (len es / 2) ltac:(assumption) ltac:(lia)) as (t & -> & ?). cbn [app]. eauto.
  - eexists _, _. split; [reflexivity|lia].
  - destruct (head_first_ge 6 w t ltac:(assumption) ltac:(lia)) as (t' & -> & ?). cbn [app]. eauto.
  - destruct (n <? 24); eexists _, _; (split; [reflexivity|lia]).
  - eexists _, _. split; [reflexivity|lia].
  - eexists _, _. split; [reflexivity|lia].
  - eexists _, _. split; [reflexivity|lia].
Qed.

Definition int_accessor (a : acc) : bool :=
  match a with AU8 | AU16 | AU32 | AU64 | AI8 | AI16 | AI32 | AI64 | AInt => true | _ => false end.

Lemma agrees_uint max w n r p L (Hm : max < 18446744073709551616) :
  fits w n = true -> p + len (Cbor.head 0 w n) <= L ->
  agrees (fmap VN (dec_uint max) (mkdst p (Cbor.head 0 w n ++ r) L))
         (int_acc 0 (Z.of_N max) mkN (EUInt w n)) p r L.
Proof.
  intros Hf HL. unfold int_acc, int_value, in_range. cbn [ser].
  pose proof (dec_uint_uint max w n r p L Hf HL) as E.
  destruct (N.leb_spec n max).
  - destruct (Z.leb_spec 0 (Z.of_N n)); [|lia]. destruct (Z.leb_spec (Z.of_N n) (Z.of_N max)); [|lia].
    cbn [andb agrees]. rewrite (fmap_ok _ _ _ _ _ E). unfold mkN. now rewrite N2Z.id.
  - destruct (Z.leb_spec (Z.of_N n) (Z.of_N max)); [lia|]. rewrite andb_false_r. cbn [agrees].
    apply fmap_is_err. eexists _, _. exact E.
Qed.

Lemma agrees_uint_neg max w n r p L :
  fits w n = true ->
  agrees (fmap VN (dec_uint max) (mkdst p (Cbor.head 1 w n ++ r) L))
         (int_acc 0 (Z.of_N max) mkN (ENInt w n)) p r L.
Proof.
  intros Hf. unfold int_acc, int_value, in_range.
  destruct (Z.leb_spec 0 (-1 - Z.of_N n)); [lia|]. cbn [andb agrees].
  apply fmap_is_err. rewrite head_split. cbn [app]. apply dec_uint_ge28. unfold ib. lia.
Qed.

Lemma agrees_sint max w n r p L (mk := VZ) :
  fits w n = true -> p + len (Cbor.head 0 w n) <= L ->
  agrees (fmap VZ (dec_sint max) (mkdst p (Cbor.head 0 w n ++ r) L))
         (int_acc (-1 - Z.of_N max) (Z.of_N max) VZ (EUInt w n)) p r L.
Proof.
  intros Hf HL. unfold int_acc, int_value, in_range. cbn [ser].
  pose proof (dec_sint_uint max w n r p L Hf HL) as E.
  destruct (N.leb_spec n max).
  - destruct (Z.leb_spec (-1 - Z.of_N max) (Z.of_N n)); [|lia]. destruct (Z.leb_spec (Z.of_N n) (Z.of_N max)); [|lia].
    cbn [andb agrees]. now rewrite (fmap_ok _ _ _ _ _ E).
  - destruct (Z.leb_spec (Z.of_N n) (Z.of_N max)); [lia|]. rewrite andb_false_r. cbn [agrees].
    apply fmap_is_err. eexists _, _. exact E.
Qed.

Lemma agrees_sint_neg max w n r p L :
  fits w n = true -> p + len (Cbor.head 1 w n) <= L ->
  agrees (fmap VZ (dec_sint max) (mkdst p (Cbor.head 1 w n ++ r) L))
         (int_acc (-1 - Z.of_N max) (Z.of_N max) VZ (ENInt w n)) p r L.
Proof.
  intros Hf HL. unfold int_acc, int_value, in_range. cbn [ser].
  pose proof (dec_sint_nint max w n r p L Hf HL) as E.
  destruct (N.leb_spec n max).
  - destruct (Z.leb_spec (-1 - Z.of_N max) (-1 - Z.of_N n)); [|lia].
    destruct (Z.leb_spec (-1 - Z.of_N n) (Z.of_N max)); [|lia].
    cbn [andb agrees]. now rewrite (fmap_ok _ _ _ _ _ E).
  - destruct (Z.leb_spec (-1 - Z.of_N max) (-1 - Z.of_N n)); [lia|]. cbn [andb agrees].
    apply fmap_is_err. eexists _, _. exact E.
Qed.

Theorem int_accessors_agree c a e r p L :
  int_accessor a = true -> wf e = true -> p + len (ser e) <= L ->
  agrees (run_acc c a (mkdst p (ser e ++ r) L)) (spec_acc a e) p r L.
Proof.
  intros Ha Hw HL.
  destruct (is_int_item e) eqn:Hi.
  - destruct e; try discriminate; cbn [wf ser] in *;
    destruct a; try discriminate; cbn [run_acc spec_acc].
    + apply (agrees_uint 255); [lia|assumption..].
    + apply (agrees_uint 65535); [lia|assumption..].
    + apply (agrees_uint 4294967295); [lia|assumption..].
    + apply (agrees_uint 18446744073709551615); [lia|assumption..].
    + apply (agrees_sint 127); assumption.
    + apply (agrees_sint 32767); assumption.
    + apply (agrees_sint 2147483647); assumption.
    + apply (agrees_sint 9223372036854775807); assumption.
    + unfold int_acc, int_value, in_range. apply N.ltb_lt in Hw || (destruct w; cbn [fits] in Hw; apply N.ltb_lt in Hw).
      all: try (destruct (Z.leb_spec (-18446744073709551616) (Z.of_N n)); [|lia]);
           try (destruct (Z.leb_spec (Z.of_N n) 18446744073709551615); [|lia]).
      all: cbn [andb agrees ser]; erewrite fmap_ok by (apply dec_int_uint; [|exact HL]; cbn [fits]; now apply N.ltb_lt);
           unfold int_z; cbn [fst snd]; reflexivity.
    + apply (agrees_uint_neg 255); assumption.
    + apply (agrees_uint_neg 65535); assumption.
    + apply (agrees_uint_neg 4294967295); assumption.
    + apply (agrees_uint_neg 18446744073709551615); assumption.
    + apply (agrees_sint_neg 127); assumption.
    + apply (agrees_sint_neg 32767); assumption.
    + apply (agrees_sint_neg 2147483647); assumption.
    + apply (agrees_sint_neg 9223372036854775807); assumption.
    + unfold int_acc, int_value, in_range.
      assert (Hn: n < 18446744073709551616) by (destruct w; cbn [fits] in Hw; apply N.ltb_lt in Hw; lia).
      destruct (Z.leb_spec (-18446744073709551616) (-1 - Z.of_N n)); [|lia].
      destruct (Z.leb_spec (-1 - Z.of_N n) 18446744073709551615); [|lia].
      cbn [andb agrees ser]. erewrite fmap_ok by (apply dec_int_nint; assumption).
      unfold int_z; cbn [fst snd]; reflexivity.
  - destruct (ser_first_nonint e Hw Hi) as (b & t & Es & Hb).
    assert (Hx: spec_acc a e = XErr).
    { destruct a; try discriminate; destruct e; try discriminate; reflexivity. }
    rewrite Hx, Es. cbn [agrees app].
    destruct a; try discriminate; cbn [run_acc]; apply fmap_is_err;
      first [apply dec_uint_ge28; lia | apply dec_sint_ge60; lia | apply dec_int_ge60; lia].
Qed.

(* ---- datatype() on integer items names an accessor that accepts the item (C05, last sentence) ---- *)
Definition acc_of_ctype (t : ctype) : option acc :=
  match t with
  | TU8 => Some AU8 | TU16 => Some AU16 | TU32 => Some AU32 | TU64 => Some AU64
  | TI8 => Some AI8 | TI16 => Some AI16 | TI32 => Some AI32 | TI64 => Some AI64 | TInt => Some AInt
  | _ => None
  end.

Definition uint_type (w : width) : ctype :=
  match w with W0 | W1 => TU8 | W2 => TU16 | W4 => TU32 | W8 => TU64 end.

Definition nint_type (w : width) (n : N) : ctype :=
  match w with
  | W0 => TI8
  | W1 => if n <? 128 then TI8 else TI16
  | W2 => if n <? 32768 then TI16 else TI32
  | W4 => if n <? 2147483648 then TI32 else TI64
  | W8 => if n <? 9223372036854775808 then TI64 else TInt
  end.

Lemma hi_byte_test n p : 0 < p -> n < 256 * p -> ((n / p) mod 256 <? 128) = (n <? 128 * p).
Proof.
  intros Hp Hn. assert (Hd: n / p < 256) by (apply N.div_lt_upper_bound; lia).
  rewrite N.mod_small by assumption.
  pose proof (N.mul_div_le n p ltac:(lia)) as H1.
  pose proof (N.mul_succ_div_gt n p ltac:(lia)) as H2.
  set (d := n / p) in *. clearbody d.
  destruct (N.ltb_spec n (128 * p)); destruct (N.ltb_spec d 128); try reflexivity; exfalso; nia.
Qed.

Lemma peek2 b0 b1 t p L : peek (mkdst p (b0 :: b1 :: t) L) = (Ok b1, mkdst p (b0 :: b1 :: t) L).
Proof. reflexivity. Qed.

Lemma type_of_small n : n < 24 -> type_of n = ret TU8.
Proof. intro H. unfold type_of. destruct (N.leb_spec n 24); [reflexivity|lia]. Qed.

Lemma type_of_nsmall n : n < 24 -> type_of (32 + n) = ret TI8.
Proof.
  intro H. unfold type_of.
  destruct (N.leb_spec (32 + n) 24); [lia|].
  destruct (N.eqb_spec (32 + n) 25); [lia|]. destruct (N.eqb_spec (32 + n) 26); [lia|].
  destruct (N.eqb_spec (32 + n) 27); [lia|].
  destruct (N.leb_spec 32 (32 + n)); [|lia]. destruct (N.leb_spec (32 + n) 55); [|lia]. reflexivity.
Qed.

Lemma datatype_uint w n r p L : fits w n = true ->
  datatype (mkdst p (Cbor.head 0 w n ++ r) L) = (Ok (uint_type w), mkdst p (Cbor.head 0 w n ++ r) L).
Proof.
  intro Hf. unfold datatype. rewrite head_split, ib0. cbn [app].
  rewrite (bind_ok _ _ _ _ _ (current_cons _ _ _ _)).
  destruct w; cbn [ai uint_type]; try reflexivity.
  cbn [fits] in Hf. apply N.ltb_lt in Hf. now rewrite type_of_small.
Qed.

Lemma datatype_nint w n r p L : fits w n = true ->
  datatype (mkdst p (Cbor.head 1 w n ++ r) L) = (Ok (nint_type w n), mkdst p (Cbor.head 1 w n ++ r) L).
Proof.
  intro Hf. unfold datatype. rewrite head_split. unfold ib. cbn [app].
  rewrite (bind_ok _ _ _ _ _ (current_cons _ _ _ _)).
  destruct w; cbn [fits] in Hf; apply N.ltb_lt in Hf; cbn [ai args nint_type].
  - change (1 * 32 + n) with (32 + n). now rewrite type_of_nsmall.
  - change (type_of (1 * 32 + 24)) with (b <- peek ;; ret (if b <? 128 then TI8 else TI16)).
    cbn [app]. rewrite (bind_ok _ _ _ _ _ (peek2 _ _ _ _ _)). reflexivity.
  - change (type_of (1 * 32 + 25)) with (b <- peek ;; ret (if b <? 128 then TI16 else TI32)).
    change (be 2 n) with ((n / 256) mod 256 :: be 1 n). cbn [app].
    rewrite (bind_ok _ _ _ _ _ (peek2 _ _ _ _ _)). unfold ret.
    rewrite (hi_byte_test n 256) by lia. reflexivity.
  - change (type_of (1 * 32 + 26)) with (b <- peek ;; ret (if b <? 128 then TI32 else TI64)).
    change (be 4 n) with ((n / 16777216) mod 256 :: be 3 n). cbn [app].
    rewrite (bind_ok _ _ _ _ _ (peek2 _ _ _ _ _)). unfold ret.
    rewrite (hi_byte_test n 16777216) by lia. reflexivity.
  - change (type_of (1 * 32 + 27)) with (b <- peek ;; ret (if b <? 128 then TI64 else TInt)).
    change (be 8 n) with ((n / 72057594037927936) mod 256 :: be 7 n). cbn [app].
    rewrite (bind_ok _ _ _ _ _ (peek2 _ _ _ _ _)). unfold ret.
    rewrite (hi_byte_test n 72057594037927936) by lia. reflexivity.
Qed.

Lemma accepts_from_agrees c a e r p L v :
  int_accessor a = true -> wf e = true -> p + len (ser e) <= L ->
  spec_acc a e = XOk v (len (ser e)) ->
  run_acc c a (mkdst p (ser e ++ r) L) = (Ok v, mkdst (p + len (ser e)) r L).
Proof.
  intros Ha Hw HL Hs. pose proof (int_accessors_agree c a e r p L Ha Hw HL) as G.
  rewrite Hs in G. exact G.
Qed.

Ltac range_ok :=
  unfold spec_acc, int_acc, int_value, in_range;
  match goal with |- context [((?a <=? ?b) && (?c <=? ?d))%Z] =>
    destruct (Z.leb_spec a b); [|lia]; destruct (Z.leb_spec c d); [|lia] end;
  cbn [andb]; reflexivity.

Theorem datatype_accepts c e r p L :
  is_int_item e = true -> wf e = true -> p + len (ser e) <= L ->
  exists t a v, datatype (mkdst p (ser e ++ r) L) = (Ok t, mkdst p (ser e ++ r) L)
             /\ acc_of_ctype t = Some a
             /\ run_acc c a (mkdst p (ser e ++ r) L) = (Ok v, mkdst (p + len (ser e)) r L).
Proof.
  intros Hi Hw HL. destruct e; try discriminate; cbn [wf] in Hw.
  - exists (uint_type w).
    destruct w; cbn [fits] in Hw; pose proof Hw as Hw'; apply N.ltb_lt in Hw'; cbn [uint_type].
    + exists AU8, (VN n). split; [now apply datatype_uint|split; [reflexivity|]].
      apply accepts_from_agrees; try reflexivity; try assumption. unfold mkN. rewrite <- (N2Z.id n) at 2. range_ok.
    + exists AU8, (VN n). split; [now apply datatype_uint|split; [reflexivity|]].
      apply accepts_from_agrees; try reflexivity; try assumption. rewrite <- (N2Z.id n) at 2. range_ok.
    + exists AU16, (VN n). split; [now apply datatype_uint|split; [reflexivity|]].
      apply accepts_from_agrees; try reflexivity; try assumption. rewrite <- (N2Z.id n) at 2. range_ok.
    + exists AU32, (VN n). split; [now apply datatype_uint|split; [reflexivity|]].
      apply accepts_from_agrees; try reflexivity; try assumption. rewrite <- (N2Z.id n) at 2. range_ok.
    + exists AU64, (VN n). split; [now apply datatype_uint|split; [reflexivity|]].
      apply accepts_from_agrees; try reflexivity; try assumption. rewrite <- (N2Z.id n) at 2. range_ok.
  - exists (nint_type w n).
    destruct w; cbn [fits] in Hw; pose proof Hw as Hw'; apply N.ltb_lt in Hw'; cbn [nint_type].
    + exists AI8, (VZ (-1 - Z.of_N n)). split; [now apply datatype_nint|split; [reflexivity|]].
      apply accepts_from_agrees; try reflexivity; try assumption. range_ok.
    + destruct (N.ltb_spec n 128).
      * exists AI8, (VZ (-1 - Z.of_N n)). split; [etransitivity; [now apply datatype_nint|]; cbn [nint_type ser]; destruct (N.ltb_spec n 128); [reflexivity|lia]|split; [reflexivity|]].
        apply accepts_from_agrees; try reflexivity; try assumption. range_ok.
      * exists AI16, (VZ (-1 - Z.of_N n)). split; [etransitivity; [now apply datatype_nint|]; cbn [nint_type ser]; destruct (N.ltb_spec n 128); [lia|reflexivity]|split; [reflexivity|]].
        apply accepts_from_agrees; try reflexivity; try assumption. range_ok.
    + destruct (N.ltb_spec n 32768).
      * exists AI16, (VZ (-1 - Z.of_N n)). split; [etransitivity; [now apply datatype_nint|]; cbn [nint_type ser]; destruct (N.ltb_spec n 32768); [reflexivity|lia]|split; [reflexivity|]].
        apply accepts_from_agrees; try reflexivity; try assumption. range_ok.
      * exists AI32, (VZ (-1 - Z.of_N n)). split; [etransitivity; [now apply datatype_nint|]; cbn [nint_type ser]; destruct (N.ltb_spec n 32768); [lia|reflexivity]|split; [reflexivity|]].
        apply accepts_from_agrees; try reflexivity; try assumption. range_ok.
    + destruct (N.ltb_spec n 2147483648).
      * exists AI32, (VZ (-1 - Z.of_N n)). split; [etransitivity; [now apply datatype_nint|]; cbn [nint_type ser]; destruct (N.ltb_spec n 2147483648); [reflexivity|lia]|split; [reflexivity|]].
        apply accepts_from_agrees; try reflexivity; try assumption. range_ok.
      * exists AI64, (VZ (-1 - Z.of_N n)). split; [etransitivity; [now apply datatype_nint|]; cbn [nint_type ser]; destruct (N.ltb_spec n 2147483648); [lia|reflexivity]|split; [reflexivity|]].
        apply accepts_from_agrees; try reflexivity; try assumption. range_ok.
    + destruct (N.ltb_spec n 9223372036854775808).
      * exists AI64, (VZ (-1 - Z.of_N n)). split; [etransitivity; [now apply datatype_nint|]; cbn [nint_type ser]; destruct (N.ltb_spec n 9223372036854775808); [reflexivity|lia]|split; [reflexivity|]].
        apply accepts_from_agrees; try reflexivity; try assumption. range_ok.
      * exists AInt, (VZ (-1 - Z.of_N n)). split; [etransitivity; [now apply datatype_nint|]; cbn [nint_type ser]; destruct (N.ltb_spec n 9223372036854775808); [lia|reflexivity]|split; [reflexivity|]].
        apply accepts_from_agrees; try reflexivity; try assumption. range_ok.
Qed.
