(* Proofs/FrameIoFacts.v — facts about Model/FrameIo.v (blocking Reader / Writer of minicbor-io), C14. *)
From MC Require Import Bytes BytesFacts FrameIo.
From Coq Require Import Lia.
Local Open Scope N_scope.

(* ------------------------------------------------------------------------------------------ *)
(* lists *)
Lemma splitN_spec {A} (l : list A) n : splitN l n = (firstn (N.to_nat n) l, skipn (N.to_nat n) l).
Proof.
  revert n. induction l as [|x l IH]; intro n; cbn [splitN].
  - destruct (N.eqb_spec n 0) as [->|Hn]; [reflexivity|].
    now rewrite firstn_nil, skipn_nil.
  - destruct (N.eqb_spec n 0) as [->|Hn]; [reflexivity|].
    rewrite IH. replace (N.to_nat n) with (S (N.to_nat (N.pred n))) by lia. reflexivity.
Qed.

Lemma length_len {A} (l : list A) : N.to_nat (len l) = length l.
Proof. unfold len. lia. Qed.

Lemma len_0_nil {A} (l : list A) : len l = 0 -> l = [].
Proof. destruct l; [reflexivity|]. rewrite len_cons. lia. Qed.

Lemma len_firstn {A} (l : list A) n : len (firstn (N.to_nat n) l) = N.min n (len l).
Proof. unfold len. rewrite firstn_length. lia. Qed.

Lemma len_skipn {A} (l : list A) n : len (skipn (N.to_nat n) l) = len l - n.
Proof. unfold len. rewrite skipn_length. lia. Qed.

Lemma len_repeat {A} (x : A) n : len (repeat x n) = N.of_nat n.
Proof. unfold len. now rewrite repeat_length. Qed.

Lemma len_zeros n : len (zeros n) = n.
Proof. unfold zeros. rewrite len_repeat. lia. Qed.

Lemma write_at_length buf o got :
  (N.to_nat o + length got <= length buf)%nat -> length (write_at buf o got) = length buf.
Proof.
  intro H. unfold write_at. rewrite !app_length, firstn_length, skipn_length. lia.
Qed.

Lemma firstn_write_at buf o got :
  (N.to_nat o <= length buf)%nat ->
  firstn (N.to_nat o + length got) (write_at buf o got) = firstn (N.to_nat o) buf ++ got.
Proof.
  intro H. unfold write_at. rewrite app_assoc.
  rewrite firstn_app.
  replace (N.to_nat o + length got - length (firstn (N.to_nat o) buf ++ got))%nat with O
    by (rewrite app_length, firstn_length; lia).
  cbn [firstn]. rewrite app_nil_r. apply firstn_all2.
  rewrite app_length, firstn_length. lia.
Qed.

Lemma beq_bytes_eq a b : beq_bytes a b = true <-> a = b.
Proof.
  revert b. induction a as [|x a IH]; destruct b as [|y b]; cbn [beq_bytes]; try (split; [discriminate|congruence]).
  - split; reflexivity.
  - rewrite andb_true_iff, IH, N.eqb_eq. split; [intros [-> ->]; reflexivity|intros [= -> ->]; auto].
Qed.

(* ------------------------------------------------------------------------------------------ *)
(* Writer *)
Lemma resize4_length b : length (resize4 b) = 4%nat.
Proof. unfold resize4. rewrite app_length, firstn_length, repeat_length. lia. Qed.

Lemma skipn4_resize4 b p : skipn 4 (resize4 b ++ p) = p.
Proof.
  rewrite skipn_app, resize4_length.
  rewrite skipn_all2 by (rewrite resize4_length; lia). reflexivity.
Qed.

Lemma prefix_of_ok n : n < 4294967296 -> prefix_of (4 + n) = Some n.
Proof.
  intro H. unfold prefix_of. destruct (N.ltb_spec (4 + n) 4); [lia|].
  replace (4 + n - 4) with n by lia. now rewrite N.mod_small.
Qed.

Lemma build_frame_ok buf0 max p :
  len p <= max -> len p < 4294967296 ->
  build_frame buf0 max (EncOk p) = BOk (frame_of p).
Proof.
  intros Hm Hs. unfold build_frame.
  assert (L : len (resize4 buf0 ++ p) = 4 + len p).
  { rewrite len_app. unfold len at 1. rewrite resize4_length. reflexivity. }
  rewrite L. destruct (N.ltb_spec (4 + len p) 4); [lia|].
  replace (4 + len p - 4) with (len p) by lia.
  destruct (N.ltb_spec max (len p)); [lia|].
  rewrite prefix_of_ok by lia. rewrite skipn4_resize4. reflexivity.
Qed.

Lemma build_frame_too_long buf0 max p :
  max < len p -> build_frame buf0 max (EncOk p) = BErr IoInvalidLen (resize4 buf0 ++ p).
Proof.
  intros Hm. unfold build_frame.
  assert (L : len (resize4 buf0 ++ p) = 4 + len p).
  { rewrite len_app. unfold len at 1. rewrite resize4_length. reflexivity. }
  rewrite L. destruct (N.ltb_spec (4 + len p) 4); [lia|].
  replace (4 + len p - 4) with (len p) by lia.
  destruct (N.ltb_spec max (len p)); [reflexivity|lia].
Qed.

(* the usize subtraction `len - 4` never underflows: build_frame never panics *)
Lemma build_frame_no_panic buf0 max e b : build_frame buf0 max e <> BPanic b.
Proof.
  unfold build_frame. destruct e as [p|part]; [|discriminate].
  assert (L : len (resize4 buf0 ++ p) = 4 + len p).
  { rewrite len_app. unfold len at 1. rewrite resize4_length. reflexivity. }
  rewrite L. destruct (N.ltb_spec (4 + len p) 4); [lia|].
  destruct (max <? 4 + len p - 4); [discriminate|].
  unfold prefix_of. destruct (N.ltb_spec (4 + len p) 4); [lia|discriminate].
Qed.

Lemma len_frame_of p : len (frame_of p) = 4 + len p.
Proof. unfold frame_of. now rewrite len_app, len_be. Qed.

(* C14_frame *)
Lemma write_with_frame w p :
  len p <= w_max w -> len p < 4294967296 ->
  write_with w (EncOk p) true = (WOk (len p), mkwriter (frame_of p) (w_max w), [be 4 (len p) ++ p]).
Proof.
  intros Hm Hs. unfold write_with. rewrite build_frame_ok by assumption.
  rewrite len_frame_of. replace (4 + len p - 4) with (len p) by lia. reflexivity.
Qed.

Lemma write_with_too_long w p ok :
  w_max w < len p -> exists b, write_with w (EncOk p) ok = (WErr IoInvalidLen, mkwriter b (w_max w), []).
Proof. intro H. unfold write_with. rewrite build_frame_too_long by assumption. eexists. reflexivity. Qed.

Lemma write_with_enc_fail w part ok :
  exists b, write_with w (EncFail part) ok = (WErr IoEncode, mkwriter b (w_max w), []).
Proof. unfold write_with, build_frame. eexists. reflexivity. Qed.

(* whatever happens, a single write call hands at most one chunk to the sink, and it is a frame
   of at most max_len payload bytes *)
Lemma write_with_bounded w e ok r w' cs :
  write_with w e ok = (r, w', cs) ->
  w_max w' = w_max w /\ (cs = [] \/ exists b, cs = [b] /\ len b <= w_max w + 4 /\ r = WOk (len b - 4)).
Proof.
  unfold write_with, build_frame. destruct e as [p|part].
  - set (b := resize4 (w_buf w) ++ p).
    assert (L : len b = 4 + len p).
    { unfold b. rewrite len_app. unfold len at 1. rewrite resize4_length. reflexivity. }
    destruct (N.ltb_spec (len b) 4); [intros [= <- <- <-]; auto|].
    destruct (N.ltb_spec (w_max w) (len b - 4)); [intros [= <- <- <-]; auto|].
    destruct (prefix_of (len b)) as [n|]; [|intros [= <- <- <-]; auto].
    assert (Lfb : len (be 4 n ++ skipn 4 b) = len b).
    { unfold len in *. rewrite app_length, be_length, skipn_length. lia. }
    remember (be 4 n ++ skipn 4 b) as fb eqn:Efb. clear Efb.
    destruct ok; intros [= <- <- <-]; split; auto.
    right. exists fb. split; [reflexivity|]. split; [lia|reflexivity].
  - intros [= <- <- <-]. auto.
Qed.

(* a sequence of fitting values produces exactly the concatenation of their frames, one chunk each *)
Lemma write_seq_stream w ps :
  Forall (fun p => len p <= w_max w /\ len p < 4294967296) ps ->
  exists w', write_seq w (map (fun p => (EncOk p, true)) ps) = (map (fun p => WOk (len p)) ps, w', map frame_of ps)
             /\ w_max w' = w_max w.
Proof.
  revert w. induction ps as [|p ps IH]; intros w H; cbn [map write_seq].
  - eexists. split; reflexivity.
  - inversion H as [|? ? [H1 H2] H3]; subst.
    rewrite write_with_frame by assumption.
    destruct (IH (mkwriter (frame_of p) (w_max w)) H3) as [w' [E Ew]]. cbn [w_max] in E, Ew.
    rewrite E. eexists. split; [reflexivity|assumption].
Qed.

(* ------------------------------------------------------------------------------------------ *)
(* The scripted source *)
Definition tok_ok (t : rtok) : Prop :=
  match t with RData k => 1 <= k | RIntr => True | RErr => False end.
(* benign: short reads of at least one byte and Interrupted errors only (no hard error) *)
Definition benign (s : src) : Prop := Forall tok_ok (s_sched s).

Definition ne (d : bytes) : nat := match d with [] => 0 | _ => 1 end.

Lemma ne_app_r a b : (ne b <= ne (a ++ b))%nat.
Proof. destruct a, b; cbn; lia. Qed.

Lemma src_read_cases s want r s1 :
  src_read s want = (r, s1) ->
  (s_sched s = [] /\ s_sched s1 = [] /\
     exists got, r = RdOk got /\ s_data s = got ++ s_data s1 /\ len got = N.min want (len (s_data s)))
  \/ (exists t0, s_sched s = t0 :: s_sched s1 /\
        match t0 with
        | RIntr => r = RdIntr /\ s_data s1 = s_data s
        | RErr => r = RdErr /\ s_data s1 = s_data s
        | RData k => exists got, r = RdOk got /\ s_data s = got ++ s_data s1 /\
                                 len got = N.min (N.min k want) (len (s_data s))
        end).
Proof.
  unfold src_read. destruct s as [data sched calls]. cbn [s_sched s_data s_calls].
  destruct sched as [|[k| |] t].
  - rewrite splitN_spec. intros [= <- <-]. left. cbn [s_sched s_data]. repeat split.
    eexists. split; [reflexivity|]. split; [now rewrite firstn_skipn|apply len_firstn].
  - rewrite splitN_spec. intros [= <- <-]. right. exists (RData k). cbn [s_sched s_data]. split; [reflexivity|].
    eexists. split; [reflexivity|]. split; [now rewrite firstn_skipn|apply len_firstn].
  - intros [= <- <-]. right. exists RIntr. cbn. auto.
  - intros [= <- <-]. right. exists RErr. cbn. auto.
Qed.

Lemma benign_tail s s1 t0 : benign s -> s_sched s = t0 :: s_sched s1 -> tok_ok t0 /\ benign s1.
Proof. unfold benign. intros H E. rewrite E in H. inversion H; auto. Qed.

(* ------------------------------------------------------------------------------------------ *)
(* The prefix loop (reader.rs:62-77) *)
Definition need_p (s : src) (ln : N) : nat :=
  if ln <? 4 then length (s_sched s) + ne (s_data s) + 1 else 1.

Lemma to_nat_add_len (o : N) (got : bytes) : N.to_nat (o + len got) = (N.to_nat o + length got)%nat.
Proof. unfold len. lia. Qed.

Lemma prefix_loop_spec : forall fuel s buf ln,
  benign s -> length buf = 4%nat -> ln <= 4 -> (need_p s ln <= fuel)%nat ->
  exists R s', prefix_loop fuel s buf ln = (R, s') /\ benign s' /\
    let all := firstn (N.to_nat ln) buf ++ s_data s in
    ((4 <= len all /\ exists b, R = PDone b /\ length b = 4%nat /\ b ++ s_data s' = all) \/
     (len all < 4 /\ s_data s' = [] /\ R = if len all =? 0 then PEnd else PEof)).
Proof.
  induction fuel as [|f IH]; intros s buf ln Hb Hl Hln Hf.
  { unfold need_p in Hf. destruct (ln <? 4); lia. }
  cbn [prefix_loop]. unfold need_p in Hf. destruct (N.ltb_spec ln 4) as [Hlt|Hge].
  - destruct (src_read s (4 - ln)) as [r s1] eqn:E.
    apply src_read_cases in E as [[Es [Es1 [got [-> [Ed Eg]]]]]|[t0 [Es Et]]].
    + (* script exhausted *)
      destruct (N.eqb_spec (len got) 0) as [Hz|Hnz].
      * assert (Hd : s_data s = []) by (apply len_0_nil; lia).
        assert (Hd1 : s_data s1 = []).
        { rewrite Hd in Ed. symmetry in Ed. apply app_eq_nil in Ed. tauto. }
        exists (if ln =? 0 then PEnd else PEof), s1. split; [destruct (ln =? 0); reflexivity|].
        split; [unfold benign; rewrite Es1; constructor|]. cbn zeta. rewrite Hd, app_nil_r.
        assert (La : len (firstn (N.to_nat ln) buf) = ln) by (rewrite len_firstn; unfold len; lia).
        right. rewrite La. repeat split; [lia|assumption].
      * destruct (IH s1 (write_at buf ln got) (ln + len got)) as [R [s' [E' [Hb' Hspec]]]].
        -- unfold benign. rewrite Es1. constructor.
        -- rewrite write_at_length; [exact Hl|unfold len in *; lia].
        -- lia.
        -- unfold need_p. rewrite Es1. rewrite Es in Hf.
           assert (Hne : ne (s_data s) = 1%nat).
           { destruct (s_data s); [change (len []) with 0 in Eg; lia|reflexivity]. }
           cbn [length] in *.
           destruct (N.ltb_spec (ln + len got) 4) as [Hp|Hp]; [|lia].
           assert (Hd1 : s_data s1 = []).
           { apply len_0_nil. rewrite Ed, len_app in Eg. lia. }
           rewrite Hd1. cbn [ne]. lia.
        -- exists R, s'. split; [exact E'|]. split; [exact Hb'|]. cbn zeta in *.
           rewrite to_nat_add_len, firstn_write_at, <- app_assoc, <- Ed in Hspec by lia. exact Hspec.
    + destruct (benign_tail _ _ _ Hb Es) as [Ht Hb1].
      destruct t0 as [k| |]; [|destruct Et as [-> Ed]|contradiction Ht].
      * destruct Et as [got [-> [Ed Eg]]]. cbn [tok_ok] in Ht.
        destruct (N.eqb_spec (len got) 0) as [Hz|Hnz].
        -- assert (Hd : s_data s = []) by (apply len_0_nil; lia).
           assert (Hd1 : s_data s1 = []).
           { rewrite Hd in Ed. symmetry in Ed. apply app_eq_nil in Ed. tauto. }
           exists (if ln =? 0 then PEnd else PEof), s1. split; [destruct (ln =? 0); reflexivity|].
           split; [exact Hb1|]. cbn zeta. rewrite Hd, app_nil_r.
           assert (La : len (firstn (N.to_nat ln) buf) = ln) by (rewrite len_firstn; unfold len; lia).
           right. rewrite La. repeat split; [lia|assumption].
        -- destruct (IH s1 (write_at buf ln got) (ln + len got)) as [R [s' [E' [Hb' Hspec]]]].
           ++ exact Hb1.
           ++ rewrite write_at_length; [exact Hl|unfold len in *; lia].
           ++ lia.
           ++ unfold need_p. rewrite Es in Hf. cbn [length] in Hf.
              assert (ne (s_data s1) <= ne (s_data s))%nat by (rewrite Ed; apply ne_app_r).
              destruct (ln + len got <? 4); lia.
           ++ exists R, s'. split; [exact E'|]. split; [exact Hb'|]. cbn zeta in *.
              rewrite to_nat_add_len, firstn_write_at, <- app_assoc, <- Ed in Hspec by lia. exact Hspec.
      * destruct (IH s1 buf ln) as [R [s' [E' [Hb' Hspec]]]]; try assumption.
        -- unfold need_p. rewrite Es in Hf. cbn [length] in Hf. rewrite Ed.
           destruct (ln <? 4); lia.
        -- exists R, s'. split; [exact E'|]. split; [exact Hb'|]. cbn zeta in *. rewrite Ed in Hspec. exact Hspec.
  - assert (ln = 4) by lia. subst ln. exists (PDone buf), s. split; [reflexivity|]. split; [exact Hb|].
    cbn zeta. rewrite firstn_all2 by lia. left. split.
    + rewrite len_app. unfold len at 1. lia.
    + exists buf. auto.
Qed.

(* ------------------------------------------------------------------------------------------ *)
(* std's read_exact loop (reader.rs:84) *)
Definition need_x (s : src) (buf : bytes) (o : N) : nat :=
  if o <? len buf then length (s_sched s) + ne (s_data s) + 1 else 1.

Lemma read_exact_spec : forall fuel s buf o,
  benign s -> o <= len buf -> (need_x s buf o <= fuel)%nat ->
  exists R s', read_exact fuel s buf o = (R, s') /\ benign s' /\
    let all := firstn (N.to_nat o) buf ++ s_data s in
    ((len buf <= len all /\ exists b, R = XrDone b /\ length b = length buf /\ b ++ s_data s' = all) \/
     (len all < len buf /\ s_data s' = [] /\ exists b, R = XrEof b /\ length b = length buf)).
Proof.
  induction fuel as [|f IH]; intros s buf o Hb Ho Hf.
  { unfold need_x in Hf. destruct (o <? len buf); lia. }
  cbn [read_exact]. unfold need_x in Hf. destruct (N.ltb_spec o (len buf)) as [Hlt|Hge].
  - destruct (src_read s (len buf - o)) as [r s1] eqn:E.
    assert (La : len (firstn (N.to_nat o) buf) = o) by (rewrite len_firstn; lia).
    apply src_read_cases in E as [[Es [Es1 [got [-> [Ed Eg]]]]]|[t0 [Es Et]]].
    + destruct (N.eqb_spec (len got) 0) as [Hz|Hnz].
      * assert (Hd : s_data s = []) by (apply len_0_nil; lia).
        assert (Hd1 : s_data s1 = []).
        { rewrite Hd in Ed. symmetry in Ed. apply app_eq_nil in Ed. tauto. }
        exists (XrEof buf), s1. split; [reflexivity|].
        split; [unfold benign; rewrite Es1; constructor|]. cbn zeta. rewrite Hd, app_nil_r.
        right. rewrite La. repeat split; [lia|assumption|]. exists buf. auto.
      * destruct (N.ltb_spec (len buf - o) (len got)) as [Hbad|Hfit]; [lia|].
        destruct (IH s1 (write_at buf o got) (o + len got)) as [R [s' [E' [Hb' Hspec]]]].
        -- unfold benign. rewrite Es1. constructor.
        -- unfold len at 2. rewrite write_at_length; unfold len in *; lia.
        -- unfold need_x. rewrite Es1. rewrite Es in Hf.
           assert (Hne : ne (s_data s) = 1%nat).
           { destruct (s_data s); [change (len []) with 0 in Eg; lia|reflexivity]. }
           cbn [length] in *.
           destruct (N.ltb_spec (o + len got) (len (write_at buf o got))) as [Hp|Hp]; [|lia].
           assert (Hd1 : s_data s1 = []).
           { apply len_0_nil. rewrite Ed, len_app in Eg.
             unfold len at 2 in Hp. rewrite write_at_length in Hp by (unfold len in *; lia). unfold len in *. lia. }
           rewrite Hd1. cbn [ne]. lia.
        -- assert (Lw : length (write_at buf o got) = length buf) by (apply write_at_length; unfold len in *; lia).
           exists R, s'. split; [exact E'|]. split; [exact Hb'|]. cbn zeta in *.
           assert (Lw' : len (write_at buf o got) = len buf) by (unfold len; now rewrite Lw).
           rewrite ?Lw', ?Lw in Hspec.
           rewrite to_nat_add_len, firstn_write_at, <- app_assoc, <- Ed in Hspec by (unfold len in *; lia). exact Hspec.
    + destruct (benign_tail _ _ _ Hb Es) as [Ht Hb1].
      destruct t0 as [k| |]; [|destruct Et as [-> Ed]|contradiction Ht].
      * destruct Et as [got [-> [Ed Eg]]]. cbn [tok_ok] in Ht.
        destruct (N.eqb_spec (len got) 0) as [Hz|Hnz].
        -- assert (Hd : s_data s = []) by (apply len_0_nil; lia).
           assert (Hd1 : s_data s1 = []).
           { rewrite Hd in Ed. symmetry in Ed. apply app_eq_nil in Ed. tauto. }
           exists (XrEof buf), s1. split; [reflexivity|].
           split; [exact Hb1|]. cbn zeta. rewrite Hd, app_nil_r.
           right. rewrite La. repeat split; [lia|assumption|]. exists buf. auto.
        -- destruct (N.ltb_spec (len buf - o) (len got)) as [Hbad|Hfit]; [lia|].
           destruct (IH s1 (write_at buf o got) (o + len got)) as [R [s' [E' [Hb' Hspec]]]].
           ++ exact Hb1.
           ++ unfold len at 2. rewrite write_at_length; unfold len in *; lia.
           ++ unfold need_x. rewrite Es in Hf. cbn [length] in Hf.
              assert (ne (s_data s1) <= ne (s_data s))%nat by (rewrite Ed; apply ne_app_r).
              destruct (o + len got <? len (write_at buf o got)); lia.
           ++ assert (Lw : length (write_at buf o got) = length buf) by (apply write_at_length; unfold len in *; lia).
              exists R, s'. split; [exact E'|]. split; [exact Hb'|]. cbn zeta in *.
              assert (Lw' : len (write_at buf o got) = len buf) by (unfold len; now rewrite Lw).
           rewrite ?Lw', ?Lw in Hspec.
              rewrite to_nat_add_len, firstn_write_at, <- app_assoc, <- Ed in Hspec by (unfold len in *; lia). exact Hspec.
      * destruct (IH s1 buf o) as [R [s' [E' [Hb' Hspec]]]]; try assumption.
        -- unfold need_x. rewrite Es in Hf. cbn [length] in Hf. rewrite Ed.
           destruct (o <? len buf); lia.
        -- exists R, s'. split; [exact E'|]. split; [exact Hb'|]. cbn zeta in *. rewrite Ed in Hspec. exact Hspec.
  - assert (o = len buf) by lia. subst o. exists (XrDone buf), s. split; [reflexivity|]. split; [exact Hb|].
    cbn zeta. rewrite firstn_all2 by (unfold len; lia). left. split.
    + rewrite len_app. lia.
    + exists buf. auto.
Qed.

(* ------------------------------------------------------------------------------------------ *)
(* One read call against the specification of the wire format *)
Lemma firstn_app_exact {A} (b r : list A) n : length b = n -> firstn n (b ++ r) = b.
Proof.
  intros <-. rewrite firstn_app, Nat.sub_diag, firstn_all. cbn [firstn]. apply app_nil_r.
Qed.

Lemma skipn_app_exact {A} (b r : list A) n : length b = n -> skipn n (b ++ r) = r.
Proof.
  intros <-. rewrite skipn_app, Nat.sub_diag, skipn_all. reflexivity.
Qed.

Lemma splitN_app_exact {A} (b r : list A) n : len b = n -> splitN (b ++ r) n = (b, r).
Proof.
  intro H. rewrite splitN_spec.
  rewrite firstn_app_exact, skipn_app_exact by (unfold len in H; lia). reflexivity.
Qed.

Section Codec.
Variable V : Type.
Variable dec : bytes -> option V.

Lemma read_with_spec r s : benign s ->
  exists r' s',
    read_with V dec r s = (outcome_of_sitem V dec (fst (spec_read (r_max r) (s_data s))), r', s')
    /\ benign s' /\ s_data s' = snd (spec_read (r_max r) (s_data s)) /\ r_max r' = r_max r.
Proof.
  intro Hb. unfold read_with.
  destruct (prefix_loop_spec (src_fuel s) s [0; 0; 0; 0] 0 Hb eq_refl) as [R [s1 [E1 [Hb1 Hs1]]]]; [lia| |].
  { unfold need_p, src_fuel. destruct (0 <? 4); destruct (s_data s); cbn [ne]; lia. }
  rewrite E1. cbn zeta in Hs1. cbn [N.to_nat firstn app] in Hs1.
  unfold spec_read.
  destruct Hs1 as [[Hlen [b [-> [Lb Eb]]]]|[Hlen [Hd1 ->]]].
  - destruct (N.eqb_spec (len (s_data s)) 0) as [|_]; [lia|].
    destruct (N.ltb_spec (len (s_data s)) 4) as [|_]; [lia|].
    rewrite <- Eb. rewrite splitN_app_exact by (unfold len; lia).
    destruct (N.ltb_spec (r_max r) (of_be b)) as [Hbig|Hfit].
    + exists r, s1. cbn [fst snd outcome_of_sitem]. auto.
    + destruct (read_exact_spec (src_fuel s1) s1 (zeros (of_be b)) 0 Hb1) as [R2 [s2 [E2 [Hb2 Hs2]]]]; [lia| |].
      { unfold need_x, src_fuel. destruct (0 <? len (zeros (of_be b))); destruct (s_data s1); cbn [ne]; lia. }
      rewrite E2. cbn zeta in Hs2. cbn [N.to_nat firstn app] in Hs2. rewrite len_zeros in Hs2.
      destruct Hs2 as [[Hl2 [b2 [-> [Lb2 Eb2]]]]|[Hl2 [Hd2 [b2 [-> Lb2]]]]].
      * destruct (N.ltb_spec (len (s_data s1)) (of_be b)) as [|_]; [lia|].
        assert (Lb2' : len b2 = of_be b).
        { unfold len. rewrite Lb2. fold (len (zeros (of_be b))). apply len_zeros. }
        rewrite <- Eb2. rewrite splitN_app_exact by exact Lb2'.
        eexists. exists s2. cbn [fst snd outcome_of_sitem]. split; [reflexivity|]. auto.
      * destruct (N.ltb_spec (len (s_data s1)) (of_be b)) as [_|]; [|lia].
        eexists. exists s2. cbn [fst snd outcome_of_sitem]. split; [reflexivity|]. auto.
  - destruct (N.eqb_spec (len (s_data s)) 0) as [Hz|Hnz].
    + exists r, s1. cbn [fst snd outcome_of_sitem]. auto.
    + destruct (N.ltb_spec (len (s_data s)) 4) as [_|]; [|lia].
      exists r, s1. cbn [fst snd outcome_of_sitem]. auto.
Qed.

Lemma terminal_sitem i :
  terminal V (outcome_of_sitem V dec i) = match i with SFrame _ => false | _ => true end.
Proof. destruct i; cbn [outcome_of_sitem terminal]; try reflexivity. unfold decode_outcome. destruct (dec p); reflexivity. Qed.

Lemma spec_read_shrinks max data p rest :
  spec_read max data = (SFrame p, rest) -> (length rest + 4 <= length data)%nat.
Proof.
  unfold spec_read. destruct (len data =? 0); [discriminate|].
  destruct (N.ltb_spec (len data) 4); [discriminate|].
  rewrite splitN_spec. remember (N.to_nat 4) as k eqn:Ek.
  destruct (max <? of_be (firstn k data)); [discriminate|].
  destruct (len (skipn k data) <? of_be (firstn k data)); [discriminate|].
  rewrite splitN_spec. remember (N.to_nat (of_be (firstn k data))) as j eqn:Ej. intros [= _ <-].
  rewrite !skipn_length. unfold len in *. lia.
Qed.

Lemma read_all_spec : forall f r s, benign s -> (length (s_data s) < f)%nat ->
  exists r' s',
    read_all V dec f r s = (map (outcome_of_sitem V dec) (spec_all f (r_max r) (s_data s)), r', s')
    /\ benign s' /\ r_max r' = r_max r /\ s_data s' = spec_rest f (r_max r) (s_data s).
Proof.
  induction f as [|f IH]; intros r s Hb Hf; [lia|].
  cbn [read_all spec_all spec_rest].
  destruct (read_with_spec r s Hb) as [r1 [s1 [E1 [Hb1 [Hd1 Hm1]]]]]. rewrite E1.
  destruct (spec_read (r_max r) (s_data s)) as [i rest] eqn:Es. cbn [fst snd] in *.
  rewrite terminal_sitem. destruct i as [p| | |].
  - apply spec_read_shrinks in Es.
    destruct (IH r1 s1 Hb1) as [r2 [s2 [E2 [Hb2 [Hm2 Hd2]]]]]; [rewrite Hd1; lia|].
    rewrite E2, Hm1, Hd1. exists r2, s2. cbn [map]. repeat split; try assumption; congruence.
  - exists r1, s1. cbn [map]. auto.
  - exists r1, s1. cbn [map]. auto.
  - exists r1, s1. cbn [map]. auto.
Qed.

(* C14, general form: under every benign schedule the sequence of read results is the one the wire
   format specification assigns to the byte stream, for every byte stream (well-formed or not). *)
Lemma read_stream_spec r s : benign s ->
  exists r' s',
    read_stream V dec r s = (map (outcome_of_sitem V dec) (spec_stream (r_max r) (s_data s)), r', s')
    /\ r_max r' = r_max r /\ s_data s' = spec_rest (S (length (s_data s))) (r_max r) (s_data s).
Proof.
  intro Hb. unfold read_stream, spec_stream.
  destruct (read_all_spec (S (length (s_data s))) r s Hb) as [r' [s' [E [_ [Hm Hd]]]]]; [lia|].
  exists r', s'. auto.
Qed.

End Codec.

(* ------------------------------------------------------------------------------------------ *)
(* The wire-format specification on well-formed, truncated and over-long streams *)
Lemma spec_read_nil max : spec_read max [] = (SEnd, []).
Proof. reflexivity. Qed.

Lemma frame_of_be (p : bytes) : len p < 4294967296 -> of_be (be 4 (len p)) = len p.
Proof. intro H. apply of_be_be_small. exact H. Qed.

Lemma spec_read_frame max p rest :
  len p <= max -> len p < 4294967296 -> spec_read max (frame_of p ++ rest) = (SFrame p, rest).
Proof.
  intros Hm Hs. unfold spec_read.
  assert (L : len (frame_of p ++ rest) = 4 + len p + len rest) by (rewrite len_app, len_frame_of; lia).
  rewrite L. destruct (N.eqb_spec (4 + len p + len rest) 0); [lia|].
  destruct (N.ltb_spec (4 + len p + len rest) 4); [lia|].
  unfold frame_of. rewrite <- app_assoc. rewrite (splitN_app_exact (be 4 (len p))) by apply len_be.
  rewrite frame_of_be by exact Hs.
  destruct (N.ltb_spec max (len p)); [lia|].
  rewrite len_app. destruct (N.ltb_spec (len p + len rest) (len p)); [lia|].
  now rewrite splitN_app_exact.
Qed.

Lemma spec_read_too_long max p rest :
  max < len p -> len p < 4294967296 -> spec_read max (frame_of p ++ rest) = (SInvalidLen, p ++ rest).
Proof.
  intros Hm Hs. unfold spec_read.
  assert (L : len (frame_of p ++ rest) = 4 + len p + len rest) by (rewrite len_app, len_frame_of; lia).
  rewrite L. destruct (N.eqb_spec (4 + len p + len rest) 0); [lia|].
  destruct (N.ltb_spec (4 + len p + len rest) 4); [lia|].
  unfold frame_of. rewrite <- app_assoc. rewrite (splitN_app_exact (be 4 (len p))) by apply len_be.
  rewrite frame_of_be by exact Hs.
  destruct (N.ltb_spec max (len p)); [reflexivity|lia].
Qed.

(* a stream that stops strictly inside a frame *)
Lemma spec_read_cut max p k :
  (0 < k < length (frame_of p))%nat -> len p <= max -> len p < 4294967296 ->
  spec_read max (firstn k (frame_of p)) = (SEof, []).
Proof.
  intros Hk Hm Hs. unfold spec_read.
  assert (Lf : length (frame_of p) = (4 + length p)%nat) by (unfold frame_of; rewrite app_length, be_length; lia).
  assert (L : len (firstn k (frame_of p)) = N.of_nat k) by (unfold len; rewrite firstn_length; lia).
  rewrite L. destruct (N.eqb_spec (N.of_nat k) 0); [lia|].
  destruct (N.ltb_spec (N.of_nat k) 4) as [|H4]; [reflexivity|].
  unfold frame_of. rewrite firstn_app, be_length.
  rewrite (firstn_all2 (be 4 (len p))) by (rewrite be_length; lia).
  rewrite (splitN_app_exact (be 4 (len p))) by apply len_be.
  rewrite frame_of_be by exact Hs.
  destruct (N.ltb_spec max (len p)); [lia|].
  destruct (N.ltb_spec (len (firstn (k - 4) p)) (len p)) as [|Hbad]; [reflexivity|].
  unfold len in Hbad. rewrite firstn_length in Hbad. lia.
Qed.

Lemma stream_of_cons p ps : stream_of (p :: ps) = frame_of p ++ stream_of ps.
Proof. reflexivity. Qed.

Lemma stream_of_app a b : stream_of (a ++ b) = stream_of a ++ stream_of b.
Proof. unfold stream_of. now rewrite map_app, concat_app. Qed.

Definition fits (max : N) (p : bytes) : Prop := len p <= max /\ len p < 4294967296.

Lemma spec_all_stream : forall ps tail f max,
  Forall (fits max) ps -> (length ps <= f)%nat ->
  spec_all f max (stream_of ps ++ tail) = map SFrame ps ++ spec_all (f - length ps) max tail.
Proof.
  induction ps as [|p ps IH]; intros tail f max H Hf.
  - cbn [stream_of map concat app length]. now rewrite Nat.sub_0_r.
  - inversion H as [|? ? [H1 H2] H3]; subst. cbn [length] in Hf.
    destruct f as [|f]; [lia|]. cbn [spec_all].
    rewrite stream_of_cons, <- app_assoc, spec_read_frame by assumption.
    rewrite IH by (assumption || lia). reflexivity.
Qed.

Lemma spec_rest_stream : forall ps tail f max,
  Forall (fits max) ps -> (length ps <= f)%nat ->
  spec_rest f max (stream_of ps ++ tail) = spec_rest (f - length ps) max tail.
Proof.
  induction ps as [|p ps IH]; intros tail f max H Hf.
  - cbn [stream_of map concat app length]. now rewrite Nat.sub_0_r.
  - inversion H as [|? ? [H1 H2] H3]; subst. cbn [length] in Hf.
    destruct f as [|f]; [lia|]. cbn [spec_rest].
    rewrite stream_of_cons, <- app_assoc, spec_read_frame by assumption.
    rewrite IH by (assumption || lia). reflexivity.
Qed.

Lemma stream_of_length ps : (4 * length ps <= length (stream_of ps))%nat.
Proof.
  induction ps as [|p ps IH]; [cbn; lia|].
  rewrite stream_of_cons, app_length. unfold frame_of. rewrite app_length, be_length. cbn [length]. lia.
Qed.

Lemma spec_stream_frames max ps :
  Forall (fits max) ps -> spec_stream max (stream_of ps) = map SFrame ps ++ [SEnd].
Proof.
  intro H. unfold spec_stream. rewrite <- (app_nil_r (stream_of ps)) at 2.
  pose proof (stream_of_length ps).
  rewrite spec_all_stream by (assumption || lia).
  replace (S (length (stream_of ps)) - length ps)%nat with (S (length (stream_of ps) - length ps)) by lia.
  reflexivity.
Qed.

Lemma spec_stream_cut max ps p k :
  Forall (fits max) ps -> fits max p -> (0 < k < length (frame_of p))%nat ->
  spec_stream max (stream_of ps ++ firstn k (frame_of p)) = map SFrame ps ++ [SEof].
Proof.
  intros H [Hp1 Hp2] Hk. unfold spec_stream.
  pose proof (stream_of_length ps). rewrite app_length.
  rewrite spec_all_stream by (assumption || lia).
  replace (S (length (stream_of ps) + length (firstn k (frame_of p))) - length ps)%nat
    with (S (length (stream_of ps) + length (firstn k (frame_of p)) - length ps)) by lia.
  cbn [spec_all]. now rewrite spec_read_cut.
Qed.

Lemma spec_stream_too_long max ps p rest :
  Forall (fits max) ps -> max < len p -> len p < 4294967296 ->
  spec_stream max (stream_of ps ++ frame_of p ++ rest) = map SFrame ps ++ [SInvalidLen].
Proof.
  intros H Hp1 Hp2. unfold spec_stream.
  pose proof (stream_of_length ps). rewrite app_length.
  rewrite spec_all_stream by (assumption || lia).
  replace (S (length (stream_of ps) + length (frame_of p ++ rest)) - length ps)%nat
    with (S (length (stream_of ps) + length (frame_of p ++ rest) - length ps)) by lia.
  cbn [spec_all]. now rewrite spec_read_too_long.
Qed.

Lemma spec_rest_frames max ps :
  Forall (fits max) ps -> spec_rest (S (length (stream_of ps))) max (stream_of ps) = [].
Proof.
  intro H. rewrite <- (app_nil_r (stream_of ps)) at 2.
  pose proof (stream_of_length ps).
  rewrite spec_rest_stream by (assumption || lia).
  replace (S (length (stream_of ps)) - length ps)%nat with (S (length (stream_of ps) - length ps)) by lia.
  reflexivity.
Qed.

(* ------------------------------------------------------------------------------------------ *)
(* C14, reading side *)
Section Reading.
Variable V : Type.
Variable dec : bytes -> option V.

Lemma map_outcome_frames ps tl :
  map (outcome_of_sitem V dec) (map SFrame ps ++ tl) = map (decode_outcome V dec) ps ++ map (outcome_of_sitem V dec) tl.
Proof. rewrite map_app, map_map. reflexivity. Qed.

(* every list of payloads, every benign schedule: exactly the payloads in order, then a clean end,
   and the source is drained.  A payload that does not decode yields Error::Decode at its place and
   nothing else changes (the frames after it are unaffected). *)
Theorem fio_roundtrip max ps sched buf0 peak calls :
  Forall (fits max) ps -> Forall tok_ok sched ->
  exists r' s',
    read_stream V dec (mkreader buf0 max peak) (mksrc (stream_of ps) sched calls)
      = (map (decode_outcome V dec) ps ++ [OEnd], r', s')
    /\ s_data s' = [].
Proof.
  intros Hp Hs.
  destruct (read_stream_spec V dec (mkreader buf0 max peak) (mksrc (stream_of ps) sched calls) Hs)
    as [r' [s' [E [_ Hd]]]].
  cbn [r_max s_data] in *. rewrite spec_stream_frames, map_outcome_frames in E by assumption.
  rewrite spec_rest_frames in Hd by assumption.
  exists r', s'. split; [exact E|exact Hd].
Qed.

(* a stream cut anywhere strictly inside a frame: the complete frames, then UnexpectedEof — never a value *)
Theorem fio_truncated max ps p k sched buf0 peak calls :
  Forall (fits max) ps -> fits max p -> (0 < k < length (frame_of p))%nat -> Forall tok_ok sched ->
  exists r' s',
    read_stream V dec (mkreader buf0 max peak) (mksrc (stream_of ps ++ firstn k (frame_of p)) sched calls)
      = (map (decode_outcome V dec) ps ++ [OErr IoUnexpectedEof], r', s').
Proof.
  intros Hp Hq Hk Hs.
  destruct (read_stream_spec V dec (mkreader buf0 max peak)
              (mksrc (stream_of ps ++ firstn k (frame_of p)) sched calls) Hs) as [r' [s' [E _]]].
  cbn [r_max s_data] in *. rewrite spec_stream_cut, map_outcome_frames in E by assumption.
  exists r', s'. exact E.
Qed.

(* a frame whose declared length exceeds max_len: InvalidLen *)
Theorem fio_too_long max ps p rest sched buf0 peak calls :
  Forall (fits max) ps -> max < len p -> len p < 4294967296 -> Forall tok_ok sched ->
  exists r' s',
    read_stream V dec (mkreader buf0 max peak) (mksrc (stream_of ps ++ frame_of p ++ rest) sched calls)
      = (map (decode_outcome V dec) ps ++ [OErr IoInvalidLen], r', s').
Proof.
  intros Hp Hq1 Hq2 Hs.
  destruct (read_stream_spec V dec (mkreader buf0 max peak)
              (mksrc (stream_of ps ++ frame_of p ++ rest) sched calls) Hs) as [r' [s' [E _]]].
  cbn [r_max s_data] in *. rewrite spec_stream_too_long, map_outcome_frames in E by assumption.
  exists r', s'. exact E.
Qed.

(* resynchronisation spelled out: an undecodable payload in the middle *)
Corollary fio_resync max ps1 p ps2 sched buf0 peak calls :
  Forall (fits max) (ps1 ++ p :: ps2) -> dec p = None -> Forall tok_ok sched ->
  exists r' s',
    read_stream V dec (mkreader buf0 max peak) (mksrc (stream_of (ps1 ++ p :: ps2)) sched calls)
      = (map (decode_outcome V dec) ps1 ++ OErr IoDecode :: map (decode_outcome V dec) ps2 ++ [OEnd], r', s')
    /\ s_data s' = [].
Proof.
  intros Hp Hd Hs. destruct (fio_roundtrip max _ sched buf0 peak calls Hp Hs) as [r' [s' [E Hr]]].
  exists r', s'. split; [|exact Hr]. rewrite E, map_app. cbn [map]. unfold decode_outcome at 2. rewrite Hd.
  rewrite <- app_assoc. reflexivity.
Qed.

End Reading.

(* the hypotheses are satisfiable by a non-trivial instance, and the machine really runs *)
Example fio_roundtrip_ex :
  let ps := [[65; 1]; []; [66; 1; 2]] in
  let sched := [RData 3; RIntr; RData 1; RData 2; RIntr; RIntr; RData 1] in
  Forall (fits 16) ps /\ Forall tok_ok sched /\
  fst (fst (fio_read_run 16 [[65; 1]; [66; 1; 2]] (stream_of ps) sched))
    = [OVal [65; 1]; OErr IoDecode; OVal [66; 1; 2]; OEnd].
Proof.
  cbn zeta. split; [|split].
  - repeat constructor; vm_compute; congruence.
  - repeat constructor; vm_compute; congruence.
  - vm_compute. reflexivity.
Qed.

Example fio_truncated_ex :
  fst (fst (fio_read_run 16 [[65; 1]] (firstn 9 (stream_of [[65; 1]; [65; 2]])) [RData 2; RIntr; RData 5]))
    = [OVal [65; 1]; OErr IoUnexpectedEof].
Proof. vm_compute. reflexivity. Qed.

(* ------------------------------------------------------------------------------------------ *)
(* Every schedule (hard errors and zero-length reads included), every byte stream: no panic, the
   fuel suffices, values are made of bytes that came from the stream, the buffer is bounded. *)
Lemma prefix_loop_gen : forall fuel s buf ln R s',
  length buf = 4%nat -> ln <= 4 -> (need_p s ln <= fuel)%nat ->
  prefix_loop fuel s buf ln = (R, s') ->
  R <> PFuel /\
  (forall b, R = PDone b -> length b = 4%nat /\ b ++ s_data s' = firstn (N.to_nat ln) buf ++ s_data s).
Proof.
  induction fuel as [|f IH]; intros s buf ln R s' Hl Hln Hf.
  { unfold need_p in Hf. destruct (ln <? 4); lia. }
  cbn [prefix_loop]. unfold need_p in Hf. destruct (N.ltb_spec ln 4) as [Hlt|Hge].
  - destruct (src_read s (4 - ln)) as [r s1] eqn:E.
    apply src_read_cases in E as [[Es [Es1 [got [-> [Ed Eg]]]]]|[t0 [Es Et]]].
    + destruct (N.eqb_spec (len got) 0) as [Hz|Hnz].
      * destruct (ln =? 0); intros [= <- <-]; split; try discriminate; intros b [=].
      * intro E'. apply IH in E'.
        -- destruct E' as [Hnf Hdone]. split; [exact Hnf|]. intros b Hb. destruct (Hdone b Hb) as [L1 L2].
           split; [exact L1|]. rewrite L2, to_nat_add_len, firstn_write_at, <- app_assoc, <- Ed by lia. reflexivity.
        -- rewrite write_at_length; [exact Hl|unfold len in *; lia].
        -- lia.
        -- unfold need_p. rewrite Es1. rewrite Es in Hf.
           assert (Hne : ne (s_data s) = 1%nat).
           { destruct (s_data s); [change (len []) with 0 in Eg; lia|reflexivity]. }
           cbn [length] in *.
           destruct (N.ltb_spec (ln + len got) 4) as [Hp|Hp]; [|lia].
           assert (Hd1 : s_data s1 = []).
           { apply len_0_nil. rewrite Ed, len_app in Eg. lia. }
           rewrite Hd1. cbn [ne]. lia.
    + rewrite Es in Hf. cbn [length] in Hf.
      destruct t0 as [k| |]; [destruct Et as [got [-> [Ed Eg]]]|destruct Et as [-> Ed]|destruct Et as [-> Ed]].
      * destruct (N.eqb_spec (len got) 0) as [Hz|Hnz].
        -- destruct (ln =? 0); intros [= <- <-]; split; try discriminate; intros b [=].
        -- intro E'. apply IH in E'.
           ++ destruct E' as [Hnf Hdone]. split; [exact Hnf|]. intros b Hb. destruct (Hdone b Hb) as [L1 L2].
              split; [exact L1|]. rewrite L2, to_nat_add_len, firstn_write_at, <- app_assoc, <- Ed by lia. reflexivity.
           ++ rewrite write_at_length; [exact Hl|unfold len in *; lia].
           ++ lia.
           ++ unfold need_p.
              assert (ne (s_data s1) <= ne (s_data s))%nat by (rewrite Ed; apply ne_app_r).
              destruct (ln + len got <? 4); lia.
      * intro E'. apply IH in E'; try assumption.
        -- rewrite Ed in E'. exact E'.
        -- unfold need_p. rewrite Ed. destruct (ln <? 4); lia.
      * intros [= <- <-]. split; [discriminate|]. intros b [=].
  - assert (ln = 4) by lia. subst ln. intros [= <- <-]. split; [discriminate|].
    intros b [= <-]. split; [exact Hl|]. now rewrite firstn_all2 by lia.
Qed.

Definition xbuf (R : exact_res) : bytes :=
  match R with XrDone b | XrEof b | XrErr b | XrPanic b | XrFuel b => b end.

Lemma read_exact_gen : forall fuel s buf o R s',
  o <= len buf -> (need_x s buf o <= fuel)%nat ->
  read_exact fuel s buf o = (R, s') ->
  (forall b, R <> XrFuel b) /\ (forall b, R <> XrPanic b) /\ length (xbuf R) = length buf /\
  (forall b, R = XrDone b -> b ++ s_data s' = firstn (N.to_nat o) buf ++ s_data s).
Proof.
  induction fuel as [|f IH]; intros s buf o R s' Ho Hf.
  { unfold need_x in Hf. destruct (o <? len buf); lia. }
  cbn [read_exact]. unfold need_x in Hf. destruct (N.ltb_spec o (len buf)) as [Hlt|Hge].
  - destruct (src_read s (len buf - o)) as [r s1] eqn:E.
    apply src_read_cases in E as [[Es [Es1 [got [-> [Ed Eg]]]]]|[t0 [Es Et]]].
    + destruct (N.eqb_spec (len got) 0) as [Hz|Hnz].
      * intros [= <- <-]. repeat split; try discriminate; reflexivity.
      * destruct (N.ltb_spec (len buf - o) (len got)) as [Hbad|Hfit]; [lia|].
        assert (Lw : length (write_at buf o got) = length buf) by (apply write_at_length; unfold len in *; lia).
        assert (Lw' : len (write_at buf o got) = len buf) by (unfold len; now rewrite Lw).
        intro E'. apply IH in E'.
        -- destruct E' as [H1 [H2 [H3 H4]]]. repeat split; try assumption; [congruence|].
           intros b Hb. rewrite (H4 b Hb), to_nat_add_len, firstn_write_at, <- app_assoc, <- Ed by (unfold len in *; lia).
           reflexivity.
        -- rewrite Lw'. lia.
        -- unfold need_x. rewrite Es1, Lw'. rewrite Es in Hf.
           assert (Hne : ne (s_data s) = 1%nat).
           { destruct (s_data s); [change (len []) with 0 in Eg; lia|reflexivity]. }
           cbn [length] in *.
           destruct (N.ltb_spec (o + len got) (len buf)) as [Hp|Hp]; [|lia].
           assert (Hd1 : s_data s1 = []).
           { apply len_0_nil. rewrite Ed, len_app in Eg. lia. }
           rewrite Hd1. cbn [ne]. lia.
    + rewrite Es in Hf. cbn [length] in Hf.
      destruct t0 as [k| |]; [destruct Et as [got [-> [Ed Eg]]]|destruct Et as [-> Ed]|destruct Et as [-> Ed]].
      * destruct (N.eqb_spec (len got) 0) as [Hz|Hnz].
        -- intros [= <- <-]. repeat split; try discriminate; reflexivity.
        -- destruct (N.ltb_spec (len buf - o) (len got)) as [Hbad|Hfit]; [lia|].
           assert (Lw : length (write_at buf o got) = length buf) by (apply write_at_length; unfold len in *; lia).
           assert (Lw' : len (write_at buf o got) = len buf) by (unfold len; now rewrite Lw).
           intro E'. apply IH in E'.
           ++ destruct E' as [H1 [H2 [H3 H4]]]. repeat split; try assumption; [congruence|].
              intros b Hb. rewrite (H4 b Hb), to_nat_add_len, firstn_write_at, <- app_assoc, <- Ed by (unfold len in *; lia).
              reflexivity.
           ++ rewrite Lw'. lia.
           ++ unfold need_x. rewrite Lw'.
              assert (ne (s_data s1) <= ne (s_data s))%nat by (rewrite Ed; apply ne_app_r).
              destruct (o + len got <? len buf); lia.
      * intro E'. apply IH in E'; try assumption.
        -- rewrite Ed in E'. exact E'.
        -- unfold need_x. rewrite Ed. destruct (o <? len buf); lia.
      * intros [= <- <-]. repeat split; try discriminate; reflexivity.
  - intros [= <- <-]. repeat split; try discriminate. intros b [= <-].
    rewrite firstn_all2 by (unfold len in *; lia). reflexivity.
Qed.

Section Totality.
Variable V : Type.
Variable dec : bytes -> option V.

Lemma decode_outcome_cases p :
  (exists v, decode_outcome V dec p = OVal v) \/ decode_outcome V dec p = OErr IoDecode.
Proof. unfold decode_outcome. destruct (dec p); eauto. Qed.

(* C14_alloc for one call: Vec::resize is reached only with an argument <= max_len *)
Lemma read_with_gen r s o r' s' :
  read_with V dec r s = (o, r', s') ->
  o <> OPanic /\ o <> OFuel /\ r_max r' = r_max r /\
  r_peak r' <= N.max (r_peak r) (r_max r) /\
  len (r_buf r') <= N.max (len (r_buf r)) (r_max r) /\
  (terminal V o = false -> (length (s_data s') + 4 <= length (s_data s))%nat).
Proof.
  unfold read_with.
  destruct (prefix_loop (src_fuel s) s [0; 0; 0; 0] 0) as [R s1] eqn:E1.
  apply prefix_loop_gen in E1; [|reflexivity|lia|].
  2:{ unfold need_p, src_fuel. destruct (0 <? 4); destruct (s_data s); cbn [ne]; lia. }
  destruct E1 as [Hnf Hdone].
  destruct R as [b| | | |]; try (intros [= <- <- <-]; repeat split; try discriminate; try lia; try (cbn; discriminate); fail).
  2:{ contradiction Hnf; reflexivity. }
  destruct (Hdone b eq_refl) as [Lb Eb]. cbn [N.to_nat firstn app] in Eb.
  destruct (N.ltb_spec (r_max r) (of_be b)) as [Hbig|Hfit].
  { intros [= <- <- <-]. repeat split; try discriminate; try lia; try (cbn; discriminate). }
  destruct (read_exact (src_fuel s1) s1 (zeros (of_be b)) 0) as [R2 s2] eqn:E2.
  apply read_exact_gen in E2; [|lia|].
  2:{ unfold need_x, src_fuel. destruct (0 <? len (zeros (of_be b))); destruct (s_data s1); cbn [ne]; lia. }
  destruct E2 as [G1 [G2 [G3 G4]]].
  assert (Lx : len (xbuf R2) = of_be b).
  { unfold len. rewrite G3. fold (len (zeros (of_be b))). apply len_zeros. }
  destruct R2 as [b2|b2|b2|b2|b2]; cbn [xbuf] in *;
    try (intros [= <- <- <-]; cbn [r_max r_peak r_buf set_rbuf]; repeat split; try discriminate; try lia; try (cbn; discriminate); fail).
  - intros [= <- <- <-]. cbn [r_max r_peak r_buf set_rbuf].
    destruct (decode_outcome_cases b2) as [[v Ev]|Ev]; rewrite Ev;
      (repeat split; try discriminate; try lia; intros _;
       specialize (G4 b2 eq_refl); cbn [N.to_nat firstn app] in G4;
       rewrite <- Eb, <- G4, !app_length; lia).
  - exfalso. eapply G2. reflexivity.
  - exfalso. eapply G1. reflexivity.
Qed.

Lemma read_all_gen : forall f r s os r' s',
  (length (s_data s) < f)%nat -> read_all V dec f r s = (os, r', s') ->
  Forall (fun o => o <> OPanic /\ o <> OFuel) os /\ r_max r' = r_max r /\
  r_peak r' <= N.max (r_peak r) (r_max r) /\
  len (r_buf r') <= N.max (len (r_buf r)) (r_max r).
Proof.
  induction f as [|f IH]; intros r s os r' s' Hf; [lia|].
  cbn [read_all]. destruct (read_with V dec r s) as [[o r1] s1] eqn:E1.
  apply read_with_gen in E1 as [H1 [H2 [H3 [H4 [H5 H6]]]]].
  destruct (terminal V o) eqn:Et.
  - intros [= <- <- <-]. repeat split; try assumption. constructor; [split; assumption|constructor].
  - destruct (read_all V dec f r1 s1) as [[os2 r2] s2] eqn:E2.
    apply IH in E2; [|specialize (H6 eq_refl); lia].
    destruct E2 as [F1 [F2 [F3 F4]]].
    intros [= <- <- <-]. repeat split.
    + constructor; [split; assumption|exact F1].
    + congruence.
    + rewrite H3 in F3. lia.
    + rewrite H3 in F4. lia.
Qed.

(* C14_alloc / no panic, whole run: for every script and every byte stream *)
Theorem fio_alloc r s os r' s' :
  read_stream V dec r s = (os, r', s') ->
  Forall (fun o => o <> OPanic /\ o <> OFuel) os /\
  r_peak r' <= N.max (r_peak r) (r_max r) /\
  len (r_buf r') <= N.max (len (r_buf r)) (r_max r).
Proof.
  unfold read_stream. intro E. apply read_all_gen in E; [|lia]. tauto.
Qed.

End Totality.

(* ------------------------------------------------------------------------------------------ *)
(* Writer and reader together, for any codec whose decoder inverts its encoder *)
Section EndToEnd.
Variable V : Type.
Variable enc : V -> enc_res.
Variable dec : bytes -> option V.
Hypothesis dec_enc : forall v p, enc v = EncOk p -> dec p = Some v.

Theorem fio_e2e max vs ps sched wb rb pk c :
  Forall2 (fun v p => enc v = EncOk p) vs ps ->
  Forall (fits max) ps ->
  Forall tok_ok sched ->
  exists w' r' s',
    write_seq (mkwriter wb max) (map (fun v => (enc v, true)) vs)
      = (map (fun p => WOk (len p)) ps, w', map frame_of ps)
    /\ read_stream V dec (mkreader rb max pk) (mksrc (concat (map frame_of ps)) sched c)
      = (map OVal vs ++ [OEnd], r', s')
    /\ s_data s' = [].
Proof.
  intros H2 Hfit Hs.
  assert (E1 : map (fun v => (enc v, true)) vs = map (fun p => (EncOk p, true)) ps).
  { clear - H2. induction H2 as [|v p vs ps Hvp _ IH]; [reflexivity|]. cbn [map]. rewrite Hvp, IH. reflexivity. }
  assert (E2 : map (decode_outcome V dec) ps = map OVal vs).
  { clear - H2 dec_enc. induction H2 as [|v p vs ps Hvp _ IH]; [reflexivity|]. cbn [map]. rewrite IH. f_equal.
    unfold decode_outcome. now rewrite (dec_enc v p Hvp). }
  destruct (write_seq_stream (mkwriter wb max) ps Hfit) as [w' [Ew _]].
  destruct (fio_roundtrip V dec max ps sched rb pk c Hfit Hs) as [r' [s' [Er Hd]]].
  exists w', r', s'. rewrite E1, <- E2. auto.
Qed.

End EndToEnd.

Example fio_e2e_ex :
  let enc := fun v : bytes => EncOk v in
  let dec := fun p : bytes => Some p in
  (forall v p, enc v = EncOk p -> dec p = Some v) /\
  fst (fst (write_seq (mkwriter [] 8) [(enc [1; 2], true); (enc [], true)])) = [WOk 2; WOk 0].
Proof. split; [intros v p [= ->]; reflexivity|vm_compute; reflexivity]. Qed.

(* max_len is set from a u32 (Writer::set_max_len; default 512 KiB), so |p| <= max_len is all a caller has to
   provide.  (Finding F13, repaired in /repo: the former `len as u32 - 4` needed |p| + 4 < 2^32 in builds with
   overflow checks.) *)
Lemma write_with_frame_u32 w p :
  len p <= w_max w -> w_max w < 4294967296 ->
  write_with w (EncOk p) true = (WOk (len p), mkwriter (frame_of p) (w_max w), [be 4 (len p) ++ p]).
Proof. intros Hm Hs. apply write_with_frame; lia. Qed.

(* the writer never panics, whatever the value and the limits (the usize `len - 4` cannot underflow) *)
Lemma write_with_no_panic w e ok : fst (fst (write_with w e ok)) <> WPanic.
Proof.
  unfold write_with. destruct (build_frame (w_buf w) (w_max w) e) as [b|er b|b] eqn:E.
  - destruct ok; discriminate.
  - discriminate.
  - exfalso. eapply build_frame_no_panic. exact E.
Qed.
