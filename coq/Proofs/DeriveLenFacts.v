(* Proofs/DeriveLenFacts.v — the derived CborLen is exact (C07, derived part; F6 and F7 repaired). *)
From MC Require Import Bytes BytesFacts Cbor Encoder EncoderFacts Types DeriveSchema DeriveEnc DeriveLen DeriveDoc DeriveKnown DeriveFacts.
From Coq Require Import Lia Permutation.
Local Open Scope N_scope.

Section LenOk.
Variable okty : ty -> Prop.
Hypothesis Hty : forall t, okty t -> forall v cs, encode_ty t v = Some cs -> len_ty t v = len (flat cs).

Variable recE : nat -> value -> option (list chunk).
Variable recL : nat -> value -> N.
Hypothesis Hrec : forall d v cs, recE d v = Some cs -> recL d v = len (flat cs).

Lemma enc_all_len (f : value -> option (list chunk)) (g : value -> N) l cs :
  (forall v c, In v l -> f v = Some c -> g v = len (flat c)) ->
  enc_all f l = Some cs -> sum_map g l = len (flat cs).
Proof.
  revert cs. induction l as [|v r IH]; intros cs Hf; cbn [enc_all sum_map fold_right].
  - intros [= <-]. reflexivity.
  - intros H. apply ocat_some in H as (x & y & Hx & Hy & ->).
    rewrite len_flat_app. rewrite (Hf v x (or_introl eq_refl) Hx).
    fold (sum_map g r). rewrite (IH y); auto. intros. apply Hf; auto. now right.
Qed.

Lemma len_fty_ok f : forall v cs, fty_all okty f -> enc_fty recE f v = Some cs ->
  len_fty recL f v = len (flat cs).
Proof.
  induction f as [t|d|f' IH|f' IH]; intros v cs Hall He.
  - cbn in *. now apply Hty.
  - cbn in *. now apply Hrec.
  - destruct v; cbn in He; try discriminate.
    + injection He as <-. reflexivity.
    + cbn. now apply IH.
  - destruct v; cbn in He; try discriminate. cbn [len_fty].
    apply ocat3_some in He as (y & Hy & ->). rewrite len_flat_app, len_enc_array. f_equal.
    eapply enc_all_len; [|exact Hy]. intros. now apply IH.
Qed.

Lemma cust_len_ok v cs : cust_encode v = Some cs -> cust_len v = len (flat cs).
Proof.
  destruct v; cbn; try discriminate. destruct (n <=? u64_max); [|discriminate]. intros [= <-].
  destruct (n =? 0); [reflexivity|]. now rewrite len_enc_u64.
Qed.

Lemma len_field_ok d vs pf cs : field_ok d (pf_fld pf) = true -> f_skip (pf_fld pf) = false -> fty_all okty (f_ty (pf_fld pf)) ->
  enc_field_fn recE (pf_fld pf) (pf_val vs pf) = Some cs ->
  len_field_fn recL (pf_fld pf) (pf_val vs pf) = len (flat cs).
Proof.
  unfold enc_field_fn, len_field_fn, field_ok. intros Hok Hs Hall He. rewrite Hs in Hok.
  destruct (f_codec (pf_fld pf)) eqn:Ec.
  - now apply len_fty_ok.
  - apply andb_prop in Hok as [_ Hok]. apply andb_prop in Hok as [_ Hok].
    destruct (f_ty (pf_fld pf)); try discriminate. cbn in *. now apply Hty.
  - now apply cust_len_ok.
Qed.

(* the fields of one body: every field of l is well-formed and its own length is exact *)
Definition fields_good (vs : list value) (l : list pfield) : Prop :=
  forall pf cs, In pf l -> enc_field_fn recE (pf_fld pf) (pf_val vs pf) = Some cs ->
                len_field_fn recL (pf_fld pf) (pf_val vs pf) = len (flat cs).

(* a nil field is written as one byte by its own encoder *)
Definition nil_one (vs : list value) (l : list pfield) : Prop :=
  forall pf cs, In pf l -> nilp vs pf = true -> enc_field_fn recE (pf_fld pf) (pf_val vs pf) = Some cs -> len (flat cs) = 1.

(* ---- map encoding ---- *)
Lemma len_map_steps_ok vs l cs : fields_good vs l -> enc_map_stmts recE l vs = Some cs ->
  len_map_steps recL l vs = len (flat cs).
Proof.
  revert cs. induction l as [|pf r IH]; intros cs Hg; cbn [enc_map_stmts len_map_steps].
  - intros [= <-]. reflexivity.
  - intro H. apply ocat_some in H as (x & y & Hx & Hy & ->). rewrite len_flat_app.
    assert (Hg' : fields_good vs r) by (intros q c Hq; apply Hg; now right).
    rewrite (IH y Hg' Hy). f_equal.
    destruct (fld_is_nil (pf_fld pf) (pf_val vs pf)).
    + injection Hx as <-. reflexivity.
    + apply ocat3_some in Hx as (z & Hz & ->). rewrite !len_flat_app, len_enc_u32, len_enc_tag_opt.
      rewrite (Hg pf z (or_introl eq_refl) Hz). lia.
Qed.

Lemma max_fields_present vs l : forall n, max_fields l vs (n + len l) = n + present l vs.
Proof.
  induction l as [|pf r IH]; intro n; cbn [max_fields present]; [reflexivity|].
  rewrite len_cons. destruct (fld_is_nil (pf_fld pf) (pf_val vs pf)).
  - replace (n + (1 + len r) - 1) with (n + len r) by lia. rewrite IH. lia.
  - replace (n + (1 + len r)) with (n + 1 + len r) by lia. rewrite IH. lia.
Qed.

Lemma len_as_map_ok vs l cs : fields_good vs l -> enc_as_map recE l vs = Some cs ->
  len_as_map recL l vs = len (flat cs).
Proof.
  unfold enc_as_map, len_as_map. intros Hg H. apply ocat3_some in H as (y & Hy & ->).
  rewrite len_flat_app, len_enc_map. rewrite (len_map_steps_ok vs l y) by assumption.
  pose proof (max_fields_present vs l 0) as Hm. rewrite !N.add_0_l in Hm. now rewrite Hm.
Qed.

(* ---- array encoding ---- *)
(* i is the index of the last non-nil field of the whole list, of which l is the not yet visited part
   and p the number of positions already written *)
Definition last_nonnil (vs : list value) (l : list pfield) (p i : N) : Prop :=
  (exists pf, In pf l /\ nilp vs pf = false /\ pf_idx pf = i) \/ (i < p /\ forallb (nilp vs) l = true).

Lemma len_array_steps_ok vs i : forall l p num ln pend cs,
  asc pf_idx p l -> num <= p ->
  (forall pf, In pf l -> nilp vs pf = false -> pf_idx pf <= i) ->
  last_nonnil vs l p i ->
  fields_good vs l -> nil_one vs l ->
  arr_stmts recE l vs p i = Some cs ->
  let r := len_array_steps recL l vs num ln pend in
  (forallb (nilp vs) l = true /\ r = (num, ln) /\ cs = []) \/
  (forallb (nilp vs) l = false /\ fst r = i + 1 /\ snd r = ln + (p - num) + pend + len (flat cs)).
Proof.
  induction l as [|pf r IH]; intros p num ln pend cs Hasc Hnum Hle Hlast Hgood Hnil; cbn [arr_stmts len_array_steps forallb].
  - intros [= <-]. left. auto.
  - intro H. apply ocat_some in H as (x & y & Hx & Hy & ->). cbn [asc] in Hasc. destruct Hasc as [Hp Hasc].
    assert (Hn1 : num <= pf_idx pf + 1) by lia. assert (Hn2 : pf_idx pf + 1 <= pf_idx pf + 1) by lia.
    fold (nilp vs pf). destruct (nilp vs pf) eqn:En; cbn [andb].
    + (* a nil field: written as `tag null` if it lies below the highest present index *)
      assert (Hlast' : last_nonnil vs r (pf_idx pf + 1) i).
      { destruct Hlast as [(q & [<-|Hq] & Hqn & Hqi)|[Hi Hall]].
        - congruence.
        - left. exists q. auto.
        - right. cbn [forallb] in Hall. apply andb_prop in Hall as [_ Hall]. split; [lia|assumption]. }
      specialize (IH (pf_idx pf + 1) num ln (pend + len_tag_opt (f_tag (pf_fld pf))) y Hasc Hn1
                     (fun q Hq => Hle q (or_intror Hq)) Hlast'
                     (fun q c Hq => Hgood q c (or_intror Hq)) (fun q c Hq => Hnil q c (or_intror Hq)) Hy).
      cbn zeta in IH.
      destruct (N.leb_spec (pf_idx pf) i) as [Hi|Hi].
      * apply ocat3_some in Hx as (z & Hz & ->).
        assert (Hz1 : len (flat z) = 1) by (eapply Hnil; [now left|assumption|exact Hz]).
        destruct IH as [(Hall & Hr & ->)|(Hall & Hf & Hs)].
        -- exfalso. destruct Hlast as [(q & [<-|Hq] & Hqn & _)|[Hlt _]]; [congruence| |lia].
           rewrite forallb_forall in Hall. specialize (Hall q Hq). congruence.
        -- right. split; [assumption|]. split; [assumption|]. rewrite Hs.
           rewrite !len_flat_app, len_nulls, len_enc_tag_opt, Hz1. lia.
      * injection Hx as <-.
        destruct IH as [(Hall & Hr & ->)|(Hall & Hf & Hs)].
        -- left. auto.
        -- exfalso. destruct Hlast' as [(q & Hq & Hqn & Hqi)|[_ Hall']]; [|congruence].
           assert (pf_idx pf + 1 <= pf_idx q) by (eapply asc_keys_ge; eassumption). lia.
    + (* a present field *)
      assert (Hi : pf_idx pf <= i) by (apply Hle; [now left|assumption]).
      destruct (N.leb_spec (pf_idx pf) i); [|lia].
      apply ocat3_some in Hx as (z & Hz & ->).
      assert (Hzl : len_field_fn recL (pf_fld pf) (pf_val vs pf) = len (flat z)) by (apply Hgood; [now left|assumption]).
      right. split; [reflexivity|].
      assert (Hlast' : last_nonnil vs r (pf_idx pf + 1) i).
      { destruct Hlast as [(q & [<-|Hq] & Hqn & Hqi)|[Hlt Hall]].
        - right. split; [lia|]. apply forallb_forall. intros q Hq. destruct (nilp vs q) eqn:Eq; [reflexivity|].
          assert (pf_idx pf + 1 <= pf_idx q) by (eapply asc_keys_ge; eassumption).
          specialize (Hle q (or_intror Hq) Eq). lia.
        - left. exists q. auto.
        - cbn [forallb] in Hall. rewrite En in Hall. discriminate. }
      specialize (IH (pf_idx pf + 1) (pf_idx pf + 1)
                     (ln + (pf_idx pf - num + pend + len_tag_opt (f_tag (pf_fld pf)) + len_field_fn recL (pf_fld pf) (pf_val vs pf))) 0 y Hasc Hn2
                     (fun q Hq => Hle q (or_intror Hq)) Hlast'
                     (fun q c Hq => Hgood q c (or_intror Hq)) (fun q c Hq => Hnil q c (or_intror Hq)) Hy).
      cbn zeta in IH. destruct IH as [(Hall & Hr & ->)|(Hall & Hf & Hs)].
      * rewrite Hr. cbn [fst snd]. destruct Hlast' as [(q & Hq & Hqn & _)|[Hlt _]].
        -- rewrite forallb_forall in Hall. specialize (Hall q Hq). congruence.
        -- split; [lia|]. rewrite app_nil_r, !len_flat_app, len_nulls, len_enc_tag_opt, Hzl. lia.
      * split; [assumption|]. rewrite Hs, !len_flat_app, len_nulls, len_enc_tag_opt, Hzl. lia.
Qed.

Lemma len_array_steps_all_nil vs l : forall num ln pend, forallb (nilp vs) l = true -> len_array_steps recL l vs num ln pend = (num, ln).
Proof.
  induction l as [|pf r IH]; intros num ln pend; cbn [forallb len_array_steps]; [reflexivity|].
  intro H. apply andb_prop in H as [H1 H2]. unfold nilp in H1. rewrite H1. now apply IH.
Qed.

Lemma asc_app_lt {A} (key : A -> N) p l1 x l2 : asc key p (l1 ++ x :: l2) -> forall y, In y l1 -> key y < key x.
Proof.
  revert p. induction l1 as [|z r IH]; intros p; cbn [app asc]; [intros _ y []|].
  intros [H1 H2] y [E|Hy].
  - subst z. assert (key y + 1 <= key x); [|lia]. eapply asc_keys_ge; [exact H2|]. apply in_or_app. right. now left.
  - eapply IH; eassumption.
Qed.

Lemma len_as_array_ok vs l cs : asc pf_idx 0 l -> fields_good vs l -> nil_one vs l ->
  enc_as_array recE l vs = Some cs -> len_as_array recL l vs = len (flat cs).
Proof.
  unfold enc_as_array, len_as_array. intros Hasc Hg Hn.
  destruct (max_index l vs None) as [i|] eqn:Em.
  - intro H. apply ocat3_some in H as (y & Hy & ->). rewrite enc_array_stmts_eq in Hy.
    apply max_index_some in Em as [[_ ?]|(l1 & pf & l2 & -> & Hpn & Hpi & Hl2)]; [discriminate|].
    assert (Hle : forall q, In q (l1 ++ pf :: l2) -> nilp vs q = false -> pf_idx q <= i).
    { intros q Hq Hqn. apply in_app_or in Hq as [Hq|[<-|Hq]].
      - assert (pf_idx q < pf_idx pf) by (eapply asc_app_lt; eassumption). lia.
      - lia.
      - rewrite forallb_forall in Hl2. specialize (Hl2 q Hq). congruence. }
    assert (Hlast : last_nonnil vs (l1 ++ pf :: l2) 0 i).
    { left. exists pf. split; [apply in_or_app; right; now left|auto]. }
    pose proof (len_array_steps_ok vs i (l1 ++ pf :: l2) 0 0 0 0 y Hasc (N.le_refl 0) Hle Hlast Hg Hn Hy) as R.
    cbn zeta in R. destruct R as [(Hall & _)|(_ & Hf & Hs)].
    + rewrite forallb_forall in Hall. specialize (Hall pf ltac:(apply in_or_app; right; now left)). congruence.
    + rewrite Hf, Hs, len_flat_app, len_enc_array. lia.
  - intros [= <-]. apply max_index_none in Em. rewrite len_array_steps_all_nil by assumption. reflexivity.
Qed.

(* ---- the fields of one struct / variant body ---- *)
Lemma nil_one_ok d vs pf cs : field_ok d (pf_fld pf) = true -> f_skip (pf_fld pf) = false -> nilp vs pf = true ->
  enc_field_fn recE (pf_fld pf) (pf_val vs pf) = Some cs -> len (flat cs) = 1.
Proof.
  unfold field_ok, nilp, fld_is_nil, enc_field_fn, trait_is_nil. intros Hok Hs. rewrite Hs in Hok.
  apply andb_prop in Hok as [_ Hok]. apply andb_prop in Hok as [Hok Hc]. apply andb_prop in Hok as [_ Hsyn].
  destruct (f_codec (pf_fld pf)) as [| |[|]].
  - destruct (f_ty (pf_fld pf)) as [[]| | |]; try discriminate; unfold is_none; destruct (pf_val vs pf); try discriminate; cbn; intros _ [= <-]; reflexivity.
  - destruct (f_synopt (pf_fld pf)); [|discriminate]. cbn in Hsyn.
    destruct (f_ty (pf_fld pf)) as [[]| | |]; try discriminate; unfold is_none; destruct (pf_val vs pf); try discriminate; cbn; intros _ [= <-]; reflexivity.
  - unfold cust_is_nil, cust_encode. destruct (pf_val vs pf); try discriminate. intros Hn. rewrite Hn.
    destruct (n <=? u64_max); [|discriminate]. intros [= <-]. reflexivity.
  - destruct (f_synopt (pf_fld pf)); [|discriminate]. cbn in Hsyn.
    destruct (f_ty (pf_fld pf)) as [[]| | |]; discriminate.
Qed.

Lemma len_fields_ok d e fs vs cs : fields_ok d fs = true -> fields_all okty fs ->
  enc_fields recE e fs vs = Some cs ->
  len_fields recL e fs vs = len (flat cs).
Proof.
  unfold enc_fields, len_fields. intros Hok Hall He.
  destruct (Nat.eqb (length vs) (length fs)); [|discriminate].
  assert (Hfo : forall pf, In pf (sorted_fields fs) -> field_ok d (pf_fld pf) = true /\ f_skip (pf_fld pf) = false /\ fty_all okty (f_ty (pf_fld pf))).
  { intros pf Hpf. apply in_sorted_fields in Hpf as [Hin Hs]. unfold fields_ok in Hok. apply andb_prop in Hok as [Hok _].
    rewrite forallb_forall in Hok. unfold fields_all in Hall. rewrite Forall_forall in Hall. auto. }
  assert (Hg : fields_good vs (sorted_fields fs)).
  { intros pf c Hpf Hc. destruct (Hfo pf Hpf) as (H1 & H2 & H3). eapply len_field_ok; eassumption. }
  assert (Hn : nil_one vs (sorted_fields fs)).
  { intros pf c Hpf Hnil Hc. destruct (Hfo pf Hpf) as (H1 & H2 & _). eapply nil_one_ok; eassumption. }
  destruct e.
  - apply len_as_array_ok; try assumption. eapply sorted_fields_asc, Hok.
  - now apply len_as_map_ok.
Qed.

Lemma len_def_ok d df v cs : def_ok d df = true -> def_all okty df ->
  enc_def recE df v = Some cs -> len_def recL df v = len (flat cs).
Proof.
  destruct df as [e tag tr sh fs|e tag io vars]; intros Hok Hall He.
  - destruct v as [| | | | | | | |vs|]; try discriminate. cbn [enc_def len_def def_ok def_all] in *.
    apply andb_prop in Hok as [Hok Htr]. apply andb_prop in Hok as [Hok _]. apply andb_prop in Hok as [_ Hfs].
    destruct tr.
    + destruct (sorted_fields fs) as [|pf [|? ?]] eqn:Es; try discriminate. destruct vs as [|x [|? ?]]; try discriminate.
      assert (Hpf : In pf (sorted_fields fs)) by (rewrite Es; now left).
      apply in_sorted_fields in Hpf as [Hin Hs].
      unfold fields_ok in Hfs. apply andb_prop in Hfs as [Hfs _]. rewrite forallb_forall in Hfs.
      unfold fields_all in Hall. rewrite Forall_forall in Hall.
      eapply len_field_ok; eauto.
    + apply ocat3_some in He as (y & Hy & ->). rewrite len_flat_app, len_enc_tag_opt. f_equal.
      eapply len_fields_ok; eassumption.
  - destruct v as [| | | | | | | | |i [| | | | | | | |vs|]]; try discriminate. cbn [enc_def len_def def_ok def_all] in *.
    destruct (find_variant vars i) as [va|] eqn:Ef; [|discriminate].
    apply find_variant_in in Ef as [Hin Hi].
    apply andb_prop in Hok as [Hok _]. apply andb_prop in Hok as [_ Hvs]. rewrite forallb_forall in Hvs. specialize (Hvs va Hin).
    rewrite Forall_forall in Hall. specialize (Hall va Hin).
    unfold variant_ok in Hvs. apply andb_prop in Hvs as [Hvs Hsh]. apply andb_prop in Hvs as [_ Hfs].
    apply ocat3_some in He as (y & Hy & ->). rewrite len_flat_app, len_enc_tag_opt. f_equal.
    destruct (is_unit (v_shape va)).
    + destruct vs; [|discriminate]. destruct io.
      * injection Hy as <-. now rewrite len_enc_u32.
      * injection Hy as <-. rewrite len_flat_cons, !len_flat_app, len_enc_u32, len_enc_tag_opt.
        destruct (variant_encoding e va); rewrite ?len_enc_array, ?len_enc_map;
          change (len [ARRAY + as_u8 2]) with 1; change (len_u64 0) with 1; lia.
    + destruct io; [discriminate|].
      apply ocat3_some in Hy as (z & Hz & ->). rewrite !len_flat_app, len_enc_array, len_enc_u32, len_enc_tag_opt.
      rewrite <- (len_fields_ok d (variant_encoding e va) (v_fields va) vs z Hfs Hall Hz).
      destruct (variant_encoding e va); change (len_u64 2) with 1; lia.
Qed.
End LenOk.

Section Top.
Variable okty : ty -> Prop.
Hypothesis Hty : forall t, okty t -> forall v cs, encode_ty t v = Some cs -> len_ty t v = len (flat cs).

Lemma gen_len_f_exact Sc : schema_ok Sc = true -> schema_all okty Sc ->
  forall k d v cs, gen_encode_f k Sc d v = Some cs -> gen_len_f k Sc d v = len (flat cs).
Proof.
  intros Hok Hall. induction k as [|k IH]; intros d v cs; cbn [gen_encode_f gen_len_f]; [discriminate|].
  destruct (nth_error Sc d) as [df|] eqn:En; [|discriminate].
  intros He. eapply (len_def_ok okty Hty) with (d := d); try eassumption.
  - intros d' v' cs'. cbn beta. destruct (Nat.ltb d' d); [apply IH|discriminate].
  - eapply schema_ok_nth; eassumption.
  - eapply schema_all_nth; eassumption.
Qed.

(* C07, derived part: the derived cbor_len is the number of bytes the derived encoder writes — provided every
   built-in field type of the schema has an exact CborLen (hypothesis Hty, discharged by C07_types). *)
Theorem gen_len_exact Sc d v cs : schema_ok Sc = true -> schema_all okty Sc ->
  gen_encode Sc d v = Some cs -> gen_len Sc d v = len (flat cs).
Proof. intros Hok Hall. apply gen_len_f_exact; assumption. Qed.
End Top.

(* ---- the former witnesses of F6 and F7, now exact ---- *)
Definition f6_schema : schema :=
  [DStruct (Some AsMap) None false DsNamed
     (map (fun i => mkfield (N.of_nat i) false None CoDefault true false (FTy (TyOpt (TyU B8)))) (seq 0 24))].
Definition f6_value : value := VList (repeat VNone 24).

Lemma f6_repaired : schema_ok f6_schema = true /\
  option_map flat (gen_encode f6_schema 0 f6_value) = Some [160] /\ gen_len f6_schema 0 f6_value = 1.
Proof. vm_compute. repeat split. Qed.

Definition f7_schema : schema :=
  [DStruct None None false DsNamed
     [mkfield 0 false (Some 5) CoDefault true false (FTy (TyOpt (TyU B8))); mkfield 1 false None CoDefault false false (FTy (TyU B8))]].
Definition f7_value : value := VList [VNone; VNat 1].

Lemma f7_repaired : schema_ok f7_schema = true /\
  option_map flat (gen_encode f7_schema 0 f7_value) = Some [130; 197; 246; 1] /\ gen_len f7_schema 0 f7_value = 4.
Proof. vm_compute. repeat split. Qed.
