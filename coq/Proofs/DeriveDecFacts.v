(* Proofs/DeriveDecFacts.v — the derived decoder reads back what the derived encoder writes (C09). *)
From MC Require Import Bytes BytesFacts Monad Cbor Utf8 Half Decoder Encoder EncoderFacts DecoderFacts IntFacts Types
  DeriveSchema DeriveEnc DeriveLen DeriveDec DeriveDoc DeriveKnown DeriveFacts DeriveLenFacts DeriveDocFacts.
From Coq Require Import Lia Permutation.
Local Open Scope N_scope.

(* ---- single-byte items under skip ---- *)
Lemma skip_null c r p L : skip_auto c (mkdst p (246 :: r) L) = (Ok tt, mkdst (p + 1) r L).
Proof. destruct c as [[] ? ?]; vm_compute; reflexivity. Qed.
Lemma skip_empty_array c r p L : skip_auto c (mkdst p (128 :: r) L) = (Ok tt, mkdst (p + 1) r L).
Proof. destruct c as [[] ? ?]; vm_compute; reflexivity. Qed.
Lemma skip_empty_map c r p L : skip_auto c (mkdst p (160 :: r) L) = (Ok tt, mkdst (p + 1) r L).
Proof. destruct c as [[] ? ?]; vm_compute; reflexivity. Qed.

Lemma datatype_null r p L : datatype (mkdst p (246 :: r) L) = (Ok TNull, mkdst p (246 :: r) L).
Proof. reflexivity. Qed.

(* ---- heads ---- *)
Lemma fits_min_width n : n < two64 -> fits (min_width n) n = true.
Proof.
  unfold min_width, two64. intro H.
  destruct (N.ltb_spec n 24); [cbn; now apply N.ltb_lt|].
  destruct (N.ltb_spec n 256); [cbn; now apply N.ltb_lt|].
  destruct (N.ltb_spec n 65536); [cbn; now apply N.ltb_lt|].
  destruct (N.ltb_spec n 4294967296); cbn; now apply N.ltb_lt.
Qed.

Lemma dec_container_head mt w n r p L : mt = 4 \/ mt = 5 -> fits w n = true -> p + len (Cbor.head mt w n) <= L ->
  dec_container (mt * 32) (mkdst p (Cbor.head mt w n ++ r) L) = (Ok (Some n), mkdst (p + len (Cbor.head mt w n)) r L).
Proof.
  intros Hmt Hf HL. rewrite len_ser_int in *. rewrite head_split. cbn [app]. unfold dec_container.
  rewrite (bind_ok _ _ _ _ _ (read_cons _ _ _ _)). rewrite major_ib, info_ib by assumption.
  assert (HL' : p + 1 + len (args w n) <= L) by lia.
  rewrite N.eqb_refl. cbn [negb]. pose proof (ai_lt w n Hf) as Hai. destruct (N.eqb_spec (ai w n) 31) as [E|_]; [exfalso; set (a := ai w n) in *; clearbody a; lia|]. clear Hai.
  rewrite (bind_ok _ _ _ _ _ (unsigned_args w n r (p + 1) L Hf HL')).
  unfold ret. replace (p + 1 + len (args w n)) with (p + (1 + len (args w n))) by lia. reflexivity.
Qed.

Lemma dec_array_enc n r p L : n < two64 -> p + len (flat (enc_array n)) <= L ->
  dec_array (mkdst p (flat (enc_array n) ++ r) L) = (Ok (Some n), mkdst (p + len (flat (enc_array n))) r L).
Proof.
  intros Hn HL. rewrite flat_enc_array in * by assumption. unfold dec_array. change 0x80 with (4 * 32).
  apply dec_container_head; [now left|now apply fits_min_width|assumption].
Qed.
Lemma dec_map_enc n r p L : n < two64 -> p + len (flat (enc_map n)) <= L ->
  dec_map (mkdst p (flat (enc_map n) ++ r) L) = (Ok (Some n), mkdst (p + len (flat (enc_map n))) r L).
Proof.
  intros Hn HL. rewrite flat_enc_map in * by assumption. unfold dec_map. change 0xa0 with (5 * 32).
  apply dec_container_head; [now right|now apply fits_min_width|assumption].
Qed.

Lemma dec_tag_enc n r p L : n < two64 -> p + len (flat (enc_tag n)) <= L ->
  dec_tag (mkdst p (flat (enc_tag n) ++ r) L) = (Ok n, mkdst (p + len (flat (enc_tag n))) r L).
Proof.
  intros Hn HL. rewrite flat_enc_tag in * by assumption. pose proof (fits_min_width n Hn) as Hf.
  rewrite len_ser_int in *. rewrite head_split. cbn [app]. unfold dec_tag.
  rewrite (bind_ok _ _ _ _ _ (read_cons _ _ _ _)). change 0xc0 with (6 * 32). rewrite major_ib, info_ib by assumption.
  rewrite N.eqb_refl. cbn [negb].
  assert (HL' : p + 1 + len (args (min_width n) n) <= L) by lia.
  rewrite (unsigned_args (min_width n) n r (p + 1) L Hf HL').
  replace (p + 1 + len (args (min_width n) n)) with (p + (1 + len (args (min_width n) n))) by lia. reflexivity.
Qed.

Lemma dec_u32_enc n r p L : n < 4294967296 -> p + len (flat (enc_u32 n)) <= L ->
  dec_u32 (mkdst p (flat (enc_u32 n) ++ r) L) = (Ok n, mkdst (p + len (flat (enc_u32 n))) r L).
Proof.
  intros Hn HL. rewrite flat_enc_u32 in * by assumption. unfold dec_u32.
  rewrite dec_uint_uint; [|apply fits_min_width; unfold two64; lia|assumption].
  destruct (N.leb_spec n 4294967295); [reflexivity|lia].
Qed.
Lemma dec_u64_enc n r p L : n < two64 -> p + len (flat (enc_u64 n)) <= L ->
  dec_u64 (mkdst p (flat (enc_u64 n) ++ r) L) = (Ok n, mkdst (p + len (flat (enc_u64 n))) r L).
Proof.
  intros Hn HL. rewrite flat_enc_u64 in * by assumption. unfold dec_u64.
  rewrite dec_uint_uint; [|now apply fits_min_width|assumption].
  unfold two64 in Hn. destruct (N.leb_spec n 18446744073709551615); [reflexivity|lia].
Qed.

(* the tag check of the generated code on the tag the generated encoder wrote *)
Lemma dec_tag_check_enc t r p L : tag_ok t = true -> p + len (flat (enc_tag_opt t)) <= L ->
  dec_tag_check t (mkdst p (flat (enc_tag_opt t) ++ r) L) = (Ok tt, mkdst (p + len (flat (enc_tag_opt t))) r L).
Proof.
  destruct t as [n|]; cbn [tag_ok enc_tag_opt dec_tag_check].
  - intros Hn HL. apply N.leb_le in Hn. assert (Hn' : n < two64) by (unfold two64, u64_max in *; lia).
    rewrite (bind_ok _ _ _ _ _ (dec_tag_enc n r p L Hn' HL)).
    now rewrite N.eqb_refl.
  - intros _ _. cbn. unfold ret. now rewrite N.add_0_r.
Qed.

Lemma bind_bind_ok {A B C} (m : M A) (f : A -> M B) (g : B -> M C) s a s' :
  m s = (Ok a, s') -> bind (bind m f) g s = bind (f a) g s'.
Proof. unfold bind. intros ->. reflexivity. Qed.

(* ---- "m reads b as a": from any position, with any suffix, given enough fuel ---- *)
Definition reads_f {A} (m : nat -> M A) (b : bytes) (a : A) : Prop :=
  forall fuel r p L, (length (b ++ r) < fuel)%nat -> L < two64 -> p + len b <= L ->
    m fuel (mkdst p (b ++ r) L) = (Ok a, mkdst (p + len b) r L).

(* the first byte of a derived (non-transparent) encoding or of a sequence: never the null byte, and
   datatype() classifies it without looking further *)
Definition hd_class (b : bytes) : bool :=
  match b with
  | x :: _ => (x <=? 0x1b) || ((0x80 <=? x) && (x <=? 0x9b)) || ((0xa0 <=? x) && (x <=? 0xbb)) || ((0xc0 <=? x) && (x <=? 0xdb))
  | [] => false
  end.

Ltac split_cmp :=
  repeat match goal with
  | |- context [if (?a <=? ?b) && (?c <=? ?d) then _ else _] =>
      destruct (N.leb_spec a b); [destruct (N.leb_spec c d)|]; cbn [andb]; try (exfalso; lia)
  | |- context [if (?a =? ?b) || (?c =? ?d) then _ else _] =>
      destruct (N.eqb_spec a b); [|destruct (N.eqb_spec c d)]; cbn [orb]; try (exfalso; lia)
  | |- context [if ((?a <=? ?b) && (?c <=? ?d)) || (?e =? ?f) then _ else _] =>
      destruct (N.leb_spec a b); [destruct (N.leb_spec c d)|]; destruct (N.eqb_spec e f); cbn [andb orb]; try (exfalso; lia)
  | |- context [if ?a <=? ?b then _ else _] => destruct (N.leb_spec a b); try (exfalso; lia)
  | |- context [if ?a =? ?b then _ else _] => destruct (N.eqb_spec a b); try (exfalso; lia)
  end.

Lemma datatype_hd x t p L : hd_class (x :: t) = true ->
  exists ty, datatype (mkdst p (x :: t) L) = (Ok ty, mkdst p (x :: t) L) /\ ctype_is_null ty = false.
Proof.
  unfold hd_class, datatype. intro H. rewrite (bind_ok _ _ _ _ _ (current_cons _ _ _ _)). unfold type_of.
  destruct (orb_prop _ _ H) as [H3|H4]; clear H.
  - destruct (orb_prop _ _ H3) as [H2|H3']; clear H3.
    + destruct (orb_prop _ _ H2) as [H1|H2']; clear H2.
      * apply N.leb_le in H1. split_cmp; eexists; split; reflexivity.
      * apply andb_prop in H2' as [A B]. apply N.leb_le in A, B. split_cmp; eexists; split; reflexivity.
    + apply andb_prop in H3' as [A B]. apply N.leb_le in A, B. split_cmp; eexists; split; reflexivity.
  - apply andb_prop in H4 as [A B]. apply N.leb_le in A, B. split_cmp; eexists; split; reflexivity.
Qed.

Lemma hd_class_type_len t x rest : t = ARRAY \/ t = MAP \/ t = TAGGED -> hd_class (flat (type_len t x) ++ rest) = true.
Proof.
  unfold type_len, ARRAY, MAP, TAGGED, as_u8. intros [ -> | [ -> | -> ] ];
  repeat match goal with |- context [if ?a <=? ?b then _ else _] => destruct (N.leb_spec a b) end; cbn [flat concat app hd_class];
  try reflexivity; rewrite N.mod_small by lia;
  repeat match goal with |- context [?a <=? ?b] => destruct (N.leb_spec a b); try lia end; reflexivity.
Qed.

Lemma hd_class_u32 x rest : hd_class (flat (enc_u32 x) ++ rest) = true.
Proof.
  unfold enc_u32, as_u8.
  repeat match goal with |- context [if ?a <=? ?b then _ else _] => destruct (N.leb_spec a b) end; cbn [flat concat app hd_class];
  try reflexivity; rewrite N.mod_small by lia;
  repeat match goal with |- context [?a <=? ?b] => destruct (N.leb_spec a b); try lia end; reflexivity.
Qed.

Lemma len_le_length {A} (l : list A) (n : nat) : (length l <= n)%nat -> len l <= N.of_nat n.
Proof. unfold len. lia. Qed.

Lemma nonempty_len (b : bytes) : b <> [] -> 1 <= len b.
Proof. destruct b; [congruence|]. intros _. rewrite len_cons. lia. Qed.

Section DecOk.
Variable c : cfg.
Variable okty : ty -> Prop.
Hypothesis Hty : forall t, okty t -> forall v cs, encode_ty t v = Some cs ->
  flat cs <> [] /\ reads_f (decode_ty c t) (flat cs) v.

Variable recE : nat -> value -> option (list chunk).
Variable recD : nat -> nat -> M value.
Variable recV : nat -> value -> value.
Variable ntr : nat -> bool.
Hypothesis Hrec : forall d v cs, recE d v = Some cs ->
  flat cs <> [] /\ (ntr d = true -> hd_class (flat cs) = true) /\ reads_f (recD d) (flat cs) (recV d v).

(* ---- sequences ---- *)
Lemma dec_n_reads (f : value -> option (list chunk)) (d : M value) (g : value -> value) (F : nat) : forall l cs,
  enc_all f l = Some cs ->
  (forall v cv, In v l -> f v = Some cv -> flat cv <> [] /\
     forall r p L, (length (flat cv ++ r) < F)%nat -> L < two64 -> p + len (flat cv) <= L ->
       d (mkdst p (flat cv ++ r) L) = (Ok (g v), mkdst (p + len (flat cv)) r L)) ->
  len l <= len (flat cs) /\
  forall acc fuel r p L, (length (flat cs ++ r) < F)%nat -> (length (flat cs ++ r) < fuel)%nat -> L < two64 -> p + len (flat cs) <= L ->
    dec_n d (len l) fuel acc (mkdst p (flat cs ++ r) L) = (Ok (rev acc ++ map g l), mkdst (p + len (flat cs)) r L).
Proof.
  induction l as [|v l' IH]; intros cs He Hel; cbn [enc_all] in He.
  - injection He as <-. split; [apply N.le_refl|]. intros acc fuel r p L _ _ _ _. cbn [len map]. unfold dec_n.
    destruct fuel; cbn; unfold ret; rewrite app_nil_r, N.add_0_r; reflexivity.
  - apply ocat_some in He as (x & y & Hx & Hy & ->).
    destruct (Hel v x (or_introl eq_refl) Hx) as [Hne Hrd].
    destruct (IH y Hy (fun v' c' Hv => Hel v' c' (or_intror Hv))) as [Hle IHr].
    pose proof (nonempty_len _ Hne) as H1.
    split; [rewrite len_cons, len_flat_app; lia|].
    intros acc fuel r p L HF Hfuel HL Hp. rewrite flat_app, <- app_assoc in *. rewrite len_app in Hp.
    destruct fuel as [|fuel]; [lia|]. cbn [dec_n]. rewrite len_cons.
    destruct (N.eqb_spec (1 + len l') 0); [lia|].
    rewrite (bind_ok _ _ _ _ _ (Hrd (flat y ++ r) p L HF HL ltac:(lia))).
    replace (N.pred (1 + len l')) with (len l') by lia.
    assert (Hlen : (length (flat y ++ r) < length (flat x ++ flat y ++ r))%nat).
    { rewrite (app_length (flat x)). destruct (flat x); [congruence|cbn; lia]. }
    rewrite IHr; [|lia|lia|assumption|lia].
    f_equal; [f_equal; cbn [rev map]; now rewrite <- app_assoc|f_equal; rewrite len_app; lia].
Qed.

Definition hdok (f : fty) : bool := match f with FSeq _ => true | FRef d => ntr d | _ => false end.

Lemma fty_rt_hdok g : fty_rt ntr (FOpt g) = true -> hdok g = true /\ fty_rt ntr g = true.
Proof. destruct g; cbn; try discriminate; auto. Qed.

Lemma dec_fty_reads f : forall v cs, fty_all okty f -> fty_rt ntr f = true -> enc_fty recE f v = Some cs ->
  flat cs <> [] /\ (hdok f = true -> hd_class (flat cs) = true) /\ reads_f (dec_fty c recD f) (flat cs) (dflt_fty recV f v).
Proof.
  induction f as [t|d|f' IH|f' IH]; intros v cs Hall Hrt He.
  - cbn in He, Hall. destruct (Hty t Hall v cs He) as [H1 H2]. split; [assumption|]. split; [discriminate|].
    replace (dflt_fty recV (FTy t) v) with v by (destruct v; reflexivity). exact H2.
  - cbn in He. destruct (Hrec d v cs He) as (H1 & H2 & H3). split; [assumption|]. split; [exact H2|]. exact H3.
  - apply fty_rt_hdok in Hrt as [Hhd Hrt']. destruct v; cbn in He; try discriminate.
    + injection He as <-. split; [discriminate|]. split; [discriminate|].
      intros fuel r p L _ _ _. cbn [dec_fty dflt_fty]. change (flat enc_null ++ r) with (246 :: r).
      rewrite (bind_ok _ _ _ _ _ (datatype_null _ _ _)). cbn [ctype_is_null].
      rewrite (bind_ok _ _ _ _ _ (skip_null _ _ _ _)). reflexivity.
    + destruct (IH v cs Hall Hrt' He) as (H1 & H2 & H3). split; [assumption|]. split; [discriminate|].
      intros fuel r p L Hf HL Hp. cbn [dec_fty dflt_fty]. specialize (H2 Hhd).
      destruct (flat cs) as [|x t] eqn:Ec; [congruence|]. cbn [app].
      destruct (datatype_hd x (t ++ r) p L) as (ty & Hd & Hn); [destruct t; exact H2|].
      rewrite (bind_ok _ _ _ _ _ Hd), Hn. change (x :: t ++ r) with ((x :: t) ++ r).
      erewrite fmap_ok; [reflexivity|]. apply H3; assumption.
  - cbn [fty_rt] in Hrt. destruct v; cbn in He; try discriminate. apply ocat3_some in He as (y & Hy & ->).
    split; [rewrite flat_app; unfold enc_array, type_len; repeat match goal with |- context [if ?a then _ else _] => destruct a end; discriminate|].
    split; [intros _; rewrite flat_app; apply hd_class_type_len; now left|].
    destruct (dec_n_reads (enc_fty recE f') (dec_fty c recD f' 0) (dflt_fty recV f') 0 l y Hy) as [Hle _].
    { intros v cv Hv Hcv. destruct (IH v cv Hall Hrt Hcv) as (H1 & _). split; [assumption|]. intros; lia. }
    intros fuel r p L Hf HL Hp. cbn [dec_fty dflt_fty]. rewrite flat_app, <- app_assoc in *. rewrite len_app in Hp.
    assert (Hl : len l < two64) by lia.
    unfold dec_seq. erewrite fmap_ok; [reflexivity|].
    rewrite (bind_ok _ _ _ _ _ (dec_array_enc (len l) (flat y ++ r) p L Hl ltac:(lia))).
    destruct (dec_n_reads (enc_fty recE f') (dec_fty c recD f' fuel) (dflt_fty recV f') fuel l y Hy) as [_ Hrd].
    { intros v cv Hv Hcv. destruct (IH v cv Hall Hrt Hcv) as (H1 & _ & H3). split; [assumption|].
      intros r' p' L' Hf' HL' Hp'. apply H3; assumption. }
    assert (Hlen : (length (flat y ++ r) <= length (flat (enc_array (len l)) ++ flat y ++ r))%nat) by (rewrite (app_length (flat (enc_array (len l)))); lia).
    rewrite Hrd; [|lia|lia|assumption|lia]. cbn [rev app]. f_equal. f_equal. rewrite len_app. lia.
Qed.

(* ---- one field: tag check, decode function, unknown-variant arm not taken ---- *)
Definition wval (f : field) (v : value) : value :=
  match f_codec f with CoDefault => dflt_fty recV (f_ty f) v | _ => v end.

Lemma cust_reads v z : cust_encode v = Some z -> flat z <> [] /\ reads_f (fun _ => cust_decode c) (flat z) v.
Proof.
  destruct v; cbn; try discriminate. destruct (N.leb_spec n u64_max); [|discriminate]. intros [= <-].
  destruct (N.eqb_spec n 0) as [->|Hn].
  - split; [discriminate|]. intros fuel r p L _ _ _. unfold cust_decode. change (flat enc_null ++ r) with (246 :: r).
    rewrite (bind_ok _ _ _ _ _ (datatype_null _ _ _)). cbn [ctype_is_null].
    rewrite (bind_ok _ _ _ _ _ (skip_null _ _ _ _)). reflexivity.
  - assert (Hn64 : n < two64) by (unfold two64, u64_max in *; lia).
    split; [rewrite flat_enc_u64 by assumption; rewrite head_split; discriminate|].
    intros fuel r p L _ HL Hp. unfold cust_decode.
    pose proof (dec_u64_enc n r p L Hn64 Hp) as Hd. rewrite flat_enc_u64 in * by assumption.
    rewrite (bind_ok _ _ _ _ _ (datatype_uint _ _ _ _ _ (fits_min_width n Hn64))).
    replace (ctype_is_null (uint_type (min_width n))) with false by (destruct (min_width n); reflexivity).
    erewrite fmap_ok; [reflexivity|exact Hd].
Qed.

Lemma field_fn_reads d f v z : field_ok d f = true -> f_skip f = false -> fty_all okty (f_ty f) -> fty_rt ntr (f_ty f) = true ->
  enc_field_fn recE f v = Some z -> flat z <> [] /\ reads_f (dec_field_fn c recD f) (flat z) (wval f v).
Proof.
  unfold enc_field_fn, dec_field_fn, wval, field_ok. intros Hok Hs Hall Hrt He. rewrite Hs in Hok.
  destruct (f_codec f) eqn:Ec.
  - destruct (dec_fty_reads (f_ty f) v z Hall Hrt He) as (H1 & _ & H3). auto.
  - apply andb_prop in Hok as [_ Hok]. apply andb_prop in Hok as [_ Hok].
    destruct (f_ty f); try discriminate. cbn in *. now apply Hty.
  - apply cust_reads in He as [H1 H2]. auto.
Qed.

Lemma field_action_reads d f v z : field_ok d f = true -> f_skip f = false -> fty_all okty (f_ty f) -> fty_rt ntr (f_ty f) = true ->
  enc_field_fn recE f v = Some z ->
  flat z <> [] /\ reads_f (field_action c recD f) (flat (enc_tag_opt (f_tag f) ++ z)) (Some (wval f v)).
Proof.
  intros Hok Hs Hall Hrt He. destruct (field_fn_reads d f v z Hok Hs Hall Hrt He) as [Hne Hrd]. split; [assumption|].
  assert (Htag : tag_ok (f_tag f) = true).
  { unfold field_ok in Hok. rewrite Hs in Hok. apply andb_prop in Hok as [_ Hok]. apply andb_prop in Hok as [Hok _].
    apply andb_prop in Hok as [Hok _]. apply andb_prop in Hok as [_ Hok]. exact Hok. }
  intros fuel r p L Hf HL Hp. rewrite flat_app, <- app_assoc in *. rewrite len_app in Hp.
  assert (Hact : (dec_tag_check (f_tag f) ;;; try_unknown c (has_handler f) (dec_field_fn c recD f fuel))
                   (mkdst p (flat (enc_tag_opt (f_tag f)) ++ flat z ++ r) L)
                 = (Ok (Some (wval f v)), mkdst (p + len (flat (enc_tag_opt (f_tag f)) ++ flat z)) r L)).
  { assert (Hp1 : p + len (flat (enc_tag_opt (f_tag f))) <= L) by lia.
    rewrite (bind_ok _ _ _ _ _ (dec_tag_check_enc (f_tag f) (flat z ++ r) p L Htag Hp1)).
    unfold try_unknown. rewrite Hrd; [|rewrite app_length in Hf; lia|assumption|lia].
    rewrite len_app, N.add_assoc. reflexivity. }
  unfold field_action. destruct (has_tag f && has_handler f) eqn:Eg; [|exact Hact].
  (* a tagged optional field: what was written starts with the tag head, not with null *)
  apply andb_prop in Eg as [Eg _]. unfold has_tag in Eg. destruct (f_tag f) as [t|] eqn:Et; [|discriminate].
  cbn [enc_tag_opt] in *.
  pose proof (hd_class_type_len TAGGED t (flat z ++ r) (or_intror (or_intror eq_refl))) as Hhd. fold (enc_tag t) in Hhd.
  destruct (flat (enc_tag t) ++ flat z ++ r) as [|x rest] eqn:Eb; [discriminate|].
  destruct (datatype_hd x rest p L Hhd) as (ty & Hd & Hn).
  rewrite (bind_ok _ _ _ _ _ Hd), Hn. exact Hact.
Qed.

(* ---- lookup of a field by index in the sorted list ---- *)
Lemma find_field_set {B} (g : pfield -> B) x i : forall l k0 k pf, NoDup (map pf_idx l) ->
  find_field l i k0 = Some (k, pf) ->
  (k0 <= k)%nat /\ pf_idx pf = i /\ In pf l /\
  set_slot_nth (k - k0) x (map g l) = map (fun q => if pf_idx q =? i then x else g q) l.
Proof.
  induction l as [|q r IH]; intros k0 k pf Hnd; cbn [find_field map]; [discriminate|].
  cbn [map] in Hnd. apply NoDup_cons_iff in Hnd as [Hni Hnd].
  destruct (N.eqb_spec (pf_idx q) i) as [E|E].
  - intros [= <- <-]. rewrite Nat.sub_diag. unfold set_slot_nth. cbn [firstn skipn app]. repeat split; [lia|assumption|now left|].
    f_equal. apply map_ext_in. intros a Ha. destruct (N.eqb_spec (pf_idx a) i); [|reflexivity].
    exfalso. apply Hni. rewrite E, <- e. now apply in_map.
  - intro H. apply IH in H as (H1 & H2 & H3 & H4); [|assumption]. repeat split; [lia|assumption|now right|].
    replace (k - k0)%nat with (S (k - S k0)) by lia. unfold set_slot_nth in *. cbn [firstn skipn app map].
    destruct (N.eqb_spec (pf_idx q) i); [contradiction|]. f_equal. exact H4.
Qed.

Lemma find_field_none l i : forall k0, (forall q, In q l -> pf_idx q <> i) -> find_field l i k0 = None.
Proof.
  induction l as [|q r IH]; intros k0 H; cbn [find_field]; [reflexivity|].
  destruct (N.eqb_spec (pf_idx q) i) as [E|E]; [exfalso; apply (H q); [now left|exact E]|].
  apply IH. intros a Ha. apply H. now right.
Qed.

Lemma find_field_some l i : forall k0 pf, In pf l -> pf_idx pf = i -> exists k q, find_field l i k0 = Some (k, q).
Proof.
  induction l as [|q r IH]; intros k0 pf; cbn [find_field In]; [intros []|].
  intros [<-|Hin] Hi.
  - rewrite Hi, N.eqb_refl. eauto.
  - destruct (pf_idx q =? i); [eauto|]. eapply IH; eassumption.
Qed.

Lemma loop_n_S {St} (step : N -> St -> M St) i n fuel st s : n <> 0 ->
  loop_n step i n (S fuel) st s = bind (step i st) (fun st' => loop_n step (i + 1) (N.pred n) fuel st') s.
Proof. intro H. cbn [loop_n]. destruct (N.eqb_spec n 0); [contradiction|reflexivity]. Qed.
Lemma loop_n_0 {St} (step : N -> St -> M St) i fuel st s : loop_n step i 0 fuel st s = (Ok st, s).
Proof. destruct fuel; reflexivity. Qed.

Lemma flat_nulls_S k : flat (nulls (N.of_nat (S k))) = 246 :: flat (nulls (N.of_nat k)).
Proof. unfold nulls. rewrite !Nat2N.id. reflexivity. Qed.

Lemma nodup_key_eq {A} (key : A -> N) l a b : NoDup (map key l) -> In a l -> In b l -> key a = key b -> a = b.
Proof.
  induction l as [|x r IH]; cbn [map In]; [intros _ []|]. intros Hnd Ha Hb E. apply NoDup_cons_iff in Hnd as [Hni Hnd].
  destruct Ha as [<-|Ha], Hb as [<-|Hb]; [reflexivity| | |now apply IH].
  - exfalso. apply Hni. rewrite E. now apply in_map.
  - exfalso. apply Hni. rewrite <- E. now apply in_map.
Qed.

(* ---- one struct / variant body ---- *)
Section Body.
Variable d0 : nat.
Variable sf : list pfield.
Variable vs : list value.
Variable F : nat.                       (* the fuel the field decoders run with *)
Hypothesis Hasc_sf : asc pf_idx 0 sf.
Hypothesis Hfields : forall pf, In pf sf ->
  field_ok d0 (pf_fld pf) = true /\ f_skip (pf_fld pf) = false /\ fty_all okty (f_ty (pf_fld pf)) /\ fty_rt ntr (f_ty (pf_fld pf)) = true.

Definition wv (pf : pfield) : value := wval (pf_fld pf) (pf_val vs pf).
Definition slots_of (done : pfield -> bool) : slots :=
  map (fun pf => if done pf then Some (wv pf) else init_slot pf) sf.

Lemma slots_of_ext f g : (forall q, In q sf -> f q = g q) -> slots_of f = slots_of g.
Proof. intro H. apply map_ext_in. intros q Hq. now rewrite H. Qed.

Lemma step_at_field pf z done : In pf sf -> enc_field_fn recE (pf_fld pf) (pf_val vs pf) = Some z ->
  forall r p L, (length (flat (enc_tag_opt (f_tag (pf_fld pf)) ++ z) ++ r) < F)%nat -> L < two64 ->
    p + len (flat (enc_tag_opt (f_tag (pf_fld pf)) ++ z)) <= L ->
  step_at c recD sf F (pf_idx pf) (slots_of done) (mkdst p (flat (enc_tag_opt (f_tag (pf_fld pf)) ++ z) ++ r) L)
  = (Ok (slots_of (fun q => (pf_idx q =? pf_idx pf) || done q)), mkdst (p + len (flat (enc_tag_opt (f_tag (pf_fld pf)) ++ z))) r L).
Proof.
  intros Hin He r p L HF HL Hp. destruct (Hfields pf Hin) as (H1 & H2 & H3 & H4).
  destruct (field_action_reads d0 (pf_fld pf) (pf_val vs pf) z H1 H2 H3 H4 He) as [_ Hrd].
  pose proof (asc_nodup pf_idx 0 sf Hasc_sf) as Hnd.
  destruct (find_field_some sf (pf_idx pf) 0%nat pf Hin eq_refl) as (k & q & Hfind).
  unfold step_at. rewrite Hfind.
  destruct (find_field_set (fun pf0 => if done pf0 then Some (wv pf0) else init_slot pf0) (Some (wv pf)) (pf_idx pf) sf 0%nat k q Hnd Hfind) as (_ & Hqi & Hq & Hset).
  assert (q = pf) by (eapply nodup_key_eq; eassumption). subst q.
  rewrite (bind_ok _ _ _ _ _ (Hrd F r p L HF HL Hp)). unfold ret. f_equal. f_equal.
  rewrite Nat.sub_0_r in Hset. unfold slots_of, wv in *. cbn beta. rewrite Hset. apply map_ext_in. intros a Ha.
  destruct (N.eqb_spec (pf_idx a) (pf_idx pf)) as [E|E]; cbn [orb]; [|reflexivity].
  assert (a = pf) by (eapply nodup_key_eq; eassumption). now subst a.
Qed.

Lemma step_at_gap j sl r p L : (forall q, In q sf -> pf_idx q <> j) ->
  step_at c recD sf F j sl (mkdst p (246 :: r) L) = (Ok sl, mkdst (p + 1) r L).
Proof.
  intro H. unfold step_at. rewrite (find_field_none sf j 0%nat H).
  rewrite (bind_ok _ _ _ _ _ (skip_null _ _ _ _)). reflexivity.
Qed.

Lemma loop_gap : forall k p n fuelL sl r pos L,
  (forall j, p <= j -> j < p + N.of_nat k -> forall q, In q sf -> pf_idx q <> j) ->
  loop_n (step_at c recD sf F) p (N.of_nat k + n) (k + fuelL) sl (mkdst pos (flat (nulls (N.of_nat k)) ++ r) L)
  = loop_n (step_at c recD sf F) (p + N.of_nat k) n fuelL sl (mkdst (pos + N.of_nat k) r L).
Proof.
  induction k as [|k IH]; intros p n fuelL sl r pos L Hgap.
  - cbn [Nat.add N.of_nat]. change (flat (nulls 0)) with (@nil N). cbn [app]. now rewrite !N.add_0_r, N.add_0_l.
  - rewrite flat_nulls_S. cbn [app Nat.add]. rewrite loop_n_S by lia.
    rewrite (bind_ok _ _ _ _ _ (step_at_gap p sl _ pos L (Hgap p (N.le_refl p) ltac:(lia)))).
    replace (N.pred (N.of_nat (S k) + n)) with (N.of_nat k + n) by lia.
    rewrite IH; [|intros j H1 H2; apply Hgap; lia].
    f_equal; [lia|f_equal; lia].
Qed.

Lemma arr_stmts_beyond i : forall l p cs, asc pf_idx p l -> i < p -> arr_stmts recE l vs p i = Some cs -> cs = [].
Proof.
  induction l as [|pf r IH]; intros p cs Hasc Hp; cbn [arr_stmts]; [now intros [= <-]|].
  cbn [asc] in Hasc. destruct Hasc as [H1 H2]. destruct (N.leb_spec (pf_idx pf) i); [lia|].
  intro HH. apply ocat_some in HH as (x & y & [= <-] & Hy & ->). cbn [app]. eapply IH; [exact H2|lia|exact Hy].
Qed.

Lemma arr_loop i : forall l p cs,
  asc pf_idx p l -> (forall q, In q l -> In q sf) -> (forall q, In q sf -> p <= pf_idx q -> In q l) ->
  p <= i + 1 -> ((exists pf, In pf l /\ pf_idx pf = i) \/ i + 1 <= p) ->
  arr_stmts recE l vs p i = Some cs ->
  i + 1 - p <= len (flat cs) /\
  forall fuelL r pos L, (length (flat cs ++ r) < F)%nat -> (length (flat cs ++ r) < fuelL)%nat -> L < two64 -> pos + len (flat cs) <= L ->
    loop_n (step_at c recD sf F) p (i + 1 - p) fuelL (slots_of (fun q => pf_idx q <? p)) (mkdst pos (flat cs ++ r) L)
    = (Ok (slots_of (fun q => pf_idx q <? i + 1)), mkdst (pos + len (flat cs)) r L).
Proof.
  induction l as [|pf l' IH]; intros p cs Hasc Hsub Hsup Hp Hlast; cbn [arr_stmts].
  - intros [= <-]. destruct Hlast as [(q & [] & _)|Hp']. assert (p = i + 1) by lia. subst p.
    split; [change (len (flat [])) with 0; lia|]. intros fuelL r pos L _ _ _ _. rewrite N.sub_diag, loop_n_0.
    cbn [flat concat app]. change (len []) with 0. now rewrite N.add_0_r.
  - intro H. apply ocat_some in H as (x & y & Hx & Hy & ->). cbn [asc] in Hasc. destruct Hasc as [Hpp Hasc].
    assert (Hsub' : forall q, In q l' -> In q sf) by (intros; apply Hsub; now right).
    assert (Hsup' : forall q, In q sf -> pf_idx pf + 1 <= pf_idx q -> In q l').
    { intros q Hq Hqi. destruct (Hsup q Hq ltac:(lia)) as [<-|Hin]; [lia|assumption]. }
    destruct (N.leb_spec (pf_idx pf) i) as [Hi|Hi].
    + apply ocat3_some in Hx as (z & Hz & ->).
      assert (Hlast' : (exists q, In q l' /\ pf_idx q = i) \/ i + 1 <= pf_idx pf + 1).
      { destruct Hlast as [(q & [<-|Hq] & Hqi)|Hp']; [right; lia|left; eauto|right; lia]. }
      assert (Hp1 : pf_idx pf + 1 <= i + 1) by lia.
      destruct (IH (pf_idx pf + 1) y Hasc Hsub' Hsup' Hp1 Hlast' Hy) as [Hley IHl].
      assert (Hpf : In pf sf) by (apply Hsub; now left).
      destruct (Hfields pf Hpf) as (F1 & F2 & F3 & F4).
      destruct (field_action_reads d0 (pf_fld pf) (pf_val vs pf) z F1 F2 F3 F4 Hz) as [Hne _].
      pose proof (nonempty_len _ Hne) as Hz1.
      split; [rewrite !len_flat_app, len_nulls; lia|].
      intros fuelL r pos L HF Hfl HL Hpos.
      set (k := N.to_nat (pf_idx pf - p)).
      assert (Ek : pf_idx pf - p = N.of_nat k) by (unfold k; lia).
      set (TZ := enc_tag_opt (f_tag (pf_fld pf)) ++ z) in *.
      assert (Ecs : flat (((nulls (pf_idx pf - p) ++ enc_tag_opt (f_tag (pf_fld pf))) ++ z) ++ y) = flat (nulls (N.of_nat k)) ++ flat TZ ++ flat y).
      { unfold TZ. rewrite Ek, !flat_app, <- !app_assoc. reflexivity. }
      rewrite Ecs in *. clear Ecs.
      assert (Elen : length (flat (nulls (N.of_nat k))) = k).
      { apply Nat2N.inj. fold (len (flat (nulls (N.of_nat k)))). now rewrite len_nulls. }
      assert (Elen' : len (flat (nulls (N.of_nat k))) = N.of_nat k) by apply len_nulls.
      rewrite <- !app_assoc in *. rewrite !len_app, Elen' in Hpos. rewrite !app_length, Elen in HF, Hfl.
      replace (i + 1 - p) with (N.of_nat k + (1 + (i + 1 - (pf_idx pf + 1)))) by lia.
      replace fuelL with (k + (fuelL - k))%nat by lia.
      rewrite loop_gap.
      2:{ intros j H1 H2 q Hq E. assert (In q (pf :: l')) as [<-|Hql] by (apply Hsup; [assumption|lia]); [lia|].
          pose proof (asc_keys_ge pf_idx _ _ _ Hasc Hql). lia. }
      replace (p + N.of_nat k) with (pf_idx pf) by lia.
      destruct (fuelL - k)%nat as [|fuel'] eqn:Ef; [lia|].
      rewrite loop_n_S by lia.
      assert (HF1 : (length (flat TZ ++ flat y ++ r) < F)%nat) by (rewrite !app_length; lia).
      assert (Hp1' : pos + N.of_nat k + len (flat TZ) <= L) by lia.
      rewrite (bind_ok _ _ _ _ _ (step_at_field pf z _ Hpf Hz (flat y ++ r) (pos + N.of_nat k) L HF1 HL Hp1')).
      replace (N.pred (1 + (i + 1 - (pf_idx pf + 1)))) with (i + 1 - (pf_idx pf + 1)) by lia.
      rewrite (slots_of_ext _ (fun q => pf_idx q <? pf_idx pf + 1)).
      2:{ intros q Hq.
          assert (Hge : p <= pf_idx q -> pf_idx pf <= pf_idx q).
          { intro Hpq. destruct (Hsup q Hq Hpq) as [<-|Hql]; [lia|]. pose proof (asc_keys_ge pf_idx _ _ _ Hasc Hql). lia. }
          destruct (N.eqb_spec (pf_idx q) (pf_idx pf)), (N.ltb_spec (pf_idx q) p), (N.ltb_spec (pf_idx q) (pf_idx pf + 1)); cbn [orb]; try reflexivity; lia. }
      assert (HTZ : (1 <= length (flat TZ))%nat).
      { unfold TZ. rewrite flat_app, app_length. destruct (flat z); [congruence|cbn [length]; lia]. }
      unfold TZ in *. clear TZ.
      rewrite IHl; [|rewrite !app_length; lia|rewrite !app_length; lia|assumption|lia].
      f_equal. f_equal. rewrite !len_app, Elen'. lia.
    + injection Hx as <-. cbn [app].
      assert (Hp' : p = i + 1).
      { destruct Hlast as [(q & [<-|Hq] & Hqi)|Hp']; [lia| |lia]. pose proof (asc_keys_ge pf_idx _ _ _ Hasc Hq). lia. }
      subst p. assert (Hi' : i < pf_idx pf + 1) by lia.
      assert (y = []) by (apply (arr_stmts_beyond i l' (pf_idx pf + 1) y Hasc Hi' Hy)). subst y.
      split; [change (len (flat [])) with 0; lia|]. intros fuelL r pos L _ _ _ _. rewrite N.sub_diag, loop_n_0.
      cbn [flat concat app]. change (len []) with 0. now rewrite N.add_0_r.
Qed.

Lemma map_loop : forall l p cs,
  asc pf_idx p l -> (forall q, In q l -> In q sf) -> (forall q, In q sf -> p <= pf_idx q -> In q l) ->
  enc_map_stmts recE l vs = Some cs ->
  cnt vs l <= len (flat cs) /\
  forall j done fuelL r pos L, (length (flat cs ++ r) < F)%nat -> (length (flat cs ++ r) < fuelL)%nat -> L < two64 -> pos + len (flat cs) <= L ->
    loop_n (step_map c recD sf F) j (cnt vs l) fuelL (slots_of done) (mkdst pos (flat cs ++ r) L)
    = (Ok (slots_of (fun q => done q || ((p <=? pf_idx q) && negb (nilp vs q)))), mkdst (pos + len (flat cs)) r L).
Proof.
  induction l as [|pf l' IH]; intros p cs Hasc Hsub Hsup; cbn [enc_map_stmts].
  - intros [= <-]. split; [apply N.le_refl|]. intros j done fuelL r pos L _ _ _ _. change (cnt vs []) with 0. unfold cnt. cbn [filter]. change (len []) with 0. rewrite loop_n_0.
    cbn [flat concat app]. change (len []) with 0. rewrite N.add_0_r. f_equal. f_equal. apply slots_of_ext. intros q Hq.
    destruct (N.leb_spec p (pf_idx q)); [destruct (Hsup q Hq H)|]. now rewrite orb_false_r.
  - intro HH. apply ocat_some in HH as (x & y & Hx & Hy & ->). cbn [asc] in Hasc. destruct Hasc as [Hpp Hasc].
    assert (Hsub' : forall q, In q l' -> In q sf) by (intros; apply Hsub; now right).
    assert (Hsup' : forall q, In q sf -> pf_idx pf + 1 <= pf_idx q -> In q l').
    { intros q Hq Hqi. destruct (Hsup q Hq ltac:(lia)) as [<-|Hin]; [lia|assumption]. }
    destruct (IH (pf_idx pf + 1) y Hasc Hsub' Hsup' Hy) as [Hley IHl].
    assert (Hpf : In pf sf) by (apply Hsub; now left).
    assert (Hrange : forall q, In q sf -> p <= pf_idx q -> pf_idx q < pf_idx pf + 1 -> q = pf).
    { intros q Hq H1 H2. destruct (Hsup q Hq H1) as [<-|Hql]; [reflexivity|]. pose proof (asc_keys_ge pf_idx _ _ _ Hasc Hql). lia. }
    unfold cnt in *. cbn [filter]. fold (nilp vs pf) in Hx. destruct (nilp vs pf) eqn:En; cbn [negb].
    + injection Hx as <-. cbn [app]. split; [assumption|].
      intros j done fuelL r pos L HF Hfl HL Hpos. rewrite IHl by assumption. f_equal. f_equal. apply slots_of_ext. intros q Hq.
      destruct (N.leb_spec (pf_idx pf + 1) (pf_idx q)), (N.leb_spec p (pf_idx q)); cbn [andb]; try reflexivity; try lia.
      rewrite (Hrange q Hq) by lia. now rewrite En.
    + apply ocat3_some in Hx as (z & Hz & ->).
      destruct (Hfields pf Hpf) as (F1 & F2 & F3 & F4).
      destruct (field_action_reads d0 (pf_fld pf) (pf_val vs pf) z F1 F2 F3 F4 Hz) as [Hne _].
      pose proof (nonempty_len _ Hne) as Hz1.
      assert (Hidx : pf_idx pf < 4294967296).
      { unfold field_ok in F1. rewrite F2 in F1. apply andb_prop in F1 as [_ F1]. apply andb_prop in F1 as [F1 _].
        apply andb_prop in F1 as [F1 _]. apply andb_prop in F1 as [F1 _]. apply N.leb_le in F1. unfold idx_max, pf_idx in *. lia. }
      rewrite len_cons. split; [rewrite !len_flat_app; lia|].
      intros j done fuelL r pos L HF Hfl HL Hpos.
      set (TZ := enc_tag_opt (f_tag (pf_fld pf)) ++ z) in *.
      assert (Ecs : flat (((enc_u32 (pf_idx pf) ++ enc_tag_opt (f_tag (pf_fld pf))) ++ z) ++ y) = flat (enc_u32 (pf_idx pf)) ++ flat TZ ++ flat y).
      { unfold TZ. rewrite !flat_app, <- !app_assoc. reflexivity. }
      rewrite Ecs in *. clear Ecs. rewrite <- !app_assoc in *. rewrite !len_app in Hpos. rewrite !app_length in HF, Hfl.
      destruct fuelL as [|fuel']; [lia|]. rewrite loop_n_S by lia. unfold step_map at 1.
      assert (Hp1 : pos + len (flat (enc_u32 (pf_idx pf))) <= L) by lia.
      rewrite (bind_bind_ok _ _ _ _ _ _ (dec_u32_enc (pf_idx pf) (flat TZ ++ flat y ++ r) pos L Hidx Hp1)).
      assert (HF1 : (length (flat TZ ++ flat y ++ r) < F)%nat) by (rewrite !app_length; lia).
      assert (Hp2 : pos + len (flat (enc_u32 (pf_idx pf))) + len (flat TZ) <= L) by lia.
      rewrite (bind_ok _ _ _ _ _ (step_at_field pf z done Hpf Hz (flat y ++ r) _ L HF1 HL Hp2)).
      match goal with |- context [N.pred (1 + ?a)] => replace (N.pred (1 + a)) with a by lia end.
      assert (HTZ : (1 <= length (flat TZ))%nat).
      { unfold TZ. rewrite flat_app, app_length. destruct (flat z); [congruence|cbn [length]; lia]. }
      unfold TZ in *. clear TZ.
      rewrite IHl; [|rewrite !app_length; lia|rewrite !app_length; lia|assumption|lia].
      f_equal; [|f_equal; rewrite !len_app; lia]. f_equal. apply slots_of_ext. intros q Hq.
      destruct (N.eqb_spec (pf_idx q) (pf_idx pf)) as [E|E]; cbn [orb].
      * assert (q = pf) by (eapply nodup_key_eq; [apply (asc_nodup pf_idx 0 sf Hasc_sf)| | |]; assumption). subst q.
        rewrite En. cbn [negb]. destruct (N.leb_spec p (pf_idx pf)); [|lia]. now rewrite !orb_true_r.
      * f_equal. destruct (N.leb_spec (pf_idx pf + 1) (pf_idx q)), (N.leb_spec p (pf_idx q)); cbn [andb]; try reflexivity; try lia.
        exfalso. apply E. now rewrite (Hrange q Hq) by lia.
Qed.

(* ---- after the loop: every slot resolves, the value is assembled in declaration order ---- *)
Lemma nil_resolves pf : In pf sf -> nilp vs pf = true -> resolve_slot pf (init_slot pf) = Datatypes.inl (wv pf).
Proof.
  intros Hin Hn. destruct (Hfields pf Hin) as (Hok & Hs & _). unfold field_ok in Hok. rewrite Hs in Hok.
  apply andb_prop in Hok as [_ Hok]. apply andb_prop in Hok as [Hok Hc]. apply andb_prop in Hok as [_ Hsyn].
  unfold nilp, fld_is_nil, trait_is_nil, cust_is_nil, is_none in Hn. unfold resolve_slot, init_slot, nil_of, wv, wval, is_opt_fty.
  destruct (f_codec (pf_fld pf)) as [| |[|]]; destruct (f_synopt (pf_fld pf)); destruct (f_ty (pf_fld pf)) as [[]| | |];
    cbn in Hsyn, Hc; try discriminate; destruct (pf_val vs pf); try discriminate; try reflexivity;
    try (destruct w; discriminate); apply N.eqb_eq in Hn; subst; reflexivity.
Qed.

Definition hslot (done : pfield -> bool) (q : pfield) : option value := if done q then Some (wv q) else init_slot q.

Lemma slot_resolves done q : In q sf -> (done q = false -> nilp vs q = true) -> resolve_slot q (hslot done q) = Datatypes.inl (wv q).
Proof. intros Hin H. unfold hslot. destruct (done q); [reflexivity|]. apply nil_resolves; auto. Qed.

Lemma combine_map_r {A B} (h : A -> B) l : combine l (map h l) = map (fun q => (q, h q)) l.
Proof. induction l as [|x r IH]; cbn [map combine]; [reflexivity|now rewrite IH]. Qed.

Lemma first_missing_none l : (forall q sl, In (q, sl) l -> exists v, resolve_slot q sl = Datatypes.inl v) -> first_missing_slot l = None.
Proof.
  induction l as [|[q sl] r IH]; intro H; cbn [first_missing_slot]; [reflexivity|].
  destruct (H q sl (or_introl eq_refl)) as [v ->]. apply IH. intros. apply H. now right.
Qed.

Lemma lookup_pos_in (h : pfield -> option value) : forall l q, NoDup (map pf_pos l) -> In q l ->
  lookup_pos (map (fun q => (q, h q)) l) (pf_pos q) = match resolve_slot q (h q) with Datatypes.inl v => Some v | Datatypes.inr _ => None end.
Proof.
  induction l as [|x r IH]; intros q Hnd; cbn [map lookup_pos In]; [intros []|].
  cbn [map] in Hnd. apply NoDup_cons_iff in Hnd as [Hni Hnd]. intros [<-|Hin].
  - now rewrite Nat.eqb_refl.
  - destruct (Nat.eqb_spec (pf_pos x) (pf_pos q)) as [E|E]; [|now apply IH].
    exfalso. apply Hni. rewrite E. now apply in_map.
Qed.

Lemma assemble_gen filled : forall fs' vs' p0, length vs' = length fs' ->
  (forall k f, nth_error fs' k = Some f -> f_skip f = false -> lookup_pos filled (p0 + k) = Some (wval f (nth k vs' VUnit))) ->
  assemble fs' p0 filled = dflt_fields recV fs' vs'.
Proof.
  induction fs' as [|f fr IH]; intros vs' p0 Hl Hlk; destruct vs' as [|v vr]; try discriminate; cbn [assemble dflt_fields]; [reflexivity|].
  f_equal.
  - destruct (f_skip f) eqn:Es; [reflexivity|]. specialize (Hlk 0%nat f eq_refl Es). rewrite Nat.add_0_r in Hlk. rewrite Hlk.
    unfold wval. cbn [nth]. reflexivity.
  - apply IH; [cbn in Hl; lia|]. intros k g Hk Hs. specialize (Hlk (S k) g Hk Hs). replace (S p0 + k)%nat with (p0 + S k)%nat by lia. exact Hlk.
Qed.
End Body.

Lemma with_pos_pos fs : forall p, map pf_pos (with_pos fs p) = seq p (length fs).
Proof. induction fs as [|f r IH]; intro p; cbn [with_pos map length seq]; [reflexivity|]. now rewrite IH. Qed.

Lemma nodup_map_filter {A B} (f : A -> B) (g : A -> bool) l : NoDup (map f l) -> NoDup (map f (filter g l)).
Proof.
  induction l as [|x r IH]; cbn [map filter]; [auto|]. intro H. apply NoDup_cons_iff in H as [H1 H2].
  destruct (g x); [|auto]. cbn [map]. constructor; [|auto]. intro Hin. apply H1.
  apply in_map_iff in Hin as (y & Hy & Hin). apply filter_In in Hin as [Hin _]. rewrite <- Hy. now apply in_map.
Qed.

Lemma sorted_fields_pos_nodup fs : NoDup (map pf_pos (sorted_fields fs)).
Proof.
  eapply Permutation_NoDup; [apply Permutation_map; symmetry; apply sorted_fields_perm|].
  unfold active. apply nodup_map_filter. rewrite with_pos_pos. apply seq_NoDup.
Qed.

Lemma in_with_pos_nth fs : forall p k f, nth_error fs k = Some f -> In (mkpf (p + k) f) (with_pos fs p).
Proof.
  induction fs as [|g r IH]; intros p [|k] f; cbn [nth_error with_pos]; try discriminate.
  - intros [= <-]. left. now rewrite Nat.add_0_r.
  - intro H. right. replace (p + S k)%nat with (S p + k)%nat by lia. now apply IH.
Qed.

Lemma in_sorted_nth fs k f : nth_error fs k = Some f -> f_skip f = false -> In (mkpf k f) (sorted_fields fs).
Proof.
  intros H Hs. eapply Permutation_in; [symmetry; apply sorted_fields_perm|]. unfold active. apply filter_In.
  split; [apply (in_with_pos_nth fs 0 k f H)|]. cbn [pf_fld]. now rewrite Hs.
Qed.

Lemma resolve_ok d0 named fs vs done s :
  (forall pf, In pf (sorted_fields fs) ->
     field_ok d0 (pf_fld pf) = true /\ f_skip (pf_fld pf) = false /\ fty_all okty (f_ty (pf_fld pf)) /\ fty_rt ntr (f_ty (pf_fld pf)) = true) ->
  length vs = length fs ->
  (forall q, In q (sorted_fields fs) -> done q = false -> nilp vs q = true) ->
  resolve named fs (sorted_fields fs) (slots_of (sorted_fields fs) vs done) s = (Ok (dflt_fields recV fs vs), s).
Proof.
  intros Hf Hl Hdone. unfold resolve, slots_of. fold (hslot vs done). rewrite combine_map_r.
  set (filled := map (fun q => (q, hslot vs done q)) (sorted_fields fs)).
  assert (Hres : forall q sl, In (q, sl) filled -> exists v, resolve_slot q sl = Datatypes.inl v).
  { intros q sl Hin. unfold filled in Hin. apply in_map_iff in Hin as (q' & [= <- <-] & Hq).
    eexists. apply (slot_resolves d0 (sorted_fields fs) vs Hf done q' Hq (Hdone q' Hq)). }
  rewrite first_missing_none.
  2:{ destruct named; [exact Hres|]. intros q sl Hin. apply Hres. eapply Permutation_in; [apply sort_by_perm|exact Hin]. }
  unfold ret. f_equal. f_equal. apply (assemble_gen filled fs vs 0%nat Hl).
  intros k f Hk Hs. cbn [Nat.add].
  pose proof (in_sorted_nth fs k f Hk Hs) as Hin.
  change k with (pf_pos (mkpf k f)) at 1. unfold filled. rewrite (lookup_pos_in (hslot vs done) _ _ (sorted_fields_pos_nodup fs) Hin).
  rewrite (slot_resolves d0 (sorted_fields fs) vs Hf done _ Hin (Hdone _ Hin)). reflexivity.
Qed.

(* ---- a whole struct / variant body ---- *)
Definition fields_rt (fs : list field) : bool := forallb (fun f => fty_rt ntr (f_ty f)) fs.

Lemma dec_fields_reads d0 e sh fs vs cs : fields_ok d0 fs = true -> fields_all okty fs -> fields_rt fs = true ->
  enc_fields recE e fs vs = Some cs ->
  flat cs <> [] /\ hd_class (flat cs) = true /\
  reads_f (dec_body c recD e sh fs) (flat cs) (VList (dflt_fields recV fs vs)).
Proof.
  unfold enc_fields. intros Hok Hall Hrt He.
  destruct (Nat.eqb (length vs) (length fs)) eqn:El; [|discriminate]. apply Nat.eqb_eq in El.
  set (sf := sorted_fields fs) in *.
  pose proof (sorted_fields_asc d0 fs Hok) as Hasc. fold sf in Hasc.
  assert (Hf : forall pf, In pf sf -> field_ok d0 (pf_fld pf) = true /\ f_skip (pf_fld pf) = false /\ fty_all okty (f_ty (pf_fld pf)) /\ fty_rt ntr (f_ty (pf_fld pf)) = true).
  { intros pf Hpf. apply in_sorted_fields in Hpf as [Hin Hs]. unfold fields_ok in Hok. apply andb_prop in Hok as [Hok _].
    rewrite forallb_forall in Hok. unfold fields_all in Hall. rewrite Forall_forall in Hall. unfold fields_rt in Hrt. rewrite forallb_forall in Hrt. auto. }
  assert (Hinit : map init_slot sf = slots_of sf vs (fun _ => false)) by reflexivity.
  destruct e.
  - unfold enc_as_array in He. destruct (max_index sf vs None) as [i|] eqn:Em.
    + apply ocat3_some in He as (y & Hy & ->). rewrite enc_array_stmts_eq in Hy.
      split; [rewrite flat_app; unfold enc_array, type_len; repeat match goal with |- context [if ?a then _ else _] => destruct a end; discriminate|].
      split; [rewrite flat_app; apply hd_class_type_len; now left|].
      apply max_index_some in Em as [[_ ?]|(l1 & pf & l2 & Esf & Hpn & Hpi & Hl2)]; [discriminate|].
      assert (Hpf : In pf sf) by (rewrite Esf; apply in_or_app; right; now left).
      intros fuel r p L Hfu HL Hp. rewrite flat_app, <- app_assoc in *. rewrite len_app in Hp.
      destruct (arr_loop d0 sf vs fuel Hasc Hf i sf 0 y Hasc (fun q Hq => Hq) (fun q Hq _ => Hq) ltac:(lia) (or_introl (ex_intro _ pf (conj Hpf Hpi))) Hy) as [Hle Hloop].
      rewrite N.sub_0_r in *.
      assert (Hi : i + 1 < two64) by lia.
      unfold dec_body, dec_statements. fold sf.
      rewrite (bind_bind_ok _ _ _ _ _ _ (dec_array_enc (i + 1) (flat y ++ r) p L Hi ltac:(lia))). rewrite Hinit.
      rewrite (slots_of_ext sf vs (fun _ => false) (fun q => pf_idx q <? 0)) by (intros q _; symmetry; apply N.ltb_ge; lia).
      assert (Hlen : (length (flat y ++ r) <= length (flat (enc_array (i + 1)) ++ flat y ++ r))%nat) by (rewrite (app_length (flat (enc_array (i + 1)))); lia).
      assert (Hfu' : (length (flat y ++ r) < fuel)%nat) by lia.
      assert (Hp' : p + len (flat (enc_array (i + 1))) + len (flat y) <= L) by lia.
      rewrite (bind_ok _ _ _ _ _ (Hloop fuel r _ L Hfu' Hfu' HL Hp')).
      assert (Hdn : forall q, In q sf -> (pf_idx q <? i + 1) = false -> nilp vs q = true).
      { intros q Hq Hd. apply N.ltb_ge in Hd. destruct (nilp vs q) eqn:Eq; [reflexivity|]. exfalso.
        rewrite Esf in Hq. apply in_app_or in Hq as [Hq|[<-|Hq]].
        - rewrite Esf in Hasc. pose proof (asc_app_lt pf_idx 0 l1 pf l2 Hasc q Hq). lia.
        - lia.
        - rewrite forallb_forall in Hl2. specialize (Hl2 q Hq). congruence. }
      rewrite (bind_ok _ _ _ _ _ (resolve_ok d0 (is_named sh) fs vs (fun q => pf_idx q <? i + 1) _ Hf El Hdn)).
      unfold ret. f_equal. f_equal. rewrite len_app. lia.
    + injection He as <-. split; [discriminate|]. split; [reflexivity|]. apply max_index_none in Em.
      intros fuel r p L Hfu HL Hp. change (flat (enc_array 0) ++ r) with (128 :: r). unfold dec_body, dec_statements. fold sf.
      assert (Hd : dec_array (mkdst p (128 :: r) L) = (Ok (Some 0), mkdst (p + 1) r L)) by reflexivity.
      rewrite (bind_bind_ok _ _ _ _ _ _ Hd). cbv beta iota. rewrite (bind_ok _ _ _ _ _ (loop_n_0 _ _ _ _ _)). rewrite Hinit.
      assert (Hdn : forall q, In q sf -> false = false -> nilp vs q = true) by (intros q Hq _; rewrite forallb_forall in Em; now apply Em).
      rewrite (bind_ok _ _ _ _ _ (resolve_ok d0 (is_named sh) fs vs (fun _ => false) _ Hf El Hdn)). reflexivity.
  - unfold enc_as_map in He. apply ocat3_some in He as (y & Hy & ->).
    pose proof (max_fields_cnt vs sf 0) as Hm. rewrite !N.add_0_l in Hm. rewrite Hm in *.
    split; [rewrite flat_app; unfold enc_map, type_len; repeat match goal with |- context [if ?a then _ else _] => destruct a end; discriminate|].
    split; [rewrite flat_app; apply hd_class_type_len; right; now left|].
    intros fuel r p L Hfu HL Hp. rewrite flat_app, <- app_assoc in *. rewrite len_app in Hp.
    destruct (map_loop d0 sf vs fuel Hasc Hf sf 0 y Hasc (fun q Hq => Hq) (fun q Hq _ => Hq) Hy) as [Hle Hloop].
    assert (Hc : cnt vs sf < two64) by lia.
    unfold dec_body, dec_statements. fold sf.
    rewrite (bind_bind_ok _ _ _ _ _ _ (dec_map_enc (cnt vs sf) (flat y ++ r) p L Hc ltac:(lia))). rewrite Hinit.
    assert (Hlen : (length (flat y ++ r) <= length (flat (enc_map (cnt vs sf)) ++ flat y ++ r))%nat) by (rewrite (app_length (flat (enc_map (cnt vs sf)))); lia).
    assert (Hfu' : (length (flat y ++ r) < fuel)%nat) by lia.
    assert (Hp' : p + len (flat (enc_map (cnt vs sf))) + len (flat y) <= L) by lia.
    rewrite (bind_ok _ _ _ _ _ (Hloop 0 (fun _ => false) fuel r _ L Hfu' Hfu' HL Hp')).
    assert (Hdn : forall q, In q sf -> (false || ((0 <=? pf_idx q) && negb (nilp vs q))) = false -> nilp vs q = true).
    { intros q Hq Hd. cbn [orb] in Hd. destruct (N.leb_spec 0 (pf_idx q)); [|lia]. cbn [andb] in Hd. now apply negb_false_iff in Hd. }
    rewrite (bind_ok _ _ _ _ _ (resolve_ok d0 (is_named sh) fs vs (fun q => false || ((0 <=? pf_idx q) && negb (nilp vs q))) _ Hf El Hdn)).
    unfold ret. f_equal. f_equal. rewrite len_app. lia.
Qed.

(* ---- a whole definition ---- *)
Definition def_rt_local (df : def) : bool :=
  match df with
  | DStruct _ _ _ _ fs => fields_rt fs
  | DEnum _ _ _ vs => forallb (fun v => fields_rt (v_fields v)) vs
  end.
Definition def_ntr (df : def) : bool := match df with DStruct _ _ tr _ _ => negb tr | DEnum _ _ _ _ => true end.

Lemma hd_class_tagged t rest : hd_class rest = true -> hd_class (flat (enc_tag_opt t) ++ rest) = true.
Proof. destruct t; cbn [enc_tag_opt]; [intros _; apply hd_class_type_len; right; now right|auto]. Qed.

Lemma flat_tag_nonempty t rest : rest <> [] -> flat (enc_tag_opt t) ++ rest <> [].
Proof. intros H E. apply app_eq_nil in E as [_ E]. contradiction. Qed.

Lemma dec_def_reads d df v cs : def_ok d df = true -> def_all okty df -> def_rt_local df = true ->
  enc_def recE df v = Some cs ->
  flat cs <> [] /\ (def_ntr df = true -> hd_class (flat cs) = true) /\ reads_f (dec_def c recD df) (flat cs) (dflt_def recV df v).
Proof.
  destruct df as [e tag tr sh fs|e tag io vars]; intros Hok Hall Hrt He.
  - destruct v as [| | | | | | | |vs|]; try discriminate. cbn [enc_def dec_def dflt_def def_ok def_all def_rt_local def_ntr] in *.
    apply andb_prop in Hok as [Hok Htr]. apply andb_prop in Hok as [Hok _]. apply andb_prop in Hok as [Htag Hfs].
    destruct tr.
    + destruct tag; [discriminate|]. destruct fs as [|f [|? ?]]; try discriminate.
      unfold sorted_fields, active in *. cbn [with_pos filter pf_fld] in *. rewrite Htr in *. cbn [sort_by insert_by] in *.
      destruct vs as [|x [|? ?]]; try discriminate. apply negb_true_iff in Htr.
      unfold fields_ok in Hfs. apply andb_prop in Hfs as [Hfs _]. cbn [forallb] in Hfs. apply andb_prop in Hfs as [Hf _].
      unfold fields_all in Hall. apply Forall_inv in Hall. unfold fields_rt in Hrt. cbn [forallb] in Hrt. apply andb_prop in Hrt as [Hrt _].
      cbn [pf_fld] in He. change (pf_val [x] (mkpf 0 f)) with x in He.
      destruct (field_fn_reads d f x cs Hf Htr Hall Hrt He) as [Hne Hrd]. split; [assumption|]. split; [discriminate|].
      intros fuel r p L Hfu HL Hp. cbn [dec_def]. unfold sorted_fields, active. cbn [with_pos filter pf_fld]. rewrite Htr.
      cbn [negb sort_by insert_by pf_fld]. rewrite (bind_ok _ _ _ _ _ (Hrd fuel r p L Hfu HL Hp)).
      cbn [dflt_fields]. rewrite Htr. reflexivity.
    + apply ocat3_some in He as (y & Hy & ->).
      destruct (dec_fields_reads d (struct_encoding e) sh fs vs y Hfs Hall Hrt Hy) as (Hne & Hhd & Hrd).
      rewrite flat_app. split; [now apply flat_tag_nonempty|]. split; [intros _; now apply hd_class_tagged|].
      intros fuel r p L Hfu HL Hp. cbn [dec_def]. rewrite <- app_assoc in *. rewrite len_app in Hp. rewrite app_length in Hfu.
      assert (Hp1 : p + len (flat (enc_tag_opt tag)) <= L) by lia.
      rewrite (bind_ok _ _ _ _ _ (dec_tag_check_enc tag (flat y ++ r) p L Htag Hp1)).
      rewrite Hrd; [|lia|assumption|lia]. f_equal. f_equal. rewrite len_app. lia.
  - destruct v as [| | | | | | | | |i [| | | | | | | |vs|]]; try discriminate. cbn [enc_def dec_def dflt_def def_ok def_all def_rt_local def_ntr] in *.
    destruct (find_variant vars i) as [va|] eqn:Ef; [|discriminate].
    pose proof (find_variant_in _ _ _ Ef) as [Hin Hi].
    apply andb_prop in Hok as [Hok _]. apply andb_prop in Hok as [Hok Hvs]. apply andb_prop in Hok as [Htag Hio].
    rewrite forallb_forall in Hvs. specialize (Hvs va Hin).
    rewrite Forall_forall in Hall. specialize (Hall va Hin).
    rewrite forallb_forall in Hrt. specialize (Hrt va Hin).
    unfold variant_ok in Hvs. apply andb_prop in Hvs as [Hvs Hsh]. apply andb_prop in Hvs as [Hvs Hfs]. apply andb_prop in Hvs as [Hvi Hvt].
    apply N.leb_le in Hvi. rewrite Hi in Hvi. assert (Hi32 : i < 4294967296) by (unfold idx_max in Hvi; lia).
    apply ocat3_some in He as (y & Hy & ->). rewrite flat_app.
    assert (Goal1 : flat y <> [] /\ hd_class (flat y) = true /\
       reads_f (fun fuel => (if io then ret tt else r <- dec_array ;; match r with Some n => if n =? 2 then ret tt else fail Message | None => fail Message end) ;;;
                  j <- dec_u32 ;;
                  match find_variant vars j with
                  | None => fail (UnknownVariant j)
                  | Some va0 =>
                      if is_unit (v_shape va0) then
                        if io then ret (VVar j (VList []))
                        else dec_tag_check (v_tag va0) ;;; skip_auto c ;;; ret (VVar j (VList []))
                      else dec_tag_check (v_tag va0) ;;; v0 <- dec_body c recD (variant_encoding e va0) (v_shape va0) (v_fields va0) fuel ;; ret (VVar j v0)
                  end) (flat y) (VVar i (VList (dflt_fields recV (v_fields va) vs)))).
    { destruct (is_unit (v_shape va)) eqn:Eu.
      - destruct vs; [|discriminate]. destruct (v_fields va) eqn:Evf; [|discriminate]. destruct io.
        + injection Hy as <-. split; [unfold enc_u32; repeat match goal with |- context [if ?a then _ else _] => destruct a end; discriminate|].
          split; [rewrite <- (app_nil_r (flat (enc_u32 i))); apply hd_class_u32|].
          intros fuel r p L Hfu HL Hp. cbv iota. unfold bind at 1. unfold ret at 1.
          rewrite (bind_ok _ _ _ _ _ (dec_u32_enc i r p L Hi32 Hp)). rewrite Ef, Eu. reflexivity.
        + apply (f_equal (fun o => match o with Some x => x | None => [] end)) in Hy. cbv beta iota in Hy. subst y.
          split; [rewrite flat_app; unfold enc_array, type_len; repeat match goal with |- context [if ?a then _ else _] => destruct a end; discriminate|].
          split; [rewrite flat_app; apply hd_class_type_len; now left|].
          intros fuel r p L Hfu HL Hp. rewrite !flat_app, <- !app_assoc in *. rewrite !len_app in Hp.
          assert (H2 : 2 < two64) by reflexivity.
          assert (Hp1 : p + len (flat (enc_array 2)) <= L) by lia.
          rewrite (bind_bind_ok _ _ _ _ _ _ (dec_array_enc 2 _ p L H2 Hp1)). cbv beta iota. change (2 =? 2) with true. cbv iota.
          unfold bind at 1. cbn [ret].
          assert (Hp2 : p + len (flat (enc_array 2)) + len (flat (enc_u32 i)) <= L) by lia.
          rewrite (bind_ok _ _ _ _ _ (dec_u32_enc i _ _ L Hi32 Hp2)). rewrite Ef, Eu.
          assert (Hp3 : p + len (flat (enc_array 2)) + len (flat (enc_u32 i)) + len (flat (enc_tag_opt (v_tag va))) <= L) by lia.
          rewrite (bind_ok _ _ _ _ _ (dec_tag_check_enc (v_tag va) _ _ L Hvt Hp3)).
          destruct (variant_encoding e va).
          * change (flat (enc_array 0) ++ r) with (128 :: r). rewrite (bind_ok _ _ _ _ _ (skip_empty_array _ _ _ _)).
            unfold ret. f_equal. f_equal. rewrite !len_app. change (len (flat (enc_array 0))) with 1. lia.
          * change (flat (enc_map 0) ++ r) with (160 :: r). rewrite (bind_ok _ _ _ _ _ (skip_empty_map _ _ _ _)).
            unfold ret. f_equal. f_equal. rewrite !len_app. change (len (flat (enc_map 0))) with 1. lia.
      - destruct io; [discriminate|]. apply ocat3_some in Hy as (z & Hz & ->).
        destruct (dec_fields_reads d (variant_encoding e va) (v_shape va) (v_fields va) vs z Hfs Hall Hrt Hz) as (Hne & Hhd & Hrd).
        split; [rewrite flat_app; intro E; apply app_eq_nil in E as [_ E]; contradiction|].
        split; [rewrite !flat_app, <- !app_assoc; apply hd_class_type_len; now left|].
        intros fuel r p L Hfu HL Hp. rewrite !flat_app, <- !app_assoc in *. rewrite !len_app in Hp. rewrite !app_length in Hfu.
        assert (H2 : 2 < two64) by reflexivity.
        assert (Hp1 : p + len (flat (enc_array 2)) <= L) by lia.
        rewrite (bind_bind_ok _ _ _ _ _ _ (dec_array_enc 2 _ p L H2 Hp1)). cbv beta iota. change (2 =? 2) with true. cbv iota.
        unfold bind at 1. cbn [ret].
        assert (Hp2 : p + len (flat (enc_array 2)) + len (flat (enc_u32 i)) <= L) by lia.
        rewrite (bind_ok _ _ _ _ _ (dec_u32_enc i _ _ L Hi32 Hp2)). rewrite Ef, Eu.
        assert (Hp3 : p + len (flat (enc_array 2)) + len (flat (enc_u32 i)) + len (flat (enc_tag_opt (v_tag va))) <= L) by lia.
        rewrite (bind_ok _ _ _ _ _ (dec_tag_check_enc (v_tag va) _ _ L Hvt Hp3)).
        assert (Hfu' : (length (flat z ++ r) < fuel)%nat) by (rewrite app_length; lia).
        assert (Hp4 : p + len (flat (enc_array 2)) + len (flat (enc_u32 i)) + len (flat (enc_tag_opt (v_tag va))) + len (flat z) <= L) by lia.
        rewrite (bind_ok _ _ _ _ _ (Hrd fuel r _ L Hfu' HL Hp4)).
        unfold ret. f_equal. f_equal. rewrite !len_app. lia. }
    destruct Goal1 as (Hne & Hhd & Hrd).
    split; [now apply flat_tag_nonempty|]. split; [intros _; now apply hd_class_tagged|].
    intros fuel r p L Hfu HL Hp. cbn [dec_def]. rewrite <- app_assoc in *. rewrite len_app in Hp. rewrite app_length in Hfu.
    assert (Hp1 : p + len (flat (enc_tag_opt tag)) <= L) by lia.
    rewrite (bind_ok _ _ _ _ _ (dec_tag_check_enc tag (flat y ++ r) p L Htag Hp1)).
    assert (Hfu' : (length (flat y ++ r) < fuel)%nat) by lia.
    assert (Hp2 : p + len (flat (enc_tag_opt tag)) + len (flat y) <= L) by lia.
    refine (eq_trans (Hrd fuel r _ L Hfu' HL Hp2) _). f_equal. f_equal. rewrite len_app. lia.
Qed.
End DecOk.

Section Top.
Variable c : cfg.
Variable okty : ty -> Prop.
Hypothesis Hty : forall t, okty t -> forall v cs, encode_ty t v = Some cs ->
  flat cs <> [] /\ reads_f (decode_ty c t) (flat cs) v.

Lemma gen_decode_f_reads Sc : schema_ok Sc = true -> schema_all okty Sc -> schema_rt Sc = true ->
  forall k d v cs, gen_encode_f k Sc d v = Some cs ->
  flat cs <> [] /\ (non_transparent Sc d = true -> hd_class (flat cs) = true) /\
  reads_f (gen_decode_f k c Sc d) (flat cs) (default_skipped_f k Sc d v).
Proof.
  intros Hok Hall Hrt. induction k as [|k IH]; intros d v cs; cbn [gen_encode_f gen_decode_f default_skipped_f]; [discriminate|].
  unfold non_transparent. destruct (nth_error Sc d) as [df|] eqn:En; [|discriminate]. intro He.
  assert (Hrt' : def_rt_local (non_transparent Sc) df = true).
  { unfold schema_rt in Hrt. rewrite forallb_forall in Hrt. specialize (Hrt df (nth_error_In _ _ En)). exact Hrt. }
  destruct (dec_def_reads c okty Hty
              (fun d' v' => if Nat.ltb d' d then gen_encode_f k Sc d' v' else None)
              (fun d' fl => if Nat.ltb d' d then gen_decode_f k c Sc d' fl else out_of_fuel)
              (fun d' v' => if Nat.ltb d' d then default_skipped_f k Sc d' v' else v')
              (non_transparent Sc)) with (d := d) (df := df) (v := v) (cs := cs) as (H1 & H2 & H3).
  - intros d' v' cs'. destruct (Nat.ltb d' d); [apply IH|discriminate].
  - eapply schema_ok_nth; eassumption.
  - eapply schema_all_nth; eassumption.
  - exact Hrt'.
  - exact He.
  - split; [assumption|]. split; [|exact H3]. intro Hn. apply H2. destruct df; exact Hn.
Qed.

(* C09: what the derived encoder writes, the derived decoder reads back — with any suffix after it, the
   skipped fields defaulted, stopping exactly at the end of the encoding. *)
Theorem gen_roundtrip Sc d v cs rest : schema_ok Sc = true -> schema_all okty Sc -> schema_rt Sc = true ->
  gen_encode Sc d v = Some cs -> len (flat cs ++ rest) < two64 ->
  gen_decode c Sc d (start (flat cs ++ rest)) =
    (Ok (default_skipped Sc d v), mkdst (len (flat cs)) rest (len (flat cs ++ rest))).
Proof.
  intros Hok Hall Hrt He Hb. destruct (gen_decode_f_reads Sc Hok Hall Hrt (S d) d v cs He) as (_ & _ & Hrd).
  unfold gen_decode, start, fuel_of. cbn [drest].
  rewrite Hrd; [reflexivity|lia|assumption|rewrite len_app; lia].
Qed.
End Top.

(* ---- errors are reported, never papered over (C09) ---- *)
Definition def_tag (df : def) : option N := match df with DStruct _ t _ _ _ | DEnum _ t _ _ => t end.

Lemma dec_tag_check_wrong t t' r p L : t' < two64 -> t' <> t -> p + len (flat (enc_tag t')) <= L ->
  dec_tag_check (Some t) (mkdst p (flat (enc_tag t') ++ r) L) = (Err (TagMismatch t'), mkdst (p + len (flat (enc_tag t'))) r L).
Proof.
  intros H1 H2 H3. cbn [dec_tag_check]. rewrite (bind_ok _ _ _ _ _ (dec_tag_enc t' r p L H1 H3)).
  destruct (N.eqb_spec t' t); [contradiction|reflexivity].
Qed.

(* a definition that carries a tag, given an item with another tag: TagMismatch with the tag found *)
Lemma dec_def_wrong_tag c rec df t t' fuel r p L : def_tag df = Some t -> def_ntr df = true ->
  t' < two64 -> t' <> t -> p + len (flat (enc_tag t')) <= L ->
  dec_def c rec df fuel (mkdst p (flat (enc_tag t') ++ r) L) = (Err (TagMismatch t'), mkdst (p + len (flat (enc_tag t'))) r L).
Proof.
  intros Ht Hn H1 H2 H3. destruct df as [e tag tr sh fs|e tag io vars]; cbn [def_tag def_ntr] in Ht, Hn; subst tag; cbn [dec_def].
  - destruct tr; [discriminate|]. now rewrite (bind_err _ _ _ _ _ (dec_tag_check_wrong t t' r p L H1 H2 H3)).
  - now rewrite (bind_err _ _ _ _ _ (dec_tag_check_wrong t t' r p L H1 H2 H3)).
Qed.

(* … given an item without a tag (here: an array or map head): a type mismatch, not a default *)
Lemma dec_tag_untagged mt n r p L : mt = 4 \/ mt = 5 -> n < two64 ->
  dec_tag (mkdst p (Cbor.head mt (min_width n) n ++ r) L) =
    (Err (TypeMismatch (if mt =? 4 then TArray else TMap)), mkdst (p + 1) (args (min_width n) n ++ r) L).
Proof.
  intros Hmt Hn. pose proof (fits_min_width n Hn) as Hf. rewrite head_split. cbn [app]. unfold dec_tag.
  rewrite (bind_ok _ _ _ _ _ (read_cons _ _ _ _)). rewrite major_ib by assumption.
  pose proof (ai_lt _ _ Hf) as Ha. unfold mismatch, type_of, ib. set (a := ai (min_width n) n) in *. clearbody a.
  destruct Hmt as [E|E]; subst mt;
  [change (4 * 32 =? 192) with false|change (5 * 32 =? 192) with false]; cbn [negb]; change (4 =? 4) with true; change (5 =? 4) with false; cbv iota; split_cmp; reflexivity.
Qed.

Lemma dec_def_missing_tag c rec df t mt n fuel r p L : def_tag df = Some t -> def_ntr df = true -> mt = 4 \/ mt = 5 -> n < two64 ->
  dec_def c rec df fuel (mkdst p (Cbor.head mt (min_width n) n ++ r) L) =
    (Err (TypeMismatch (if mt =? 4 then TArray else TMap)), mkdst (p + 1) (args (min_width n) n ++ r) L).
Proof.
  intros Ht Hn Hmt Hn64. destruct df as [e tag tr sh fs|e tag io vars]; cbn [def_tag def_ntr] in Ht, Hn; subst tag; cbn [dec_def dec_tag_check].
  - destruct tr; [discriminate|]. now rewrite (bind_err _ _ _ _ _ (bind_err _ _ _ _ _ (dec_tag_untagged mt n r p L Hmt Hn64))).
  - now rewrite (bind_err _ _ _ _ _ (bind_err _ _ _ _ _ (dec_tag_untagged mt n r p L Hmt Hn64))).
Qed.

(* an index that is not a variant of the enum: UnknownVariant with that index, right after the index *)
Lemma dec_def_unknown_variant c rec e tag (io : bool) vars n fuel r p L : tag_ok tag = true -> n < 4294967296 -> find_variant vars n = None ->
  let pre := enc_tag_opt tag ++ (if io then (nil : list chunk) else enc_array 2) ++ enc_u32 n in
  p + len (flat pre) <= L ->
  dec_def c rec (DEnum e tag io vars) fuel (mkdst p (flat pre ++ r) L) = (Err (UnknownVariant n), mkdst (p + len (flat pre)) r L).
Proof.
  intros Htag Hn Hf pre Hp. unfold pre in *. cbn [dec_def]. rewrite !flat_app, <- !app_assoc in *. rewrite !len_app in Hp.
  assert (Hp1 : p + len (flat (enc_tag_opt tag)) <= L) by lia.
  rewrite (bind_ok _ _ _ _ _ (dec_tag_check_enc tag _ p L Htag Hp1)).
  destruct io.
  - cbn [flat concat app] in *. change (len []) with 0 in Hp. unfold bind at 1. unfold ret at 1.
    assert (Hp2 : p + len (flat (enc_tag_opt tag)) + len (flat (enc_u32 n)) <= L) by lia.
    rewrite (bind_ok _ _ _ _ _ (dec_u32_enc n r _ L Hn Hp2)). rewrite Hf. unfold fail. f_equal. f_equal. rewrite !len_app. change (len []) with 0. lia.
  - assert (H2 : 2 < two64) by reflexivity.
    assert (Hp2 : p + len (flat (enc_tag_opt tag)) + len (flat (enc_array 2)) <= L) by lia.
    rewrite (bind_bind_ok _ _ _ _ _ _ (dec_array_enc 2 _ _ L H2 Hp2)). cbv beta iota. change (2 =? 2) with true. cbv iota.
    unfold bind at 1. unfold ret at 1.
    assert (Hp3 : p + len (flat (enc_tag_opt tag)) + len (flat (enc_array 2)) + len (flat (enc_u32 n)) <= L) by lia.
    rewrite (bind_ok _ _ _ _ _ (dec_u32_enc n r _ L Hn Hp3)). rewrite Hf. unfold fail. f_equal. f_equal. rewrite !len_app. lia.
Qed.

(* a mandatory field whose slot stayed empty: MissingValue with its index — named shapes report the lowest
   index, tuple shapes the first declared *)
Lemma resolve_missing (named : bool) fs sf sl s i :
  first_missing_slot (if named then combine sf sl else sort_by by_pos (combine sf sl)) = Some i ->
  resolve named fs sf sl s = (Err (MissingValue i), s).
Proof. unfold resolve. intros ->. reflexivity. Qed.

Lemma first_missing_some l : forall pf, In (pf, None) l -> nil_of (pf_fld pf) = None -> exists i, first_missing_slot l = Some i.
Proof.
  induction l as [|[q sl] r IH]; intros pf; cbn [In first_missing_slot]; [intros []|].
  intros [[= -> ->]|Hin] Hn.
  - unfold resolve_slot. rewrite Hn. eauto.
  - destruct (resolve_slot q sl); [eapply IH; eassumption|eauto].
Qed.

(* an empty container given to a struct with a mandatory field is rejected with MissingValue *)
Lemma empty_container_missing c rec e sh fs fuel r p L pf :
  In pf (sorted_fields fs) -> f_synopt (pf_fld pf) = false -> nil_of (pf_fld pf) = None ->
  exists i, dec_body c rec e sh fs fuel (mkdst p ((match e with AsArray => 128 | AsMap => 160 end) :: r) L)
            = (Err (MissingValue i), mkdst (p + 1) r L).
Proof.
  intros Hin Hsyn Hnil. unfold dec_body, dec_statements.
  assert (Hslot : In (pf, None) (combine (sorted_fields fs) (map init_slot (sorted_fields fs)))).
  { rewrite combine_map_r. apply in_map_iff. exists pf. split; [|assumption]. unfold init_slot. now rewrite Hsyn. }
  destruct (first_missing_some (if is_named sh then combine (sorted_fields fs) (map init_slot (sorted_fields fs))
                                else sort_by by_pos (combine (sorted_fields fs) (map init_slot (sorted_fields fs)))) pf) as [i Hi].
  { destruct (is_named sh); [assumption|]. eapply Permutation_in; [symmetry; apply sort_by_perm|assumption]. }
  { assumption. }
  exists i. destruct e.
  - assert (Hd : dec_array (mkdst p (128 :: r) L) = (Ok (Some 0), mkdst (p + 1) r L)) by reflexivity.
    rewrite (bind_bind_ok _ _ _ _ _ _ Hd). cbv beta iota. rewrite (bind_ok _ _ _ _ _ (loop_n_0 _ _ _ _ _)).
    now rewrite (bind_err _ _ _ _ _ (resolve_missing _ _ _ _ _ _ Hi)).
  - assert (Hd : dec_map (mkdst p (160 :: r) L) = (Ok (Some 0), mkdst (p + 1) r L)) by reflexivity.
    rewrite (bind_bind_ok _ _ _ _ _ _ Hd). cbv beta iota. rewrite (bind_ok _ _ _ _ _ (loop_n_0 _ _ _ _ _)).
    now rewrite (bind_err _ _ _ _ _ (resolve_missing _ _ _ _ _ _ Hi)).
Qed.
