(* Proofs/TypeSemRound.v — the link between Spec/TypeSem.v (reading a tree as a type) and the encoder side
   (Spec/Denote.v, C01, C03): the bytes the matching encoder writes for a value v, read as a tree, are assigned
   exactly v by spec_ty — not an error, not another value, not "unconstrained", and never in the lenient class. *)
From MC Require Import Bytes BytesFacts Monad Cbor Utf8 Half Decoder Encoder Acc Accessors Types TypeSem Item Denote
  DecoderFacts CborFacts IntFacts AccFacts AccAgreeFacts ItemFacts TypesEnc TypesDec TypesFacts TypesItem
  TypeSemFacts TypeSemLoops TypeSemFields TypeSemAgree.
From Coq Require Import Lia.
Local Open Scope N_scope.

(* ser is injective on well-formed trees (the reference parser reads both back) *)
Lemma ser_inj e e' : wf e = true -> wf e' = true -> len (ser e) < 18446744073709551616 -> ser e = ser e' -> e = e'.
Proof.
  intros Hw Hw' H64 E.
  pose proof (parse_ser_auto e [] Hw H64) as P. pose proof (parse_ser_auto e' [] Hw' ltac:(now rewrite <- E)) as P'.
  rewrite E in P. rewrite P in P'. now injection P' as ->.
Qed.

Definition not_any {A} (s : tsem A) : Prop := match s with TsAny => False | _ => True end.

Lemma not_any_map {A B} (g : A -> B) s : not_any s -> not_any (ts_map g s).
Proof. destruct s; exact (fun H => H). Qed.
Lemma not_any_bind {A B} s (g : A -> tsem B) : not_any s -> (forall a, not_any (g a)) -> not_any (ts_bind s g).
Proof. destruct s; cbn [ts_bind not_any]; auto. Qed.

Lemma not_any_int lo hi e : not_any (ts_int lo hi e).
Proof. unfold ts_int. destruct (int_value e); [destruct (in_range lo hi z)|]; exact I. Qed.
Lemma not_any_uint m e : not_any (ts_uint m e).
Proof. apply not_any_map, not_any_int. Qed.
Lemma not_any_sint m e : not_any (ts_sint m e).
Proof. apply not_any_map, not_any_int. Qed.
Lemma not_any_nonzero s : not_any s -> not_any (ts_nonzero s).
Proof.
  intro H. apply not_any_bind; [exact H|]. intros [n|z| | | | | | | |]; try exact I; [destruct (n =? 0)|destruct (z =? 0)%Z]; exact I.
Qed.

(* the property carried through the induction: on the preferred tree of the denoted item the reading is
   constrained and the tree is outside the lenient class *)
Definition plain (t : ty) (i : item) : Prop :=
  not_any (sem_ty true t (enc_of_item i)) /\ lenient_hit t (enc_of_item i) = false.

Lemma den_all_some f l is : den_all f l = Some is -> Forall (fun i => exists v, f v = Some i) is.
Proof.
  revert is. induction l as [|v l IH]; intros is H; cbn [den_all] in H.
  - injection H as <-. constructor.
  - destruct (f v) as [i|] eqn:E; [|discriminate]. destruct (den_all f l) as [r|]; [|discriminate].
    injection H as <-. constructor; eauto.
Qed.

Lemma all_plain t is : Forall (plain t) is ->
  not_any (ts_all (sem_ty true t) (map enc_of_item is)) /\ existsb (lenient_hit t) (map enc_of_item is) = false.
Proof.
  induction 1 as [|i is [H1 H2] _ [IH1 IH2]]; cbn [map ts_all existsb]; [split; [exact I|reflexivity]|].
  split; [|now rewrite H2, IH2].
  apply not_any_bind; [exact H1|]. intro a. now apply not_any_map.
Qed.

Lemma alt_plain tk tv fk fv : (forall v i, fk v = Some i -> plain tk i) -> (forall v i, fv v = Some i -> plain tv i) ->
  forall n l is, (length l <= n)%nat -> den_alt fk fv l = Some is ->
  not_any (ts_alt (sem_ty true tk) (sem_ty true tv) (map enc_of_item is))
  /\ hit_alt (lenient_hit tk) (lenient_hit tv) (map enc_of_item is) = false.
Proof.
  intros Hk Hv. induction n as [|n IH]; intros l is Hn H.
  - destruct l; [|cbn [length] in Hn; lia]. injection H as <-. split; [exact I|reflexivity].
  - destruct l as [|k [|v l]]; cbn [den_alt] in H; try discriminate.
    + injection H as <-. split; [exact I|reflexivity].
    + destruct (fk k) as [a|] eqn:Ea; [|discriminate]. destruct (fv v) as [b|] eqn:Eb; [|discriminate].
      destruct (den_alt fk fv l) as [r|] eqn:Er; [|discriminate]. injection H as <-.
      destruct (Hk _ _ Ea) as [A1 A2]. destruct (Hv _ _ Eb) as [B1 B2].
      destruct (IH l r ltac:(cbn [length] in Hn; lia) Er) as [R1 R2].
      cbn [map ts_alt hit_alt]. split; [|now rewrite A2, B2, R2].
      apply not_any_bind; [exact A1|]. intro x. apply not_any_bind; [exact B1|]. intro y. now apply not_any_map.
Qed.

Lemma zip_plain ts : Forall (fun t => forall v i, denote t v = Some i -> plain t i) ts ->
  forall l is, den_zip (map denote ts) l = Some is ->
  length is = length ts
  /\ not_any (ts_zip (map (sem_ty true) ts) (map enc_of_item is))
  /\ not_any (ts_fields true (map (sem_ty true) ts) (map enc_of_item is))
  /\ hit_zip (map lenient_hit ts) (map enc_of_item is) = false.
Proof.
  induction 1 as [|t ts Ht _ IH]; intros l is H; cbn [map den_zip] in H.
  - destruct l; [|discriminate]. injection H as <-. repeat split; exact I.
  - destruct l as [|v l]; [discriminate|]. destruct (denote t v) as [i|] eqn:Ei; [|discriminate].
    destruct (den_zip (map denote ts) l) as [r|] eqn:Er; [|discriminate]. injection H as <-.
    destruct (Ht _ _ Ei) as [A1 A2]. destruct (IH l r Er) as (R0 & R1 & R2 & R3).
    cbn [map ts_zip ts_fields hit_zip length]. repeat split.
    + now rewrite R0.
    + apply not_any_bind; [exact A1|]. intro x. now apply not_any_map.
    + apply not_any_bind; [exact A1|]. intro x. now apply not_any_map.
    + now rewrite A2, R3.
Qed.

Lemma pair_item_some idx p i : pair_item idx p = Some i -> exists x, p = Some x /\ i = IArray [IUInt idx; x].
Proof. destruct p as [x|]; cbn [pair_item]; intro H; [injection H as <-; eauto|discriminate]. Qed.

Lemma option_map_some {A B} (g : A -> B) o b : option_map g o = Some b -> exists a, o = Some a /\ b = g a.
Proof. destruct o; cbn [option_map]; intro H; [injection H as <-; eauto|discriminate]. Qed.

Ltac dv v Hd := destruct v; cbn [denote] in Hd; try discriminate Hd.
Ltac leaf Hd := injection Hd as <-; split; [cbn [enc_of_item sem_ty]|reflexivity].

Lemma not_any_duration_k (l : list value) :
  not_any (match l with
           | [VNat s; VNat ns] =>
               if s + ns / 1000000000 <=? 18446744073709551615
               then TsVal (VList [VNat (s + ns / 1000000000); VNat (ns mod 1000000000)]) else TsErr
           | _ => TsErr
           end).
Proof.
  destruct l as [|[s| | | | | | | | |] [|[ns| | | | | | | | |] [|? ?]]]; try exact I.
  destruct (s + ns / 1000000000 <=? 18446744073709551615); exact I.
Qed.

Lemma plain_duration s ns : not_any (ts_duration true (enc_of_item (IArray [IUInt s; IUInt ns]))).
Proof.
  unfold ts_duration, ts_fields_of. cbn [enc_of_item map array_elems ts_fields ts_skip_all].
  apply not_any_bind; [|intro; apply not_any_duration_k].
  apply not_any_bind; [apply not_any_uint|]. intro a. apply not_any_map.
  apply not_any_bind; [apply not_any_uint|]. intro b. exact I.
Qed.

Lemma hit_simple t n : lenient_hit t (ESimple n) = false.
Proof. induction t using ty_ind'; cbn [lenient_hit array_elems map_elems]; try reflexivity; assumption. Qed.

Theorem denote_plain : forall t v i, denote t v = Some i -> plain t i.
Proof.
  induction t using ty_ind'; intros v i Hd.
  - dv v Hd. leaf Hd. apply not_any_uint.
  - dv v Hd. leaf Hd. apply not_any_sint.
  - dv v Hd. leaf Hd. apply not_any_map, not_any_int.
  - dv v Hd. leaf Hd. destruct b; exact I.
  - dv v Hd. leaf Hd. destruct (is_scalar n); exact I.
  - dv v Hd. leaf Hd. exact I.
  - dv v Hd. leaf Hd. exact I.
  - dv v Hd. leaf Hd. apply not_any_nonzero, not_any_uint.
  - dv v Hd. leaf Hd. apply not_any_nonzero, not_any_sint.
  - dv v Hd. leaf Hd. destruct (utf8_valid b); exact I.
  - dv v Hd. leaf Hd. exact I.
  - dv v Hd. destruct (len b =? n) eqn:E; [|discriminate]. leaf Hd. rewrite E. exact I.
  - dv v Hd. leaf Hd. destruct (strip_nul (b ++ [0])); exact I.
  - dv v Hd. leaf Hd. exact I.
  (* Option *)
  - dv v Hd.
    + injection Hd as <-. split; [exact I|]. cbn [enc_of_item lenient_hit]. apply hit_simple.
    + destruct (IHt _ _ Hd) as [A1 A2]. split; [|exact A2]. cbn [sem_ty].
      destruct (is_null_item (enc_of_item i)); [exact I|now apply not_any_map].
  (* Vec-likes, [T; N] *)
  - dv v Hd. apply option_map_some in Hd as (is & Hd & ->). apply den_all_some in Hd.
    assert (Hp: Forall (plain t) is) by (eapply Forall_impl; [|exact Hd]; intros a (w & Hw); eapply IHt, Hw).
    destruct (all_plain t is Hp) as [A1 A2]. split; cbn [enc_of_item sem_ty lenient_hit array_elems]; [now apply not_any_map|exact A2].
  - dv v Hd. destruct (len l =? n); [|discriminate]. apply option_map_some in Hd as (is & Hd & ->). apply den_all_some in Hd.
    assert (Hp: Forall (plain t) is) by (eapply Forall_impl; [|exact Hd]; intros a (w & Hw); eapply IHt, Hw).
    destruct (all_plain t is Hp) as [A1 A2]. split; cbn [enc_of_item sem_ty lenient_hit array_elems]; [|exact A2].
    apply not_any_bind; [exact A1|]. intro a. destruct (len a =? n); exact I.
  (* maps *)
  - dv v Hd. apply option_map_some in Hd as (is & Hd & ->).
    destruct (alt_plain t1 t2 (denote t1) (denote t2) IHt1 IHt2 (length l) l is (le_n _) Hd) as [A1 A2].
    split; cbn [enc_of_item sem_ty lenient_hit map_elems]; [now apply not_any_map|exact A2].
  (* tuples, decode_fields! *)
  - dv v Hd. apply option_map_some in Hd as (is & Hd & ->). destruct (zip_plain ts H l is Hd) as (R0 & R1 & R2 & R3).
    split; cbn [enc_of_item sem_ty lenient_hit def_array_elems array_elems]; [|exact R3].
    destruct (len (map enc_of_item is) =? len ts); [now apply not_any_map|exact I].
  - dv v Hd. apply option_map_some in Hd as (is & Hd & ->). destruct (zip_plain ts H l is Hd) as (R0 & R1 & R2 & R3).
    split; cbn [enc_of_item sem_ty lenient_hit array_elems]; unfold ts_fields_of; cbn [array_elems].
    + now apply not_any_map.
    + rewrite R3, orb_false_r. apply N.ltb_ge. unfold len. rewrite map_length. lia.
  (* [index, payload] *)
  - dv v Hd. rewrite nth_error_map in Hd. destruct (nth_error ts (N.to_nat idx)) as [t'|] eqn:Et; cbn [option_map] in Hd; [|discriminate].
    apply pair_item_some in Hd as (x & Hx & ->).
    rewrite Forall_forall in H. destruct (H t' (nth_error_In _ _ Et) _ _ Hx) as [A1 A2].
    split; cbn [enc_of_item map sem_ty lenient_hit def_array_elems array_elems ts_index].
    + destruct (idx <=? 4294967295); [|exact I]. destruct (idx <? len ts); [|exact I].
      rewrite nth_error_map, Et. cbn [option_map]. now apply not_any_map.
    + destruct (idx <=? 4294967295); [|reflexivity]. destruct (idx <? len ts); [|reflexivity].
      rewrite nth_error_map, Et. cbn [option_map]. exact A2.
  (* Bound *)
  - dv v Hd. destruct (N.ltb_spec idx 2) as [Hlt|Hge].
    + apply pair_item_some in Hd as (x & Hx & ->). destruct (IHt _ _ Hx) as [A1 A2].
      split; cbn [enc_of_item map sem_ty lenient_hit def_array_elems array_elems ts_index];
        (destruct (N.leb_spec idx 4294967295); [|lia]); (destruct (N.ltb_spec idx 2); [|lia]); [now apply not_any_map|exact A2].
    + destruct (N.eqb_spec idx 2) as [->|]; [|discriminate]. destruct v; try discriminate Hd. injection Hd as <-.
      split; [exact I|reflexivity].
  (* Tag: no denotation *)
  - cbn [denote] in Hd. discriminate Hd.
  (* Tagged *)
  - cbn [denote] in Hd. apply option_map_some in Hd as (x & Hx & ->). destruct (IHt _ _ Hx) as [A1 A2].
    split; cbn [enc_of_item sem_ty lenient_hit]; [rewrite N.eqb_refl; exact A1|exact A2].
  (* Duration, SystemTime *)
  - dv v Hd. destruct l as [|[s| | | | | | | | |] [|[ns| | | | | | | | |] [|? ?]]]; try discriminate Hd.
    injection Hd as <-. split; [apply plain_duration|reflexivity].
  - dv v Hd. destruct v; try discriminate Hd.
    destruct l as [|[s| | | | | | | | |] [|[ns| | | | | | | | |] [|? ?]]]; try discriminate Hd.
    destruct (idx =? 0); [|discriminate]. injection Hd as <-. split; [|reflexivity].
    cbn [sem_ty]. apply not_any_bind; [apply plain_duration|].
    intro d. destruct d; try exact I.
    destruct l as [|[s'| | | | | | | | |] [|? [|? ?]]]; try exact I. destruct (s' <=? 9223372036854775807); exact I.
Qed.

Lemma forallb_eq_Forall {A} (f g : A -> bool) l : Forall (fun x => f x = g x) l -> forallb f l = forallb g l.
Proof. induction 1 as [|x l Hx _ IH]; cbn [forallb]; [reflexivity|now rewrite Hx, IH]. Qed.

Lemma whole_no_bare : forall t, no_bare_tag t = whole_ty t.
Proof.
  induction t using ty_ind'; cbn [whole_ty no_bare_tag]; try reflexivity; try assumption;
    try (now apply forallb_eq_Forall).
  all: try (now rewrite IHt1, IHt2).
Qed.

(* ---- the encoder's bytes, read as a tree: exactly the encoded value ---- *)
Theorem types_roundtrip_spec t v cs e :
  ty_ok t = true -> rt_ok t = true -> whole_ty t = true -> encode_ty t v = Some cs ->
  flat cs = ser e -> wf e = true -> len (ser e) < 18446744073709551616 ->
  lenient_hit t e = false /\ spec_ty t e = TXOk v (len (ser e)).
Proof.
  intros Hok Hrt Hwt He Hs Hw H64.
  assert (Hnb: no_bare_tag t = true) by (now rewrite whole_no_bare).
  destruct (types_preferred t v cs Hnb He ltac:(rewrite Hs; exact H64)) as (i & Hd & Hio & Ep).
  assert (e = enc_of_item i) as ->.
  { apply ser_inj; try assumption; [now apply wf_enc_of_item|]. now rewrite <- Hs, Ep, ser_enc_of_item. }
  destruct (denote_plain t v i Hd) as [Hna Hh]. split; [exact Hh|].
  destruct (types_roundtrip_consistent_strict t v cs _ Hok Hrt Hwt Hh He Hs Hw H64) as [E|E]; [exact E|].
  exfalso. unfold spec_ty, spec_ty_at in E. rewrite Hh in E. unfold spec_ty_lenient_at in E.
  destruct (sem_ty true t (enc_of_item i)); try discriminate. exact Hna.
Qed.
