(* Proofs/SerdeAnyHeadFacts.v — the scalar and header arms of the bridge's deserialize_any (any_head) on the
   encoder's own output: datatype() on a shortest-form head, and the visit_* call that follows. *)
From MC Require Import Bytes BytesFacts Monad Cbor Utf8 Half Encoder Methods EncoderFacts Decoder DecoderFacts IntFacts
  Types Serde SerdeDoc SerdeCont SerdeFacts SerdeRtFacts.
From Coq Require Import Lia.
Local Open Scope N_scope.


Ltac type_of_range :=
  unfold type_of;
  repeat match goal with
  | |- context [if ?c then _ else _] => let E := fresh "E" in destruct c eqn:E
  end; try reflexivity; exfalso;
  repeat match goal with
  | E : (_ && _) = true |- _ => apply andb_prop in E as [? ?]
  | E : (_ && _) = false |- _ => apply andb_false_iff in E as [E|E]
  | E : (_ || _) = true |- _ => apply orb_prop in E as [E|E]
  | E : (_ <=? _) = true |- _ => apply N.leb_le in E
  | E : (_ <=? _) = false |- _ => apply N.leb_gt in E
  | E : (_ =? _) = true |- _ => apply N.eqb_eq in E
  | E : (_ =? _) = false |- _ => apply N.eqb_neq in E
  end; lia.

Lemma type_of_u8 b : b <= 24 -> type_of b = ret TU8.
Proof. intro H. type_of_range. Qed.
Lemma type_of_i8 b : 32 <= b <= 55 -> type_of b = ret TI8.
Proof. intro H. type_of_range. Qed.
Lemma type_of_bytes b : 64 <= b <= 91 -> type_of b = ret TBytes.
Proof. intro H. type_of_range. Qed.
Lemma type_of_array b : 128 <= b <= 155 -> type_of b = ret TArray.
Proof. intro H. type_of_range. Qed.
Lemma type_of_map b : 160 <= b <= 187 -> type_of b = ret TMap.
Proof. intro H. type_of_range. Qed.

Lemma datatype_first b t tl p L : type_of b = ret t -> datatype (mkdst p (b :: tl) L) = (Ok t, mkdst p (b :: tl) L).
Proof. intro H. unfold datatype. rewrite (bind_ok _ _ _ _ _ (current_cons _ _ _ _)). now rewrite H. Qed.

Lemma min_width_cases n : n < two64 ->
  (n < 24 /\ min_width n = W0) \/ (24 <= n < 256 /\ min_width n = W1) \/ (256 <= n < 65536 /\ min_width n = W2)
  \/ (65536 <= n < 4294967296 /\ min_width n = W4) \/ (4294967296 <= n /\ min_width n = W8).
Proof.
  intro H. unfold min_width.
  destruct (N.ltb_spec n 24); [left; split; [lia|reflexivity]|].
  destruct (N.ltb_spec n 256); [right; left; split; [lia|reflexivity]|].
  destruct (N.ltb_spec n 65536); [right; right; left; split; [lia|reflexivity]|].
  destruct (N.ltb_spec n 4294967296); [right; right; right; left; split; [lia|reflexivity]|].
  right; right; right; right. split; [lia|reflexivity].
Qed.

(* datatype() on a shortest-form unsigned head *)
Definition ctype_u (w : iw) : ctype := match w with B8 => TU8 | B16 => TU16 | B32 => TU32 | B64 => TU64 end.
Definition ctype_i (w : iw) : ctype := match w with B8 => TI8 | B16 => TI16 | B32 => TI32 | B64 => TI64 end.

Lemma datatype_uint n rest p L : n < two64 ->
  datatype (mkdst p (phead 0 n ++ rest) L) = (Ok (ctype_u (uw_of n)), mkdst p (phead 0 n ++ rest) L).
Proof.
  intro Hn. unfold phead, uw_of.
  destruct (min_width_cases n Hn) as [[H ->]|[[H ->]|[[H ->]|[[H ->]|[H ->]]]]]; cbn [Cbor.head app].
  - destruct (N.ltb_spec n 256); [|lia]. apply datatype_first, type_of_u8. lia.
  - destruct (N.ltb_spec n 256); [|lia]. reflexivity.
  - destruct (N.ltb_spec n 256); [lia|]. destruct (N.ltb_spec n 65536); [|lia]. reflexivity.
  - destruct (N.ltb_spec n 256); [lia|]. destruct (N.ltb_spec n 65536); [lia|].
    destruct (N.ltb_spec n 4294967296); [|lia]. reflexivity.
  - destruct (N.ltb_spec n 256); [lia|]. destruct (N.ltb_spec n 65536); [lia|].
    destruct (N.ltb_spec n 4294967296); [lia|]. reflexivity.
Qed.

Lemma div_lt_iff n d k : 0 < d -> (n / d < k <-> n < d * k).
Proof.
  intro Hd. pose proof (N.mul_div_le n d ltac:(lia)). pose proof (N.mul_succ_div_gt n d ltac:(lia)).
  set (q := n / d) in *. clearbody q. split; intro; nia.
Qed.

Lemma be_head k n : be (S k) n = (n / 2 ^ (8 * N.of_nat k)) mod 256 :: be k n.
Proof. reflexivity. Qed.

(* datatype() on a shortest-form negative head: the sign bit of the argument decides between iN and the next width *)
Lemma datatype_nint n rest p L : n < 9223372036854775808 ->
  datatype (mkdst p (phead 1 n ++ rest) L) = (Ok (ctype_i (nw_of n)), mkdst p (phead 1 n ++ rest) L).
Proof.
  intro Hn. assert (Hn2: n < two64) by (rewrite two64_eq; lia). unfold phead, nw_of.
  destruct (min_width_cases n Hn2) as [[H ->]|[[H ->]|[[H ->]|[[H ->]|[H ->]]]]]; cbn [Cbor.head app].
  - destruct (N.ltb_spec n 128); [|lia]. apply datatype_first, type_of_i8. lia.
  - change (1 * 32 + 24) with 56.
    assert (E: datatype (mkdst p (56 :: n :: rest) L) = (Ok (if n <? 128 then TI8 else TI16), mkdst p (56 :: n :: rest) L)) by reflexivity.
    rewrite E. destruct (N.ltb_spec n 128); [reflexivity|]. destruct (N.ltb_spec n 32768); [reflexivity|lia].
  - change (1 * 32 + 25) with 57. rewrite (be_head 1 n). change (2 ^ (8 * N.of_nat 1)) with 256. cbn [app].
    set (x := (n / 256) mod 256). set (tl := be 1 n ++ rest).
    assert (E: datatype (mkdst p (57 :: x :: tl) L) = (Ok (if x <? 128 then TI16 else TI32), mkdst p (57 :: x :: tl) L)) by reflexivity.
    rewrite E. assert (Hx: x = n / 256).
    { unfold x. apply N.mod_small. apply div_lt_iff; lia. }
    destruct (N.ltb_spec n 128); [lia|].
    destruct (N.ltb_spec x 128) as [Hlt|Hge]; rewrite Hx in *.
    + apply div_lt_iff in Hlt; [|lia]. destruct (N.ltb_spec n 32768); [reflexivity|lia].
    + destruct (N.ltb_spec n 32768) as [Hs|Hs].
      * exfalso. assert (n / 256 < 128) by (apply div_lt_iff; lia). lia.
      * destruct (N.ltb_spec n 2147483648); [reflexivity|lia].
  - change (1 * 32 + 26) with 58. rewrite (be_head 3 n). change (2 ^ (8 * N.of_nat 3)) with 16777216. cbn [app].
    set (x := (n / 16777216) mod 256). set (tl := be 3 n ++ rest).
    assert (E: datatype (mkdst p (58 :: x :: tl) L) = (Ok (if x <? 128 then TI32 else TI64), mkdst p (58 :: x :: tl) L)) by reflexivity.
    rewrite E. assert (Hx: x = n / 16777216).
    { unfold x. apply N.mod_small. apply div_lt_iff; lia. }
    destruct (N.ltb_spec n 128); [lia|]. destruct (N.ltb_spec n 32768); [lia|].
    destruct (N.ltb_spec x 128) as [Hlt|Hge]; rewrite Hx in *.
    + apply div_lt_iff in Hlt; [|lia]. destruct (N.ltb_spec n 2147483648); [reflexivity|lia].
    + destruct (N.ltb_spec n 2147483648) as [Hs|Hs]; [|reflexivity].
      exfalso. assert (n / 16777216 < 128) by (apply div_lt_iff; lia). lia.
  - change (1 * 32 + 27) with 59. rewrite (be_head 7 n). change (2 ^ (8 * N.of_nat 7)) with 72057594037927936. cbn [app].
    set (x := (n / 72057594037927936) mod 256). set (tl := be 7 n ++ rest).
    assert (E: datatype (mkdst p (59 :: x :: tl) L) = (Ok (if x <? 128 then TI64 else TInt), mkdst p (59 :: x :: tl) L)) by reflexivity.
    rewrite E. assert (Hx: x = n / 72057594037927936).
    { unfold x. apply N.mod_small. apply div_lt_iff; lia. }
    destruct (N.ltb_spec n 128); [lia|]. destruct (N.ltb_spec n 32768); [lia|]. destruct (N.ltb_spec n 2147483648); [lia|].
    destruct (N.ltb_spec x 128) as [Hlt|Hge]; rewrite Hx in *; [reflexivity|].
    exfalso. assert (n / 72057594037927936 < 128) by (apply div_lt_iff; lia). lia.
Qed.

Lemma uw_of_le n : n < two64 -> n <= umax (uw_of n).
Proof.
  intro H. rewrite two64_eq in H. unfold uw_of.
  destruct (N.ltb_spec n 256); [cbn; lia|]. destruct (N.ltb_spec n 65536); [cbn; lia|].
  destruct (N.ltb_spec n 4294967296); cbn; lia.
Qed.
Lemma nw_of_le n : n < 9223372036854775808 -> n <= imax (nw_of n).
Proof.
  intro H. unfold nw_of.
  destruct (N.ltb_spec n 128); [cbn; lia|]. destruct (N.ltb_spec n 32768); [cbn; lia|].
  destruct (N.ltb_spec n 2147483648); cbn; lia.
Qed.

Lemma any_uint c f n : n < two64 -> reads (any_head c f) (phead 0 n) (EvScalar (CU (uw_of n) n)).
Proof.
  intros Hn rest p L HL. unfold any_head. rewrite (bind_ok _ _ _ _ _ (datatype_uint n rest p L Hn)).
  pose proof (reads_uint (umax (uw_of n)) n (uw_of_le n Hn) Hn rest p L HL) as R.
  destruct (uw_of n); cbn [ctype_u umax] in *; unfold dec_u8, dec_u16, dec_u32, dec_u64;
    now rewrite (fmap_ok _ _ _ _ _ R).
Qed.

Lemma reads_nint max n : n <= max -> n < two64 -> reads (dec_sint max) (phead 1 n) (-1 - Z.of_N n)%Z.
Proof.
  intros Hm Hn rest p L HL. unfold phead in *.
  rewrite (dec_sint_nint max (min_width n) n rest p L (fits_mw n Hn) HL).
  destruct (N.leb_spec n max); [reflexivity|lia].
Qed.

Lemma any_nint c f n : n < 9223372036854775808 ->
  reads (any_head c f) (phead 1 n) (EvScalar (CI (nw_of n) (-1 - Z.of_N n))).
Proof.
  intros Hn rest p L HL. assert (Hn2: n < two64) by (rewrite two64_eq; lia).
  unfold any_head. rewrite (bind_ok _ _ _ _ _ (datatype_nint n rest p L Hn)).
  pose proof (reads_nint (imax (nw_of n)) n (nw_of_le n Hn) Hn2 rest p L HL) as R.
  destruct (nw_of n); cbn [ctype_i imax] in *; unfold dec_i8, dec_i16, dec_i32, dec_i64;
    now rewrite (fmap_ok _ _ _ _ _ R).
Qed.

Lemma any_int c f w z : zin w z = true -> reads (any_head c f) (flat (enc_iw w z)) (EvScalar (cont_int z)).
Proof.
  intro H. rewrite (enc_iw_doc w z H). apply zin_range in H. pose proof (imax_lt w) as Hi.
  unfold doc_int, cont_int. destruct (Z.leb_spec 0 z); cbn [prefer ser].
  - apply any_uint. rewrite two64_eq. lia.
  - set (n := Z.to_N (-1 - z)). assert (Ez: z = (-1 - Z.of_N n)%Z) by (unfold n; rewrite Z2N.id; lia).
    rewrite Ez at 1. apply any_nint. unfold n. lia.
Qed.

Lemma any_bool c f b : reads (any_head c f) (flat (enc_bool b)) (EvScalar (CBool b)).
Proof. intros rest p L HL. destruct b; reflexivity. Qed.

Lemma any_null c f : reads (any_head c f) (flat enc_null) (EvScalar CNone).
Proof.
  intros rest p L HL. change (flat enc_null) with [246]. cbn [app]. unfold any_head.
  rewrite (bind_ok _ _ _ _ _ (datatype_null rest p L)). cbv iota.
  rewrite (bind_ok _ _ _ _ _ (skip_null c rest p L)). reflexivity.
Qed.

Lemma any_f32 c f b : b < 4294967296 -> reads (any_head c f) (flat (enc_f32 b)) (EvScalar (CF32 b)).
Proof.
  intros Hb rest p L HL. pose proof (reads_f32 c b Hb rest p L HL) as R. rewrite flat_f32 in *. cbn [app] in *.
  unfold any_head.
  assert (E: datatype (mkdst p (250 :: be 4 b ++ rest) L) = (Ok TF32, mkdst p (250 :: be 4 b ++ rest) L)) by reflexivity.
  rewrite (bind_ok _ _ _ _ _ E). cbv iota. now rewrite (fmap_ok _ _ _ _ _ R).
Qed.

Lemma any_f64 c f b : b < two64 -> reads (any_head c f) (flat (enc_f64 b)) (EvScalar (CF64 b)).
Proof.
  intros Hb rest p L HL. pose proof (reads_f64 c b Hb rest p L HL) as R. rewrite flat_f64 in *. cbn [app] in *.
  unfold any_head.
  assert (E: datatype (mkdst p (251 :: be 8 b ++ rest) L) = (Ok TF64, mkdst p (251 :: be 8 b ++ rest) L)) by reflexivity.
  rewrite (bind_ok _ _ _ _ _ E). cbv iota. now rewrite (fmap_ok _ _ _ _ _ R).
Qed.

Lemma datatype_head mt n t tl p L : n < two64 -> (forall b, mt * 32 <= b <= mt * 32 + 27 -> type_of b = ret t) ->
  datatype (mkdst p (phead mt n ++ tl) L) = (Ok t, mkdst p (phead mt n ++ tl) L).
Proof.
  intros Hn Ht. rewrite phead_split. cbn [app]. apply datatype_first, Ht.
  pose proof (ai_lt _ _ (fits_mw n Hn)). unfold ib. lia.
Qed.

Lemma any_str c f b : str_ok b = true -> reads (any_head c f) (flat (enc_str b)) (EvScalar (CStr false b)).
Proof.
  intros Hb rest p L HL. pose proof (reads_str b Hb rest p L HL) as R.
  rewrite (enc_str_flat b (str_ok_len b Hb)) in *. unfold any_head. rewrite <- app_assoc in *.
  rewrite (bind_ok _ _ _ _ _ (datatype_head 3 (len b) TString _ p L (str_ok_len b Hb) ltac:(intros; apply type_of_text; lia))).
  cbv iota. now rewrite (fmap_ok _ _ _ _ _ R).
Qed.

Lemma any_bytes c f b : bytes_ok b = true -> len b < two64 ->
  reads (any_head c f) (flat (enc_bytes b)) (EvScalar (CBytes false b)).
Proof.
  intros Hb Hl rest p L HL. pose proof (reads_bytes b Hb Hl rest p L HL) as R.
  rewrite (enc_bytes_flat b Hl) in *. unfold any_head. rewrite <- app_assoc in *.
  rewrite (bind_ok _ _ _ _ _ (datatype_head 2 (len b) TBytes _ p L Hl ltac:(intros; apply type_of_bytes; lia))).
  cbv iota. now rewrite (fmap_ok _ _ _ _ _ R).
Qed.

Lemma any_array c f n : n < two64 -> reads (any_head c f) (flat (enc_array n)) (EvSeq (Some n)).
Proof.
  intros Hn rest p L HL. pose proof (reads_array n Hn rest p L HL) as R.
  rewrite (enc_array_flat n Hn) in *. unfold any_head.
  rewrite (bind_ok _ _ _ _ _ (datatype_head 4 n TArray _ p L Hn ltac:(intros; apply type_of_array; lia))).
  cbv iota. now rewrite (fmap_ok _ _ _ _ _ R).
Qed.

Lemma any_map c f n : n < two64 -> reads (any_head c f) (flat (enc_map n)) (EvMap (Some n)).
Proof.
  intros Hn rest p L HL. pose proof (reads_map n Hn rest p L HL) as R.
  rewrite (enc_map_flat n Hn) in *. unfold any_head.
  rewrite (bind_ok _ _ _ _ _ (datatype_head 5 n TMap _ p L Hn ltac:(intros; apply type_of_map; lia))).
  cbv iota. now rewrite (fmap_ok _ _ _ _ _ R).
Qed.

Lemma any_begin_array c f : reads (any_head c f) (flat enc_begin_array) (EvSeq None).
Proof. intros rest p L HL. reflexivity. Qed.
Lemma any_begin_map c f : reads (any_head c f) (flat enc_begin_map) (EvMap None).
Proof. intros rest p L HL. reflexivity. Qed.
