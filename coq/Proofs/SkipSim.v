(* Proofs/SkipSim.v — the simulation behind C06: Decoder::skip's two counters plus stack against the
   item structure of a well-formed encoding.

   Abstract state.  While skip is inside an item, the open containers form a stack of frames
   "D k" (k elements still owed to a definite array/map) and "I" (an open indefinite array/map).
   Only the sums of the D-frames between consecutive I-frames matter, so the abstract state is
       (s, r) : N * list N        s   = sum of the D-frames above the innermost I  (s_m)
                                  r   = the sums of the segments below, innermost first (s_{m-1} .. s_0)
   and a complete item changes (s, r) into (s - 1, r) (truncated: an item directly inside an
   indefinite container is absorbed), a definite header of k elements into (s - 1 + k, r), an
   indefinite header into (0, (s - 1) :: r), and a break, legal only when s = 0, pops: (s', r').
   These are not a separate machine: they are read off the tree (item_sim below).

   Concrete state (nr, ir, stk) of Model/Decoder.v and the invariant Inv that relates the two are
   defined below; notes/skip.md has the prose. *)
From MC Require Import Bytes BytesFacts Monad Cbor Utf8 Half Decoder Acc Accessors DecoderFacts IntFacts SkipItems.
From Coq Require Import Lia.
Local Open Scope N_scope.

Definition fin : skst := mksk 0 0 [].
Definition oc (r : option skst) : skst := match r with Some c => c | None => fin end.

(* segment sums of the concrete stack: (sum above the topmost None, sums below, innermost first) *)
Fixpoint segs (st : list frame) : N * list N :=
  match st with
  | [] => (0, [])
  | FSome n :: q => let (c, cs) := segs q in (n + c, cs)
  | FNone :: q => let (c, cs) := segs q in (0, c :: cs)
  end.

Definition is_some (f : frame) : Prop := match f with FSome _ => True | FNone => False end.

(* segments below the top: the concrete one never exceeds the abstract one, the outermost is exact *)
Definition rel_below (cs ss : list N) : Prop := Forall2 N.le cs ss /\ last cs 0 = last ss 0.

Inductive Inv : skst -> N -> list N -> Prop :=
| InvC n i s r :                                   (* counting mode: the stack is empty *)
    i = len r -> (r = [] -> n = s) -> (r <> [] -> n <= s /\ last r 0 = 0) ->
    Inv (mksk n i []) s r
| InvS f st s r ct cb :                            (* stack mode: both counters are zero *)
    segs (f :: st) = (ct, cb) -> rel_below cb r ->
    (r = [] -> s = ct + 1) -> (r <> [] -> is_some f -> ct + 1 <= s) ->
    Inv (mksk 0 0 (f :: st)) s r.

(* ---- facts about lists, last, segs, pop_zeros ---- *)
Lemma last_cons_ne {A} (a : A) l d : l <> [] -> last (a :: l) d = last l d.
Proof. destruct l; [congruence|reflexivity]. Qed.

Lemma Forall2_nil_l {A B} (R : A -> B -> Prop) l : Forall2 R [] l -> l = [].
Proof. inversion 1. reflexivity. Qed.
Lemma Forall2_nil_r {A B} (R : A -> B -> Prop) l : Forall2 R l [] -> l = [].
Proof. inversion 1. reflexivity. Qed.

Lemma segs_pop_zeros st : segs (pop_zeros st) = segs st.
Proof.
  induction st as [|[n|] q IH]; cbn [pop_zeros]; try reflexivity.
  destruct (N.eqb_spec n 0) as [->|]; [|reflexivity].
  rewrite IH. cbn [segs]. destruct (segs q) as [c cs]. rewrite N.add_0_l. reflexivity.
Qed.

Lemma pop_zeros_nonzero st n q : pop_zeros st = FSome n :: q -> n <> 0.
Proof.
  induction st as [|[k|] st IH]; cbn [pop_zeros]; try discriminate.
  destruct (N.eqb_spec k 0); [exact IH|]. intros [= -> _]. assumption.
Qed.

Lemma pop_zeros_head_some f st n q : pop_zeros (f :: st) = FSome n :: q -> is_some f.
Proof. destruct f; cbn [pop_zeros is_some]; [auto|discriminate]. Qed.

Lemma segs_repeat_none k st : segs (repeat FNone k ++ st) = (match k with O => fst (segs st) | S _ => 0 end,
                                                              match k with O => snd (segs st)
                                                              | S k' => repeat 0 k' ++ fst (segs st) :: snd (segs st) end).
Proof.
  induction k as [|k IH]; cbn [repeat app segs].
  - destruct (segs st); reflexivity.
  - rewrite IH. destruct k; cbn [repeat app]; destruct (segs st); reflexivity.
Qed.

Lemma Forall2_repeat0 r : Forall2 N.le (repeat 0 (length r)) r.
Proof. induction r; cbn [length repeat]; constructor; [lia|assumption]. Qed.

Lemma last_repeat0 k : last (repeat 0 k) 0 = 0.
Proof. induction k as [|k IH]; [reflexivity|]. cbn [repeat]. destruct k; [reflexivity|]. rewrite last_cons_ne by discriminate. exact IH. Qed.

Lemma to_nat_len {A} (l : list A) : N.to_nat (len l) = length l.
Proof. unfold len. apply Nnat.Nat2N.id. Qed.

(* ---- the loop is running exactly while the abstract state is not (0, []) ---- *)
Lemma inv_running c s r : Inv c s r -> ~ (s = 0 /\ r = []) -> skip_running c = true.
Proof.
  intros H Hn. destruct H as [n i s r Hi H0 H1|f st s r ct cb Hs Hb H0 H1]; unfold skip_running; cbn [nr ir stk].
  - destruct r as [|s1 r1].
    + specialize (H0 eq_refl). subst n. destruct (N.eqb_spec s 0); [exfalso; auto|reflexivity].
    + rewrite len_cons in Hi. destruct (N.eqb_spec i 0); [lia|]. now rewrite andb_false_r.
  - now rewrite andb_false_r.
Qed.

Lemma inv_counting n i s r : Inv (mksk n i []) s r -> ~ (s = 0 /\ r = []) -> counting (mksk n i []) = true.
Proof.
  intros H Hn. apply inv_running in H; [|exact Hn]. unfold skip_running, counting in *. cbn [nr ir stk] in *.
  now rewrite andb_true_r in H.
Qed.

Lemma inv_done c : Inv c 0 [] -> c = fin.
Proof.
  inversion 1 as [n i s r Hi H0 H1|f st s r ct cb Hs Hb H0 H1]; subst.
  - rewrite (H0 eq_refl). reflexivity.
  - specialize (H0 eq_refl). lia.
Qed.

(* ---- preservation, one lemma per token class ---- *)

(* a complete scalar or string *)
Lemma inv_item c s r : Inv c s r -> ~ (s = 0 /\ r = []) -> Inv (oc (skip_after c)) (s - 1) r.
Proof.
  intros H Hn. pose proof H as H'.
  destruct H as [n i s r Hi H0 H1|f st s r ct cb Hs Hb H0 H1].
  - unfold skip_after. rewrite (inv_counting _ _ _ _ H' Hn). cbn [oc nr ir stk].
    constructor; [exact Hi| |].
    + intro E. rewrite (H0 E). reflexivity.
    + intro E. destruct (H1 E). split; [lia|assumption].
  - unfold skip_after, counting. cbn [nr ir stk]. change ((0 =? 0) && (0 =? 0)) with true. cbn [negb].
    pose proof (segs_pop_zeros (f :: st)) as Hz. rewrite Hs in Hz.
    destruct (pop_zeros (f :: st)) as [|[n|] q] eqn:Ep; cbn [oc].
    + cbn [segs] in Hz. injection Hz as <- <-. destruct Hb as [Hb _]. apply Forall2_nil_l in Hb. subst r.
      rewrite (H0 eq_refl). change (0 + 1 - 1) with 0. constructor; [reflexivity|reflexivity|congruence].
    + pose proof (pop_zeros_nonzero _ _ _ Ep) as Hnz. pose proof (pop_zeros_head_some _ _ _ _ Ep) as Hf.
      cbn [segs] in Hz. destruct (segs q) as [c' cs'] eqn:Eq. injection Hz as <- <-.
      econstructor; [cbn [segs]; rewrite Eq; reflexivity|exact Hb| |].
      * intro E. rewrite (H0 E). lia.
      * intros E _. specialize (H1 E Hf). lia.
    + cbn [segs] in Hz. destruct (segs q) as [c' cs'] eqn:Eq. injection Hz as <- <-.
      econstructor; [cbn [segs]; rewrite Eq; reflexivity|exact Hb| |].
      * intro E. subst r. destruct Hb as [Hb _]. inversion Hb.
      * intros _ [].
Qed.

Lemma sat_add_small a b : a + b <= u64_max -> sat_add a b = a + b.
Proof. intro H. unfold sat_add. apply N.min_r. exact H. Qed.
Lemma sat_mul_small a b : a * b <= u64_max -> sat_mul a b = a * b.
Proof. intro H. unfold sat_mul. apply N.min_r. exact H. Qed.

(* the header of a definite array / map of k elements *)
Lemma inv_definite c s r k : Inv c s r -> ~ (s = 0 /\ r = []) -> s + k <= u64_max ->
  Inv (oc (skip_after (skip_definite c k))) (s - 1 + k) r.
Proof.
  intros H Hn Hk. unfold skip_definite. destruct (N.eqb_spec k 0) as [->|Hk0].
  { rewrite N.add_0_r. now apply inv_item. }
  pose proof H as H'.
  destruct H as [n i s r Hi H0 H1|f st s r ct cb Hs Hb H0 H1].
  - rewrite (inv_counting _ _ _ _ H' Hn). cbn [nr ir stk].
    assert (Hns: n <= s). { destruct r; [rewrite H0 by reflexivity; lia|]. apply H1. discriminate. }
    rewrite sat_add_small by lia.
    unfold skip_after, counting. cbn [nr ir stk]. destruct (N.eqb_spec (n + k) 0); [lia|]. cbn [andb negb oc].
    constructor; [exact Hi| |].
    + intro E. specialize (H0 E). subst n. assert (s <> 0) by (intro; apply Hn; auto). lia.
    + intro E. destruct (H1 E). split; [lia|assumption].
  - unfold counting. cbn [nr ir stk]. change ((0 =? 0) && (0 =? 0)) with true. cbn [negb].
    unfold skip_after, counting. cbn [nr ir stk]. change ((0 =? 0) && (0 =? 0)) with true. cbn [negb pop_zeros].
    destruct (N.eqb_spec k 0); [contradiction|]. cbn [oc].
    econstructor; [cbn [segs] in *; rewrite Hs; reflexivity|exact Hb| |].
    + intro E. rewrite (H0 E). lia.
    + intros E _. destruct f as [m|].
      * specialize (H1 E I). lia.
      * cbn [segs] in Hs. destruct (segs st). injection Hs as <- _. lia.
Qed.

(* the header of an indefinite array / map *)
Lemma inv_indefinite c s r : Inv c s r -> ~ (s = 0 /\ r = []) -> len r + 1 <= u64_max ->
  Inv (oc (skip_after (skip_indefinite c))) 0 ((s - 1) :: r).
Proof.
  intros H Hn Hk. unfold skip_indefinite. pose proof H as H'.
  destruct H as [n i s r Hi H0 H1|f st s r ct cb Hs Hb H0 H1].
  - rewrite (inv_counting _ _ _ _ H' Hn). cbn [negb nr ir stk].
    assert (Hns: n <= s). { destruct r; [rewrite H0 by reflexivity; lia|]. apply H1. discriminate. }
    destruct (N.ltb_spec n 2) as [Hn2|Hn2].
    + rewrite sat_add_small by lia.
      unfold skip_after, counting. cbn [nr ir stk]. destruct (N.eqb_spec (i + 1) 0); [lia|].
      rewrite andb_false_r. cbn [negb oc].
      constructor.
      * rewrite len_cons. lia.
      * discriminate.
      * intros _. split; [lia|]. destruct r as [|s1 r1].
        -- cbn [last]. rewrite <- (H0 eq_refl). lia.
        -- rewrite last_cons_ne by discriminate. apply H1. discriminate.
    + unfold skip_after, counting. cbn [nr ir stk]. change ((0 =? 0) && (0 =? 0)) with true. cbn [negb pop_zeros oc].
      subst i. rewrite to_nat_len, app_nil_r.
      econstructor.
      * cbn [segs]. rewrite <- (app_nil_r (repeat FNone (length r))), segs_repeat_none. cbn [segs fst snd]. reflexivity.
      * destruct r as [|s1 r1].
        -- cbn [length]. rewrite (H0 eq_refl). split; [constructor; [lia|constructor]|]. cbn [last]. lia.
        -- destruct (H1 ltac:(discriminate)) as [_ Hl]. cbn [length]. split.
           ++ constructor; [lia|]. replace (repeat 0 (length r1) ++ [0]) with (repeat 0 (length (s1 :: r1))).
              ** apply Forall2_repeat0.
              ** cbn [length]. clear. induction (length r1) as [|k IH]; [reflexivity|]. cbn [repeat app] in *. now rewrite <- IH.
           ++ rewrite last_cons_ne by (destruct (length r1); discriminate).
              rewrite last_cons_ne by discriminate. rewrite last_last. symmetry. exact Hl.
      * discriminate.
      * intros _ [].
  - unfold counting. cbn [nr ir stk]. change ((0 =? 0) && (0 =? 0)) with true. cbn [negb].
    unfold skip_after, counting. cbn [nr ir stk]. change ((0 =? 0) && (0 =? 0)) with true. cbn [negb pop_zeros oc].
    econstructor.
    + cbn [segs] in *. rewrite Hs. reflexivity.
    + destruct Hb as [Hb Hl]. split.
      * constructor; [|exact Hb]. destruct r as [|s1 r1]; [rewrite (H0 eq_refl); lia|].
        destruct f as [m|]; [specialize (H1 ltac:(discriminate) I); lia|].
        cbn [segs] in Hs. destruct (segs st). injection Hs as <- _. lia.
      * destruct r as [|s1 r1].
        -- apply Forall2_nil_r in Hb. subst cb. cbn [last]. rewrite (H0 eq_refl). lia.
        -- inversion Hb; subst. rewrite !last_cons_ne by discriminate. exact Hl.
    + discriminate.
    + intros _ [].
Qed.

(* a break, legal only when nothing is owed in the innermost segment *)
Lemma inv_break c s' r' : Inv c 0 (s' :: r') -> Inv (oc (skip_after (skip_break c))) s' r'.
Proof.
  intro H. inversion H as [n i s r Hi H0 H1|f st s r ct cb Hs Hb H0 H1]; subst.
  - destruct (H1 ltac:(discriminate)) as [Hn Hl]. assert (n = 0) as -> by lia.
    rewrite len_cons in *.
    assert (E: oc (skip_after (skip_break (mksk 0 (1 + len r') []))) = mksk 0 (len r') []).
    { unfold skip_break, counting. cbn [nr ir stk]. destruct (N.eqb_spec (1 + len r') 0); [lia|].
      rewrite andb_false_r. cbn [negb]. replace (1 + len r' - 1) with (len r') by lia.
      unfold skip_after, counting. cbn [nr ir stk]. change (0 =? 0) with true. cbn [andb].
      destruct (N.eqb_spec (len r') 0) as [->|]; reflexivity. }
    rewrite E. constructor; [reflexivity| |].
    + intros ->. cbn [last] in Hl. congruence.
    + intro E'. split; [lia|]. rewrite last_cons_ne in Hl by exact E'. exact Hl.
  - destruct f as [m|]; [specialize (H1 ltac:(discriminate) I); lia|].
    unfold skip_break, counting. cbn [nr ir stk]. change ((0 =? 0) && (0 =? 0)) with true. cbn [negb].
    cbn [segs] in Hs. destruct (segs st) as [c1 cs1] eqn:Est. injection Hs as <- <-.
    destruct Hb as [Hb Hl]. inversion Hb as [|? ? ? ? Hc1 Hb']; subst.
    unfold skip_after, counting. cbn [nr ir stk]. change ((0 =? 0) && (0 =? 0)) with true. cbn [negb].
    pose proof (segs_pop_zeros st) as Hz. rewrite Est in Hz.
    destruct (pop_zeros st) as [|[n|] q] eqn:Ep; cbn [oc].
    + cbn [segs] in Hz. injection Hz as <- <-. apply Forall2_nil_l in Hb'. subst r'.
      cbn [last] in Hl. subst s'. constructor; [reflexivity|reflexivity|congruence].
    + pose proof (pop_zeros_nonzero _ _ _ Ep) as Hnz.
      cbn [segs] in Hz. destruct (segs q) as [c' cs'] eqn:Eq. injection Hz as <- <-.
      econstructor; [cbn [segs]; rewrite Eq; reflexivity| | |].
      * split; [exact Hb'|]. destruct r' as [|s1 r1].
        -- apply Forall2_nil_r in Hb'. now subst cs'.
        -- inversion Hb'; subst. rewrite !last_cons_ne in Hl by discriminate. exact Hl.
      * intros ->. apply Forall2_nil_r in Hb'. subst cs'. cbn [last] in Hl. lia.
      * intros _ _. lia.
    + cbn [segs] in Hz. destruct (segs q) as [c' cs'] eqn:Eq. injection Hz as <- <-.
      econstructor; [cbn [segs]; rewrite Eq; reflexivity| | |].
      * split; [exact Hb'|]. inversion Hb'; subst. rewrite !last_cons_ne in Hl by discriminate. exact Hl.
      * intros ->. inversion Hb'.
      * intros _ [].
Qed.

(* ---- induction over encoding trees ---- *)
Section enc_tree_ind.
  Variable P : enc -> Prop.
  Hypothesis HUInt : forall w n, P (EUInt w n).
  Hypothesis HNInt : forall w n, P (ENInt w n).
  Hypothesis HBytes : forall w b, P (EBytes w b).
  Hypothesis HBytesI : forall cs, P (EBytesI cs).
  Hypothesis HText : forall w b, P (EText w b).
  Hypothesis HTextI : forall cs, P (ETextI cs).
  Hypothesis HArray : forall w es, Forall P es -> P (EArray w es).
  Hypothesis HArrayI : forall es, Forall P es -> P (EArrayI es).
  Hypothesis HMap : forall w es, Forall P es -> P (EMap w es).
  Hypothesis HMapI : forall es, Forall P es -> P (EMapI es).
  Hypothesis HTag : forall w t e, P e -> P (ETag w t e).
  Hypothesis HSimple : forall n, P (ESimple n).
  Hypothesis HF16 : forall b, P (EF16 b).
  Hypothesis HF32 : forall b, P (EF32 b).
  Hypothesis HF64 : forall b, P (EF64 b).
  Fixpoint enc_tree_ind (e : enc) : P e :=
    let go := fix go (l : list enc) : Forall P l :=
      match l with [] => Forall_nil _ | x :: l' => Forall_cons _ (enc_tree_ind x) (go l') end in
    match e with
    | EUInt w n => HUInt w n | ENInt w n => HNInt w n
    | EBytes w b => HBytes w b | EBytesI cs => HBytesI cs
    | EText w b => HText w b | ETextI cs => HTextI cs
    | EArray w es => HArray w es (go es) | EArrayI es => HArrayI es (go es)
    | EMap w es => HMap w es (go es) | EMapI es => HMapI es (go es)
    | ETag w t e => HTag w t e (enc_tree_ind e)
    | ESimple n => HSimple n | EF16 b => HF16 b | EF32 b => HF32 b | EF64 b => HF64 b
    end.
End enc_tree_ind.

(* ---- loop iterations an item needs (a fuel bound; a chunked string is one iteration whose inner
   loop needs one unit per chunk plus one) ---- *)
Fixpoint steps (e : enc) : nat :=
  match e with
  | EBytesI cs | ETextI cs => S (length cs)
  | EArray _ es | EMap _ es => S (fold_right (fun e a => steps e + a)%nat 0%nat es)
  | EArrayI es | EMapI es => S (S (fold_right (fun e a => steps e + a)%nat 0%nat es))
  | ETag _ _ e => S (steps e)
  | _ => 1%nat
  end.
Definition lsteps (es : list enc) : nat := fold_right (fun e a => steps e + a)%nat 0%nat es.

Lemma ser_len_pos e : (1 <= length (ser e))%nat.
Proof.
  destruct e; cbn [ser]; rewrite ?app_length; try (rewrite head_split); cbn [length]; try lia.
  destruct (n <? 24); cbn [length]; lia.
Qed.

Lemma flat_len_ge es : (length es <= length (flat_map ser es))%nat.
Proof. induction es as [|e es IH]; cbn [flat_map length]; [lia|]. rewrite app_length. pose proof (ser_len_pos e). lia. Qed.

Lemma flat_len_geN es : len es <= len (flat_map ser es).
Proof. unfold len. pose proof (flat_len_ge es). lia. Qed.

Lemma chunks_len_ge mt cs : (length cs <= length (flat_map (ser_chunk mt) cs))%nat.
Proof.
  induction cs as [|c cs IH]; cbn [flat_map length]; [lia|]. rewrite app_length. unfold ser_chunk at 1.
  rewrite app_length, head_split. cbn [length]. lia.
Qed.

Lemma steps_le_len e : (steps e <= length (ser e))%nat.
Proof.
  induction e using enc_tree_ind; try apply ser_len_pos; cbn [steps ser];
  try (cbn [length]; rewrite app_length; cbn [length]; pose proof (chunks_len_ge 2 cs); pose proof (chunks_len_ge 3 cs); lia).
  - rewrite app_length, head_split. cbn [length].
    enough ((fold_right (fun e a => steps e + a) 0 es <= length (flat_map ser es))%nat) by lia.
    induction H as [|e es He _ IH]; cbn [fold_right flat_map]; [lia|]. rewrite app_length. lia.
  - cbn [length]. rewrite app_length. cbn [length].
    enough ((fold_right (fun e a => steps e + a) 0 es <= length (flat_map ser es))%nat) by lia.
    induction H as [|e es He _ IH]; cbn [fold_right flat_map]; [lia|]. rewrite app_length. lia.
  - rewrite app_length, head_split. cbn [length].
    enough ((fold_right (fun e a => steps e + a) 0 es <= length (flat_map ser es))%nat) by lia.
    induction H as [|e es He _ IH]; cbn [fold_right flat_map]; [lia|]. rewrite app_length. lia.
  - cbn [length]. rewrite app_length. cbn [length].
    enough ((fold_right (fun e a => steps e + a) 0 es <= length (flat_map ser es))%nat) by lia.
    induction H as [|e es He _ IH]; cbn [fold_right flat_map]; [lia|]. rewrite app_length. lia.
  - rewrite app_length, head_split. cbn [length]. lia.
Qed.

(* ---- the loop ---- *)
Lemma loop_fin f st : skip_loop f fin st = (Ok tt, st).
Proof. destruct f; reflexivity. Qed.

Lemma loop_step f c st r st' : skip_running c = true -> skip_step (S f) c st = (Ok r, st') ->
  skip_loop (S f) c st = skip_loop f (oc r) st'.
Proof.
  intros Hr H. cbn [skip_loop]. rewrite Hr. unfold bind. rewrite H.
  destruct r; [reflexivity|]. cbn [oc]. now rewrite loop_fin.
Qed.

Lemma loop_tok f bs g c p L rest : tok_ok (S f) bs g -> skip_running c = true -> p + len bs <= L ->
  skip_loop (S f) c (mkdst p (bs ++ rest) L) = skip_loop f (oc (g c)) (mkdst (p + len bs) rest L).
Proof. intros Ht Hr HL. apply loop_step; [exact Hr|]. apply Ht. exact HL. Qed.

Lemma loop_eoi f c st : skip_running c = true -> eoi (skip_step (S f) c st) -> eoi (skip_loop (S f) c st).
Proof. intros Hr H. cbn [skip_loop]. rewrite Hr. now apply bind_eoi. Qed.

(* ---- the simulation, item by item ---- *)
Definition item_sim (e : enc) : Prop := forall c s r K f rest p L,
  Inv c s r -> ~ (s = 0 /\ r = []) -> s - 1 <= K -> K + len r + len (ser e) <= u64_max -> p + len (ser e) <= L ->
  exists c' f', (f <= f')%nat /\ Inv c' (s - 1) r /\
    skip_loop (steps e + f) c (mkdst p (ser e ++ rest) L) = skip_loop f' c' (mkdst (p + len (ser e)) rest L).

Definition items_sim (es : list enc) : Prop := forall c s r K f rest p L,
  Inv c s r -> (r <> [] \/ len es <= s) -> s - len es <= K -> K + len r + len (flat_map ser es) <= u64_max ->
  p + len (flat_map ser es) <= L ->
  exists c' f', (f <= f')%nat /\ Inv c' (s - len es) r /\
    skip_loop (lsteps es + f) c (mkdst p (flat_map ser es ++ rest) L)
    = skip_loop f' c' (mkdst (p + len (flat_map ser es)) rest L).

Lemma items_of_item es : Forall item_sim es -> items_sim es.
Proof.
  induction 1 as [|e es He _ IH]; intros c s r K f rest p L HI Hrun HK Hmax HL.
  - exists c, f. split; [lia|]. split.
    + change (len (@nil enc)) with 0. now rewrite N.sub_0_r.
    + cbn [flat_map lsteps fold_right app]. change (len (@nil N)) with 0. now rewrite N.add_0_r.
  - cbn [flat_map] in *. rewrite len_app in *. rewrite len_cons in *. pose proof (flat_len_geN es) as Hge.
    assert (Hrun1: ~ (s = 0 /\ r = [])). { intros [-> ->]. destruct Hrun; [congruence|lia]. }
    destruct (He c s r (K + len (flat_map ser es)) (lsteps es + f)%nat (flat_map ser es ++ rest) p L HI Hrun1
                 ltac:(lia) ltac:(lia) ltac:(lia)) as (c1 & f1 & Hf1 & HI1 & E1).
    destruct (IH c1 (s - 1) r K (f1 - lsteps es)%nat rest (p + len (ser e)) L HI1
                 ltac:(destruct Hrun; [left; assumption|right; lia]) ltac:(lia) ltac:(lia) ltac:(lia))
      as (c2 & f2 & Hf2 & HI2 & E2).
    exists c2, f2. split; [lia|]. split.
    + replace (s - (1 + len es)) with (s - 1 - len es) by lia. exact HI2.
    + rewrite <- app_assoc. change (lsteps (e :: es)) with (steps e + lsteps es)%nat.
      rewrite <- Nat.add_assoc, E1.
      replace f1 with (lsteps es + (f1 - lsteps es))%nat at 1 by lia. rewrite E2.
      replace (p + len (ser e) + len (flat_map ser es)) with (p + (len (ser e) + len (flat_map ser es))) by lia.
      reflexivity.
Qed.

(* a leaf: one iteration *)
Lemma leaf_sim e k : steps e = S k -> (forall f, tok_ok (S (k + f)) (ser e) skip_after) -> item_sim e.
Proof.
  intros Es Ht c s r K f rest p L HI Hrun HK Hmax HL.
  exists (oc (skip_after c)), (k + f)%nat. split; [lia|]. split; [now apply inv_item|].
  rewrite Es. cbn [Nat.add]. apply loop_tok; [apply Ht|eapply inv_running; eassumption|exact HL].
Qed.

(* the same statement about a byte string, so that the four container shapes share two lemmas *)
Definition bytes_sim (n : nat) (bs : bytes) : Prop := forall c s r K f rest p L,
  Inv c s r -> ~ (s = 0 /\ r = []) -> s - 1 <= K -> K + len r + len bs <= u64_max -> p + len bs <= L ->
  exists c' f', (f <= f')%nat /\ Inv c' (s - 1) r /\
    skip_loop (n + f) c (mkdst p (bs ++ rest) L) = skip_loop f' c' (mkdst (p + len bs) rest L).

(* a definite container: header of k = |es| elements, then the elements *)
Lemma def_sim hd k es :
  (forall f, tok_ok (S f) hd (fun c => skip_after (skip_definite c k))) ->
  (len (flat_map ser es) <= u64_max -> k = len es) -> 1 <= len hd -> items_sim es ->
  bytes_sim (S (lsteps es)) (hd ++ flat_map ser es).
Proof.
  intros Ht Hk Hhd Hes c s r K f rest p L HI Hrun HK Hmax HL.
  rewrite len_app in *. pose proof (flat_len_geN es) as Hge. rewrite Hk in * by lia. clear Hk.
  rewrite <- app_assoc. cbn [Nat.add].
  rewrite (loop_tok _ hd _ c p L _ (Ht _) (inv_running _ _ _ HI Hrun) ltac:(lia)).
  pose proof (inv_definite c s r (len es) HI Hrun ltac:(unfold u64_max in *; lia)) as HI1.
  destruct (Hes _ _ _ K f rest (p + len hd) L HI1 ltac:(right; lia) ltac:(lia) ltac:(lia) ltac:(lia))
    as (c2 & f2 & Hf2 & HI2 & E2).
  exists c2, f2. split; [exact Hf2|]. split.
  - replace (s - 1) with (s - 1 + len es - len es) by lia. exact HI2.
  - rewrite E2. replace (p + len hd + len (flat_map ser es)) with (p + (len hd + len (flat_map ser es))) by lia.
    reflexivity.
Qed.

(* an indefinite container: header, any number of elements, break *)
Lemma indef_sim b es :
  (forall f, tok_ok (S f) [b] (fun c => skip_after (skip_indefinite c))) -> items_sim es ->
  bytes_sim (S (S (lsteps es))) (b :: flat_map ser es ++ [255]).
Proof.
  intros Ht Hes c s r K f rest p L HI Hrun HK Hmax HL.
  rewrite len_cons, len_app in *. change (len [255]) with 1 in *.
  replace (S (S (lsteps es)) + f)%nat with (S (lsteps es + S f))%nat by lia.
  change ((b :: flat_map ser es ++ [255]) ++ rest) with ([b] ++ ((flat_map ser es ++ [255]) ++ rest)).
  rewrite <- app_assoc.
  rewrite (loop_tok _ [b] _ c p L _ (Ht _) (inv_running _ _ _ HI Hrun) ltac:(change (len [b]) with 1; lia)).
  change (len [b]) with 1.
  pose proof (inv_indefinite c s r HI Hrun ltac:(unfold u64_max in *; lia)) as HI1.
  destruct (Hes _ _ _ 0 (S f) ([255] ++ rest) (p + 1) L HI1 ltac:(left; discriminate) ltac:(lia)
              ltac:(rewrite len_cons; lia) ltac:(lia)) as (c2 & f2 & Hf2 & HI2 & E2).
  replace (0 - len es) with 0 in HI2 by lia.
  destruct f2 as [|f2]; [lia|].
  rewrite E2.
  rewrite (loop_tok _ [255] _ c2 (p + 1 + len (flat_map ser es)) L _ (tok_break _)
             (inv_running _ _ _ HI2 ltac:(intros [_ ?]; discriminate)) ltac:(change (len [255]) with 1; lia)).
  exists (oc (skip_after (skip_break c2))), f2. split; [lia|]. split.
  - now apply inv_break.
  - change (len [255]) with 1.
    replace (p + 1 + len (flat_map ser es) + 1) with (p + (1 + (len (flat_map ser es) + 1))) by lia. reflexivity.
Qed.

Lemma tag_sim hd e : (forall f, tok_ok (S f) hd (fun c => Some c)) -> item_sim e ->
  bytes_sim (S (steps e)) (hd ++ ser e).
Proof.
  intros Ht He c s r K f rest p L HI Hrun HK Hmax HL.
  rewrite len_app in *. rewrite <- app_assoc. cbn [Nat.add].
  rewrite (loop_tok _ hd _ c p L _ (Ht _) (inv_running _ _ _ HI Hrun) ltac:(lia)). cbn [oc].
  destruct (He c s r K f rest (p + len hd) L HI Hrun HK ltac:(lia) ltac:(lia)) as (c2 & f2 & Hf2 & HI2 & E2).
  exists c2, f2. split; [exact Hf2|]. split; [exact HI2|].
  rewrite E2. replace (p + len hd + len (ser e)) with (p + (len hd + len (ser e))) by lia. reflexivity.
Qed.

Lemma Forall_wf_text (P : enc -> Prop) es :
  Forall (fun e => wf e = true -> utf8_ok e = true -> P e) es ->
  forallb wf es = true -> forallb utf8_ok es = true -> Forall P es.
Proof.
  induction 1 as [|e es He _ IH]; cbn [forallb]; intros Hw Ht; constructor;
  apply andb_prop in Hw as [? ?]; apply andb_prop in Ht as [? ?]; auto.
Qed.

Lemma half_twice n : N.even n = true -> (n / 2) * 2 = n.
Proof.
  intro H. apply N.even_spec in H as [k ->]. rewrite (N.mul_comm 2 k), N.div_mul by lia. reflexivity.
Qed.

Lemma ser_simple n : wf (ESimple n) = true ->
  exists w, fits w n = true /\ ser (ESimple n) = Cbor.head 7 w n.
Proof.
  cbn [wf ser]. intro H. destruct (N.ltb_spec n 24) as [Hn|Hn].
  - exists W0. split; [cbn [fits]; now apply N.ltb_lt|reflexivity].
  - cbn [orb] in H. apply andb_prop in H as [_ H]. exists W1. split; [exact H|reflexivity].
Qed.

(* every well-formed item whose text is valid UTF-8 is simulated *)
Theorem item_sim_all e : wf e = true -> utf8_ok e = true -> item_sim e.
Proof.
  induction e as [w n|w n|w b|cs|w b|cs|w es IH|es IH|w es IH|es IH|w t e IH|n|b|b|b] using enc_tree_ind;
  cbn [wf utf8_ok]; intros Hw Ht.
  - apply (leaf_sim _ 0); [reflexivity|]. intro f. now apply tok_uint.
  - apply (leaf_sim _ 0); [reflexivity|]. intro f. now apply tok_nint.
  - apply andb_prop in Hw as [Hf _]. apply (leaf_sim _ 0); [reflexivity|]. intro f. now apply tok_bytes.
  - apply (leaf_sim _ (length cs)); [reflexivity|]. intro f. apply tok_bytesI; [exact Hw|lia].
  - apply andb_prop in Hw as [Hf _]. apply (leaf_sim _ 0); [reflexivity|]. intro f. now apply tok_text.
  - apply (leaf_sim _ (length cs)); [reflexivity|]. intro f. apply tok_textI; [exact Hw|exact Ht|lia].
  - apply andb_prop in Hw as [Hf Hw].
    apply (def_sim (Cbor.head 4 w (len es)) (len es) es).
    + intro f. now apply tok_array.
    + reflexivity.
    + rewrite len_head1. lia.
    + apply items_of_item. now apply Forall_wf_text.
  - apply (indef_sim 159 es); [intro f; apply tok_array_indef|]. apply items_of_item. now apply Forall_wf_text.
  - apply andb_prop in Hw as [Hw Hw3]. apply andb_prop in Hw as [Hev Hf].
    apply (def_sim (Cbor.head 5 w (len es / 2)) (sat_mul (len es / 2) 2) es).
    + intro f. now apply tok_map.
    + intro Hb. pose proof (flat_len_geN es). rewrite <- (half_twice _ Hev) at 2. apply sat_mul_small.
      rewrite half_twice by exact Hev. lia.
    + rewrite len_head1. lia.
    + apply items_of_item. now apply Forall_wf_text.
  - apply andb_prop in Hw as [_ Hw].
    apply (indef_sim 191 es); [intro f; apply tok_map_indef|]. apply items_of_item. now apply Forall_wf_text.
  - apply andb_prop in Hw as [Hf Hw]. apply (tag_sim (Cbor.head 6 w t) e); [intro f; now apply tok_tag|]. now apply IH.
  - destruct (ser_simple n Hw) as (w & Hf & E). apply (leaf_sim _ 0); [reflexivity|]. intro f. rewrite E. now apply tok_simple.
  - apply (leaf_sim _ 0); [reflexivity|]. intro f. change (ser (EF16 b)) with (Cbor.head 7 W2 b). now apply tok_simple.
  - apply (leaf_sim _ 0); [reflexivity|]. intro f. change (ser (EF32 b)) with (Cbor.head 7 W4 b). now apply tok_simple.
  - apply (leaf_sim _ 0); [reflexivity|]. intro f. change (ser (EF64 b)) with (Cbor.head 7 W8 b). now apply tok_simple.
Qed.

(* ---- skip on a complete item ---- *)
Lemma inv_init : Inv (mksk 1 0 []) 1 [].
Proof. constructor; [reflexivity|reflexivity|congruence]. Qed.

Theorem skip_alloc_ok e rest p L fuel :
  wf e = true -> utf8_ok e = true -> len (ser e) < 18446744073709551616 -> p + len (ser e) <= L ->
  (steps e <= fuel)%nat ->
  skip_alloc fuel (mkdst p (ser e ++ rest) L) = (Ok tt, mkdst (p + len (ser e)) rest L).
Proof.
  intros Hw Ht Hlen HL Hfu. unfold skip_alloc.
  destruct (item_sim_all e Hw Ht (mksk 1 0 []) 1 [] 0 (fuel - steps e)%nat rest p L inv_init
              ltac:(intros [? _]; discriminate) ltac:(lia)
              ltac:(change (len (@nil N)) with 0; unfold u64_max; lia) HL) as (c' & f' & _ & HI & E).
  replace (steps e + (fuel - steps e))%nat with fuel in E by lia. rewrite E.
  change (1 - 1) with 0 in HI. rewrite (inv_done _ HI). apply loop_fin.
Qed.

(* ---- strict prefixes: the loop reports end of input, it never stops early ---- *)
Definition tok_short_f (bs : bytes) : Prop := forall fuel c p L a x t,
  bs = a ++ x :: t -> (length a <= fuel)%nat -> p + len a <= L -> eoi (skip_step fuel c (mkdst p a L)).

Lemma tok_short_any bs : (forall fuel, tok_short fuel bs) -> tok_short_f bs.
Proof. intros H fuel c p L a x t E _ HL. eapply H; eassumption. Qed.

Definition bytes_short (bs : bytes) : Prop := forall a x t c s r K fuel p L,
  bs = a ++ x :: t -> Inv c s r -> ~ (s = 0 /\ r = []) -> s - 1 <= K -> K + len r + len bs <= u64_max ->
  (length a < fuel)%nat -> p + len a <= L -> eoi (skip_loop fuel c (mkdst p a L)).
Definition item_short (e : enc) : Prop := bytes_short (ser e).

Definition items_short (es : list enc) : Prop := forall a x t c s r K fuel p L,
  flat_map ser es = a ++ x :: t -> Inv c s r -> (r <> [] \/ len es <= s) -> s - len es <= K ->
  K + len r + len (flat_map ser es) <= u64_max ->
  (length a < fuel)%nat -> p + len a <= L -> eoi (skip_loop fuel c (mkdst p a L)).

Lemma lsteps_le_len es : (lsteps es <= length (flat_map ser es))%nat.
Proof.
  induction es as [|e es IH]; cbn [lsteps fold_right flat_map]; [lia|]. fold (lsteps es).
  rewrite app_length. pose proof (steps_le_len e). lia.
Qed.

Lemma len_length {A} (l : list A) : len l = N.of_nat (length l).
Proof. reflexivity. Qed.

Lemma items_short_of es : Forall item_sim es -> Forall item_short es -> items_short es.
Proof.
  induction 1 as [|e es He _ IH]; intros Hsh a x t c s r K fuel p L E HI Hrun HK Hmax Hfu HL.
  - destruct a; discriminate.
  - inversion Hsh as [|? ? Hse Hses]; subst. cbn [flat_map] in *. rewrite len_app, len_cons in *.
    pose proof (flat_len_geN es) as Hge.
    assert (Hrun1: ~ (s = 0 /\ r = [])). { intros [-> ->]. destruct Hrun; [congruence|lia]. }
    apply app_split in E as [(t' & E & _)|(w' & -> & E)].
    + eapply (Hse a x t' c s r (K + len (flat_map ser es))); try eassumption; lia.
    + rewrite app_length in Hfu. rewrite len_app in HL. pose proof (steps_le_len e) as Hst.
      destruct (He c s r (K + len (flat_map ser es)) (fuel - steps e)%nat w' p L HI Hrun1
                  ltac:(lia) ltac:(lia) ltac:(lia)) as (c1 & f1 & Hf1 & HI1 & E1).
      replace (steps e + (fuel - steps e))%nat with fuel in E1 by lia. rewrite E1.
      eapply (IH Hses w' x t c1 (s - 1) r K); try eassumption; try lia.
      destruct Hrun; [left; assumption|right; lia].
Qed.

Lemma leaf_short bs : tok_short_f bs -> bytes_short bs.
Proof.
  intros Ht a x t c s r K fuel p L E HI Hrun HK Hmax Hfu HL.
  destruct fuel as [|fuel]; [lia|]. apply loop_eoi; [eapply inv_running; eassumption|].
  eapply Ht; [exact E|lia|exact HL].
Qed.

Lemma def_short hd k es :
  (forall f, tok_ok (S f) hd (fun c => skip_after (skip_definite c k))) -> tok_short_f hd ->
  (len (flat_map ser es) <= u64_max -> k = len es) -> 1 <= len hd -> items_short es ->
  bytes_short (hd ++ flat_map ser es).
Proof.
  intros Ht Hts Hk Hhd Hes a x t c s r K fuel p L E HI Hrun HK Hmax Hfu HL.
  rewrite len_app in *. pose proof (flat_len_geN es) as Hge. rewrite Hk in * by lia. clear Hk.
  destruct fuel as [|fuel]; [lia|].
  apply app_split in E as [(t' & E & _)|(w' & -> & E)].
  - apply loop_eoi; [eapply inv_running; eassumption|]. eapply Hts; [exact E|lia|exact HL].
  - rewrite app_length in Hfu. rewrite len_app in HL.
    rewrite (loop_tok _ hd _ c p L _ (Ht _) (inv_running _ _ _ HI Hrun) ltac:(lia)).
    pose proof (inv_definite c s r (len es) HI Hrun ltac:(unfold u64_max in *; lia)) as HI1.
    assert (Hh: (1 <= length hd)%nat). { rewrite len_length in Hhd. lia. }
    eapply (Hes w' x t _ _ r K); [exact E|exact HI1|right; lia|lia|lia|lia|lia].
Qed.

Lemma loop_nil_eoi f c p L : skip_running c = true -> eoi (skip_loop (S f) c (mkdst p [] L)).
Proof. intro Hr. apply loop_eoi; [exact Hr|]. eexists. apply step_nil. Qed.

Lemma indef_short b es :
  (forall f, tok_ok (S f) [b] (fun c => skip_after (skip_indefinite c))) -> items_sim es -> items_short es ->
  bytes_short (b :: flat_map ser es ++ [255]).
Proof.
  intros Ht Hes Hsh a x t c s r K fuel p L E HI Hrun HK Hmax Hfu HL.
  rewrite len_cons, len_app in *. change (len [255]) with 1 in *.
  destruct fuel as [|fuel]; [lia|].
  destruct a as [|a0 a]; [apply loop_nil_eoi; eapply inv_running; eassumption|].
  cbn [app] in E. injection E as <- E. cbn [length] in Hfu. rewrite len_cons in HL.
  change (b :: a) with ([b] ++ a).
  rewrite (loop_tok _ [b] _ c p L _ (Ht _) (inv_running _ _ _ HI Hrun) ltac:(change (len [b]) with 1; lia)).
  change (len [b]) with 1.
  pose proof (inv_indefinite c s r HI Hrun ltac:(unfold u64_max in *; lia)) as HI1.
  apply app_split in E as [(t' & E & _)|(w' & -> & E)].
  - eapply (Hsh a x t' _ 0 ((s - 1) :: r) 0); [exact E|exact HI1|left; discriminate|lia|rewrite len_cons; lia|lia|lia].
  - apply one_byte_short in E. subst w'. rewrite app_nil_r in *. rewrite len_length in HL.
    pose proof (lsteps_le_len es) as Hls.
    destruct (Hes _ _ _ 0 (fuel - lsteps es)%nat [] (p + 1) L HI1 ltac:(left; discriminate) ltac:(lia)
                ltac:(rewrite len_cons; lia) ltac:(rewrite len_length; lia)) as (c2 & f2 & Hf2 & HI2 & E2).
    rewrite app_nil_r in E2. replace (lsteps es + (fuel - lsteps es))%nat with fuel in E2 by lia. rewrite E2.
    replace (0 - len es) with 0 in HI2 by lia.
    destruct f2 as [|f2]; [lia|]. apply loop_nil_eoi. eapply inv_running; [exact HI2|]. intros [_ ?]. discriminate.
Qed.

Lemma tag_short hd e : (forall f, tok_ok (S f) hd (fun c => Some c)) -> tok_short_f hd -> 1 <= len hd ->
  item_short e -> bytes_short (hd ++ ser e).
Proof.
  intros Ht Hts Hhd He a x t c s r K fuel p L E HI Hrun HK Hmax Hfu HL.
  rewrite len_app in *. destruct fuel as [|fuel]; [lia|].
  apply app_split in E as [(t' & E & _)|(w' & -> & E)].
  - apply loop_eoi; [eapply inv_running; eassumption|]. eapply Hts; [exact E|lia|exact HL].
  - rewrite app_length in Hfu. rewrite len_app in HL.
    rewrite (loop_tok _ hd _ c p L _ (Ht _) (inv_running _ _ _ HI Hrun) ltac:(lia)). cbn [oc].
    assert (Hh: (1 <= length hd)%nat). { rewrite len_length in Hhd. lia. }
    eapply (He w' x t c s r K); [exact E|exact HI|exact Hrun|exact HK|lia|lia|lia].
Qed.

Theorem item_short_all e : wf e = true -> utf8_ok e = true -> item_short e.
Proof.
  induction e as [w n|w n|w b|cs|w b|cs|w es IH|es IH|w es IH|es IH|w t e IH|n|b|b|b] using enc_tree_ind;
  cbn [wf utf8_ok]; intros Hw Ht; unfold item_short; cbn [ser].
  - apply leaf_short, tok_short_any. intro. now apply tok_uint_short.
  - apply leaf_short, tok_short_any. intro. now apply tok_nint_short.
  - apply andb_prop in Hw as [Hf _]. apply leaf_short, tok_short_any. intro. now apply tok_bytes_short.
  - apply leaf_short. intros fuel c p L a x t E Hfu HL. eapply tok_bytesI_short; eassumption.
  - apply andb_prop in Hw as [Hf _]. apply leaf_short, tok_short_any. intro. now apply tok_text_short.
  - apply leaf_short. intros fuel c p L a x t E Hfu HL. eapply tok_textI_short; eassumption.
  - apply andb_prop in Hw as [Hf Hw].
    apply (def_short (Cbor.head 4 w (len es)) (len es) es).
    + intro f. now apply tok_array.
    + apply tok_short_any. intro. now apply tok_array_short.
    + reflexivity.
    + rewrite len_head1. lia.
    + apply items_short_of; [|now apply Forall_wf_text].
      apply Forall_forall. intros y Hy. rewrite forallb_forall in Hw, Ht. apply item_sim_all; auto.
  - apply (indef_short 159 es); [intro f; apply tok_array_indef| |].
    + apply items_of_item. apply Forall_forall. intros y Hy. rewrite forallb_forall in Hw, Ht. apply item_sim_all; auto.
    + apply items_short_of; [|now apply Forall_wf_text].
      apply Forall_forall. intros y Hy. rewrite forallb_forall in Hw, Ht. apply item_sim_all; auto.
  - apply andb_prop in Hw as [Hw Hw3]. apply andb_prop in Hw as [Hev Hf].
    apply (def_short (Cbor.head 5 w (len es / 2)) (sat_mul (len es / 2) 2) es).
    + intro f. now apply tok_map.
    + apply tok_short_any. intro. now apply tok_map_short.
    + intro Hb. pose proof (flat_len_geN es). rewrite <- (half_twice _ Hev) at 2. apply sat_mul_small.
      rewrite half_twice by exact Hev. lia.
    + rewrite len_head1. lia.
    + apply items_short_of; [|now apply Forall_wf_text].
      apply Forall_forall. intros y Hy. rewrite forallb_forall in Hw3, Ht. apply item_sim_all; auto.
  - apply andb_prop in Hw as [_ Hw]. apply (indef_short 191 es); [intro f; apply tok_map_indef| |].
    + apply items_of_item. apply Forall_forall. intros y Hy. rewrite forallb_forall in Hw, Ht. apply item_sim_all; auto.
    + apply items_short_of; [|now apply Forall_wf_text].
      apply Forall_forall. intros y Hy. rewrite forallb_forall in Hw, Ht. apply item_sim_all; auto.
  - apply andb_prop in Hw as [Hf Hw]. apply (tag_short (Cbor.head 6 w t) e).
    + intro f. now apply tok_tag.
    + apply tok_short_any. intro. now apply tok_tag_short.
    + rewrite len_head1. lia.
    + now apply IH.
  - destruct (ser_simple n Hw) as (w & Hf & E). cbn [ser] in E. rewrite E.
    apply leaf_short, tok_short_any. intro. now apply tok_simple_short.
  - change (249 :: be 2 b) with (Cbor.head 7 W2 b). apply leaf_short, tok_short_any. intro. now apply tok_simple_short.
  - change (250 :: be 4 b) with (Cbor.head 7 W4 b). apply leaf_short, tok_short_any. intro. now apply tok_simple_short.
  - change (251 :: be 8 b) with (Cbor.head 7 W8 b). apply leaf_short, tok_short_any. intro. now apply tok_simple_short.
Qed.

Theorem skip_alloc_prefix e a x t p L fuel :
  wf e = true -> utf8_ok e = true -> len (ser e) < 18446744073709551616 ->
  ser e = a ++ x :: t -> p + len a <= L -> (length a < fuel)%nat ->
  exists q, skip_alloc fuel (mkdst p a L) = (Err EndOfInput, q).
Proof.
  intros Hw Ht Hlen E HL Hfu. unfold skip_alloc.
  apply (item_short_all e Hw Ht a x t (mksk 1 0 []) 1 [] 0 fuel p L E inv_init);
  [intros [? _]; discriminate|lia|change (len (@nil N)) with 0; unfold u64_max; lia|exact Hfu|exact HL].
Qed.
