(* Proofs/SerdeAgreeFacts.v — C18_agree: on every input (well-formed or not, preferred or re-framed), for every
   type of the shared data model, if the native decoder and the bridge both succeed then they return the same
   value (up to the embedding) and stop at the same position.  Both are compositions of the same Decoder
   primitives; the proof runs the two loops side by side. *)
From MC Require Import Bytes BytesFacts Monad Cbor Utf8 Encoder Decoder DecoderFacts Types Serde SerdeDoc SerdeFacts
  SerdeSharedFacts.
From Coq Require Import Lia.
Local Open Scope N_scope.

Lemma bind_ok_inv {A B} (m : M A) (f : A -> M B) s b s' :
  bind m f s = (Ok b, s') -> exists a s1, m s = (Ok a, s1) /\ f a s1 = (Ok b, s').
Proof. unfold bind. destruct (m s) as [[a|e| |] s1]; intro H; try discriminate. eauto. Qed.

Lemma fmap_ok_inv {A B} (g : A -> B) (m : M A) s b s' :
  fmap g m s = (Ok b, s') -> exists a, m s = (Ok a, s') /\ b = g a.
Proof.
  unfold fmap. intro H. apply bind_ok_inv in H as (a & s1 & H1 & H2). unfold ret in H2. injection H2 as <- <-. eauto.
Qed.

Lemma ret_ok_inv {A} (a b : A) s s' : ret a s = (Ok b, s') -> b = a /\ s' = s.
Proof. unfold ret. now intros [= <- <-]. Qed.

Lemma fail_not_ok {A} e s (b : A) s' : fail e s = (Ok b, s') -> False.
Proof. discriminate. Qed.

(* two decoders agree up to g *)
Definition agrees {V W} (g : V -> W) (d1 : M V) (d2 : M W) : Prop :=
  forall s v s1 w s2, d1 s = (Ok v, s1) -> d2 s = (Ok w, s2) -> w = g v /\ s1 = s2.

Lemma agrees_fmap {A V W} (g : V -> W) (h1 : A -> V) (h2 : A -> W) (d : M A) :
  (forall a, h2 a = g (h1 a)) -> agrees g (fmap h1 d) (fmap h2 d).
Proof.
  intros Hh s v s1 w s2 H1 H2. apply fmap_ok_inv in H1 as (a & E1 & ->). apply fmap_ok_inv in H2 as (b & E2 & ->).
  rewrite E1 in E2. injection E2 as <- <-. split; [apply Hh|reflexivity].
Qed.

(* definite sequences: dec_n against SeqAccess counting down *)
Lemma dec_n_agree {W} (g : value -> W) d1 d2 : agrees g d1 d2 ->
  forall f1 n acc1 f2 s l1 s1 l2 s2,
  dec_n d1 n f1 acc1 s = (Ok l1, s1) -> seq_collect d2 (Some n) f2 (map g acc1) s = (Ok l2, s2) ->
  l2 = map g l1 /\ s1 = s2.
Proof.
  intros Ha. induction f1 as [|f1 IH]; intros n acc1 f2 s l1 s1 l2 s2 H1 H2.
  - cbn [dec_n] in H1. destruct (N.eqb_spec n 0); [|discriminate].
    apply ret_ok_inv in H1 as [-> ->]. subst n.
    destruct f2 as [|f2]; [discriminate|]. cbn [seq_collect next_element] in H2.
    change (0 =? 0) with true in H2. cbv iota in H2. unfold bind, ret in H2. injection H2 as <- <-.
    split; [now rewrite map_rev|reflexivity].
  - cbn [dec_n] in H1. destruct (N.eqb_spec n 0).
    + apply ret_ok_inv in H1 as [-> ->]. subst n.
      destruct f2 as [|f2]; [discriminate|]. cbn [seq_collect next_element] in H2.
      change (0 =? 0) with true in H2. cbv iota in H2. unfold bind, ret in H2. injection H2 as <- <-.
      split; [now rewrite map_rev|reflexivity].
    + apply bind_ok_inv in H1 as (x & sa & Hx & H1).
      destruct f2 as [|f2]; [discriminate|]. cbn [seq_collect next_element] in H2.
      destruct (N.eqb_spec n 0); [contradiction|].
      apply bind_ok_inv in H2 as (r & sb & Hr & H2). apply bind_ok_inv in Hr as (y & sc & Hy & Hr).
      apply ret_ok_inv in Hr as [-> ->]. cbv iota beta in H2.
      destruct (Ha s x sa y sc Hx Hy) as [-> ->].
      replace (n - 1) with (N.pred n) in H2 by lia.
      apply (IH (N.pred n) (x :: acc1) f2 sc l1 s1 l2 s2 H1 H2).
Qed.

(* indefinite sequences: dec_until_break against SeqAccess testing for the break byte *)
Lemma dec_brk_agree {W} (g : value -> W) d1 d2 : agrees g d1 d2 ->
  forall f1 acc1 f2 s l1 s1 l2 s2,
  dec_until_break d1 f1 acc1 s = (Ok l1, s1) -> seq_collect d2 None f2 (map g acc1) s = (Ok l2, s2) ->
  l2 = map g l1 /\ s1 = s2.
Proof.
  intros Ha. induction f1 as [|f1 IH]; intros acc1 f2 s l1 s1 l2 s2 H1 H2; [discriminate|].
  cbn [dec_until_break] in H1. apply bind_ok_inv in H1 as (b & sa & Hb & H1).
  destruct f2 as [|f2]; [discriminate|]. cbn [seq_collect next_element] in H2.
  apply bind_ok_inv in H2 as (r & sb & Hr & H2). apply bind_ok_inv in Hr as (b' & sa' & Hb' & Hr).
  rewrite Hb in Hb'. injection Hb' as <- <-.
  destruct (b =? 255).
  - apply bind_ok_inv in H1 as (u & sc & Hu & H1). apply ret_ok_inv in H1 as [-> ->].
    apply bind_ok_inv in Hr as (u' & sc' & Hu' & Hr). apply ret_ok_inv in Hr as [-> ->].
    rewrite Hu in Hu'. injection Hu' as <- <-. cbv iota in H2. apply ret_ok_inv in H2 as [-> ->].
    split; [now rewrite map_rev|reflexivity].
  - apply bind_ok_inv in H1 as (x & sc & Hx & H1).
    apply bind_ok_inv in Hr as (y & sd & Hy & Hr). apply ret_ok_inv in Hr as [-> ->]. cbv iota beta in H2.
    destruct (Ha sa x sc y sd Hx Hy) as [-> ->].
    apply (IH (x :: acc1) f2 sd l1 s1 l2 s2 H1 H2).
Qed.

(* tuples: dec_each against one next_element per component *)
Lemma dec_each_agree {W} (g : value -> W) ds1 ds2 : Forall2 (agrees g) ds1 ds2 ->
  forall ln s l1 s1 l2 s2,
  dec_each ds1 s = (Ok l1, s1) -> tuple_collect ds2 ln s = (Ok l2, s2) -> l2 = map g l1 /\ s1 = s2.
Proof.
  induction 1 as [|d1 d2 ds1 ds2 Ha _ IH]; intros ln s l1 s1 l2 s2 H1 H2.
  - apply ret_ok_inv in H1 as [-> ->]. apply ret_ok_inv in H2 as [-> ->]. now split.
  - cbn [dec_each] in H1. apply bind_ok_inv in H1 as (x & sa & Hx & H1).
    apply bind_ok_inv in H1 as (xs & sb & Hxs & H1). apply ret_ok_inv in H1 as [-> ->].
    cbn [tuple_collect] in H2. apply bind_ok_inv in H2 as (r & sc & Hr & H2).
    destruct ln as [n|]; cbn [next_element] in Hr.
    + destruct (n =? 0).
      * apply ret_ok_inv in Hr as [-> ->]. discriminate H2.
      * apply bind_ok_inv in Hr as (y & sd & Hy & Hr). apply ret_ok_inv in Hr as [-> ->]. cbv iota beta in H2.
        apply bind_ok_inv in H2 as (ys & se & Hys & H2). apply ret_ok_inv in H2 as [-> ->].
        destruct (Ha s x sa y sd Hx Hy) as [-> ->].
        destruct (IH _ _ _ _ _ _ Hxs Hys) as [-> ->]. now split.
    + apply bind_ok_inv in Hr as (b & sd & Hb & Hr). destruct (b =? 255).
      * apply bind_ok_inv in Hr as (u & se & _ & Hr). apply ret_ok_inv in Hr as [-> ->]. discriminate H2.
      * apply bind_ok_inv in Hr as (y & se & Hy & Hr). apply ret_ok_inv in Hr as [-> ->]. cbv iota beta in H2.
        apply bind_ok_inv in H2 as (ys & sf & Hys & H2). apply ret_ok_inv in H2 as [-> ->].
        (* current does not move: sd = s *)
        assert (sd = s) by (unfold current in Hb; destruct (drest s); inversion Hb; reflexivity). subst sd.
        destruct (Ha s x sa y se Hx Hy) as [-> ->].
        destruct (IH _ _ _ _ _ _ Hxs Hys) as [-> ->]. now split.
Qed.

Lemma current_same s b s' : current s = (Ok b, s') -> s' = s.
Proof. unfold current. destruct (drest s); intro H; inversion H; reflexivity. Qed.

Lemma next_element_inv {A} (d : M A) ln s r s' : next_element d ln s = (Ok r, s') ->
  (exists y ln', r = (Some y, ln') /\ d s = (Ok y, s')) \/ (exists ln', r = (None, ln')).
Proof.
  destruct ln as [n|]; cbn [next_element]; intro H.
  - destruct (n =? 0).
    + apply ret_ok_inv in H as [-> ->]. right. eauto.
    + apply bind_ok_inv in H as (y & sa & Hy & H). apply ret_ok_inv in H as [-> ->]. left. eauto.
  - apply bind_ok_inv in H as (b & sa & Hb & H). apply current_same in Hb as ->. destruct (b =? 255).
    + apply bind_ok_inv in H as (u & sb & _ & H). apply ret_ok_inv in H as [-> ->]. right. eauto.
    + apply bind_ok_inv in H as (y & sb & Hy & H). apply ret_ok_inv in H as [-> ->]. left. eauto.
Qed.

(* [T; N]: arr_n against one next_element per slot *)
Lemma arr_n_agree {W} (g : value -> W) d1 d2 : agrees g d1 d2 ->
  forall k f acc cap ln s l1 s1 l2 s2,
  arr_n d1 cap (N.of_nat k) f acc s = (Ok l1, s1) -> tuple_collect (repeat d2 k) ln s = (Ok l2, s2) ->
  exists xs, l1 = rev acc ++ xs /\ l2 = map g xs /\ s1 = s2.
Proof.
  intros Ha. induction k as [|k IH]; intros f acc cap ln s l1 s1 l2 s2 H1 H2.
  - destruct f; cbn [arr_n] in H1; change (N.of_nat 0 =? 0) with true in H1; cbv iota in H1;
      apply ret_ok_inv in H1 as [-> ->]; apply ret_ok_inv in H2 as [-> ->]; exists []; (split; [now rewrite app_nil_r|now split]).
  - assert (En: (N.of_nat (S k) =? 0) = false) by (apply N.eqb_neq; lia).
    destruct f as [|f]; cbn [arr_n] in H1; rewrite En in H1; [discriminate|].
    apply bind_ok_inv in H1 as (x & sa & Hx & H1).
    destruct (len acc <? cap); [|discriminate].
    replace (N.pred (N.of_nat (S k))) with (N.of_nat k) in H1 by lia.
    cbn [repeat tuple_collect] in H2. apply bind_ok_inv in H2 as (r & sb & Hr & H2).
    apply next_element_inv in Hr as [(y & ln' & -> & Hy)|(ln' & ->)]; [|discriminate].
    cbv iota beta in H2. apply bind_ok_inv in H2 as (ys & sc & Hys & H2). apply ret_ok_inv in H2 as [-> ->].
    destruct (Ha s x sa y sb Hx Hy) as [-> ->].
    destruct (IH f (x :: acc) cap ln' sb l1 s1 ys sc H1 Hys) as (xs & -> & -> & ->).
    exists (x :: xs). cbn [rev map]. rewrite <- app_assoc. now split.
Qed.

(* maps: dec_pair loops against MapAccess *)
Definition pairV (p : value * value) : value := VList [fst p; snd p].
Definition kvs {W} (gk gv : value -> W) (p : value * value) : list W := [gk (fst p); gv (snd p)].
Definition kvs_rev {W} (gk gv : value -> W) (p : value * value) : list W := [gv (snd p); gk (fst p)].

Lemma rev_kvs {W} (gk gv : value -> W) ps : rev (flat_map (kvs_rev gk gv) ps) = flat_map (kvs gk gv) (rev ps).
Proof.
  induction ps as [|p ps IH]; [reflexivity|]. cbn [flat_map rev]. rewrite rev_app_distr, IH, flat_map_app.
  f_equal.
Qed.

Lemma dec_pair_inv dk dv s v s1 : dec_pair dk dv s = (Ok v, s1) ->
  exists a sa b, dk s = (Ok a, sa) /\ dv sa = (Ok b, s1) /\ v = pairV (a, b).
Proof.
  unfold dec_pair. intro H. apply bind_ok_inv in H as (a & sa & Ha & H). apply bind_ok_inv in H as (b & sb & Hb & H).
  apply ret_ok_inv in H as [-> ->]. exists a, sa, b. now split.
Qed.

Lemma next_key_inv {A} (d : M A) ln s r s' : next_key d ln s = (Ok r, s') ->
  (exists y, r = Some y /\ d s = (Ok y, s')) \/ r = None.
Proof.
  destruct ln as [n|]; cbn [next_key]; intro H.
  - destruct (n =? 0).
    + apply ret_ok_inv in H as [-> ->]. now right.
    + apply fmap_ok_inv in H as (y & Hy & ->). left. eauto.
  - apply bind_ok_inv in H as (b & sa & Hb & H). apply current_same in Hb as ->. destruct (b =? 255).
    + apply bind_ok_inv in H as (u & sb & _ & H). apply ret_ok_inv in H as [-> ->]. now right.
    + apply fmap_ok_inv in H as (y & Hy & ->). left. eauto.
Qed.

Definition ln_pred (ln : option N) : option N := match ln with Some n => Some (n - 1) | None => None end.

Lemma next_value_inv {A} (d : M A) ln s r s' : next_value d ln s = (Ok r, s') ->
  d s = (Ok (fst r), s') /\ snd r = ln_pred ln.
Proof.
  destruct ln as [n|]; cbn [next_value]; intro H; apply bind_ok_inv in H as (x & sa & Hx & H).
  - destruct (n =? 0); [discriminate|]. apply ret_ok_inv in H as [-> ->]. now split.
  - apply ret_ok_inv in H as [-> ->]. now split.
Qed.

Lemma next_key_def_none {A} (d : M A) n s s' : n <> 0 -> next_key d (Some n) s = (Ok None, s') -> False.
Proof.
  intros Hn H. cbn [next_key] in H. destruct (N.eqb_spec n 0); [contradiction|].
  apply fmap_ok_inv in H as (y & _ & E). discriminate.
Qed.

Lemma map_step_agree {W} (gk gv : value -> W) dk dv dk' dv' : agrees gk dk dk' -> agrees gv dv dv' ->
  forall ln s x sx kk sk r sr, dec_pair dk dv s = (Ok x, sx) -> dk' s = (Ok kk, sk) -> next_value dv' ln sk = (Ok r, sr) ->
  exists p, x = pairV p /\ kk = gk (fst p) /\ fst r = gv (snd p) /\ snd r = ln_pred ln /\ sx = sr.
Proof.
  intros Hk Hv ln s x sx kk sk r sr Hx Hkk Hr.
  apply dec_pair_inv in Hx as (a & sa & b & Ha & Hb & ->).
  destruct (Hk s a sa kk sk Ha Hkk) as [-> ->].
  apply next_value_inv in Hr as [Hr ->].
  destruct (Hv sk b sx (fst r) sr Hb Hr) as [E ->].
  exists (a, b). now repeat split.
Qed.

Lemma map_n_agree {W} (gk gv : value -> W) dk dv dk' dv' : agrees gk dk dk' -> agrees gv dv dv' ->
  forall f1 n accp f2 s l1 s1 l2 s2,
  dec_n (dec_pair dk dv) n f1 (map pairV accp) s = (Ok l1, s1) ->
  map_collect dk' dv' (Some n) f2 (flat_map (kvs_rev gk gv) accp) s = (Ok l2, s2) ->
  exists ps, l1 = map pairV ps /\ l2 = flat_map (kvs gk gv) ps /\ s1 = s2.
Proof.
  intros Hk Hv. induction f1 as [|f1 IH]; intros n accp f2 s l1 s1 l2 s2 H1 H2.
  - cbn [dec_n] in H1. destruct (N.eqb_spec n 0); [|discriminate].
    apply ret_ok_inv in H1 as [-> ->]. subst n.
    destruct f2 as [|f2]; [discriminate|]. cbn [map_collect next_key] in H2.
    change (0 =? 0) with true in H2. cbv iota in H2. unfold bind, ret in H2. injection H2 as <- <-.
    exists (rev accp). now rewrite map_rev, rev_kvs.
  - cbn [dec_n] in H1. destruct (N.eqb_spec n 0).
    + apply ret_ok_inv in H1 as [-> ->]. subst n.
      destruct f2 as [|f2]; [discriminate|]. cbn [map_collect next_key] in H2.
      change (0 =? 0) with true in H2. cbv iota in H2. unfold bind, ret in H2. injection H2 as <- <-.
      exists (rev accp). now rewrite map_rev, rev_kvs.
    + apply bind_ok_inv in H1 as (x & sa & Hx & H1).
      destruct f2 as [|f2]; [discriminate|]. cbn [map_collect] in H2.
      apply bind_ok_inv in H2 as (k & sb & Hkey & H2).
      destruct k as [kk|]; [|exfalso; now apply (next_key_def_none dk' n s sb)].
      apply next_key_inv in Hkey as [(kk' & [= <-] & Hkk)|Hkey]; [|discriminate].
      cbv iota beta in H2. apply bind_ok_inv in H2 as (r & sc & Hr & H2).
      destruct (map_step_agree gk gv dk dv dk' dv' Hk Hv (Some n) s x sa kk sb r sc Hx Hkk Hr) as (p & -> & -> & E1 & E2 & ->).
      rewrite E1, E2 in H2. cbn [ln_pred] in H2. replace (n - 1) with (N.pred n) in H2 by lia.
      apply (IH (N.pred n) (p :: accp) f2 sc l1 s1 l2 s2 H1 H2).
Qed.

Lemma map_brk_agree {W} (gk gv : value -> W) dk dv dk' dv' : agrees gk dk dk' -> agrees gv dv dv' ->
  forall f1 accp f2 s l1 s1 l2 s2,
  dec_until_break (dec_pair dk dv) f1 (map pairV accp) s = (Ok l1, s1) ->
  map_collect dk' dv' None f2 (flat_map (kvs_rev gk gv) accp) s = (Ok l2, s2) ->
  exists ps, l1 = map pairV ps /\ l2 = flat_map (kvs gk gv) ps /\ s1 = s2.
Proof.
  intros Hk Hv. induction f1 as [|f1 IH]; intros accp f2 s l1 s1 l2 s2 H1 H2; [discriminate|].
  cbn [dec_until_break] in H1. apply bind_ok_inv in H1 as (b & sa & Hb & H1).
  pose proof (current_same _ _ _ Hb) as ->.
  destruct f2 as [|f2]; [discriminate|]. cbn [map_collect next_key] in H2.
  apply bind_ok_inv in H2 as (k & sb & Hkey & H2).
  apply bind_ok_inv in Hkey as (b' & sa' & Hb' & Hkey). rewrite Hb in Hb'. injection Hb' as <- <-.
  destruct (b =? 255).
  - apply bind_ok_inv in H1 as (u & sc & Hu & H1). apply ret_ok_inv in H1 as [-> ->].
    apply bind_ok_inv in Hkey as (u' & sc' & Hu' & Hkey). apply ret_ok_inv in Hkey as [-> ->].
    rewrite Hu in Hu'. injection Hu' as <- <-. cbv iota in H2. apply ret_ok_inv in H2 as [-> ->].
    exists (rev accp). now rewrite map_rev, rev_kvs.
  - apply bind_ok_inv in H1 as (x & sc & Hx & H1).
    apply fmap_ok_inv in Hkey as (kk & Hkk & ->). cbv iota beta in H2.
    apply bind_ok_inv in H2 as (r & sd & Hr & H2).
    destruct (map_step_agree gk gv dk dv dk' dv' Hk Hv None s x sc kk sb r sd Hx Hkk Hr) as (p & -> & -> & E1 & E2 & ->).
    rewrite E1, E2 in H2. cbn [ln_pred] in H2.
    apply (IH (p :: accp) f2 sd l1 s1 l2 s2 H1 H2).
Qed.

Lemma flatten_pairV ps : flatten_pairs (map pairV ps) = flat_map (fun p => [fst p; snd p]) ps.
Proof. induction ps as [|p ps IH]; [reflexivity|]. cbn [map flatten_pairs flat_map pairV app] in *. now rewrite <- IH. Qed.

Lemma emb_alt_pairs {W} (gk gv : value -> W) ps :
  (fix go (l : list value) : list W := match l with k :: v :: r => gk k :: gv v :: go r | _ => [] end)
    (flat_map (fun p : value * value => [fst p; snd p]) ps) = flat_map (kvs gk gv) ps.
Proof. induction ps as [|p ps IH]; [reflexivity|]. cbn [flat_map app kvs]. now rewrite IH. Qed.

Lemma len_pairs {W} (gk gv : value -> W) ps :
  len (flat_map (kvs gk gv) ps) = len (flat_map (fun p : value * value => [fst p; snd p]) ps).
Proof. unfold len. f_equal. induction ps as [|p ps IH]; [reflexivity|]. cbn [flat_map kvs app length]. now rewrite IH. Qed.

(* ---- the theorem ---- *)
Definition agree_ty (c : cfg) (t : ty) : Prop :=
  shared t = true -> forall f1 f2, agrees (embed t) (decode_ty c t f1) (de_s c (shape_of t) f2).

Lemma map_repeat {A B} (f : A -> B) x k : map f (repeat x k) = repeat (f x) k.
Proof. induction k; [reflexivity|]. cbn [repeat map]. now rewrite IHk. Qed.

Lemma agree_list c ts f1 f2 : Forall (agree_ty c) ts -> forallb shared ts = true ->
  Forall2 (fun (d1 : M value) (p : (value -> sval) * M sval) => agrees (fst p) d1 (snd p))
          (map (fun t' => decode_ty c t' f1) ts) (map (fun t' => (embed t', de_s c (shape_of t') f2)) ts).
Proof.
  induction 1 as [|t r Ht _ IH]; intro Hs; [constructor|]. cbn [forallb] in Hs. apply andb_prop in Hs as [H1 H2].
  cbn [map]. constructor; [cbn [fst snd]; now apply Ht|now apply IH].
Qed.

Lemma dec_each_agree_het (ds1 : list (M value)) (gds : list ((value -> sval) * M sval)) :
  Forall2 (fun d1 p => agrees (fst p) d1 (snd p)) ds1 gds ->
  forall ln s l1 s1 l2 s2,
  dec_each ds1 s = (Ok l1, s1) -> tuple_collect (map snd gds) ln s = (Ok l2, s2) ->
  l2 = emb_zip (map fst gds) l1 /\ s1 = s2.
Proof.
  induction 1 as [|d1 [g d2] ds1 gds Ha _ IH]; intros ln s l1 s1 l2 s2 H1 H2.
  - apply ret_ok_inv in H1 as [-> ->]. apply ret_ok_inv in H2 as [-> ->]. now split.
  - cbn [dec_each] in H1. apply bind_ok_inv in H1 as (x & sa & Hx & H1).
    apply bind_ok_inv in H1 as (xs & sb & Hxs & H1). apply ret_ok_inv in H1 as [-> ->].
    cbn [map snd tuple_collect] in H2. apply bind_ok_inv in H2 as (r & sc & Hr & H2).
    apply next_element_inv in Hr as [(y & ln' & -> & Hy)|(ln' & ->)]; [|discriminate].
    cbv iota beta in H2. apply bind_ok_inv in H2 as (ys & sd & Hys & H2). apply ret_ok_inv in H2 as [-> ->].
    cbn [fst snd] in Ha. destruct (Ha s x sa y sc Hx Hy) as [-> ->].
    destruct (IH _ _ _ _ _ _ Hxs Hys) as [-> ->]. now split.
Qed.

Lemma len_repeat_n {A} (x : A) k : len (repeat x k) = N.of_nat k.
Proof. unfold len. now rewrite repeat_length. Qed.

Lemma dec_each_length ds : forall s l s', dec_each ds s = (Ok l, s') -> length l = length ds.
Proof.
  induction ds as [|d ds IH]; intros s l s' H.
  - apply ret_ok_inv in H as [-> _]. reflexivity.
  - cbn [dec_each] in H. apply bind_ok_inv in H as (x & sa & _ & H). apply bind_ok_inv in H as (xs & sb & Hxs & H).
    apply ret_ok_inv in H as [-> _]. cbn [length]. f_equal. now apply (IH sa xs sb).
Qed.

Lemma emb_zip_length fs : forall l, length l = length fs -> length (emb_zip fs l) = length fs.
Proof.
  induction fs as [|f fs IH]; intros l H; [destruct l; [reflexivity|discriminate]|].
  destruct l as [|x l]; [discriminate|]. cbn [emb_zip length]. f_equal. apply IH. now injection H.
Qed.

Theorem agree_all c t : agree_ty c t.
Proof.
  induction t using ty_sind; intros Hs f1 f2; cbn [shared] in Hs.
  - (* leaves *)
    destruct t; try contradiction; try discriminate Hs; cbn [decode_ty shape_of de_s];
      try (apply agrees_fmap; intro; reflexivity).
    (* unit *)
    intros s v s1 w s2 H1 H2.
    apply bind_ok_inv in H1 as (r & sa & Hr & H1).
    apply bind_ok_inv in H2 as (u & sb & Hu & H2). apply ret_ok_inv in H2 as [-> ->].
    unfold de_unit in Hu. apply bind_ok_inv in Hu as (r' & sa' & Hr' & Hu). rewrite Hr in Hr'. injection Hr' as <- <-.
    destruct (opt_eqb r 0); [|discriminate]. apply ret_ok_inv in H1 as [-> ->]. apply ret_ok_inv in Hu as [_ ->].
    now split.
  - (* option *)
    cbn [decode_ty shape_of de_s]. unfold de_option. intros s v s1 w s2 H1 H2.
    apply bind_ok_inv in H1 as (dt & sa & Hd & H1). apply bind_ok_inv in H2 as (dt' & sa' & Hd' & H2).
    rewrite Hd in Hd'. injection Hd' as <- <-.
    destruct (ctype_is_null dt).
    + apply bind_ok_inv in H1 as (u & sb & Hu & H1). apply ret_ok_inv in H1 as [-> ->].
      apply bind_ok_inv in H2 as (u' & sb' & Hu' & H2). apply ret_ok_inv in H2 as [-> ->].
      rewrite Hu in Hu'. injection Hu' as <- <-. now split.
    + apply fmap_ok_inv in H1 as (x & Hx & ->). apply fmap_ok_inv in H2 as (y & Hy & ->).
      destruct (IHt Hs f1 f2 sa x s1 y s2 Hx Hy) as [-> ->]. now split.
  - (* sequences *)
    cbn [decode_ty shape_of de_s]. intros s v s1 w s2 H1 H2.
    apply fmap_ok_inv in H1 as (l1 & H1 & ->). unfold dec_seq in H1. apply bind_ok_inv in H1 as (r & sa & Hr & H1).
    apply bind_ok_inv in H2 as (l2 & sb & H2 & Hret). apply ret_ok_inv in Hret as [-> ->].
    unfold de_seq_of in H2. apply bind_ok_inv in H2 as (r' & sa' & Hr' & H2). rewrite Hr in Hr'. injection Hr' as <- <-.
    destruct r as [n|].
    + destruct (dec_n_agree (embed t) _ _ (IHt Hs f1 f2) f1 n [] f2 sa l1 s1 l2 sb H1 H2) as [-> ->].
      cbn [embed]. now rewrite len_map.
    + destruct (dec_brk_agree (embed t) _ _ (IHt Hs f1 f2) f1 [] f2 sa l1 s1 l2 sb H1 H2) as [-> ->].
      cbn [embed]. now rewrite len_map.
  - (* fixed arrays *)
    apply andb_prop in Hs as [Hn Hs]. cbn [decode_ty shape_of de_s]. intros s v s1 w s2 H1 H2.
    apply fmap_ok_inv in H1 as (l1 & H1 & ->). unfold dec_arr in H1. apply bind_ok_inv in H1 as (r & sa & Hr & H1).
    apply bind_ok_inv in H1 as (l & sb & Hl & H1).
    destruct (N.eqb_spec (len l) n); [|discriminate]. apply ret_ok_inv in H1 as [-> ->].
    apply bind_ok_inv in H2 as (l2 & sc & H2 & Hret). apply ret_ok_inv in Hret as [-> ->].
    unfold de_tuple_of in H2. apply bind_ok_inv in H2 as (r' & sa' & Hr' & H2). rewrite Hr in Hr'. injection Hr' as <- <-.
    rewrite map_repeat, len_repeat_n in H2.
    destruct r as [m|]; cbn [opt_eqb] in H2; [|discriminate].
    destruct (N.eqb_spec m (N.of_nat (N.to_nat n))); [|discriminate]. rewrite N2Nat.id in e0. subst m.
    rewrite <- (N2Nat.id n) in Hl at 2.
    destruct (arr_n_agree (embed t) _ _ (IHt Hs f1 f2) (N.to_nat n) f1 [] n (Some n) sa l sb l2 sc Hl H2) as (xs & -> & -> & ->).
    cbn [rev app embed]. rewrite len_map. cbn [rev app] in e. now rewrite e.
  - (* maps *)
    apply andb_prop in Hs as [Hk Hv]. cbn [decode_ty shape_of de_s]. intros s v s1 w s2 H1 H2.
    apply fmap_ok_inv in H1 as (l1 & H1 & ->). unfold dec_map_seq in H1. apply bind_ok_inv in H1 as (r & sa & Hr & H1).
    apply bind_ok_inv in H1 as (l & sb & Hl & H1). apply ret_ok_inv in H1 as [-> ->].
    apply bind_ok_inv in H2 as (l2 & sc & H2 & Hret). apply ret_ok_inv in Hret as [-> ->].
    unfold de_map_of in H2. apply bind_ok_inv in H2 as (r' & sa' & Hr' & H2). rewrite Hr in Hr'. injection Hr' as <- <-.
    assert (G: exists ps, l = map pairV ps /\ l2 = flat_map (kvs (embed t1) (embed t2)) ps /\ sb = sc).
    { destruct r as [n|].
      - apply (map_n_agree (embed t1) (embed t2) _ _ _ _ (IHt1 Hk f1 f2) (IHt2 Hv f1 f2) f1 n [] f2 sa l sb l2 sc Hl H2).
      - apply (map_brk_agree (embed t1) (embed t2) _ _ _ _ (IHt1 Hk f1 f2) (IHt2 Hv f1 f2) f1 [] f2 sa l sb l2 sc Hl H2). }
    destruct G as (ps & -> & -> & ->). split; [|reflexivity].
    cbn [embed]. rewrite flatten_pairV. unfold emb_alt. rewrite emb_alt_pairs, len_pairs. reflexivity.
  - (* tuples *)
    apply andb_prop in Hs as [_ Hs]. cbn [decode_ty shape_of de_s]. intros s v s1 w s2 H1 H2.
    apply bind_ok_inv in H1 as (r & sa & Hr & H1).
    destruct (opt_eqb r (len ts)) eqn:Eo; [|discriminate].
    apply fmap_ok_inv in H1 as (l1 & H1 & ->).
    apply bind_ok_inv in H2 as (l2 & sc & H2 & Hret). apply ret_ok_inv in Hret as [-> ->].
    unfold de_tuple_of in H2. apply bind_ok_inv in H2 as (r' & sa' & Hr' & H2). rewrite Hr in Hr'. injection Hr' as <- <-.
    rewrite map_map, !len_map in H2. rewrite Eo in H2.
    pose proof (agree_list c ts f1 f2 H Hs) as HF.
    replace (map (fun x => de_s c (shape_of x) f2) ts) with (map snd (map (fun t' => (embed t', de_s c (shape_of t') f2)) ts)) in H2
      by (rewrite map_map; reflexivity).
    destruct (dec_each_agree_het _ _ HF r sa l1 s1 l2 sc H1 H2) as [-> ->].
    split; [|reflexivity]. cbn [embed]. rewrite map_map. cbn [fst].
    assert (El: len (emb_zip (map embed ts) l1) = len ts).
    { apply dec_each_length in H1. rewrite map_length in H1. unfold len. f_equal.
      rewrite emb_zip_length; rewrite map_length; [reflexivity|exact H1]. }
    f_equal. exact El.
  - discriminate. - discriminate. - discriminate. - discriminate.
Qed.
