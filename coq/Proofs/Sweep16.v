(* Proofs/Sweep16.v — the 65536 sixteen-bit patterns as a list of N built without any large nat, and the lemma
   that lifts a boolean sweep over it to a statement for every h < 2^16 (finite domain, bound in the statement). *)
From MC Require Import Bytes BytesFacts.
From Coq Require Import Lia.
Local Open Scope N_scope.
Ltac Zify.zify_post_hook ::= Z.to_euclidean_division_equations.

Fixpoint nseq (n : nat) (from : N) : list N :=
  match n with O => [] | S k => from :: nseq k (from + 1) end.

Lemma nseq_in n : forall from x, from <= x < from + N.of_nat n -> In x (nseq n from).
Proof.
  induction n as [|n IH]; intros from x H; [lia|].
  cbn [nseq]. destruct (N.eq_dec x from) as [->|Q]; [left; reflexivity|right].
  apply IH. lia.
Qed.

Definition l256 : list N := nseq 256 0.
Definition all16 : list N := flat_map (fun hi => map (fun lo => hi * 256 + lo) l256) l256.

Lemma all16_in h : h < 65536 -> In h all16.
Proof.
  intro H. unfold all16. apply in_flat_map. exists (h / 256). split.
  - apply nseq_in. lia.
  - apply in_map_iff. exists (h mod 256). split; [lia|]. apply nseq_in. lia.
Qed.

Lemma forall16 (P : N -> bool) : forallb P all16 = true -> forall h, h < 65536 -> P h = true.
Proof. intros H h Hh. rewrite forallb_forall in H. apply H, all16_in, Hh. Qed.

