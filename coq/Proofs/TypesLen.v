(* Proofs/TypesLen.v — C07 for the built-in impls: CborLen is exact (len_ty = number of bytes written). *)
From MC Require Import Bytes BytesFacts Monad Cbor Utf8 Half Decoder Encoder Methods Types EncoderFacts DecoderFacts TypesEnc.
From Coq Require Import Lia.
Local Open Scope N_scope.

Definition len_exact (t : ty) : Prop :=
  ty_ok t = true -> forall v cs, encode_ty t v = Some cs -> len_ty t v = len (flat cs).

Lemma len_enc_all f g l : (forall v cs, f v = Some cs -> g v = len (flat cs)) ->
  forall cs, enc_all f l = Some cs -> sum_map g l = len (flat cs).
Proof.
  intro Hfg. induction l as [|v l IH]; cbn [enc_all sum_map fold_right]; intros cs H.
  - now injection H as <-.
  - apply ocat_some in H as (x & y & Hx & Hy & ->).
    rewrite len_flat_app. fold (sum_map g l). now rewrite (Hfg _ _ Hx), (IH _ Hy).
Qed.

Lemma len_enc_alt fk fv gk gv l :
  (forall v cs, fk v = Some cs -> gk v = len (flat cs)) ->
  (forall v cs, fv v = Some cs -> gv v = len (flat cs)) ->
  forall cs, enc_alt fk fv l = Some cs -> sum_alt gk gv l = len (flat cs).
Proof.
  intros Hk Hv.
  assert (G: forall n l, (length l <= n)%nat -> forall cs, enc_alt fk fv l = Some cs -> sum_alt gk gv l = len (flat cs)).
  { induction n as [|n IH]; intros l' Hn cs H.
    - destruct l'; [|cbn [length] in Hn; lia]. cbn [enc_alt] in H. now injection H as <-.
    - destruct l' as [|k [|v r]]; cbn [enc_alt sum_alt] in *.
      + now injection H as <-.
      + discriminate.
      + apply ocat_some in H as (x & y & Hx & Hy & ->).
        apply ocat_some in Hy as (y1 & y2 & Hy1 & Hy2 & ->).
        rewrite !len_flat_app, (Hk _ _ Hx), (Hv _ _ Hy1), (IH r ltac:(cbn [length] in Hn; lia) _ Hy2). lia. }
  intros cs. apply (G (length l)). lia.
Qed.

Lemma len_enc_zip ts : Forall len_exact ts -> forallb ty_ok ts = true ->
  forall l cs, enc_zip (map encode_ty ts) l = Some cs -> sum_zip (map len_ty ts) l = len (flat cs).
Proof.
  induction 1 as [|t ts Ht Hts IH]; cbn [forallb map enc_zip sum_zip]; intros Hok l cs H.
  - destruct l; [|discriminate]. now injection H as <-.
  - apply andb_prop in Hok as [Hok1 Hok2].
    destruct l as [|v l]; [discriminate|].
    apply ocat_some in H as (x & y & Hx & Hy & ->).
    rewrite len_flat_app, (Ht Hok1 _ _ Hx), (IH Hok2 _ _ Hy). reflexivity.
Qed.

Lemma len_enc_array n : len (flat (enc_array n)) = len_u64 n.
Proof. apply len_type_len. Qed.
Lemma len_enc_map n : len (flat (enc_map n)) = len_u64 n.
Proof. apply len_type_len. Qed.
Lemma len_enc_tag n : len (flat (enc_tag n)) = len_u64 n.
Proof. apply len_type_len. Qed.
Lemma len_enc_bytes b : len (flat (enc_bytes b)) = len_u64 (len b) + len b.
Proof. unfold enc_bytes. now rewrite len_flat_app, len_type_len, flat_one. Qed.
Lemma len_enc_str b : len (flat (enc_str b)) = len_u64 (len b) + len b.
Proof. unfold enc_str. now rewrite len_flat_app, len_type_len, flat_one. Qed.

Ltac inj_some H := apply Some_inj in H; subst.

Theorem len_ty_exact : forall t, len_exact t.
Proof.
  induction t using ty_ind'; unfold len_exact; intros Hok v cs E.
  - (* TyU *) destruct v; cbn [encode_ty] in E; try discriminate.
    destruct (N.leb_spec n (umax w)); [|discriminate]. inj_some E. cbn [len_ty]. now rewrite len_enc_uw.
  - (* TyI *) destruct v; cbn [encode_ty] in E; try discriminate.
    destruct (zin w z) eqn:Hz; [|discriminate]. inj_some E. cbn [len_ty]. now rewrite len_enc_iw.
  - (* TyInt *) destruct v; cbn [encode_ty] in E; try discriminate.
    destruct ((-18446744073709551616 <=? z)%Z && (z <=? 18446744073709551615)%Z); [|discriminate].
    inj_some E. cbn [len_ty]. unfold enc_int.
    destruct (Z.ltb_spec z 0); destruct (Z.leb_spec 0 z); try lia; cbn [negb].
    + now rewrite len_enc_neg64.
    + now rewrite len_enc_u64.
  - (* TyBool *) destruct v; cbn [encode_ty] in E; try discriminate. inj_some E. reflexivity.
  - (* TyChar *) destruct v; cbn [encode_ty] in E; try discriminate.
    destruct (is_scalar n); [|discriminate]. inj_some E. cbn [len_ty]. unfold enc_char. now rewrite len_enc_u32.
  - (* TyF32 *) destruct v; cbn [encode_ty] in E; try discriminate.
    destruct (bits <? 4294967296); [|discriminate]. inj_some E. reflexivity.
  - (* TyF64 *) destruct v; cbn [encode_ty] in E; try discriminate.
    destruct (bits <? 18446744073709551616); [|discriminate]. inj_some E. reflexivity.
  - (* TyNZU *) destruct v; cbn [encode_ty] in E; try discriminate.
    destruct (N.leb_spec n (umax w)); cbn [andb] in E; [|discriminate].
    destruct (negb (n =? 0)); [|discriminate]. inj_some E. cbn [len_ty]. now rewrite len_enc_uw.
  - (* TyNZI *) destruct v; cbn [encode_ty] in E; try discriminate.
    destruct (zin w z) eqn:Hz; cbn [andb] in E; [|discriminate].
    destruct (negb (z =? 0)%Z); [|discriminate]. inj_some E. cbn [len_ty]. now rewrite len_enc_iw.
  - (* TyStr *) destruct v; cbn [encode_ty] in E; try discriminate.
    destruct (bytes_ok b && utf8_valid b); [|discriminate]. inj_some E. cbn [len_ty]. now rewrite len_enc_str.
  - (* TyBytes *) destruct v; cbn [encode_ty] in E; try discriminate.
    destruct (bytes_ok b); [|discriminate]. inj_some E. cbn [len_ty]. now rewrite len_enc_bytes.
  - (* TyByteArr *) destruct v; cbn [encode_ty] in E; try discriminate.
    destruct (bytes_ok b && (len b =? n)); [|discriminate]. inj_some E. cbn [len_ty]. now rewrite len_enc_bytes.
  - (* TyCStr *) destruct v; cbn [encode_ty] in E; try discriminate.
    destruct (bytes_ok b && no_nul b); [|discriminate]. inj_some E. cbn [len_ty].
    rewrite len_enc_bytes, len_app. reflexivity.
  - (* TyUnit *) destruct v; cbn [encode_ty] in E; try discriminate. inj_some E. reflexivity.
  - (* TyOpt *) cbn [ty_ok] in Hok. destruct v; cbn [encode_ty] in E; try discriminate.
    + inj_some E. reflexivity.
    + cbn [len_ty]. now apply IHt.
  - (* TySeq *) cbn [ty_ok] in Hok. destruct v; cbn [encode_ty] in E; try discriminate.
    apply ocat_some in E as (x & y & Hx & Hy & ->). inj_some Hx. cbn [len_ty].
    rewrite len_flat_app, len_enc_array. f_equal. eapply len_enc_all; [|exact Hy]. now apply IHt.
  - (* TyArr *) cbn [ty_ok] in Hok. destruct v; cbn [encode_ty] in E; try discriminate.
    destruct (len l =? n); [|discriminate].
    apply ocat_some in E as (x & y & Hx & Hy & ->). inj_some Hx. cbn [len_ty].
    rewrite len_flat_app, len_enc_array. f_equal. eapply len_enc_all; [|exact Hy]. now apply IHt.
  - (* TyMap *) cbn [ty_ok] in Hok. apply andb_prop in Hok as [Hk Hv].
    destruct v; cbn [encode_ty] in E; try discriminate.
    destruct (N.even (len l)); [|discriminate].
    apply ocat_some in E as (x & y & Hx & Hy & ->). inj_some Hx. cbn [len_ty].
    rewrite len_flat_app, len_enc_map. f_equal.
    eapply len_enc_alt; [| |exact Hy]; [now apply IHt1|now apply IHt2].
  - (* TyTuple *) cbn [ty_ok] in Hok. apply andb_prop in Hok as [_ Hall].
    destruct v; cbn [encode_ty] in E; try discriminate.
    apply ocat_some in E as (x & y & Hx & Hy & ->). inj_some Hx. cbn [len_ty].
    rewrite len_flat_app, len_enc_array. f_equal. now apply len_enc_zip.
  - (* TyFields *) cbn [ty_ok] in Hok. apply andb_prop in Hok as [_ Hall].
    destruct v; cbn [encode_ty] in E; try discriminate.
    apply ocat_some in E as (x & y & Hx & Hy & ->). inj_some Hx. cbn [len_ty].
    rewrite len_flat_app, len_enc_array. f_equal. now apply len_enc_zip.
  - (* TyEnum *) cbn [ty_ok] in Hok. apply andb_prop in Hok as [Hn Hall]. apply N.leb_le in Hn.
    destruct v; cbn [encode_ty] in E; try discriminate.
    destruct (nth_error (map encode_ty ts) (N.to_nat idx)) as [f|] eqn:Hf; [|discriminate].
    destruct (idx <? 4294967296); [|discriminate].
    apply ocat_some in E as (x & y & Hx & Hy & ->). inj_some Hx. cbn [len_ty].
    apply nth_error_map_inv in Hf as (t' & Ht' & <-).
    rewrite (map_nth_error len_ty _ _ Ht').
    assert (Hi: idx < 24).
    { apply nth_error_lt in Ht'. unfold len in Hn. lia. }
    rewrite !len_flat_app. change (len (flat (enc_array 2))) with 1.
    rewrite len_enc_u32. unfold len_u32. destruct (N.leb_spec idx 23); [|lia].
    rewrite Forall_forall in H. rewrite forallb_forall in Hall.
    apply nth_error_In in Ht'. rewrite (H _ Ht' (Hall _ Ht') _ _ Hy). lia.
  - (* TyBound *) cbn [ty_ok] in Hok. destruct v; cbn [encode_ty] in E; try discriminate. cbn [len_ty].
    destruct (N.ltb_spec idx 2).
    + apply ocat_some in E as (x & y & Hx & Hy & ->). inj_some Hx.
      rewrite !len_flat_app. change (len (flat (enc_array 2))) with 1.
      rewrite len_enc_u32. unfold len_u32. destruct (N.leb_spec idx 23); [|lia].
      rewrite (IHt Hok _ _ Hy). lia.
    + destruct (idx =? 2); [|discriminate]. destruct v; try discriminate. inj_some E. reflexivity.
  - (* TyTag *) destruct v; cbn [encode_ty] in E; try discriminate.
    destruct (n <? 18446744073709551616); [|discriminate]. inj_some E. cbn [len_ty]. now rewrite len_enc_tag.
  - (* TyTagged *) cbn [ty_ok] in Hok. cbn [encode_ty] in E.
    destruct (n <? 18446744073709551616); [|discriminate].
    apply ocat_some in E as (x & y & Hx & Hy & ->). inj_some Hx. cbn [len_ty].
    rewrite len_flat_app, len_enc_tag. f_equal. now apply IHt.
  - (* TyDuration *) destruct v; cbn [encode_ty] in E; try discriminate.
    destruct l as [|[s| | | | | | | | |] [|[ns| | | | | | | | |] [|? ?]]]; try discriminate.
    destruct ((s <=? umax B64) && (ns <=? nanos_max)); [|discriminate]. inj_some E. cbn [len_ty].
    rewrite !len_flat_app. change (len (flat (enc_array 2))) with 1. rewrite len_enc_u64, len_enc_u32. lia.
  - (* TySystemTime *) destruct v; cbn [encode_ty] in E; try discriminate.
    destruct v; try discriminate.
    destruct l as [|[s| | | | | | | | |] [|[ns| | | | | | | | |] [|? ?]]]; try discriminate.
    destruct (N.eqb_spec idx 0); cbn [andb] in E; [|discriminate].
    destruct ((s <=? imax B64) && (ns <=? nanos_max)); [|discriminate]. inj_some E. cbn [len_ty].
    change (0 =? 0) with true. cbv iota.
    rewrite !len_flat_app. change (len (flat (enc_array 2))) with 1. rewrite len_enc_u64, len_enc_u32. lia.
Qed.

Theorem len_ty_is_exact : forall t v cs,
  ty_ok t = true -> encode_ty t v = Some cs -> len_ty t v = len (flat cs).
Proof. intros t v cs Hok H. exact (len_ty_exact t Hok v cs H). Qed.
