(* Proofs/EncoderFacts.v — every Encoder method writes the RFC 8949 preferred head (C03). *)
From MC Require Import Bytes BytesFacts Cbor Encoder Methods Utf8.
From Coq Require Import Lia.
Local Open Scope N_scope.

Ltac split_tests :=
  repeat match goal with
  | |- context [?a <=? ?b] => destruct (N.leb_spec a b)
  | |- context [?a <? ?b] => destruct (N.ltb_spec a b)
  end.

Lemma be2_small x : x <= 65535 -> be 2 (x mod 65536) = be 2 x.
Proof. intro. rewrite N.mod_small by lia. reflexivity. Qed.
Lemma be4_small x : x <= 4294967295 -> be 4 (x mod 4294967296) = be 4 x.
Proof. intro. rewrite N.mod_small by lia. reflexivity. Qed.

Ltac head_tac :=
  unfold flat, phead, min_width, as_u8, as_u16, as_u32;
  split_tests; try lia; unfold Cbor.head; cbn [concat app]; rewrite ?app_nil_r;
  rewrite ?be2_small, ?be4_small by lia; rewrite ?N.mod_small by lia;
  repeat (f_equal; try lia).

(* Encoder::type_len (also tag/array/map/bytes/str heads) *)
Lemma type_len_head mt x : x < 18446744073709551616 ->
  flat (type_len (mt * 32) x) = phead mt x.
Proof. intro H. unfold type_len. head_tac. Qed.

Lemma enc_u8_head x : x < 256 -> flat (enc_u8 x) = phead 0 x.
Proof. intro H. unfold enc_u8. head_tac. Qed.
Lemma enc_u16_head x : x < 65536 -> flat (enc_u16 x) = phead 0 x.
Proof. intro H. unfold enc_u16. head_tac. Qed.
Lemma enc_u32_head x : x < 4294967296 -> flat (enc_u32 x) = phead 0 x.
Proof. intro H. unfold enc_u32. head_tac. Qed.
Lemma enc_u64_head x : x < 18446744073709551616 -> flat (enc_u64 x) = phead 0 x.
Proof. intro H. unfold enc_u64. head_tac. Qed.
Lemma enc_neg64_head n : n < 18446744073709551616 -> flat (enc_neg64 n) = phead 1 n.
Proof. intro H. unfold enc_neg64, SIGNED. head_tac. Qed.

Lemma z_item_pos x : (0 <= x)%Z -> enc_pref (z_item x) = phead 0 (Z.to_N x).
Proof. intro H. unfold z_item. destruct (Z.leb_spec 0 x); [reflexivity|lia]. Qed.
Lemma z_item_neg x : (x < 0)%Z -> enc_pref (z_item x) = phead 1 (neg_arg x).
Proof. intro H. unfold z_item, neg_arg. destruct (Z.leb_spec 0 x); [lia|reflexivity]. Qed.

Lemma enc_i8_ok x : zrange (-128) 127 x = true -> flat (enc_i8 x) = enc_pref (z_item x).
Proof.
  unfold zrange. intro H. apply andb_prop in H as [H1 H2]. apply Z.leb_le in H1, H2.
  unfold enc_i8. destruct (Z.leb_spec 0 x).
  - rewrite z_item_pos by lia. apply enc_u8_head. lia.
  - rewrite z_item_neg by lia. assert (neg_arg x < 256) by (unfold neg_arg; lia).
    set (n := neg_arg x) in *. clearbody n. unfold SIGNED. head_tac.
Qed.
Lemma enc_i16_ok x : zrange (-32768) 32767 x = true -> flat (enc_i16 x) = enc_pref (z_item x).
Proof.
  unfold zrange. intro H. apply andb_prop in H as [H1 H2]. apply Z.leb_le in H1, H2.
  unfold enc_i16. destruct (Z.leb_spec 0 x).
  - rewrite z_item_pos by lia. apply enc_u16_head. lia.
  - rewrite z_item_neg by lia. assert (neg_arg x < 65536) by (unfold neg_arg; lia).
    set (n := neg_arg x) in *. clearbody n. unfold SIGNED. head_tac.
Qed.
Lemma enc_i32_ok x : zrange (-2147483648) 2147483647 x = true -> flat (enc_i32 x) = enc_pref (z_item x).
Proof.
  unfold zrange. intro H. apply andb_prop in H as [H1 H2]. apply Z.leb_le in H1, H2.
  unfold enc_i32. destruct (Z.leb_spec 0 x).
  - rewrite z_item_pos by lia. apply enc_u32_head. lia.
  - rewrite z_item_neg by lia. assert (neg_arg x < 4294967296) by (unfold neg_arg; lia).
    set (n := neg_arg x) in *. clearbody n. unfold SIGNED. head_tac.
Qed.
Lemma enc_i64_ok x : zrange (-9223372036854775808) 9223372036854775807 x = true -> flat (enc_i64 x) = enc_pref (z_item x).
Proof.
  unfold zrange. intro H. apply andb_prop in H as [H1 H2]. apply Z.leb_le in H1, H2.
  unfold enc_i64. destruct (Z.leb_spec 0 x).
  - rewrite z_item_pos by lia. apply enc_u64_head. lia.
  - rewrite z_item_neg by lia. apply enc_neg64_head. unfold neg_arg. lia.
Qed.

Lemma is_scalar_lt x : is_scalar x = true -> x < 4294967296.
Proof.
  unfold is_scalar. intro H. apply orb_prop in H as [H|H].
  - apply N.ltb_lt in H. lia.
  - apply andb_prop in H as [_ H]. apply N.ltb_lt in H. lia.
Qed.

Lemma flat_app a b : flat (a ++ b) = flat a ++ flat b.
Proof. unfold flat. apply concat_app. Qed.

(* what every method writes, class F2b included: for MSimple 24..=31 the bytes are [248; x], which enc_pref
   (ISimple x) also gives although that item has no well-formed encoding (item_ok fails: MethodsWf.v) — hence
   the pinned statement methods_preferred below is made for the complement of the class *)
Lemma methods_bytes m cs :
  arg_ok m = true -> run_meth m = Some cs -> flat cs = enc_pref (item_of m).
Proof.
  destruct m; cbn [arg_ok run_meth item_of]; intros Hok Hrun;
    try (injection Hrun as <-).
  - apply enc_u8_head. now apply N.ltb_lt.
  - apply enc_u16_head. now apply N.ltb_lt.
  - apply enc_u32_head. now apply N.ltb_lt.
  - apply enc_u64_head. now apply N.ltb_lt.
  - now apply enc_i8_ok.
  - now apply enc_i16_ok.
  - now apply enc_i32_ok.
  - now apply enc_i64_ok.
  - apply N.ltb_lt in Hok. unfold enc_int. destruct neg; cbn [negb enc_pref].
    + now apply enc_neg64_head.
    + now apply enc_u64_head.
  - apply N.ltb_lt in Hok. unfold enc_simple. cbn [enc_pref].
    destruct (N.leb_spec x 23).
    + destruct (N.ltb_spec x 24); [|lia]. reflexivity.
    + destruct (N.ltb_spec x 24); [lia|]. reflexivity.
  - destruct b; reflexivity.
  - reflexivity.
  - reflexivity.
  - apply enc_u32_head. now apply is_scalar_lt.
  - reflexivity.
  - reflexivity.
  - reflexivity.
  - apply andb_prop in Hok as [_ Hl]. apply N.ltb_lt in Hl.
    unfold enc_bytes. rewrite flat_app. change BYTES with (2 * 32).
    rewrite type_len_head by assumption. cbn [enc_pref flat concat]. now rewrite app_nil_r.
  - apply andb_prop in Hok as [_ Hl]. apply N.ltb_lt in Hl.
    unfold enc_str. rewrite flat_app. change TEXT with (3 * 32).
    rewrite type_len_head by assumption. cbn [enc_pref flat concat]. now rewrite app_nil_r.
Qed.

Theorem methods_preferred m cs :
  arg_ok m = true -> simple_reserved m = false -> run_meth m = Some cs -> flat cs = enc_pref (item_of m).
Proof. intros Hok _ Hrun. now apply methods_bytes. Qed.

(* no call is refused *)
Lemma run_meth_some m : exists cs, run_meth m = Some cs.
Proof. destruct m; cbn [run_meth]; eexists; reflexivity. Qed.

(* F2b: simple(24..=31) is written in the two-byte form *)
Lemma simple_reserved_bytes x : 24 <= x -> run_meth (MSimple x) = Some [[248; x]].
Proof.
  intro H. cbn [run_meth]. unfold enc_simple. destruct (N.leb_spec x 23); [lia|]. reflexivity.
Qed.

Theorem hmethods_preferred h : hmeth_ok h = true -> flat (run_hmeth h) = hmeth_head h.
Proof.
  destruct h; cbn [hmeth_ok run_hmeth hmeth_head]; intro H; apply N.ltb_lt in H.
  - unfold enc_tag. change TAGGED with (6 * 32). now apply type_len_head.
  - unfold enc_array. change ARRAY with (4 * 32). now apply type_len_head.
  - unfold enc_map. change MAP with (5 * 32). now apply type_len_head.
Qed.

(* ---- encode::ArrayIter / MapIter: definite form iff the size hint is exact, else begin … end ---- *)
From MC Require Import Types.

Lemma flat_concat_sers (items : list (list chunk)) (es : list enc) :
  Forall2 (fun cs e => flat cs = ser e) items es -> flat (concat items) = flat_map ser es.
Proof.
  induction 1 as [|cs e items es H _ IH]; [reflexivity|].
  cbn [concat flat_map]. rewrite flat_app, H, IH. reflexivity.
Qed.

Theorem array_iter_form low up items es :
  Forall2 (fun cs e => flat cs = ser e) items es -> low < 18446744073709551616 ->
  (hint_exact low up = true -> low = len es) ->     (* an exact hint is honest *)
  flat (enc_array_iter low up items) =
    if hint_exact low up then ser (EArray (min_width (len es)) es) else ser (EArrayI es).
Proof.
  intros H Hl Hh. unfold enc_array_iter. destruct (hint_exact low up) eqn:E.
  - rewrite flat_app, (flat_concat_sers _ _ H). unfold enc_array. change ARRAY with (4 * 32).
    rewrite type_len_head by exact Hl. rewrite (Hh eq_refl). reflexivity.
  - rewrite !flat_app, (flat_concat_sers _ _ H). reflexivity.
Qed.

Theorem map_iter_form low up pairs es :
  Forall2 (fun cs e => flat cs = ser e) pairs es -> low < 18446744073709551616 ->
  (hint_exact low up = true -> low = len es / 2) ->
  flat (enc_map_iter low up pairs) =
    if hint_exact low up then ser (EMap (min_width (len es / 2)) es) else ser (EMapI es).
Proof.
  intros H Hl Hh. unfold enc_map_iter. destruct (hint_exact low up) eqn:E.
  - rewrite flat_app, (flat_concat_sers _ _ H). unfold enc_map. change MAP with (5 * 32).
    rewrite type_len_head by exact Hl. rewrite (Hh eq_refl). reflexivity.
  - rewrite !flat_app, (flat_concat_sers _ _ H). reflexivity.
Qed.
