(* Proofs/SerdeFacts.v — the encoder side of the serde bridge: ser_s writes exactly the preferred
   serialisation of the documented tree (C17_repr), which is one well-formed item (C17_wf), and on the
   shared data model it writes what the native Encode impls write, chunk for chunk (C18_same_bytes). *)
From MC Require Import Bytes BytesFacts Monad Cbor Utf8 Encoder Methods EncoderFacts Decoder Types Serde SerdeDoc.
From Coq Require Import Lia.
Local Open Scope N_scope.

(* ---- induction principles for the nested types ---- *)
Section SvalInd.
  Variable P : sval -> Prop.
  Hypothesis Hbool : forall b, P (SBool b).
  Hypothesis Hi : forall w z, P (SI w z).
  Hypothesis Hu : forall w n, P (SU w n).
  Hypothesis Hf32 : forall b, P (SF32 b).
  Hypothesis Hf64 : forall b, P (SF64 b).
  Hypothesis Hchar : forall c, P (SChar c).
  Hypothesis Hstr : forall b, P (SStr b).
  Hypothesis Hcstr : forall b, P (SCollectStr b).
  Hypothesis Hbytes : forall b, P (SBytes b).
  Hypothesis Hnone : P SNone.
  Hypothesis Hsome : forall v, P v -> P (SSome v).
  Hypothesis Hunit : P SUnit.
  Hypothesis Hus : P SUnitStruct.
  Hypothesis Huv : forall i n, P (SUnitVariant i n).
  Hypothesis Hns : forall v, P v -> P (SNewtypeStruct v).
  Hypothesis Hnv : forall i n v, P v -> P (SNewtypeVariant i n v).
  Hypothesis Hseq : forall n l, Forall P l -> P (SSeq n l).
  Hypothesis Htup : forall n l, Forall P l -> P (STuple n l).
  Hypothesis Hts : forall n l, Forall P l -> P (STupleStruct n l).
  Hypothesis Htv : forall i nm n l, Forall P l -> P (STupleVariant i nm n l).
  Hypothesis Hmap : forall n l, Forall P l -> P (SMap n l).
  Hypothesis Hstruct : forall n fs, Forall (fun p => P (snd p)) fs -> P (SStruct n fs).
  Hypothesis Hsv : forall i nm n fs, Forall (fun p => P (snd p)) fs -> P (SStructVariant i nm n fs).

  Fixpoint sval_ind' (v : sval) : P v :=
    let list_ind := fix go (l : list sval) : Forall P l :=
      match l with [] => Forall_nil _ | x :: r => Forall_cons _ (sval_ind' x) (go r) end in
    let fields_ind := fix go (l : list (bytes * sval)) : Forall (fun p => P (snd p)) l :=
      match l with [] => Forall_nil _ | (k, x) :: r => Forall_cons (k, x) (sval_ind' x) (go r) end in
    match v with
    | SBool b => Hbool b | SI w z => Hi w z | SU w n => Hu w n | SF32 b => Hf32 b | SF64 b => Hf64 b
    | SChar c => Hchar c | SStr b => Hstr b | SCollectStr b => Hcstr b | SBytes b => Hbytes b
    | SNone => Hnone | SSome x => Hsome x (sval_ind' x) | SUnit => Hunit | SUnitStruct => Hus
    | SUnitVariant i n => Huv i n | SNewtypeStruct x => Hns x (sval_ind' x)
    | SNewtypeVariant i n x => Hnv i n x (sval_ind' x)
    | SSeq n l => Hseq n l (list_ind l) | STuple n l => Htup n l (list_ind l)
    | STupleStruct n l => Hts n l (list_ind l) | STupleVariant i nm n l => Htv i nm n l (list_ind l)
    | SMap n l => Hmap n l (list_ind l)
    | SStruct n fs => Hstruct n fs (fields_ind fs)
    | SStructVariant i nm n fs => Hsv i nm n fs (fields_ind fs)
    end.
End SvalInd.

(* ---- small facts ---- *)
Lemma ocat_some a b cs : ocat a b = Some cs -> exists x y, a = Some x /\ b = Some y /\ cs = x ++ y.
Proof. destruct a, b; cbn; intro H; try discriminate. injection H as <-. eauto. Qed.

Lemma ocat_some_l x b cs : ocat (Some x) b = Some cs -> exists y, b = Some y /\ cs = x ++ y.
Proof. intro H. apply ocat_some in H as (x' & y & [= <-] & -> & ->). eauto. Qed.

Lemma flat_single b : flat [b] = b.
Proof. unfold flat. cbn. apply app_nil_r. Qed.

Lemma phead_ser_uint n : phead 0 n = ser (prefer (EUInt W8 n)).
Proof. reflexivity. Qed.

Lemma two64_eq : two64 = 18446744073709551616.
Proof. reflexivity. Qed.

Lemma enc_uw_head w n : n <= umax w -> flat (enc_uw w n) = phead 0 n.
Proof.
  destruct w; cbn [enc_uw umax]; intro H.
  - apply enc_u8_head; lia. - apply enc_u16_head; lia. - apply enc_u32_head; lia. - apply enc_u64_head; lia.
Qed.

Lemma zin_range w z : zin w z = true -> (-1 - Z.of_N (imax w) <= z <= Z.of_N (imax w))%Z.
Proof. unfold zin. intro H. apply andb_prop in H as [H1 H2]. apply Z.leb_le in H1, H2. lia. Qed.

Lemma z_item_doc z : enc_pref (z_item z) = ser (prefer (doc_int z)).
Proof. unfold z_item, doc_int. destruct (0 <=? z)%Z; reflexivity. Qed.

Lemma enc_iw_doc w z : zin w z = true -> flat (enc_iw w z) = ser (prefer (doc_int z)).
Proof.
  intro H. rewrite <- z_item_doc. apply zin_range in H.
  destruct w; cbn [enc_iw imax] in *.
  - apply enc_i8_ok. unfold zrange. apply andb_true_intro; split; apply Z.leb_le; lia.
  - apply enc_i16_ok. unfold zrange. apply andb_true_intro; split; apply Z.leb_le; lia.
  - apply enc_i32_ok. unfold zrange. apply andb_true_intro; split; apply Z.leb_le; lia.
  - apply enc_i64_ok. unfold zrange. apply andb_true_intro; split; apply Z.leb_le; lia.
Qed.

Lemma enc_str_flat b : len b < two64 -> flat (enc_str b) = phead 3 (len b) ++ b.
Proof.
  intro H. unfold enc_str. rewrite flat_app. change TEXT with (3 * 32).
  rewrite type_len_head by (rewrite two64_eq in H; exact H). now rewrite flat_single.
Qed.
Lemma enc_bytes_flat b : len b < two64 -> flat (enc_bytes b) = phead 2 (len b) ++ b.
Proof.
  intro H. unfold enc_bytes. rewrite flat_app. change BYTES with (2 * 32).
  rewrite type_len_head by (rewrite two64_eq in H; exact H). now rewrite flat_single.
Qed.
Lemma enc_array_flat n : n < two64 -> flat (enc_array n) = phead 4 n.
Proof. intro H. unfold enc_array. change ARRAY with (4 * 32). apply type_len_head. now rewrite two64_eq in H. Qed.
Lemma enc_map_flat n : n < two64 -> flat (enc_map n) = phead 5 n.
Proof. intro H. unfold enc_map. change MAP with (5 * 32). apply type_len_head. now rewrite two64_eq in H. Qed.

Lemma name_ok_len b : name_ok b = true -> len b < two64.
Proof. unfold name_ok. intro H. apply andb_prop in H as [_ H]. now apply N.ltb_lt. Qed.

Lemma len_map {A B} (f : A -> B) l : len (map f l) = len l.
Proof. unfold len. now rewrite map_length. Qed.

(* the documented tree of a field list, as a function *)
Fixpoint doc_fields (fs : list (bytes * sval)) : list enc :=
  match fs with [] => [] | (k, x) :: r => EText W8 k :: serde_doc_tree x :: doc_fields r end.

Lemma doc_fields_fix fs :
  (fix go (fs : list (bytes * sval)) : list enc :=
     match fs with [] => [] | (k, x) :: r => EText W8 k :: serde_doc_tree x :: go r end) fs = doc_fields fs.
Proof. induction fs as [|[k x] r IH]; [reflexivity|]. cbn [doc_fields]. now rewrite <- IH. Qed.

Lemma doc_struct n fs : serde_doc_tree (SStruct n fs) = EMap W8 (doc_fields fs).
Proof. cbn [serde_doc_tree]. now rewrite doc_fields_fix. Qed.
Lemma doc_struct_variant i nm n fs :
  serde_doc_tree (SStructVariant i nm n fs) = EMap W8 [EText W8 nm; EMap W8 (doc_fields fs)].
Proof. cbn [serde_doc_tree]. now rewrite doc_fields_fix. Qed.

Lemma len_doc_fields fs : len (doc_fields fs) = 2 * len fs.
Proof.
  induction fs as [|[k x] r IH]; [reflexivity|]. cbn [doc_fields]. rewrite !len_cons, IH. lia.
Qed.

Definition repr_ok (c : cfg) (v : sval) : Prop :=
  forall cs, sval_ok v = true -> ser_s c v = Some cs -> flat cs = ser (prefer (serde_doc_tree v)).

Lemma all_s_repr c l : Forall (repr_ok c) l -> forall cs, forallb sval_ok l = true ->
  all_s (ser_s c) l = Some cs -> flat cs = flat_map ser (map prefer (map serde_doc_tree l)).
Proof.
  induction 1 as [|x r Hx Hr IH]; intros cs Hok Hs.
  - cbn in Hs. injection Hs as <-. reflexivity.
  - cbn [forallb] in Hok. apply andb_prop in Hok as [Hox Hor].
    cbn [all_s] in Hs. apply ocat_some in Hs as (a & b & Ha & Hb & ->).
    rewrite flat_app. cbn [map flat_map]. rewrite (Hx a Hox Ha). f_equal. now apply IH.
Qed.

Lemma fields_s_repr c fs : Forall (fun p => repr_ok c (snd p)) fs -> forall cs,
  forallb (fun p => name_ok (fst p) && sval_ok (snd p)) fs = true ->
  fields_s (ser_s c) fs = Some cs -> flat cs = flat_map ser (map prefer (doc_fields fs)).
Proof.
  induction 1 as [|[k x] r Hx Hr IH]; intros cs Hok Hs.
  - cbn in Hs. injection Hs as <-. reflexivity.
  - cbn [forallb fst snd] in Hok. apply andb_prop in Hok as [Hox Hor]. apply andb_prop in Hox as [Hk Hox].
    cbn [fields_s] in Hs. apply ocat_some_l in Hs as (y & Hs & ->).
    apply ocat_some in Hs as (a & b & Ha & Hb & ->).
    rewrite !flat_app. cbn [doc_fields map flat_map snd] in *.
    rewrite (Hx a Hox Ha), (IH b Hor Hb), enc_str_flat by now apply name_ok_len.
    reflexivity.
Qed.

Ltac split_ok H :=
  repeat match type of H with
  | (_ && _) = true => let H2 := fresh "Hk" in apply andb_prop in H as [H H2]
  end.

Lemma len_div2_fields fs : len (map prefer (doc_fields fs)) / 2 = len fs.
Proof. rewrite len_map, len_doc_fields, N.mul_comm. apply N.div_mul. lia. Qed.

Lemma len_div2_fields' fs : len (doc_fields fs) / 2 = len fs.
Proof. rewrite len_doc_fields, N.mul_comm. apply N.div_mul. lia. Qed.

Theorem ser_s_repr c v : repr_ok c v.
Proof.
  induction v using sval_ind'; intros cs Hok Hs; cbn [ser_s] in Hs; cbn [sval_ok] in Hok.
  - injection Hs as <-. destruct b; reflexivity.
  - injection Hs as <-. now apply enc_iw_doc.
  - injection Hs as <-. apply N.leb_le in Hok. now apply enc_uw_head.
  - injection Hs as <-. reflexivity.
  - injection Hs as <-. reflexivity.
  - injection Hs as <-. unfold enc_char. apply enc_u32_head. now apply is_scalar_lt.
  - injection Hs as <-. apply enc_str_flat. now apply name_ok_len.
  - destruct (c_alloc c); [|discriminate]. injection Hs as <-. apply enc_str_flat. now apply name_ok_len.
  - injection Hs as <-. apply andb_prop in Hok as [_ Hl]. apply N.ltb_lt in Hl. now apply enc_bytes_flat.
  - injection Hs as <-. reflexivity.
  - now apply IHv.
  - injection Hs as <-. reflexivity.
  - injection Hs as <-. reflexivity.
  - injection Hs as <-. apply andb_prop in Hok as [Hn _]. apply enc_str_flat. now apply name_ok_len.
  - now apply IHv.
  - (* newtype variant *)
    split_ok Hok. apply ocat_some_l in Hs as (y & Hs & ->).
    rewrite !flat_app, (IHv y Hk Hs), enc_str_flat by now apply name_ok_len.
    cbn [serde_doc_tree prefer ser map flat_map len]. rewrite app_nil_r, <- app_assoc. reflexivity.
  - (* seq *)
    destruct n as [n|].
    + split_ok Hok. apply N.eqb_eq in Hok. apply N.ltb_lt in Hk0.
      apply ocat_some_l in Hs as (y & Hs & ->). rewrite flat_app, enc_array_flat by assumption.
      rewrite (all_s_repr c l H y Hk Hs). cbn [serde_doc_tree prefer ser]. rewrite !len_map. now subst n.
    + apply ocat_some_l in Hs as (y & Hs & ->). apply ocat_some in Hs as (a & b & Ha & [= <-] & ->).
      rewrite !flat_app, (all_s_repr c l H a Hok Ha). reflexivity.
  - split_ok Hok. apply N.eqb_eq in Hok. apply N.ltb_lt in Hk0.
    apply ocat_some_l in Hs as (y & Hs & ->). rewrite flat_app, enc_array_flat by assumption.
    rewrite (all_s_repr c l H y Hk Hs). cbn [serde_doc_tree prefer ser]. rewrite !len_map. now subst n.
  - split_ok Hok. apply N.eqb_eq in Hok. apply N.ltb_lt in Hk0.
    apply ocat_some_l in Hs as (y & Hs & ->). rewrite flat_app, enc_array_flat by assumption.
    rewrite (all_s_repr c l H y Hk Hs). cbn [serde_doc_tree prefer ser]. rewrite !len_map. now subst n.
  - (* tuple variant *)
    split_ok Hok. apply N.eqb_eq in Hk1. apply N.ltb_lt in Hk0.
    apply ocat_some_l in Hs as (y & Hs & ->).
    rewrite !flat_app, enc_array_flat, enc_str_flat by (assumption || now apply name_ok_len).
    rewrite (all_s_repr c l H y Hk Hs).
    cbn [serde_doc_tree prefer ser map flat_map len]. rewrite !len_map, app_nil_r, <- !app_assoc. now subst n.
  - (* map *)
    destruct n as [n|].
    + split_ok Hok. apply N.eqb_eq in Hk1. apply N.ltb_lt in Hk0.
      apply ocat_some_l in Hs as (y & Hs & ->). rewrite flat_app, enc_map_flat by assumption.
      rewrite (all_s_repr c l H y Hk Hs). cbn [serde_doc_tree prefer ser]. rewrite !len_map. now subst n.
    + apply andb_prop in Hok as [_ Hok].
      apply ocat_some_l in Hs as (y & Hs & ->). apply ocat_some in Hs as (a & b & Ha & [= <-] & ->).
      rewrite !flat_app, (all_s_repr c l H a Hok Ha). reflexivity.
  - (* struct *)
    split_ok Hok. apply N.eqb_eq in Hok. apply N.ltb_lt in Hk0.
    apply ocat_some_l in Hs as (y & Hs & ->). rewrite flat_app, enc_map_flat by assumption.
    rewrite (fields_s_repr c fs H y Hk Hs), doc_struct. cbn [prefer ser]. rewrite len_div2_fields, len_div2_fields'. now subst n.
  - (* struct variant *)
    split_ok Hok. apply N.eqb_eq in Hk1. apply N.ltb_lt in Hk0.
    apply ocat_some_l in Hs as (y & Hs & ->).
    rewrite !flat_app, enc_map_flat, enc_map_flat, enc_str_flat by (assumption || now apply name_ok_len || (rewrite two64_eq; lia)).
    rewrite (fields_s_repr c fs H y Hk Hs), doc_struct_variant.
    cbn [prefer ser map flat_map]. rewrite len_div2_fields, len_div2_fields', app_nil_r, <- !app_assoc. now subst n.
Qed.

(* ---- well-formedness of the preferred documented tree ---- *)
Lemma fits_min_width n : n < two64 -> fits (min_width n) n = true.
Proof.
  intro H. rewrite two64_eq in H. unfold min_width.
  destruct (N.ltb_spec n 24); [cbn; now apply N.ltb_lt|].
  destruct (N.ltb_spec n 256); [cbn; now apply N.ltb_lt|].
  destruct (N.ltb_spec n 65536); [cbn; now apply N.ltb_lt|].
  destruct (N.ltb_spec n 4294967296); [cbn; now apply N.ltb_lt|].
  cbn. now apply N.ltb_lt.
Qed.

Lemma name_ok_bytes b : name_ok b = true -> bytes_ok b = true.
Proof. unfold name_ok. intro H. apply andb_prop in H as [H _]. now apply andb_prop in H as [H _]. Qed.

Lemma wf_text b : name_ok b = true -> wf (prefer (EText W8 b)) = true.
Proof.
  intro H. cbn [prefer wf]. rewrite fits_min_width by now apply name_ok_len. now rewrite (name_ok_bytes b H).
Qed.

Lemma wf_variant nm e : name_ok nm = true -> wf (prefer e) = true ->
  wf (prefer (EMap W8 [EText W8 nm; e])) = true.
Proof.
  intros Hn He. pose proof (wf_text nm Hn) as Ht. cbn [prefer map wf forallb] in *.
  assert (E1: forall (a b : enc), len [a; b] = 2) by reflexivity. rewrite !E1.
  change (2 / 2) with 1. change (N.even 2) with true. change (min_width 1) with W0. change (fits W0 1) with true.
  cbn [andb]. now rewrite Ht, He.
Qed.

Definition wf_doc (v : sval) : Prop := sval_ok v = true -> wf (prefer (serde_doc_tree v)) = true.

Lemma wf_doc_list l : Forall wf_doc l -> forallb sval_ok l = true ->
  forallb wf (map prefer (map serde_doc_tree l)) = true.
Proof.
  induction 1 as [|x r Hx Hr IH]; intro Hok; [reflexivity|].
  cbn [forallb] in Hok. apply andb_prop in Hok as [Hox Hor]. cbn [map forallb]. now rewrite (Hx Hox), IH.
Qed.

Lemma wf_doc_fields fs : Forall (fun p => wf_doc (snd p)) fs ->
  forallb (fun p => name_ok (fst p) && sval_ok (snd p)) fs = true ->
  forallb wf (map prefer (doc_fields fs)) = true.
Proof.
  induction 1 as [|[k x] r Hx Hr IH]; intro Hok; [reflexivity|].
  cbn [forallb fst snd] in Hok. apply andb_prop in Hok as [Hox Hor]. apply andb_prop in Hox as [Hk Hox].
  cbn [doc_fields map forallb snd] in *. rewrite (wf_text k Hk), (Hx Hox), IH by assumption. reflexivity.
Qed.

Lemma even_doc_fields fs : N.even (len (map prefer (doc_fields fs))) = true.
Proof. rewrite len_map, len_doc_fields. apply N.even_spec. now exists (len fs). Qed.

Lemma doc_int_wf w z : zin w z = true -> wf (prefer (doc_int z)) = true.
Proof.
  intro H. apply zin_range in H. assert (Hm: imax w <= 9223372036854775807) by (destruct w; cbn; lia).
  unfold doc_int. destruct (Z.leb_spec 0 z); cbn [prefer wf]; apply fits_min_width; rewrite two64_eq; lia.
Qed.

Lemma doc_wf_seq n l : Forall wf_doc l -> wf_doc (SSeq n l).
Proof.
  intros H Hok. cbn [sval_ok] in Hok. cbn [serde_doc_tree]. destruct n as [n|].
  - split_ok Hok. cbn [prefer wf]. rewrite !len_map. apply N.eqb_eq in Hok. subst n. apply N.ltb_lt in Hk0.
    rewrite fits_min_width by assumption. now rewrite wf_doc_list.
  - cbn [prefer wf]. now apply wf_doc_list.
Qed.

Lemma doc_wf_arr n l : Forall wf_doc l -> (n =? len l) && (n <? two64) && forallb sval_ok l = true ->
  wf (prefer (EArray W8 (map serde_doc_tree l))) = true.
Proof.
  intros H Hok. split_ok Hok. cbn [prefer wf]. rewrite !len_map. apply N.eqb_eq in Hok. subst n. apply N.ltb_lt in Hk0.
  rewrite fits_min_width by assumption. now rewrite wf_doc_list.
Qed.

Lemma doc_wf_map n l : Forall wf_doc l -> wf_doc (SMap n l).
Proof.
  intros H Hok. cbn [sval_ok] in Hok. cbn [serde_doc_tree]. destruct n as [n|].
  - split_ok Hok. cbn [prefer wf]. rewrite !len_map. apply N.eqb_eq in Hk1. rewrite <- Hk1. apply N.ltb_lt in Hk0.
    rewrite Hok, fits_min_width by assumption. now rewrite wf_doc_list.
  - apply andb_prop in Hok as [He Hok]. cbn [prefer wf]. rewrite !len_map, He. now apply wf_doc_list.
Qed.

Lemma doc_wf_fields n fs : Forall (fun p => wf_doc (snd p)) fs ->
  (n =? len fs) && (n <? two64) && forallb (fun p => name_ok (fst p) && sval_ok (snd p)) fs = true ->
  wf (prefer (EMap W8 (doc_fields fs))) = true.
Proof.
  intros H Hok. split_ok Hok. apply N.eqb_eq in Hok. subst n. apply N.ltb_lt in Hk0.
  cbn [prefer wf]. rewrite even_doc_fields, len_div2_fields, len_div2_fields', fits_min_width by assumption.
  now rewrite wf_doc_fields.
Qed.

Theorem doc_wf v : wf_doc v.
Proof.
  induction v using sval_ind'; intro Hok.
  - destruct b; reflexivity.
  - now apply (doc_int_wf w).
  - cbn [sval_ok] in Hok. apply N.leb_le in Hok. cbn [serde_doc_tree prefer wf]. apply fits_min_width.
    rewrite two64_eq. destruct w; cbn [umax] in Hok; lia.
  - exact Hok.
  - cbn [sval_ok] in Hok. cbn [serde_doc_tree prefer wf]. apply N.ltb_lt in Hok. apply N.ltb_lt. rewrite two64_eq in Hok. exact Hok.
  - cbn [sval_ok] in Hok. cbn [serde_doc_tree prefer wf]. apply fits_min_width. apply is_scalar_lt in Hok. rewrite two64_eq. lia.
  - now apply wf_text.
  - now apply wf_text.
  - cbn [sval_ok] in Hok. apply andb_prop in Hok as [Hb Hl]. apply N.ltb_lt in Hl. cbn [serde_doc_tree prefer wf].
    now rewrite fits_min_width, Hb.
  - reflexivity.
  - now apply IHv.
  - reflexivity.
  - reflexivity.
  - cbn [sval_ok] in Hok. apply andb_prop in Hok as [Hn _]. now apply wf_text.
  - now apply IHv.
  - cbn [sval_ok] in Hok. split_ok Hok. cbn [serde_doc_tree]. apply wf_variant; [assumption|now apply IHv].
  - now apply doc_wf_seq.
  - cbn [sval_ok] in Hok. cbn [serde_doc_tree]. now apply (doc_wf_arr n).
  - cbn [sval_ok] in Hok. cbn [serde_doc_tree]. now apply (doc_wf_arr n).
  - cbn [sval_ok] in Hok. cbn [serde_doc_tree]. rewrite <- !andb_assoc in Hok. apply andb_prop in Hok as [Hn Hok].
    apply andb_prop in Hok as [_ Hok]. rewrite !andb_assoc in Hok.
    apply wf_variant; [assumption|]. now apply (doc_wf_arr n).
  - now apply doc_wf_map.
  - cbn [sval_ok] in Hok. rewrite doc_struct. now apply (doc_wf_fields n).
  - cbn [sval_ok] in Hok. rewrite doc_struct_variant. rewrite <- !andb_assoc in Hok. apply andb_prop in Hok as [Hn Hok].
    apply andb_prop in Hok as [_ Hok]. rewrite !andb_assoc in Hok.
    apply wf_variant; [assumption|]. now apply (doc_wf_fields n).
Qed.

Theorem ser_s_wf c v cs : sval_ok v = true -> ser_s c v = Some cs ->
  exists e, flat cs = ser e /\ wf e = true.
Proof.
  intros Hok Hs. exists (prefer (serde_doc_tree v)). split; [now apply (ser_s_repr c v)|now apply doc_wf].
Qed.

(* the only refusal: collect_str without alloc *)
Lemma all_s_total c l : Forall (fun x => exists cs, ser_s c x = Some cs) l -> exists cs, all_s (ser_s c) l = Some cs.
Proof.
  induction 1 as [|x r [a Ha] _ [b Hb]]; [now exists []|]. exists (a ++ b). cbn [all_s]. now rewrite Ha, Hb.
Qed.

Lemma fields_s_total c fs : Forall (fun p => exists cs, ser_s c (snd p) = Some cs) fs ->
  exists cs, fields_s (ser_s c) fs = Some cs.
Proof.
  induction 1 as [|[k x] r [a Ha] _ [b Hb]]; [now exists []|]. cbn [snd] in Ha.
  eexists. cbn [fields_s]. rewrite Ha, Hb. reflexivity.
Qed.

Theorem ser_s_total c v : c_alloc c = true -> exists cs, ser_s c v = Some cs.
Proof.
  intro Hc. induction v using sval_ind'; cbn [ser_s]; try (eexists; reflexivity); try assumption.
  - rewrite Hc. eexists; reflexivity.
  - destruct IHv as [a ->]. eexists; reflexivity.
  - destruct (all_s_total c l H) as [a Ha]. destruct n; rewrite Ha; eexists; reflexivity.
  - destruct (all_s_total c l H) as [a ->]. eexists; reflexivity.
  - destruct (all_s_total c l H) as [a ->]. eexists; reflexivity.
  - destruct (all_s_total c l H) as [a ->]. eexists; reflexivity.
  - destruct (all_s_total c l H) as [a Ha]. destruct n; rewrite Ha; eexists; reflexivity.
  - destruct (fields_s_total c fs H) as [a ->]. eexists; reflexivity.
  - destruct (fields_s_total c fs H) as [a ->]. eexists; reflexivity.
Qed.
