(* Proofs/DeriveSkipFacts.v — skip() consumes, as one item, everything the derived encoder writes for a field or a body
   (the premise of C10_compat), derived from C08 (the bytes are the preferred serialisation of the documented tree,
   DeriveDocFacts) and C06 (skip on well-formed items, TypeSemLoops.skip_item) for every configuration: the documented tree
   has no indefinite container, and its text is valid UTF-8 when the value's text is. *)
From MC Require Import Bytes BytesFacts Monad Cbor Item Denote Acc Decoder Encoder EncoderFacts DecoderFacts Types TypeSem
  DeriveSchema DeriveEnc DeriveLen DeriveDec DeriveDoc DeriveKnown DeriveCompat DeriveMigrate
  DeriveFacts DeriveLenFacts DeriveDocFacts DeriveDecFacts DeriveCompatFacts ItemFacts TypeSemLoops DeriveClosed.
From Coq Require Import Lia Permutation.
Local Open Scope N_scope.

Definition goodp (e : enc) : bool := Acc.utf8_ok (prefer e) && defonly (prefer e).

Lemma defonly_noalloc e : defonly e = true -> noalloc_ok e = true.
Proof. induction e; cbn [defonly noalloc_ok]; auto; discriminate. Qed.

Lemma goodp_skippable c e : wfp e = true -> goodp e = true -> DeriveCompatFacts.skippable c (sp e).
Proof.
  intros Hw Hg r p L HL Hp. apply andb_prop in Hg as [Hu Hd]. unfold sp in *. apply skip_item.
  - exact Hw.
  - unfold TypeSem.skippable. rewrite Hu, (defonly_noalloc _ Hd). now rewrite orb_true_r.
  - unfold two64 in HL. lia.
  - exact Hp.
Qed.

Lemma forallb_map_comp {A B} (f : B -> bool) (g : A -> B) l : forallb f (map g l) = forallb (fun x => f (g x)) l.
Proof. induction l as [|a r IH]; cbn [map forallb]; [reflexivity|now rewrite IH]. Qed.

Lemma forallb_and {A} (f g : A -> bool) l : forallb (fun x => f x && g x) l = forallb f l && forallb g l.
Proof. induction l as [|a r IH]; cbn [forallb]; [reflexivity|]. rewrite IH. destruct (f a), (g a), (forallb f r), (forallb g r); reflexivity. Qed.

Lemma goodp_array es : forallb goodp es = true -> goodp (EArray W0 es) = true.
Proof. intro H. unfold goodp in *. cbn [prefer Acc.utf8_ok defonly]. rewrite !forallb_map_comp, <- forallb_and. exact H. Qed.
Lemma goodp_map es : forallb goodp es = true -> goodp (EMap W0 es) = true.
Proof. intro H. unfold goodp in *. cbn [prefer Acc.utf8_ok defonly]. rewrite !forallb_map_comp, <- forallb_and. exact H. Qed.
Lemma goodp_tagged t e : goodp e = true -> goodp (t_tagged t e) = true.
Proof. destruct t; cbn [t_tagged]; [|auto]. unfold goodp. cbn [prefer Acc.utf8_ok defonly]. auto. Qed.
Lemma goodp_null : goodp t_null = true. Proof. reflexivity. Qed.
Lemma goodp_uint n : goodp (t_uint n) = true. Proof. reflexivity. Qed.

Lemma defonly_item i : defonly (enc_of_item i) = true.
Proof.
  induction i using item_ind_forall; cbn [enc_of_item defonly]; try reflexivity.
  - rewrite forallb_map_comp. apply forallb_forall. rewrite Forall_forall in H. auto.
  - rewrite forallb_map_comp. apply forallb_forall. rewrite Forall_forall in H. auto.
  - assumption.
Qed.
Lemma goodp_item i : Acc.utf8_ok (enc_of_item i) = true -> goodp (enc_of_item i) = true.
Proof. intro H. unfold goodp. rewrite prefer_enc_of_item, H, defonly_item. reflexivity. Qed.

Lemma omap_list_forall {A B} (g : A -> option B) (P : B -> bool) : forall l es, omap_list g l = Some es ->
  (forall v e, In v l -> g v = Some e -> P e = true) -> forallb P es = true.
Proof.
  induction l as [|a r IH]; intros es H HP.
  - injection H as <-. reflexivity.
  - cbn in H. destruct (g a) as [y|] eqn:Ea; [|discriminate].
    change ((fix go (l : list A) : option (list B) := match l with [] => Some [] | x :: r0 => match g x with Some y0 => match go r0 with Some ys => Some (y0 :: ys) | None => None end | None => None end end) r) with (omap_list g r) in H.
    destruct (omap_list g r) as [ys|] eqn:Er; [|discriminate]. injection H as <-. cbn [forallb].
    rewrite (HP a y (or_introl eq_refl) Ea). apply (IH ys eq_refl). intros v e Hv. apply HP. now right.
Qed.

Section Good.
Variable recD : nat -> value -> option enc.
Variable recT : nat -> value -> bool.
Hypothesis Hrecg : forall d v e, recD d v = Some e -> recT d v = true -> goodp e = true.

Lemma fty_tree_good f : forall v e, fty_tree recD f v = Some e -> text_fty recT f v = true -> goodp e = true.
Proof.
  induction f as [t|d|f' IH|f' IH]; intros v e He Ht.
  - cbn in He, Ht. rewrite He in Ht. unfold ty_tree in He. destruct (denote t v) as [i|]; [|discriminate]. injection He as <-. now apply goodp_item.
  - cbn in He. apply (Hrecg d v e He). destruct v; exact Ht.
  - destruct v; cbn in He; try discriminate.
    + injection He as <-. reflexivity.
    + cbn in Ht. now apply (IH v).
  - destruct v; cbn in He; try discriminate. cbn [text_fty] in Ht. rewrite forallb_forall in Ht.
    destruct (omap_list (fty_tree recD f') l) as [es|] eqn:Eo; [|discriminate]. cbn [oarr] in He. injection He as <-.
    apply goodp_array. apply (omap_list_forall _ _ _ _ Eo). intros v e Hv Hve. apply (IH v e Hve). now apply Ht.
Qed.

Definition text_fv (f : field) (v : value) : bool :=
  match f_codec f with CoCustom _ => true | _ => text_fty recT (f_ty f) v end.

Lemma field_tree_good f v e : field_tree recD f v = Some e -> text_fv f v = true -> goodp e = true.
Proof.
  unfold field_tree, text_fv. destruct (f_codec f); try apply fty_tree_good.
  intros H _. destruct v; cbn in H; try discriminate. injection H as <-. destruct (n =? 0); reflexivity.
Qed.

Lemma field_item_good f v e : field_item recD f v = Some e -> text_fv f v = true -> goodp e = true.
Proof.
  unfold field_item. destruct (field_tree recD f v) as [e0|] eqn:E; [|discriminate]. intros [= <-] Ht.
  apply goodp_tagged. now apply (field_tree_good f v).
Qed.

Lemma array_items_good dl : (forall f v, In (f, v) dl -> text_fv f v = true) ->
  forall n acc es, array_items recD dl n acc = Some es -> forallb goodp acc = true -> forallb goodp es = true.
Proof.
  intros Hdl. induction n as [|n IH]; intros acc es; cbn [array_items].
  - intros [= <-]. auto.
  - destruct (at_index dl (N.of_nat n)) as [[f v]|] eqn:Ea.
    + destruct (field_item recD f v) as [e|] eqn:Ef; [|discriminate]. intros H Hacc. apply (IH _ _ H). cbn [forallb]. rewrite Hacc, andb_true_r.
      apply (field_item_good f v e Ef). apply Hdl. now apply at_index_in in Ea as [Hin _].
    + intros H Hacc. apply (IH _ _ H). cbn [forallb]. now rewrite Hacc.
Qed.

Lemma map_entries_good dl : (forall f v, In (f, v) dl -> text_fv f v = true) ->
  forall fuel lo es, map_entries recD dl lo fuel = Some es -> forallb goodp es = true.
Proof.
  intros Hdl. induction fuel as [|fuel IH]; intros lo es; cbn [map_entries].
  - intros [= <-]. reflexivity.
  - destruct (doc_next_key dl lo None) as [k|]; [|intros [= <-]; reflexivity].
    destruct (at_index dl k) as [[f v]|] eqn:Ea; [|discriminate].
    destruct (absent f v); [apply IH|].
    destruct (field_item recD f v) as [e|] eqn:Ef; [|discriminate].
    destruct (map_entries recD dl (Some k) fuel) as [es'|] eqn:Em; [|discriminate]. intros [= <-]. cbn [forallb].
    rewrite (IH _ _ Em), andb_true_r. cbn. apply (field_item_good f v e Ef). apply Hdl. now apply at_index_in in Ea as [Hin _].
Qed.

Lemma doc_fields_good e fs vs b : forallb (fun pf => text_fv (pf_fld pf) (pf_val vs pf)) (sorted_fields fs) = true ->
  doc_fields recD e fs vs = Some b -> goodp b = true.
Proof.
  unfold doc_fields. intros Ht. destruct (Nat.eqb (length vs) (length fs)) eqn:El; [|discriminate]. apply Nat.eqb_eq in El.
  assert (Hdl : forall f v, In (f, v) (decl fs vs) -> text_fv f v = true).
  { intros f v Hin. eapply Permutation_in in Hin; [|apply (decl_perm fs vs El)]. apply in_map_iff in Hin as (pf & E & Hpf).
    unfold DeriveDocFacts.fv in E. inversion E; subst. rewrite forallb_forall in Ht. now apply Ht. }
  destruct e.
  - unfold doc_array. destruct (array_items recD (decl fs vs) (N.to_nat (array_len (decl fs vs))) []) as [es|] eqn:Ea; [|discriminate].
    cbn [oarr]. intro H. injection H as H. subst b. apply goodp_array. now apply (array_items_good _ Hdl _ _ _ Ea).
  - unfold doc_map. destruct (map_entries recD (decl fs vs) None (length (decl fs vs))) as [es|] eqn:Em; [|discriminate].
    intro H. injection H as H. subst b. apply goodp_map. now apply (map_entries_good _ Hdl _ _ _ Em).
Qed.

Lemma text_field_fv vs pf : text_field recT vs pf = text_fv (pf_fld pf) (pf_val vs pf).
Proof. reflexivity. Qed.

Lemma doc_def_good d df v e : def_ok d df = true -> doc_def recD df v = Some e -> text_def recT df v = true -> goodp e = true.
Proof.
  intro Hok.
  destruct df as [enc tag tr sh fs|enc tag io vars]; destruct v as [| | | | | | | |vs|i [| | | | | | | |vs|]]; try discriminate; cbn [doc_def text_def].
  - destruct tr.
    + cbn [def_ok] in Hok. apply andb_prop in Hok as [_ Htr]. destruct tag; [discriminate|]. destruct fs as [|f [|? ?]]; try discriminate.
      apply negb_true_iff in Htr. unfold sorted_fields, active. cbn [with_pos filter pf_fld]. rewrite Htr. cbn [negb sort_by insert_by forallb].
      destruct vs as [|x [|? ?]]; cbn [decl]; rewrite ?Htr; try discriminate.
      intros H Ht. rewrite andb_true_r in Ht. apply (field_tree_good f x e H). exact Ht.
    + destruct (doc_fields recD (struct_encoding enc) fs vs) as [b|] eqn:Eb; [|discriminate]. intros [= <-] Ht.
      apply goodp_tagged. apply (doc_fields_good _ _ _ _ Ht Eb).
  - destruct (find_variant vars i) as [va|]; [|discriminate]. destruct io.
    + destruct (v_fields va), vs; try discriminate. intros [= <-] _. apply goodp_tagged. reflexivity.
    + destruct (is_unit (v_shape va)).
      * destruct vs; [|discriminate]. intros [= <-] _. apply goodp_tagged, goodp_array. cbn [forallb]. rewrite goodp_uint, andb_true_r. cbn.
        apply goodp_tagged. destruct (variant_encoding enc va); reflexivity.
      * destruct (doc_fields recD (variant_encoding enc va) (v_fields va) vs) as [b|] eqn:Eb; [|discriminate]. intros [= <-] Ht.
        apply goodp_tagged, goodp_array. cbn [forallb]. rewrite goodp_uint, andb_true_r. cbn. apply goodp_tagged. apply (doc_fields_good _ _ _ _ Ht Eb).
Qed.
End Good.

Lemma doc_tree_f_good Sc : schema_ok Sc = true -> forall k d v e, doc_tree_f k Sc d v = Some e -> text_f k Sc d v = true -> goodp e = true.
Proof.
  intro Hok. induction k as [|k IH]; intros d v e; cbn [doc_tree_f text_f]; [discriminate|].
  destruct (nth_error Sc d) as [df|] eqn:En; [|discriminate].
  apply (doc_def_good _ _) with (d := d); [|exact (schema_ok_nth Sc d df Hok En)].
  intros d' v' e'. destruct (Nat.ltb d' d); [apply IH|discriminate].
Qed.

(* ---- skip() on what one definition writes ---- *)
Definition fields_skippable (c : cfg) (recE : nat -> value -> option (list chunk)) (fs : list field) (vs : list value) : Prop :=
  forall pf z, In pf (sorted_fields fs) -> enc_field_fn recE (pf_fld pf) (pf_val vs pf) = Some z ->
    DeriveCompatFacts.skippable c (flat z) /\ DeriveCompatFacts.skippable c (flat (enc_tag_opt (f_tag (pf_fld pf)) ++ z)).

(* every item the writer's definition writes for a field (with and without the field's tag), and the body of a variant, is
   skipped by skip() as one item *)
Definition def_skippable (c : cfg) (recE : nat -> value -> option (list chunk)) (df : def) (v : value) : Prop :=
  match df, v with
  | DStruct _ _ _ _ fs, VList vs => fields_skippable c recE fs vs
  | DEnum e _ _ vars, VVar i (VList vs) =>
      match find_variant vars i with
      | Some va => fields_skippable c recE (v_fields va) vs /\
                   (forall cs, enc_fields recE (variant_encoding e va) (v_fields va) vs = Some cs -> DeriveCompatFacts.skippable c (flat cs))
      | None => True
      end
  | _, _ => True
  end.

Section Skip.
Variable c : cfg.
Variable okty : ty -> Prop.
Hypothesis Hty : forall t, okty t -> forall v cs, encode_ty t v = Some cs -> len (flat cs) < two64 ->
  exists e, ty_tree t v = Some e /\ flat cs = ser (prefer e) /\ wf (prefer e) = true.
Variable recE : nat -> value -> option (list chunk).
Variable recD : nat -> value -> option enc.
Variable recK : nat -> value -> bool.
Variable recT : nat -> value -> bool.
Hypothesis Hrec : forall d v cs, recE d v = Some cs -> recK d v = false -> len (flat cs) < two64 -> exists e, recD d v = Some e /\ flat cs = sp e /\ wfp e = true.
Hypothesis Hrecg : forall d v e, recD d v = Some e -> recT d v = true -> goodp e = true.

Lemma field_skippable d vs pf z : field_ok d (pf_fld pf) = true -> f_skip (pf_fld pf) = false -> fty_all okty (f_ty (pf_fld pf)) ->
  enc_field_fn recE (pf_fld pf) (pf_val vs pf) = Some z -> known_field recK vs pf = false -> text_field recT vs pf = true ->
  DeriveCompatFacts.skippable c (flat z) /\ DeriveCompatFacts.skippable c (flat (enc_tag_opt (f_tag (pf_fld pf)) ++ z)).
Proof.
  intros Hok Hs Hall He Hk Ht.
  assert (Htag : tag_ok (f_tag (pf_fld pf)) = true).
  { unfold field_ok in Hok. rewrite Hs in Hok. apply andb_prop in Hok as [_ Hok]. apply andb_prop in Hok as [Hok _].
    apply andb_prop in Hok as [Hok _]. apply andb_prop in Hok as [_ Hok]. exact Hok. }
  split; intros r p L HL Hp.
  - assert (Hb : len (flat z) < two64) by lia.
    destruct (doc_field_ok okty Hty recE recD recK Hrec d vs pf z Hok Hs Hall He Hk Hb) as (e & Hfe & Hz & Hw).
    rewrite Hz in *. apply goodp_skippable; [assumption|apply (field_tree_good recD recT Hrecg _ _ _ Hfe Ht)|assumption|assumption].
  - rewrite flat_app, len_app in Hp. assert (Hb : len (flat z) < two64) by lia.
    destruct (doc_field_ok okty Hty recE recD recK Hrec d vs pf z Hok Hs Hall He Hk Hb) as (e & Hfe & Hz & Hw).
    assert (E : flat (enc_tag_opt (f_tag (pf_fld pf)) ++ z) = sp (t_tagged (f_tag (pf_fld pf)) e)) by (rewrite sp_tagged, flat_app, Hz by assumption; reflexivity).
    rewrite E. apply goodp_skippable; [now apply wfp_tagged|apply goodp_tagged, (field_tree_good recD recT Hrecg _ _ _ Hfe Ht)|assumption|].
    rewrite <- E, flat_app, len_app. exact Hp.
Qed.

Lemma fields_skippable_ok d fs vs : fields_ok d fs = true -> fields_all okty fs ->
  existsb (known_field recK vs) (sorted_fields fs) = false -> forallb (text_field recT vs) (sorted_fields fs) = true ->
  fields_skippable c recE fs vs.
Proof.
  intros Hok Hall Hk Ht pf z Hpf Hz. pose proof Hpf as Hpf'. apply in_sorted_fields in Hpf' as [Hin Hs].
  unfold fields_ok in Hok. apply andb_prop in Hok as [Hok _]. rewrite forallb_forall in Hok.
  unfold fields_all in Hall. rewrite Forall_forall in Hall. rewrite forallb_forall in Ht.
  apply (field_skippable d vs pf z (Hok _ Hin) Hs (Hall _ Hin) Hz); [|now apply Ht].
  destruct (known_field recK vs pf) eqn:E; [|reflexivity]. assert (existsb (known_field recK vs) (sorted_fields fs) = true); [|congruence].
  apply existsb_exists. eauto.
Qed.

Lemma body_skippable d e fs vs cs : fields_ok d fs = true -> fields_all okty fs ->
  known_fields fmt_group recK e fs vs = false -> forallb (text_field recT vs) (sorted_fields fs) = true ->
  enc_fields recE e fs vs = Some cs -> DeriveCompatFacts.skippable c (flat cs).
Proof.
  intros Hok Hall Hk Ht He r p L HL Hp. assert (Hb : len (flat cs) < two64) by lia.
  destruct (doc_fields_ok okty Hty recE recD recK Hrec d e fs vs cs Hok Hall He Hk Hb) as (b & Hdb & Hcb & Hw).
  rewrite Hcb in *. apply goodp_skippable; [assumption| |assumption|assumption].
  apply (doc_fields_good recD recT Hrecg e fs vs b); [|exact Hdb]. exact Ht.
Qed.

Lemma def_skippable_ok d df v : def_ok d df = true -> def_all okty df ->
  known_def fmt_group recK df v = false -> text_def recT df v = true -> def_skippable c recE df v.
Proof.
  destruct df as [e tag tr sh fs|e tag io vars]; destruct v as [| | | | | | | |vs|i [| | | | | | | |vs|]]; try (intros; exact I);
    cbn [def_ok def_all known_def text_def def_skippable]; intros Hok Hall Hk Ht.
  - apply andb_prop in Hok as [Hok _]. apply andb_prop in Hok as [Hok _]. apply andb_prop in Hok as [_ Hfs].
    apply (fields_skippable_ok d fs vs Hfs Hall); [|exact Ht].
    destruct tr; [exact Hk|]. unfold known_fields in Hk. now apply orb_false_iff in Hk as [_ Hk].
  - destruct (find_variant vars i) as [va|] eqn:Ef; [|exact I].
    apply find_variant_in in Ef as [Hin Hi].
    apply andb_prop in Hok as [Hok _]. apply andb_prop in Hok as [_ Hvs].
    rewrite forallb_forall in Hvs. specialize (Hvs va Hin). rewrite Forall_forall in Hall. specialize (Hall va Hin).
    unfold variant_ok in Hvs. apply andb_prop in Hvs as [Hvs Hsh]. apply andb_prop in Hvs as [_ Hfs].
    destruct (is_unit (v_shape va)) eqn:Eu.
    + destruct (v_fields va) eqn:Evf; [|discriminate]. split.
      * intros pf z []. 
      * intros cs He r p L _ _. unfold enc_fields in He. destruct vs; [|discriminate]. cbn in He.
        destruct (variant_encoding e va); injection He as <-.
        -- change (flat (enc_array 0) ++ r) with (128 :: r). change (len (flat (enc_array 0))) with 1. apply skip_empty_array.
        -- change (flat (enc_map 0 ++ []) ++ r) with (160 :: r). change (len (flat (enc_map 0 ++ []))) with 1. apply skip_empty_map.
    + assert (Hio : io = false) by (destruct io; [discriminate|reflexivity]). subst io. cbn [orb] in Hk.
      split.
      * apply (fields_skippable_ok d (v_fields va) vs Hfs Hall); [|exact Ht]. unfold known_fields in Hk. now apply orb_false_iff in Hk as [_ Hk].
      * intros cs He. exact (body_skippable d (variant_encoding e va) (v_fields va) vs cs Hfs Hall Hk Ht He).
Qed.
End Skip.

(* every definition of an accepted schema, on a value outside class F14 whose text is valid UTF-8 — in every configuration *)
Theorem schema_skippable c Sc : schema_ok Sc = true -> schema_all leaf_ok Sc ->
  forall k d df v, nth_error Sc d = Some df ->
  known_f fmt_group (S k) Sc d v = false -> text_f (S k) Sc d v = true ->
  def_skippable c (fun d' v' => if Nat.ltb d' d then gen_encode_f k Sc d' v' else None) df v.
Proof.
  intros Hok Hall k d df v En Hk Ht. cbn [known_f text_f] in Hk, Ht. rewrite En in Hk, Ht.
  assert (Hall' : schema_all (fun t => no_bare_tag t = true) Sc).
  { eapply schema_all_weaken; [|exact Hall]. intros t (_ & _ & H). exact H. }
  apply (def_skippable_ok c (fun t => no_bare_tag t = true) leaf_format
           (fun d' v' => if Nat.ltb d' d then gen_encode_f k Sc d' v' else None)
           (fun d' v' => if Nat.ltb d' d then doc_tree_f k Sc d' v' else None)
           (fun d' v' => if Nat.ltb d' d then known_f fmt_group k Sc d' v' else false)
           (fun d' v' => if Nat.ltb d' d then text_f k Sc d' v' else true)) with (d := d).
  - intros d' v' cs'. destruct (Nat.ltb d' d); [|discriminate]. apply (doc_tree_f_ok (fun t => no_bare_tag t = true) leaf_format Sc Hok Hall').
  - intros d' v' e'. destruct (Nat.ltb d' d); [|discriminate]. apply (doc_tree_f_good Sc Hok).
  - exact (schema_ok_nth Sc d df Hok En).
  - exact (schema_all_nth _ Sc d df Hall' En).
  - exact Hk.
  - exact Ht.
Qed.
