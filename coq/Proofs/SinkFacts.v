(* Proofs/SinkFacts.v — bounded sinks accept exactly what fits, never overrun, leave a chunk-aligned
   prefix behind, and keep position = bytes accepted (C13). *)
From MC Require Import Bytes BytesFacts Encoder Sink EncoderFacts.
From Coq Require Import Lia.
Local Open Scope N_scope.

Definition sink_inv (s : sink) : Prop :=
  s_pos s = len (s_written s) /\ (bounded (s_kind s) = true -> len (s_written s) <= s_cap s).

Lemma flat_cons c cs : flat (c :: cs) = c ++ flat cs.
Proof. reflexivity. Qed.

Lemma bounded_not_partial k : bounded k = true -> partial k = false.
Proof. destruct k; cbn; congruence. Qed.

Lemma run_sink_bounded s cs : bounded (s_kind s) = true -> sink_inv s ->
  let r := run_sink s cs in
  let room := s_cap s - len (s_written s) in
  (fst r = true <-> len (flat cs) <= room)
  /\ s_written (snd r) = s_written s ++ flat (fitting room cs)
  /\ sink_inv (snd r) /\ s_kind (snd r) = s_kind s /\ s_cap (snd r) = s_cap s.
Proof.
  revert s. induction cs as [|c cs IH]; intros s Hb [Hp Hc]; cbn [run_sink fitting flat concat].
  - change (concat []) with (@nil N). rewrite app_nil_r. change (len []) with 0.
    repeat split; auto; try lia.
  - specialize (Hc Hb). unfold write_all. rewrite Hb.
    destruct (N.leb_spec (len c) (s_cap s - len (s_written s))) as [Hfit|Hno].
    + set (s' := mksink (s_kind s) (s_cap s) (s_written s ++ c) (s_pos s + len c)).
      assert (Hb' : bounded (s_kind s') = true) by exact Hb.
      assert (Hi' : sink_inv s').
      { unfold s', sink_inv. cbn [s_pos s_written s_kind s_cap]. rewrite len_app. split; [lia|intro; lia]. }
      destruct (IH s' Hb' Hi') as (H1 & H2 & H3 & H4 & H5).
      unfold s' in *. cbn [s_written s_cap s_kind] in *. rewrite len_app in *.
      replace (s_cap s - (len (s_written s) + len c)) with (s_cap s - len (s_written s) - len c) in * by lia.
      split; [split; intro G; [apply H1 in G | apply H1]; unfold flat in *; lia|].
      split; [rewrite H2; cbn [flat concat]; now rewrite app_assoc|].
      split; [exact H3|]. split; [exact H4|exact H5].
    + unfold write_all_partial. rewrite (bounded_not_partial _ Hb).
      cbn [fst snd flat concat]. change (concat []) with (@nil N). rewrite app_nil_r.
      repeat split; auto; try discriminate; try (intro; lia).
      intro G. exfalso. change (concat (c :: cs)) with (c ++ flat cs) in G. rewrite len_app in G. lia.
Qed.

Lemma run_sink_unbounded s cs : bounded (s_kind s) = false -> partial (s_kind s) = false -> s_pos s = len (s_written s) ->
  run_sink s cs = (true, mksink (s_kind s) (s_cap s) (s_written s ++ flat cs) (s_pos s + len (flat cs))).
Proof.
  revert s. induction cs as [|c cs IH]; intros s Hb Hq Hp; cbn [run_sink].
  - cbn [flat concat]. change (concat []) with (@nil N). rewrite app_nil_r. change (len []) with 0.
    rewrite N.add_0_r. destruct s; reflexivity.
  - unfold write_all. rewrite Hb, Hq. rewrite IH; [|exact Hb|exact Hq|cbn [s_pos s_written]; rewrite len_app; lia].
    cbn [s_kind s_cap s_written s_pos]. change (flat (c :: cs)) with (c ++ flat cs).
    rewrite len_app, app_assoc. f_equal. f_equal. lia.
Qed.

Lemma fitting_prefix room cs : exists rest, flat cs = flat (fitting room cs) ++ rest.
Proof.
  revert room. induction cs as [|c cs IH]; intro room; cbn [fitting].
  - exists []. reflexivity.
  - destruct (len c <=? room).
    + destruct (IH (room - len c)) as (rest & E). exists rest.
      change (flat (c :: cs)) with (c ++ flat cs). change (flat (c :: fitting (room - len c) cs)) with (c ++ flat (fitting (room - len c) cs)).
      rewrite E at 1. now rewrite app_assoc.
    + exists (flat (c :: cs)). reflexivity.
Qed.

(* the statement pinned as C13_sinks *)
Theorem sinks_bounded k cap cs : bounded k = true ->
  let r := run_sink (sink_new k cap) cs in
  (fst r = true <-> len (flat cs) <= cap)
  /\ s_written (snd r) = flat (fitting cap cs)
  /\ (exists rest, flat cs = s_written (snd r) ++ rest)
  /\ s_pos (snd r) = len (s_written (snd r))
  /\ len (s_written (snd r)) <= cap
  /\ (fst r = true -> s_written (snd r) = flat cs).
Proof.
  intro Hb. cbv zeta.
  assert (Hi : sink_inv (sink_new k cap)) by (split; [reflexivity|intro; cbn; change (len []) with 0; lia]).
  destruct (run_sink_bounded (sink_new k cap) cs Hb Hi) as (H1 & H2 & (H3 & H4) & H5 & H6).
  cbn [sink_new s_cap s_written s_kind] in *. change (len (@nil N)) with 0 in *. rewrite N.sub_0_r in *.
  cbn [app] in H2.
  repeat split; try tauto.
  - rewrite H2. apply fitting_prefix.
  - rewrite H5 in H4. rewrite H6 in H4. now apply H4.
  - intro G. apply H1 in G. rewrite H2. clear - G.
    revert cap G. induction cs as [|c cs IH]; intros cap G; [reflexivity|].
    change (flat (c :: cs)) with (c ++ flat cs) in *. rewrite len_app in G. cbn [fitting].
    destruct (N.leb_spec (len c) cap); [|lia].
    change (flat (c :: fitting (cap - len c) cs)) with (c ++ flat (fitting (cap - len c) cs)).
    rewrite IH by lia. reflexivity.
Qed.

(* std's bounded writer behind the io adapter: succeeds iff everything fits; what is left behind is the
   first min(cap, total) bytes of the output (a prefix, not necessarily chunk-aligned) *)
Lemma partial_not_bounded k : partial k = true -> bounded k = false.
Proof. destruct k; cbn; congruence. Qed.

Lemma take_prefix_len {A} (c : list A) room a r : take c room = Some (a, r) -> c = a ++ r /\ len a = room.
Proof. apply take_spec. Qed.

Lemma run_sink_partial s cs : partial (s_kind s) = true ->
  s_pos s = len (s_written s) -> len (s_written s) <= s_cap s ->
  let r := run_sink s cs in
  let room := s_cap s - len (s_written s) in
  (fst r = true <-> len (flat cs) <= room)
  /\ (exists rest, s_written s ++ flat cs = s_written (snd r) ++ rest)
  /\ len (s_written (snd r)) = len (s_written s) + N.min room (len (flat cs))
  /\ s_pos (snd r) = len (s_written (snd r))
  /\ (fst r = true -> s_written (snd r) = s_written s ++ flat cs).
Proof.
  revert s. induction cs as [|c cs IH]; intros s Hq Hp Hc; cbn [run_sink].
  - cbn [flat concat fst snd]. change (concat []) with (@nil N). change (len []) with 0. rewrite app_nil_r.
    repeat split; try lia; auto; try (rewrite N.min_r by lia; lia). exists []. now rewrite app_nil_r.
  - pose proof (partial_not_bounded _ Hq) as Hb. unfold write_all. rewrite Hb, Hq.
    change (flat (c :: cs)) with (c ++ flat cs).
    destruct (N.leb_spec (len c) (s_cap s - len (s_written s))) as [Hfit|Hno].
    + set (s' := mksink (s_kind s) (s_cap s) (s_written s ++ c) (s_pos s + len c)).
      destruct (IH s') as (H1 & (rest & H2) & H3 & H4 & H5); unfold s'; cbn [s_kind s_cap s_written s_pos]; auto;
        try (rewrite len_app; lia).
      unfold s' in *. cbn [s_kind s_cap s_written s_pos] in *. rewrite len_app in *.
      split; [split; intro G; [apply H1 in G|apply H1]; lia|].
      split; [exists rest; rewrite <- H2; now rewrite app_assoc|].
      split; [rewrite H3; lia|]. split; [exact H4|].
      intro G. rewrite H5 by exact G. now rewrite app_assoc.
    + cbn [fst snd]. unfold write_all_partial. rewrite Hq.
      set (room := s_cap s - len (s_written s)) in *.
      destruct (take c room) as [[a r]|] eqn:Et.
      * apply take_spec in Et as [Ec El]. cbn [s_written s_pos]. rewrite !len_app.
        assert (Hlc : len c = len a + len r) by (rewrite Ec; apply len_app).
        split; [split; [discriminate|lia]|].
        split; [exists (r ++ flat cs); rewrite Ec; now rewrite <- !app_assoc|].
        split; [rewrite N.min_l by lia; lia|].
        split; [lia|discriminate].
      * apply take_none in Et. lia.
Qed.

Theorem sinks_partial k cap cs : partial k = true ->
  let r := run_sink (sink_new k cap) cs in
  (fst r = true <-> len (flat cs) <= cap)
  /\ (exists rest, flat cs = s_written (snd r) ++ rest)
  /\ len (s_written (snd r)) = N.min cap (len (flat cs))
  /\ s_pos (snd r) = len (s_written (snd r))
  /\ (fst r = true -> s_written (snd r) = flat cs).
Proof.
  intro Hq. cbv zeta.
  destruct (run_sink_partial (sink_new k cap) cs Hq eq_refl) as (H1 & H2 & H3 & H4 & H5).
  { cbn. change (len []) with 0. lia. }
  cbn [sink_new s_cap s_written] in *. change (len (@nil N)) with 0 in *. rewrite N.sub_0_r in *. cbn [app] in *.
  repeat split; try tauto.
Qed.

Theorem sinks_same k k' cap cap' cs :
  fst (run_sink (sink_new k cap) cs) = true -> fst (run_sink (sink_new k' cap') cs) = true ->
  s_written (snd (run_sink (sink_new k cap) cs)) = s_written (snd (run_sink (sink_new k' cap') cs)).
Proof.
  assert (G: forall k cap, fst (run_sink (sink_new k cap) cs) = true -> s_written (snd (run_sink (sink_new k cap) cs)) = flat cs).
  { intros k0 cap0 H. destruct (bounded k0) eqn:Hb.
    - now apply (sinks_bounded k0 cap0 cs Hb).
    - destruct (partial k0) eqn:Hq.
      + now apply (sinks_partial k0 cap0 cs Hq).
      + rewrite run_sink_unbounded by (auto; reflexivity). reflexivity. }
  intros H1 H2. now rewrite (G k cap H1), (G k' cap' H2).
Qed.

Theorem sinks_unbounded k cap cs : bounded k = false -> partial k = false ->
  run_sink (sink_new k cap) cs = (true, mksink k cap (flat cs) (len (flat cs))).
Proof. intros Hb Hq. rewrite run_sink_unbounded by (auto; reflexivity). reflexivity. Qed.
