(* Proofs/ItemFacts.v — the reference encoder's output is the serialisation of a well-formed, preferred
   tree whose data-model value is the item it was given. *)
From MC Require Import Bytes BytesFacts Cbor Item.
From Coq Require Import Lia.
Local Open Scope N_scope.

Section item_induction.
  Variable P : item -> Prop.
  Hypothesis HU : forall n, P (IUInt n). Hypothesis HN : forall n, P (INInt n).
  Hypothesis HB : forall b, P (IBytes b). Hypothesis HT : forall b, P (IText b).
  Hypothesis HA : forall l, Forall P l -> P (IArray l).
  Hypothesis HM : forall l, Forall P l -> P (IMap l).
  Hypothesis HG : forall t i, P i -> P (ITag t i).
  Hypothesis HS : forall n, P (ISimple n).
  Hypothesis H16 : forall b, P (IF16 b). Hypothesis H32 : forall b, P (IF32 b). Hypothesis H64 : forall b, P (IF64 b).
  Fixpoint item_ind_forall (i : item) : P i :=
    let all := fix go (l : list item) : Forall P l :=
      match l with [] => Forall_nil _ | x :: l' => Forall_cons _ (item_ind_forall x) (go l') end in
    match i with
    | IUInt n => HU n | INInt n => HN n | IBytes b => HB b | IText b => HT b
    | IArray l => HA l (all l) | IMap l => HM l (all l) | ITag t i' => HG t i' (item_ind_forall i')
    | ISimple n => HS n | IF16 b => H16 b | IF32 b => H32 b | IF64 b => H64 b
    end.
End item_induction.

Lemma fits_min_width n : lt64 n = true -> fits (min_width n) n = true.
Proof.
  unfold lt64, min_width. intro H. apply N.ltb_lt in H.
  destruct (N.ltb_spec n 24); [cbn; now apply N.ltb_lt|].
  destruct (N.ltb_spec n 256); [cbn; now apply N.ltb_lt|].
  destruct (N.ltb_spec n 65536); [cbn; now apply N.ltb_lt|].
  destruct (N.ltb_spec n 4294967296); [cbn; now apply N.ltb_lt|].
  cbn. now apply N.ltb_lt.
Qed.

Lemma width_eqb_refl w : width_eqb w w = true.
Proof. destruct w; reflexivity. Qed.

Lemma len_map {A B} (f : A -> B) l : len (map f l) = len l.
Proof. unfold len. now rewrite map_length. Qed.

Lemma flat_map_map {A B C} (f : B -> list C) (g : A -> B) l : flat_map f (map g l) = flat_map (fun x => f (g x)) l.
Proof. induction l; cbn; [reflexivity|]. now rewrite IHl. Qed.

Lemma flat_map_ext_Forall {A B} (f g : A -> list B) l : Forall (fun x => f x = g x) l -> flat_map f l = flat_map g l.
Proof. induction 1; cbn; [reflexivity|]. congruence. Qed.

Theorem ser_enc_of_item i : ser (enc_of_item i) = enc_pref i.
Proof.
  induction i using item_ind_forall; cbn [enc_of_item ser enc_pref]; unfold phead; try reflexivity.
  - rewrite len_map, flat_map_map. f_equal. now apply flat_map_ext_Forall.
  - rewrite len_map, flat_map_map. f_equal. now apply flat_map_ext_Forall.
  - now rewrite IHi.
Qed.

Lemma forallb_map {A B} (p : B -> bool) (g : A -> B) l : forallb p (map g l) = forallb (fun x => p (g x)) l.
Proof. induction l; cbn; [reflexivity|]. now rewrite IHl. Qed.

Lemma forallb_impl_Forall {A} (p q : A -> bool) l :
  Forall (fun x => p x = true -> q x = true) l -> forallb p l = true -> forallb q l = true.
Proof.
  induction 1; cbn; [reflexivity|]. intro G. apply andb_prop in G as [G1 G2]. rewrite H by assumption. now apply IHForall.
Qed.

Theorem wf_enc_of_item i : item_ok i = true -> wf (enc_of_item i) = true.
Proof.
  induction i using item_ind_forall; cbn [enc_of_item wf item_ok]; intro Hok;
    repeat match goal with H : _ && _ = true |- _ => apply andb_prop in H as [? ?] end;
    try (apply fits_min_width; assumption); try assumption.
  - rewrite fits_min_width by assumption. assumption.
  - rewrite fits_min_width by assumption. assumption.
  - rewrite len_map, fits_min_width by assumption. cbn [andb]. rewrite forallb_map.
    eapply forallb_impl_Forall; [|eassumption]. exact H.
  - rewrite len_map. rewrite fits_min_width by assumption.
    match goal with H : N.even _ = true |- _ => rewrite H end. cbn [andb]. rewrite forallb_map.
    eapply forallb_impl_Forall; [|eassumption]. exact H.
  - rewrite fits_min_width by assumption. now apply IHi.
Qed.

Theorem pref_enc_of_item i : pref (enc_of_item i) = true.
Proof.
  induction i using item_ind_forall; cbn [enc_of_item pref]; try apply width_eqb_refl; try reflexivity.
  - rewrite len_map, width_eqb_refl. cbn [andb]. rewrite forallb_map. apply forallb_forall. rewrite Forall_forall in H. auto.
  - rewrite len_map, width_eqb_refl. cbn [andb]. rewrite forallb_map. apply forallb_forall. rewrite Forall_forall in H. auto.
  - rewrite width_eqb_refl. exact IHi.
Qed.

Theorem val_of_enc_of_item i : val_of (enc_of_item i) = i.
Proof.
  induction i using item_ind_forall; cbn [enc_of_item val_of]; try reflexivity.
  - f_equal. rewrite map_map. rewrite <- (map_id l) at 2. apply map_ext_Forall. exact H.
  - f_equal. rewrite map_map. rewrite <- (map_id l) at 2. apply map_ext_Forall. exact H.
  - now rewrite IHi.
Qed.

(* the statement pinned in C03: the reference encoder's bytes are one well-formed, preferred item denoting i *)
Theorem enc_pref_is_item i : item_ok i = true ->
  exists e, enc_pref i = ser e /\ wf e = true /\ pref e = true /\ val_of e = i.
Proof.
  intro H. exists (enc_of_item i). split; [symmetry; apply ser_enc_of_item|].
  split; [now apply wf_enc_of_item|]. split; [apply pref_enc_of_item|apply val_of_enc_of_item].
Qed.
