(* Proofs/DeriveInvFacts.v — the bytes do not depend on the declaration order of fields and variants (C08). *)
From MC Require Import Bytes BytesFacts Cbor Encoder Types DeriveSchema DeriveEnc DeriveLen DeriveDoc DeriveKnown DeriveCompat DeriveFacts DeriveDocFacts.
From Coq Require Import Lia Permutation.
Local Open Scope N_scope.

(* a strictly ascending list is determined by its elements *)
Lemma asc_perm_eq {A} (key : A -> N) : forall l1 l2 p, asc key p l1 -> asc key p l2 -> Permutation l1 l2 -> l1 = l2.
Proof.
  induction l1 as [|x r1 IH]; intros l2 p H1 H2 HP.
  - apply Permutation_nil in HP. now subst.
  - destruct l2 as [|y r2]; [symmetry in HP; apply Permutation_nil in HP; discriminate|].
    cbn [asc] in H1, H2. destruct H1 as [Hx H1], H2 as [Hy H2].
    assert (Exy : x = y).
    { assert (Hin : In x (y :: r2)) by (eapply Permutation_in; [exact HP|now left]).
      assert (Hin' : In y (x :: r1)) by (eapply Permutation_in; [symmetry; exact HP|now left]).
      destruct Hin as [->|Hin]; [reflexivity|]. destruct Hin' as [->|Hin']; [reflexivity|].
      pose proof (asc_keys_ge key _ _ _ H2 Hin). pose proof (asc_keys_ge key _ _ _ H1 Hin'). lia. }
    subst y. f_equal. apply Permutation_cons_inv in HP. eapply IH; eassumption.
Qed.

Lemma asc_map_fv vs l p : asc pf_idx p l -> asc fkey p (map (fv vs) l).
Proof. revert p. induction l as [|pf r IH]; intro p; cbn [asc map]; [auto|]. intros [H1 H2]. split; [exact H1|]. apply IH, H2. Qed.

(* n <-> b: the borrow flag of a field is erased before fields are compared *)
Definition ev (vs : list value) (pf : pfield) : field * value := (eraseb (pf_fld pf), pf_val vs pf).
Definition erase_pair (x : field * value) : field * value := (eraseb (fst x), snd x).

Lemma eraseb_proj f f' : eraseb f = eraseb f' ->
  f_idx f = f_idx f' /\ f_tag f = f_tag f' /\ f_codec f = f_codec f' /\ f_synopt f = f_synopt f' /\ f_ty f = f_ty f'.
Proof. unfold eraseb. intros [= ? ? ? ? ? ?]. auto. Qed.

Lemma ev_cons_inv vs vs' pf pf' r r' : map (ev vs) (pf :: r) = map (ev vs') (pf' :: r') ->
  eraseb (pf_fld pf) = eraseb (pf_fld pf') /\ pf_val vs pf = pf_val vs' pf' /\ map (ev vs) r = map (ev vs') r'.
Proof.
  cbn [map]. intro H. assert (H1 : ev vs pf = ev vs' pf') by congruence. assert (H2 : map (ev vs) r = map (ev vs') r') by congruence.
  unfold ev in H1. apply pair_equal_spec in H1 as [? ?]. auto.
Qed.

Section Inv.
Variable rec : nat -> value -> option (list chunk).

Lemma nil_erase f f' v : eraseb f = eraseb f' -> fld_is_nil f v = fld_is_nil f' v.
Proof. intro E. apply eraseb_proj in E as (_ & _ & E3 & E4 & E5). unfold fld_is_nil. now rewrite E3, E4, E5. Qed.
Lemma enc_field_erase f f' v : eraseb f = eraseb f' -> enc_field_fn rec f v = enc_field_fn rec f' v.
Proof. intro E. apply eraseb_proj in E as (_ & _ & E3 & E4 & E5). unfold enc_field_fn. now rewrite E3, E5. Qed.

(* the encoders read the sorted field list only through the (field without its borrow flag, value) pairs *)
Lemma max_index_pairs : forall l l' vs vs' acc, map (ev vs) l = map (ev vs') l' -> max_index l vs acc = max_index l' vs' acc.
Proof.
  induction l as [|pf r IH]; intros [|pf' r'] vs vs' acc; try discriminate; [reflexivity|].
  intro H. apply ev_cons_inv in H as (E1 & E2 & E3). cbn [max_index]. unfold pf_idx. rewrite (nil_erase _ _ _ E1), E2.
  destruct (eraseb_proj _ _ E1) as (-> & _). now apply IH.
Qed.
Lemma arr_stmts_pairs i : forall l l' vs vs' p, map (ev vs) l = map (ev vs') l' -> arr_stmts rec l vs p i = arr_stmts rec l' vs' p i.
Proof.
  induction l as [|pf r IH]; intros [|pf' r'] vs vs' p; try discriminate; [reflexivity|].
  intro H. apply ev_cons_inv in H as (E1 & E2 & E3). cbn [arr_stmts]. unfold pf_idx. rewrite (enc_field_erase _ _ _ E1), E2.
  destruct (eraseb_proj _ _ E1) as (-> & -> & _). f_equal. now apply IH.
Qed.
Lemma max_fields_pairs : forall l l' vs vs' acc, map (ev vs) l = map (ev vs') l' -> max_fields l vs acc = max_fields l' vs' acc.
Proof.
  induction l as [|pf r IH]; intros [|pf' r'] vs vs' acc; try discriminate; [reflexivity|].
  intro H. apply ev_cons_inv in H as (E1 & E2 & E3). cbn [max_fields]. rewrite (nil_erase _ _ _ E1), E2. now apply IH.
Qed.
Lemma map_stmts_pairs : forall l l' vs vs', map (ev vs) l = map (ev vs') l' -> enc_map_stmts rec l vs = enc_map_stmts rec l' vs'.
Proof.
  induction l as [|pf r IH]; intros [|pf' r'] vs vs'; try discriminate; [reflexivity|].
  intro H. apply ev_cons_inv in H as (E1 & E2 & E3). cbn [enc_map_stmts]. unfold pf_idx. rewrite (nil_erase _ _ _ E1), (enc_field_erase _ _ _ E1), E2.
  destruct (eraseb_proj _ _ E1) as (-> & -> & _). f_equal. now apply IH.
Qed.

Lemma asc_map_ev vs l p : asc pf_idx p l -> asc fkey p (map (ev vs) l).
Proof. revert p. induction l as [|pf r IH]; intro p; cbn [asc map]; [auto|]. intros [H1 H2]. split; [exact H1|]. apply IH, H2. Qed.

Lemma sorted_pairs_eq d d' fs fs' vs vs' : fields_ok d fs = true -> fields_ok d' fs' = true ->
  length vs = length fs -> length vs' = length fs' ->
  Permutation (map erase_pair (decl fs vs)) (map erase_pair (decl fs' vs')) ->
  map (ev vs) (sorted_fields fs) = map (ev vs') (sorted_fields fs').
Proof.
  intros H1 H2 L1 L2 HP. eapply (asc_perm_eq fkey) with (p := 0).
  - apply asc_map_ev. eapply sorted_fields_asc, H1.
  - apply asc_map_ev. eapply sorted_fields_asc, H2.
  - assert (G : forall fs vs, length vs = length fs -> Permutation (map (ev vs) (sorted_fields fs)) (map erase_pair (decl fs vs))).
    { intros fs0 vs0 L. rewrite (decl_perm fs0 vs0 L), map_map. reflexivity. }
    rewrite (G fs vs L1), (G fs' vs' L2). exact HP.
Qed.

(* the declared, non-skipped (field, value) pairs are a permutation of each other, n/b aside *)
Definition same_fields (fs fs' : list field) (vs vs' : list value) : Prop :=
  length vs = length fs /\ length vs' = length fs' /\
  Permutation (map erase_pair (decl fs vs)) (map erase_pair (decl fs' vs')).

Lemma enc_fields_perm d d' e fs fs' vs vs' : fields_ok d fs = true -> fields_ok d' fs' = true -> same_fields fs fs' vs vs' ->
  enc_fields rec e fs vs = enc_fields rec e fs' vs'.
Proof.
  intros H1 H2 (L1 & L2 & HP). unfold enc_fields. rewrite L1, L2, !Nat.eqb_refl.
  pose proof (sorted_pairs_eq d d' fs fs' vs vs' H1 H2 L1 L2 HP) as E.
  destruct e.
  - unfold enc_as_array. rewrite (max_index_pairs _ _ _ _ None E). destruct (max_index _ vs' None); [|reflexivity].
    rewrite !enc_array_stmts_eq. f_equal. now apply arr_stmts_pairs.
  - unfold enc_as_map. rewrite (max_fields_pairs _ _ _ _ _ E).
    assert (El : len (sorted_fields fs) = len (sorted_fields fs')).
    { unfold len. f_equal. rewrite <- (map_length (ev vs)), E. apply map_length. }
    rewrite El. f_equal. now apply map_stmts_pairs.
Qed.
Lemma find_variant_perm vars vars' i : NoDup (map v_idx vars) -> Permutation vars vars' ->
  find_variant vars i = find_variant vars' i.
Proof.
  intros Hnd HP. revert Hnd. induction HP as [|x a b _ IH|x y a|a b c HP1 IH1 HP2 IH2]; intro Hnd; cbn [find_variant].
  - reflexivity.
  - cbn [map] in Hnd. apply NoDup_cons_iff in Hnd as [_ Hnd]. destruct (v_idx x =? i); [reflexivity|auto].
  - destruct (N.eqb_spec (v_idx y) i), (N.eqb_spec (v_idx x) i); try reflexivity.
    exfalso. cbn [map] in Hnd. apply NoDup_cons_iff in Hnd as [Hni _]. apply Hni. left. lia.
  - rewrite IH1 by assumption. apply IH2. eapply Permutation_NoDup; [apply Permutation_map; eassumption|assumption].
Qed.

(* two definitions that differ only in declaration order (of fields, of variants), in the n/b choice and in the
   named/tuple dshape, with values reordered accordingly *)
Inductive same_def : def -> def -> value -> value -> Prop :=
| SameStruct e tag sh sh' fs fs' vs vs' :
    is_unit sh = is_unit sh' -> same_fields fs fs' vs vs' ->
    same_def (DStruct e tag false sh fs) (DStruct e tag false sh' fs') (VList vs) (VList vs')
| SameEnum e tag io vars vars' i vs vs' :
    (forall j, match find_variant vars j, find_variant vars' j with
               | Some va, Some va' => v_enc va = v_enc va' /\ v_tag va = v_tag va' /\ is_unit (v_shape va) = is_unit (v_shape va')
                                     /\ (j = i -> same_fields (v_fields va) (v_fields va') vs vs')
               | None, None => True
               | _, _ => False
               end) ->
    same_def (DEnum e tag io vars) (DEnum e tag io vars') (VVar i (VList vs)) (VVar i (VList vs')).

Lemma enc_def_perm d d' df df' v v' : def_ok d df = true -> def_ok d' df' = true -> same_def df df' v v' ->
  enc_def rec df v = enc_def rec df' v'.
Proof.
  intros H1 H2 HS. destruct HS as [e tag sh sh' fs fs' vs vs' Hu Hf|e tag io vars vars' i vs vs' Hv]; cbn [enc_def def_ok] in *.
  - apply andb_prop in H1 as [H1 _]. apply andb_prop in H1 as [H1 _]. apply andb_prop in H1 as [_ H1].
    apply andb_prop in H2 as [H2 _]. apply andb_prop in H2 as [H2 _]. apply andb_prop in H2 as [_ H2].
    f_equal. eapply enc_fields_perm; eassumption.
  - specialize (Hv i).
    destruct (find_variant vars i) as [va|] eqn:E1, (find_variant vars' i) as [va'|] eqn:E2; try tauto.
    destruct Hv as (Ee & Et & Eu & Hf). specialize (Hf eq_refl).
    apply find_variant_in in E1 as [I1 _]. apply find_variant_in in E2 as [I2 _].
    apply andb_prop in H1 as [H1 _]. apply andb_prop in H1 as [_ H1]. rewrite forallb_forall in H1. specialize (H1 va I1).
    apply andb_prop in H2 as [H2 _]. apply andb_prop in H2 as [_ H2]. rewrite forallb_forall in H2. specialize (H2 va' I2).
    unfold variant_ok in H1, H2. apply andb_prop in H1 as [H1 U1]. apply andb_prop in H1 as [_ H1]. apply andb_prop in H2 as [H2 U2]. apply andb_prop in H2 as [_ H2].
    assert (Ev : variant_encoding e va = variant_encoding e va') by (unfold variant_encoding; now rewrite Ee).
    rewrite <- Eu, <- Et, <- Ev. f_equal.
    destruct (is_unit (v_shape va)) eqn:Eua.
    + rewrite <- Eu in U2. destruct (v_fields va), (v_fields va'); try discriminate.
      destruct Hf as (L1 & L2 & _). destruct vs, vs'; try discriminate. reflexivity.
    + destruct io; [reflexivity|]. f_equal. eapply enc_fields_perm; eassumption.
Qed.
End Inv.
