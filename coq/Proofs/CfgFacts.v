(* Proofs/CfgFacts.v — the model computes the same outcome in every feature configuration, up to the
   documented differences (C20):
   - without alloc, skip (and everything that skips: unknown fields, Option::None, Bound::Unbounded) may
     return the "requires feature flag alloc" error (Err Message) instead;
   - without half, a half-precision item read through f32()/f64() is a type error (TypeMismatch TF16).
   `std` never influences an outcome. *)
From MC Require Import Bytes BytesFacts Monad Cbor Utf8 Half Decoder Acc Accessors Types DecoderFacts.
From Coq Require Import Lia.
Local Open Scope N_scope.

(* r1 computed at c1, r2 at c2 *)
Definition doc_diff {A} (c1 c2 : cfg) (r1 r2 : result A * dst) : Prop :=
  r1 = r2
  \/ (c_alloc c1 = false /\ c_alloc c2 = true /\ fst r1 = Err Message)
  \/ (c_alloc c2 = false /\ c_alloc c1 = true /\ fst r2 = Err Message)
  \/ (c_half c1 = false /\ c_half c2 = true /\ fst r1 = Err (TypeMismatch TF16))
  \/ (c_half c2 = false /\ c_half c1 = true /\ fst r2 = Err (TypeMismatch TF16)).

Lemma dd_refl {A} c1 c2 (r : result A * dst) : doc_diff c1 c2 r r.
Proof. left. reflexivity. Qed.

Lemma dd_bind {A B} c1 c2 (m1 m2 : M A) (f1 f2 : A -> M B) s :
  doc_diff c1 c2 (m1 s) (m2 s) ->
  (forall a s', doc_diff c1 c2 (f1 a s') (f2 a s')) ->
  doc_diff c1 c2 (bind m1 f1 s) (bind m2 f2 s).
Proof.
  intros H Hf. unfold bind. destruct H as [E|[(H1 & H2 & H3)|[(H1 & H2 & H3)|[(H1 & H2 & H3)|(H1 & H2 & H3)]]]].
  - rewrite E. destruct (m2 s) as [[a|e| |] s']; try apply dd_refl. apply Hf.
  - right. left. repeat split; auto. destruct (m1 s) as [[a|e| |] s']; cbn [fst] in *; try discriminate. injection H3 as ->. reflexivity.
  - right. right. left. repeat split; auto. destruct (m2 s) as [[a|e| |] s']; cbn [fst] in *; try discriminate. injection H3 as ->. reflexivity.
  - right. right. right. left. repeat split; auto. destruct (m1 s) as [[a|e| |] s']; cbn [fst] in *; try discriminate. injection H3 as ->. reflexivity.
  - right. right. right. right. repeat split; auto. destruct (m2 s) as [[a|e| |] s']; cbn [fst] in *; try discriminate. injection H3 as ->. reflexivity.
Qed.

Lemma dd_bind_same {A B} c1 c2 (m : M A) (f1 f2 : A -> M B) s :
  (forall a s', doc_diff c1 c2 (f1 a s') (f2 a s')) -> doc_diff c1 c2 (bind m f1 s) (bind m f2 s).
Proof. intro Hf. apply dd_bind; [apply dd_refl|exact Hf]. Qed.

Lemma dd_fmap {A B} c1 c2 (g : A -> B) (m1 m2 : M A) s :
  doc_diff c1 c2 (m1 s) (m2 s) -> doc_diff c1 c2 (fmap g m1 s) (fmap g m2 s).
Proof. intro H. unfold fmap. apply dd_bind; [exact H|intros; apply dd_refl]. Qed.

(* ---- half: f32 / f64 ---- *)
Lemma mismatch_f16 {A} s : @mismatch A 0xf9 s = (Err (TypeMismatch TF16), s).
Proof. reflexivity. Qed.

Lemma dd_f32 c1 c2 s : doc_diff c1 c2 (dec_f32 c1 s) (dec_f32 c2 s).
Proof.
  unfold dec_f32, bind at 1 3. destruct (current s) as [[b|e| |] s'] eqn:Ec; try apply dd_refl.
  assert (s' = s) as -> by (unfold current in Ec; destruct (drest s); injection Ec; auto).
  destruct (c_half c1) eqn:H1, (c_half c2) eqn:H2; cbn [andb]; try apply dd_refl.
  - destruct (N.eqb_spec b 0xf9) as [->|Hb]; [|apply dd_refl].
    right. right. right. right. repeat split; auto.
  - destruct (N.eqb_spec b 0xf9) as [->|Hb]; [|apply dd_refl].
    right. right. right. left. repeat split; auto.
Qed.

Lemma dd_f64 c1 c2 s : doc_diff c1 c2 (dec_f64 c1 s) (dec_f64 c2 s).
Proof.
  unfold dec_f64, bind at 1 3. destruct (current s) as [[b|e| |] s'] eqn:Ec; try apply dd_refl.
  assert (s' = s) as -> by (unfold current in Ec; destruct (drest s); injection Ec; auto).
  destruct (N.eqb_spec b 0xf9) as [->|Hb].
  - destruct (c_half c1) eqn:H1, (c_half c2) eqn:H2; cbn [andb]; try apply dd_refl.
    + right. right. right. right. repeat split; auto.
    + right. right. right. left. repeat split; auto.
  - rewrite !andb_false_r. destruct (b =? 0xfa); [|apply dd_refl].
    apply dd_fmap, dd_f32.
Qed.

(* ---- alloc: the counting-only skip agrees with the full skip wherever it does not refuse ---- *)
Definition step_rel (ra : result (option skst) * dst) (rn : result sknst * dst) : Prop :=
  match rn with
  | (Ok c', s') =>
      nnr c' <= u64_max /\
      (ra = (Ok (Some (mksk (nnr c') (nir c') [])), s')
       \/ (nnr c' = 0 /\ nir c' = 0 /\ ra = (Ok None, s')))
  | (Err Message, _) => True
  | (Err e, s') => ra = (Err e, s')
  | (Panic, s') => ra = (Panic, s')
  | (OutOfFuel, s') => ra = (OutOfFuel, s')
  end.

Lemma sat_add_le a b : sat_add a b <= u64_max.
Proof. unfold sat_add. apply N.le_min_l. Qed.

Lemma sat_add_0 a : a <= u64_max -> sat_add a 0 = a.
Proof. intro H. unfold sat_add. rewrite N.add_0_r. apply N.min_r. exact H. Qed.

Lemma after_counting n0 i0 : negb ((n0 =? 0) && (i0 =? 0)) = true ->
  skip_after (mksk n0 i0 []) = Some (mksk (n0 - 1) i0 []).
Proof. intro H. unfold skip_after, counting. cbn [nr ir stk]. now rewrite H. Qed.

Lemma after_idle : skip_after (mksk 0 0 []) = None.
Proof. reflexivity. Qed.

(* skip_after in terms of the counters after the arm *)
Lemma after_rel n1 i1 s' : n1 <= u64_max ->
  step_rel (Ok (skip_after (mksk n1 i1 [])), s') (Ok (mkskn (n1 - 1) i1), s').
Proof.
  intro Hn. cbn [step_rel nnr nir]. split; [lia|].
  destruct (negb ((n1 =? 0) && (i1 =? 0))) eqn:Hc.
  - left. now rewrite after_counting.
  - right. apply negb_false_iff, andb_prop in Hc as [H1 H2].
    apply N.eqb_eq in H1, H2. subst. repeat split; reflexivity.
Qed.

Lemma step_leaf {A} (m : M A) n0 i0 s : n0 <= u64_max ->
  step_rel (bind m (fun _ => ret (skip_after (mksk n0 i0 []))) s)
           (bind m (fun _ => ret (mkskn (n0 - 1) i0)) s).
Proof.
  intros Hn. unfold bind. destruct (m s) as [[a|e| |] s']; cbn [step_rel]; try reflexivity.
  - unfold ret. now apply after_rel.
  - destruct e; reflexivity || exact I.
Qed.

Lemma step_container (m : M (option N)) (dbl : bool) n0 i0 s : n0 <= u64_max ->
  negb ((n0 =? 0) && (i0 =? 0)) = true ->
  step_rel
    (bind m (fun r => ret (skip_after (match r with
                                       | Some n => skip_definite (mksk n0 i0 []) (if dbl then sat_mul n 2 else n)
                                       | None => skip_indefinite (mksk n0 i0 []) end))) s)
    (bind m (fun r => match r with
                      | Some n => ret (mkskn (sat_add n0 (if dbl then sat_mul n 2 else n) - 1) i0)
                      | None => if n0 <? 2 then ret (mkskn (n0 - 1) (sat_add i0 1)) else fail Message
                      end) s).
Proof.
  intros Hn Hc. unfold bind. destruct (m s) as [[r|e| |] s']; cbn [step_rel]; try reflexivity.
  2:{ destruct e; reflexivity || exact I. }
  destruct r as [n|].
  - set (k := if dbl then sat_mul n 2 else n). unfold ret, skip_definite, counting. cbn [nr ir stk]. rewrite Hc.
    destruct (N.eqb_spec k 0) as [->|Hk].
    + rewrite sat_add_0 by exact Hn. now apply after_rel.
    + apply after_rel. apply sat_add_le.
  - unfold skip_indefinite, counting. cbn [nr ir stk]. rewrite Hc. cbn [negb].
    destruct (n0 <? 2); [|exact I]. unfold ret. now apply after_rel.
Qed.

Lemma step_bind_current f g s :
  (forall b, step_rel (f b s) (g b s)) -> step_rel (bind current f s) (bind current g s).
Proof.
  intro H. unfold bind. destruct (current s) as [[b|e| |] s0] eqn:Ec; cbn [step_rel]; try reflexivity.
  - assert (s0 = s) as -> by (unfold current in Ec; destruct (drest s); injection Ec; auto). apply H.
  - destruct e; reflexivity || exact I.
Qed.

Lemma skip_step_rel F n0 i0 s : n0 <= u64_max ->
  negb ((n0 =? 0) && (i0 =? 0)) = true ->
  step_rel (skip_step F (mksk n0 i0 []) s) (skipn_step F (mkskn n0 i0) s).
Proof.
  intros Hn Hc. unfold skip_step, skipn_step. cbn [nnr nir].
  apply step_bind_current. intro b.
  destruct (b <=? 0x1b); [now apply step_leaf|].
  destruct ((0x20 <=? b) && (b <=? 0x3b)); [now apply step_leaf|].
  destruct ((0x40 <=? b) && (b <=? 0x5f)); [now apply step_leaf|].
  destruct ((0x60 <=? b) && (b <=? 0x7f)); [now apply step_leaf|].
  destruct ((0x80 <=? b) && (b <=? 0x9f)).
  { apply (step_container dec_array false); assumption. }
  destruct ((0xa0 <=? b) && (b <=? 0xbf)).
  { apply (step_container dec_map true); assumption. }
  destruct ((0xc0 <=? b) && (b <=? 0xdb)).
  { unfold bind. destruct (read s) as [[x|e| |] s1]; cbn [step_rel]; try reflexivity.
    2:{ destruct e; reflexivity || exact I. }
    destruct (unsigned (info x) s1) as [[y|e| |] s2]; cbn [step_rel]; try reflexivity.
    2:{ destruct e; reflexivity || exact I. }
    unfold ret. cbn [nnr nir]. split; [exact Hn|]. left. reflexivity. }
  destruct ((0xe0 <=? b) && (b <=? 0xfb)).
  { change (step_rel (bind (n <- read ;; unsigned (info n)) (fun _ => ret (skip_after (mksk n0 i0 []))) s)
                     (bind (n <- read ;; unsigned (info n)) (fun _ => ret (mkskn (n0 - 1) i0)) s)) ||
    (unfold bind; destruct (read s) as [[x|e| |] s1]; cbn [step_rel]; try reflexivity;
     [destruct (unsigned (info x) s1) as [[y|e| |] s2]; cbn [step_rel]; try reflexivity;
      [unfold ret; now apply after_rel|destruct e; reflexivity || exact I]
     |destruct e; reflexivity || exact I]).
    all: try (now apply step_leaf). }
  destruct (b =? 0xff).
  { unfold bind. destruct (read s) as [[x|e| |] s1]; cbn [step_rel]; try reflexivity.
    2:{ destruct e; reflexivity || exact I. }
    unfold ret, skip_break, counting. cbn [nr ir stk]. rewrite Hc.
    now apply after_rel. }
  (* unknown initial byte: the same mismatch on both sides *)
  destruct (@mismatch (option skst) b s) as [[x|e| |] s1] eqn:Em.
  - destruct (mismatch_is_err (A := option skst) b s) as (e' & s' & E). rewrite Em in E. discriminate.
  - assert (@mismatch sknst b s = (Err e, s1)) as ->.
    { revert Em. unfold mismatch, bind. destruct (type_of b s) as [[t|e'| |] s']; intro Em; try discriminate; injection Em as <- <-; reflexivity. }
    cbn [step_rel]. destruct e; reflexivity || exact I.
  - destruct (mismatch_is_err (A := option skst) b s) as (e' & s' & E). rewrite Em in E. discriminate.
  - destruct (mismatch_is_err (A := option skst) b s) as (e' & s' & E). rewrite Em in E. discriminate.
Qed.

Lemma skip_loops_rel fuel : forall n0 i0 s, n0 <= u64_max ->
  skip_loop fuel (mksk n0 i0 []) s = skipn_loop fuel (mkskn n0 i0) s
  \/ fst (skipn_loop fuel (mkskn n0 i0) s) = Err Message.
Proof.
  induction fuel as [|fuel IH]; intros n0 i0 s Hn; cbn [skip_loop skipn_loop]; unfold skip_running; cbn [nr ir stk nnr nir];
    rewrite andb_true_r; destruct (negb ((n0 =? 0) && (i0 =? 0))) eqn:Hc; try (left; reflexivity).
  pose proof (skip_step_rel (S fuel) n0 i0 s Hn Hc) as R.
  unfold bind. destruct (skipn_step (S fuel) (mkskn n0 i0) s) as [[c'|e| |] s'] eqn:En; cbn [step_rel] in R.
  - destruct R as [Hb [R|(H1 & H2 & R)]]; rewrite R.
    + destruct c' as [a b]. cbn [nnr nir] in *. apply IH. exact Hb.
    + destruct c' as [a b]. cbn [nnr nir] in *. subst. left.
      destruct fuel; reflexivity.
  - destruct e; try (rewrite R; left; reflexivity). right. reflexivity.
  - rewrite R. left. reflexivity.
  - rewrite R. left. reflexivity.
Qed.

Lemma dd_skip c1 c2 fuel s : doc_diff c1 c2 (skip c1 fuel s) (skip c2 fuel s).
Proof.
  unfold skip. destruct (c_alloc c1) eqn:H1, (c_alloc c2) eqn:H2; try apply dd_refl.
  - unfold skip_alloc, skip_noalloc. destruct (skip_loops_rel fuel 1 0 s ltac:(unfold u64_max; lia)) as [E|E].
    + rewrite E. apply dd_refl.
    + right. right. left. repeat split; auto.
  - unfold skip_alloc, skip_noalloc. destruct (skip_loops_rel fuel 1 0 s ltac:(unfold u64_max; lia)) as [E|E].
    + rewrite E. apply dd_refl.
    + right. left. repeat split; auto.
Qed.

Lemma dd_skip_auto c1 c2 s : doc_diff c1 c2 (skip_auto c1 s) (skip_auto c2 s).
Proof. unfold skip_auto. apply dd_skip. Qed.

(* ---- every accessor ---- *)
Theorem accessors_cfg c1 c2 a s :
  (a = AF16 -> c_half c1 = c_half c2) ->
  doc_diff c1 c2 (run_acc c1 a s) (run_acc c2 a s).
Proof.
  intro Hf. destruct a; cbn [run_acc]; try apply dd_refl.
  - rewrite (Hf eq_refl). apply dd_refl.
  - apply dd_fmap, dd_f32.
  - apply dd_fmap, dd_f64.
  - apply dd_fmap, dd_skip_auto.
Qed.

(* ---- typed decoding: congruence of every combinator of Model/Types.v ---- *)
Definition rel (c1 c2 : cfg) {A} (m1 m2 : M A) : Prop := forall s, doc_diff c1 c2 (m1 s) (m2 s).

Lemma rel_refl c1 c2 {A} (m : M A) : rel c1 c2 m m.
Proof. intro s. apply dd_refl. Qed.

Lemma rel_bind c1 c2 {A B} (m1 m2 : M A) (f1 f2 : A -> M B) :
  rel c1 c2 m1 m2 -> (forall a, rel c1 c2 (f1 a) (f2 a)) -> rel c1 c2 (bind m1 f1) (bind m2 f2).
Proof. intros H Hf s. apply dd_bind; [apply H|intros a s'; apply Hf]. Qed.

Lemma rel_fmap c1 c2 {A B} (g : A -> B) (m1 m2 : M A) : rel c1 c2 m1 m2 -> rel c1 c2 (fmap g m1) (fmap g m2).
Proof. intros H s. apply dd_fmap, H. Qed.

Lemma rel_dec_n c1 c2 d1 d2 : rel c1 c2 d1 d2 -> forall fuel n acc, rel c1 c2 (dec_n d1 n fuel acc) (dec_n d2 n fuel acc).
Proof.
  intro H. induction fuel as [|fuel IH]; intros n acc; cbn [dec_n]; destruct (n =? 0); try apply rel_refl.
  apply rel_bind; [exact H|intro x; apply IH].
Qed.

Lemma rel_dec_until_break c1 c2 d1 d2 : rel c1 c2 d1 d2 -> forall fuel acc, rel c1 c2 (dec_until_break d1 fuel acc) (dec_until_break d2 fuel acc).
Proof.
  intro H. induction fuel as [|fuel IH]; intros acc; cbn [dec_until_break]; try apply rel_refl.
  apply rel_bind; [apply rel_refl|intro b]. destruct (b =? 255); [apply rel_refl|].
  apply rel_bind; [exact H|intro x; apply IH].
Qed.

Lemma rel_dec_seq c1 c2 d1 d2 fuel : rel c1 c2 d1 d2 -> rel c1 c2 (dec_seq d1 fuel) (dec_seq d2 fuel).
Proof.
  intro H. unfold dec_seq. apply rel_bind; [apply rel_refl|intros [n|]]; [now apply rel_dec_n|now apply rel_dec_until_break].
Qed.

Lemma rel_arr_n c1 c2 d1 d2 cap : rel c1 c2 d1 d2 -> forall fuel n acc, rel c1 c2 (arr_n d1 cap n fuel acc) (arr_n d2 cap n fuel acc).
Proof.
  intro H. induction fuel as [|fuel IH]; intros n acc; cbn [arr_n]; destruct (n =? 0); try apply rel_refl.
  apply rel_bind; [exact H|intro x]. destruct (len acc <? cap); [apply IH|apply rel_refl].
Qed.

Lemma rel_arr_until_break c1 c2 d1 d2 cap : rel c1 c2 d1 d2 -> forall fuel acc, rel c1 c2 (arr_until_break d1 cap fuel acc) (arr_until_break d2 cap fuel acc).
Proof.
  intro H. induction fuel as [|fuel IH]; intros acc; cbn [arr_until_break]; try apply rel_refl.
  apply rel_bind; [apply rel_refl|intro b]. destruct (b =? 255); [apply rel_refl|].
  apply rel_bind; [exact H|intro x]. destruct (len acc <? cap); [apply IH|apply rel_refl].
Qed.

Lemma rel_dec_arr c1 c2 d1 d2 cap fuel : rel c1 c2 d1 d2 -> rel c1 c2 (dec_arr d1 cap fuel) (dec_arr d2 cap fuel).
Proof.
  intro H. unfold dec_arr. apply rel_bind; [apply rel_refl|intros r].
  apply rel_bind; [|intro; apply rel_refl].
  destruct r; [now apply rel_arr_n|now apply rel_arr_until_break].
Qed.

Lemma rel_dec_pair c1 c2 k1 k2 v1 v2 : rel c1 c2 k1 k2 -> rel c1 c2 v1 v2 -> rel c1 c2 (dec_pair k1 v1) (dec_pair k2 v2).
Proof. intros Hk Hv. unfold dec_pair. apply rel_bind; [exact Hk|intro]. apply rel_bind; [exact Hv|intro; apply rel_refl]. Qed.

Lemma rel_dec_map_seq c1 c2 k1 k2 v1 v2 fuel : rel c1 c2 k1 k2 -> rel c1 c2 v1 v2 ->
  rel c1 c2 (dec_map_seq k1 v1 fuel) (dec_map_seq k2 v2 fuel).
Proof.
  intros Hk Hv. unfold dec_map_seq. apply rel_bind; [apply rel_refl|intros r].
  apply rel_bind; [|intro; apply rel_refl].
  destruct r; [apply rel_dec_n|apply rel_dec_until_break]; now apply rel_dec_pair.
Qed.

Lemma rel_dec_each c1 c2 ds1 ds2 : Forall2 (rel c1 c2) ds1 ds2 -> rel c1 c2 (dec_each ds1) (dec_each ds2).
Proof.
  induction 1 as [|d1 d2 l1 l2 H _ IH]; cbn [dec_each]; [apply rel_refl|].
  apply rel_bind; [exact H|intro]. apply rel_bind; [exact IH|intro; apply rel_refl].
Qed.

Lemma Forall2_len {A B} (R : A -> B -> Prop) l1 l2 : Forall2 R l1 l2 -> len l1 = len l2.
Proof. intro H. unfold len. f_equal. induction H; cbn; congruence. Qed.

Lemma Forall2_nth {A B} (R : A -> B -> Prop) l1 l2 k : Forall2 R l1 l2 ->
  match nth_error l1 k, nth_error l2 k with
  | Some a, Some b => R a b | None, None => True | _, _ => False end.
Proof. intro H. revert k. induction H; intros [|k]; cbn; auto. apply IHForall2. Qed.

Lemma rel_field_step c1 c2 ds1 ds2 i slots : Forall2 (rel c1 c2) ds1 ds2 ->
  rel c1 c2 (field_step c1 ds1 i slots) (field_step c2 ds2 i slots).
Proof.
  intro H. unfold field_step. rewrite (Forall2_len _ _ _ H).
  destruct (i <? len ds2).
  - pose proof (Forall2_nth _ _ _ (N.to_nat i) H) as G.
    destruct (nth_error ds1 (N.to_nat i)), (nth_error ds2 (N.to_nat i)); try contradiction; [|apply rel_refl].
    apply rel_bind; [exact G|intro; apply rel_refl].
  - apply rel_bind; [intro s; apply dd_skip_auto|intro; apply rel_refl].
Qed.

Lemma rel_fields_n c1 c2 ds1 ds2 : Forall2 (rel c1 c2) ds1 ds2 ->
  forall fuel i n slots, rel c1 c2 (fields_n c1 ds1 i n fuel slots) (fields_n c2 ds2 i n fuel slots).
Proof.
  intro H. induction fuel as [|fuel IH]; intros i n slots; cbn [fields_n]; destruct (n =? 0); try apply rel_refl.
  apply rel_bind; [now apply rel_field_step|intro; apply IH].
Qed.

Lemma rel_fields_until_break c1 c2 ds1 ds2 : Forall2 (rel c1 c2) ds1 ds2 ->
  forall fuel i slots, rel c1 c2 (fields_until_break c1 ds1 i fuel slots) (fields_until_break c2 ds2 i fuel slots).
Proof.
  intro H. induction fuel as [|fuel IH]; intros i slots; cbn [fields_until_break]; try apply rel_refl.
  apply rel_bind; [apply rel_refl|intro t]. destruct (ctype_is_break t).
  - apply rel_bind; [intro s; apply dd_skip_auto|intro; apply rel_refl].
  - apply rel_bind; [now apply rel_field_step|intro; apply IH].
Qed.

Lemma map_const_len {A B C} (l1 : list A) (l2 : list B) (x : C) : length l1 = length l2 ->
  map (fun _ => x) l1 = map (fun _ => x) l2.
Proof. revert l2. induction l1; destruct l2; cbn; intro H; try discriminate; [reflexivity|]. f_equal. apply IHl1. lia. Qed.

Lemma rel_dec_fields c1 c2 ds1 ds2 fuel : Forall2 (rel c1 c2) ds1 ds2 ->
  rel c1 c2 (dec_fields c1 ds1 fuel) (dec_fields c2 ds2 fuel).
Proof.
  intro H. unfold dec_fields.
  assert (E: map (fun _ => @None value) ds1 = map (fun _ => @None value) ds2).
  { apply map_const_len. clear - H. induction H; cbn; congruence. }
  rewrite E.
  apply rel_bind; [apply rel_refl|intros r].
  apply rel_bind; [|intro; apply rel_refl].
  destruct r; [now apply rel_fields_n|now apply rel_fields_until_break].
Qed.

Lemma rel_dec_enum c1 c2 ds1 ds2 : Forall2 (rel c1 c2) ds1 ds2 -> rel c1 c2 (dec_enum ds1) (dec_enum ds2).
Proof.
  intro H. unfold dec_enum. apply rel_bind; [apply rel_refl|intros r].
  destruct r as [n|]; [|apply rel_refl].
  destruct (N.eqb_spec n 2) as [->|Hn].
  - apply rel_bind; [apply rel_refl|intro i]. rewrite (Forall2_len _ _ _ H).
    destruct (i <? len ds2); [|apply rel_refl].
    pose proof (Forall2_nth _ _ _ (N.to_nat i) H) as G.
    destruct (nth_error ds1 (N.to_nat i)), (nth_error ds2 (N.to_nat i)); try contradiction; [|apply rel_refl].
    apply rel_bind; [exact G|intro; apply rel_refl].
  - destruct n as [|p]; [apply rel_refl|]. destruct p as [p|p|]; try apply rel_refl; destruct p; try apply rel_refl. contradiction Hn. reflexivity.
Qed.

(* induction principle for the nested lists of the type universe *)
Section ty_induction.
  Variable P : ty -> Prop.
  Hypothesis HU : forall w, P (TyU w). Hypothesis HI : forall w, P (TyI w).
  Hypothesis HInt : P TyInt. Hypothesis HBool : P TyBool. Hypothesis HChar : P TyChar.
  Hypothesis HF32 : P TyF32. Hypothesis HF64 : P TyF64.
  Hypothesis HNZU : forall w, P (TyNZU w). Hypothesis HNZI : forall w, P (TyNZI w).
  Hypothesis HStr : P TyStr. Hypothesis HBytes : P TyBytes. Hypothesis HBA : forall n, P (TyByteArr n).
  Hypothesis HCStr : P TyCStr. Hypothesis HUnit : P TyUnit.
  Hypothesis HOpt : forall t, P t -> P (TyOpt t).
  Hypothesis HSeq : forall t, P t -> P (TySeq t).
  Hypothesis HArr : forall n t, P t -> P (TyArr n t).
  Hypothesis HMap : forall k v, P k -> P v -> P (TyMap k v).
  Hypothesis HTuple : forall ts, Forall P ts -> P (TyTuple ts).
  Hypothesis HFields : forall ts, Forall P ts -> P (TyFields ts).
  Hypothesis HEnum : forall ts, Forall P ts -> P (TyEnum ts).
  Hypothesis HBound : forall t, P t -> P (TyBound t).
  Hypothesis HTag : P TyTag. Hypothesis HTagged : forall n t, P t -> P (TyTagged n t).
  Hypothesis HDur : P TyDuration. Hypothesis HSys : P TySystemTime.
  Fixpoint ty_ind_forall (t : ty) : P t :=
    let all := fix go (l : list ty) : Forall P l :=
      match l with [] => Forall_nil _ | x :: l' => Forall_cons _ (ty_ind_forall x) (go l') end in
    match t with
    | TyU w => HU w | TyI w => HI w | TyInt => HInt | TyBool => HBool | TyChar => HChar | TyF32 => HF32 | TyF64 => HF64
    | TyNZU w => HNZU w | TyNZI w => HNZI w | TyStr => HStr | TyBytes => HBytes | TyByteArr n => HBA n
    | TyCStr => HCStr | TyUnit => HUnit
    | TyOpt t' => HOpt t' (ty_ind_forall t') | TySeq t' => HSeq t' (ty_ind_forall t')
    | TyArr n t' => HArr n t' (ty_ind_forall t') | TyMap k v => HMap k v (ty_ind_forall k) (ty_ind_forall v)
    | TyTuple ts => HTuple ts (all ts) | TyFields ts => HFields ts (all ts) | TyEnum ts => HEnum ts (all ts)
    | TyBound t' => HBound t' (ty_ind_forall t')
    | TyTag => HTag | TyTagged n t' => HTagged n t' (ty_ind_forall t')
    | TyDuration => HDur | TySystemTime => HSys
    end.
End ty_induction.

Lemma Forall_rel_map c1 c2 fuel ts :
  Forall (fun t => forall fuel, rel c1 c2 (decode_ty c1 t fuel) (decode_ty c2 t fuel)) ts ->
  Forall2 (rel c1 c2) (map (fun t' => decode_ty c1 t' fuel) ts) (map (fun t' => decode_ty c2 t' fuel) ts).
Proof. induction 1; cbn [map]; constructor; auto. Qed.

Theorem decode_ty_cfg c1 c2 t : forall fuel, rel c1 c2 (decode_ty c1 t fuel) (decode_ty c2 t fuel).
Proof.
  induction t using ty_ind_forall; intro fuel; cbn [decode_ty]; try apply rel_refl.
  - apply rel_fmap. intro s. apply dd_f32.
  - apply rel_fmap. intro s. apply dd_f64.
  - (* Option *) apply rel_bind; [apply rel_refl|intro dt]. destruct (ctype_is_null dt).
    + apply rel_bind; [intro s; apply dd_skip_auto|intro; apply rel_refl].
    + apply rel_fmap, IHt.
  - apply rel_fmap, rel_dec_seq, IHt.
  - apply rel_fmap, rel_dec_arr, IHt.
  - apply rel_fmap, rel_dec_map_seq; [apply IHt1|apply IHt2].
  - apply rel_bind; [apply rel_refl|intro r]. destruct (opt_eqb r (len ts)); [|apply rel_refl].
    apply rel_fmap, rel_dec_each, Forall_rel_map. exact H.
  - apply rel_fmap, rel_dec_fields, Forall_rel_map. exact H.
  - apply rel_dec_enum, Forall_rel_map. exact H.
  - (* Bound *) apply rel_bind; [apply rel_refl|intro r]. destruct (opt_eqb r 2); [|apply rel_refl].
    apply rel_bind; [apply rel_refl|intro i]. destruct (i <? 2).
    + apply rel_bind; [apply IHt|intro; apply rel_refl].
    + destruct (i =? 2); [|apply rel_refl]. apply rel_bind; [intro s; apply dd_skip_auto|intro; apply rel_refl].
  - (* Tagged *) apply rel_bind; [apply rel_refl|intro tg]. destruct (tg =? n); [apply IHt|apply rel_refl].
  - (* Duration *) apply rel_bind; [|intro; apply rel_refl].
    apply rel_dec_fields. repeat constructor; apply rel_refl.
  - (* SystemTime *) apply rel_bind; [|intro; apply rel_refl].
    apply rel_dec_fields. repeat constructor; apply rel_refl.
Qed.

Theorem decode_auto_cfg c1 c2 t s : doc_diff c1 c2 (decode_auto c1 t s) (decode_auto c2 t s).
Proof. unfold decode_auto. apply decode_ty_cfg. Qed.

(* encoding and length computation do not depend on the configuration at all: the model functions
   encode_ty / len_ty / the Encoder methods take no cfg argument (half only gates Encoder::f16 and Token). *)
