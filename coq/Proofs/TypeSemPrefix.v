(* Proofs/TypeSemPrefix.v — C04, last sentence, for the built-in types on EVERY well-formed encoding: every
   strict prefix of an item to which Spec/TypeSem.v assigns a value makes decode_ty fail with the end-of-input
   class — never a value, never another class, never Panic / OutOfFuel.  (Generalises TypesPrefix.prefix_eoi,
   which is about the bytes the matching encoder writes.) *)
From MC Require Import Bytes BytesFacts Monad Cbor Utf8 Half Decoder Acc Accessors Types TypeSem
  DecoderFacts CborFacts IntFacts AccFacts AccAgreeFacts AccPrefixFacts TypesEnc TypesDec TypesFacts SkipFacts
  TypeSemFacts TypeSemLoops TypeSemFields TypeSemAgree.
From Coq Require Import Lia.
Local Open Scope N_scope.

Lemma eoi_nil_read {A} (k : N -> M A) p L : eoi (bind read k (mkdst p [] L)).
Proof. eexists. reflexivity. Qed.
Lemma eoi_nil_current {A} (k : N -> M A) p L : eoi (bind current k (mkdst p [] L)).
Proof. eexists. reflexivity. Qed.

Lemma sem_val_eq {A} (res : result A * dst) (s : tsem A) v q r L : s = TsVal v -> sem_agrees res s q r L -> res = (Ok v, mkdst q r L).
Proof. now intros ->. Qed.

Lemma ts_map_val {A B} (g : A -> B) s b : ts_map g s = TsVal b -> exists a, s = TsVal a /\ b = g a.
Proof. destruct s; cbn [ts_map]; intro H; try discriminate. injection H as <-. eauto. Qed.
Lemma ts_bind_val {A B} s (g : A -> tsem B) b : ts_bind s g = TsVal b -> exists a, s = TsVal a /\ g a = TsVal b.
Proof. destruct s; cbn [ts_bind]; intro H; try discriminate. eauto. Qed.

Lemma sprefix_first l m : sprefix l m -> l = [] \/ exists b l' t, l = b :: l' /\ m = b :: t.
Proof. intros (x & y & ->). destruct l as [|b l']; [now left|]. right. exists b, l', (l' ++ x :: y). split; reflexivity. Qed.

Lemma sprefix_app_r l a b : sprefix l a -> sprefix l (a ++ b).
Proof. intros (x & y & ->). exists x, (y ++ b). now rewrite <- app_assoc. Qed.

(* an item decoder on a strict prefix of an item it would accept *)
Definition elem_pfx (fuel : nat) (d : M value) (f : enc -> tsem value) : Prop :=
  forall e l p L v, wf e = true -> len (ser e) < 18446744073709551616 -> f e = TsVal v -> sprefix l (ser e) ->
    p + len l <= L -> (length l < fuel)%nat -> eoi (d (mkdst p l L)).

(* ---- leaves ---- *)
Lemma uint_pfx fuel max : elem_pfx fuel (fmap VNat (dec_uint max)) (ts_uint max).
Proof.
  intros e l p L v Hw _ Hv Hl _ _. unfold ts_uint, ts_int, int_value, in_range in Hv.
  destruct e; cbn [ts_map] in Hv; try discriminate Hv.
  - cbn [wf ser] in *. apply fmap_eoi. now apply dec_uint_short with w n.
  - destruct (Z.leb_spec 0 (-1 - Z.of_N n)); [lia|]. discriminate Hv.
Qed.

Lemma sint_pfx fuel max : elem_pfx fuel (fmap VInt (dec_sint max)) (ts_sint max).
Proof.
  intros e l p L v Hw _ Hv Hl _ _. unfold ts_sint, ts_int, int_value in Hv.
  destruct e; cbn [ts_map] in Hv; try discriminate Hv; cbn [wf ser] in *; apply fmap_eoi.
  - now apply dec_sint_short0 with w n.
  - now apply dec_sint_short1 with w n.
Qed.

Lemma int_pfx fuel :
  elem_pfx fuel (fmap (fun p : bool * N => VInt (if fst p then (-1 - Z.of_N (snd p))%Z else Z.of_N (snd p))) dec_int)
           (fun e => ts_map VInt (ts_int (-18446744073709551616) 18446744073709551615 e)).
Proof.
  intros e l p L v Hw _ Hv Hl _ _. unfold ts_int, int_value in Hv.
  destruct e; cbn [ts_map] in Hv; try discriminate Hv; cbn [wf ser] in *; apply fmap_eoi.
  - now apply dec_int_short0 with w n.
  - now apply dec_int_short1 with w n.
Qed.

Lemma nonzero_val s v : ts_nonzero s = TsVal v -> s = TsVal v.
Proof.
  unfold ts_nonzero. intro H. apply ts_bind_val in H as (a & -> & H).
  destruct a; try (now injection H as <-); [destruct (n =? 0)|destruct (z =? 0)%Z]; try discriminate; now injection H as <-.
Qed.

Lemma nzu_pfx fuel max :
  elem_pfx fuel (n <- dec_uint max ;; if n =? 0 then fail Message else ret (VNat n)) (fun e => ts_nonzero (ts_uint max e)).
Proof.
  intros e l p L v Hw H64 Hv Hl HL Hf. apply nonzero_val in Hv. apply bind_eoi.
  pose proof (uint_pfx fuel max e l p L v Hw H64 Hv Hl HL Hf) as (q & H).
  unfold fmap, bind in H. destruct (dec_uint max (mkdst p l L)) as [[a|x| |] s']; try discriminate.
  injection H as -> ->. eexists. reflexivity.
Qed.

Lemma nzi_pfx fuel max :
  elem_pfx fuel (z <- dec_sint max ;; if (z =? 0)%Z then fail Message else ret (VInt z)) (fun e => ts_nonzero (ts_sint max e)).
Proof.
  intros e l p L v Hw H64 Hv Hl HL Hf. apply nonzero_val in Hv. apply bind_eoi.
  pose proof (sint_pfx fuel max e l p L v Hw H64 Hv Hl HL Hf) as (q & H).
  unfold fmap, bind in H. destruct (dec_sint max (mkdst p l L)) as [[a|x| |] s']; try discriminate.
  injection H as -> ->. eexists. reflexivity.
Qed.

Lemma bool_pfx fuel alloc : elem_pfx fuel (fmap VBool dec_bool) (sem_ty alloc TyBool).
Proof.
  intros e l p L v Hw _ Hv Hl _ _. cbn [sem_ty] in Hv. destruct e; try discriminate Hv. cbn [wf ser] in *.
  assert (n < 24) by (destruct (N.eqb_spec n 20); [lia|]; destruct (N.eqb_spec n 21); [lia|discriminate]).
  destruct (N.ltb_spec n 24); [|lia]. apply sprefix_one in Hl as ->. eexists. reflexivity.
Qed.

Lemma char_pfx fuel alloc : elem_pfx fuel (fmap VNat dec_char) (sem_ty alloc TyChar).
Proof.
  intros e l p L v Hw _ Hv Hl _ _. cbn [sem_ty] in Hv. destruct e; try discriminate Hv. cbn [wf ser] in *.
  apply fmap_eoi. now apply dec_char_short with w n.
Qed.

Lemma f32_pfx fuel alloc c : elem_pfx fuel (fmap VFloat (dec_f32 c)) (sem_ty alloc TyF32).
Proof.
  intros e l p L v Hw _ Hv Hl _ _. cbn [sem_ty] in Hv. destruct e; try discriminate Hv. cbn [ser] in *.
  apply fmap_eoi. now apply dec_f32_short with bits.
Qed.

Lemma f64_pfx fuel alloc c : elem_pfx fuel (fmap VFloat (dec_f64 c)) (sem_ty alloc TyF64).
Proof.
  intros e l p L v Hw _ Hv Hl _ _. cbn [sem_ty] in Hv. destruct e; try discriminate Hv. cbn [ser] in *.
  apply fmap_eoi. now apply dec_f64_short with bits.
Qed.

Lemma str_pfx fuel alloc : elem_pfx fuel (fmap VBlob dec_str) (sem_ty alloc TyStr).
Proof.
  intros e l p L v Hw _ Hv Hl HL _. cbn [sem_ty] in Hv. destruct e; try discriminate Hv. cbn [wf ser] in *.
  apply andb_prop in Hw as [Hf _]. apply fmap_eoi. now apply dec_str_short with w b.
Qed.

Lemma bytes_pfx fuel alloc : elem_pfx fuel (fmap VBlob dec_bytes) (sem_ty alloc TyBytes).
Proof.
  intros e l p L v Hw _ Hv Hl HL _. cbn [sem_ty] in Hv. destruct e; try discriminate Hv. cbn [wf ser] in *.
  apply andb_prop in Hw as [Hf _]. apply fmap_eoi. now apply dec_bytes_short with w b.
Qed.

Lemma bytearr_pfx fuel alloc n :
  elem_pfx fuel (b <- dec_bytes ;; if len b =? n then ret (VBlob b) else fail Message) (sem_ty alloc (TyByteArr n)).
Proof.
  intros e l p L v Hw _ Hv Hl HL _. cbn [sem_ty] in Hv. destruct e; try discriminate Hv. cbn [wf ser] in *.
  apply andb_prop in Hw as [Hf _]. apply bind_eoi. now apply dec_bytes_short with w b.
Qed.

Lemma cstr_pfx fuel alloc :
  elem_pfx fuel (b <- dec_bytes ;; match cstr_of b with Some x => ret (VBlob x) | None => fail Message end) (sem_ty alloc TyCStr).
Proof.
  intros e l p L v Hw _ Hv Hl HL _. cbn [sem_ty] in Hv. destruct e; try discriminate Hv. cbn [wf ser] in *.
  apply andb_prop in Hw as [Hf _]. apply bind_eoi. now apply dec_bytes_short with w b.
Qed.

Lemma unit_pfx fuel alloc :
  elem_pfx fuel (r <- dec_array ;; if opt_eqb r 0 then ret VUnit else fail Message) (sem_ty alloc TyUnit).
Proof.
  intros e l p L v Hw _ Hv Hl HL _. cbn [sem_ty] in Hv. destruct e; try discriminate Hv.
  destruct es; try discriminate Hv. cbn [wf ser flat_map] in *. rewrite app_nil_r in Hl.
  apply andb_prop in Hw as [Hf _]. apply bind_eoi. now apply (dec_container_short 4) with w (len (@nil enc)).
Qed.

(* ---- heads of containers on a prefix ---- *)
(* a strict prefix of an array item: inside the head, or the head and a strict prefix of the body *)
Lemma array_pfx_cases e es l p L : wf e = true -> array_elems e = Some es -> sprefix l (ser e) -> p + len l <= L ->
  eoi (dec_array (mkdst p l L))
  \/ (exists w l', e = EArray w es /\ l = Cbor.head 4 w (len es) ++ l' /\ sprefix l' (flat_map ser es)
        /\ dec_array (mkdst p l L) = (Ok (Some (len es)), mkdst (p + len (Cbor.head 4 w (len es))) l' L))
  \/ (exists l', e = EArrayI es /\ l = 159 :: l' /\ sprefix l' (flat_map ser es ++ [255])
        /\ dec_array (mkdst p l L) = (Ok None, mkdst (p + 1) l' L)).
Proof.
  intros Hw Ha Hl HL. destruct e; try discriminate Ha; injection Ha as ->; cbn [wf ser] in *.
  - apply andb_prop in Hw as [Hf _]. apply sprefix_app_inv in Hl as [Hl|(l' & -> & Hl)].
    + left. now apply (dec_container_short 4) with w (len es).
    + right; left. exists w, l'. repeat split; try assumption. rewrite len_app in HL.
      apply (dec_container_def 4); [assumption|lia].
  - apply sprefix_cons_inv in Hl as [->|(l' & -> & Hl)].
    + left. eexists. reflexivity.
    + right; right. exists l'. repeat split; assumption.
Qed.

Lemma map_pfx_cases e es l p L : wf e = true -> map_elems e = Some es -> sprefix l (ser e) -> p + len l <= L ->
  eoi (dec_map (mkdst p l L))
  \/ (exists w l', e = EMap w es /\ l = Cbor.head 5 w (len es / 2) ++ l' /\ sprefix l' (flat_map ser es)
        /\ dec_map (mkdst p l L) = (Ok (Some (len es / 2)), mkdst (p + len (Cbor.head 5 w (len es / 2))) l' L))
  \/ (exists l', e = EMapI es /\ l = 191 :: l' /\ sprefix l' (flat_map ser es ++ [255])
        /\ dec_map (mkdst p l L) = (Ok None, mkdst (p + 1) l' L)).
Proof.
  intros Hw Ha Hl HL. destruct e; try discriminate Ha; injection Ha as ->; cbn [wf ser] in *.
  - apply andb_prop in Hw as [Hw _]. apply andb_prop in Hw as [_ Hf]. apply sprefix_app_inv in Hl as [Hl|(l' & -> & Hl)].
    + left. now apply (dec_container_short 5) with w (len es / 2).
    + right; left. exists w, l'. repeat split; try assumption. rewrite len_app in HL.
      apply (dec_container_def 5); [assumption|lia].
  - apply sprefix_cons_inv in Hl as [->|(l' & -> & Hl)].
    + left. eexists. reflexivity.
    + right; right. exists l'. repeat split; assumption.
Qed.

(* ---- loops on a prefix, over the abstract units of TypeSemLoops ---- *)
Section PfxLoops.
  Variable fuel : nat.
  Context {X : Type}.
  Variable serX : X -> bytes.
  Variable okX : X -> Prop.
  Variable semX : X -> tsem value.
  Variable d : M value.
  Hypothesis Hd : forall x r p L, okX x -> p + len (serX x) <= L -> len (serX x) < 18446744073709551616 ->
    (length (serX x ++ r) < fuel)%nat ->
    sem_agrees (d (mkdst p (serX x ++ r) L)) (semX x) (p + len (serX x)) r L.
  Hypothesis Hp : forall x l p L v, okX x -> len (serX x) < 18446744073709551616 -> semX x = TsVal v ->
    sprefix l (serX x) -> p + len l <= L -> (length l < fuel)%nat -> eoi (d (mkdst p l L)).
  Hypothesis Hfirst : forall x, okX x -> exists b t, serX x = b :: t /\ b <> 255.

  Lemma all_val_cons x xs vs : ts_all semX (x :: xs) = TsVal vs ->
    exists v vs', semX x = TsVal v /\ ts_all semX xs = TsVal vs' /\ vs = v :: vs'.
  Proof.
    cbn [ts_all]. intro H. apply ts_bind_val in H as (v & Hv & H). apply ts_map_val in H as (vs' & Hvs & ->). eauto.
  Qed.

  Lemma dec_n_pfx : forall xs fl acc l p L vs,
    Forall okX xs -> ts_all semX xs = TsVal vs -> len (flat_map serX xs) < 18446744073709551616 ->
    sprefix l (flat_map serX xs) -> p + len l <= L -> (length l < fuel)%nat -> (length l < fl)%nat ->
    eoi (dec_n d (len xs) fl acc (mkdst p l L)).
  Proof.
    induction xs as [|x xs IH]; intros fl acc l p L vs Hok Hvs H64 Hl HL Hfu Hfl.
    - now apply sprefix_nil_r in Hl.
    - inversion Hok as [|x0 xs0 Hx Hxs]; subst x0 xs0.
      apply all_val_cons in Hvs as (v & vs' & Hv & Hvs' & ->).
      destruct fl as [|fl]; [lia|].
      rewrite dec_n_S by (rewrite len_cons; lia). cbn [flat_map] in *. rewrite len_app in H64.
      apply sprefix_app_inv in Hl as [Hl|(l' & -> & Hl)].
      + apply bind_eoi. apply (Hp x l p L v); try assumption. lia.
      + rewrite len_app, app_length in *.
        rewrite (bind_ok _ _ _ _ _ (sem_val_eq _ _ _ _ _ _ Hv (Hd x l' p L Hx ltac:(lia) ltac:(lia) ltac:(rewrite app_length; lia)))).
        replace (N.pred (len (x :: xs))) with (len xs) by (rewrite len_cons; lia).
        pose proof (unit_nonempty serX okX Hfirst x Hx) as Hne. apply (IH fl (v :: acc) l' _ L vs'); try assumption; try lia.
  Qed.

  Lemma dec_until_break_pfx : forall xs fl acc l p L vs,
    Forall okX xs -> ts_all semX xs = TsVal vs -> len (flat_map serX xs) < 18446744073709551616 ->
    sprefix l (flat_map serX xs ++ [255]) -> p + len l <= L -> (length l < fuel)%nat -> (length l < fl)%nat ->
    eoi (dec_until_break d fl acc (mkdst p l L)).
  Proof.
    induction xs as [|x xs IH]; intros fl acc l p L vs Hok Hvs H64 Hl HL Hfu Hfl;
      (destruct fl as [|fl]; [lia|]); cbn [dec_until_break].
    - cbn [flat_map app] in Hl. apply sprefix_one in Hl as ->. apply eoi_nil_current.
    - inversion Hok as [|x0 xs0 Hx Hxs]; subst x0 xs0.
      apply all_val_cons in Hvs as (v & vs' & Hv & Hvs' & ->).
      cbn [flat_map] in *. rewrite len_app in H64. rewrite <- app_assoc in Hl.
      destruct (Hfirst x Hx) as (b & t & Eb & Hb).
      destruct l as [|b0 l0]; [apply eoi_nil_current|].
      assert (b0 = b) as ->.
      { destruct Hl as (y & z & E). rewrite Eb in E. cbn [app] in E. now injection E as ->. }
      rewrite (bind_ok _ _ _ _ _ (current_cons _ _ _ _)).
      destruct (N.eqb_spec b 255) as [|_]; [contradiction|].
      apply sprefix_app_inv in Hl as [Hl|(l' & E & Hl)].
      + apply bind_eoi. apply (Hp x (b :: l0) p L v); try assumption. lia.
      + rewrite E in *. rewrite len_app, app_length in *.
        rewrite (bind_ok _ _ _ _ _ (sem_val_eq _ _ _ _ _ _ Hv (Hd x l' p L Hx ltac:(lia) ltac:(lia) ltac:(rewrite app_length; lia)))).
        pose proof (unit_nonempty serX okX Hfirst x Hx) as Hne. apply (IH fl (v :: acc) l' _ L vs'); try assumption; try lia.
  Qed.

  Lemma arr_n_pfx cap : forall xs fl acc l p L vs,
    Forall okX xs -> ts_all semX xs = TsVal vs -> len acc + len xs <= cap -> len (flat_map serX xs) < 18446744073709551616 ->
    sprefix l (flat_map serX xs) -> p + len l <= L -> (length l < fuel)%nat -> (length l < fl)%nat ->
    eoi (arr_n d cap (len xs) fl acc (mkdst p l L)).
  Proof.
    induction xs as [|x xs IH]; intros fl acc l p L vs Hok Hvs Hcap H64 Hl HL Hfu Hfl.
    - now apply sprefix_nil_r in Hl.
    - inversion Hok as [|x0 xs0 Hx Hxs]; subst x0 xs0.
      apply all_val_cons in Hvs as (v & vs' & Hv & Hvs' & ->).
      destruct fl as [|fl]; [lia|].
      rewrite arr_n_S by (rewrite len_cons; lia). cbn [flat_map] in *. rewrite len_app in H64. rewrite len_cons in Hcap.
      apply sprefix_app_inv in Hl as [Hl|(l' & -> & Hl)].
      + apply bind_eoi. apply (Hp x l p L v); try assumption. lia.
      + rewrite len_app, app_length in *.
        rewrite (bind_ok _ _ _ _ _ (sem_val_eq _ _ _ _ _ _ Hv (Hd x l' p L Hx ltac:(lia) ltac:(lia) ltac:(rewrite app_length; lia)))).
        destruct (N.ltb_spec (len acc) cap); [|lia].
        replace (N.pred (len (x :: xs))) with (len xs) by (rewrite len_cons; lia).
        pose proof (unit_nonempty serX okX Hfirst x Hx) as Hne. apply (IH fl (v :: acc) l' _ L vs'); try assumption; try lia; rewrite len_cons; lia.
  Qed.

  Lemma arr_until_break_pfx cap : forall xs fl acc l p L vs,
    Forall okX xs -> ts_all semX xs = TsVal vs -> len acc + len xs <= cap -> len (flat_map serX xs) < 18446744073709551616 ->
    sprefix l (flat_map serX xs ++ [255]) -> p + len l <= L -> (length l < fuel)%nat -> (length l < fl)%nat ->
    eoi (arr_until_break d cap fl acc (mkdst p l L)).
  Proof.
    induction xs as [|x xs IH]; intros fl acc l p L vs Hok Hvs Hcap H64 Hl HL Hfu Hfl;
      (destruct fl as [|fl]; [lia|]); cbn [arr_until_break].
    - cbn [flat_map app] in Hl. apply sprefix_one in Hl as ->. apply eoi_nil_current.
    - inversion Hok as [|x0 xs0 Hx Hxs]; subst x0 xs0.
      apply all_val_cons in Hvs as (v & vs' & Hv & Hvs' & ->).
      cbn [flat_map] in *. rewrite len_app in H64. rewrite <- app_assoc in Hl. rewrite len_cons in Hcap.
      destruct (Hfirst x Hx) as (b & t & Eb & Hb).
      destruct l as [|b0 l0]; [apply eoi_nil_current|].
      assert (b0 = b) as ->.
      { destruct Hl as (y & z & E). rewrite Eb in E. cbn [app] in E. now injection E as ->. }
      rewrite (bind_ok _ _ _ _ _ (current_cons _ _ _ _)).
      destruct (N.eqb_spec b 255) as [|_]; [contradiction|].
      apply sprefix_app_inv in Hl as [Hl|(l' & E & Hl)].
      + apply bind_eoi. apply (Hp x (b :: l0) p L v); try assumption. lia.
      + rewrite E in *. rewrite len_app, app_length in *.
        rewrite (bind_ok _ _ _ _ _ (sem_val_eq _ _ _ _ _ _ Hv (Hd x l' p L Hx ltac:(lia) ltac:(lia) ltac:(rewrite app_length; lia)))).
        destruct (N.ltb_spec (len acc) cap); [|lia].
        pose proof (unit_nonempty serX okX Hfirst x Hx) as Hne. apply (IH fl (v :: acc) l' _ L vs'); try assumption; try lia; rewrite len_cons; lia.
  Qed.
End PfxLoops.

(* ---- instances ---- *)
Lemma elem_pfx_Hp fuel d f : elem_pfx fuel d f ->
  forall x l p L v, wf_item x -> len (ser x) < 18446744073709551616 -> f x = TsVal v ->
    sprefix l (ser x) -> p + len l <= L -> (length l < fuel)%nat -> eoi (d (mkdst p l L)).
Proof. intros H x l p L v Hx. now apply H. Qed.

Lemma pair_Hp fuel dk dv fk fv : elem_ok fuel dk fk -> elem_pfx fuel dk fk -> elem_pfx fuel dv fv ->
  forall x l p L v, wf_pair x -> len (ser_pair x) < 18446744073709551616 -> sem_pair fk fv x = TsVal v ->
    sprefix l (ser_pair x) -> p + len l <= L -> (length l < fuel)%nat -> eoi (dec_pair dk dv (mkdst p l L)).
Proof.
  intros Hk Hpk Hpv [k v0] l p L v [Hwk Hwv] H64 Hv Hl HL Hfu. unfold ser_pair, sem_pair, dec_pair in *. cbn [fst snd] in *.
  apply ts_bind_val in Hv as (a & Ha & Hv). apply ts_map_val in Hv as (b & Hb & ->). rewrite len_app in H64.
  apply sprefix_app_inv in Hl as [Hl|(l' & -> & Hl)].
  - apply bind_eoi. apply (Hpk k l p L a); try assumption. lia.
  - rewrite len_app, app_length in *.
    rewrite (bind_ok _ _ _ _ _ (sem_val_eq _ _ _ _ _ _ Ha (Hk k l' p L Hwk ltac:(lia) ltac:(lia) ltac:(rewrite app_length; lia)))).
    apply bind_eoi. apply (Hpv v0 l' _ L b); try assumption; lia.
Qed.

Section PfxContainers.
  Variable c : cfg.
  Variable fuel : nat.
  Notation alloc := (c_alloc c).

  Lemma seq_pfx d f : elem_ok fuel d f -> elem_pfx fuel d f ->
    elem_pfx fuel (fmap VList (dec_seq d fuel))
      (fun e => match array_elems e with Some es => ts_map VList (ts_all f es) | None => TsErr end).
  Proof.
    intros Hd Hp e l p L v Hw H64 Hv Hl HL Hfu.
    destruct (array_elems e) as [es|] eqn:Ea; [|discriminate]. apply ts_map_val in Hv as (vs & Hvs & ->).
    apply fmap_eoi. unfold dec_seq.
    destruct (array_pfx_cases e es l p L Hw Ea Hl HL) as [H|[(w & l' & -> & -> & Hl' & H)|(l' & -> & -> & Hl' & H)]].
    - now apply bind_eoi.
    - rewrite (bind_ok _ _ _ _ _ H). cbn [wf ser] in *. apply andb_prop in Hw as [_ Hws].
      rewrite len_app, ?app_length in *.
      apply (dec_n_pfx fuel ser wf_item f d (elem_ok_Hd _ _ _ Hd) (elem_pfx_Hp _ _ _ Hp) ser_first_not_break es fuel [] l' _ L vs);
        try assumption; try lia. now apply wf_items.
    - rewrite (bind_ok _ _ _ _ _ H). cbn [wf ser] in *. rewrite len_indef in H64. rewrite len_cons in HL. cbn [length] in Hfu.
      apply (dec_until_break_pfx fuel ser wf_item f d (elem_ok_Hd _ _ _ Hd) (elem_pfx_Hp _ _ _ Hp) ser_first_not_break es fuel [] l' _ L vs);
        try assumption; try lia. now apply wf_items.
  Qed.

  Lemma arr_pfx d f n : elem_ok fuel d f -> elem_pfx fuel d f ->
    elem_pfx fuel (fmap VList (dec_arr d n fuel))
      (fun e => match array_elems e with
                | Some es => ts_bind (ts_all f es) (fun l => if len l =? n then TsVal (VList l) else TsErr)
                | None => TsErr
                end).
  Proof.
    intros Hd Hp e l p L v Hw H64 Hv Hl HL Hfu.
    destruct (array_elems e) as [es|] eqn:Ea; [|discriminate]. apply ts_bind_val in Hv as (vs & Hvs & Hv).
    destruct (N.eqb_spec (len vs) n) as [En|]; [|discriminate].
    assert (Hlen: len es = n).
    { rewrite <- En. clear - Hvs. revert vs Hvs. induction es as [|x es IH]; intros vs Hvs; cbn [ts_all] in Hvs.
      - now injection Hvs as <-.
      - apply ts_bind_val in Hvs as (a & _ & Hvs). apply ts_map_val in Hvs as (vs' & Hvs' & ->). rewrite !len_cons. f_equal. now apply IH. }
    apply fmap_eoi. unfold dec_arr.
    destruct (array_pfx_cases e es l p L Hw Ea Hl HL) as [H|[(w & l' & -> & -> & Hl' & H)|(l' & -> & -> & Hl' & H)]].
    - now apply bind_eoi.
    - rewrite (bind_ok _ _ _ _ _ H). cbn [wf ser] in *. apply andb_prop in Hw as [_ Hws].
      rewrite len_app, ?app_length in *. apply bind_eoi.
      apply (arr_n_pfx fuel ser wf_item f d (elem_ok_Hd _ _ _ Hd) (elem_pfx_Hp _ _ _ Hp) ser_first_not_break n es fuel [] l' _ L vs);
        try assumption; try lia; [now apply wf_items|rewrite len_nil; lia].
    - rewrite (bind_ok _ _ _ _ _ H). cbn [wf ser] in *. rewrite len_indef in H64. rewrite len_cons in HL. cbn [length] in Hfu.
      apply bind_eoi.
      apply (arr_until_break_pfx fuel ser wf_item f d (elem_ok_Hd _ _ _ Hd) (elem_pfx_Hp _ _ _ Hp) ser_first_not_break n es fuel [] l' _ L vs);
        try assumption; try lia; [now apply wf_items|rewrite len_nil; lia].
  Qed.

  Lemma map_pfx dk dv fk fv : elem_ok fuel dk fk -> elem_pfx fuel dk fk -> elem_ok fuel dv fv -> elem_pfx fuel dv fv ->
    elem_pfx fuel (fmap VList (dec_map_seq dk dv fuel))
      (fun e => match map_elems e with Some es => ts_map VList (ts_alt fk fv es) | None => TsErr end).
  Proof.
    intros Hk Hpk Hv Hpv e l p L v Hw H64 Hval Hl HL Hfu.
    destruct (map_elems e) as [es|] eqn:Ea; [|discriminate]. apply ts_map_val in Hval as (vs & Hvs & ->).
    apply fmap_eoi. unfold dec_map_seq.
    destruct (map_pfx_cases e es l p L Hw Ea Hl HL) as [H|[(w & l' & -> & -> & Hl' & H)|(l' & -> & -> & Hl' & H)]].
    - now apply bind_eoi.
    - rewrite (bind_ok _ _ _ _ _ H). cbn [wf ser] in *.
      apply andb_prop in Hw as [Hw Hws]. apply andb_prop in Hw as [Hev _].
      rewrite <- (pairs_sem fk fv es Hev) in Hvs. apply ts_map_val in Hvs as (ps & Hps & _).
      rewrite <- (pairs_ser es Hev) in *. rewrite len_app, ?app_length in *. rewrite <- ?(pairs_len es Hev) in *.
      apply bind_eoi.
      apply (dec_n_pfx fuel ser_pair wf_pair (sem_pair fk fv) (dec_pair dk dv) (pair_Hd fuel dk dv fk fv Hk Hv)
               (pair_Hp fuel dk dv fk fv Hk Hpk Hpv) pair_first (pairs_of es) fuel [] l' _ L ps);
        try assumption; try lia. now apply pairs_wf.
    - rewrite (bind_ok _ _ _ _ _ H). cbn [wf ser] in *. apply andb_prop in Hw as [Hev Hws].
      rewrite <- (pairs_sem fk fv es Hev) in Hvs. apply ts_map_val in Hvs as (ps & Hps & _).
      rewrite <- (pairs_ser es Hev) in *.
      rewrite len_indef in H64. rewrite len_cons in HL. cbn [length] in Hfu. apply bind_eoi.
      apply (dec_until_break_pfx fuel ser_pair wf_pair (sem_pair fk fv) (dec_pair dk dv) (pair_Hd fuel dk dv fk fv Hk Hv)
               (pair_Hp fuel dk dv fk fv Hk Hpk Hpv) pair_first (pairs_of es) fuel [] l' _ L ps);
        try assumption; try lia. now apply pairs_wf.
  Qed.
End PfxContainers.

(* ---- datatype() on a non-empty prefix: end of input (a peek beyond the end) or the classification of the first
   byte, which is Break only for ff and Null only for f6 ---- *)
Lemma datatype_first b l0 p L :
  eoi (datatype (mkdst p (b :: l0) L)) \/
  exists dt, datatype (mkdst p (b :: l0) L) = (Ok dt, mkdst p (b :: l0) L)
    /\ (b <> 255 -> ctype_is_break dt = false) /\ (b <> 246 -> ctype_is_null dt = false).
Proof.
  unfold datatype. rewrite (bind_ok _ _ _ _ _ (current_cons _ _ _ _)). unfold type_of.
  repeat match goal with |- context [if ?c then _ else _] => let E := fresh "E" in destruct c eqn:E end;
  first
  [ match goal with |- context [peek] => idtac end;
    destruct l0 as [|y l1];
    [ left; eexists; reflexivity
    | right; eexists; split; [reflexivity|split; intro; destruct (y <? 128); reflexivity] ]
  | right; eexists; split; [reflexivity|split; intro; try reflexivity];
    exfalso; repeat match goal with E : (b =? _) = true |- _ => apply N.eqb_eq in E end; congruence ].
Qed.

Lemma fb_not_null e : wf e = true -> is_null_item e = false -> fb e <> 246.
Proof.
  intros Hw Hn. pose proof (fb_range e Hw) as Hr.
  destruct e; cbn [fb_spec is_null_item] in *; try lia.
  apply N.eqb_neq in Hn. lia.
Qed.

Lemma fb_not_break e : wf e = true -> fb e <> 255.
Proof. intros Hw. pose proof (fb_range e Hw) as Hr. destruct e; cbn [fb_spec] in *; lia. Qed.

Lemma sprefix_fb e b l0 : wf e = true -> sprefix (b :: l0) (ser e) -> b = fb e.
Proof. intros Hw (x & y & E). destruct (ser_fb e Hw) as [t Et]. rewrite Et in E. cbn [app] in E. now injection E as ->. Qed.

Section PfxFields.
  Variable c : cfg.
  Variable fuel : nat.
  Hypothesis Halloc : c_alloc c = true.
  Notation alloc := (c_alloc c).
  Definition elem_both (d : M value) (f : enc -> tsem value) : Prop := elem_ok fuel d f /\ elem_pfx fuel d f.

  (* skip on a strict prefix of a skippable item (feature alloc) *)
  Lemma skip_pfx e l p L : wf e = true -> skippable alloc e = true -> len (ser e) < 18446744073709551616 ->
    sprefix l (ser e) -> p + len l <= L -> eoi (skip_auto c (mkdst p l L)).
  Proof.
    intros Hw Hs H64 (x & y & E) HL. unfold skippable in Hs. apply andb_prop in Hs as [Hu _].
    unfold skip_auto, skip, fuel_of. rewrite Halloc. cbn [drest].
    eapply skip_prefix; try eassumption. lia.
  Qed.

  (* ---- tuples ---- *)
  Lemma dec_each_pfx : forall ds fs, Forall2 elem_both ds fs -> forall es l p L vs,
    length es = length ds -> forallb wf es = true -> ts_zip fs es = TsVal vs ->
    len (flat_map ser es) < 18446744073709551616 -> sprefix l (flat_map ser es) -> p + len l <= L ->
    (length l < fuel)%nat -> eoi (dec_each ds (mkdst p l L)).
  Proof.
    induction 1 as [|d f ds fs [Hd Hp] Hds IH]; intros es l p L vs Hlen Hw Hvs H64 Hl HL Hfu.
    - destruct es; [|discriminate Hlen]. now apply sprefix_nil_r in Hl.
    - destruct es as [|e es]; [discriminate Hlen|]. cbn [length] in Hlen. cbn [forallb] in Hw.
      apply andb_prop in Hw as [Hwe Hws]. cbn [dec_each flat_map ts_zip] in *.
      apply ts_bind_val in Hvs as (a & Ha & Hvs). apply ts_map_val in Hvs as (vs' & Hvs' & ->). rewrite len_app in H64.
      apply sprefix_app_inv in Hl as [Hl|(l' & -> & Hl)].
      + apply bind_eoi. apply (Hp e l p L a); try assumption. lia.
      + rewrite len_app, app_length in *.
        rewrite (bind_ok _ _ _ _ _ (sem_val_eq _ _ _ _ _ _ Ha (Hd e l' p L Hwe ltac:(lia) ltac:(lia) ltac:(rewrite app_length; lia)))).
        apply bind_eoi. apply (IH es l' _ L vs'); try assumption; lia.
  Qed.

  Lemma tuple_pfx ds fs : Forall2 elem_both ds fs ->
    elem_pfx fuel (r <- dec_array ;; if opt_eqb r (len ds) then fmap VList (dec_each ds) else fail Message)
      (fun e => match def_array_elems e with
                | Some es => if len es =? len ds then ts_map VList (ts_zip fs es) else TsErr
                | None => TsErr
                end).
  Proof.
    intros Hds e l p L v Hw H64 Hv Hl HL Hfu.
    destruct e; try discriminate Hv. cbn [def_array_elems] in Hv.
    destruct (N.eqb_spec (len es) (len ds)) as [El|]; [|discriminate]. apply ts_map_val in Hv as (vs & Hvs & ->).
    destruct (array_pfx_cases (EArray w es) es l p L Hw eq_refl Hl HL) as [H|[(w' & l' & E & -> & Hl' & H)|(l' & E & _)]];
      [now apply bind_eoi| |discriminate E].
    injection E as <-. rewrite (bind_ok _ _ _ _ _ H). cbn [opt_eqb]. destruct (N.eqb_spec (len es) (len ds)) as [_|N']; [|contradiction].
    cbn [wf ser] in *. apply andb_prop in Hw as [_ Hws]. rewrite len_app, ?app_length in *. apply fmap_eoi.
    apply (dec_each_pfx ds fs Hds es l' _ L vs); try assumption; try lia. unfold len in El. lia.
  Qed.

  (* ---- decode_fields! ---- *)
  Lemma field_step_eq dpre d0 dpost slots :
    field_step c (dpre ++ d0 :: dpost) (len dpre) slots = (x <- d0 ;; ret (set_slot slots (len dpre) x)).
  Proof.
    unfold field_step. destruct (N.ltb_spec (len dpre) (len (dpre ++ d0 :: dpost))) as [_|Hge].
    2:{ rewrite len_app, len_cons in Hge. lia. }
    unfold len at 1. now rewrite Nat2N.id, nth_error_mid.
  Qed.

  Lemma field_step_surplus ds i slots : len ds <= i -> field_step c ds i slots = (skip_auto c ;;; ret slots).
  Proof. intro H. unfold field_step. destruct (N.ltb_spec i (len ds)); [lia|reflexivity]. Qed.

  Lemma exp_slots_nil_val es sl : exp_slots alloc [] es = TsVal sl -> forallb (skippable alloc) es = true.
  Proof.
    revert sl. induction es as [|e es IH]; intros sl H; [reflexivity|]. cbn [exp_slots forallb] in *.
    destruct (skippable alloc e); [|discriminate]. cbn [andb]. eapply IH, H.
  Qed.

  Lemma fields_n_surplus_pfx ds : forall es i fl slots l p L,
    len ds <= i -> forallb wf es = true -> forallb (skippable alloc) es = true ->
    len (flat_map ser es) < 18446744073709551616 -> sprefix l (flat_map ser es) -> p + len l <= L -> (length l < fl)%nat ->
    eoi (fields_n c ds i (len es) fl slots (mkdst p l L)).
  Proof.
    induction es as [|e es IH]; intros i fl slots l p L Hi Hw Hs H64 Hl HL Hfl.
    - now apply sprefix_nil_r in Hl.
    - cbn [forallb] in Hw, Hs. apply andb_prop in Hw as [Hwe Hws]. apply andb_prop in Hs as [Hse Hss].
      destruct fl as [|fl]; [lia|]. rewrite fields_n_S by (rewrite len_cons; lia).
      rewrite field_step_surplus by assumption. cbn [flat_map] in *. rewrite len_app in H64.
      apply sprefix_app_inv in Hl as [Hl|(l' & -> & Hl)].
      + apply bind_eoi, bind_eoi. apply (skip_pfx e l p L); try assumption. lia.
      + rewrite len_app, app_length in *. pose proof (length_ser_pos e).
        rewrite (bind_ok _ _ _ _ _ (bind_ok _ _ _ _ _ (skip_item c e l' p L Hwe Hse ltac:(lia) ltac:(lia)))).
        try unfold ret at 1.
        replace (N.pred (len (e :: es))) with (len es) by (rewrite len_cons; lia).
        apply IH; try assumption; lia.
  Qed.

  Lemma fields_n_pfx : forall dpost fpost, Forall2 elem_both dpost fpost -> forall dpre es fl slots l p L sl,
    forallb wf es = true -> exp_slots alloc fpost es = TsVal sl ->
    len (flat_map ser es) < 18446744073709551616 -> sprefix l (flat_map ser es) -> p + len l <= L ->
    (length l < fuel)%nat -> (length l < fl)%nat ->
    eoi (fields_n c (dpre ++ dpost) (len dpre) (len es) fl slots (mkdst p l L)).
  Proof.
    induction 1 as [|d0 f0 dpost fpost [Hd0 Hp0] Hrest IH]; intros dpre es fl slots l p L sl Hw Hsl H64 Hl HL Hfu Hfl.
    - apply (fields_n_surplus_pfx (dpre ++ [])); try assumption; [rewrite app_nil_r; lia|eapply exp_slots_nil_val, Hsl].
    - destruct es as [|e es]; [now apply sprefix_nil_r in Hl|].
      cbn [forallb] in Hw. apply andb_prop in Hw as [Hwe Hws].
      destruct fl as [|fl]; [lia|]. rewrite fields_n_S by (rewrite len_cons; lia).
      rewrite field_step_eq. cbn [flat_map exp_slots] in *. rewrite len_app in H64.
      apply ts_bind_val in Hsl as (a & Ha & Hsl). apply ts_map_val in Hsl as (sl' & Hsl' & _).
      apply sprefix_app_inv in Hl as [Hl|(l' & -> & Hl)].
      + apply bind_eoi, bind_eoi. apply (Hp0 e l p L a); try assumption. lia.
      + rewrite len_app, app_length in *. pose proof (length_ser_pos e).
        rewrite (bind_ok _ _ _ _ _ (bind_ok _ _ _ _ _ (sem_val_eq _ _ _ _ _ _ Ha (Hd0 e l' p L Hwe ltac:(lia) ltac:(lia) ltac:(rewrite app_length; lia))))).
        try unfold ret at 1.
        replace (N.pred (len (e :: es))) with (len es) by (rewrite len_cons; lia).
        replace (len dpre + 1) with (len (dpre ++ [d0])) by (rewrite len_app; reflexivity).
        replace (dpre ++ d0 :: dpost) with ((dpre ++ [d0]) ++ dpost) by (rewrite <- app_assoc; reflexivity).
        apply (IH (dpre ++ [d0]) es fl _ l' _ L sl'); try assumption; lia.
  Qed.

  Lemma fields_ub_surplus_pfx ds : forall es i fl slots l p L,
    len ds <= i -> forallb wf es = true -> forallb (skippable alloc) es = true ->
    len (flat_map ser es) < 18446744073709551616 -> sprefix l (flat_map ser es ++ [255]) -> p + len l <= L -> (length l < fl)%nat ->
    eoi (fields_until_break c ds i fl slots (mkdst p l L)).
  Proof.
    induction es as [|e es IH]; intros i fl slots l p L Hi Hw Hs H64 Hl HL Hfl;
      (destruct fl as [|fl]; [lia|]); cbn [fields_until_break].
    - cbn [flat_map app] in Hl. apply sprefix_one in Hl as ->. apply bind_eoi. eexists. reflexivity.
    - cbn [forallb] in Hw, Hs. apply andb_prop in Hw as [Hwe Hws]. apply andb_prop in Hs as [Hse Hss].
      cbn [flat_map] in *. rewrite len_app in H64. rewrite <- app_assoc in Hl.
      destruct l as [|b l0]; [apply bind_eoi; eexists; reflexivity|].
      assert (b = fb e) as ->.
      { destruct Hl as (y & z & E). destruct (ser_fb e Hwe) as [t Et]. rewrite Et in E. cbn [app] in E. now injection E as ->. }
      destruct (datatype_first (fb e) l0 p L) as [H|(dt & H & Hb & _)]; [now apply bind_eoi|].
      rewrite (bind_ok _ _ _ _ _ H). rewrite (Hb (fb_not_break e Hwe)).
      rewrite field_step_surplus by assumption.
      apply sprefix_app_inv in Hl as [Hl|(l' & E & Hl)].
      + apply bind_eoi, bind_eoi. apply (skip_pfx e _ p L); try assumption. lia.
      + rewrite E in *. rewrite len_app, app_length in *. pose proof (length_ser_pos e).
        rewrite (bind_ok _ _ _ _ _ (bind_ok _ _ _ _ _ (skip_item c e l' p L Hwe Hse ltac:(lia) ltac:(lia)))).
        try unfold ret at 1. apply IH; try assumption; lia.
  Qed.

  Lemma fields_ub_pfx : forall dpost fpost, Forall2 elem_both dpost fpost -> forall dpre es fl slots l p L sl,
    forallb wf es = true -> exp_slots alloc fpost es = TsVal sl ->
    len (flat_map ser es) < 18446744073709551616 -> sprefix l (flat_map ser es ++ [255]) -> p + len l <= L ->
    (length l < fuel)%nat -> (length l < fl)%nat ->
    eoi (fields_until_break c (dpre ++ dpost) (len dpre) fl slots (mkdst p l L)).
  Proof.
    induction 1 as [|d0 f0 dpost fpost [Hd0 Hp0] Hrest IH]; intros dpre es fl slots l p L sl Hw Hsl H64 Hl HL Hfu Hfl.
    - apply (fields_ub_surplus_pfx (dpre ++ []) es); try assumption; [rewrite app_nil_r; lia|eapply exp_slots_nil_val, Hsl].
    - destruct fl as [|fl]; [lia|]. cbn [fields_until_break]. destruct es as [|e es].
      + cbn [flat_map app] in Hl. apply sprefix_one in Hl as ->. apply bind_eoi. eexists. reflexivity.
      + cbn [forallb] in Hw. apply andb_prop in Hw as [Hwe Hws].
        cbn [flat_map exp_slots] in *. rewrite len_app in H64. rewrite <- app_assoc in Hl.
        apply ts_bind_val in Hsl as (a & Ha & Hsl). apply ts_map_val in Hsl as (sl' & Hsl' & _).
        destruct l as [|b l0]; [apply bind_eoi; eexists; reflexivity|].
        assert (b = fb e) as ->.
        { destruct Hl as (y & z & E). destruct (ser_fb e Hwe) as [t Et]. rewrite Et in E. cbn [app] in E. now injection E as ->. }
        destruct (datatype_first (fb e) l0 p L) as [H|(dt & H & Hb & _)]; [now apply bind_eoi|].
        rewrite (bind_ok _ _ _ _ _ H). rewrite (Hb (fb_not_break e Hwe)).
        rewrite field_step_eq.
        apply sprefix_app_inv in Hl as [Hl|(l' & E & Hl)].
        * apply bind_eoi, bind_eoi. apply (Hp0 e _ p L a); try assumption. lia.
        * rewrite E in *. rewrite len_app, app_length in *. pose proof (length_ser_pos e).
          rewrite (bind_ok _ _ _ _ _ (bind_ok _ _ _ _ _ (sem_val_eq _ _ _ _ _ _ Ha (Hd0 e l' p L Hwe ltac:(lia) ltac:(lia) ltac:(rewrite app_length; lia))))).
          try unfold ret at 1.
          replace (len dpre + 1) with (len (dpre ++ [d0])) by (rewrite len_app; reflexivity).
          replace (dpre ++ d0 :: dpost) with ((dpre ++ [d0]) ++ dpost) by (rewrite <- app_assoc; reflexivity).
          apply (IH (dpre ++ [d0]) es fl _ l' _ L sl'); try assumption; lia.
  Qed.

  Lemma fields_val_slots fs es l : ts_fields alloc fs es = TsVal l -> exists sl, exp_slots alloc fs es = TsVal sl.
  Proof.
    intro H. pose proof (slots_rel_fields alloc es fs 0) as R. rewrite H in R.
    destruct (exp_slots alloc fs es) as [sl| |]; cbn [slots_rel] in R; try contradiction. eauto.
  Qed.

  Lemma dec_fields_pfx ds fs : Forall2 elem_both ds fs -> forall e l p L vs,
    wf e = true -> len (ser e) < 18446744073709551616 -> ts_fields_of alloc fs e = TsVal vs ->
    sprefix l (ser e) -> p + len l <= L -> (length l < fuel)%nat -> eoi (dec_fields c ds fuel (mkdst p l L)).
  Proof.
    intros Hds e l p L vs Hw H64 Hv Hl HL Hfu. unfold ts_fields_of in Hv.
    destruct (array_elems e) as [es|] eqn:Ea; [|discriminate].
    destruct (fields_val_slots _ _ _ Hv) as [sl Hsl]. unfold dec_fields.
    destruct (array_pfx_cases e es l p L Hw Ea Hl HL) as [H|[(w & l' & -> & -> & Hl' & H)|(l' & -> & -> & Hl' & H)]].
    - now apply bind_eoi.
    - rewrite (bind_ok _ _ _ _ _ H). cbn [wf ser] in *. apply andb_prop in Hw as [_ Hws].
      rewrite len_app, ?app_length in *. apply bind_eoi.
      apply (fields_n_pfx ds fs Hds [] es fuel _ l' _ L sl); try assumption; lia.
    - rewrite (bind_ok _ _ _ _ _ H). cbn [wf ser] in *. rewrite len_indef in H64. rewrite len_cons in HL. cbn [length] in Hfu.
      apply bind_eoi.
      apply (fields_ub_pfx ds fs Hds [] es fuel _ l' _ L sl); try assumption; lia.
  Qed.
End PfxFields.

Section PfxAgree.
  Variable c : cfg.
  Variable fuel : nat.
  Hypothesis Halloc : c_alloc c = true.
  Notation alloc := (c_alloc c).
  Notation D := (fun t' : ty => decode_ty c t' fuel).
  Notation both := (elem_both fuel).

  Lemma opt_pfx d f : elem_pfx fuel d f ->
    elem_pfx fuel (dt <- datatype ;; if ctype_is_null dt then skip_auto c ;;; ret VNone else fmap VSome d)
      (fun e => if is_null_item e then TsVal VNone else ts_map VSome (f e)).
  Proof.
    intros Hp e l p L v Hw H64 Hv Hl HL Hfu.
    destruct l as [|b l0]; [apply bind_eoi; eexists; reflexivity|].
    pose proof (sprefix_fb e b l0 Hw Hl) as ->.
    destruct (is_null_item e) eqn:En.
    - destruct e; try discriminate En. cbn [is_null_item] in En. apply N.eqb_eq in En. subst n.
      cbn [ser] in Hl. change (22 <? 24) with true in Hl. cbv iota in Hl. apply sprefix_one in Hl. discriminate Hl.
    - apply ts_map_val in Hv as (a & Ha & ->).
      destruct (datatype_first (fb e) l0 p L) as [H|(dt & H & _ & Hn)]; [now apply bind_eoi|].
      rewrite (bind_ok _ _ _ _ _ H). rewrite (Hn (fb_not_null e Hw En)).
      apply fmap_eoi. now apply (Hp e _ p L a).
  Qed.

  Lemma tagged_pfx d f n : elem_pfx fuel d f ->
    elem_pfx fuel (tg <- dec_tag ;; if tg =? n then d else fail (TagMismatch tg))
      (fun e => match e with ETag _ g x => if g =? n then f x else TsErr | _ => TsErr end).
  Proof.
    intros Hp e l p L v Hw H64 Hv Hl HL Hfu. destruct e; try discriminate Hv.
    destruct (N.eqb_spec t n) as [->|]; [|discriminate]. cbn [wf ser] in *. apply andb_prop in Hw as [Hf Hwe].
    rewrite len_app in H64.
    apply sprefix_app_inv in Hl as [Hl|(l' & -> & Hl)].
    - apply bind_eoi. now apply dec_tag_short with w n.
    - rewrite len_app, app_length in *.
      rewrite (bind_ok _ _ _ _ _ (dec_tag_ok w n l' p L Hf ltac:(lia))). rewrite N.eqb_refl.
      apply (Hp e l' _ L v); try assumption; lia.
  Qed.

  (* the first element of [index, payload] on a prefix *)
  Lemma index_pfx i n l p L : wf i = true -> ts_index i = Some n -> sprefix l (ser i) -> eoi (dec_u32 (mkdst p l L)).
  Proof.
    intros Hw Hi Hl. destruct i; try discriminate Hi. cbn [wf ser] in *. unfold dec_u32. now apply dec_uint_short with w n0.
  Qed.

  Lemma two_elems (es : list enc) i x : es = [i; x] -> flat_map ser es = ser i ++ ser x.
  Proof. intros ->. cbn [flat_map]. now rewrite app_nil_r. Qed.

  Lemma enum_pfx ds fs : Forall2 both ds fs -> elem_pfx fuel (dec_enum ds) (enum_spec fs).
  Proof.
    intros Hds e l p L v Hw H64 Hv Hl HL Hfu. unfold enum_spec in Hv.
    destruct e; try discriminate Hv. cbn [def_array_elems] in Hv.
    destruct es as [|i [|x [|y es']]]; try discriminate Hv.
    destruct (ts_index i) as [n|] eqn:Ei; [|discriminate].
    destruct (n <? len fs) eqn:Enl; [|discriminate].
    destruct (nth_error fs (N.to_nat n)) as [f|] eqn:Enf; [|discriminate].
    apply ts_map_val in Hv as (a & Ha & ->).
    destruct (array_pfx_cases (EArray w [i; x]) [i; x] l p L Hw eq_refl Hl HL) as [H|[(w' & l' & E & -> & Hl' & H)|(l' & E & _)]];
      [unfold dec_enum; now apply bind_eoi| |discriminate E].
    injection E as <-. change (len [i; x]) with 2 in *. rewrite (dec_enum_two ds _ _ H).
    cbn [wf ser flat_map forallb] in *. rewrite app_nil_r in *.
    apply andb_prop in Hw as [_ Hw]. apply andb_prop in Hw as [Hwi Hw]. apply andb_prop in Hw as [Hwx _].
    rewrite !len_app in *. change (len [i; x]) with 2 in *.
    apply sprefix_app_inv in Hl' as [Hl'|(l'' & -> & Hl')].
    - apply bind_eoi. now apply (index_pfx i n).
    - rewrite !len_app, !app_length in *.
      pose proof (index_sem i l'' (p + len (Cbor.head 4 w 2)) L Hwi ltac:(lia)) as Hi. rewrite Ei in Hi.
      rewrite (bind_ok _ _ _ _ _ Hi).
      replace (len ds) with (len fs) by (unfold len; f_equal; symmetry; eapply Forall2_length'; eassumption).
      rewrite Enl.
      destruct (nth_error ds (N.to_nat n)) as [d|] eqn:End.
      + destruct (Forall2_nth _ _ _ _ _ Hds End) as (f' & Ef' & [_ Hp]). rewrite Enf in Ef'. injection Ef' as <-.
        apply bind_eoi. apply (Hp x l'' _ L a); try assumption; lia.
      + rewrite (Forall2_nth_none _ _ _ _ Hds End) in Enf. discriminate.
  Qed.

  Lemma bound_pfx d f : both d f ->
    elem_pfx fuel (r <- dec_array ;;
                   if opt_eqb r 2 then
                     i <- dec_u32 ;;
                     if i <? 2 then x <- d ;; ret (VVar i x)
                     else if i =? 2 then skip_auto c ;;; ret (VVar 2 VUnit)
                     else fail (UnknownVariant i)
                   else fail Message) (bound_spec c f).
  Proof.
    intros [Hd Hp] e l p L v Hw H64 Hv Hl HL Hfu. unfold bound_spec in Hv.
    destruct e; try discriminate Hv. cbn [def_array_elems] in Hv.
    destruct es as [|i [|x [|y es']]]; try discriminate Hv.
    destruct (ts_index i) as [n|] eqn:Ei; [|discriminate].
    destruct (array_pfx_cases (EArray w [i; x]) [i; x] l p L Hw eq_refl Hl HL) as [H|[(w' & l' & E & -> & Hl' & H)|(l' & E & _)]];
      [now apply bind_eoi| |discriminate E].
    injection E as <-. change (len [i; x]) with 2 in *. rewrite (bind_ok _ _ _ _ _ H). cbn [opt_eqb]. change (2 =? 2) with true. cbv iota.
    cbn [wf ser flat_map forallb] in *. rewrite app_nil_r in *.
    apply andb_prop in Hw as [_ Hw]. apply andb_prop in Hw as [Hwi Hw]. apply andb_prop in Hw as [Hwx _].
    rewrite !len_app in *. change (len [i; x]) with 2 in *.
    apply sprefix_app_inv in Hl' as [Hl'|(l'' & -> & Hl')].
    - apply bind_eoi. now apply (index_pfx i n).
    - rewrite !len_app, !app_length in *.
      pose proof (index_sem i l'' (p + len (Cbor.head 4 w 2)) L Hwi ltac:(lia)) as Hi. rewrite Ei in Hi.
      rewrite (bind_ok _ _ _ _ _ Hi).
      destruct (n <? 2).
      + apply ts_map_val in Hv as (a & Ha & ->). apply bind_eoi. apply (Hp x l'' _ L a); try assumption; lia.
      + destruct (n =? 2); [|discriminate]. destruct (skippable alloc x) eqn:Hs; [|discriminate].
        apply bind_eoi. apply (skip_pfx c Halloc x l'' _ L); try assumption; lia.
  Qed.

  Lemma dur_both : Forall2 both [fmap VNat dec_u64; fmap VNat dec_u32] [ts_uint 18446744073709551615; ts_uint 4294967295].
  Proof. repeat constructor; try (apply uint_sem; lia); apply uint_pfx. Qed.

  Lemma duration_pfx : elem_pfx fuel (l <- dec_fields c [fmap VNat dec_u64; fmap VNat dec_u32] fuel ;; mk_duration l) (ts_duration alloc).
  Proof.
    intros e l p L v Hw H64 Hv Hl HL Hfu. unfold ts_duration in Hv. apply ts_bind_val in Hv as (a & Ha & _).
    apply bind_eoi. now apply (dec_fields_pfx c fuel Halloc _ _ dur_both e l p L a).
  Qed.

  Lemma systemtime_pfx :
    elem_pfx fuel (l <- dec_fields c [fmap VNat dec_u64; fmap VNat dec_u32] fuel ;; d <- mk_duration l ;;
                   match d with
                   | VList [VNat s; VNat ns] => if s <=? imax B64 then ret (VVar 0 d) else fail Message
                   | _ => fun st => (Panic, st)
                   end)
      (fun e => ts_bind (ts_duration alloc e)
                  (fun d => match d with
                            | VList [VNat s; _] => if s <=? 9223372036854775807 then TsVal (VVar 0 d) else TsErr
                            | _ => TsErr
                            end)).
  Proof.
    intros e l p L v Hw H64 Hv Hl HL Hfu. apply ts_bind_val in Hv as (dv & Hd & _).
    unfold ts_duration in Hd. apply ts_bind_val in Hd as (a & Ha & _).
    apply bind_eoi. now apply (dec_fields_pfx c fuel Halloc _ _ dur_both e l p L a).
  Qed.

  Lemma both_forall2 ts : Forall (fun t => whole_ty t = true -> elem_pfx fuel (D t) (sem_ty alloc t)) ts ->
    forallb whole_ty ts = true -> Forall2 both (map D ts) (map (sem_ty alloc) ts).
  Proof.
    induction 1 as [|t ts Ht _ IH]; cbn [forallb map]; intro H; [constructor|].
    apply andb_prop in H as [H1 H2]. constructor; [split; [now apply sem_ty_agrees|auto]|auto].
  Qed.

  Theorem sem_ty_prefix : forall t, whole_ty t = true -> elem_pfx fuel (D t) (sem_ty alloc t).
  Proof.
    induction t using ty_ind'; intro Hwt; cbn [whole_ty] in Hwt; try discriminate Hwt; cbn [decode_ty sem_ty].
    - apply uint_pfx.
    - apply sint_pfx.
    - apply int_pfx.
    - apply (bool_pfx fuel alloc).
    - apply (char_pfx fuel alloc).
    - apply (f32_pfx fuel alloc).
    - apply (f64_pfx fuel alloc).
    - apply nzu_pfx.
    - apply nzi_pfx.
    - apply (str_pfx fuel alloc).
    - apply (bytes_pfx fuel alloc).
    - apply (bytearr_pfx fuel alloc).
    - apply (cstr_pfx fuel alloc).
    - apply (unit_pfx fuel alloc).
    - apply opt_pfx. auto.
    - apply seq_pfx; [now apply sem_ty_agrees|auto].
    - apply arr_pfx; [now apply sem_ty_agrees|auto].
    - apply andb_prop in Hwt as [H1 H2]. apply map_pfx; auto using sem_ty_agrees.
    - pose proof (tuple_pfx fuel _ _ (both_forall2 ts H Hwt)) as G. rewrite !len_map in G. exact G.
    - intros e l p L v Hw H64 Hv Hl HL Hfu. apply ts_map_val in Hv as (a & Ha & ->). apply fmap_eoi.
      now apply (dec_fields_pfx c fuel Halloc _ _ (both_forall2 ts H Hwt) e l p L a).
    - pose proof (enum_pfx _ _ (both_forall2 ts H Hwt)) as G. unfold enum_spec in G. rewrite len_map in G. exact G.
    - apply bound_pfx. split; [now apply sem_ty_agrees|auto].
    - apply tagged_pfx. auto.
    - apply duration_pfx.
    - apply systemtime_pfx.
  Qed.
End PfxAgree.

(* ---- the statements pinned in Props/C04.v ---- *)
Theorem types_prefix_whole c t e v n l p L fuel :
  c_alloc c = true -> whole_ty t = true -> wf e = true -> len (ser e) < 18446744073709551616 ->
  spec_ty_lenient_at (c_alloc c) t e = TXOk v n -> sprefix l (ser e) -> p + len l <= L -> (length l < fuel)%nat ->
  exists q, decode_ty c t fuel (mkdst p l L) = (Err EndOfInput, q).
Proof.
  intros Ha Ht Hw H64 Hs Hl HL Hfu. unfold spec_ty_lenient_at in Hs.
  destruct (sem_ty (c_alloc c) t e) as [v'| |] eqn:E; try discriminate.
  exact (sem_ty_prefix c fuel Ha t Ht e l p L v' Hw H64 E Hl HL Hfu).
Qed.

Theorem types_prefix c t e v n k fuel :
  c_alloc c = true -> tag_top t = true -> wf e = true -> len (ser e) < 18446744073709551616 ->
  spec_ty_lenient_at (c_alloc c) t e = TXOk v n -> N.of_nat k < n -> (k < fuel)%nat ->
  exists q, decode_ty c t fuel (start (firstn k (ser e))) = (Err EndOfInput, q).
Proof.
  intros Ha Ht Hw H64 Hs Hk Hfu. unfold start.
  assert (Hlen: (length (firstn k (ser e)) <= k)%nat) by apply firstn_le_length.
  destruct (whole_ty t) eqn:Hwt.
  - assert (n = len (ser e)) as ->.
    { unfold spec_ty_lenient_at in Hs. destruct (sem_ty (c_alloc c) t e); try discriminate. injection Hs as _ <-. now apply consumed_whole. }
    apply (types_prefix_whole c t e v (len (ser e))); try assumption; try lia.
    apply sprefix_firstn. unfold len in Hk. lia.
  - destruct t; cbn [tag_top whole_ty] in Ht, Hwt; try congruence.
    unfold spec_ty_lenient_at in Hs. cbn [sem_ty] in Hs. destruct e; try discriminate Hs. cbn [consumed_ty] in Hs.
    injection Hs as _ <-. cbn [wf ser decode_ty] in *. apply andb_prop in Hw as [Hf _].
    apply fmap_eoi. apply dec_tag_short with w t; [assumption|].
    apply sprefix_firstn_app. now rewrite <- (head_len_eq 6 w t).
Qed.

Corollary types_prefix_auto c t e v n k :
  c_alloc c = true -> tag_top t = true -> wf e = true -> len (ser e) < 18446744073709551616 ->
  spec_ty_lenient_at (c_alloc c) t e = TXOk v n -> N.of_nat k < n ->
  exists q, run (decode_auto c t) (firstn k (ser e)) = (Err EndOfInput, q).
Proof.
  intros Ha Ht Hw H64 Hs Hk. unfold run, decode_auto, fuel_of, start. cbn [drest].
  pose proof (firstn_le_length k (ser e)) as Hlen.
  destruct (Nat.le_gt_cases k (length (ser e))) as [Hle|Hgt].
  - rewrite firstn_length_le by assumption.
    apply (types_prefix c t e v n k (S k)); try assumption. lia.
  - (* k beyond the item: only possible when n > len (ser e), which consumed_ty excludes *)
    exfalso. unfold spec_ty_lenient_at in Hs. destruct (sem_ty (c_alloc c) t e); try discriminate. injection Hs as _ <-.
    assert (consumed_ty t e <= len (ser e)).
    { destruct t; cbn [consumed_ty]; try lia. destruct e; try lia. cbn [ser]. rewrite len_app, <- (head_len_eq 6 w t). lia. }
    unfold len in *. lia.
Qed.

(* for the specification proper: an item it assigns a value to is outside the lenient class *)
Theorem types_strict_prefix c t e v n k fuel :
  c_alloc c = true -> tag_top t = true -> wf e = true -> len (ser e) < 18446744073709551616 ->
  spec_ty_at (c_alloc c) t e = TXOk v n -> N.of_nat k < n -> (k < fuel)%nat ->
  exists q, decode_ty c t fuel (start (firstn k (ser e))) = (Err EndOfInput, q).
Proof.
  intros Ha Ht Hw H64 Hs. unfold spec_ty_at in Hs. destruct (lenient_hit t e); [discriminate|].
  now apply types_prefix with v.
Qed.

Corollary types_strict_prefix_auto c t e v n k :
  c_alloc c = true -> tag_top t = true -> wf e = true -> len (ser e) < 18446744073709551616 ->
  spec_ty_at (c_alloc c) t e = TXOk v n -> N.of_nat k < n ->
  exists q, run (decode_auto c t) (firstn k (ser e)) = (Err EndOfInput, q).
Proof.
  intros Ha Ht Hw H64 Hs. unfold spec_ty_at in Hs. destruct (lenient_hit t e); [discriminate|].
  now apply types_prefix_auto with v.
Qed.
