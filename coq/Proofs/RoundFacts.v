(* Proofs/RoundFacts.v — bit tests and masks of half's software conversion as integer arithmetic (used by C12_round). *)
From MC Require Import Bytes Half.
From Coq Require Import Lia.
Local Open Scope N_scope.

(* ---- the rounding test (ported from notes/round_up_probe.v) ---- *)
Lemma land_pow2_testbit a k : N.land a (2^k) = if N.testbit a k then 2^k else 0.
Proof.
  apply N.bits_inj. intro i. rewrite N.land_spec.
  destruct (N.testbit a k) eqn:E.
  - rewrite N.pow2_bits_eqb. destruct (N.eqb_spec k i); subst; [rewrite E|rewrite andb_false_r]; reflexivity.
  - rewrite N.pow2_bits_eqb, N.bits_0. destruct (N.eqb_spec k i); subst; [rewrite E|rewrite andb_false_r]; reflexivity.
Qed.

Lemma pow2_succ k : 2^(k+1) = 2 * 2^k.
Proof. rewrite N.add_1_r, N.pow_succ_r'; reflexivity. Qed.

Lemma mask3 k : 3 * 2^k - 1 = N.lor (2^(k+1)) (N.ones k).
Proof.
  assert (P: 0 < 2^k) by (apply N.neq_0_lt_0, N.pow_nonzero; lia).
  assert (D: N.land (2^(k+1)) (N.ones k) = 0).
  { rewrite N.land_ones, pow2_succ. apply N.mod_mul. lia. }
  rewrite <- N.lxor_lor by exact D.
  rewrite <- N.add_nocarry_lxor by exact D.
  rewrite N.ones_equiv, pow2_succ. lia.
Qed.

(* round-to-nearest-even on m / 2^(k+1): round up iff the remainder exceeds half, or equals half and the
   quotient is odd *)
Definition round_up_arith (m k : N) : bool :=
  let q := m / 2^(k+1) in let r := m mod 2^(k+1) in
  (2^k <? r) || ((r =? 2^k) && N.odd q).

Lemma round_up_spec m k : round_up_bits m (2^k) = round_up_arith m k.
Proof.
  unfold round_up_bits, round_up_arith.
  rewrite mask3, N.land_lor_distr_r, !land_pow2_testbit, N.land_ones.
  rewrite !N.testbit_eqb.
  assert (P: 0 < 2^k) by (apply N.neq_0_lt_0, N.pow_nonzero; lia).
  rewrite pow2_succ. set (p := 2^k) in *. clearbody p.
  assert (Hm: m = 2 * p * (m / (2 * p)) + m mod (2 * p)) by (apply N.div_mod; lia).
  assert (Hr: m mod (2 * p) < 2 * p) by (apply N.mod_lt; lia).
  set (q := m / (2 * p)) in *. set (r := m mod (2 * p)) in *. clearbody q r.
  assert (Hdiv: m / p = 2 * q + r / p).
  { rewrite Hm at 1. replace (2 * p * q + r) with (r + (2 * q) * p) by lia.
    rewrite N.div_add by lia. lia. }
  assert (Hmod: m mod p = r mod p).
  { rewrite Hm at 1. replace (2 * p * q + r) with (r + (2 * q) * p) by lia.
    apply N.mod_add. lia. }
  rewrite Hdiv, Hmod.
  assert (Hrp: r = p * (r / p) + r mod p) by (apply N.div_mod; lia).
  assert (Hrm: r mod p < p) by (apply N.mod_lt; lia).
  assert (Hrd: r / p < 2) by (apply N.div_lt_upper_bound; lia).
  assert (E1: (2 * q + r / p) mod 2 = r / p).
  { replace (2 * q + r / p) with (r / p + q * 2) by lia. rewrite N.mod_add by lia. apply N.mod_small; lia. }
  rewrite E1.
  rewrite <- N.bit0_odd, (N.testbit_eqb q 0), N.pow_0_r, N.div_1_r.
  set (d := r / p) in *. set (lo := r mod p) in *. clearbody d lo.
  assert (Hd: d = 0 \/ d = 1) by lia.
  destruct Hd as [Hd|Hd]; subst d;
  change (0 =? 1) with false in *; change (1 =? 1) with true in *; cbv iota;
  destruct (N.eqb_spec (q mod 2) 0) as [B0|B0];
  cbn [negb andb orb];
  repeat match goal with |- context [if ?c then _ else _] => destruct c end;
  repeat match goal with |- context [?a =? ?b] => destruct (N.eqb_spec a b) end;
  repeat match goal with |- context [?a <? ?b] => destruct (N.ltb_spec a b) end;
  cbn [negb andb orb]; try reflexivity; exfalso;
  repeat match goal with
  | H: N.lor _ _ = 0 |- _ => apply N.lor_eq_0_iff in H; destruct H
  | H: N.lor _ _ <> 0 |- _ => rewrite N.lor_eq_0_iff in H
  end; try nia; try lia.
Qed.

(* ---- masks and disjoint ors as arithmetic ---- *)
Lemma land_mask x k n : N.land x (N.ones n * 2 ^ k) = ((x / 2 ^ k) mod 2 ^ n) * 2 ^ k.
Proof.
  rewrite <- !N.shiftl_mul_pow2, <- N.shiftr_div_pow2, <- N.land_ones.
  apply N.bits_inj. intro i. rewrite N.land_spec.
  destruct (N.lt_ge_cases i k) as [L|G].
  - rewrite !N.shiftl_spec_low by exact L. apply andb_false_r.
  - rewrite !N.shiftl_spec_high' by exact G. rewrite N.land_spec, N.shiftr_spec'.
    replace (i - k + k) with i by lia. reflexivity.
Qed.

Lemma lor_disjoint a b k : a mod 2 ^ k = 0 -> b < 2 ^ k -> N.lor a b = a + b.
Proof.
  intros Ha Hb.
  assert (D: N.land a b = 0).
  { apply N.bits_inj. intro i. rewrite N.land_spec, N.bits_0.
    destruct (N.lt_ge_cases i k) as [L|G].
    - assert (T: N.testbit a i = false).
      { rewrite <- (N.mod_pow2_bits_low a k i L), Ha. apply N.bits_0. }
      rewrite T. reflexivity.
    - assert (T: N.testbit b i = false).
      { rewrite <- (N.mod_small b (2 ^ k) Hb). apply N.mod_pow2_bits_high. exact G. }
      rewrite T. apply andb_false_r. }
  rewrite <- N.lxor_lor by exact D. symmetry. apply N.add_nocarry_lxor. exact D.
Qed.

(* or-ing in a bit that may already be set *)
Lemma lor_pow2_low k q : q < 2 ^ (k + 1) -> N.lor (2 ^ k) q = 2 ^ k + q mod 2 ^ k.
Proof.
  intro Hq.
  assert (P: 0 < 2 ^ k) by (apply N.neq_0_lt_0, N.pow_nonzero; lia).
  rewrite pow2_succ in Hq.
  assert (Hd: q = 2 ^ k * (q / 2 ^ k) + q mod 2 ^ k) by (apply N.div_mod; lia).
  assert (Hr: q mod 2 ^ k < 2 ^ k) by (apply N.mod_lt; lia).
  assert (Hq2: q / 2 ^ k < 2) by (apply N.div_lt_upper_bound; lia).
  set (r := q mod 2 ^ k) in *. set (d := q / 2 ^ k) in *. clearbody r d.
  assert (M: (2 ^ k) mod 2 ^ k = 0) by (apply N.mod_same; lia).
  assert (d = 0 \/ d = 1) as [->| ->] by lia.
  - rewrite Hd. replace (2 ^ k * 0 + r) with r by lia. apply lor_disjoint with k; assumption.
  - rewrite Hd. replace (2 ^ k * 1 + r) with (2 ^ k + r) by lia.
    rewrite <- (lor_disjoint (2 ^ k) r k M Hr).
    rewrite N.lor_assoc, N.lor_diag. reflexivity.
Qed.
