(* Proofs/AsyncIoOpsFacts.v — C16 with the two other public operations of AsyncWriter interleaved by the caller:
   flush (async_writer.rs:123) and set_max_len (async_writer.rs:42).  Model: Model/AsyncIo.v (aw_flush_poll,
   aw_flush_call, aw_set_max_len, aw_op, aw_ops, aw_session_ops, aw_write_call_ops, aw_run_ops). *)
From Coq Require Import List NArith Bool Lia.
From MC Require Import Bytes BytesFacts FrameIo FrameIoFacts AsyncIo AsyncIoFacts.
Import ListNotations.
Local Open Scope N_scope.

(* ------------------------------------------------------------------------------------------ *)
(* (a) flush *)

(* one poll of a flush future: the writer is returned as it is, the poll_write part of the sink too *)
Lemma flush_poll_neutral w s p w' s' :
  aw_flush_poll w s = (p, w', s') -> w' = w /\ os_w s' = os_w s.
Proof.
  unfold aw_flush_poll, osink_poll_flush.
  destruct (kf_sched (os_f s)) as [|[| |] r]; intro E; injection E as <- <- <-; split; reflexivity.
Qed.

(* one call of flush under any caller script (polled to completion, failed, or dropped while pending), any fuel *)
Lemma flush_call_neutral : forall fuel cs w s r w' s',
  aw_flush_call fuel cs w s = (r, w', s') -> w' = w /\ os_w s' = os_w s.
Proof.
  induction fuel as [|f IH]; intros cs w s r w' s' E; cbn [aw_flush_call] in E.
  - injection E as <- <- <-. split; reflexivity.
  - destruct (aw_flush_poll w s) as [[p w1] s1] eqn:Ep. apply flush_poll_neutral in Ep. destruct Ep as [-> Es].
    destruct p as [r1|].
    + injection E as <- <- <-. split; [reflexivity|exact Es].
    + destruct cs as [|[|] c].
      * apply IH in E. destruct E as [-> E2]. split; [reflexivity|congruence].
      * apply IH in E. destruct E as [-> E2]. split; [reflexivity|congruence].
      * injection E as <- <- <-. split; [reflexivity|exact Es].
Qed.

(* the fuel aw_op gives a flush call is enough: the poll_flush script is finite and followed by Ready *)
Lemma flush_call_fuel : forall fuel cs w s r w' s',
  (length (kf_sched (os_f s)) < fuel)%nat -> aw_flush_call fuel cs w s = (r, w', s') -> r <> FlFuel.
Proof.
  induction fuel as [|f IH]; intros cs w s r w' s' Hf E; [lia|].
  cbn [aw_flush_call] in E. unfold aw_flush_poll, osink_poll_flush in E.
  destruct (kf_sched (os_f s)) as [|t rest] eqn:Es.
  - injection E as <- <- <-. discriminate.
  - assert (Hlt : (length (kf_sched (os_f (mkosink (os_w s) (mkfsink rest (kf_calls (os_f s) + 1))))) < f)%nat)
      by (cbn [os_f kf_sched]; cbn [length] in Hf; lia).
    destruct t.
    + injection E as <- <- <-. discriminate.
    + destruct cs as [|[|] c]; try (eapply IH; [exact Hlt|exact E]).
      injection E as <- <- <-. discriminate.
    + injection E as <- <- <-. discriminate.
Qed.

(* C16_flush_neutral *)
Theorem flush_neutral cs w s :
  exists r f', aw_op (OpFlush cs) w s = (OEvF r, w, mkosink (os_w s) f') /\ r <> FlFuel.
Proof.
  cbn [aw_op].
  destruct (aw_flush_call (length (kf_sched (os_f s)) + 1) cs w s) as [[r w'] s'] eqn:E.
  assert (Hr : r <> FlFuel) by (eapply flush_call_fuel; [|exact E]; lia).
  apply flush_call_neutral in E. destruct E as [-> Es].
  exists r, (os_f s'). split; [|exact Hr]. destruct s' as [k' f']. cbn [os_w os_f] in *. now subst k'.
Qed.

(* ------------------------------------------------------------------------------------------ *)
(* (b) set_max_len: nothing but aw_max changes, and what sync does does not depend on aw_max *)

Lemma sync_loop_set_max : forall fuel w k v,
  sync_loop fuel (aw_set_max_len w v) k =
  let '(r, w', k') := sync_loop fuel w k in (r, aw_set_max_len w' v, k').
Proof.
  induction fuel as [|f IH]; intros [b m st] k v; [reflexivity|].
  unfold aw_set_max_len. cbn [sync_loop aw_state aw_buf aw_max].
  destruct st as [|o]; [reflexivity|].
  destruct (len b <=? o); [reflexivity|].
  unfold write_arm. cbn [aw_buf].
  destruct (asink_poll k (skipn (N.to_nat o) b)) as [[n| |] k1]; try reflexivity.
  destruct (n =? 0); [reflexivity|]. destruct (two64 <=? o + n); [reflexivity|].
  cbn [set_wstate aw_buf aw_max].
  exact (IH (mkawriter b m (WriteFrom (o + n))) k1 v).
Qed.

Lemma sync_poll_set_max fuel fu w k v :
  sync_poll fuel fu (aw_set_max_len w v) k =
  let '(r, w', k') := sync_poll fuel fu w k in (r, aw_set_max_len w' v, k').
Proof.
  destruct fu; cbn [sync_poll].
  - apply sync_loop_set_max.
  - destruct w as [b m st]. unfold aw_set_max_len. cbn [aw_state aw_buf aw_max].
    destruct st as [|o]; [reflexivity|].
    destruct (len b <=? o); [reflexivity|].
    unfold write_arm. cbn [aw_buf].
    destruct (asink_poll k (skipn (N.to_nat o) b)) as [[n| |] k1]; try reflexivity.
    destruct (n =? 0); [reflexivity|]. destruct (two64 <=? o + n); [reflexivity|].
    cbn [set_wstate aw_buf aw_max].
    exact (sync_loop_set_max fuel (mkawriter b m (WriteFrom (o + n))) k1 v).
Qed.

(* C16_set_max_len_neutral *)
Theorem set_max_len_neutral v w s :
  exists w', aw_op (OpSetMax v) w s = (OEvM v, w', s) /\
    aw_buf w' = aw_buf w /\ aw_state w' = aw_state w /\ aw_max w' = v /\
    forall fuel fu k, sync_poll fuel fu w' k = let '(r, w1, k1) := sync_poll fuel fu w k in (r, aw_set_max_len w1 v, k1).
Proof.
  exists (aw_set_max_len w v). cbn [aw_op]. repeat split. intros. apply sync_poll_set_max.
Qed.

(* ------------------------------------------------------------------------------------------ *)
(* a whole gap *)

Fixpoint wevs_of (l : list oev) : list wev :=
  match l with [] => [] | OEvW e :: t => e :: wevs_of t | _ :: t => wevs_of t end.

(* the max_len in force after the events l, when it was m before: the argument of the last set_max_len *)
Fixpoint last_max (m : N) (l : list oev) : N :=
  match l with [] => m | OEvM v :: t => last_max v t | _ :: t => last_max m t end.

Definition op_u32 (op : cop) : Prop := match op with OpSetMax v => v < 4294967296 | OpFlush _ => True end.
Definition gaps_u32 (gaps : list (list cop)) : Prop := Forall (Forall op_u32) gaps.

Lemma wevs_of_app a b : wevs_of (a ++ b) = wevs_of a ++ wevs_of b.
Proof. induction a as [|[e|r|v] a IH]; cbn [wevs_of app]; [reflexivity| |exact IH|exact IH]. now rewrite IH. Qed.

Lemma last_max_app m a b : last_max m (a ++ b) = last_max (last_max m a) b.
Proof. revert m. induction a as [|[e|r|v] a IH]; intro m; cbn [last_max app]; auto. Qed.

Lemma aw_ops_spec : forall ops w s,
  exists evs w' f', aw_ops ops w s = (evs, w', mkosink (os_w s) f') /\
    aw_buf w' = aw_buf w /\ aw_state w' = aw_state w /\ aw_max w' = last_max (aw_max w) evs /\
    wevs_of evs = [] /\
    (Forall op_u32 ops -> aw_max w < 4294967296 -> aw_max w' < 4294967296).
Proof.
  induction ops as [|op t IH]; intros w s.
  - exists [], w, (os_f s). destruct s as [k f]. cbn. repeat split; auto.
  - cbn [aw_ops]. destruct op as [cs|v].
    + destruct (flush_neutral cs w s) as [r [f1 [E _]]]. rewrite E.
      destruct (IH w (mkosink (os_w s) f1)) as [evs [w' [f' [E2 [A [B [C [D U]]]]]]]]. rewrite E2. cbn [os_w].
      exists (OEvF r :: evs), w', f'. cbn [last_max wevs_of]. repeat split; try assumption.
      intros Hu Hm. inversion Hu; subst. auto.
    + cbn [aw_op].
      destruct (IH (aw_set_max_len w v) s) as [evs [w' [f' [E2 [A [B [C [D U]]]]]]]]. rewrite E2.
      exists (OEvM v :: evs), w', f'. cbn [last_max wevs_of aw_set_max_len aw_buf aw_state aw_max] in *. repeat split; try assumption.
      intros Hu Hm. inversion Hu as [|? ? Hv Ht]; subst. apply U; [exact Ht|exact Hv].
Qed.

Lemma take_gap_u32 gaps g gaps1 : gaps_u32 gaps -> take_gap gaps = (g, gaps1) -> Forall op_u32 g /\ gaps_u32 gaps1.
Proof.
  unfold gaps_u32, take_gap. intros H E. destruct gaps as [|x t]; injection E as <- <-.
  - split; constructor.
  - inversion H; subst. split; assumption.
Qed.

(* ------------------------------------------------------------------------------------------ *)
(* (c) the session and the run with interleaved operations *)

Definition U32 : N := 4294967296.

Definition sres_ops := (list oev * list ctok * list (list cop) * awriter * osink)%type.

(* the step "the caller holds no future any more and (re-)issues sync": a gap, then the session goes on *)
Definition to_sync_ops (kont : list ctok -> list (list cop) -> awriter -> osink -> sres_ops)
    (gaps : list (list cop)) (pre : list oev) (c : list ctok) (w1 : awriter) (s1 : osink) : sres_ops :=
  let '(g, gaps1) := take_gap gaps in
  let '(gevs, w2, s2) := aw_ops g w1 s1 in
  let '(evs, c', g', w3, s3) := kont c gaps1 w2 s2 in
  (pre ++ gevs ++ evs, c', g', w3, s3).

Lemma aw_session_ops_S f calls gaps m e w s :
  aw_session_ops (S f) calls gaps m e w s =
  match m with
  | MWrite fu =>
      match aw_poll (asink_fuel (os_w s)) fu e w (os_w s) with
      | (WReady (WErr er), w1, k1) =>
          to_sync_ops (fun c g w s => aw_session_ops f c g (MSync SStart) e w s) gaps [OEvW (EvW (WErr er))] calls w1 (with_sink s k1)
      | (WReady r, w1, k1) => ([OEvW (EvW r)], calls, gaps, w1, with_sink s k1)
      | (WPend, w1, k1) =>
          match calls with
          | CDrop :: c => to_sync_ops (fun c g w s => aw_session_ops f c g (MSync SStart) e w s) gaps [] c w1 (with_sink s k1)
          | CPoll :: c => aw_session_ops f c gaps (MWrite WfInSync) e w1 (with_sink s k1)
          | [] => aw_session_ops f [] gaps (MWrite WfInSync) e w1 (with_sink s k1)
          end
      end
  | MSync fu =>
      match sync_poll (asink_fuel (os_w s)) fu w (os_w s) with
      | (SyReady (SErr er), w1, k1) =>
          to_sync_ops (fun c g w s => aw_session_ops f c g (MSync SStart) e w s) gaps [OEvW (EvS (SErr er))] calls w1 (with_sink s k1)
      | (SyReady r, w1, k1) => ([OEvW (EvS r)], calls, gaps, w1, with_sink s k1)
      | (SyPend, w1, k1) =>
          match calls with
          | CDrop :: c => to_sync_ops (fun c g w s => aw_session_ops f c g (MSync SStart) e w s) gaps [] c w1 (with_sink s k1)
          | CPoll :: c => aw_session_ops f c gaps (MSync SAtWrite) e w1 (with_sink s k1)
          | [] => aw_session_ops f [] gaps (MSync SAtWrite) e w1 (with_sink s k1)
          end
      end
  end.
Proof. reflexivity. Qed.

Definition sess_post_ops (F base : bytes) (w : awriter) (s : osink) (evs : list oev) (w' : awriter) (s' : osink) : Prop :=
  aw_state w' = WNone /\ aw_buf w' = F /\ aw_max w' = last_max (aw_max w) evs /\
  concat (k_out (os_w s')) = base ++ F /\
  Forall (ev_ok F) (wevs_of evs) /\ (length (k_sched (os_w s')) <= length (k_sched (os_w s)))%nat /\
  (length (filter is_wz (wevs_of evs)) + nzero (k_sched (os_w s')) = nzero (k_sched (os_w s)))%nat.

(* session_inflight with operations in the gaps: the frame F is in the buffer, o < |F| bytes of it are in the
   sink; whatever the sink and the caller do - including flush calls (completed, failed, dropped) and
   set_max_len calls in every gap - the session ends idle with exactly F appended *)
Lemma session_ops_inflight : forall fuel calls gaps m e w s base F o,
  m <> MWrite WfStart -> gaps_u32 gaps ->
  aw_state w = WriteFrom o -> o < len F -> aw_buf w = F ->
  concat (k_out (os_w s)) = base ++ firstn (N.to_nat o) F ->
  4 <= len F -> len F < two64 -> (length (k_sched (os_w s)) < fuel)%nat ->
  exists evs c' g' w' s', aw_session_ops fuel calls gaps m e w s = (evs, c', g', w', s') /\
    sess_post_ops F base w s evs w' s' /\ gaps_u32 g' /\ (aw_max w < U32 -> aw_max w' < U32).
Proof.
  induction fuel as [|f IH]; intros calls gaps m e w s base F o Hm Hgu Hst Ho Hb Hout H4 Hu Hfu; [lia|].
  remember (os_w s) as k eqn:Ek.
  assert (Hsl : exists res w1 k1, sync_loop (S (asink_fuel k)) w k = (res, w1, k1) /\
            aw_buf w1 = aw_buf w /\ aw_max w1 = aw_max w /\ (length (k_sched k1) <= length (k_sched k))%nat /\
            match res with
            | SyReady SOk => aw_state w1 = WNone /\ concat (k_out k1) = base ++ aw_buf w /\ nzero (k_sched k1) = nzero (k_sched k)
            | SyReady (SErr er) =>
                exists o', aw_state w1 = WriteFrom o' /\ o <= o' /\ o' < len (aw_buf w) /\
                  concat (k_out k1) = base ++ firstn (N.to_nat o') (aw_buf w) /\
                  (length (k_sched k1) < length (k_sched k))%nat /\
                  ((er = IoInner /\ nzero (k_sched k1) = nzero (k_sched k)) \/
                   (er = IoWriteZero /\ S (nzero (k_sched k1)) = nzero (k_sched k)))
            | SyPend =>
                exists o', aw_state w1 = WriteFrom o' /\ o <= o' /\ o' < len (aw_buf w) /\
                  concat (k_out k1) = base ++ firstn (N.to_nat o') (aw_buf w) /\
                  (length (k_sched k1) < length (k_sched k))%nat /\ nzero (k_sched k1) = nzero (k_sched k)
            | SyReady SPanic | SyReady SFuel => False
            end).
  { apply sync_loop_spec; rewrite ?Hb; try assumption; try lia.
    unfold need_s, asink_fuel. destruct (o <? len (aw_buf w)); lia. }
  destruct Hsl as [res [w1 [k1 [Esl [Hb1 [Hm1 [Hl1 P]]]]]]]. rewrite Hb in *.
  assert (Esp : forall fu, fu = SStart \/ fu = SAtWrite -> sync_poll (asink_fuel k) fu w k = (res, w1, k1)).
  { intros fu [->| ->]; [exact Esl|]. rewrite (sync_resume_eq _ w k o) by (rewrite ?Hb; assumption). exact Esl. }
  (* going on in the same session with the sink k1 *)
  assert (Kcont : forall c m2 o', m2 <> MWrite WfStart ->
            aw_state w1 = WriteFrom o' -> o' < len F -> concat (k_out k1) = base ++ firstn (N.to_nat o') F ->
            (length (k_sched k1) < length (k_sched k))%nat ->
            exists evs c' g' w' s', aw_session_ops f c gaps m2 e w1 (with_sink s k1) = (evs, c', g', w', s') /\
              sess_post_ops F base w1 (with_sink s k1) evs w' s' /\ gaps_u32 g' /\ (aw_max w1 < U32 -> aw_max w' < U32)).
  { intros c m2 o' Hm2 Hs2 Ho2 Hout2 Hlt. apply (IH c gaps m2 e w1 (with_sink s k1) base F o'); try assumption.
    cbn [with_sink os_w]. lia. }
  (* the caller lost its future: a gap, then sync is issued again *)
  assert (Kts : forall pre c o',
            aw_state w1 = WriteFrom o' -> o' < len F -> concat (k_out k1) = base ++ firstn (N.to_nat o') F ->
            (length (k_sched k1) < length (k_sched k))%nat ->
            exists evs c' g' w' s',
              to_sync_ops (fun c g w s => aw_session_ops f c g (MSync SStart) e w s) gaps pre c w1 (with_sink s k1)
                = (pre ++ evs, c', g', w', s') /\
              sess_post_ops F base w1 (with_sink s k1) evs w' s' /\ gaps_u32 g' /\ (aw_max w1 < U32 -> aw_max w' < U32)).
  { intros pre c o' Hs2 Ho2 Hout2 Hlt. unfold to_sync_ops.
    destruct (take_gap gaps) as [g gaps1] eqn:Eg. destruct (take_gap_u32 _ _ _ Hgu Eg) as [Hg Hgu1].
    destruct (aw_ops_spec g w1 (with_sink s k1)) as [gevs [w2 [f2 [E2 [A [B [C [D U]]]]]]]]. rewrite E2.
    cbn [with_sink os_w] in *.
    destruct (IH c gaps1 (MSync SStart) e w2 (mkosink k1 f2) base F o')
      as [evs [c' [g' [w' [s' [E' [[S1 [S2 [S3 [S4 [S5 [S6 S7]]]]]] [Hg' Hu']]]]]]]]; cbn [os_w]; try assumption; try congruence; try lia.
    rewrite E'. exists (gevs ++ evs), c', g', w', s'. split; [reflexivity|]. cbn [os_w] in *.
    split; [|split; [exact Hg'|intro Hw1; apply Hu'; apply U; assumption]].
    unfold sess_post_ops; rewrite <- ?Ek. cbn [os_w]. rewrite wevs_of_app, D, last_max_app, <- C. cbn [app].
    repeat split; assumption. }
  destruct m as [[|]|fu]; [contradiction Hm; reflexivity| |].
  - (* polling the write future *)
    rewrite aw_session_ops_S. cbn [aw_poll]. rewrite <- ?Ek. rewrite (Esp SAtWrite) by auto. unfold finish_write.
    destruct res as [[|er| |]|]; try contradiction.
    + destruct P as [A [B C]]. rewrite Hb1. destruct (N.ltb_spec (len F) 4); [lia|].
      eexists _, _, _, _, _. split; [reflexivity|]. split; [|split; [exact Hgu|intro; lia]].
      unfold sess_post_ops; rewrite <- ?Ek. cbn [with_sink os_w wevs_of last_max filter is_wz length]. rewrite <- ?Ek.
      repeat split; try assumption; try lia. repeat constructor.
    + destruct P as [o' [A [B [C [D [G H]]]]]].
      destruct (Kts [OEvW (EvW (WErr er))] calls o') as [evs [c' [g' [w' [s' [E' [[S1 [S2 [S3 [S4 [S5 [S6 S7]]]]]] [Hg' Hu']]]]]]]]; try assumption.
      rewrite E'. eexists _, _, _, _, _. split; [reflexivity|]. split; [|split; [exact Hg'|intro; apply Hu'; lia]].
      cbn [with_sink os_w] in *. rewrite <- ?Ek.
      unfold sess_post_ops; rewrite <- ?Ek. cbn [app wevs_of last_max]. repeat split; try assumption; try lia; try congruence.
      * constructor; [cbn; destruct H as [[-> _]|[-> _]]; auto|exact S5].
      * cbn [filter is_wz]. destruct H as [[-> Hz]|[-> Hz]]; cbn [length]; lia.
    + destruct P as [o' [A [B [C [D [G H]]]]]].
      assert (K2 : forall c m2, m2 <> MWrite WfStart ->
                exists evs c' g' w' s', aw_session_ops f c gaps m2 e w1 (with_sink s k1) = (evs, c', g', w', s') /\
                  sess_post_ops F base w s evs w' s' /\ gaps_u32 g' /\ (aw_max w < U32 -> aw_max w' < U32)).
      { intros c m2 Hm2. destruct (Kcont c m2 o') as [evs [c' [g' [w' [s' [E' [[S1 [S2 [S3 [S4 [S5 [S6 S7]]]]]] [Hg' Hu']]]]]]]]; try assumption.
        exists evs, c', g', w', s'. split; [exact E'|]. split; [|split; [exact Hg'|intro; apply Hu'; lia]].
        cbn [with_sink os_w] in *. rewrite <- ?Ek. unfold sess_post_ops; rewrite <- ?Ek. repeat split; try assumption; try lia; congruence. }
      destruct calls as [|[|] c]; try (apply K2; discriminate).
      destruct (Kts [] c o') as [evs [c' [g' [w' [s' [E' [[S1 [S2 [S3 [S4 [S5 [S6 S7]]]]]] [Hg' Hu']]]]]]]]; try assumption.
      rewrite E'. eexists _, _, _, _, _. split; [reflexivity|]. split; [|split; [exact Hg'|intro; apply Hu'; lia]].
      cbn [with_sink os_w app] in *. rewrite <- ?Ek. unfold sess_post_ops; rewrite <- ?Ek. repeat split; try assumption; try lia; congruence.
  - (* polling a sync future *)
    rewrite aw_session_ops_S. rewrite <- ?Ek. rewrite (Esp fu) by (destruct fu; auto).
    destruct res as [[|er| |]|]; try contradiction.
    + destruct P as [A [B C]].
      eexists _, _, _, _, _. split; [reflexivity|]. split; [|split; [exact Hgu|intro; lia]].
      unfold sess_post_ops; rewrite <- ?Ek. cbn [with_sink os_w wevs_of last_max filter is_wz length]. rewrite <- ?Ek.
      repeat split; try assumption; try lia; try congruence. repeat constructor.
    + destruct P as [o' [A [B [C [D [G H]]]]]].
      destruct (Kts [OEvW (EvS (SErr er))] calls o') as [evs [c' [g' [w' [s' [E' [[S1 [S2 [S3 [S4 [S5 [S6 S7]]]]]] [Hg' Hu']]]]]]]]; try assumption.
      rewrite E'. eexists _, _, _, _, _. split; [reflexivity|]. split; [|split; [exact Hg'|intro; apply Hu'; lia]].
      cbn [with_sink os_w] in *. rewrite <- ?Ek.
      unfold sess_post_ops; rewrite <- ?Ek. cbn [app wevs_of last_max]. repeat split; try assumption; try lia; try congruence.
      * constructor; [cbn; destruct H as [[-> _]|[-> _]]; auto|exact S5].
      * cbn [filter is_wz]. destruct H as [[-> Hz]|[-> Hz]]; cbn [length]; lia.
    + destruct P as [o' [A [B [C [D [G H]]]]]].
      assert (K2 : forall c m2, m2 <> MWrite WfStart ->
                exists evs c' g' w' s', aw_session_ops f c gaps m2 e w1 (with_sink s k1) = (evs, c', g', w', s') /\
                  sess_post_ops F base w s evs w' s' /\ gaps_u32 g' /\ (aw_max w < U32 -> aw_max w' < U32)).
      { intros c m2 Hm2. destruct (Kcont c m2 o') as [evs [c' [g' [w' [s' [E' [[S1 [S2 [S3 [S4 [S5 [S6 S7]]]]]] [Hg' Hu']]]]]]]]; try assumption.
        exists evs, c', g', w', s'. split; [exact E'|]. split; [|split; [exact Hg'|intro; apply Hu'; lia]].
        cbn [with_sink os_w] in *. rewrite <- ?Ek. unfold sess_post_ops; rewrite <- ?Ek. repeat split; try assumption; try lia; congruence. }
      destruct calls as [|[|] c]; try (apply K2; discriminate).
      destruct (Kts [] c o') as [evs [c' [g' [w' [s' [E' [[S1 [S2 [S3 [S4 [S5 [S6 S7]]]]]] [Hg' Hu']]]]]]]]; try assumption.
      rewrite E'. eexists _, _, _, _, _. split; [reflexivity|]. split; [|split; [exact Hg'|intro; apply Hu'; lia]].
      cbn [with_sink os_w app] in *. rewrite <- ?Ek. unfold sess_post_ops; rewrite <- ?Ek. repeat split; try assumption; try lia; congruence.
Qed.

(* one value: the gap before the write (events pre), then the session (events evs).  The value is judged against
   the max_len in force when its write is issued: last_max (aw_max w) pre. *)
Definition call_post_ops (e : enc_res) (w : awriter) (s : osink) (pre evs : list oev) (w' : awriter) (s' : osink) : Prop :=
  let m := last_max (aw_max w) pre in
  aw_state w' = WNone /\ aw_max w' = last_max m evs /\ wevs_of pre = [] /\
  concat (k_out (os_w s')) = concat (k_out (os_w s)) ++ frame_part m e /\
  evs_ok m e (wevs_of evs) /\
  (frame_part m e = [] -> os_w s' = os_w s) /\
  (length (k_sched (os_w s')) <= length (k_sched (os_w s)))%nat /\
  (length (filter is_wz (wevs_of evs)) + nzero (k_sched (os_w s')) = nzero (k_sched (os_w s)))%nat.

Lemma aw_write_call_ops_spec calls gaps e w s :
  aw_state w = WNone -> gaps_u32 gaps -> aw_max w < U32 ->
  exists pre evs c' g' w' s', aw_write_call_ops calls gaps e w s = ((pre, evs), c', g', w', s') /\
    call_post_ops e w s pre evs w' s' /\ gaps_u32 g' /\ aw_max w' < U32.
Proof.
  intros Hst Hgu Hmax. unfold aw_write_call_ops.
  destruct (take_gap gaps) as [g gaps1] eqn:Eg. destruct (take_gap_u32 _ _ _ Hgu Eg) as [Hg Hgu1].
  destruct (aw_ops_spec g w s) as [pre [w1 [f1 [E1 [A1 [B1 [C1 [D1 U1]]]]]]]]. rewrite E1.
  specialize (U1 Hg Hmax). rewrite Hst in B1.
  remember (os_w s) as k eqn:Ek. cbn [os_w].
  destruct (frame_part (aw_max w1) e) as [|x F'] eqn:Efp.
  - (* refused *)
    destruct (aw_poll_reject (asink_fuel k) e w1 k Efp) as [er [b [Ep Eer]]].
    replace (2 * length (k_sched k) + 4)%nat with (S (S (2 * length (k_sched k) + 2))) by lia.
    rewrite aw_session_ops_S. cbn [os_w]. rewrite Ep. rewrite B1.
    assert (Hts : exists gevs w2 f2 g2,
              to_sync_ops (fun c g w s => aw_session_ops (S (2 * length (k_sched k) + 2)) c g (MSync SStart) e w s)
                gaps1 [OEvW (EvW (WErr er))] calls (mkawriter b (aw_max w1) WNone) (with_sink (mkosink k f1) k)
              = ([OEvW (EvW (WErr er))] ++ gevs ++ [OEvW (EvS SOk)], calls, g2, w2, mkosink k f2) /\
              aw_state w2 = WNone /\ aw_max w2 = last_max (aw_max w1) gevs /\ wevs_of gevs = [] /\ gaps_u32 g2 /\ aw_max w2 < U32).
    { unfold to_sync_ops.
      destruct (take_gap gaps1) as [g' gaps2] eqn:Eg'. destruct (take_gap_u32 _ _ _ Hgu1 Eg') as [Hg' Hgu2].
      destruct (aw_ops_spec g' (mkawriter b (aw_max w1) WNone) (with_sink (mkosink k f1) k)) as [gevs [w2 [f2 [E2 [A2 [B2 [C2 [D2 U2]]]]]]]].
      rewrite E2. cbn [with_sink os_w os_f aw_max aw_state] in *.
      rewrite aw_session_ops_S. cbn [os_w]. rewrite sync_idle by exact B2. cbn [with_sink os_f].
      exists gevs, w2, f2, gaps2. split; [reflexivity|]. repeat split; try assumption. apply U2; assumption. }
    destruct Hts as [gevs [w2 [f2 [g2 [Ets [T1 [T2 [T3 [T4 T5]]]]]]]]].
    rewrite Ets. eexists _, _, _, _, _, _. split; [reflexivity|]. split; [|split; assumption].
    unfold call_post_ops; cbv zeta; rewrite <- ?C1, <- ?Ek, ?Efp.
    cbn [os_w]. rewrite app_nil_r, !wevs_of_app, T3, !last_max_app. cbn [wevs_of last_max app].
    assert (Hnwz : is_wz (EvW (WErr er)) = false) by (subst er; destruct e; reflexivity).
    cbn [filter]. rewrite Hnwz. cbn [filter is_wz length].
    repeat split; try assumption; try lia; try (intros _; reflexivity).
    unfold evs_ok. subst er. destruct e as [p|part]; [|reflexivity].
    cbn [frame_part] in Efp. destruct (len p <=? aw_max w1); [|reflexivity].
    exfalso. unfold frame_of in Efp. apply (f_equal (@length N)) in Efp. rewrite app_length, be_length in Efp. cbn in Efp. lia.
  - (* accepted: the frame is built in the buffer, the state is armed, then sync *)
    destruct e as [p|part]; [|discriminate]. cbn [frame_part] in *.
    destruct (N.leb_spec (len p) (aw_max w1)) as [Hle|]; [|discriminate].
    assert (Hp : len p < 4294967296) by (unfold U32 in U1; lia).
    set (w1' := mkawriter (frame_of p) (aw_max w1) (WriteFrom 0)).
    assert (E2 : forall f, aw_session_ops (S f) calls gaps1 (MWrite WfStart) (EncOk p) w1 (mkosink k f1)
                      = aw_session_ops (S f) calls gaps1 (MWrite WfInSync) (EncOk p) w1' (mkosink k f1)).
    { intro f. rewrite !aw_session_ops_S. rewrite aw_poll_start_accept by assumption. reflexivity. }
    cbn [os_w].
    replace (2 * length (k_sched k) + 4)%nat with (S (2 * length (k_sched k) + 3)) by lia. rewrite E2.
    destruct (session_ops_inflight (S (2 * length (k_sched k) + 3)) calls gaps1 (MWrite WfInSync) (EncOk p) w1' (mkosink k f1)
                (concat (k_out k)) (frame_of p) 0) as [evs [c' [g' [w' [s' [E [[S1 [S2 [S3 [S4 [S5 [S6 S7]]]]]] [Hg' Hu']]]]]]]].
    + discriminate.
    + exact Hgu1.
    + reflexivity.
    + rewrite len_frame_of. lia.
    + reflexivity.
    + cbn [N.to_nat firstn os_w]. now rewrite app_nil_r.
    + rewrite len_frame_of. lia.
    + rewrite len_frame_of. unfold two64. lia.
    + cbn [os_w]. lia.
    + rewrite E. eexists _, _, _, _, _, _. split; [reflexivity|]. cbn [aw_max w1' os_w] in *.
      split; [|split; [exact Hg'|apply Hu'; exact U1]].
      unfold call_post_ops; cbv zeta; rewrite <- ?C1, <- ?Ek. cbn [frame_part].
      unfold evs_ok. destruct (N.leb_spec (len p) (aw_max w1)) as [_|]; [|lia].
      repeat split; try assumption.
      intro Hnil. rewrite Efp in Hnil. discriminate.
Qed.

(* What the property says about a whole run, read off the observed events.  m is the max_len in force before the
   first gap; the max_len in force when a value's write is issued is the argument of the last set_max_len event
   before it (last_max).  frames_ops: the frames of the values accepted under that rule. *)
Fixpoint frames_ops (m : N) (es : list enc_res) (evss : list (list oev * list oev)) : bytes :=
  match es, evss with
  | e :: es', (pre, evs) :: t => frame_part (last_max m pre) e ++ frames_ops (last_max (last_max m pre) evs) es' t
  | _, _ => []
  end.

(* per value: the gap before the write contains no write / sync event; the write and sync events of the session
   are those of C16_frames (evs_ok: a completed write returns its payload length; a refused value yields its
   error, then an immediate sync Ok), judged against the max_len in force when the write was issued *)
Fixpoint evss_ok (m : N) (es : list enc_res) (evss : list (list oev * list oev)) : Prop :=
  match es, evss with
  | [], [] => True
  | e :: es', (pre, evs) :: t =>
      wevs_of pre = [] /\ evs_ok (last_max m pre) e (wevs_of evs) /\ evss_ok (last_max (last_max m pre) evs) es' t
  | _, _ => False
  end.

Definition all_wevs (evss : list (list oev * list oev)) : list wev := concat (map (fun pe => wevs_of (snd pe)) evss).

Lemma aw_run_ops_spec : forall es calls gaps w s,
  aw_state w = WNone -> gaps_u32 gaps -> aw_max w < U32 ->
  exists evss fin w' s',
    aw_run_ops calls gaps es w s = (evss, fin, SyReady SOk, w', s') /\
    aw_state w' = WNone /\ wevs_of fin = [] /\
    concat (k_out (os_w s')) = concat (k_out (os_w s)) ++ frames_ops (aw_max w) es evss /\
    evss_ok (aw_max w) es evss /\
    (length (filter is_wz (all_wevs evss)) + nzero (k_sched (os_w s')) = nzero (k_sched (os_w s)))%nat.
Proof.
  induction es as [|e es IH]; intros calls gaps w s Hst Hgu Hmax.
  - cbn [aw_run_ops]. destruct (take_gap gaps) as [g gaps1].
    destruct (aw_ops_spec g w s) as [gevs [w1 [f1 [E1 [A1 [B1 [C1 [D1 _]]]]]]]]. rewrite E1. cbn [os_w].
    rewrite sync_idle by congruence.
    eexists _, _, _, _. split; [reflexivity|]. cbn [with_sink os_w frames_ops evss_ok all_wevs map concat filter length].
    rewrite app_nil_r. repeat split; try congruence; try lia.
  - cbn [aw_run_ops].
    destruct (aw_write_call_ops_spec calls gaps e w s Hst Hgu Hmax)
      as [pre [evs [c1 [g1 [w1 [s1 [E1 [[S1 [S2 [S3 [S4 [S5 [_ [S6 S7]]]]]]] [Hg1 Hu1]]]]]]]]].
    rewrite E1.
    destruct (IH c1 g1 w1 s1 S1 Hg1 Hu1) as [evss [fin [w' [s' [E2 [T1 [T2 [T3 [T4 T5]]]]]]]]].
    rewrite E2. eexists _, _, _, _. split; [reflexivity|].
    split; [exact T1|]. split; [exact T2|]. cbn [frames_ops evss_ok]. rewrite <- S2. split; [|split].
    + rewrite T3, S4. now rewrite app_assoc.
    + auto.
    + unfold all_wevs in *. cbn [map concat snd]. rewrite filter_app, app_length. lia.
Qed.

(* C16_frames_ops *)
Theorem aio_write_frames_ops max es sched fsched calls gaps b0 c0 fc0 :
  max < 4294967296 -> gaps_u32 gaps ->
  exists evss fin w' s',
    aw_run_ops calls gaps es (mkawriter b0 max WNone) (mkosink (mkasink [] sched c0) (mkfsink fsched fc0))
      = (evss, fin, SyReady SOk, w', s') /\
    aw_state w' = WNone /\ wevs_of fin = [] /\
    concat (k_out (os_w s')) = frames_ops max es evss /\
    evss_ok max es evss /\
    (length (filter is_wz (all_wevs evss)) + nzero (k_sched (os_w s')) = nzero sched)%nat.
Proof.
  intros Hm Hg.
  destruct (aw_run_ops_spec es calls gaps (mkawriter b0 max WNone) (mkosink (mkasink [] sched c0) (mkfsink fsched fc0)) eq_refl Hg Hm)
    as [evss [fin [w' [s' [E [A [B [C [D F]]]]]]]]].
  exists evss, fin, w', s'. cbn [aw_max os_w k_out k_sched concat app] in *. repeat split; assumption.
Qed.

(* without operations the run is the run of C16_frames: frames_ops / evss_ok fall back to frame_part / evs_ok *)
Lemma frames_ops_plain : forall es evss m,
  Forall (fun pe => last_max m (fst pe) = m /\ last_max m (snd pe) = m) evss ->
  frames_ops m es evss = concat (map (frame_part m) (firstn (length evss) es)).
Proof.
  induction es as [|e es IH]; intros [|[pre evs] t] m H; cbn [frames_ops length firstn map concat]; try reflexivity.
  inversion H as [|? ? [H1 H2] Ht]; subst. cbn [fst snd] in *. rewrite H1, H2, (IH t m Ht). reflexivity.
Qed.

(* The two seeded scenarios, in the model: value [65;1] (frame of 6 bytes) is written, its future dropped after 2
   bytes; then (1) set_max_len 0 and a flush, (2) a flush that is polled once and dropped; then sync, then the next
   value.  The sink holds the whole first frame followed by what the limit in force admits. *)
Example aio_write_ops_ex :
  let es := [EncOk [65; 1]; EncOk [66; 1; 2]; EncOk [7]] in
  let sched := [KAccept 2; KPend; KAccept 1; KPend] in
  let gaps := [[]; [OpSetMax 0; OpFlush []]; [OpFlush [CDrop]; OpSetMax 3]; []; [OpSetMax 0]] in
  gaps_u32 gaps /\
  (let '(evss, fin, sp, w, s) := aio_write_run_ops 16 es sched [KfPend; KfErr; KfPend] [CDrop; CDrop] gaps in
   concat (k_out (os_w s)) = frame_of [65; 1] ++ frame_of [66; 1; 2] /\ aw_state w = WNone /\ sp = SyReady SOk /\
   evss = [([], [OEvM 0; OEvF (FlErr IoInner); OEvF FlDropped; OEvM 3; OEvW (EvS SOk)]);
           ([], [OEvW (EvW (WOk 3))]);
           ([OEvM 0], [OEvW (EvW (WErr IoInvalidLen)); OEvW (EvS SOk)])] /\
   concat (k_out (os_w s)) = frames_ops 16 es evss).
Proof.
  cbn zeta. split.
  - repeat constructor; vm_compute; reflexivity.
  - vm_compute. repeat split; reflexivity.
Qed.
