(* Proofs/TypesTyping.v — the typing predicate has_ty (which values a descriptor's Rust type has) and
   the values the encoder refuses.  In this universe the only refusal is a SystemTime before the Unix
   epoch (encode.rs:734), possibly nested inside containers.  The other refusal named by the property,
   a non-UTF-8 Path, is not representable: TyStr values are required to be valid UTF-8 by has_ty (the
   registry encodes paths through their str form), so there is no typed value the str encoder rejects. *)
From MC Require Import Bytes BytesFacts Monad Cbor Utf8 Half Decoder Encoder Methods Types
  EncoderFacts DecoderFacts TypesEnc.
From Coq Require Import Lia.
Local Open Scope N_scope.

Fixpoint all_zip (fs : list (value -> bool)) (vs : list value) : bool :=
  match fs, vs with
  | [], [] => true
  | f :: fs', v :: vs' => f v && all_zip fs' vs'
  | _, _ => false
  end.
Fixpoint all_alt (fk fv : value -> bool) (vs : list value) : bool :=
  match vs with
  | [] => true
  | k :: v :: r => fk k && fv v && all_alt fk fv r
  | _ => false
  end.
Fixpoint any_zip (fs : list (value -> bool)) (vs : list value) : bool :=
  match fs, vs with
  | f :: fs', v :: vs' => f v || any_zip fs' vs'
  | _, _ => false
  end.
Fixpoint any_alt (fk fv : value -> bool) (vs : list value) : bool :=
  match vs with
  | k :: v :: r => fk k || fv v || any_alt fk fv r
  | _ => false
  end.

(* v is a value of the Rust type t stands for: shape, integer ranges, scalar values, valid UTF-8,
   byte-sized bytes, array / tuple arity, variant index in range, Duration's nanos < 10^9,
   SystemTime = UNIX_EPOCH + d (VVar 0 d) or UNIX_EPOCH - d (VVar 1 d). *)
Fixpoint has_ty (t : ty) (v : value) {struct t} : bool :=
  match t, v with
  | TyU w, VNat n => n <=? umax w
  | TyI w, VInt z => zin w z
  | TyInt, VInt z => ((-18446744073709551616 <=? z) && (z <=? 18446744073709551615))%Z
  | TyBool, VBool _ => true
  | TyChar, VNat c => is_scalar c
  | TyF32, VFloat b => b <? 4294967296
  | TyF64, VFloat b => b <? 18446744073709551616
  | TyNZU w, VNat n => (n <=? umax w) && negb (n =? 0)
  | TyNZI w, VInt z => zin w z && negb (z =? 0)%Z
  | TyStr, VBlob b => bytes_ok b && utf8_valid b
  | TyBytes, VBlob b => bytes_ok b
  | TyByteArr n, VBlob b => bytes_ok b && (len b =? n)
  | TyCStr, VBlob b => bytes_ok b && no_nul b
  | TyUnit, VUnit => true
  | TyOpt t', VNone => true
  | TyOpt t', VSome v' => has_ty t' v'
  | TySeq t', VList l => forallb (has_ty t') l
  | TyArr n t', VList l => (len l =? n) && forallb (has_ty t') l
  | TyMap tk tv, VList l => N.even (len l) && all_alt (has_ty tk) (has_ty tv) l
  | TyTuple ts, VList l => all_zip (map has_ty ts) l
  | TyFields ts, VList l => all_zip (map has_ty ts) l
  | TyEnum vs, VVar i v' =>
      match nth_error (map has_ty vs) (N.to_nat i) with
      | Some f => (i <? 4294967296) && f v'
      | None => false
      end
  | TyBound t', VVar i v' =>
      if i <? 2 then has_ty t' v'
      else if i =? 2 then match v' with VUnit => true | _ => false end
      else false
  | TyTag, VNat n => n <? 18446744073709551616
  | TyTagged n t', v' => (n <? 18446744073709551616) && has_ty t' v'
  | TyDuration, VList [VNat s; VNat ns] => (s <=? umax B64) && (ns <=? nanos_max)
  | TySystemTime, VVar i (VList [VNat s; VNat ns]) => (i <? 2) && (s <=? imax B64) && (ns <=? nanos_max)
  | _, _ => false
  end.

(* the value contains a SystemTime before the epoch *)
Fixpoint refused (t : ty) (v : value) {struct t} : bool :=
  match t, v with
  | TyOpt t', VSome v' => refused t' v'
  | TySeq t', VList l => existsb (refused t') l
  | TyArr _ t', VList l => existsb (refused t') l
  | TyMap tk tv, VList l => any_alt (refused tk) (refused tv) l
  | TyTuple ts, VList l => any_zip (map refused ts) l
  | TyFields ts, VList l => any_zip (map refused ts) l
  | TyEnum vs, VVar i v' =>
      match nth_error (map refused vs) (N.to_nat i) with Some f => f v' | None => false end
  | TyBound t', VVar i v' => (i <? 2) && refused t' v'
  | TyTagged _ t', v' => refused t' v'
  | TySystemTime, VVar i _ => i =? 1
  | _, _ => false
  end.

Definition refusal_exact (t : ty) : Prop :=
  forall v, has_ty t v = true -> (encode_ty t v = None <-> refused t v = true).

Lemma ocat_none a b : ocat a b = None <-> a = None \/ b = None.
Proof.
  destruct a, b; cbn [ocat]; split; intro H; try reflexivity; try discriminate; auto.
  destruct H; discriminate.
Qed.

Lemma ocat_hd_none h b : ocat (Some h) b = None <-> b = None.
Proof. rewrite ocat_none. split; [intros [H|H]; [discriminate|exact H]|auto]. Qed.

Lemma enc_all_none f h r l :
  (forall v, h v = true -> (f v = None <-> r v = true)) ->
  forallb h l = true -> (enc_all f l = None <-> existsb r l = true).
Proof.
  intro Hq. induction l as [|v l IH]; cbn [forallb enc_all existsb]; intro Hh.
  - split; discriminate.
  - apply andb_prop in Hh as [H1 H2]. rewrite ocat_none, orb_true_iff, (Hq _ H1), (IH H2). reflexivity.
Qed.

Lemma enc_alt_none fk fv hk hv rk rv l :
  (forall v, hk v = true -> (fk v = None <-> rk v = true)) ->
  (forall v, hv v = true -> (fv v = None <-> rv v = true)) ->
  all_alt hk hv l = true -> (enc_alt fk fv l = None <-> any_alt rk rv l = true).
Proof.
  intros Hk Hv.
  assert (G: forall n l, (length l <= n)%nat -> all_alt hk hv l = true ->
             (enc_alt fk fv l = None <-> any_alt rk rv l = true)).
  { induction n as [|n IH]; intros l' Hn Hh.
    - destruct l'; [|cbn [length] in Hn; lia]. cbn [enc_alt any_alt]. split; discriminate.
    - destruct l' as [|k [|v r]]; cbn [all_alt enc_alt any_alt] in *; try discriminate.
      + split; discriminate.
      + apply andb_prop in Hh as [Hh H3]. apply andb_prop in Hh as [H1 H2].
        rewrite !ocat_none, !orb_true_iff, (Hk _ H1), (Hv _ H2), (IH r ltac:(cbn [length] in Hn; lia) H3).
        tauto. }
  apply (G (length l)). lia.
Qed.

Lemma enc_zip_none ts : Forall refusal_exact ts -> forall l,
  all_zip (map has_ty ts) l = true ->
  (enc_zip (map encode_ty ts) l = None <-> any_zip (map refused ts) l = true).
Proof.
  induction 1 as [|t ts Ht Hts IH]; intros l Hh; cbn [map all_zip enc_zip any_zip] in *.
  - destruct l; [|discriminate]. split; discriminate.
  - destruct l as [|v l]; [discriminate|]. apply andb_prop in Hh as [H1 H2].
    rewrite ocat_none, orb_true_iff, (Ht _ H1), (IH _ H2). reflexivity.
Qed.

Ltac leaf H :=
  cbn [encode_ty refused]; rewrite ?H; split; discriminate.

Theorem refusals_all : forall t, refusal_exact t.
Proof.
  induction t as [w|w| | | | | |w|w| | |k| | |t IH|t IH|k t IH|tk tv IHk IHv|ts IH|ts IH|ts IH|t IH| |k t IH| |]
    using ty_ind'; unfold refusal_exact; intros v H.
  - destruct v; cbn [has_ty] in H; try discriminate. leaf H.
  - destruct v; cbn [has_ty] in H; try discriminate. leaf H.
  - destruct v; cbn [has_ty] in H; try discriminate. leaf H.
  - destruct v; cbn [has_ty] in H; try discriminate. leaf H.
  - destruct v; cbn [has_ty] in H; try discriminate. leaf H.
  - destruct v; cbn [has_ty] in H; try discriminate. leaf H.
  - destruct v; cbn [has_ty] in H; try discriminate. leaf H.
  - destruct v; cbn [has_ty] in H; try discriminate. leaf H.
  - destruct v; cbn [has_ty] in H; try discriminate. leaf H.
  - destruct v; cbn [has_ty] in H; try discriminate. leaf H.
  - destruct v; cbn [has_ty] in H; try discriminate. leaf H.
  - destruct v; cbn [has_ty] in H; try discriminate. leaf H.
  - destruct v; cbn [has_ty] in H; try discriminate. leaf H.
  - destruct v; cbn [has_ty] in H; try discriminate. leaf H.
  - (* TyOpt *) destruct v; cbn [has_ty] in H; try discriminate; cbn [encode_ty refused].
    + split; discriminate.
    + now apply IH.
  - (* TySeq *) destruct v; cbn [has_ty] in H; try discriminate; cbn [encode_ty refused].
    rewrite ocat_hd_none. now apply (enc_all_none _ (has_ty t)).
  - (* TyArr *) destruct v; cbn [has_ty] in H; try discriminate; cbn [encode_ty refused].
    apply andb_prop in H as [H1 H2]. rewrite H1, ocat_hd_none. now apply (enc_all_none _ (has_ty t)).
  - (* TyMap *) destruct v; cbn [has_ty] in H; try discriminate; cbn [encode_ty refused].
    apply andb_prop in H as [H1 H2]. rewrite H1, ocat_hd_none.
    now apply (enc_alt_none _ _ (has_ty tk) (has_ty tv)).
  - (* TyTuple *) destruct v; cbn [has_ty] in H; try discriminate; cbn [encode_ty refused].
    rewrite ocat_hd_none. now apply enc_zip_none.
  - (* TyFields *) destruct v; cbn [has_ty] in H; try discriminate; cbn [encode_ty refused].
    rewrite ocat_hd_none. now apply enc_zip_none.
  - (* TyEnum *) destruct v; cbn [has_ty] in H; try discriminate; cbn [encode_ty refused].
    destruct (nth_error (map has_ty ts) (N.to_nat idx)) as [f|] eqn:Hf; [|discriminate].
    apply nth_error_map_inv in Hf as (t' & Ht' & <-). apply andb_prop in H as [H1 H2].
    rewrite (map_nth_error encode_ty _ _ Ht'), (map_nth_error refused _ _ Ht'), H1, ocat_hd_none.
    rewrite Forall_forall in IH. exact (IH t' (nth_error_In _ _ Ht') v H2).
  - (* TyBound *) destruct v; cbn [has_ty] in H; try discriminate; cbn [encode_ty refused].
    destruct (idx <? 2); cbn [andb].
    + rewrite ocat_hd_none. now apply IH.
    + destruct (idx =? 2); [|discriminate]. destruct v; try discriminate. split; discriminate.
  - (* TyTag *) destruct v; cbn [has_ty] in H; try discriminate. leaf H.
  - (* TyTagged *) cbn [has_ty] in H. apply andb_prop in H as [H1 H2]. cbn [encode_ty refused].
    rewrite H1, ocat_hd_none. now apply IH.
  - (* TyDuration *) destruct v; cbn [has_ty] in H; try discriminate.
    destruct l as [|[s| | | | | | | | |] [|[ns| | | | | | | | |] [|? ?]]]; try discriminate. leaf H.
  - (* TySystemTime *) destruct v; cbn [has_ty] in H; try discriminate. destruct v; try discriminate.
    destruct l as [|[s| | | | | | | | |] [|[ns| | | | | | | | |] [|? ?]]]; try discriminate.
    apply andb_prop in H as [H H3]. apply andb_prop in H as [H1 H2]. apply N.ltb_lt in H1.
    cbn [encode_ty refused]. rewrite H2, H3.
    destruct (N.eqb_spec idx 0); destruct (N.eqb_spec idx 1); cbn [andb]; split; intro; try discriminate; try reflexivity; lia.
Qed.

Theorem refusals : forall t v, has_ty t v = true -> (encode_ty t v = None <-> refused t v = true).
Proof. intros t v. apply refusals_all. Qed.

(* ---- has_ty is complete: whatever the encoder accepts is typed ---- *)
Definition typed_if_encoded (t : ty) : Prop := forall v cs, encode_ty t v = Some cs -> has_ty t v = true.

Lemma enc_all_typed f h l : (forall v cs, f v = Some cs -> h v = true) ->
  forall cs, enc_all f l = Some cs -> forallb h l = true.
Proof.
  intro Hq. induction l as [|v l IH]; cbn [enc_all forallb]; intros cs H; [reflexivity|].
  apply ocat_some in H as (x & y & Hx & Hy & _). now rewrite (Hq _ _ Hx), (IH _ Hy).
Qed.

Lemma enc_alt_typed fk fv hk hv l :
  (forall v cs, fk v = Some cs -> hk v = true) -> (forall v cs, fv v = Some cs -> hv v = true) ->
  forall cs, enc_alt fk fv l = Some cs -> all_alt hk hv l = true.
Proof.
  intros Hk Hv.
  assert (G: forall n l, (length l <= n)%nat -> forall cs, enc_alt fk fv l = Some cs -> all_alt hk hv l = true).
  { induction n as [|n IH]; intros l' Hn cs H.
    - destruct l'; [reflexivity|cbn [length] in Hn; lia].
    - destruct l' as [|k [|v r]]; cbn [enc_alt all_alt] in *; try reflexivity; try discriminate.
      apply ocat_some in H as (x & y & Hx & Hy & _). apply ocat_some in Hy as (y1 & y2 & Hy1 & Hy2 & _).
      now rewrite (Hk _ _ Hx), (Hv _ _ Hy1), (IH r ltac:(cbn [length] in Hn; lia) _ Hy2). }
  apply (G (length l)). lia.
Qed.

Lemma enc_zip_typed ts : Forall typed_if_encoded ts -> forall l cs,
  enc_zip (map encode_ty ts) l = Some cs -> all_zip (map has_ty ts) l = true.
Proof.
  induction 1 as [|t ts Ht Hts IH]; intros l cs H; cbn [map enc_zip all_zip] in *.
  - destruct l; [reflexivity|discriminate].
  - destruct l as [|v l]; [discriminate|].
    apply ocat_some in H as (x & y & Hx & Hy & _). now rewrite (Ht _ _ Hx), (IH _ _ Hy).
Qed.

Ltac leaf2 H :=
  cbn [has_ty];
  match type of H with
  | (if ?c then _ else _) = Some _ => destruct c; [reflexivity|discriminate]
  | _ => reflexivity
  end.

Theorem encoded_typed_all : forall t, typed_if_encoded t.
Proof.
  induction t as [w|w| | | | | |w|w| | |k| | |t IH|t IH|k t IH|tk tv IHk IHv|ts IH|ts IH|ts IH|t IH| |k t IH| |]
    using ty_ind'; unfold typed_if_encoded; intros v cs H.
  - destruct v; cbn [encode_ty] in H; try discriminate. leaf2 H.
  - destruct v; cbn [encode_ty] in H; try discriminate. leaf2 H.
  - destruct v; cbn [encode_ty] in H; try discriminate. leaf2 H.
  - destruct v; cbn [encode_ty] in H; try discriminate. leaf2 H.
  - destruct v; cbn [encode_ty] in H; try discriminate. leaf2 H.
  - destruct v; cbn [encode_ty] in H; try discriminate. leaf2 H.
  - destruct v; cbn [encode_ty] in H; try discriminate. leaf2 H.
  - destruct v; cbn [encode_ty] in H; try discriminate. leaf2 H.
  - destruct v; cbn [encode_ty] in H; try discriminate. leaf2 H.
  - destruct v; cbn [encode_ty] in H; try discriminate. leaf2 H.
  - destruct v; cbn [encode_ty] in H; try discriminate. leaf2 H.
  - destruct v; cbn [encode_ty] in H; try discriminate. leaf2 H.
  - destruct v; cbn [encode_ty] in H; try discriminate. leaf2 H.
  - destruct v; cbn [encode_ty] in H; try discriminate. leaf2 H.
  - destruct v; cbn [encode_ty] in H; try discriminate; cbn [has_ty]; [reflexivity|]. eapply IH; exact H.
  - destruct v; cbn [encode_ty] in H; try discriminate; cbn [has_ty].
    apply ocat_some in H as (x & y & _ & Hy & _). eapply enc_all_typed; [|exact Hy]. exact IH.
  - destruct v; cbn [encode_ty] in H; try discriminate; cbn [has_ty].
    destruct (len l =? k); [|discriminate]. cbn [andb].
    apply ocat_some in H as (x & y & _ & Hy & _). eapply enc_all_typed; [|exact Hy]. exact IH.
  - destruct v; cbn [encode_ty] in H; try discriminate; cbn [has_ty].
    destruct (N.even (len l)); [|discriminate]. cbn [andb].
    apply ocat_some in H as (x & y & _ & Hy & _). eapply enc_alt_typed; [| |exact Hy]; [exact IHk|exact IHv].
  - destruct v; cbn [encode_ty] in H; try discriminate; cbn [has_ty].
    apply ocat_some in H as (x & y & _ & Hy & _). eapply enc_zip_typed; [exact IH|exact Hy].
  - destruct v; cbn [encode_ty] in H; try discriminate; cbn [has_ty].
    apply ocat_some in H as (x & y & _ & Hy & _). eapply enc_zip_typed; [exact IH|exact Hy].
  - destruct v; cbn [encode_ty] in H; try discriminate; cbn [has_ty].
    destruct (nth_error (map encode_ty ts) (N.to_nat idx)) as [f|] eqn:Hf; [|discriminate].
    apply nth_error_map_inv in Hf as (t' & Ht' & <-). rewrite (map_nth_error has_ty _ _ Ht').
    destruct (idx <? 4294967296); [|discriminate]. cbn [andb].
    apply ocat_some in H as (x & y & _ & Hy & _).
    rewrite Forall_forall in IH. exact (IH t' (nth_error_In _ _ Ht') v _ Hy).
  - destruct v; cbn [encode_ty] in H; try discriminate; cbn [has_ty].
    destruct (idx <? 2).
    + apply ocat_some in H as (x & y & _ & Hy & _). eapply IH; exact Hy.
    + destruct (idx =? 2); [|discriminate]. destruct v; try discriminate. reflexivity.
  - destruct v; cbn [encode_ty] in H; try discriminate. leaf2 H.
  - cbn [encode_ty] in H. cbn [has_ty]. destruct (k <? 18446744073709551616); [|discriminate]. cbn [andb].
    apply ocat_some in H as (x & y & _ & Hy & _). eapply IH; exact Hy.
  - destruct v; cbn [encode_ty] in H; try discriminate.
    destruct l as [|[s| | | | | | | | |] [|[ns| | | | | | | | |] [|? ?]]]; try discriminate. leaf2 H.
  - destruct v; cbn [encode_ty] in H; try discriminate. destruct v; try discriminate.
    destruct l as [|[s| | | | | | | | |] [|[ns| | | | | | | | |] [|? ?]]]; try discriminate.
    cbn [has_ty]. destruct (N.eqb_spec idx 0) as [->|]; cbn [andb] in H; [|discriminate].
    change (0 <? 2) with true. cbn [andb].
    destruct ((s <=? imax B64) && (ns <=? nanos_max)); [reflexivity|discriminate].
Qed.

Theorem encoded_typed : forall t v cs, encode_ty t v = Some cs -> has_ty t v = true.
Proof. intros t v cs. apply encoded_typed_all. Qed.

(* the domain of the encoder, exactly *)
Theorem encode_domain : forall t v,
  (exists cs, encode_ty t v = Some cs) <-> has_ty t v = true /\ refused t v = false.
Proof.
  intros t v. split.
  - intros [cs H]. pose proof (encoded_typed _ _ _ H) as Ht. split; [exact Ht|].
    destruct (refused t v) eqn:Hr; [|reflexivity]. apply (refusals t v Ht) in Hr. congruence.
  - intros [Ht Hr]. destruct (encode_ty t v) as [cs|] eqn:He; [eauto|].
    apply (refusals t v Ht) in He. congruence.
Qed.
