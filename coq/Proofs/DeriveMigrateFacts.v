(* Proofs/DeriveMigrateFacts.v — C10 at schema level: the reader's schema decodes what the writer's schema encoded, every
   nested definition in its own two versions (Model/DeriveMigrate.v).  Two outcomes per value: the reader's decoder reads
   the migrated value, or — an unknown variant outside every optional field — it fails with UnknownVariant. *)
From MC Require Import Bytes BytesFacts Monad Cbor Utf8 Half Decoder Encoder EncoderFacts DecoderFacts IntFacts Types
  DeriveSchema DeriveEnc DeriveLen DeriveDec DeriveDoc DeriveKnown DeriveCompat DeriveMigrate
  DeriveFacts DeriveLenFacts DeriveDocFacts DeriveInvFacts DeriveDecFacts DeriveCompatFacts DeriveReframeFacts DeriveClosed DeriveSkipFacts TypesEnc TypesFacts Denote.
From Coq Require Import Lia Permutation.
Local Open Scope N_scope.

(* "m fails on b with UnknownVariant n": from any position, with any suffix, wherever it stops *)
Definition fails_f {A} (m : nat -> M A) (b : bytes) : Prop :=
  forall fuel r p L, (length (b ++ r) < fuel)%nat -> L < two64 -> p + len b <= L ->
    exists n s', m fuel (mkdst p (b ++ r) L) = (Err (UnknownVariant n), s').

Definition outcome {A} (m : nat -> M A) (b : bytes) (o : option A) : Prop :=
  match o with Some a => reads_f m b a | None => fails_f m b end.

Lemma fld_tag_ok d f : field_ok d f = true -> f_skip f = false -> tag_ok (f_tag f) = true.
Proof.
  unfold field_ok. intros Hok Hs. rewrite Hs in Hok. apply andb_prop in Hok as [_ Hok]. apply andb_prop in Hok as [Hok _].
  apply andb_prop in Hok as [Hok _]. apply andb_prop in Hok as [_ Hok]. exact Hok.
Qed.

Lemma omap_list_cons {A B} (f : A -> option B) x r :
  omap_list f (x :: r) = match f x, omap_list f r with Some y, Some ys => Some (y :: ys) | _, _ => None end.
Proof. reflexivity. Qed.

(* the nested values of a value satisfy okN (threaded through the decoders: the hypotheses about the writer's value — outside
   class F14, text valid UTF-8 — are needed for the nested definitions' values too) *)
Section OkN.
Variable okN : nat -> value -> bool.
Fixpoint ok_fty (f : fty) (v : value) {struct f} : bool :=
  match f, v with
  | FRef d, _ => okN d v
  | FOpt f', VSome v' => ok_fty f' v'
  | FSeq f', VList l => forallb (ok_fty f') l
  | _, _ => true
  end.
Definition ok_raw (f : field) (v : value) : bool := match f_codec f with CoDefault => ok_fty (f_ty f) v | _ => true end.
Definition ok_fields (fs : list field) (vs : list value) : Prop :=
  forall pf, In pf (sorted_fields fs) -> ok_raw (pf_fld pf) (pf_val vs pf) = true.
Definition ok_def (df : def) (v : value) : Prop :=
  match df, v with
  | DStruct _ _ _ _ fs, VList vs => ok_fields fs vs
  | DEnum _ _ _ vars, VVar i (VList vs) => match find_variant vars i with Some va => ok_fields (v_fields va) vs | None => True end
  | _, _ => True
  end.
End OkN.

Section Mig2.
Variable c : cfg.
Variable okty : ty -> Prop.
Hypothesis Hty : forall t, okty t -> forall v cs, encode_ty t v = Some cs ->
  flat cs <> [] /\ reads_f (decode_ty c t) (flat cs) v.

Variable recE : nat -> value -> option (list chunk).     (* the writer's nested encoders *)
Variable recD : nat -> nat -> M value.                    (* the reader's nested decoders *)
Variable recM : nat -> value -> option value.             (* migrate of the nested definitions *)
Variable ntr : nat -> bool.
Variable okN : nat -> value -> bool.
Hypothesis Hrec : forall d v cs, recE d v = Some cs -> okN d v = true ->
  flat cs <> [] /\ (ntr d = true -> hd_class (flat cs) = true) /\ outcome (recD d) (flat cs) (recM d v).

(* ---- sequences ---- *)
Lemma dec_n_two (f : value -> option (list chunk)) (d : M value) (g : value -> option value) (F : nat) : forall l cs,
  enc_all f l = Some cs ->
  (forall v cv, In v l -> f v = Some cv -> flat cv <> [] /\
     match g v with
     | Some v' => forall r p L, (length (flat cv ++ r) < F)%nat -> L < two64 -> p + len (flat cv) <= L ->
                    d (mkdst p (flat cv ++ r) L) = (Ok v', mkdst (p + len (flat cv)) r L)
     | None => forall r p L, (length (flat cv ++ r) < F)%nat -> L < two64 -> p + len (flat cv) <= L ->
                    exists n s', d (mkdst p (flat cv ++ r) L) = (Err (UnknownVariant n), s')
     end) ->
  len l <= len (flat cs) /\
  match omap_list g l with
  | Some l' => forall acc fuel r p L, (length (flat cs ++ r) < F)%nat -> (length (flat cs ++ r) < fuel)%nat -> L < two64 -> p + len (flat cs) <= L ->
      dec_n d (len l) fuel acc (mkdst p (flat cs ++ r) L) = (Ok (rev acc ++ l'), mkdst (p + len (flat cs)) r L)
  | None => forall acc fuel r p L, (length (flat cs ++ r) < F)%nat -> (length (flat cs ++ r) < fuel)%nat -> L < two64 -> p + len (flat cs) <= L ->
      exists n s', dec_n d (len l) fuel acc (mkdst p (flat cs ++ r) L) = (Err (UnknownVariant n), s')
  end.
Proof.
  induction l as [|v l' IH]; intros cs He Hel; cbn [enc_all] in He.
  - injection He as <-. split; [apply N.le_refl|]. cbn [omap_list]. intros acc fuel r p L _ _ _ _. cbn [len]. unfold dec_n.
    destruct fuel; cbn; unfold ret; rewrite app_nil_r, N.add_0_r; reflexivity.
  - apply ocat_some in He as (x & y & Hx & Hy & ->).
    destruct (Hel v x (or_introl eq_refl) Hx) as [Hne Hrd].
    destruct (IH y Hy (fun v' c' Hv => Hel v' c' (or_intror Hv))) as [Hle IHr].
    pose proof (nonempty_len _ Hne) as H1.
    split; [rewrite len_cons, len_flat_app; lia|]. rewrite omap_list_cons.
    assert (Hstep : forall fuel, dec_n d (len (v :: l')) (S fuel) = fun acc => x0 <- d ;; dec_n d (len l') fuel (x0 :: acc)).
    { intro fuel. cbn [dec_n]. rewrite len_cons. destruct (N.eqb_spec (1 + len l') 0); [lia|].
      replace (N.pred (1 + len l')) with (len l') by lia. reflexivity. }
    assert (Hlen : forall r, (length (flat y ++ r) < length (flat x ++ flat y ++ r))%nat).
    { intro r. rewrite (app_length (flat x)). destruct (flat x); [congruence|cbn; lia]. }
    destruct (g v) as [v'|].
    + destruct (omap_list g l') as [l2|].
      * intros acc fuel r p L HF Hfuel HL Hp. rewrite flat_app, <- app_assoc in *. rewrite len_app in Hp.
        destruct fuel as [|fuel]; [lia|]. rewrite Hstep.
        rewrite (bind_ok _ _ _ _ _ (Hrd (flat y ++ r) p L HF HL ltac:(lia))).
        specialize (Hlen r). rewrite IHr; [|lia|lia|assumption|lia].
        f_equal; [f_equal; cbn [rev]; now rewrite <- app_assoc|f_equal; rewrite len_app; lia].
      * intros acc fuel r p L HF Hfuel HL Hp. rewrite flat_app, <- app_assoc in *. rewrite len_app in Hp.
        destruct fuel as [|fuel]; [lia|]. rewrite Hstep.
        rewrite (bind_ok _ _ _ _ _ (Hrd (flat y ++ r) p L HF HL ltac:(lia))).
        specialize (Hlen r). apply IHr; [lia|lia|assumption|lia].
    + intros acc fuel r p L HF Hfuel HL Hp. rewrite flat_app, <- app_assoc in *. rewrite len_app in Hp.
      destruct fuel as [|fuel]; [lia|]. rewrite Hstep.
      destruct (Hrd (flat y ++ r) p L HF HL ltac:(lia)) as (n & s' & Hs'). exists n, s'. now rewrite (bind_err _ _ _ _ _ Hs').
Qed.

Lemma mig_fty_leaf t v : mig_fty recM (FTy t) v = Some v.
Proof. destruct v; reflexivity. Qed.

Lemma dec_fty_two f : forall v cs, fty_all okty f -> fty_rt ntr f = true -> enc_fty recE f v = Some cs -> ok_fty okN f v = true ->
  flat cs <> [] /\ (hdok ntr f = true -> hd_class (flat cs) = true) /\ outcome (dec_fty c recD f) (flat cs) (mig_fty recM f v).
Proof.
  induction f as [t|d|f' IH|f' IH]; intros v cs Hall Hrt He Hokv.
  - cbn in He, Hall. destruct (Hty t Hall v cs He) as [H1 H2]. split; [assumption|]. split; [discriminate|].
    rewrite mig_fty_leaf. exact H2.
  - cbn in He. assert (Hokd : okN d v = true) by (destruct v; exact Hokv). destruct (Hrec d v cs He Hokd) as (H1 & H2 & H3). split; [assumption|]. split; [exact H2|].
    replace (mig_fty recM (FRef d) v) with (recM d v) by (destruct v; reflexivity). exact H3.
  - apply fty_rt_hdok in Hrt as [Hhd Hrt']. destruct v; cbn in He; try discriminate.
    + injection He as <-. split; [discriminate|]. split; [discriminate|].
      intros fuel r p L _ _ _. cbn [dec_fty]. change (flat enc_null ++ r) with (246 :: r).
      rewrite (bind_ok _ _ _ _ _ (datatype_null _ _ _)). cbn [ctype_is_null].
      rewrite (bind_ok _ _ _ _ _ (skip_null _ _ _ _)). reflexivity.
    + destruct (IH v cs Hall Hrt' He Hokv) as (H1 & H2 & H3). split; [assumption|]. split; [discriminate|]. specialize (H2 Hhd).
      assert (Hdt : forall r p L, exists ty, datatype (mkdst p (flat cs ++ r) L) = (Ok ty, mkdst p (flat cs ++ r) L) /\ ctype_is_null ty = false).
      { intros r p L. destruct (flat cs) as [|x t] eqn:Ec; [congruence|]. cbn [app]. apply datatype_hd. destruct t; exact H2. }
      cbn [mig_fty]. destruct (mig_fty recM f' v) as [v'|]; cbn [option_map outcome] in *.
      * intros fuel r p L Hf HL Hp. cbn [dec_fty]. destruct (Hdt r p L) as (ty & Hd & Hn). rewrite (bind_ok _ _ _ _ _ Hd), Hn.
        erewrite fmap_ok; [reflexivity|]. apply H3; assumption.
      * intros fuel r p L Hf HL Hp. cbn [dec_fty]. destruct (Hdt r p L) as (ty & Hd & Hn). rewrite (bind_ok _ _ _ _ _ Hd), Hn.
        destruct (H3 fuel r p L Hf HL Hp) as (n & s' & Hs'). exists n, s'. now rewrite (fmap_err _ _ _ _ _ Hs').
  - cbn [fty_rt] in Hrt. destruct v; cbn in He; try discriminate. apply ocat3_some in He as (y & Hy & ->).
    split; [rewrite flat_app; unfold enc_array, type_len; repeat match goal with |- context [if ?a then _ else _] => destruct a end; discriminate|].
    split; [intros _; rewrite flat_app; apply hd_class_type_len; now left|].
    assert (Hel : forall F v cv, In v l -> enc_fty recE f' v = Some cv -> flat cv <> [] /\
       match mig_fty recM f' v with
       | Some v' => forall r p L, (length (flat cv ++ r) < F)%nat -> L < two64 -> p + len (flat cv) <= L ->
                      dec_fty c recD f' F (mkdst p (flat cv ++ r) L) = (Ok v', mkdst (p + len (flat cv)) r L)
       | None => forall r p L, (length (flat cv ++ r) < F)%nat -> L < two64 -> p + len (flat cv) <= L ->
                      exists n s', dec_fty c recD f' F (mkdst p (flat cv ++ r) L) = (Err (UnknownVariant n), s')
       end).
    { intros F v cv Hv Hcv. cbn [ok_fty] in Hokv. rewrite forallb_forall in Hokv. destruct (IH v cv Hall Hrt Hcv (Hokv v Hv)) as (H1 & _ & H3). split; [assumption|].
      destruct (mig_fty recM f' v); cbn [outcome] in H3.
      - intros r p L; apply H3.
      - intros r p L; apply H3. }
    destruct (dec_n_two (enc_fty recE f') (dec_fty c recD f' 0) (mig_fty recM f') 0 l y Hy (Hel 0%nat)) as [Hle _].
    cbn [mig_fty]. destruct (omap_list (mig_fty recM f') l) as [l'|] eqn:Eo; cbn [option_map outcome].
    + intros fuel r p L Hf HL Hp. cbn [dec_fty]. rewrite flat_app, <- app_assoc in *. rewrite len_app in Hp.
      assert (Hl : len l < two64) by lia.
      unfold dec_seq. erewrite fmap_ok; [reflexivity|].
      rewrite (bind_ok _ _ _ _ _ (dec_array_enc (len l) (flat y ++ r) p L Hl ltac:(lia))).
      destruct (dec_n_two (enc_fty recE f') (dec_fty c recD f' fuel) (mig_fty recM f') fuel l y Hy (Hel fuel)) as [_ Hrd]. rewrite Eo in Hrd.
      assert (Hlen : (length (flat y ++ r) <= length (flat (enc_array (len l)) ++ flat y ++ r))%nat) by (rewrite (app_length (flat (enc_array (len l)))); lia).
      rewrite Hrd; [|lia|lia|assumption|lia]. cbn [rev app]. f_equal. f_equal. rewrite len_app. lia.
    + intros fuel r p L Hf HL Hp. cbn [dec_fty]. rewrite flat_app, <- app_assoc in *. rewrite len_app in Hp.
      assert (Hl : len l < two64) by lia.
      unfold dec_seq.
      destruct (dec_n_two (enc_fty recE f') (dec_fty c recD f' fuel) (mig_fty recM f') fuel l y Hy (Hel fuel)) as [_ Hrd]. rewrite Eo in Hrd.
      assert (Hlen : (length (flat y ++ r) <= length (flat (enc_array (len l)) ++ flat y ++ r))%nat) by (rewrite (app_length (flat (enc_array (len l)))); lia).
      destruct (Hrd [] fuel r (p + len (flat (enc_array (len l)))) L ltac:(lia) ltac:(lia) HL ltac:(lia)) as (n & s' & Hs'). exists n, s'.
      apply fmap_err. now rewrite (bind_ok _ _ _ _ _ (dec_array_enc (len l) (flat y ++ r) p L Hl ltac:(lia))).
Qed.

(* ---- one field ---- *)
Lemma field_fn_two d f v z : field_ok d f = true -> f_skip f = false -> fty_all okty (f_ty f) -> fty_rt ntr (f_ty f) = true ->
  enc_field_fn recE f v = Some z -> ok_raw okN f v = true -> flat z <> [] /\ outcome (dec_field_fn c recD f) (flat z) (mig_raw recM f v).
Proof.
  unfold enc_field_fn, dec_field_fn, mig_raw, field_ok, ok_raw. intros Hok Hs Hall Hrt He Hokv. rewrite Hs in Hok.
  destruct (f_codec f) eqn:Ec.
  - destruct (dec_fty_two (f_ty f) v z Hall Hrt He Hokv) as (H1 & _ & H3). auto.
  - apply andb_prop in Hok as [_ Hok]. apply andb_prop in Hok as [_ Hok].
    destruct (f_ty f); try discriminate. cbn in *. now apply Hty.
  - apply cust_reads with (c := c) in He as [H1 H2]. auto.
Qed.

Lemma nil_of_handler d f : field_ok d f = true -> f_skip f = false -> has_handler f = true -> nil_of f <> None.
Proof.
  intros Hok Hs Hh. unfold field_ok in Hok. rewrite Hs in Hok.
  apply andb_prop in Hok as [_ Hok]. apply andb_prop in Hok as [Hok _]. apply andb_prop in Hok as [_ Hsyn].
  unfold has_handler in Hh. unfold nil_of. destruct (f_codec f) as [| |[|]]; try discriminate;
    destruct (f_synopt f); try discriminate; cbn in Hsyn; try rewrite Hsyn; try rewrite Hh; discriminate.
Qed.

(* the field action of reader field f on what the writer wrote for the same field: the migrated value; the slot left
   alone when an unknown variant inside was caught (the value skipped as one item); or the error passed on *)
Definition action_outcome (f : field) (v : value) (b : bytes) : Prop :=
  match mig_raw recM f v with
  | Some x => reads_f (field_action c recD f) b (Some x)
  | None => if has_handler f then reads_f (field_action c recD f) b None else fails_f (field_action c recD f) b
  end.

Lemma field_action_two d f v z : field_ok d f = true -> f_skip f = false -> fty_all okty (f_ty f) -> fty_rt ntr (f_ty f) = true ->
  enc_field_fn recE f v = Some z -> ok_raw okN f v = true -> skippable c (flat z) ->
  flat z <> [] /\ action_outcome f v (flat (enc_tag_opt (f_tag f) ++ z)).
Proof.
  intros Hok Hs Hall Hrt He Hokv Hsk. destruct (field_fn_two d f v z Hok Hs Hall Hrt He Hokv) as [Hne Hout]. split; [assumption|].
  pose proof (fld_tag_ok d f Hok Hs) as Htag. unfold action_outcome.
  (* the null gate of a tagged optional field is not taken: what was written starts with the tag head *)
  assert (Hgate : forall (o : result (option value) * dst) fuel r p L,
            (dec_tag_check (f_tag f) ;;; try_unknown c (has_handler f) (dec_field_fn c recD f fuel)) (mkdst p (flat (enc_tag_opt (f_tag f)) ++ flat z ++ r) L) = o ->
            field_action c recD f fuel (mkdst p (flat (enc_tag_opt (f_tag f)) ++ flat z ++ r) L) = o).
  { intros o fuel r p L Hact. unfold field_action. destruct (has_tag f && has_handler f) eqn:Eg; [|exact Hact].
    apply andb_prop in Eg as [Eg _]. unfold has_tag in Eg. destruct (f_tag f) as [t|] eqn:Et; [|discriminate].
    cbn [enc_tag_opt] in *.
    pose proof (hd_class_type_len TAGGED t (flat z ++ r) (or_intror (or_intror eq_refl))) as Hhd. fold (enc_tag t) in Hhd.
    destruct (flat (enc_tag t) ++ flat z ++ r) as [|x rest] eqn:Eb; [discriminate|].
    destruct (datatype_hd x rest p L Hhd) as (ty & Hd & Hn).
    rewrite (bind_ok _ _ _ _ _ Hd), Hn. exact Hact. }
  destruct (mig_raw recM f v) as [x|]; cbn [outcome] in Hout.
  - intros fuel r p L Hf HL Hp. rewrite flat_app, <- app_assoc in *. rewrite len_app in Hp. apply Hgate.
    assert (Hp1 : p + len (flat (enc_tag_opt (f_tag f))) <= L) by lia.
    rewrite (bind_ok _ _ _ _ _ (dec_tag_check_enc (f_tag f) (flat z ++ r) p L Htag Hp1)).
    unfold try_unknown. rewrite Hout; [|rewrite app_length in Hf; lia|assumption|lia].
    rewrite len_app, N.add_assoc. reflexivity.
  - destruct (has_handler f) eqn:Eh.
    + intros fuel r p L Hf HL Hp. rewrite flat_app, <- app_assoc in *. rewrite len_app in Hp. apply Hgate.
      assert (Hp1 : p + len (flat (enc_tag_opt (f_tag f))) <= L) by lia.
      rewrite (bind_ok _ _ _ _ _ (dec_tag_check_enc (f_tag f) (flat z ++ r) p L Htag Hp1)).
      assert (Hfu1 : (length (flat z ++ r) < fuel)%nat) by (rewrite app_length in Hf; lia).
      assert (Hp2 : p + len (flat (enc_tag_opt (f_tag f))) + len (flat z) <= L) by lia.
      destruct (Hout fuel r _ L Hfu1 HL Hp2) as (n & s' & Hs'). unfold try_unknown. rewrite Hs'. cbv beta iota.
      rewrite (bind_ok _ _ _ _ _ (Hsk r _ L HL Hp2)). unfold ret. f_equal. f_equal. rewrite len_app. lia.
    + intros fuel r p L Hf HL Hp. rewrite flat_app, <- app_assoc in *. rewrite len_app in Hp.
      assert (Hp1 : p + len (flat (enc_tag_opt (f_tag f))) <= L) by lia.
      assert (Hfu1 : (length (flat z ++ r) < fuel)%nat) by (rewrite app_length in Hf; lia).
      assert (Hp2 : p + len (flat (enc_tag_opt (f_tag f))) + len (flat z) <= L) by lia.
      destruct (Hout fuel r _ L Hfu1 HL Hp2) as (n & s' & Hs'). exists n, s'. apply Hgate.
      rewrite (bind_ok _ _ _ _ _ (dec_tag_check_enc (f_tag f) (flat z ++ r) p L Htag Hp1)).
      unfold try_unknown. rewrite Hs'. reflexivity.
Qed.
End Mig2.

(* ---- error propagation through the loops of one body: the items before the first failing one are read, the failing
   one aborts the loop ---- *)
Section BodyFail.
Variable c : cfg.
Variable recE : nat -> value -> option (list chunk).
Variable recD : nat -> nat -> M value.
Variable F : nat.
Variable sR : list pfield.
Variable vsW : list value.
Variable tgt : pfield -> option value.
Hypothesis HascR : asc pf_idx 0 sR.

Definition item_bad (i : N) (b : bytes) : Prop :=
  forall done r p L, (length (b ++ r) < F)%nat -> L < two64 -> p + len b <= L ->
    exists n s', step_at c recD sR F i (slots2 sR tgt done) (mkdst p (b ++ r) L) = (Err (UnknownVariant n), s').

Variable LW : list pfield.

Lemma arr_loop2_fail i j0 : forall l p cs,
  asc pf_idx p l -> (forall q, In q l -> In q LW) -> (forall q, In q LW -> p <= pf_idx q -> In q l) ->
  j0 <= i -> (exists pf, In pf l /\ pf_idx pf = j0) ->
  (forall pf z, In pf l -> pf_idx pf < j0 -> enc_field_fn recE (pf_fld pf) (pf_val vsW pf) = Some z ->
     flat z <> [] /\ reads_item c recD sR tgt (pf_idx pf) (flat (enc_tag_opt (f_tag (pf_fld pf)) ++ z))) ->
  (forall pf z, In pf l -> pf_idx pf = j0 -> enc_field_fn recE (pf_fld pf) (pf_val vsW pf) = Some z ->
     item_bad j0 (flat (enc_tag_opt (f_tag (pf_fld pf)) ++ z))) ->
  (forall j, j <= i -> (forall q, In q LW -> pf_idx q <> j) -> reads_item c recD sR tgt j [246]) ->
  arr_stmts recE l vsW p i = Some cs ->
  forall fuelL r pos L, (length (flat cs ++ r) < F)%nat -> (length (flat cs ++ r) < fuelL)%nat -> L < two64 -> pos + len (flat cs) <= L ->
    exists n s', loop_n (step_at c recD sR F) p (i + 1 - p) fuelL (slots2 sR tgt (fun q => pf_idx q <? p)) (mkdst pos (flat cs ++ r) L)
                 = (Err (UnknownVariant n), s').
Proof.
  induction l as [|pf l' IH]; intros p cs Hasc Hsub Hsup Hj0 Hex Hitem Hbad Hgapi; cbn [arr_stmts].
  - destruct Hex as (q & [] & _).
  - intro HH. apply ocat_some in HH as (x & y & Hx & Hy & ->). cbn [asc] in Hasc. destruct Hasc as [Hpp Hasc].
    assert (Hsub' : forall q, In q l' -> In q LW) by (intros; apply Hsub; now right).
    assert (Hsup' : forall q, In q LW -> pf_idx pf + 1 <= pf_idx q -> In q l').
    { intros q Hq Hqi. destruct (Hsup q Hq ltac:(lia)) as [<-|Hin]; [lia|assumption]. }
    assert (Hle0 : pf_idx pf <= j0).
    { destruct Hex as (q & [<-|Hq] & Hqi); [lia|]. pose proof (asc_keys_ge pf_idx _ _ _ Hasc Hq). lia. }
    destruct (N.leb_spec (pf_idx pf) i) as [Hi|Hi]; [|lia].
    apply ocat3_some in Hx as (z & Hz & ->).
    intros fuelL r pos L HF Hfl HL Hpos.
    set (k := N.to_nat (pf_idx pf - p)).
    assert (Ek : pf_idx pf - p = N.of_nat k) by (unfold k; lia).
    set (TZ := enc_tag_opt (f_tag (pf_fld pf)) ++ z) in *.
    assert (Ecs : flat (((nulls (pf_idx pf - p) ++ enc_tag_opt (f_tag (pf_fld pf))) ++ z) ++ y) = flat (nulls (N.of_nat k)) ++ flat TZ ++ flat y).
    { unfold TZ. rewrite Ek, !flat_app, <- !app_assoc. reflexivity. }
    rewrite Ecs in *. clear Ecs.
    assert (Elen : length (flat (nulls (N.of_nat k))) = k).
    { apply Nat2N.inj. fold (len (flat (nulls (N.of_nat k)))). now rewrite len_nulls. }
    assert (Elen' : len (flat (nulls (N.of_nat k))) = N.of_nat k) by apply len_nulls.
    rewrite <- !app_assoc in *. rewrite !len_app, Elen' in Hpos. rewrite !app_length, Elen in HF, Hfl.
    replace (i + 1 - p) with (N.of_nat k + (1 + (i + 1 - (pf_idx pf + 1)))) by lia.
    replace fuelL with (k + (fuelL - k))%nat by lia.
    rewrite (loop_gap2 c recD F sR tgt HascR); [| |rewrite !app_length; lia|assumption|lia].
    2:{ intros j H1 H2. apply Hgapi; [lia|]. intros q Hq E. assert (In q (pf :: l')) as [<-|Hql] by (apply Hsup; [assumption|lia]); [lia|].
        pose proof (asc_keys_ge pf_idx _ _ _ Hasc Hql). lia. }
    replace (p + N.of_nat k) with (pf_idx pf) by lia.
    destruct (fuelL - k)%nat as [|fuel'] eqn:Ef; [lia|].
    rewrite loop_n_S by lia.
    assert (HF1 : (length (flat TZ ++ flat y ++ r) < F)%nat) by (rewrite !app_length; lia).
    assert (Hp1' : pos + N.of_nat k + len (flat TZ) <= L) by lia.
    destruct (N.eq_dec (pf_idx pf) j0) as [E0|E0].
    + destruct (Hbad pf z (or_introl eq_refl) E0 Hz (fun q => pf_idx q <? pf_idx pf) (flat y ++ r) (pos + N.of_nat k) L HF1 HL Hp1') as (n & s' & Hs').
      exists n, s'. rewrite <- E0 in Hs'. now rewrite (bind_err _ _ _ _ _ Hs').
    + destruct (Hitem pf z (or_introl eq_refl) ltac:(lia) Hz) as [Hne Hio].
      rewrite (bind_ok _ _ _ _ _ (step2 c recD F sR tgt HascR (pf_idx pf) (flat TZ) _ Hio (flat y ++ r) (pos + N.of_nat k) L HF1 HL Hp1')).
      replace (N.pred (1 + (i + 1 - (pf_idx pf + 1)))) with (i + 1 - (pf_idx pf + 1)) by lia.
      rewrite (slots2_ext sR tgt _ (fun q => pf_idx q <? pf_idx pf + 1)).
      2:{ intros q _. destruct (N.eqb_spec (pf_idx q) (pf_idx pf)), (N.ltb_spec (pf_idx q) (pf_idx pf)), (N.ltb_spec (pf_idx q) (pf_idx pf + 1)); cbn [orb]; try reflexivity; lia. }
      assert (HTZ : (1 <= length (flat TZ))%nat).
      { unfold TZ. rewrite flat_app, app_length. destruct (flat z); [congruence|cbn [length]; lia]. }
      assert (Hex' : exists q, In q l' /\ pf_idx q = j0).
      { destruct Hex as (q & [<-|Hq] & Hqi); [contradiction|eauto]. }
      unfold TZ in *. clear TZ.
      apply (IH (pf_idx pf + 1) y Hasc Hsub' Hsup' Hj0 Hex' (fun q w Hq => Hitem q w (or_intror Hq)) (fun q w Hq => Hbad q w (or_intror Hq)) Hgapi Hy);
        [rewrite !app_length in *; lia|rewrite !app_length in *; lia|assumption|lia].
Qed.

Lemma map_loop2_fail j0 : forall l p cs,
  asc pf_idx p l ->
  (exists pf, In pf l /\ pf_idx pf = j0 /\ nilp vsW pf = false) ->
  (forall pf z, In pf l -> nilp vsW pf = false -> enc_field_fn recE (pf_fld pf) (pf_val vsW pf) = Some z ->
     pf_idx pf < 4294967296 /\ flat z <> [] /\
     (pf_idx pf < j0 -> reads_item c recD sR tgt (pf_idx pf) (flat (enc_tag_opt (f_tag (pf_fld pf)) ++ z))) /\
     (pf_idx pf = j0 -> item_bad j0 (flat (enc_tag_opt (f_tag (pf_fld pf)) ++ z)))) ->
  enc_map_stmts recE l vsW = Some cs ->
  forall j done fuelL r pos L, (length (flat cs ++ r) < F)%nat -> (length (flat cs ++ r) < fuelL)%nat -> L < two64 -> pos + len (flat cs) <= L ->
    exists n s', loop_n (step_map c recD sR F) j (cnt vsW l) fuelL (slots2 sR tgt done) (mkdst pos (flat cs ++ r) L) = (Err (UnknownVariant n), s').
Proof.
  induction l as [|pf l' IH]; intros p cs Hasc Hex Hitem; cbn [enc_map_stmts].
  - destruct Hex as (q & [] & _).
  - intro HH. apply ocat_some in HH as (x & y & Hx & Hy & ->). cbn [asc] in Hasc. destruct Hasc as [Hpp Hasc].
    assert (Hle0 : pf_idx pf <= j0).
    { destruct Hex as (q & [<-|Hq] & Hqi & _); [lia|]. pose proof (asc_keys_ge pf_idx _ _ _ Hasc Hq). lia. }
    unfold cnt in *. cbn [filter]. fold (nilp vsW pf) in Hx. destruct (nilp vsW pf) eqn:En; cbn [negb].
    + injection Hx as <-. cbn [app].
      assert (Hex' : exists q, In q l' /\ pf_idx q = j0 /\ nilp vsW q = false).
      { destruct Hex as (q & [<-|Hq] & Hqi & Hqn); [congruence|eauto]. }
      apply (IH (pf_idx pf + 1) y Hasc Hex' (fun q w Hq => Hitem q w (or_intror Hq)) Hy).
    + apply ocat3_some in Hx as (z & Hz & ->).
      destruct (Hitem pf z (or_introl eq_refl) En Hz) as (Hidx & Hne & Hok & Hbad).
      intros j done fuelL r pos L HF Hfl HL Hpos. rewrite len_cons.
      set (TZ := enc_tag_opt (f_tag (pf_fld pf)) ++ z) in *.
      assert (Ecs : flat (((enc_u32 (pf_idx pf) ++ enc_tag_opt (f_tag (pf_fld pf))) ++ z) ++ y) = flat (enc_u32 (pf_idx pf)) ++ flat TZ ++ flat y).
      { unfold TZ. rewrite !flat_app, <- !app_assoc. reflexivity. }
      rewrite Ecs in *. clear Ecs. rewrite <- !app_assoc in *. rewrite !len_app in Hpos. rewrite !app_length in HF, Hfl.
      destruct fuelL as [|fuel']; [lia|]. rewrite loop_n_S by lia. unfold step_map at 1.
      assert (Hp1 : pos + len (flat (enc_u32 (pf_idx pf))) <= L) by lia.
      rewrite (bind_bind_ok _ _ _ _ _ _ (dec_u32_enc (pf_idx pf) (flat TZ ++ flat y ++ r) pos L Hidx Hp1)).
      assert (HF1 : (length (flat TZ ++ flat y ++ r) < F)%nat) by (rewrite !app_length; lia).
      assert (Hp2 : pos + len (flat (enc_u32 (pf_idx pf))) + len (flat TZ) <= L) by lia.
      destruct (N.eq_dec (pf_idx pf) j0) as [E0|E0].
      * destruct (Hbad E0 done (flat y ++ r) _ L HF1 HL Hp2) as (n & s' & Hs'). exists n, s'. rewrite <- E0 in Hs'. now rewrite (bind_err _ _ _ _ _ Hs').
      * rewrite (bind_ok _ _ _ _ _ (step2 c recD F sR tgt HascR (pf_idx pf) (flat TZ) done (Hok ltac:(lia)) (flat y ++ r) _ L HF1 HL Hp2)).
        match goal with |- context [N.pred (1 + ?a)] => replace (N.pred (1 + a)) with a by lia end.
        assert (HTZ : (1 <= length (flat TZ))%nat).
        { unfold TZ. rewrite flat_app, app_length. destruct (flat z); [congruence|cbn [length]; lia]. }
        assert (Hex' : exists q, In q l' /\ pf_idx q = j0 /\ nilp vsW q = false).
        { destruct Hex as (q & [<-|Hq] & Hqi & Hqn); [contradiction|eauto]. }
        unfold TZ in *. clear TZ.
        apply (IH (pf_idx pf + 1) y Hasc Hex' (fun q w Hq => Hitem q w (or_intror Hq)) Hy);
          [rewrite !app_length in *; lia|rewrite !app_length in *; lia|assumption|lia].
Qed.
End BodyFail.

Lemma skippable_nonempty c b : skippable c b -> b <> [].
Proof.
  intros H ->. assert (H1 : 0 + len (@nil N) <= 0) by (change (len []) with 0; lia).
  specialize (H [] 0 0 ltac:(reflexivity) H1). destruct c as [[] ? ?]; vm_compute in H; discriminate.
Qed.

Lemma first_true {A} (g : A -> bool) : forall l, existsb g l = true ->
  exists l1 x l2, l = l1 ++ x :: l2 /\ g x = true /\ forallb (fun y => negb (g y)) l1 = true.
Proof.
  induction l as [|a r IH]; cbn [existsb]; [discriminate|]. destruct (g a) eqn:Ea.
  - intros _. exists [], a, r. repeat split; assumption.
  - cbn [orb]. intro H. destruct (IH H) as (l1 & x & l2 & -> & Hx & Hl1). exists (a :: l1), x, l2. cbn [forallb app]. rewrite Ea. repeat split; assumption.
Qed.

Lemma omap_list_some {A B} (g : A -> option B) (dflt : B) : forall l l', omap_list g l = Some l' ->
  (forall x, In x l -> g x <> None) /\ l' = map (fun x => match g x with Some y => y | None => dflt end) l.
Proof.
  induction l as [|a r IH]; intros l'; [intros [= <-]; split; [intros x []|reflexivity]|].
  rewrite omap_list_cons. destruct (g a) as [y|] eqn:Ea; [|discriminate]. destruct (omap_list g r) as [ys|]; [|discriminate].
  intros [= <-]. destruct (IH ys eq_refl) as [H1 H2]. split.
  - intros x [<-|Hx]; [congruence|now apply H1].
  - cbn [map]. rewrite Ea. now f_equal.
Qed.

Lemma omap_list_none {A B} (g : A -> option B) : forall l, omap_list g l = None -> exists x, In x l /\ g x = None.
Proof.
  induction l as [|a r IH]; [discriminate|]. rewrite omap_list_cons. destruct (g a) as [y|] eqn:Ea; [|intros _; exists a; split; [now left|assumption]].
  destruct (omap_list g r) as [ys|]; [discriminate|]. intros _. destruct (IH eq_refl) as (x & Hx & Hg). exists x. split; [now right|assumption].
Qed.

Lemma nil_mig_raw recM d f v : field_ok d f = true -> f_skip f = false -> fld_is_nil f v = true -> mig_raw recM f v = Some v.
Proof.
  intros Hok Hs Hn. unfold field_ok in Hok. rewrite Hs in Hok.
  apply andb_prop in Hok as [_ Hok]. apply andb_prop in Hok as [Hok Hc]. apply andb_prop in Hok as [_ Hsyn].
  unfold fld_is_nil, trait_is_nil, cust_is_nil, is_none in Hn. unfold mig_raw.
  destruct (f_codec f) as [| |[|]]; try reflexivity.
  destruct (f_ty f) as [[]| | |]; try discriminate; destruct v; try discriminate; reflexivity.
Qed.

Lemma init_resolves d q nv : field_ok d (pf_fld q) = true -> f_skip (pf_fld q) = false -> nil_of (pf_fld q) = Some nv ->
  resolve_slot q (init_slot q) = Datatypes.inl nv.
Proof.
  intros H1 H2 En. unfold resolve_slot, init_slot. rewrite En.
  destruct (f_synopt (pf_fld q)) eqn:Es; [|reflexivity].
  unfold field_ok in H1. rewrite H2 in H1. apply andb_prop in H1 as [_ H1]. apply andb_prop in H1 as [H1 Hc]. apply andb_prop in H1 as [_ Hsyn].
  rewrite Es in Hsyn. cbn in Hsyn. unfold nil_of in En. rewrite Es in En.
  destruct (f_codec (pf_fld q)) as [| |[|]]; try (rewrite Hsyn in En); try (injection En as <-; reflexivity).
  destruct (f_ty (pf_fld q)) as [[]| | |]; cbn in Hc, Hsyn; discriminate.
Qed.

Lemma omap_list_all {A B} (g : A -> option B) (dflt : B) : forall l, (forall x, In x l -> g x <> None) ->
  omap_list g l = Some (map (fun x => match g x with Some y => y | None => dflt end) l).
Proof.
  induction l as [|a r IH]; intro H; [reflexivity|]. rewrite omap_list_cons, (IH (fun x Hx => H x (or_intror Hx))).
  cbn [map]. destruct (g a) eqn:Ea; [reflexivity|]. exfalso. now apply (H a (or_introl eq_refl)).
Qed.

Lemma mig_assemble recM fsW vsW : forall fsR p,
  map (fun f => match (if f_skip f then Some (match default_fty (f_ty f) with Some dv => dv | None => VUnit end) else mig_field recM fsW vsW f) with
                | Some y => y | None => VUnit end) fsR
  = assemble_vals fsR p (fun q => match mig_field recM fsW vsW (pf_fld q) with Some y => y | None => VUnit end).
Proof.
  induction fsR as [|f r IH]; intro p; cbn [map assemble_vals pf_fld]; [reflexivity|]. f_equal; [|apply IH]. destruct (f_skip f); reflexivity.
Qed.

(* ---- one struct / variant body in two versions, nested definitions in two versions too ---- *)
Section Fields3.
Variable c : cfg.
Variable okty : ty -> Prop.
Hypothesis Hty : forall t, okty t -> forall v cs, encode_ty t v = Some cs ->
  flat cs <> [] /\ reads_f (decode_ty c t) (flat cs) v.
Variable recE : nat -> value -> option (list chunk).
Variable recD : nat -> nat -> M value.
Variable recM : nat -> value -> option value.
Variable ntr : nat -> bool.
Variable okN : nat -> value -> bool.
Hypothesis Hrec : forall d v cs, recE d v = Some cs -> okN d v = true ->
  flat cs <> [] /\ (ntr d = true -> hd_class (flat cs) = true) /\ outcome (recD d) (flat cs) (recM d v).

Theorem fields_two dW dR e sh fsW fsR vsW cs :
  fields_ok dW fsW = true -> fields_ok dR fsR = true ->
  fields_all okty fsR -> fields_rt ntr fsR = true ->
  body_compat fsW fsR -> ok_fields okN fsW vsW ->
  (* every item the writer wrote is skipped by skip() as one item, with and without its tag (C06 through C08) *)
  (forall pf z, In pf (sorted_fields fsW) -> enc_field_fn recE (pf_fld pf) (pf_val vsW pf) = Some z ->
     skippable c (flat z) /\ skippable c (flat (enc_tag_opt (f_tag (pf_fld pf)) ++ z))) ->
  enc_fields recE e fsW vsW = Some cs ->
  outcome (dec_body c recD e sh fsR) (flat cs) (option_map VList (mig_fields recM fsW vsW fsR)).
Proof.
  intros HokW HokR HallR HrtR [Hshared Hronly] HokV Hsk He.
  pose proof He as He'. unfold enc_fields in He'. destruct (Nat.eqb (length vsW) (length fsW)) eqn:El; [|discriminate]. apply Nat.eqb_eq in El.
  set (LW := sorted_fields fsW) in *. set (sR := sorted_fields fsR) in *. set (dl := decl fsW vsW).
  pose proof (sorted_fields_asc dW fsW HokW) as HascW. fold LW in HascW.
  pose proof (sorted_fields_asc dR fsR HokR) as HascR. fold sR in HascR.
  pose proof (decl_perm fsW vsW El) as Hperm. fold LW dl in Hperm.
  assert (Hnd : NoDup (map fkey dl)).
  { eapply Permutation_NoDup; [apply Permutation_map; symmetry; exact Hperm|]. rewrite map_map. apply (asc_nodup pf_idx 0 LW HascW). }
  assert (HsomeW : forall pf, In pf LW -> at_index dl (pf_idx pf) = Some (fv vsW pf)).
  { intros pf Hpf. apply (at_index_unique dl (fv vsW pf) Hnd). eapply Permutation_in; [symmetry; exact Hperm|]. now apply in_map. }
  assert (HnoneW : forall j, (forall pf, In pf LW -> pf_idx pf <> j) -> at_index dl j = None).
  { intros j Hj. apply at_index_none. intros x Hx E. eapply Permutation_in in Hx; [|exact Hperm].
    apply in_map_iff in Hx as (pf & <- & Hpf). apply (Hj pf Hpf). exact E. }
  assert (HfR : forall q, In q sR -> In (pf_fld q) fsR /\ field_ok dR (pf_fld q) = true /\ f_skip (pf_fld q) = false /\ fty_all okty (f_ty (pf_fld q)) /\ fty_rt ntr (f_ty (pf_fld q)) = true).
  { intros q Hq. apply in_sorted_fields in Hq as [Hin Hs]. unfold fields_ok in HokR. apply andb_prop in HokR as [H1 _].
    rewrite forallb_forall in H1. unfold fields_all in HallR. rewrite Forall_forall in HallR. unfold fields_rt in HrtR. rewrite forallb_forall in HrtR. auto 6. }
  assert (HfW : forall w, In w LW -> In (pf_fld w) fsW /\ field_ok dW (pf_fld w) = true /\ f_skip (pf_fld w) = false).
  { intros w Hw. apply in_sorted_fields in Hw as [Hin Hs]. unfold fields_ok in HokW. apply andb_prop in HokW as [H1 _].
    rewrite forallb_forall in H1. auto. }
  set (tgt := fun q : pfield => match at_index dl (f_idx (pf_fld q)) with
                                | Some (_, v) => match mig_raw recM (pf_fld q) v with Some x => Some x | None => init_slot q end
                                | None => if has_tag (pf_fld q) then init_slot q else Some (nil_or_unit (pf_fld q))
                                end).
  (* a writer field whose value the reader's field with the same index cannot read and does not catch *)
  set (badb := fun w : pfield => match find_field sR (pf_idx w) 0 with
                                 | Some (_, q) => match mig_raw recM (pf_fld q) (pf_val vsW w) with
                                                  | Some _ => false | None => negb (has_handler (pf_fld q)) end
                                 | None => false
                                 end).
  (* what the writer wrote for one of its fields, seen by the reader *)
  assert (Hitem : forall pf z, In pf LW -> enc_field_fn recE (pf_fld pf) (pf_val vsW pf) = Some z ->
            flat z <> [] /\
            (badb pf = false -> reads_item c recD sR tgt (pf_idx pf) (flat (enc_tag_opt (f_tag (pf_fld pf)) ++ z))) /\
            (badb pf = true -> forall F, item_bad c recD F sR tgt (pf_idx pf) (flat (enc_tag_opt (f_tag (pf_fld pf)) ++ z)))).
  { intros pf z Hpf Hz. destruct (HfW pf Hpf) as (HinW & HokWf & HsW). destruct (Hsk pf z Hpf Hz) as [Hskz Hsktz].
    split; [rewrite flat_app in Hsktz; apply skippable_nonempty in Hskz; exact Hskz|].
    unfold reads_item, item_bad, badb, step_at.
    destruct (find_field sR (pf_idx pf) 0) as [[k q]|] eqn:Ef.
    - apply find_field_in in Ef as [Hq Hqi]. destruct (HfR q Hq) as (HinR & H1 & H2 & H3 & H4).
      assert (Eer : eraseb (pf_fld pf) = eraseb (pf_fld q)) by (apply Hshared; auto).
      rewrite (enc_field_erase recE _ _ _ Eer) in Hz.
      assert (Hokq : ok_raw okN (pf_fld q) (pf_val vsW pf) = true).
      { pose proof (HokV pf Hpf) as Ho. unfold ok_raw in *. destruct (eraseb_proj _ _ Eer) as (_ & _ & <- & _ & <-). exact Ho. }
      destruct (field_action_two c okty Hty recE recD recM ntr okN Hrec dR (pf_fld q) (pf_val vsW pf) z H1 H2 H3 H4 Hz Hokq Hskz) as [Hne Hact].
      destruct (eraseb_proj _ _ Eer) as (_ & -> & _). unfold action_outcome in Hact.
      assert (Hat : at_index dl (f_idx (pf_fld q)) = Some (fv vsW pf)).
      { replace (f_idx (pf_fld q)) with (pf_idx pf) by (symmetry; exact Hqi). now apply HsomeW. }
      destruct (mig_raw recM (pf_fld q) (pf_val vsW pf)) as [x|] eqn:Er.
      + split; [|discriminate]. intros _. exists (Some x). split; [exact Hact|]. cbn [upd]. unfold tgt. rewrite Hat. cbn [fv]. now rewrite Er.
      + destruct (has_handler (pf_fld q)); cbn [negb].
        * split; [|discriminate]. intros _. exists None. split; [exact Hact|]. cbn [upd]. unfold tgt. rewrite Hat. cbn [fv]. now rewrite Er.
        * split; [discriminate|]. intros _ F done r p L HF HL Hp.
          destruct (Hact F r p L HF HL Hp) as (n & s' & Hs'). exists n, s'. now rewrite (bind_err _ _ _ _ _ Hs').
    - split; [|discriminate]. intros _. exact Hsktz. }
  assert (Hgap : e = AsArray -> forall j, (forall q, In q LW -> pf_idx q <> j) -> reads_item c recD sR tgt j [246]).
  { intros _ j Hj. unfold reads_item. destruct (find_field sR j 0) as [[k q]|] eqn:Ef.
    + apply find_field_in in Ef as [Hq Hqi]. destruct (HfR q Hq) as (HinR & H1 & H2 & H3 & H4).
      assert (Hnil : nil_of (pf_fld q) <> None).
      { apply (Hronly (pf_fld q) HinR H2). intros fW HfWin HfWs E. apply In_nth_error in HfWin as [kk Hkk].
        apply (Hj (mkpf kk fW) (in_sorted_nth fsW kk fW Hkk HfWs)). unfold pf_idx. cbn [pf_fld]. rewrite E. exact Hqi. }
      destruct (nil_of (pf_fld q)) as [nv|] eqn:En; [|congruence].
      exists (if has_tag (pf_fld q) then None else Some nv). split; [apply (nil_reads c okty Hty recD dR (pf_fld q) nv H1 H2 H3 En)|].
      unfold tgt, nil_or_unit. rewrite HnoneW.
      2:{ intros w Hw E. apply (Hj w Hw). rewrite E. exact Hqi. }
      rewrite En. destruct (has_tag (pf_fld q)); reflexivity.
    + intros r p L HL Hp. change ([246] ++ r) with (246 :: r). now rewrite skip_null. }
  destruct (existsb badb LW) eqn:Ebad.
  - (* some item aborts the reader's loop: the first such *)
    apply first_true in Ebad as (l1 & w & l2 & Esf & Hwb & Hl1).
    assert (Hw : In w LW) by (rewrite Esf; apply in_or_app; right; now left).
    destruct (HfW w Hw) as (HinW & HokWf & HsW).
    assert (Hbefore : forall pf, In pf LW -> pf_idx pf < pf_idx w -> badb pf = false).
    { intros pf Hpf Hlt. rewrite Esf in Hpf. apply in_app_or in Hpf as [Hpf|[<-|Hpf]].
      - rewrite forallb_forall in Hl1. specialize (Hl1 pf Hpf). now apply negb_true_iff in Hl1.
      - lia.
      - rewrite Esf in HascW. exfalso. clear -HascW Hpf Hlt. revert HascW. generalize 0. induction l1 as [|a l1 IH]; intros p0 Ha; cbn [app asc] in Ha.
        + destruct Ha as [_ Ha]. pose proof (asc_keys_ge pf_idx _ _ _ Ha Hpf). lia.
        + destruct Ha as [_ Ha]. exact (IH _ Ha). }
    (* w's reader field and the value it cannot read *)
    assert (Hwq : exists q, In q sR /\ pf_idx q = pf_idx w /\ mig_raw recM (pf_fld q) (pf_val vsW w) = None /\ has_handler (pf_fld q) = false).
    { unfold badb in Hwb. destruct (find_field sR (pf_idx w) 0) as [[k q]|] eqn:Ef; [|discriminate].
      apply find_field_in in Ef as [Hq Hqi]. exists q. destruct (mig_raw recM (pf_fld q) (pf_val vsW w)); [discriminate|].
      apply negb_true_iff in Hwb. auto. }
    destruct Hwq as (q & Hq & Hqi & Hraw & Hnh). destruct (HfR q Hq) as (HinR & H1 & H2 & H3 & H4).
    assert (Eer : eraseb (pf_fld w) = eraseb (pf_fld q)) by (apply Hshared; auto).
    assert (Hwn : nilp vsW w = false).
    { destruct (nilp vsW w) eqn:En; [|reflexivity]. unfold nilp in En. rewrite (nil_erase _ _ _ Eer) in En.
      rewrite (nil_mig_raw recM dR _ _ H1 H2 En) in Hraw. discriminate. }
    (* the migrated value is None *)
    assert (Hmig : mig_fields recM fsW vsW fsR = None).
    { destruct (mig_fields recM fsW vsW fsR) as [l'|] eqn:Em; [|reflexivity]. exfalso.
      destruct (omap_list_some _ VUnit _ _ Em) as [Hall _]. apply (Hall (pf_fld q) HinR). rewrite H2.
      unfold mig_field. fold dl. replace (f_idx (pf_fld q)) with (pf_idx w) by (symmetry; exact Hqi). rewrite (HsomeW w Hw). cbn [fv].
      unfold mig_value. now rewrite Hraw, Hnh. }
    rewrite Hmig. cbn [option_map outcome].
    intros fuel r p L Hfu HL Hp. unfold dec_body.
    assert (Hst : exists n s', dec_statements c recD e sR fuel (mkdst p (flat cs ++ r) L) = (Err (UnknownVariant n), s')).
    { assert (HidxW : forall pf, In pf LW -> pf_idx pf < 4294967296).
      { intros pf Hpf. destruct (HfW pf Hpf) as (_ & F1 & F2). unfold field_ok in F1. rewrite F2 in F1.
        apply andb_prop in F1 as [_ F1]. apply andb_prop in F1 as [F1 _]. apply andb_prop in F1 as [F1 _]. apply andb_prop in F1 as [F1 _].
        apply N.leb_le in F1. unfold idx_max, pf_idx in *. lia. }
      assert (Hinit : map init_slot sR = slots2 sR tgt (fun _ => false)) by reflexivity.
      destruct e.
      - unfold enc_as_array in He'. pose proof (max_index_bound LW vsW 0 HascW) as Hb.
        destruct (max_index LW vsW None) as [i|] eqn:Em; [|rewrite (Hb w Hw) in Hwn; discriminate].
        apply ocat3_some in He' as (y & Hy & ->). rewrite enc_array_stmts_eq in Hy.
        rewrite flat_app, <- app_assoc in *. rewrite len_app in Hp.
        pose proof (Hb w Hw Hwn) as Hwi.
        assert (Hi : i + 1 < two64).
        { apply max_index_some in Em as [[_ ?]|(l1' & pf & l2' & Esf' & _ & Hpi & _)]; [discriminate|].
          assert (Hpf : In pf LW) by (rewrite Esf'; apply in_or_app; right; now left). pose proof (HidxW pf Hpf). unfold two64. lia. }
        unfold dec_statements.
        assert (Hp0 : p + len (flat (enc_array (i + 1))) <= L) by lia.
        rewrite (bind_ok _ _ _ _ _ (dec_array_enc (i + 1) (flat y ++ r) p L Hi Hp0)). rewrite Hinit.
        rewrite (slots2_ext sR tgt (fun _ => false) (fun q0 => pf_idx q0 <? 0)) by (intros q0 _; symmetry; apply N.ltb_ge; lia).
        assert (Hlen : (length (flat y ++ r) <= length (flat (enc_array (i + 1)) ++ flat y ++ r))%nat) by (rewrite (app_length (flat (enc_array (i + 1)))); lia).
        assert (Hi1 : forall pf z, In pf LW -> pf_idx pf < pf_idx w -> enc_field_fn recE (pf_fld pf) (pf_val vsW pf) = Some z ->
                  flat z <> [] /\ reads_item c recD sR tgt (pf_idx pf) (flat (enc_tag_opt (f_tag (pf_fld pf)) ++ z))).
        { intros pf z Hpf Hlt Hz. destruct (Hitem pf z Hpf Hz) as (Hne & Hok & _). split; [assumption|]. apply Hok. now apply Hbefore. }
        assert (Hi2 : forall pf z, In pf LW -> pf_idx pf = pf_idx w -> enc_field_fn recE (pf_fld pf) (pf_val vsW pf) = Some z ->
                  item_bad c recD fuel sR tgt (pf_idx w) (flat (enc_tag_opt (f_tag (pf_fld pf)) ++ z))).
        { intros pf z Hpf Heq Hz. assert (pf = w) by (eapply nodup_key_eq; [apply (asc_nodup pf_idx 0 LW HascW)| | |]; assumption). subst pf.
          destruct (Hitem w z Hw Hz) as (_ & _ & Hbd). exact (Hbd Hwb fuel). }
        pose proof (arr_loop2_fail c recE recD fuel sR vsW tgt HascR LW i (pf_idx w) LW 0 y HascW (fun q0 Hq0 => Hq0) (fun q0 Hq0 _ => Hq0) Hwi
                 (ex_intro _ w (conj Hw eq_refl)) Hi1 Hi2 (fun j _ Hj => Hgap eq_refl j Hj) Hy fuel r (p + len (flat (enc_array (i + 1)))) L) as Hf.
        rewrite N.sub_0_r in Hf. apply Hf; [lia|lia|assumption|lia].
      - unfold enc_as_map in He'. apply ocat3_some in He' as (y & Hy & ->).
        pose proof (max_fields_cnt vsW LW 0) as Hm. rewrite !N.add_0_l in Hm. rewrite Hm in *.
        rewrite flat_app, <- app_assoc in *. rewrite len_app in Hp.
        assert (Hc : cnt vsW LW < two64).
        { pose proof (cnt_le vsW LW) as Hc. assert (Hidx : forall q0, In q0 LW -> pf_idx q0 <= idx_max).
          { intros q0 Hq0. pose proof (HidxW q0 Hq0). destruct (HfW q0 Hq0) as (_ & F1 & F2). unfold field_ok in F1. rewrite F2 in F1.
            apply andb_prop in F1 as [_ F1]. apply andb_prop in F1 as [F1 _]. apply andb_prop in F1 as [F1 _]. apply andb_prop in F1 as [F1 _]. now apply N.leb_le in F1. }
          pose proof (asc_len_le idx_max LW 0 HascW Hidx) as Hlen. unfold idx_max, two64 in *. lia. }
        unfold dec_statements.
        assert (Hp0 : p + len (flat (enc_map (cnt vsW LW))) <= L) by lia.
        rewrite (bind_ok _ _ _ _ _ (dec_map_enc (cnt vsW LW) (flat y ++ r) p L Hc Hp0)). rewrite Hinit.
        assert (Hlen : (length (flat y ++ r) <= length (flat (enc_map (cnt vsW LW)) ++ flat y ++ r))%nat) by (rewrite (app_length (flat (enc_map (cnt vsW LW)))); lia).
        apply (map_loop2_fail c recE recD fuel sR vsW tgt HascR (pf_idx w) LW 0 y HascW (ex_intro _ w (conj Hw (conj eq_refl Hwn)))); [|exact Hy|lia|lia|assumption|lia].
        intros pf z Hpf _ Hz. destruct (Hitem pf z Hpf Hz) as (Hne & Hok & Hbd). split; [now apply HidxW|]. split; [assumption|]. split.
        + intro Hlt. apply Hok. now apply Hbefore.
        + intro Heq. assert (pf = w) by (eapply nodup_key_eq; [apply (asc_nodup pf_idx 0 LW HascW)| | |]; assumption). subst pf. exact (Hbd Hwb fuel). }
    destruct Hst as (n & s' & Hs'). exists n, s'. now rewrite (bind_err _ _ _ _ _ Hs').
  - (* every item is read (or skipped): the reader's body decoder returns the migrated value *)
    assert (Hnb : forall pf, In pf LW -> badb pf = false).
    { intros pf Hpf. destruct (badb pf) eqn:Eb; [|reflexivity]. assert (existsb badb LW = true); [|congruence].
      apply existsb_exists. eauto. }
    (* the writer field behind a reader field that both versions know *)
    assert (Hpair : forall q fW v, In q sR -> at_index dl (f_idx (pf_fld q)) = Some (fW, v) ->
              (exists x, mig_raw recM (pf_fld q) v = Some x) \/ (mig_raw recM (pf_fld q) v = None /\ has_handler (pf_fld q) = true)).
    { intros q fW v Hq Eat. destruct (HfR q Hq) as (HinR & H1 & H2 & H3 & H4).
      apply at_index_in in Eat as [Hin Hidx]. eapply Permutation_in in Hin; [|exact Hperm].
      apply in_map_iff in Hin as (w & Ew & Hw). unfold fv in Ew. injection Ew as Ef Ev. subst fW v.
      destruct (HfW w Hw) as (HinW & HokWf & HsW).
      assert (Eer : eraseb (pf_fld w) = eraseb (pf_fld q)) by (apply Hshared; auto).
      pose proof (Hnb w Hw) as Hb. unfold badb in Hb.
      destruct (find_field_some sR (pf_idx w) 0%nat q Hq ltac:(unfold pf_idx; now symmetry)) as (k & q' & Hfind). rewrite Hfind in Hb.
      apply find_field_in in Hfind as [Hq' Hqi'].
      assert (q' = q) by (eapply nodup_key_eq; [apply (asc_nodup pf_idx 0 sR HascR)| | |]; [assumption|assumption|unfold pf_idx in *; lia]). subst q'.
      destruct (mig_raw recM (pf_fld q) (pf_val vsW w)) as [x|] eqn:Er.
      - left. eauto.
      - right. split; [reflexivity|]. now apply negb_false_iff in Hb. }
    set (rv := fun q : pfield => match mig_field recM fsW vsW (pf_fld q) with Some y => y | None => VUnit end).
    assert (Hres : forall q, In q sR -> mig_field recM fsW vsW (pf_fld q) <> None /\
              resolve_slot q (if met e LW vsW q then tgt q else init_slot q) = Datatypes.inl (rv q)).
    { intros q Hq. destruct (HfR q Hq) as (HinR & H1 & H2 & H3 & H4). unfold rv, tgt, mig_field. fold dl.
      destruct (at_index dl (f_idx (pf_fld q))) as [[fW v]|] eqn:Eat.
      - unfold mig_value.
        assert (Hnilcase : met e LW vsW q = false -> mig_raw recM (pf_fld q) v = Some v /\ resolve_slot q (init_slot q) = Datatypes.inl v).
        { intro Em. pose proof Eat as Eat'. apply at_index_in in Eat' as [Hin Hidx]. eapply Permutation_in in Hin; [|exact Hperm].
          apply in_map_iff in Hin as (w & Ew & Hw). unfold fv in Ew. injection Ew as Ef Ev. subst fW v.
          destruct (HfW w Hw) as (HinW & HokWf & HsW).
          assert (Eer : eraseb (pf_fld w) = eraseb (pf_fld q)) by (apply Hshared; auto).
          assert (Hnilw : nilp vsW w = true).
          { unfold met in Em. destruct e.
            - pose proof (max_index_bound LW vsW 0 HascW) as Hb. destruct (max_index LW vsW None) as [i|]; [|now apply Hb].
              destruct (nilp vsW w) eqn:En; [reflexivity|]. specialize (Hb w Hw En). apply N.leb_gt in Em. unfold pf_idx in *. lia.
            - destruct (nilp vsW w) eqn:En; [reflexivity|]. exfalso.
              assert (existsb (fun w0 => (pf_idx w0 =? pf_idx q) && negb (nilp vsW w0)) LW = true); [|congruence].
              apply existsb_exists. exists w. split; [assumption|]. rewrite En. cbn [negb]. rewrite andb_true_r. apply N.eqb_eq. exact Hidx. }
          unfold nilp in Hnilw. rewrite (nil_erase _ _ _ Eer) in Hnilw.
          split; [apply (nil_mig_raw recM dR _ _ H1 H2 Hnilw)|].
          destruct (nil_slot (fun _ x => x) dR (pf_pos q) (pf_fld q) (pf_val vsW w) H1 H2 Hnilw) as [Hr _].
          destruct q as [qp qf]. cbn [pf_pos pf_fld] in *. exact Hr. }
        destruct (met e LW vsW q) eqn:Em.
        + destruct (Hpair q fW v Hq Eat) as [[x Hx]|[Hn Hh]].
          * rewrite Hx. split; [discriminate|reflexivity].
          * rewrite Hn, Hh. split; [discriminate|].
            pose proof (nil_of_handler dR (pf_fld q) H1 H2 Hh) as Hnil. unfold nil_or_unit.
            destruct (nil_of (pf_fld q)) as [nv|] eqn:En; [|congruence]. now apply (init_resolves dR).
        + destruct (Hnilcase eq_refl) as [Hr Hs]. rewrite Hr. split; [discriminate|exact Hs].
      - assert (Hnil : nil_of (pf_fld q) <> None).
        { apply (Hronly (pf_fld q) HinR H2). intros fW HfWin HfWs E. apply In_nth_error in HfWin as [kk Hkk].
          pose proof (HsomeW (mkpf kk fW) (in_sorted_nth fsW kk fW Hkk HfWs)) as Hsm. unfold pf_idx in Hsm. cbn [pf_fld] in Hsm. rewrite E in Hsm. congruence. }
        split; [discriminate|]. unfold nil_or_unit. destruct (nil_of (pf_fld q)) as [nv|] eqn:En; [|congruence].
        pose proof (init_resolves dR q nv H1 H2 En) as Ginit.
        destruct (met e LW vsW q), (has_tag (pf_fld q)); try exact Ginit; unfold resolve_slot; reflexivity. }
    assert (Hmig : mig_fields recM fsW vsW fsR = Some (assemble_vals fsR 0 rv)).
    { unfold mig_fields. rewrite (omap_list_all _ VUnit).
      - f_equal. apply mig_assemble.
      - intros f Hf. destruct (f_skip f) eqn:Es; [discriminate|].
        apply In_nth_error in Hf as [kk Hkk]. pose proof (in_sorted_nth fsR kk f Hkk Es) as Hq. fold sR in Hq.
        destruct (Hres _ Hq) as [Hne _]. exact Hne. }
    rewrite Hmig. cbn [option_map outcome].
    apply (dec_fields2 c recE recD dW dR e sh fsW fsR vsW cs tgt rv HokW HokR); [| | |exact He]; fold LW sR.
    + intros pf z Hpf Hz. destruct (Hitem pf z Hpf Hz) as (Hne & Hok & _). split; [assumption|]. apply Hok. now apply Hnb.
    + exact Hgap.
    + intros q Hq. now destruct (Hres q Hq).
Qed.
End Fields3.

(* ---- a whole definition in two versions ---- *)
Lemma enc_fields_hd recE e fs vs cs : enc_fields recE e fs vs = Some cs -> flat cs <> [] /\ hd_class (flat cs) = true.
Proof.
  unfold enc_fields. destruct (Nat.eqb (length vs) (length fs)); [|discriminate]. destruct e.
  - unfold enc_as_array. destruct (max_index (sorted_fields fs) vs None).
    + intro H. apply ocat3_some in H as (y & _ & ->). rewrite flat_app. split; [|apply hd_class_type_len; now left].
      unfold enc_array, type_len; repeat match goal with |- context [if ?a then _ else _] => destruct a end; discriminate.
    + intros [= <-]. split; [discriminate|reflexivity].
  - unfold enc_as_map. intro H. apply ocat3_some in H as (y & _ & ->). rewrite flat_app. split; [|apply hd_class_type_len; right; now left].
    unfold enc_map, type_len; repeat match goal with |- context [if ?a then _ else _] => destruct a end; discriminate.
Qed.

Section Def3.
Variable c : cfg.
Variable okty : ty -> Prop.
Hypothesis Hty : forall t, okty t -> forall v cs, encode_ty t v = Some cs ->
  flat cs <> [] /\ reads_f (decode_ty c t) (flat cs) v.
Variable recE : nat -> value -> option (list chunk).
Variable recD : nat -> nat -> M value.
Variable recM : nat -> value -> option value.
Variable ntr : nat -> bool.
Variable okN : nat -> value -> bool.
Hypothesis Hrec : forall d v cs, recE d v = Some cs -> okN d v = true ->
  flat cs <> [] /\ (ntr d = true -> hd_class (flat cs) = true) /\ outcome (recD d) (flat cs) (recM d v).

Lemma outcome_map {A B} (g : A -> B) (m : nat -> M A) (m' : nat -> M B) b o :
  (forall fuel s, m' fuel s = fmap g (m fuel) s) -> outcome m b o -> outcome m' b (option_map g o).
Proof.
  intros E H. destruct o as [a|]; cbn [option_map outcome] in *.
  - intros fuel r p L H1 H2 H3. rewrite E. now apply fmap_ok, H.
  - intros fuel r p L H1 H2 H3. destruct (H fuel r p L H1 H2 H3) as (n & s' & Hs'). exists n, s'. rewrite E. now apply fmap_err.
Qed.

(* a prefix the reader's decoder steps over (tags, the enum's array(2) and index) in front of a two-outcome decoder *)
Lemma outcome_prefix {A} (pre : M unit) (m m' : nat -> M A) (pb b : bytes) o :
  (forall fuel s, m' fuel s = (pre ;;; m fuel) s) ->
  (forall r p L, p + len pb <= L -> pre (mkdst p (pb ++ r) L) = (Ok tt, mkdst (p + len pb) r L)) ->
  outcome m b o -> outcome m' (pb ++ b) o.
Proof.
  intros E Hpre H. destruct o as [a|]; cbn [outcome] in *.
  - intros fuel r p L H1 H2 H3. rewrite E, <- app_assoc. rewrite len_app in H3. rewrite (bind_ok _ _ _ _ _ (Hpre (b ++ r) p L ltac:(lia))).
    rewrite H; [|rewrite <- app_assoc, app_length in H1; lia|assumption|lia]. f_equal. f_equal. rewrite len_app. lia.
  - intros fuel r p L H1 H2 H3. rewrite E, <- app_assoc. rewrite len_app in H3. rewrite (bind_ok _ _ _ _ _ (Hpre (b ++ r) p L ltac:(lia))).
    apply H; [rewrite <- app_assoc, app_length in H1; lia|assumption|lia].
Qed.

Lemma tag_prefix t r p L : tag_ok t = true -> p + len (flat (enc_tag_opt t)) <= L ->
  dec_tag_check t (mkdst p (flat (enc_tag_opt t) ++ r) L) = (Ok tt, mkdst (p + len (flat (enc_tag_opt t))) r L).
Proof. intros. now apply dec_tag_check_enc. Qed.

Theorem def_two d dfW dfR v cs :
  def_ok d dfW = true -> def_ok d dfR = true -> def_all okty dfR -> def_rt_local ntr dfR = true ->
  def_compat dfW dfR -> ok_def okN dfW v -> def_skippable c recE dfW v ->
  enc_def recE dfW v = Some cs ->
  flat cs <> [] /\ (def_ntr dfR = true -> hd_class (flat cs) = true) /\ outcome (dec_def c recD dfR) (flat cs) (mig_def recM dfW dfR v).
Proof.
  intros HokW HokR Hall Hrt Hcomp HokV Hsk He.
  destruct dfW as [eW tagW trW shW fsW|eW tagW ioW varsW], dfR as [eR tagR trR shR fsR|eR tagR ioR varsR]; try contradiction.
  - destruct v as [| | | | | | | |vs|]; try discriminate. cbn [enc_def dec_def mig_def def_ok def_all def_rt_local def_ntr def_compat def_skippable ok_def] in *.
    destruct Hcomp as (<- & <- & Hcomp).
    apply andb_prop in HokW as [HokW HtrW]. apply andb_prop in HokW as [HokW _]. apply andb_prop in HokW as [HtagW HfsW].
    apply andb_prop in HokR as [HokR HtrR]. apply andb_prop in HokR as [HokR _]. apply andb_prop in HokR as [_ HfsR].
    destruct trW.
    + destruct Hcomp as (fW & fR & -> & -> & Eer). destruct tagW; [discriminate|].
      unfold sorted_fields, active in *. cbn [with_pos filter pf_fld] in *. rewrite HtrW, HtrR in *. cbn [sort_by insert_by] in *.
      destruct vs as [|x [|? ?]]; try discriminate. apply negb_true_iff in HtrW, HtrR.
      unfold fields_ok in HfsR. apply andb_prop in HfsR as [HfsR _]. cbn [forallb] in HfsR. apply andb_prop in HfsR as [Hf _].
      unfold fields_all in Hall. apply Forall_inv in Hall. unfold fields_rt in Hrt. cbn [forallb] in Hrt. apply andb_prop in Hrt as [Hrt _].
      cbn [pf_fld] in He. change (pf_val [x] (mkpf 0 fW)) with x in He. rewrite (enc_field_erase recE _ _ _ Eer) in He.
      assert (Hokx : ok_raw okN fR x = true).
      { assert (Hin0 : In (mkpf 0 fW) (sorted_fields [fW])) by (unfold sorted_fields, active; cbn [with_pos filter pf_fld]; rewrite HtrW; cbn; now left).
        pose proof (HokV _ Hin0) as Ho. unfold ok_raw in *. cbn [pf_fld] in Ho. change (pf_val [x] (mkpf 0 fW)) with x in Ho.
        destruct (eraseb_proj _ _ Eer) as (_ & _ & <- & _ & <-). exact Ho. }
      destruct (field_fn_two c okty Hty recE recD recM ntr okN Hrec d fR x cs Hf HtrR Hall Hrt He Hokx) as [Hne Hout].
      split; [assumption|]. split; [discriminate|]. cbn [pf_fld].
      apply (outcome_map (fun y => VList [y]) (dec_field_fn c recD fR)); [|exact Hout].
      intros fuel s. cbn [dec_def]. unfold sorted_fields, active. cbn [with_pos filter pf_fld]. rewrite HtrR. cbn [negb sort_by insert_by pf_fld]. reflexivity.
    + destruct Hcomp as [Eenc Hbc]. apply ocat3_some in He as (y & Hy & ->). rewrite flat_app.
      destruct (enc_fields_hd _ _ _ _ _ Hy) as [Hne Hhd].
      split; [now apply flat_tag_nonempty|]. split; [intros _; now apply hd_class_tagged|].
      rewrite Eenc in Hy.
      pose proof (fields_two c okty Hty recE recD recM ntr okN Hrec d d (struct_encoding eR) shR fsW fsR vs y HfsW HfsR Hall Hrt Hbc HokV Hsk Hy) as Hout.
      apply (outcome_prefix (dec_tag_check tagW) (dec_body c recD (struct_encoding eR) shR fsR)); [intros; reflexivity| |exact Hout].
      intros r p L Hp. now apply tag_prefix.
  - destruct v as [| | | | | | | | |i [| | | | | | | |vs|]]; try discriminate. cbn [enc_def dec_def mig_def def_ok def_all def_rt_local def_ntr def_compat def_skippable ok_def] in *.
    destruct Hcomp as (<- & <- & Hcomp).
    destruct (find_variant varsW i) as [vaW|] eqn:EfW; [|discriminate].
    pose proof (find_variant_in _ _ _ EfW) as [HinW HiW].
    apply andb_prop in HokW as [HokW _]. apply andb_prop in HokW as [HokW HvsW]. apply andb_prop in HokW as [HtagW HioW].
    apply andb_prop in HokR as [HokR _]. apply andb_prop in HokR as [HokR HvsR]. 
    rewrite forallb_forall in HvsW. specialize (HvsW vaW HinW).
    unfold variant_ok in HvsW. apply andb_prop in HvsW as [HvsW HshW]. apply andb_prop in HvsW as [HvsW HfsW]. apply andb_prop in HvsW as [HviW HvtW].
    apply N.leb_le in HviW. rewrite HiW in HviW. assert (Hi32 : i < 4294967296) by (unfold idx_max in HviW; lia).
    apply ocat3_some in He as (y & Hy & ->). rewrite flat_app.
    (* the reader's decoder after the type-level tag *)
    set (inner := fun fuel => (if ioW then ret tt else r <- dec_array ;; match r with Some n => if n =? 2 then ret tt else fail Message | None => fail Message end) ;;;
                  j <- dec_u32 ;;
                  match find_variant varsR j with
                  | None => fail (UnknownVariant j)
                  | Some va0 =>
                      if is_unit (v_shape va0) then
                        if ioW then ret (VVar j (VList []))
                        else dec_tag_check (v_tag va0) ;;; skip_auto c ;;; ret (VVar j (VList []))
                      else dec_tag_check (v_tag va0) ;;; v0 <- dec_body c recD (variant_encoding eR va0) (v_shape va0) (v_fields va0) fuel ;; ret (VVar j v0)
                  end).
    (* the enum's array(2) and index *)
    set (pre := (if ioW then (nil : list chunk) else enc_array 2) ++ enc_u32 i).
    assert (Hpre : forall (k : N -> M value) r p L, p + len (flat pre) <= L ->
              ((if ioW then ret tt else r0 <- dec_array ;; match r0 with Some n => if n =? 2 then ret tt else fail Message | None => fail Message end) ;;;
               j <- dec_u32 ;; k j) (mkdst p (flat pre ++ r) L) = k i (mkdst (p + len (flat pre)) r L)).
    { intros k r p L Hp. unfold pre in *. rewrite flat_app, <- app_assoc in *. rewrite len_app in Hp. destruct ioW.
      - cbn [flat concat app] in *. change (len []) with 0 in *. unfold bind at 1. unfold ret at 1.
        rewrite (bind_ok _ _ _ _ _ (dec_u32_enc i r p L Hi32 ltac:(lia))). repeat f_equal; try lia.
      - assert (H2 : 2 < two64) by reflexivity.
        rewrite (bind_bind_ok _ _ _ _ _ _ (dec_array_enc 2 _ p L H2 ltac:(lia))). cbv beta iota. change (2 =? 2) with true. cbv iota.
        unfold bind at 1. cbn [ret].
        assert (Hp2 : p + len (flat (enc_array 2)) + len (flat (enc_u32 i)) <= L) by lia.
        rewrite (bind_ok _ _ _ _ _ (dec_u32_enc i r _ L Hi32 Hp2)). f_equal. f_equal. rewrite len_app. lia. }
    assert (Goal1 : flat y <> [] /\ hd_class (flat y) = true /\
              outcome inner (flat y)
                match find_variant varsR i with
                | Some vaR => if is_unit (v_shape vaR) then Some (VVar i (VList []))
                              else option_map (fun l => VVar i (VList l)) (mig_fields recM (v_fields vaW) vs (v_fields vaR))
                | None => None
                end).
    { (* the bytes after the type-level tag: pre ++ variant tag ++ body *)
      assert (Hshape : exists body, y = pre ++ body /\
                (ioW = true -> body = []) /\
                (ioW = false -> exists bd, body = enc_tag_opt (v_tag vaW) ++ bd /\
                   (if is_unit (v_shape vaW) then bd = match variant_encoding eW vaW with AsArray => enc_array 0 | AsMap => enc_map 0 end /\ vs = []
                    else enc_fields recE (variant_encoding eW vaW) (v_fields vaW) vs = Some bd))).
      { unfold pre. destruct (is_unit (v_shape vaW)) eqn:Eu.
        - destruct vs; [|discriminate]. destruct ioW.
          + injection Hy as <-. exists []. rewrite app_nil_r. split; [reflexivity|]. split; [reflexivity|discriminate].
          + apply (f_equal (fun o => match o with Some x => x | None => [] end)) in Hy. cbv beta iota in Hy. subst y.
            eexists. rewrite <- app_assoc. split; [reflexivity|]. split; [discriminate|]. intros _. eexists. split; [reflexivity|]. split; reflexivity.
        - destruct ioW; [discriminate|]. apply ocat3_some in Hy as (z & Hz & ->).
          exists (enc_tag_opt (v_tag vaW) ++ z). rewrite <- !app_assoc. split; [reflexivity|]. split; [discriminate|]. intros _. eauto. }
      destruct Hshape as (body & -> & Hb1 & Hb2).
      assert (Hne : flat (pre ++ body) <> [] /\ hd_class (flat (pre ++ body)) = true).
      { rewrite flat_app. unfold pre. destruct ioW.
        - cbn [app]. split; [|apply hd_class_u32].
          unfold enc_u32; repeat match goal with |- context [if ?a then _ else _] => destruct a end; discriminate.
        - rewrite flat_app, <- !app_assoc. split; [|apply hd_class_type_len; now left].
          unfold enc_array, type_len; repeat match goal with |- context [if ?a then _ else _] => destruct a end; discriminate. }
      split; [apply Hne|]. split; [apply Hne|]. rewrite flat_app. clear Hne. clearbody pre.
      destruct (find_variant varsR i) as [vaR|] eqn:EfR.
      - pose proof (find_variant_in _ _ _ EfR) as [HinR HiR].
        rewrite forallb_forall in HvsR. specialize (HvsR vaR HinR).
        rewrite Forall_forall in Hall. specialize (Hall vaR HinR).
        rewrite forallb_forall in Hrt. specialize (Hrt vaR HinR).
        unfold variant_ok in HvsR. apply andb_prop in HvsR as [HvsR HshR]. apply andb_prop in HvsR as [HvsR HfsR]. apply andb_prop in HvsR as [_ HvtR].
        destruct (Hcomp i vaW vaR EfW EfR) as [Etag Hvc].
        destruct (is_unit (v_shape vaR)) eqn:EuR.
        + (* the reader's unit variant: whatever body the writer wrote is skipped *)
          cbn [outcome]. intros fuel r p L Hfu HL Hp. rewrite <- app_assoc. rewrite len_app in Hp. unfold inner.
          rewrite (Hpre _ (flat body ++ r) p L ltac:(lia)). rewrite EfR, EuR.
          destruct ioW.
          * rewrite (Hb1 eq_refl). cbn [flat concat app]. change (len []) with 0. unfold ret. f_equal. f_equal. rewrite len_app. change (len []) with 0. lia.
          * destruct (Hb2 eq_refl) as (bd & -> & Hbd). rewrite flat_app, <- app_assoc in *. rewrite !len_app in Hp. rewrite <- Etag.
            assert (Hp3 : p + len (flat pre) + len (flat (enc_tag_opt (v_tag vaW))) <= L) by lia.
            rewrite (bind_ok _ _ _ _ _ (dec_tag_check_enc (v_tag vaW) (flat bd ++ r) _ L HvtW Hp3)).
            assert (Hskb : skippable c (flat bd)).
            { destruct Hsk as [_ Hskb]. destruct (is_unit (v_shape vaW)) eqn:Eu.
              - destruct Hbd as [-> _]. destruct (variant_encoding eW vaW); intros r0 p0 L0 _ _.
                + change (flat (enc_array 0) ++ r0) with (128 :: r0). change (len (flat (enc_array 0))) with 1. apply skip_empty_array.
                + change (flat (enc_map 0) ++ r0) with (160 :: r0). change (len (flat (enc_map 0))) with 1. apply skip_empty_map.
              - now apply Hskb. }
            assert (Hp4 : p + len (flat pre) + len (flat (enc_tag_opt (v_tag vaW))) + len (flat bd) <= L) by lia.
            rewrite (bind_ok _ _ _ _ _ (Hskb r _ L HL Hp4)). unfold ret. f_equal. f_equal. rewrite !len_app. lia.
        + (* both have fields (a unit writer variant counting as the empty field list) *)
          destruct Hvc as [Hc|[Eenc Hbc]]; [congruence|].
          assert (HioF : ioW = false).
          { destruct ioW; [exfalso; cbn in HshR; discriminate|reflexivity]. }
          destruct (Hb2 HioF) as (bd & -> & Hbd).
          assert (Hbody : exists bd', enc_fields recE (variant_encoding eR vaR) (v_fields vaW) vs = Some bd' /\ flat bd' = flat bd).
          { destruct (is_unit (v_shape vaW)) eqn:Eu.
            - destruct Hbd as [-> ->]. destruct (v_fields vaW) eqn:Evf; [|cbn in HshW; discriminate].
              rewrite <- Eenc. destruct (variant_encoding eW vaW); eexists; (split; [reflexivity|]); reflexivity.
            - exists bd. split; [now rewrite <- Eenc|reflexivity]. }
          destruct Hbody as (bd' & Hbd' & Ebd).
          assert (Hskf : fields_skippable c recE (v_fields vaW) vs) by (apply Hsk).
          pose proof (fields_two c okty Hty recE recD recM ntr okN Hrec d d (variant_encoding eR vaR) (v_shape vaR) (v_fields vaW) (v_fields vaR) vs bd' HfsW HfsR Hall Hrt Hbc HokV Hskf Hbd') as Hout.
          rewrite Ebd in Hout. rewrite flat_app.
          assert (Hout2 : outcome (fun fuel => dec_tag_check (v_tag vaR) ;;; v0 <- dec_body c recD (variant_encoding eR vaR) (v_shape vaR) (v_fields vaR) fuel ;; ret (VVar i v0))
                            (flat (enc_tag_opt (v_tag vaW)) ++ flat bd) (option_map (fun l => VVar i (VList l)) (mig_fields recM (v_fields vaW) vs (v_fields vaR)))).
          { apply (outcome_prefix (dec_tag_check (v_tag vaR)) (fun fuel => v0 <- dec_body c recD (variant_encoding eR vaR) (v_shape vaR) (v_fields vaR) fuel ;; ret (VVar i v0)));
              [intros; reflexivity|intros r p L Hp; rewrite <- Etag; now apply tag_prefix|].
            replace (option_map (fun l => VVar i (VList l)) (mig_fields recM (v_fields vaW) vs (v_fields vaR)))
              with (option_map (fun x => VVar i x) (option_map VList (mig_fields recM (v_fields vaW) vs (v_fields vaR)))) by (destruct (mig_fields recM (v_fields vaW) vs (v_fields vaR)); reflexivity).
            apply (outcome_map (fun x => VVar i x) (dec_body c recD (variant_encoding eR vaR) (v_shape vaR) (v_fields vaR))); [intros; reflexivity|exact Hout]. }
          destruct (option_map (fun l => VVar i (VList l)) (mig_fields recM (v_fields vaW) vs (v_fields vaR))) as [res|]; cbn [outcome] in *.
          * intros fuel r p L Hfu HL Hp. rewrite <- app_assoc. rewrite len_app in Hp. unfold inner.
            rewrite (Hpre _ _ p L ltac:(lia)). rewrite EfR, EuR.
            rewrite Hout2; [|rewrite !app_length in *; lia|assumption|rewrite N.add_assoc in Hp; exact Hp]. f_equal. f_equal. rewrite !len_app, !N.add_assoc. reflexivity.
          * intros fuel r p L Hfu HL Hp. rewrite <- app_assoc. rewrite len_app in Hp. unfold inner.
            rewrite (Hpre _ _ p L ltac:(lia)). rewrite EfR, EuR.
            apply Hout2; [rewrite !app_length in *; lia|assumption|rewrite N.add_assoc in Hp; exact Hp].
      - (* a variant the reader does not know *)
        cbn [outcome]. intros fuel r p L Hfu HL Hp. rewrite <- app_assoc. rewrite len_app in Hp. unfold inner.
        rewrite (Hpre _ (flat body ++ r) p L ltac:(lia)). rewrite EfR. eexists. eexists. reflexivity. }
    destruct Goal1 as (Hne & Hhd & Hout).
    split; [now apply flat_tag_nonempty|]. split; [intros _; now apply hd_class_tagged|].
    apply (outcome_prefix (dec_tag_check tagW) inner); [intros; reflexivity|intros r p L Hp; now apply tag_prefix|].
    destruct (find_variant varsR i); exact Hout.
Qed.
End Def3.

(* ---- whole schemas ---- *)
Section OkOf.
Variable recK : nat -> value -> bool.
Variable recT : nat -> value -> bool.
Let okN := fun d v => negb (recK d v) && recT d v.

Lemma ok_fty_of f : forall v, known_fty recK f v = false -> text_fty recT f v = true -> ok_fty okN f v = true.
Proof.
  induction f as [t|d|g IH|g IH]; intros v Hk Ht.
  - destruct v; reflexivity.
  - assert (E : ok_fty okN (FRef d) v = okN d v) by (destruct v; reflexivity). rewrite E. unfold okN.
    assert (Ek : known_fty recK (FRef d) v = recK d v) by (destruct v; reflexivity). assert (Et : text_fty recT (FRef d) v = recT d v) by (destruct v; reflexivity).
    rewrite Ek in Hk. rewrite Et in Ht. now rewrite Hk, Ht.
  - destruct v; try reflexivity. cbn in *. now apply IH.
  - destruct v; try reflexivity. cbn [known_fty text_fty ok_fty] in *. apply forallb_forall. intros x Hx. rewrite forallb_forall in Ht.
    apply IH; [|now apply Ht]. destruct (known_fty recK g x) eqn:E; [|reflexivity]. assert (existsb (known_fty recK g) l = true); [|congruence]. apply existsb_exists. eauto.
Qed.

Lemma ok_fields_of fs vs : existsb (known_field recK vs) (sorted_fields fs) = false -> forallb (text_field recT vs) (sorted_fields fs) = true ->
  ok_fields okN fs vs.
Proof.
  intros Hk Ht pf Hpf. rewrite forallb_forall in Ht. specialize (Ht pf Hpf).
  assert (Hkf : known_field recK vs pf = false).
  { destruct (known_field recK vs pf) eqn:E; [|reflexivity]. assert (existsb (known_field recK vs) (sorted_fields fs) = true); [|congruence]. apply existsb_exists. eauto. }
  unfold ok_raw, known_field, text_field in *. destruct (f_codec (pf_fld pf)); try reflexivity. now apply ok_fty_of.
Qed.

Lemma ok_def_of d df v : def_ok d df = true -> known_def fmt_group recK df v = false -> text_def recT df v = true -> ok_def okN df v.
Proof.
  destruct df as [e tag tr sh fs|e tag io vars]; destruct v as [| | | | | | | |vs|i [| | | | | | | |vs|]]; try (intros; exact I);
    cbn [def_ok known_def text_def ok_def]; intros Hok Hk Ht.
  - apply ok_fields_of; [|exact Ht]. destruct tr; [exact Hk|]. unfold known_fields in Hk. now apply orb_false_iff in Hk as [_ Hk].
  - destruct (find_variant vars i) as [va|] eqn:Ef; [|exact I]. apply find_variant_in in Ef as [Hin Hi].
    apply andb_prop in Hok as [Hok _]. apply andb_prop in Hok as [_ Hvs]. rewrite forallb_forall in Hvs. specialize (Hvs va Hin).
    unfold variant_ok in Hvs. apply andb_prop in Hvs as [_ Hsh].
    destruct (is_unit (v_shape va)) eqn:Eu.
    + destruct (v_fields va); [|discriminate]. intros pf [].
    + assert (Hio : io = false) by (destruct io; [discriminate|reflexivity]). subst io. cbn [orb] in Hk.
      apply ok_fields_of; [|exact Ht]. unfold known_fields in Hk. now apply orb_false_iff in Hk as [_ Hk].
Qed.
End OkOf.

Section Top3.
Variable c : cfg.
Variable okty : ty -> Prop.
Hypothesis Hty : forall t, okty t -> forall v cs, encode_ty t v = Some cs ->
  flat cs <> [] /\ reads_f (decode_ty c t) (flat cs) v.

Lemma migrate_f_two ScW ScR : schema_ok ScW = true -> schema_all leaf_ok ScW -> schema_ok ScR = true -> schema_all okty ScR -> schema_rt ScR = true ->
  schema_compat ScW ScR ->
  forall k d v cs, gen_encode_f k ScW d v = Some cs -> known_f fmt_group k ScW d v = false -> text_f k ScW d v = true ->
  flat cs <> [] /\ (non_transparent ScR d = true -> hd_class (flat cs) = true) /\
  outcome (gen_decode_f k c ScR d) (flat cs) (migrate_f k ScW ScR d v).
Proof.
  intros HokW HallW HokR Hall Hrt Hcomp. induction k as [|k IH]; intros d v cs; [cbn [gen_encode_f]; discriminate|].
  intros He Hk Ht. pose proof (fun df En => schema_skippable c ScW HokW HallW k d df v En Hk Ht) as Hsk.
  cbn [gen_encode_f gen_decode_f migrate_f known_f text_f] in *.
  destruct (nth_error ScW d) as [dfW|] eqn:EnW; [|discriminate].
  destruct (Hcomp d dfW EnW) as (dfR & EnR & Hdc). unfold non_transparent. rewrite EnR.
  assert (Hrt' : def_rt_local (non_transparent ScR) dfR = true).
  { unfold schema_rt in Hrt. rewrite forallb_forall in Hrt. specialize (Hrt dfR (nth_error_In _ _ EnR)). exact Hrt. }
  set (recK := fun d' v' => if Nat.ltb d' d then known_f fmt_group k ScW d' v' else false) in *.
  set (recT := fun d' v' => if Nat.ltb d' d then text_f k ScW d' v' else true) in *.
  destruct (def_two c okty Hty
              (fun d' v' => if Nat.ltb d' d then gen_encode_f k ScW d' v' else None)
              (fun d' fl => if Nat.ltb d' d then gen_decode_f k c ScR d' fl else out_of_fuel)
              (fun d' v' => if Nat.ltb d' d then migrate_f k ScW ScR d' v' else None)
              (non_transparent ScR)
              (fun d' v' => negb (recK d' v') && recT d' v')) with (d := d) (dfW := dfW) (dfR := dfR) (v := v) (cs := cs) as (H1 & H2 & H3).
  - intros d' v' cs' He' Hokv. unfold recK, recT in Hokv. destruct (Nat.ltb d' d); [|discriminate].
    apply andb_prop in Hokv as [Hk' Ht']. apply negb_true_iff in Hk'. now apply IH.
  - exact (schema_ok_nth ScW d dfW HokW EnW).
  - exact (schema_ok_nth ScR d dfR HokR EnR).
  - eapply schema_all_nth; eassumption.
  - exact Hrt'.
  - exact Hdc.
  - exact (ok_def_of recK recT d dfW v (schema_ok_nth ScW d dfW HokW EnW) Hk Ht).
  - exact (Hsk dfW eq_refl).
  - exact He.
  - split; [assumption|]. split; [|exact H3]. intro Hn. apply H2. destruct dfR; exact Hn.
Qed.

(* C10 at schema level: every value the writer's schema encodes (text valid UTF-8, outside class F14) is read by the reader's schema as
   the migrated value, stopping exactly at the end of the encoding — or, when it contains a variant the reader does not know outside
   every optional field, is refused with UnknownVariant. *)
Theorem compat_roundtrip ScW ScR d v cs rest : schema_ok ScW = true -> schema_all leaf_ok ScW -> schema_ok ScR = true -> schema_all okty ScR -> schema_rt ScR = true ->
  schema_compat ScW ScR -> writer_value_ok ScW d v = true ->
  gen_encode ScW d v = Some cs -> len (flat cs ++ rest) < two64 ->
  match migrate ScW ScR d v with
  | Some v' => gen_decode c ScR d (start (flat cs ++ rest)) = (Ok v', mkdst (len (flat cs)) rest (len (flat cs ++ rest)))
  | None => exists n s', gen_decode c ScR d (start (flat cs ++ rest)) = (Err (UnknownVariant n), s')
  end.
Proof.
  intros HokW HallW HokR Hall Hrt Hcomp Hv He Hb. unfold writer_value_ok in Hv. apply andb_prop in Hv as [Hk Ht]. apply negb_true_iff in Hk.
  destruct (migrate_f_two ScW ScR HokW HallW HokR Hall Hrt Hcomp (S d) d v cs He Hk Ht) as (_ & _ & Hout).
  unfold migrate, gen_decode, start, fuel_of. cbn [drest].
  destruct (migrate_f (S d) ScW ScR d v) as [v'|]; cbn [outcome] in Hout.
  - rewrite Hout; [reflexivity|lia|assumption|rewrite len_app; lia].
  - apply Hout; [lia|assumption|rewrite len_app; lia].
Qed.
End Top3.

(* … with the reader's leaf-type hypothesis discharged by C01_roundtrip *)
Theorem compat_roundtrip_closed c ScW ScR d v cs rest : schema_ok ScW = true -> schema_all leaf_ok ScW -> schema_ok ScR = true -> schema_all leaf_ok ScR -> schema_rt ScR = true ->
  schema_compat ScW ScR -> writer_value_ok ScW d v = true ->
  gen_encode ScW d v = Some cs -> len (flat cs ++ rest) < two64 ->
  match migrate ScW ScR d v with
  | Some v' => gen_decode c ScR d (start (flat cs ++ rest)) = (Ok v', mkdst (len (flat cs)) rest (len (flat cs ++ rest)))
  | None => exists n s', gen_decode c ScR d (start (flat cs ++ rest)) = (Err (UnknownVariant n), s')
  end.
Proof. exact (compat_roundtrip c leaf_ok (leaf_reads c) ScW ScR d v cs rest). Qed.

Lemma body_compat_refl fs : (forall f g, In f fs -> In g fs -> f_skip f = false -> f_skip g = false -> f_idx f = f_idx g -> f = g) -> body_compat fs fs.
Proof.
  intro H. split.
  - intros fW fR HW HR SW SR E. now rewrite (H fW fR HW HR SW SR E).
  - intros fR HR SR Hno. exfalso. now apply (Hno fR HR SR).
Qed.

Lemma rg_schema_compat :
  schema_compat rg_writer rg_reader /\ schema_compat rg_reader rg_writer /\
  migrate rg_writer rg_reader 1 (VList [VNat 1; VSome (VVar 7 (VList [VNat 5])); VNat 9]) = Some (VList [VNat 1; VNone; VNat 9]) /\
  migrate rg_writer rg_reader 1 (VList [VNat 1; VSome (VVar 0 (VList [])); VNat 9]) = Some (VList [VNat 1; VSome (VVar 0 (VList [])); VNat 9]) /\
  migrate rg_writer rg_reader 0 (VVar 7 (VList [VNat 5])) = None /\
  gen_decode cfg_full rg_reader 0 (start [130; 7; 129; 5]) = (Err (UnknownVariant 7), mkdst 2 [129; 5] 4).
Proof.
  assert (Hholder : def_compat f9_holder f9_holder).
  { cbn. split; [reflexivity|]. split; [reflexivity|]. split; [reflexivity|]. apply body_compat_refl. intros f g Hf Hg _ _ E. cbn [In] in Hf, Hg.
    destruct Hf as [<-|[<-|[<-|[]]]], Hg as [<-|[<-|[<-|[]]]]; try reflexivity; cbn in E; discriminate. }
  assert (Henum : forall vsW vsR, (forall i vW vR, find_variant vsW i = Some vW -> find_variant vsR i = Some vR -> is_unit (v_shape vR) = true /\ v_tag vW = v_tag vR \/ vW = vR /\ v_fields vW = [mkfield 0 false None CoDefault false false (FTy (TyU B8))]) ->
            def_compat (DEnum None None false vsW) (DEnum None None false vsR)).
  { intros vsW vsR H. cbn. split; [reflexivity|]. split; [reflexivity|]. intros i vW vR HW HR. unfold variant_compat.
    destruct (H i vW vR HW HR) as [[Hu Ht]|[-> Hf]].
    - split; [exact Ht|now left].
    - split; [reflexivity|]. right. split; [reflexivity|]. rewrite Hf. apply body_compat_refl. intros f g [<-|[]] [<-|[]] _ _ _. reflexivity. }
  split; [|split].
  - intros d dW H. destruct d as [|[|d]]; cbn in H; try (destruct d; discriminate); injection H as <-.
    + eexists. split; [reflexivity|]. apply Henum. intros i vW vR HW HR. cbn in HW, HR.
      destruct (0 =? i) eqn:E0; [|discriminate]. injection HR as <-. injection HW as <-. left. split; reflexivity.
    + eexists. split; [reflexivity|exact Hholder].
  - intros d dW H. destruct d as [|[|d]]; cbn in H; try (destruct d; discriminate); injection H as <-.
    + eexists. split; [reflexivity|]. apply Henum. intros i vW vR HW HR. cbn in HW, HR.
      destruct (0 =? i) eqn:E0; [|discriminate]. injection HR as <-. injection HW as <-. left. split; reflexivity.
    + eexists. split; [reflexivity|exact Hholder].
  - vm_compute. repeat split.
Qed.

(* ---- the hypotheses of compat_roundtrip_closed on concrete pairs of schemas, and what it then says ---- *)
Lemma leaf_ok_all Sc : forallb (fun df => match df with
                                          | DStruct _ _ _ _ fs => forallb (fun f => match f_ty f with FTy t => TypesEnc.ty_ok t && TypesFacts.rt_ok t && Denote.no_bare_tag t | _ => true end) fs
                                          | DEnum _ _ _ vs => forallb (fun va => forallb (fun f => match f_ty f with FTy t => TypesEnc.ty_ok t && TypesFacts.rt_ok t && Denote.no_bare_tag t | _ => true end) (v_fields va)) vs
                                          end) Sc = true ->
  (forall df, In df Sc -> match df with DStruct _ _ _ _ fs => forall f, In f fs -> match f_ty f with FOpt (FRef _) | FRef _ | FTy _ | FSeq (FRef _) => True | _ => False end
                                   | DEnum _ _ _ vs => forall va f, In va vs -> In f (v_fields va) -> match f_ty f with FOpt (FRef _) | FRef _ | FTy _ | FSeq (FRef _) => True | _ => False end end) ->
  schema_all leaf_ok Sc.
Proof.
  intros H Hshape. unfold schema_all. apply Forall_forall. intros df Hdf. rewrite forallb_forall in H. specialize (H df Hdf). specialize (Hshape df Hdf).
  assert (Hf : forall f, match f_ty f with FTy t => TypesEnc.ty_ok t && TypesFacts.rt_ok t && Denote.no_bare_tag t | _ => true end = true ->
                 match f_ty f with FOpt (FRef _) | FRef _ | FTy _ | FSeq (FRef _) => True | _ => False end -> fty_all leaf_ok (f_ty f)).
  { intros f H1 H2. destruct (f_ty f) as [t|d|[| | |]|[| | |]]; cbn [fty_all]; try exact I; try contradiction.
    apply andb_prop in H1 as [H1 H3]. apply andb_prop in H1 as [H1 H4]. repeat split; assumption. }
  destruct df; cbn [def_all].
  - unfold fields_all. apply Forall_forall. intros f Hin. rewrite forallb_forall in H. apply Hf; [now apply H|now apply Hshape].
  - apply Forall_forall. intros va Hva. unfold fields_all. apply Forall_forall. intros f Hin. rewrite forallb_forall in H. specialize (H va Hva).
    rewrite forallb_forall in H. apply Hf; [now apply H|now apply (Hshape va f)].
Qed.

Lemma rg_compat_instance :
  let v := VList [VNat 1; VSome (VVar 7 (VList [VNat 5])); VNat 9] in
  schema_ok rg_writer = true /\ schema_all leaf_ok rg_writer /\ schema_ok rg_reader = true /\ schema_all leaf_ok rg_reader /\
  schema_rt rg_reader = true /\ schema_compat rg_writer rg_reader /\ writer_value_ok rg_writer 1 v = true /\
  forall c rest, len ([131; 1; 130; 7; 129; 5; 9] ++ rest) < two64 ->
    gen_decode c rg_reader 1 (start ([131; 1; 130; 7; 129; 5; 9] ++ rest))
    = (Ok (VList [VNat 1; VNone; VNat 9]), mkdst 7 rest (len ([131; 1; 130; 7; 129; 5; 9] ++ rest))).
Proof.
  intro v.
  assert (HW : schema_all leaf_ok rg_writer).
  { apply leaf_ok_all; [vm_compute; reflexivity|]. intros df Hdf. cbn in Hdf. destruct Hdf as [<-|[<-|[]]]; cbn.
    - intros va f [<-|[<-|[]]]; cbn; [intros []|intros [<-|[]]; exact I].
    - intros f [<-|[<-|[<-|[]]]]; exact I. }
  assert (HR : schema_all leaf_ok rg_reader).
  { apply leaf_ok_all; [vm_compute; reflexivity|]. intros df Hdf. cbn in Hdf. destruct Hdf as [<-|[<-|[]]]; cbn.
    - intros va f [<-|[]]; cbn; intros [].
    - intros f [<-|[<-|[<-|[]]]]; exact I. }
  destruct rg_schema_compat as (Hc & _).
  split; [vm_compute; reflexivity|]. split; [exact HW|]. split; [vm_compute; reflexivity|]. split; [exact HR|].
  split; [vm_compute; reflexivity|]. split; [exact Hc|]. split; [vm_compute; reflexivity|].
  intros c rest Hb.
  destruct (gen_encode rg_writer 1 v) as [cs|] eqn:E; [|vm_compute in E; discriminate]. vm_compute in E. injection E as <-.
  pose proof (compat_roundtrip_closed c rg_writer rg_reader 1 v _ rest eq_refl HW eq_refl HR eq_refl Hc eq_refl eq_refl) as H.
  change (migrate rg_writer rg_reader 1 v) with (Some (VList [VNat 1; VNone; VNat 9])) in H. cbv iota in H.
  exact (H Hb).
Qed.

Lemma f10_compat_instance :
  schema_ok f10_writer = true /\ schema_all leaf_ok f10_writer /\ schema_ok f10_reader = true /\ schema_all leaf_ok f10_reader /\
  schema_rt f10_reader = true /\ schema_compat f10_writer f10_reader /\ schema_compat f10_reader f10_writer /\
  writer_value_ok f10_writer 0 (VList [VNat 1; VNat 3]) = true /\
  forall c rest, len ([131; 1; 246; 3] ++ rest) < two64 ->
    gen_decode c f10_reader 0 (start ([131; 1; 246; 3] ++ rest))
    = (Ok (VList [VNat 1; VNone; VNat 3]), mkdst 4 rest (len ([131; 1; 246; 3] ++ rest))).
Proof.
  assert (HW : schema_all leaf_ok f10_writer).
  { apply leaf_ok_all; [vm_compute; reflexivity|]. intros df [<-|[]]; cbn. intros f [<-|[<-|[]]]; exact I. }
  assert (HR : schema_all leaf_ok f10_reader).
  { apply leaf_ok_all; [vm_compute; reflexivity|]. intros df [<-|[]]; cbn. intros f [<-|[<-|[<-|[]]]]; exact I. }
  assert (Hc : schema_compat f10_writer f10_reader).
  { intros d dW H. destruct d as [|d]; cbn in H; [|destruct d; discriminate]. injection H as <-. eexists. split; [reflexivity|].
    cbn. split; [reflexivity|]. split; [reflexivity|]. split; [reflexivity|]. split.
    - intros fW fR HfW HfR _ _ E. cbn [In] in HfW, HfR. destruct HfW as [<-|[<-|[]]], HfR as [<-|[<-|[<-|[]]]]; try reflexivity; cbn in E; discriminate.
    - intros fR HfR _ Hno. cbn [In] in HfR. destruct HfR as [<-|[<-|[<-|[]]]].
      + exfalso. eapply (Hno _ (or_introl eq_refl)); reflexivity.
      + discriminate.
      + exfalso. eapply (Hno _ (or_intror (or_introl eq_refl))); reflexivity. }
  assert (Hc' : schema_compat f10_reader f10_writer).
  { intros d dW H. destruct d as [|d]; cbn in H; [|destruct d; discriminate]. injection H as <-. eexists. split; [reflexivity|].
    cbn. split; [reflexivity|]. split; [reflexivity|]. split; [reflexivity|]. split.
    - intros fW fR HfW HfR _ _ E. cbn [In] in HfW, HfR. destruct HfR as [<-|[<-|[]]], HfW as [<-|[<-|[<-|[]]]]; try reflexivity; cbn in E; discriminate.
    - intros fR HfR _ Hno. cbn [In] in HfR. exfalso. destruct HfR as [<-|[<-|[]]].
      + eapply (Hno _ (or_introl eq_refl)); reflexivity.
      + eapply (Hno _ (or_intror (or_intror (or_introl eq_refl)))); reflexivity. }
  split; [vm_compute; reflexivity|]. split; [exact HW|]. split; [vm_compute; reflexivity|]. split; [exact HR|].
  split; [vm_compute; reflexivity|]. split; [exact Hc|]. split; [exact Hc'|]. split; [vm_compute; reflexivity|].
  intros c rest Hb.
  destruct (gen_encode f10_writer 0 (VList [VNat 1; VNat 3])) as [cs|] eqn:E; [|vm_compute in E; discriminate]. vm_compute in E. injection E as <-.
  pose proof (compat_roundtrip_closed c f10_writer f10_reader 0 (VList [VNat 1; VNat 3]) _ rest eq_refl HW eq_refl HR eq_refl Hc eq_refl eq_refl) as H.
  change (migrate f10_writer f10_reader 0 (VList [VNat 1; VNat 3])) with (Some (VList [VNat 1; VNone; VNat 3])) in H. cbv iota in H.
  exact (H Hb).
Qed.
