(* Proofs/DeriveClosed.v — the hypotheses of the derive theorems about the built-in leaf types, discharged with
   the theorems of the Types slice (C01_roundtrip, C03_types, C07_types) and of the skip slice (C06). *)
From MC Require Import Bytes BytesFacts Monad Cbor Item Denote Decoder Encoder EncoderFacts Types Acc
  TypesEnc TypesLen TypesDec TypesFacts TypesItem ItemFacts SkipFacts
  DeriveSchema DeriveEnc DeriveLen DeriveDec DeriveDoc DeriveKnown DeriveCompat
  DeriveFacts DeriveLenFacts DeriveDocFacts DeriveDecFacts DeriveCompatFacts.
From Coq Require Import Lia.
Local Open Scope N_scope.

(* the leaf types the closed theorems speak about *)
Definition leaf_ok (t : ty) : Prop := ty_ok t = true /\ rt_ok t = true /\ no_bare_tag t = true.

Lemma map_prefer_enc l : Forall (fun i => prefer (enc_of_item i) = enc_of_item i) l ->
  map prefer (map enc_of_item l) = map enc_of_item l.
Proof. induction 1; cbn [map]; [reflexivity|]. now rewrite H, IHForall. Qed.

Lemma prefer_enc_of_item i : prefer (enc_of_item i) = enc_of_item i.
Proof.
  induction i using item_ind_forall; cbn [enc_of_item prefer]; try reflexivity.
  - rewrite ItemFacts.len_map. f_equal. now apply map_prefer_enc.
  - rewrite ItemFacts.len_map. f_equal. now apply map_prefer_enc.
  - now rewrite IHi.
Qed.

(* C03_types in the dshape C08 needs *)
Lemma leaf_format t : no_bare_tag t = true -> forall v cs, encode_ty t v = Some cs -> len (flat cs) < two64 ->
  exists e, ty_tree t v = Some e /\ flat cs = ser (prefer e) /\ wf (prefer e) = true.
Proof.
  intros Hnb v cs He Hb. destruct (types_preferred t v cs Hnb He Hb) as (i & Hd & Hok & E).
  exists (enc_of_item i). unfold ty_tree. rewrite Hd. cbn [option_map]. rewrite prefer_enc_of_item.
  split; [reflexivity|]. split; [now rewrite ser_enc_of_item|now apply wf_enc_of_item].
Qed.

(* C01_roundtrip in the dshape C09 needs *)
Lemma leaf_reads c t : leaf_ok t -> forall v cs, encode_ty t v = Some cs ->
  flat cs <> [] /\ reads_f (decode_ty c t) (flat cs) v.
Proof.
  intros (Hok & Hrt & Hnb) v cs He. split.
  - destruct (N.ltb_spec (len (flat cs)) two64) as [Hb|Hb].
    + destruct (types_wellformed t v cs Hnb He Hb) as (i & e & _ & E & _). rewrite E.
      destruct (CborFacts.ser_nonempty e) as (b & r & ->). discriminate.
    + intro E. rewrite E in Hb. change (len []) with 0 in Hb. unfold two64 in Hb. lia.
  - intros fuel r p L Hfu HL Hp. apply roundtrip; try assumption. lia.
Qed.

Section Closed.
Variable Sc : schema.
Hypothesis Hok : schema_ok Sc = true.
Hypothesis Hleaf : schema_all leaf_ok Sc.

Lemma schema_all_weaken (P Q : ty -> Prop) S : (forall t, P t -> Q t) -> schema_all P S -> schema_all Q S.
Proof.
  intros HPQ. unfold schema_all. apply Forall_impl. intros df. destruct df; cbn [def_all].
  - unfold fields_all. apply Forall_impl. intro f. generalize (f_ty f). induction f0; cbn [fty_all]; auto.
  - apply Forall_impl. intro va. unfold fields_all. apply Forall_impl. intro f. generalize (f_ty f). induction f0; cbn [fty_all]; auto.
Qed.

Theorem gen_len_exact_closed d v cs : gen_encode Sc d v = Some cs -> gen_len Sc d v = len (flat cs).
Proof.
  apply (gen_len_exact (fun t => ty_ok t = true) (fun t H v cs => len_ty_is_exact t v cs H) Sc d v cs Hok).
  eapply schema_all_weaken; [|exact Hleaf]. intros t (H & _). exact H.
Qed.

Theorem gen_encode_doc_closed d v cs : gen_encode Sc d v = Some cs -> known_alias_nil Sc d v = false -> len (flat cs) < two64 ->
  exists e, doc_tree Sc d v = Some e /\ flat cs = ser (prefer e) /\ wf (prefer e) = true.
Proof.
  apply (gen_encode_doc (fun t => no_bare_tag t = true) leaf_format Sc d v cs Hok).
  eapply schema_all_weaken; [|exact Hleaf]. intros t (_ & _ & H). exact H.
Qed.

Theorem gen_roundtrip_closed c d v cs rest : schema_rt Sc = true -> gen_encode Sc d v = Some cs -> len (flat cs ++ rest) < two64 ->
  gen_decode c Sc d (start (flat cs ++ rest)) =
    (Ok (default_skipped Sc d v), mkdst (len (flat cs)) rest (len (flat cs ++ rest))).
Proof. intro Hrt. apply (gen_roundtrip c leaf_ok (leaf_reads c) Sc d v cs rest Hok Hleaf Hrt). Qed.
End Closed.

(* C06 in the dshape C10 needs (full configuration) *)
Lemma skippable_full t e cs : tag_ok t = true -> flat cs = ser (prefer e) -> wf (prefer e) = true -> utf8_ok (prefer e) = true ->
  skippable cfg_full (flat (enc_tag_opt t ++ cs)).
Proof.
  intros Ht Hcs Hwf Hu r p L HL Hp.
  assert (E : flat (enc_tag_opt t ++ cs) = ser (prefer (t_tagged t e))).
  { rewrite flat_app, Hcs. symmetry. apply ser_prefer_tagged. exact Ht. }
  rewrite E in *.
  assert (Hlt : len (ser (prefer (t_tagged t e))) < two64).
  { set (n := len (ser (prefer (t_tagged t e)))) in *. clearbody n. lia. }
  apply skip_auto_exact; [| |exact Hlt|exact Hp].
  - change (wf (prefer (t_tagged t e))) with (wfp (t_tagged t e)). now apply wfp_tagged.
  - destruct t; cbn [t_tagged prefer utf8_ok]; assumption.
Qed.
