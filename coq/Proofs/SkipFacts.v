(* Proofs/SkipFacts.v — the statements of C06 assembled from
     SkipItems.v   (one loop iteration per token, and end of input on every strict prefix of a token)
     SkipSim.v     (the simulation invariant; skip_alloc_ok, skip_alloc_prefix)
     SkipNoalloc.v (lockstep with the build without alloc; skip_noalloc_ok)
     CborFacts.v   (the reference parser reads back every serialisation). *)
From MC Require Import Bytes BytesFacts Monad Cbor Utf8 Half Decoder Acc Accessors DecoderFacts CborFacts
  SkipItems SkipSim SkipNoalloc.
From Coq Require Import Lia.
Local Open Scope N_scope.

Definition two64 : N := 18446744073709551616.

Lemma steps_fuel e fuel : (length (ser e) <= fuel)%nat -> (steps e <= fuel)%nat.
Proof. pose proof (steps_le_len e). lia. Qed.

(* skip consumes exactly the item, whatever follows it *)
Theorem skip_exact e rest p L fuel :
  wf e = true -> utf8_ok e = true -> len (ser e) < two64 -> p + len (ser e) <= L ->
  (length (ser e) <= fuel)%nat ->
  skip_alloc fuel (mkdst p (ser e ++ rest) L) = (Ok tt, mkdst (p + len (ser e)) rest L).
Proof. intros. apply skip_alloc_ok; auto using steps_fuel. Qed.

Theorem skip_auto_exact e rest p L :
  wf e = true -> utf8_ok e = true -> len (ser e) < two64 -> p + len (ser e) <= L ->
  skip_auto cfg_full (mkdst p (ser e ++ rest) L) = (Ok tt, mkdst (p + len (ser e)) rest L).
Proof.
  intros. unfold skip_auto, skip, fuel_of. cbn [c_alloc cfg_full drest].
  apply skip_exact; auto. rewrite app_length. lia.
Qed.

(* a strict prefix of the item is never accepted *)
Theorem skip_prefix e a x t p L fuel :
  wf e = true -> utf8_ok e = true -> len (ser e) < two64 ->
  ser e = a ++ x :: t -> p + len a <= L -> (length a < fuel)%nat ->
  exists q, skip_alloc fuel (mkdst p a L) = (Err EndOfInput, q).
Proof. intros. eapply skip_alloc_prefix; eassumption. Qed.

Theorem skip_auto_prefix e a x t p L :
  wf e = true -> utf8_ok e = true -> len (ser e) < two64 ->
  ser e = a ++ x :: t -> p + len a <= L ->
  exists q, skip_auto cfg_full (mkdst p a L) = (Err EndOfInput, q).
Proof.
  intros. unfold skip_auto, skip, fuel_of. cbn [c_alloc cfg_full drest].
  eapply skip_prefix; try eassumption. lia.
Qed.

(* without alloc: the same end position or the documented error, nothing else *)
Theorem skip_noalloc_sound e rest p L fuel :
  wf e = true -> utf8_ok e = true -> len (ser e) < two64 -> p + len (ser e) <= L ->
  (length (ser e) <= fuel)%nat ->
  skip_noalloc fuel (mkdst p (ser e ++ rest) L) = (Ok tt, mkdst (p + len (ser e)) rest L)
  \/ exists q, skip_noalloc fuel (mkdst p (ser e ++ rest) L) = (Err Message, q).
Proof.
  intros Hw Ht Hl HL Hf.
  destruct (skip_noalloc fuel (mkdst p (ser e ++ rest) L)) as [r st'] eqn:E.
  destruct (noalloc_refines _ _ _ _ E) as [->|E'].
  - right. eexists. reflexivity.
  - left. rewrite skip_exact in E' by assumption. exact (eq_sym E').
Qed.

Theorem skip_noalloc_prefix e a x t p L fuel :
  wf e = true -> utf8_ok e = true -> len (ser e) < two64 ->
  ser e = a ++ x :: t -> p + len a <= L -> (length a < fuel)%nat ->
  exists err q, skip_noalloc fuel (mkdst p a L) = (Err err, q) /\ (err = EndOfInput \/ err = Message).
Proof.
  intros Hw Ht Hl E HL Hf.
  destruct (skip_noalloc fuel (mkdst p a L)) as [r st'] eqn:En.
  destruct (noalloc_refines _ _ _ _ En) as [->|E'].
  - eexists _, _. split; [reflexivity|auto].
  - destruct (skip_prefix e a x t p L fuel Hw Ht Hl E HL Hf) as (q & Eq). rewrite Eq in E'. injection E' as <- <-.
    eexists _, _. split; [reflexivity|auto].
Qed.

Theorem skip_noalloc_exact e rest p L fuel :
  wf e = true -> utf8_ok e = true -> noalloc_ok e = true -> len (ser e) < two64 -> p + len (ser e) <= L ->
  (length (ser e) <= fuel)%nat ->
  skip_noalloc fuel (mkdst p (ser e ++ rest) L) = (Ok tt, mkdst (p + len (ser e)) rest L).
Proof. intros. apply skip_noalloc_ok; auto using steps_fuel. Qed.

(* the end position is the reference parser's *)
Theorem skip_agrees_parse e rest p L :
  wf e = true -> utf8_ok e = true -> len (ser e) < two64 -> p + len (ser e) <= L ->
  exists q, parse (S (length (ser e ++ rest))) (ser e ++ rest) = Some (e, drest q)
         /\ skip_auto cfg_full (mkdst p (ser e ++ rest) L) = (Ok tt, q)
         /\ dpos q = p + len (ser e) /\ drest q = rest.
Proof.
  intros Hw Ht Hl HL. exists (mkdst (p + len (ser e)) rest L). cbn [drest dpos].
  split; [now apply parse_ser_auto|]. split; [now apply skip_auto_exact|]. split; reflexivity.
Qed.
