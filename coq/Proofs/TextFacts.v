(* Proofs/TextFacts.v — lengths of the texts the formatting primitives produce. *)
From MC Require Import Bytes BytesFacts Monad Text Token.
From Coq Require Import Lia.
Local Open Scope N_scope.

Lemma dec_fuel_len : forall f n acc (k : nat), n < 10 ^ N.of_nat k -> (1 <= k)%nat ->
  (length (dec_fuel f n acc) <= k + length acc)%nat.
Proof.
  induction f as [|f IH]; intros n acc k Hn Hk; cbn [dec_fuel]; [lia|].
  destruct (N.eqb_spec (n / 10) 0) as [E|E]; [cbn [length]; lia|].
  destruct k as [|[|k]]; [lia| |].
  - exfalso. apply E. apply N.div_small. change (10 ^ N.of_nat 1) with 10 in Hn. exact Hn.
  - specialize (IH (n / 10) ((48 + n mod 10) :: acc) (S k)). cbn [length] in IH.
    assert (H1: n / 10 < 10 ^ N.of_nat (S k)).
    { apply N.div_lt_upper_bound; [lia|]. rewrite <- N.pow_succ_r by lia.
      replace (N.succ (N.of_nat (S k))) with (N.of_nat (S (S k))) by lia. exact Hn. }
    specialize (IH H1 ltac:(lia)). lia.
Qed.

Lemma dec_n_len n (k : nat) : n < 10 ^ N.of_nat k -> (1 <= k)%nat -> (length (dec_n n) <= k)%nat.
Proof. intros Hn Hk. unfold dec_n. pose proof (dec_fuel_len (S (N.to_nat (N.size n))) n [] k Hn Hk) as H. cbn [length] in H. lia. Qed.

Lemma dec_n_len64 n : n < two64 -> (length (dec_n n) <= 20)%nat.
Proof. intro H. apply dec_n_len; [|lia]. unfold two64 in H. change (10 ^ N.of_nat 20) with 100000000000000000000. lia. Qed.

Lemma dec_n_len8 n : n < 256 -> (length (dec_n n) <= 3)%nat.
Proof. intro H. apply dec_n_len; [|lia]. change (10 ^ N.of_nat 3) with 1000. lia. Qed.

Lemma dec_z_len z : (- 18446744073709551616 <= z < 18446744073709551616)%Z -> (length (dec_z z) <= 21)%nat.
Proof.
  intro H. unfold dec_z. destruct (Z.ltb_spec z 0); cbn [length].
  - assert (Z.to_N (- z) < 10 ^ N.of_nat 20) by (change (10 ^ N.of_nat 20) with 100000000000000000000; lia).
    pose proof (dec_n_len (Z.to_N (- z)) 20 ltac:(assumption) ltac:(lia)). lia.
  - assert (Z.to_N z < 10 ^ N.of_nat 20) by (change (10 ^ N.of_nat 20) with 100000000000000000000; lia).
    pose proof (dec_n_len (Z.to_N z) 20 ltac:(assumption) ltac:(lia)). lia.
Qed.

Lemma hex_spaced_cons x y r : hex_spaced (x :: y :: r) = hex2 x ++ 32 :: hex_spaced (y :: r).
Proof. reflexivity. Qed.

Lemma hex_spaced_len b : (length (hex_spaced b) <= 3 * length b)%nat.
Proof.
  induction b as [|x b IH]; [cbn; lia|].
  destruct b as [|y r]; [cbn; lia|].
  rewrite hex_spaced_cons, app_length. change (length (hex2 x)) with 2%nat.
  cbn [length] in *. lia.
Qed.
