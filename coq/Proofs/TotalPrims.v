(* Proofs/TotalPrims.v — C02, part 1: the totality predicate `safe`, its combinator lemmas, and the
   decoder primitives / accessors / chunk loops (Model/Decoder.v) under it.

   good strict m s  : running m from state s
                        - leaves a state that is s advanced over a prefix of the remaining input
                          (`adv`: the position grows by exactly what was consumed, dlen unchanged),
                        - does not yield Panic, does not yield OutOfFuel,
                        - if strict: an Ok result consumed at least one byte.
   safe strict F m  : good strict m s for every s with fewer than F bytes left.  F is the fuel the
                      loops inside m were given; fuel-free computations are safe for every F. *)
From MC Require Import Bytes BytesFacts Monad Cbor Utf8 Half Decoder DecoderFacts.
From Coq Require Import Lia.
Local Open Scope N_scope.

(* ---------------------------------------------------------------- states *)
Definition rem (s : dst) : nat := length (drest s).

(* the state invariant: the remaining input is what lies between the position and the end
   (truncated subtraction: nothing remains once the position is at or beyond the end) *)
Definition st_ok (s : dst) : Prop := len (drest s) = dlen s - dpos s.

(* s' is s after consuming a prefix of the remaining input *)
Definition adv (s s' : dst) : Prop :=
  dlen s' = dlen s /\ exists pre, drest s = pre ++ drest s' /\ dpos s' = dpos s + len pre.

Lemma adv_refl s : adv s s.
Proof. split; [reflexivity|]. exists []. split; [reflexivity|]. change (len []) with 0. lia. Qed.

Lemma adv_trans s1 s2 s3 : adv s1 s2 -> adv s2 s3 -> adv s1 s3.
Proof.
  intros [L1 (p1 & R1 & P1)] [L2 (p2 & R2 & P2)]. split; [congruence|].
  exists (p1 ++ p2). split.
  - rewrite R1, R2. now rewrite app_assoc.
  - rewrite len_app. lia.
Qed.

Lemma adv_rem s s' : adv s s' -> (rem s' <= rem s)%nat.
Proof. intros [_ (p & R & _)]. unfold rem. rewrite R, app_length. lia. Qed.

Lemma adv_dlen s s' : adv s s' -> dlen s' = dlen s.
Proof. now intros [L _]. Qed.

Lemma adv_st_ok s s' : st_ok s -> adv s s' -> st_ok s'.
Proof.
  unfold st_ok. intros H [L (p & R & P)]. rewrite R, len_app in H. rewrite L, P. lia.
Qed.

(* the position never moves beyond max(position before, end of input) and never moves back *)
Lemma adv_pos s s' : st_ok s -> adv s s' -> dpos s <= dpos s' <= N.max (dpos s) (dlen s).
Proof.
  unfold st_ok. intros H [L (p & R & P)]. rewrite R, len_app in H. lia.
Qed.

(* inside the input, the position advances by exactly the number of bytes consumed *)
Lemma adv_consumed s s' : st_ok s -> dpos s <= dlen s -> adv s s' ->
  N.of_nat (rem s) = N.of_nat (rem s') + (dpos s' - dpos s).
Proof.
  unfold st_ok, rem. intros H Hp [L (p & R & P)]. rewrite R, len_app in H.
  rewrite R, app_length. unfold len in *. lia.
Qed.

Lemma st_ok_start bs : st_ok (start bs).
Proof. unfold st_ok, start. cbn [drest dlen dpos]. lia. Qed.

Lemma len_dropN {A} (l : list A) n : len (dropN l n) = len l - n.
Proof.
  revert n. induction l as [|x l IH]; intro n; cbn [dropN].
  - destruct (n =? 0); change (len (@nil A)) with 0; lia.
  - destruct (N.eqb_spec n 0) as [->|Hn]; [lia|]. rewrite IH, len_cons. lia.
Qed.

Lemma st_ok_at_pos inp p : st_ok (at_pos inp p).
Proof. unfold st_ok, at_pos. cbn [drest dlen dpos]. apply len_dropN. Qed.

(* ---------------------------------------------------------------- the predicate *)
Ltac split4 := split; [|split; [|split]].
Definition good {A} (strict : bool) (m : M A) (s : dst) : Prop :=
  forall r s', m s = (r, s') ->
    adv s s' /\ r <> Panic /\ r <> OutOfFuel /\
    (strict = true -> forall a, r = Ok a -> (rem s' < rem s)%nat).

Definition safe {A} (strict : bool) (F : nat) (m : M A) : Prop :=
  forall s, (rem s < F)%nat -> good strict m s.

(* what an Ok result satisfies *)
Definition ensures {A} (m : M A) (Q : A -> Prop) : Prop := forall s a s', m s = (Ok a, s') -> Q a.

Lemma good_weaken {A} b (m : M A) s : good true m s -> good b m s.
Proof.
  intros H r s' E. destruct (H r s' E) as (H1 & H2 & H3 & H4). split4; try assumption.
  intros _. now apply H4.
Qed.

Lemma good_false {A} b (m : M A) s : good b m s -> good false m s.
Proof.
  intros H r s' E. destruct (H r s' E) as (H1 & H2 & H3 & H4). split4; try assumption. discriminate.
Qed.

Lemma safe_weaken {A} b F (m : M A) : safe true F m -> safe b F m.
Proof. intros H s Hs. apply good_weaken. now apply H. Qed.

Lemma safe_le {A} b F F' (m : M A) : (F' <= F)%nat -> safe b F m -> safe b F' m.
Proof. intros HF H s Hs. apply H. lia. Qed.

Lemma good_ret {A} (a : A) s : good false (ret a) s.
Proof.
  intros r s' [= <- <-]. split4; try discriminate. apply adv_refl.
Qed.

Lemma good_fail {A} b e s : good b (@fail A e) s.
Proof.
  intros r s' [= <- <-]. split4; try discriminate. apply adv_refl.
Qed.

Lemma safe_ret {A} F (a : A) : safe false F (ret a).
Proof. intros s _. apply good_ret. Qed.

Lemma safe_fail {A} b F e : safe b F (@fail A e).
Proof. intros s _. apply good_fail. Qed.

(* the continuation is entered only from an Ok result of m, in a state that is not longer
   (strictly shorter if m is strict) *)
Lemma good_bind {A B} b1 b2 (m : M A) (f : A -> M B) s :
  good b1 m s ->
  (forall a s', m s = (Ok a, s') -> (rem s' <= rem s)%nat -> (b1 = true -> (rem s' < rem s)%nat) ->
                good b2 (f a) s') ->
  good (b1 || b2) (bind m f) s.
Proof.
  intros Hm Hf r s2. unfold bind. destruct (m s) as [[a|e| |] s1] eqn:E;
    destruct (Hm _ _ E) as (A1 & P1 & O1 & S1).
  - intro E2. pose proof (adv_rem _ _ A1) as R1.
    assert (S1' : b1 = true -> (rem s1 < rem s)%nat) by (intro Hb; now apply (S1 Hb a)).
    destruct (Hf a s1 eq_refl R1 S1' r s2 E2) as (A2 & P2 & O2 & S2).
    split4; try assumption.
    + now apply adv_trans with s1.
    + intros Hb a2 ->. pose proof (adv_rem _ _ A2) as R2.
      destruct b1; [specialize (S1' eq_refl); lia|]. cbn in Hb. specialize (S2 Hb a2 eq_refl). lia.
  - intros [= <- <-]. split4; try assumption; discriminate.
  - congruence.
  - congruence.
Qed.

Lemma safe_bind {A B} b1 b2 F (m : M A) (f : A -> M B) :
  safe b1 F m -> (forall a, safe b2 F (f a)) -> safe (b1 || b2) F (bind m f).
Proof.
  intros Hm Hf s Hs. apply good_bind; [now apply Hm|].
  intros a s' _ R _. apply Hf. lia.
Qed.

Lemma safe_bind_ens {A B} b1 b2 F (m : M A) (Q : A -> Prop) (f : A -> M B) :
  safe b1 F m -> ensures m Q -> (forall a, Q a -> safe b2 F (f a)) -> safe (b1 || b2) F (bind m f).
Proof.
  intros Hm HQ Hf s Hs. apply good_bind; [now apply Hm|].
  intros a s' E R _. apply Hf; [now apply (HQ _ _ _ E)|lia].
Qed.

Lemma safe_bind_ww {A B} F (m : M A) (f : A -> M B) :
  safe false F m -> (forall a, safe false F (f a)) -> safe false F (bind m f).
Proof. apply (safe_bind false false). Qed.
Lemma safe_bind_sw {A B} F (m : M A) (f : A -> M B) :
  safe true F m -> (forall a, safe false F (f a)) -> safe true F (bind m f).
Proof. apply (safe_bind true false). Qed.
Lemma safe_bind_ws {A B} F (m : M A) (f : A -> M B) :
  safe false F m -> (forall a, safe true F (f a)) -> safe true F (bind m f).
Proof. apply (safe_bind false true). Qed.

Lemma safe_fmap {A B} b F (g : A -> B) (m : M A) : safe b F m -> safe b F (fmap g m).
Proof.
  intro H. unfold fmap. replace b with (b || false)%bool by apply orb_false_r.
  apply safe_bind; [exact H|]. intro a. apply safe_ret.
Qed.

Lemma ensures_fmap {A B} (g : A -> B) (m : M A) (Q : B -> Prop) :
  (forall a, Q (g a)) -> ensures (fmap g m) Q.
Proof.
  intros H s b s'. unfold fmap, bind, ret. destruct (m s) as [[a|e| |] s1]; try discriminate.
  intros [= <- _]. apply H.
Qed.

(* ---------------------------------------------------------------- primitives *)
Lemma safe_current F : safe false F current.
Proof.
  intros s _ r s'. unfold current. destruct (drest s); intros [= <- <-];
    (split4; try discriminate; apply adv_refl).
Qed.

Lemma safe_peek F : safe false F peek.
Proof.
  intros s _ r s'. unfold peek. destruct (drest s) as [|? [|? ?]]; intros [= <- <-];
    (split4; try discriminate; apply adv_refl).
Qed.

Lemma safe_position F : safe false F position.
Proof. intros s _ r s' [= <- <-]. split4; try discriminate. apply adv_refl. Qed.

Lemma safe_read F : safe true F read.
Proof.
  intros s _ r s'. unfold read. destruct (drest s) as [|b t] eqn:E; intros [= <- <-].
  - split4; try discriminate. apply adv_refl.
  - split4; try discriminate.
    + split; [reflexivity|]. exists [b]. cbn [drest dpos app]. split; [exact E|]. reflexivity.
    + intros _ a _. unfold rem. rewrite E. cbn [drest length]. lia.
Qed.

(* read_slice n: not strict (n may be 0) *)
Lemma safe_read_slice F n : safe false F (read_slice n).
Proof.
  intros s _ r s'. unfold read_slice. destruct (dlen s <? dpos s).
  - intros [= <- <-]. split4; try discriminate. apply adv_refl.
  - destruct (take (drest s) n) as [[a t]|] eqn:E; intros [= <- <-].
    + apply take_spec in E as [E1 E2]. split4; try discriminate.
      split; [reflexivity|]. exists a. cbn [drest dpos]. split; [exact E1|]. now rewrite E2.
    + split4; try discriminate. apply adv_refl.
Qed.

Lemma safe_read_slice_pos F n : n <> 0 -> safe true F (read_slice n).
Proof.
  intros Hn s Hs r s' E. destruct (safe_read_slice F n s Hs r s' E) as (A1 & P1 & O1 & _).
  split4; try assumption. intros _ a ->.
  revert E. unfold read_slice. destruct (dlen s <? dpos s); [discriminate|].
  destruct (take (drest s) n) as [[x t]|] eqn:E; [|discriminate]. intros [= <- <-].
  apply take_spec in E as [E1 E2]. unfold rem. cbn [drest]. rewrite E1, app_length.
  assert (length x <> 0%nat); [|lia]. unfold len in E2. lia.
Qed.

Lemma safe_read_be F k : safe false F (read_be k).
Proof. unfold read_be. apply safe_fmap, safe_read_slice. Qed.

Lemma safe_read_be_pos F k : k <> 0%nat -> safe true F (read_be k).
Proof. intro H. unfold read_be. apply safe_fmap, safe_read_slice_pos. lia. Qed.

Ltac split_ifs :=
  repeat match goal with |- context [if ?c then _ else _] => destruct c end.

Lemma safe_type_of F n : safe false F (type_of n).
Proof.
  unfold type_of. split_ifs;
    first [ apply safe_ret
          | apply safe_bind_ww; [apply safe_peek | intro; apply safe_ret] ].
Qed.

(* mismatch never returns Ok, so it is vacuously strict *)
Lemma safe_mismatch {A} b F n : safe b F (@mismatch A n).
Proof.
  apply safe_weaken. unfold mismatch. apply safe_bind_ws; [apply safe_type_of|].
  intro t. apply safe_fail.
Qed.

Global Hint Resolve safe_ret safe_fail safe_mismatch safe_current safe_peek safe_position safe_read
  safe_read_slice safe_read_be safe_type_of : safe.

(* ---------------------------------------------------------------- automation *)
(* weak goals: everything composes; strict goals: find the strict component *)
Ltac safe_weak :=
  repeat first
    [ progress intros
    | apply safe_ret | apply safe_fail | apply safe_mismatch
    | match goal with
      | |- safe _ _ (if ?c then _ else _) => destruct c
      | |- safe _ _ (match ?x with _ => _ end) => destruct x
      | |- safe _ _ (fmap _ _) => apply safe_fmap
      | |- safe false _ (bind _ _) => apply safe_bind_ww
      end
    | solve [eauto with safe]
    | solve [apply safe_weaken; eauto with safe] ].

Ltac safe_strict :=
  repeat first
    [ progress intros
    | apply safe_fail | apply safe_mismatch
    | match goal with
      | |- safe _ _ (if ?c then _ else _) => destruct c
      | |- safe _ _ (match ?x with _ => _ end) => destruct x
      | |- safe _ _ (fmap _ _) => apply safe_fmap
      | |- safe true _ (bind _ _) =>
          first [ apply safe_bind_sw; [ solve [eauto with safe] | solve [safe_weak] ]
                | apply safe_bind_ws; [ solve [safe_weak] | ] ]
      end
    | solve [eauto with safe] ].

(* ---------------------------------------------------------------- accessors *)
Lemma safe_unsigned F b : safe false F (unsigned b).
Proof. unfold unsigned. safe_weak. Qed.
Global Hint Resolve safe_unsigned : safe.

Lemma safe_try_as F mx n : safe false F (try_as mx n).
Proof. unfold try_as. safe_weak. Qed.
Global Hint Resolve safe_try_as : safe.

Lemma safe_dec_uint F mx : safe true F (dec_uint mx).
Proof. unfold dec_uint. safe_strict. Qed.
Lemma safe_dec_sint F mx : safe true F (dec_sint mx).
Proof. unfold dec_sint. safe_strict. Qed.
Lemma safe_dec_int F : safe true F dec_int.
Proof. unfold dec_int. safe_strict. Qed.
Global Hint Resolve safe_dec_uint safe_dec_sint safe_dec_int : safe.

Lemma safe_dec_u8 F : safe true F dec_u8.   Proof. apply safe_dec_uint. Qed.
Lemma safe_dec_u16 F : safe true F dec_u16. Proof. apply safe_dec_uint. Qed.
Lemma safe_dec_u32 F : safe true F dec_u32. Proof. apply safe_dec_uint. Qed.
Lemma safe_dec_u64 F : safe true F dec_u64. Proof. apply safe_dec_uint. Qed.
Lemma safe_dec_i8 F : safe true F dec_i8.   Proof. apply safe_dec_sint. Qed.
Lemma safe_dec_i16 F : safe true F dec_i16. Proof. apply safe_dec_sint. Qed.
Lemma safe_dec_i32 F : safe true F dec_i32. Proof. apply safe_dec_sint. Qed.
Lemma safe_dec_i64 F : safe true F dec_i64. Proof. apply safe_dec_sint. Qed.
Global Hint Resolve safe_dec_u8 safe_dec_u16 safe_dec_u32 safe_dec_u64
  safe_dec_i8 safe_dec_i16 safe_dec_i32 safe_dec_i64 : safe.

Lemma safe_dec_f16 F : safe true F dec_f16.
Proof. unfold dec_f16. safe_strict. Qed.
Global Hint Resolve safe_dec_f16 : safe.

Lemma safe_dec_f32 F c : safe true F (dec_f32 c).
Proof. unfold dec_f32. safe_strict. Qed.
Global Hint Resolve safe_dec_f32 : safe.

Lemma safe_dec_f64 F c : safe true F (dec_f64 c).
Proof. unfold dec_f64. safe_strict. Qed.
Global Hint Resolve safe_dec_f64 : safe.

Lemma safe_dec_bool F : safe true F dec_bool.
Proof. unfold dec_bool. safe_strict. Qed.
Lemma safe_dec_char F : safe true F dec_char.
Proof. unfold dec_char. safe_strict. Qed.
Lemma safe_dec_bytes F : safe true F dec_bytes.
Proof. unfold dec_bytes. safe_strict. Qed.
Lemma safe_dec_str F : safe true F dec_str.
Proof. unfold dec_str. safe_strict. Qed.
Lemma safe_dec_container F mt : safe true F (dec_container mt).
Proof. unfold dec_container. safe_strict. Qed.
Lemma safe_dec_array F : safe true F dec_array.
Proof. apply safe_dec_container. Qed.
Lemma safe_dec_map F : safe true F dec_map.
Proof. apply safe_dec_container. Qed.
Lemma safe_dec_tag F : safe true F dec_tag.
Proof. unfold dec_tag. safe_strict. Qed.
Lemma safe_dec_null F : safe true F dec_null.
Proof. unfold dec_null. safe_strict. Qed.
Lemma safe_dec_undefined F : safe true F dec_undefined.
Proof. unfold dec_undefined. safe_strict. Qed.
Lemma safe_dec_simple F : safe true F dec_simple.
Proof. unfold dec_simple. safe_strict. Qed.
Lemma safe_datatype F : safe false F datatype.
Proof. unfold datatype. safe_weak. Qed.
Global Hint Resolve safe_dec_bool safe_dec_char safe_dec_bytes safe_dec_str safe_dec_container
  safe_dec_array safe_dec_map safe_dec_tag safe_dec_null safe_dec_undefined safe_dec_simple
  safe_datatype : safe.

(* ---------------------------------------------------------------- chunk loops *)
(* every iteration either fails or consumes at least one byte (`one` is strict), so `fuel` iterations
   suffice on fewer than `fuel` remaining bytes *)
Lemma good_chunks_until_break (one : M bytes) F : safe true F one ->
  forall fuel acc s, (rem s < fuel)%nat -> (rem s < F)%nat -> good true (chunks_until_break one fuel acc) s.
Proof.
  intros Hone. induction fuel as [|fuel IH]; intros acc s Hf HF; [lia|].
  cbn [chunks_until_break].
  apply (good_bind false true); [exact (safe_current F s HF)|].
  intros b s1 _ R1 _. destruct (b =? 255).
  - assert (G : safe true F (read ;;; ret (rev acc))) by safe_strict. refine (G s1 _). lia.
  - apply (good_bind true true); [refine (Hone s1 _); lia|].
    intros c s2 _ _ R2. specialize (R2 eq_refl). apply IH; lia.
Qed.

Lemma safe_chunks_until_break (one : M bytes) F fuel acc : safe true F one -> (F <= fuel)%nat ->
  safe true F (chunks_until_break one fuel acc).
Proof. intros H HF s Hs. apply good_chunks_until_break with F; try assumption; lia. Qed.

Lemma safe_dec_bytes_iter F fuel : (F <= fuel)%nat -> safe true F (dec_bytes_iter fuel).
Proof.
  intro HF. unfold dec_bytes_iter. apply safe_bind_sw; [apply safe_read|]. intro b.
  destruct (negb (major b =? 64)); [apply safe_mismatch|].
  destruct (info b =? 31).
  - apply safe_weaken, safe_chunks_until_break; [apply safe_dec_bytes|exact HF].
  - safe_weak.
Qed.

Lemma safe_dec_str_iter F fuel : (F <= fuel)%nat -> safe true F (dec_str_iter fuel).
Proof.
  intro HF. unfold dec_str_iter. apply safe_bind_sw; [apply safe_read|]. intro b.
  destruct (negb (major b =? 96)); [apply safe_mismatch|].
  destruct (info b =? 31).
  - apply safe_weaken, safe_chunks_until_break; [apply safe_dec_str|exact HF].
  - safe_weak.
Qed.

(* a computation that takes its fuel from the state it is started in *)
Lemma safe_auto {A} b (m : nat -> M A) :
  (forall fuel, safe b fuel (m fuel)) -> forall F, safe b F (fun s => m (fuel_of s) s).
Proof.
  intros H F s _ r s' E. apply (H (fuel_of s) s); [unfold fuel_of, rem; lia|exact E].
Qed.
