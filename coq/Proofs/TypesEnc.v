(* Proofs/TypesEnc.v — the encoder side of the built-in impls (Model/Types.v):
   induction principle for the nested type universe, the well-formedness predicate ty_ok,
   what each encoder emits (RFC 8949 preferred heads), non-emptiness and the first byte. *)
From MC Require Import Bytes BytesFacts Monad Cbor Utf8 Half Decoder Encoder Methods Types EncoderFacts DecoderFacts.
From Coq Require Import Lia.
Local Open Scope N_scope.

(* ---- induction over ty with the nested lists of TyTuple / TyFields / TyEnum ---- *)
Section TyInd.
  Variable P : ty -> Prop.
  Hypothesis HU : forall w, P (TyU w).
  Hypothesis HI : forall w, P (TyI w).
  Hypothesis HInt : P TyInt.
  Hypothesis HBool : P TyBool.
  Hypothesis HChar : P TyChar.
  Hypothesis HF32 : P TyF32.
  Hypothesis HF64 : P TyF64.
  Hypothesis HNZU : forall w, P (TyNZU w).
  Hypothesis HNZI : forall w, P (TyNZI w).
  Hypothesis HStr : P TyStr.
  Hypothesis HBytes : P TyBytes.
  Hypothesis HByteArr : forall n, P (TyByteArr n).
  Hypothesis HCStr : P TyCStr.
  Hypothesis HUnit : P TyUnit.
  Hypothesis HOpt : forall t, P t -> P (TyOpt t).
  Hypothesis HSeq : forall t, P t -> P (TySeq t).
  Hypothesis HArr : forall n t, P t -> P (TyArr n t).
  Hypothesis HMap : forall k v, P k -> P v -> P (TyMap k v).
  Hypothesis HTuple : forall ts, Forall P ts -> P (TyTuple ts).
  Hypothesis HFields : forall ts, Forall P ts -> P (TyFields ts).
  Hypothesis HEnum : forall ts, Forall P ts -> P (TyEnum ts).
  Hypothesis HBound : forall t, P t -> P (TyBound t).
  Hypothesis HTag : P TyTag.
  Hypothesis HTagged : forall n t, P t -> P (TyTagged n t).
  Hypothesis HDuration : P TyDuration.
  Hypothesis HSystemTime : P TySystemTime.

  Fixpoint ty_ind' (t : ty) : P t :=
    let fix all (ts : list ty) : Forall P ts :=
      match ts with
      | [] => Forall_nil P
      | t' :: r => Forall_cons t' (ty_ind' t') (all r)
      end in
    match t with
    | TyU w => HU w | TyI w => HI w | TyInt => HInt | TyBool => HBool | TyChar => HChar
    | TyF32 => HF32 | TyF64 => HF64 | TyNZU w => HNZU w | TyNZI w => HNZI w
    | TyStr => HStr | TyBytes => HBytes | TyByteArr n => HByteArr n | TyCStr => HCStr | TyUnit => HUnit
    | TyOpt t' => HOpt t' (ty_ind' t')
    | TySeq t' => HSeq t' (ty_ind' t')
    | TyArr n t' => HArr n t' (ty_ind' t')
    | TyMap k v => HMap k v (ty_ind' k) (ty_ind' v)
    | TyTuple ts => HTuple ts (all ts)
    | TyFields ts => HFields ts (all ts)
    | TyEnum ts => HEnum ts (all ts)
    | TyBound t' => HBound t' (ty_ind' t')
    | TyTag => HTag
    | TyTagged n t' => HTagged n t' (ty_ind' t')
    | TyDuration => HDuration | TySystemTime => HSystemTime
    end.
End TyInd.

(* ---- well-formed descriptors ----
   The descriptor universe is larger than the set of Rust types it stands for; ty_ok cuts it back:
   * TyTuple: Rust has tuples of 1..16 components (encode.rs:679, decode.rs:495); the header is the
     literal `$len` and its length the literal's cbor_len.  We only need the header to be a one-byte
     head that the decoder reads back as the same number: at most 23 components (0 allowed: it then
     coincides with TyUnit).
   * TyFields: the decode_fields! types (ranges, SocketAddrV4/V6, Duration) have 1 or 2 fields and their
     CborLen is literally `1 + …`; exact as long as the header is one byte: at most 23 fields.
   * TyEnum: Result, IpAddr, SocketAddr have 2 variants and CborLen `1 + 1 + payload`, i.e. the variant
     index is assumed to take one byte: at most 24 variants (index <= 23).
   Numeric parameters (TyByteArr n, TyArr n, TyTagged n) need no clause: the encoder itself refuses a
   tag >= 2^64, and a length parameter is compared with the actual length of the value, which is bounded
   by the buffer length (a usize) in the theorems. *)
Fixpoint ty_ok (t : ty) : bool :=
  match t with
  | TyOpt t' | TySeq t' | TyArr _ t' | TyBound t' | TyTagged _ t' => ty_ok t'
  | TyMap k v => ty_ok k && ty_ok v
  | TyTuple ts => (len ts <=? 23) && forallb ty_ok ts
  | TyFields ts => (len ts <=? 23) && forallb ty_ok ts
  | TyEnum ts => (len ts <=? 24) && forallb ty_ok ts
  | _ => true
  end.

(* ---- small general facts ---- *)
Lemma Some_inj {A} (a b : A) : Some a = Some b -> a = b.
Proof. now intros [= ->]. Qed.
(* like `injection H as <-` but without simplifying the term *)
Ltac inj_cs H := apply Some_inj in H; match type of H with _ = ?x => subst x end.
Lemma flat_nil : flat [] = [].
Proof. reflexivity. Qed.
Lemma flat_cons c cs : flat (c :: cs) = c ++ flat cs.
Proof. reflexivity. Qed.
Lemma flat_one c : flat [c] = c.
Proof. unfold flat. cbn [concat]. apply app_nil_r. Qed.

Lemma ocat_some a b cs : ocat a b = Some cs -> exists x y, a = Some x /\ b = Some y /\ cs = x ++ y.
Proof. destruct a as [x|], b as [y|]; cbn [ocat]; intro H; try discriminate. injection H as <-. eauto. Qed.

Lemma fits_min_width n : n < 18446744073709551616 -> fits (min_width n) n = true.
Proof.
  intro H. unfold min_width.
  destruct (N.ltb_spec n 24); [cbn [fits]; now apply N.ltb_lt|].
  destruct (N.ltb_spec n 256); [cbn [fits]; now apply N.ltb_lt|].
  destruct (N.ltb_spec n 65536); [cbn [fits]; now apply N.ltb_lt|].
  destruct (N.ltb_spec n 4294967296); cbn [fits]; now apply N.ltb_lt.
Qed.

Lemma umax_lt w : umax w < 18446744073709551616.
Proof. destruct w; cbn [umax]; lia. Qed.
Lemma imax_lt w : imax w < 9223372036854775808.
Proof. destruct w; cbn [imax]; lia. Qed.

(* ---- what the encoder methods emit ---- *)
Lemma enc_uw_head w n : n <= umax w -> flat (enc_uw w n) = phead 0 n.
Proof.
  destruct w; cbn [umax enc_uw]; intro H.
  - apply enc_u8_head; lia.
  - apply enc_u16_head; lia.
  - apply enc_u32_head; lia.
  - apply enc_u64_head; lia.
Qed.

Lemma zin_spec w z : zin w z = true <-> (-1 - Z.of_N (imax w) <= z <= Z.of_N (imax w))%Z.
Proof. unfold zin. rewrite andb_true_iff, !Z.leb_le. tauto. Qed.

Lemma enc_iw_head w z : zin w z = true ->
  flat (enc_iw w z) = if (0 <=? z)%Z then phead 0 (Z.to_N z) else phead 1 (neg_arg z).
Proof.
  intro H. apply zin_spec in H.
  destruct (Z.leb_spec 0 z) as [Hz|Hz].
  - rewrite <- z_item_pos by assumption.
    destruct w; cbn [imax enc_iw] in *;
      [apply enc_i8_ok|apply enc_i16_ok|apply enc_i32_ok|apply enc_i64_ok];
      unfold zrange; apply andb_true_intro; split; apply Z.leb_le; lia.
  - rewrite <- z_item_neg by assumption.
    destruct w; cbn [imax enc_iw] in *;
      [apply enc_i8_ok|apply enc_i16_ok|apply enc_i32_ok|apply enc_i64_ok];
      unfold zrange; apply andb_true_intro; split; apply Z.leb_le; lia.
Qed.

Lemma enc_array_head n : n < 18446744073709551616 -> flat (enc_array n) = phead 4 n.
Proof. unfold enc_array. change ARRAY with (4 * 32). apply type_len_head. Qed.
Lemma enc_map_head n : n < 18446744073709551616 -> flat (enc_map n) = phead 5 n.
Proof. unfold enc_map. change MAP with (5 * 32). apply type_len_head. Qed.
Lemma enc_tag_head n : n < 18446744073709551616 -> flat (enc_tag n) = phead 6 n.
Proof. unfold enc_tag. change TAGGED with (6 * 32). apply type_len_head. Qed.
Lemma enc_bytes_head b : len b < 18446744073709551616 -> flat (enc_bytes b) = phead 2 (len b) ++ b.
Proof.
  intro H. unfold enc_bytes. rewrite flat_app, flat_one. change BYTES with (2 * 32).
  now rewrite type_len_head.
Qed.
Lemma enc_str_head b : len b < 18446744073709551616 -> flat (enc_str b) = phead 3 (len b) ++ b.
Proof.
  intro H. unfold enc_str. rewrite flat_app, flat_one. change TEXT with (3 * 32).
  now rewrite type_len_head.
Qed.

(* the length of any head, without a bound on the argument (be 8 truncates) *)
Lemma len_type_len t x : len (flat (type_len t x)) = len_u64 x.
Proof.
  unfold type_len, len_u64.
  destruct (N.leb_spec x 23); [reflexivity|].
  destruct (N.leb_spec x 255); [reflexivity|].
  destruct (N.leb_spec x 65535); [reflexivity|].
  destruct (N.leb_spec x 4294967295); reflexivity.
Qed.

Lemma len_phead mt n : len (phead mt n) = len_u64 n.
Proof.
  unfold phead. rewrite len_head. unfold min_width, len_u64.
  destruct (N.ltb_spec n 24); [destruct (N.leb_spec n 23); [reflexivity|lia]|].
  destruct (N.leb_spec n 23); [lia|].
  destruct (N.ltb_spec n 256); [destruct (N.leb_spec n 255); [reflexivity|lia]|].
  destruct (N.leb_spec n 255); [lia|].
  destruct (N.ltb_spec n 65536); [destruct (N.leb_spec n 65535); [reflexivity|lia]|].
  destruct (N.leb_spec n 65535); [lia|].
  destruct (N.ltb_spec n 4294967296); destruct (N.leb_spec n 4294967295); try lia; reflexivity.
Qed.

Lemma len_uw_u64 w n : n <= umax w -> len_uw w n = len_u64 n.
Proof.
  destruct w; cbn [umax len_uw]; intro H; unfold len_u8, len_u16, len_u32, len_u64;
    destruct (N.leb_spec n 23); try reflexivity;
    destruct (N.leb_spec n 255); try reflexivity; try lia;
    destruct (N.leb_spec n 65535); try reflexivity; try lia;
    destruct (N.leb_spec n 4294967295); try reflexivity; lia.
Qed.

Lemma len_enc_uw w n : n <= umax w -> len (flat (enc_uw w n)) = len_uw w n.
Proof. intro H. rewrite enc_uw_head, len_phead, len_uw_u64 by assumption. reflexivity. Qed.

Lemma len_enc_iw w z : zin w z = true -> len (flat (enc_iw w z)) = len_iw w z.
Proof.
  intro H. rewrite enc_iw_head by assumption. apply zin_spec in H. unfold len_iw, neg_arg.
  pose proof (imax_lt w) as Hm. pose proof (umax_lt w) as Hu.
  assert (Hiu: imax w <= umax w) by (destruct w; cbn [imax umax]; lia).
  destruct (Z.leb_spec 0 z); rewrite len_phead, len_uw_u64; try reflexivity; lia.
Qed.

Lemma len_enc_u64 n : len (flat (enc_u64 n)) = len_u64 n.
Proof.
  unfold enc_u64, len_u64.
  destruct (N.leb_spec n 23); [reflexivity|].
  destruct (N.leb_spec n 255); [reflexivity|].
  destruct (N.leb_spec n 65535); [reflexivity|].
  destruct (N.leb_spec n 4294967295); reflexivity.
Qed.
Lemma len_enc_neg64 n : len (flat (enc_neg64 n)) = len_u64 n.
Proof.
  unfold enc_neg64, len_u64.
  destruct (N.leb_spec n 23); [reflexivity|].
  destruct (N.leb_spec n 255); [reflexivity|].
  destruct (N.leb_spec n 65535); [reflexivity|].
  destruct (N.leb_spec n 4294967295); reflexivity.
Qed.
Lemma len_enc_u32 n : len (flat (enc_u32 n)) = len_u32 n.
Proof.
  unfold enc_u32, len_u32.
  destruct (N.leb_spec n 23); [reflexivity|].
  destruct (N.leb_spec n 255); [reflexivity|].
  destruct (N.leb_spec n 65535); reflexivity.
Qed.

Lemma len_flat_app a b : len (flat (a ++ b)) = len (flat a) + len (flat b).
Proof. now rewrite flat_app, len_app. Qed.

(* ---- list helpers ---- *)
Lemma nth_error_map_inv {A B} (f : A -> B) l k y :
  nth_error (map f l) k = Some y -> exists x, nth_error l k = Some x /\ f x = y.
Proof.
  revert k. induction l as [|a l IH]; intros [|k]; cbn [map nth_error]; intro H; try discriminate.
  - injection H as <-. eauto.
  - now apply IH.
Qed.

Lemma nth_error_lt {A} (l : list A) k x : nth_error l k = Some x -> (k < length l)%nat.
Proof. intro H. apply nth_error_Some. congruence. Qed.
