(* Proofs/HeadFacts.v — C11, part 2: Decode for Token on a serialised head returns the token the
   specification (Spec/Toks.v) assigns to that head and stops right after it (after the payload for
   definite strings). *)
From MC Require Import Bytes BytesFacts Monad Cbor Utf8 Half Decoder DecoderFacts IntFacts AdvFacts Encoder Text Token Tokenizer Toks TokenFacts.
From Coq Require Import Lia.
Local Open Scope N_scope.

Ltac split_ifs :=
  repeat match goal with
  | |- context [if (?a <=? ?b) then _ else _] => destruct (N.leb_spec a b); try lia
  | |- context [if (?a =? ?b) then _ else _] => destruct (N.eqb_spec a b); try lia
  | |- context [if (?a <? ?b) then _ else _] => destruct (N.ltb_spec a b); try lia
  | |- context [(?a <=? ?b) && _] => destruct (N.leb_spec a b); try lia; cbn [andb orb]
  | |- context [(?a <=? ?b) || _] => destruct (N.leb_spec a b); try lia; cbn [andb orb]
  | |- context [(?a =? ?b) || _] => destruct (N.eqb_spec a b); try lia; cbn [andb orb]
  | |- context [_ && (?a <=? ?b)] => destruct (N.leb_spec a b); try lia; cbn [andb orb]
  end.

(* the type of an initial byte with major type mt >= 2 and additional information a < 28 *)
Definition mt_type (mt : N) : ctype :=
  if mt =? 2 then TBytes else if mt =? 3 then TString else if mt =? 4 then TArray
  else if mt =? 5 then TMap else TTag.

Lemma type_of_mt mt a : 2 <= mt <= 6 -> a < 28 -> type_of (mt * 32 + a) = ret (mt_type mt).
Proof.
  intros Hm Ha. unfold type_of, mt_type.
  assert (mt = 2 \/ mt = 3 \/ mt = 4 \/ mt = 5 \/ mt = 6) as [->|[->|[->|[->| ->]]]] by lia;
    split_ifs; reflexivity.
Qed.

Lemma datatype_head mt w n r p L : 2 <= mt <= 6 -> fits w n = true ->
  datatype (mkdst p (Cbor.head mt w n ++ r) L) = (Ok (mt_type mt), mkdst p (Cbor.head mt w n ++ r) L).
Proof.
  intros Hm Hf. unfold datatype. rewrite head_split. cbn [app].
  rewrite (bind_ok _ _ _ _ _ (current_cons _ _ _ _)). unfold ib.
  rewrite type_of_mt; [reflexivity|exact Hm|now apply ai_lt].
Qed.

(* a definite-length header: read, major/info tests, unsigned *)
Lemma head_arg (mt : N) w n r p L : fits w n = true -> p + len (Cbor.head mt w n) <= L ->
  (b <- read ;; unsigned (info b)) (mkdst p (Cbor.head mt w n ++ r) L)
  = (Ok n, mkdst (p + len (Cbor.head mt w n)) r L).
Proof.
  intros Hf HL. rewrite len_ser_int in *. rewrite head_split. cbn [app].
  rewrite (bind_ok _ _ _ _ _ (read_cons _ _ _ _)). rewrite info_ib by exact Hf.
  rewrite (unsigned_args w n r (p + 1) L Hf ltac:(lia)). f_equal. f_equal. lia.
Qed.

Lemma dec_container_head mt w n r p L : 2 <= mt <= 6 -> fits w n = true -> p + len (Cbor.head mt w n) <= L ->
  dec_container (mt * 32) (mkdst p (Cbor.head mt w n ++ r) L)
  = (Ok (Some n), mkdst (p + len (Cbor.head mt w n)) r L).
Proof.
  intros Hm Hf HL. rewrite len_ser_int in *. rewrite head_split. cbn [app]. unfold dec_container.
  rewrite (bind_ok _ _ _ _ _ (read_cons _ _ _ _)). rewrite major_ib, info_ib by exact Hf.
  rewrite N.eqb_refl. cbn [negb]. pose proof (ai_lt w n Hf).
  destruct (N.eqb_spec (ai w n) 31); [lia|].
  rewrite (bind_ok _ _ _ _ _ (unsigned_args w n r (p + 1) L Hf ltac:(lia))). unfold ret. f_equal. f_equal. lia.
Qed.

Ltac tok_start D :=
  unfold dec_token; rewrite (bind_ok _ _ _ _ _ D).

Lemma tok_array c w n r p L : fits w n = true -> p + len (Cbor.head 4 w n) <= L ->
  dec_token c (mkdst p (Cbor.head 4 w n ++ r) L) = (Ok (TkArray n), mkdst (p + len (Cbor.head 4 w n)) r L).
Proof.
  intros Hf HL. tok_start (datatype_head 4 w n r p L ltac:(lia) Hf). cbn [mt_type N.eqb Pos.eqb].
  change (mt_type 4) with TArray. cbv iota. unfold dec_array. change 128 with (4 * 32).
  rewrite (bind_ok _ _ _ _ _ (dec_container_head 4 w n r p L ltac:(lia) Hf HL)). reflexivity.
Qed.

Lemma tok_map c w n r p L : fits w n = true -> p + len (Cbor.head 5 w n) <= L ->
  dec_token c (mkdst p (Cbor.head 5 w n ++ r) L) = (Ok (TkMap n), mkdst (p + len (Cbor.head 5 w n)) r L).
Proof.
  intros Hf HL. tok_start (datatype_head 5 w n r p L ltac:(lia) Hf).
  change (mt_type 5) with TMap. cbv iota. unfold dec_map. change 160 with (5 * 32).
  rewrite (bind_ok _ _ _ _ _ (dec_container_head 5 w n r p L ltac:(lia) Hf HL)). reflexivity.
Qed.

Lemma tok_tag c w n r p L : fits w n = true -> p + len (Cbor.head 6 w n) <= L ->
  dec_token c (mkdst p (Cbor.head 6 w n ++ r) L) = (Ok (TkTag n), mkdst (p + len (Cbor.head 6 w n)) r L).
Proof.
  intros Hf HL. tok_start (datatype_head 6 w n r p L ltac:(lia) Hf).
  change (mt_type 6) with TTag. cbv iota. apply fmap_ok. unfold dec_tag.
  pose proof (len_ser_int 6 w n) as HK. set (K := len (Cbor.head 6 w n)) in *.
  rewrite head_split. cbn [app].
  rewrite (bind_ok _ _ _ _ _ (read_cons _ _ _ _)). rewrite major_ib, info_ib by exact Hf.
  change (6 * 32 =? 192) with true. cbn [negb].
  rewrite (unsigned_args w n r (p + 1) L Hf ltac:(lia)). f_equal. f_equal. lia.
Qed.

Lemma tok_bytes c w b r p L : fits w (len b) = true -> p + len (Cbor.head 2 w (len b) ++ b) <= L ->
  dec_token c (mkdst p ((Cbor.head 2 w (len b) ++ b) ++ r) L)
  = (Ok (TkBytes b), mkdst (p + len (Cbor.head 2 w (len b) ++ b)) r L).
Proof.
  intros Hf HL. rewrite <- app_assoc. rewrite len_app in *.
  tok_start (datatype_head 2 w (len b) (b ++ r) p L ltac:(lia) Hf).
  change (mt_type 2) with TBytes. cbv iota. apply fmap_ok. unfold dec_bytes.
  pose proof (len_ser_int 2 w (len b)) as HK. set (K := len (Cbor.head 2 w (len b))) in *.
  rewrite head_split. cbn [app].
  rewrite (bind_ok _ _ _ _ _ (read_cons _ _ _ _)). rewrite major_ib, info_ib by exact Hf.
  change (2 * 32 =? 64) with true. cbn [negb orb]. pose proof (ai_lt w _ Hf).
  destruct (N.eqb_spec (ai w (len b)) 31); [lia|].
  rewrite (bind_ok _ _ _ _ _ (unsigned_args w (len b) (b ++ r) (p + 1) L Hf ltac:(lia))).
  rewrite read_slice_app by lia. f_equal. f_equal. lia.
Qed.

Lemma tok_text' c w b r p L : fits w (len b) = true -> utf8_valid b = true -> p + len (Cbor.head 3 w (len b) ++ b) <= L ->
  dec_token c (mkdst p ((Cbor.head 3 w (len b) ++ b) ++ r) L)
  = (Ok (TkString b), mkdst (p + len (Cbor.head 3 w (len b) ++ b)) r L).
Proof.
  intros Hf Hu HL. rewrite <- app_assoc. rewrite len_app in *.
  tok_start (datatype_head 3 w (len b) (b ++ r) p L ltac:(lia) Hf).
  change (mt_type 3) with TString. cbv iota. apply fmap_ok. unfold dec_str.
  pose proof (len_ser_int 3 w (len b)) as HK. set (K := len (Cbor.head 3 w (len b))) in *.
  rewrite head_split. cbn [app].
  rewrite (bind_ok _ _ _ _ _ (read_cons _ _ _ _)). rewrite major_ib, info_ib by exact Hf.
  change (3 * 32 =? 96) with true. cbn [negb orb]. pose proof (ai_lt w _ Hf).
  destruct (N.eqb_spec (ai w (len b)) 31); [lia|].
  rewrite (bind_ok _ _ _ _ _ (unsigned_args w (len b) (b ++ r) (p + 1) L Hf ltac:(lia))).
  rewrite (bind_ok _ _ _ _ _ (read_slice_app b r (p + 1 + len (args w (len b))) L ltac:(lia))). rewrite Hu.
  unfold ret. f_equal. f_equal. lia.
Qed.

(* ---- integers ---- *)
Lemma tok_uint c w n r p L : fits w n = true -> p + len (Cbor.head 0 w n) <= L ->
  dec_token c (mkdst p (Cbor.head 0 w n ++ r) L) = (Ok (uint_tok w n), mkdst (p + len (Cbor.head 0 w n)) r L).
Proof.
  intros Hf HL. tok_start (datatype_uint w n r p L Hf). pose proof Hf as Hf'.
  destruct w; cbn [uint_type uint_tok fits] in *; apply N.ltb_lt in Hf'; apply fmap_ok;
    unfold dec_u8, dec_u16, dec_u32, dec_u64; rewrite dec_uint_uint by assumption;
    match goal with |- context [?a <=? ?b] => destruct (N.leb_spec a b); [reflexivity|lia] end.
Qed.

Lemma tok_nint c w n r p L : fits w n = true -> p + len (Cbor.head 1 w n) <= L ->
  dec_token c (mkdst p (Cbor.head 1 w n ++ r) L) = (Ok (nint_tok w n), mkdst (p + len (Cbor.head 1 w n)) r L).
Proof.
  intros Hf HL. tok_start (datatype_nint w n r p L Hf). pose proof Hf as Hf'.
  destruct w; cbn [nint_type nint_tok fits] in *; apply N.ltb_lt in Hf';
    repeat match goal with |- context [if (?a <? ?b) then _ else _] => destruct (N.ltb_spec a b) end;
    try (apply fmap_ok; unfold dec_i8, dec_i16, dec_i32, dec_i64; rewrite dec_sint_nint by assumption;
         match goal with |- context [?a <=? ?b] => destruct (N.leb_spec a b); [reflexivity|lia] end).
  apply fmap_ok. now apply dec_int_nint.
Qed.

(* ---- one-byte tokens ---- *)
Lemma skip_byte_cons b r p L : p + 1 <= L -> L < two64 ->
  skip_byte (mkdst p (b :: r) L) = (Ok tt, mkdst (p + 1) r L).
Proof. intros H1 H2. unfold skip_byte. cbn [dpos drest dlen tl]. destruct (N.ltb_spec (p + 1) two64); [reflexivity|lia]. Qed.

Lemma datatype_cons b r p L : datatype (mkdst p (b :: r) L) = type_of b (mkdst p (b :: r) L).
Proof. reflexivity. Qed.

Ltac one_byte t H1 H2 :=
  match goal with |- dec_token _ ?s = _ =>
    let D := fresh "D" in
    assert (D: datatype s = (Ok t, s)) by reflexivity;
    tok_start D; cbv iota;
    rewrite (bind_ok _ _ _ _ _ (skip_byte_cons _ _ _ _ H1 H2)); reflexivity
  end.

Lemma tok_begin_bytes c r p L : p + 1 <= L -> L < two64 ->
  dec_token c (mkdst p (95 :: r) L) = (Ok TkBeginBytes, mkdst (p + 1) r L).
Proof. intros H1 H2. one_byte TBytesIndef H1 H2. Qed.
Lemma tok_begin_text c r p L : p + 1 <= L -> L < two64 ->
  dec_token c (mkdst p (127 :: r) L) = (Ok TkBeginString, mkdst (p + 1) r L).
Proof. intros H1 H2. one_byte TStringIndef H1 H2. Qed.
Lemma tok_begin_array c r p L : p + 1 <= L -> L < two64 ->
  dec_token c (mkdst p (159 :: r) L) = (Ok TkBeginArray, mkdst (p + 1) r L).
Proof. intros H1 H2. one_byte TArrayIndef H1 H2. Qed.
Lemma tok_begin_map c r p L : p + 1 <= L -> L < two64 ->
  dec_token c (mkdst p (191 :: r) L) = (Ok TkBeginMap, mkdst (p + 1) r L).
Proof. intros H1 H2. one_byte TMapIndef H1 H2. Qed.
Lemma tok_break c r p L : p + 1 <= L -> L < two64 ->
  dec_token c (mkdst p (255 :: r) L) = (Ok TkBreak, mkdst (p + 1) r L).
Proof. intros H1 H2. one_byte TBreak H1 H2. Qed.
Lemma tok_null c r p L : p + 1 <= L -> L < two64 ->
  dec_token c (mkdst p (246 :: r) L) = (Ok TkNull, mkdst (p + 1) r L).
Proof. intros H1 H2. one_byte TNull H1 H2. Qed.
Lemma tok_undefined c r p L : p + 1 <= L -> L < two64 ->
  dec_token c (mkdst p (247 :: r) L) = (Ok TkUndefined, mkdst (p + 1) r L).
Proof. intros H1 H2. one_byte TUndefined H1 H2. Qed.

Lemma tok_false c r p L : dec_token c (mkdst p (244 :: r) L) = (Ok (TkBool false), mkdst (p + 1) r L).
Proof. reflexivity. Qed.
Lemma tok_true c r p L : dec_token c (mkdst p (245 :: r) L) = (Ok (TkBool true), mkdst (p + 1) r L).
Proof. reflexivity. Qed.

(* ---- simple values ---- *)
Lemma tok_simple_small c n r p L : n < 20 ->
  dec_token c (mkdst p ((224 + n) :: r) L) = (Ok (TkSimple n), mkdst (p + 1) r L).
Proof.
  intro Hn.
  assert (T: type_of (224 + n) = ret TSimple) by (unfold type_of; split_ifs; reflexivity).
  assert (D: datatype (mkdst p ((224 + n) :: r) L) = (Ok TSimple, mkdst p ((224 + n) :: r) L)) by (rewrite datatype_cons, T; reflexivity).
  tok_start D. cbv iota. apply fmap_ok. unfold dec_simple.
  rewrite (bind_ok _ _ _ _ _ (read_cons _ _ _ _)).
  destruct (N.leb_spec 224 (224 + n)); [|lia]. destruct (N.leb_spec (224 + n) 243); [|lia]. cbn [andb].
  unfold ret. f_equal. f_equal. lia.
Qed.

Lemma tok_simple_ext c n r p L :
  dec_token c (mkdst p (248 :: n :: r) L) = (Ok (TkSimple n), mkdst (p + 1 + 1) r L).
Proof. reflexivity. Qed.

Lemma tok_simple c n r p L : wf (ESimple n) = true -> p + len (ser (ESimple n)) <= L -> L < two64 ->
  dec_token c (mkdst p (ser (ESimple n) ++ r) L) = (Ok (simple_tok n), mkdst (p + len (ser (ESimple n))) r L).
Proof.
  cbn [wf ser]. intros Hw HL HL2. destruct (N.ltb_spec n 24) as [Hn|Hn]; cbn [app].
  - change (len [224 + n]) with 1 in *.
    assert (n < 20 \/ n = 20 \/ n = 21 \/ n = 22 \/ n = 23) as [H|[->|[->|[->| ->]]]] by lia.
    + unfold simple_tok. split_ifs. now apply tok_simple_small.
    + apply tok_false.
    + apply tok_true.
    + now apply tok_null.
    + now apply tok_undefined.
  - cbn [orb] in Hw. apply andb_prop in Hw as [H1 H2]. apply N.leb_le in H1.
    unfold simple_tok. split_ifs. rewrite tok_simple_ext. change (len [248; n]) with 2. f_equal. f_equal. lia.
Qed.

(* ---- floats ---- *)
Lemma tok_f16 c b r p L : b < 65536 -> p + 3 <= L ->
  dec_token c (mkdst p (249 :: be 2 b ++ r) L) = (Ok (TkF16 (f16_to_f32 b)), mkdst (p + 3) r L).
Proof.
  intros Hb HL.
  match goal with |- dec_token _ ?s = _ => assert (D: datatype s = (Ok TF16, s)) by reflexivity end.
  tok_start D. cbv iota.
  apply fmap_ok. unfold dec_f16. rewrite (bind_ok _ _ _ _ _ (read_cons _ _ _ _)).
  change (negb (249 =? 249)) with false. cbv iota.
  rewrite (bind_ok _ _ _ _ _ (read_be_app 2 b r (p + 1) L ltac:(lia) ltac:(exact Hb))).
  unfold ret. f_equal. f_equal. lia.
Qed.

Lemma tok_f32 c b r p L : b < 4294967296 -> p + 5 <= L ->
  dec_token c (mkdst p (250 :: be 4 b ++ r) L) = (Ok (TkF32 b), mkdst (p + 5) r L).
Proof.
  intros Hb HL.
  match goal with |- dec_token _ ?s = _ => assert (D: datatype s = (Ok TF32, s)) by reflexivity end.
  tok_start D. cbv iota.
  apply fmap_ok. unfold dec_f32. rewrite (bind_ok _ _ _ _ _ (current_cons _ _ _ _)).
  change (250 =? 249) with false. rewrite andb_false_r. change (250 =? 250) with true. cbv iota.
  rewrite (bind_ok _ _ _ _ _ (read_cons _ _ _ _)).
  rewrite (read_be_app 4 b r (p + 1) L ltac:(lia) ltac:(exact Hb)). f_equal. f_equal. lia.
Qed.

Lemma tok_f64 c b r p L : b < 18446744073709551616 -> p + 9 <= L ->
  dec_token c (mkdst p (251 :: be 8 b ++ r) L) = (Ok (TkF64 b), mkdst (p + 9) r L).
Proof.
  intros Hb HL.
  match goal with |- dec_token _ ?s = _ => assert (D: datatype s = (Ok TF64, s)) by reflexivity end.
  tok_start D. cbv iota.
  apply fmap_ok. unfold dec_f64. rewrite (bind_ok _ _ _ _ _ (current_cons _ _ _ _)).
  change (251 =? 249) with false. rewrite andb_false_r. change (251 =? 250) with false. change (251 =? 251) with true. cbv iota.
  rewrite (bind_ok _ _ _ _ _ (read_cons _ _ _ _)).
  rewrite (read_be_app 8 b r (p + 1) L ltac:(lia) ltac:(exact Hb)). f_equal. f_equal. lia.
Qed.
