(* Proofs/DeriveInvSchema.v — C08 invariance for every definition of a schema simultaneously. *)
From MC Require Import Bytes BytesFacts Cbor Encoder Types DeriveSchema DeriveEnc DeriveLen DeriveDoc DeriveKnown DeriveCompat
  DeriveFacts DeriveDocFacts DeriveInvFacts.
From Coq Require Import Lia Permutation.
Local Open Scope N_scope.

Lemma asc_same_keys {A B} (ka : A -> N) (kb : B -> N) : forall l l' p, map ka l = map kb l' -> asc ka p l -> asc kb p l'.
Proof.
  induction l as [|x r IH]; intros [|y r'] p; cbn [map asc]; try discriminate; [auto|].
  intros [= E1 E2] [H1 H2]. split; [now rewrite <- E1|]. rewrite <- E1. now apply IH.
Qed.

Lemma Forall2_len {A B} (P : A -> B -> Prop) l l' : Forall2 P l l' -> length l = length l'.
Proof. induction 1; cbn [length]; congruence. Qed.

Section Rel.
Variable R : nat -> value -> value -> Prop.
Variable rec rec' : nat -> value -> option (list chunk).
Hypothesis Hrec : forall d v v', R d v v' -> rec d v = rec' d v'.

Lemma enc_all_rel (f f' : value -> option (list chunk)) (P : value -> value -> Prop) :
  (forall a b, P a b -> f a = f' b) -> forall l l', Forall2 P l l' -> enc_all f l = enc_all f' l'.
Proof. intros H l l'. induction 1; cbn [enc_all]; [reflexivity|]. now rewrite (H _ _ H0), IHForall2. Qed.

Lemma enc_fty_rel f : forall v v', fty_rel R f v v' -> enc_fty rec f v = enc_fty rec' f v'.
Proof.
  induction f as [t|d|g IH|g IH]; intros v v' H; cbn [fty_rel] in H.
  - now subst.
  - cbn. now apply Hrec.
  - destruct v, v'; try contradiction; cbn; auto.
  - destruct v, v'; try contradiction. cbn [enc_fty].
    assert (El : len l = len l0) by (unfold len; now rewrite (Forall2_len _ _ _ H)). rewrite El. f_equal.
    eapply enc_all_rel; [exact IH|exact H].
Qed.

Lemma pair_nil x x' : pair_rel R x x' -> fld_is_nil (fst x) (snd x) = fld_is_nil (fst x') (snd x').
Proof.
  intros [E H]. rewrite <- (nil_erase _ _ _ E). unfold fld_is_nil. destruct (f_codec (fst x)) as [| |[|]].
  - unfold trait_is_nil. destruct (f_ty (fst x)) as [t| | |]; cbn [fty_rel] in H.
    + now rewrite H.
    + reflexivity.
    + destruct (snd x), (snd x'); try contradiction; reflexivity.
    + reflexivity.
  - destruct H as [H _]. now rewrite H.
  - now rewrite H.
  - now rewrite H.
Qed.

Lemma pair_enc x x' : pair_rel R x x' -> enc_field_fn rec (fst x) (snd x) = enc_field_fn rec' (fst x') (snd x').
Proof.
  intros [E H]. destruct (eraseb_proj _ _ E) as (_ & _ & Ec & Es & Et).
  unfold enc_field_fn. rewrite <- Ec, <- Et. destruct (f_codec (fst x)) as [| |[|]].
  - now apply enc_fty_rel.
  - destruct H as [H [t Ht]]. rewrite H, Ht. reflexivity.
  - now rewrite H.
  - now rewrite H.
Qed.

(* the encoders on sorted lists whose (field, value) pairs correspond *)
Definition fvl (vs : list value) (l : list pfield) : list (field * value) := map (fv vs) l.

Lemma max_index_rel : forall l l' vs vs' acc, Forall2 (pair_rel R) (fvl vs l) (fvl vs' l') -> max_index l vs acc = max_index l' vs' acc.
Proof.
  induction l as [|pf r IH]; intros [|pf' r'] vs vs' acc H; inversion H; subst; [reflexivity|]. cbn [max_index].
  pose proof (pair_nil _ _ H3) as Hn. cbn [fv fst snd] in Hn. rewrite Hn.
  destruct H3 as [E _]. destruct (eraseb_proj _ _ E) as (Ei & _). cbn [fv fst] in Ei. unfold pf_idx. rewrite Ei. now apply IH.
Qed.
Lemma arr_stmts_rel i : forall l l' vs vs' p, Forall2 (pair_rel R) (fvl vs l) (fvl vs' l') -> arr_stmts rec l vs p i = arr_stmts rec' l' vs' p i.
Proof.
  induction l as [|pf r IH]; intros [|pf' r'] vs vs' p H; inversion H; subst; [reflexivity|]. cbn [arr_stmts].
  pose proof (pair_enc _ _ H3) as He. cbn [fv fst snd] in He. rewrite He.
  destruct H3 as [E _]. destruct (eraseb_proj _ _ E) as (Ei & Et & _). cbn [fv fst] in Ei, Et. unfold pf_idx. rewrite Ei, Et. f_equal. now apply IH.
Qed.
Lemma max_fields_rel : forall l l' vs vs' acc, Forall2 (pair_rel R) (fvl vs l) (fvl vs' l') -> max_fields l vs acc = max_fields l' vs' acc.
Proof.
  induction l as [|pf r IH]; intros [|pf' r'] vs vs' acc H; inversion H; subst; [reflexivity|]. cbn [max_fields].
  pose proof (pair_nil _ _ H3) as Hn. cbn [fv fst snd] in Hn. rewrite Hn. now apply IH.
Qed.
Lemma map_stmts_rel : forall l l' vs vs', Forall2 (pair_rel R) (fvl vs l) (fvl vs' l') -> enc_map_stmts rec l vs = enc_map_stmts rec' l' vs'.
Proof.
  induction l as [|pf r IH]; intros [|pf' r'] vs vs' H; inversion H; subst; [reflexivity|]. cbn [enc_map_stmts].
  pose proof (pair_nil _ _ H3) as Hn. pose proof (pair_enc _ _ H3) as He. cbn [fv fst snd] in Hn, He. rewrite Hn, He.
  destruct H3 as [E _]. destruct (eraseb_proj _ _ E) as (Ei & Et & _). cbn [fv fst] in Ei, Et. unfold pf_idx. rewrite Ei, Et. f_equal. now apply IH.
Qed.

Lemma pair_rel_keys P Q : Forall2 (pair_rel R) P Q -> map fkey P = map fkey Q.
Proof.
  induction 1; cbn [map]; [reflexivity|]. f_equal; [|assumption].
  destruct H as [E _]. destruct (eraseb_proj _ _ E) as (Ei & _). exact Ei.
Qed.

Lemma perm_rel_commute Q0 Q : Permutation Q0 Q -> forall P, Forall2 (pair_rel R) P Q0 ->
  exists P', Permutation P P' /\ Forall2 (pair_rel R) P' Q.
Proof.
  induction 1 as [|x a b _ IH|x y a|a b c _ IH1 _ IH2]; intros P HF.
  - inversion HF; subst. exists []. split; constructor.
  - inversion HF as [|p0 ? P0 ? Hp HF']; subst. destruct (IH _ HF') as (P' & HP' & HF''). exists (p0 :: P'). split; [now constructor|now constructor].
  - inversion HF as [|p0 ? P0 ? Hp HF']; subst. inversion HF' as [|p1 ? P1 ? Hp1 HF'']; subst.
    exists (p1 :: p0 :: P1). split; [apply perm_swap|]. constructor; [assumption|]. constructor; assumption.
  - destruct (IH1 _ HF) as (P' & HP' & HF'). destruct (IH2 _ HF') as (P'' & HP'' & HF''). exists P''. split; [etransitivity; eassumption|assumption].
Qed.

Lemma sorted_pairs_rel d d' fs fs' vs vs' : fields_ok d fs = true -> fields_ok d' fs' = true -> fields_reordered R fs fs' vs vs' ->
  Forall2 (pair_rel R) (fvl vs (sorted_fields fs)) (fvl vs' (sorted_fields fs')).
Proof.
  intros H1 H2 (L1 & L2 & P & HP & HF). unfold fvl.
  pose proof (asc_map_fv vs _ 0 (sorted_fields_asc d fs H1)) as A1.
  pose proof (asc_map_fv vs' _ 0 (sorted_fields_asc d' fs' H2)) as A2.
  pose proof (decl_perm fs vs L1) as P1. pose proof (decl_perm fs' vs' L2) as P2.
  (* the sorted list of the second schema corresponds pointwise to a permutation P' of P; P' is ascending, hence it is
     the sorted list of the first *)
  destruct (perm_rel_commute _ _ P2 P HF) as (P' & HPP' & HF').
  assert (Easc : asc fkey 0 P') by (eapply asc_same_keys; [symmetry; apply (pair_rel_keys _ _ HF')|exact A2]).
  assert (E : map (fv vs) (sorted_fields fs) = P').
  { eapply (asc_perm_eq fkey); [exact A1|exact Easc|]. rewrite <- P1, HP. exact HPP'. }
  rewrite E. exact HF'.
Qed.

Lemma enc_fields_rel d d' e fs fs' vs vs' : fields_ok d fs = true -> fields_ok d' fs' = true -> fields_reordered R fs fs' vs vs' ->
  enc_fields rec e fs vs = enc_fields rec' e fs' vs'.
Proof.
  intros H1 H2 HR. pose proof (sorted_pairs_rel d d' fs fs' vs vs' H1 H2 HR) as HF. destruct HR as (L1 & L2 & _).
  unfold enc_fields. rewrite L1, L2, !Nat.eqb_refl. destruct e.
  - unfold enc_as_array. rewrite (max_index_rel _ _ _ _ None HF). destruct (max_index _ vs' None); [|reflexivity].
    rewrite !enc_array_stmts_eq. f_equal. now apply arr_stmts_rel.
  - unfold enc_as_map. rewrite (max_fields_rel _ _ _ _ _ HF).
    assert (El : len (sorted_fields fs) = len (sorted_fields fs')).
    { unfold len. f_equal. unfold fvl in HF. apply Forall2_len in HF. now rewrite !map_length in HF. }
    rewrite El. f_equal. now apply map_stmts_rel.
Qed.

Lemma enc_def_rel d d' df df' v v' : def_ok d df = true -> def_ok d' df' = true -> def_reordered R df df' v v' ->
  enc_def rec df v = enc_def rec' df' v'.
Proof.
  intros H1 H2 HS. destruct HS as [e tag sh sh' fs fs' vs vs' Hu Hf|e sh sh' f f' v v' Hp|e tag io vars vars' i vs vs' Hv]; cbn [enc_def def_ok] in *.
  - apply andb_prop in H1 as [H1 _]. apply andb_prop in H1 as [H1 _]. apply andb_prop in H1 as [_ H1].
    apply andb_prop in H2 as [H2 _]. apply andb_prop in H2 as [H2 _]. apply andb_prop in H2 as [_ H2].
    f_equal. eapply enc_fields_rel; eassumption.
  - apply andb_prop in H1 as [_ S1]. apply andb_prop in H2 as [_ S2]. apply negb_true_iff in S1, S2.
    unfold sorted_fields, active. cbn [with_pos filter pf_fld]. rewrite S1, S2. cbn [negb sort_by insert_by pf_fld].
    apply (pair_enc (f, v) (f', v') Hp).
  - specialize (Hv i).
    destruct (find_variant vars i) as [va|] eqn:E1, (find_variant vars' i) as [va'|] eqn:E2; try tauto.
    destruct Hv as (Ee & Et & Eu & Hf). specialize (Hf eq_refl).
    apply find_variant_in in E1 as [I1 _]. apply find_variant_in in E2 as [I2 _].
    apply andb_prop in H1 as [H1 _]. apply andb_prop in H1 as [_ H1]. rewrite forallb_forall in H1. specialize (H1 va I1).
    apply andb_prop in H2 as [H2 _]. apply andb_prop in H2 as [_ H2]. rewrite forallb_forall in H2. specialize (H2 va' I2).
    unfold variant_ok in H1, H2. apply andb_prop in H1 as [H1 U1]. apply andb_prop in H1 as [_ H1]. apply andb_prop in H2 as [H2 U2]. apply andb_prop in H2 as [_ H2].
    assert (Ev : variant_encoding e va = variant_encoding e va') by (unfold variant_encoding; now rewrite Ee).
    rewrite <- Eu, <- Et, <- Ev. f_equal.
    destruct (is_unit (v_shape va)) eqn:Eua.
    + rewrite <- Eu in U2. destruct (v_fields va), (v_fields va'); try discriminate.
      destruct Hf as (L1 & L2 & _). destruct vs, vs'; try discriminate. reflexivity.
    + destruct io; [reflexivity|]. f_equal. eapply enc_fields_rel; eassumption.
Qed.
End Rel.

(* C08 invariance, schema level: reorder the declarations of any number of definitions of a schema at once
   (fields, variants, n/b, named/tuple) and the values accordingly — the derived encoder writes the same bytes. *)
Theorem gen_encode_reordered Sc Sc' : schema_ok Sc = true -> schema_ok Sc' = true ->
  forall k d v v', reordered_f k Sc Sc' d v v' -> gen_encode_f k Sc d v = gen_encode_f k Sc' d v'.
Proof.
  intros Hok Hok'. induction k as [|k IH]; intros d v v'; cbn [reordered_f gen_encode_f]; [intros []|].
  destruct (nth_error Sc d) as [df|] eqn:E1; [|intros []]. destruct (nth_error Sc' d) as [df'|] eqn:E2; [|intros []].
  intro HR. eapply (enc_def_rel (fun d' a b => Nat.ltb d' d = true /\ reordered_f k Sc Sc' d' a b)); [| | |exact HR].
  - intros d' a b [Hlt Hr]. cbn beta. rewrite Hlt. exact (IH d' a b Hr).
  - exact (schema_ok_nth Sc d df Hok E1).
  - exact (schema_ok_nth Sc' d df' Hok' E2).
Qed.
