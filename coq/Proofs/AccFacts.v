(* Proofs/AccFacts.v — every typed accessor agrees with the RFC 8949 data model on every well-formed
   item (C04): tools, first-byte classification, the rejection lemmas (an accessor whose tests on the
   initial byte fail returns an error) and datatype().  The success cases and the main theorem are in
   AccAgreeFacts.v, truncated inputs in AccPrefixFacts.v. *)
From MC Require Import Bytes BytesFacts Monad Cbor Utf8 Half Decoder Acc Accessors DecoderFacts IntFacts.
From Coq Require Import Lia.
Local Open Scope N_scope.

(* ---- boolean tests to propositions ---- *)
Ltac b2p :=
  repeat match goal with
  | H : (_ && _) = true |- _ => apply andb_prop in H; destruct H
  | H : (_ && _) = false |- _ => apply andb_false_iff in H; destruct H
  | H : (_ || _) = true |- _ => apply orb_prop in H; destruct H
  | H : (_ || _) = false |- _ => apply orb_false_iff in H; destruct H
  | H : negb _ = true |- _ => apply negb_true_iff in H
  | H : negb _ = false |- _ => apply negb_false_iff in H
  | H : (_ =? _) = true |- _ => apply N.eqb_eq in H
  | H : (_ =? _) = false |- _ => apply N.eqb_neq in H
  | H : (_ <=? _) = true |- _ => apply N.leb_le in H
  | H : (_ <=? _) = false |- _ => apply N.leb_gt in H
  | H : (_ <? _) = true |- _ => apply N.ltb_lt in H
  | H : (_ <? _) = false |- _ => apply N.ltb_ge in H
  end.

Ltac case_if :=
  match goal with
  | |- context [if ?c then _ else _] => let E := fresh "E" in destruct c eqn:E; b2p
  end.

(* ---- lists ---- *)
Lemma dropN_0 {A} (l : list A) : dropN l 0 = l.
Proof. destruct l; reflexivity. Qed.

Lemma dropN_app {A} (a b : list A) : dropN (a ++ b) (len a) = b.
Proof.
  induction a as [|x a IH]; cbn [app].
  - apply dropN_0.
  - cbn [dropN]. rewrite len_cons. destruct (N.eqb_spec (1 + len a) 0); [lia|].
    replace (N.pred (1 + len a)) with (len a) by lia. exact IH.
Qed.

Lemma mkdst_pos p p' r L : p = p' -> mkdst p r L = mkdst p' r L.
Proof. now intros ->. Qed.

Lemma ok_pos {A} (v : A) p p' r L : p = p' -> (Ok v, mkdst p r L) = (Ok v, mkdst p' r L).
Proof. now intros ->. Qed.

(* ---- agreement with an expectation, for accessors that may stop inside the item ----
   XOk v k: the accessor returns v, the position has advanced by exactly k and what remains of the
   input is the input without its first k bytes.  (IntFacts.agrees is the special case k = |ser e|.) *)
Definition agrees_at (res : result aval * dst) (x : expect) (p : N) (inp : bytes) (L : N) : Prop :=
  match x with
  | XOk v k => res = (Ok v, mkdst (p + k) (dropN inp k) L)
  | XErr => is_err res
  | XAny => True
  end.

Lemma agrees_at_whole res x p m r L :
  agrees res x p r L -> (forall v k, x = XOk v k -> k = len m) -> agrees_at res x p (m ++ r) L.
Proof.
  destruct x as [v k| |]; cbn [agrees agrees_at]; intros H Hk; try assumption.
  rewrite (Hk v k eq_refl), dropN_app. rewrite (Hk v k eq_refl) in H. exact H.
Qed.

Lemma agrees_of_at res x p m r L :
  agrees_at res x p (m ++ r) L -> (forall v k, x = XOk v k -> k = len m) -> agrees res x p r L.
Proof.
  destruct x as [v k| |]; cbn [agrees agrees_at]; intros H Hk; try assumption.
  rewrite (Hk v k eq_refl), dropN_app in H. rewrite (Hk v k eq_refl). exact H.
Qed.

(* ---- b / 32 and b mod 32 as linear facts ---- *)
Lemma divmod32 b : exists d m, b = 32 * d + m /\ m < 32 /\ b / 32 = d /\ b mod 32 = m.
Proof.
  exists (b / 32), (b mod 32). split; [apply N.div_mod; lia|]. split; [apply N.mod_lt; lia|auto].
Qed.

(* ---- the initial byte of every well-formed item ---- *)
Definition fb (e : enc) : N :=
  match e with
  | EUInt w n => ib 0 w n
  | ENInt w n => ib 1 w n
  | EBytes w b => ib 2 w (len b)
  | EBytesI _ => 95
  | EText w b => ib 3 w (len b)
  | ETextI _ => 127
  | EArray w es => ib 4 w (len es)
  | EArrayI _ => 159
  | EMap w es => ib 5 w (len es / 2)
  | EMapI _ => 191
  | ETag w t _ => ib 6 w t
  | ESimple n => if n <? 24 then 224 + n else 248
  | EF16 _ => 249
  | EF32 _ => 250
  | EF64 _ => 251
  end.

Definition fb_spec (e : enc) (b : N) : Prop :=
  match e with
  | EUInt _ _ => b < 28
  | ENInt _ _ => 32 <= b /\ b < 60
  | EBytes _ _ => 64 <= b /\ b < 92
  | EBytesI _ => b = 95
  | EText _ _ => 96 <= b /\ b < 124
  | ETextI _ => b = 127
  | EArray _ _ => 128 <= b /\ b < 156
  | EArrayI _ => b = 159
  | EMap _ _ => 160 <= b /\ b < 188
  | EMapI _ => b = 191
  | ETag _ _ _ => 192 <= b /\ b < 220
  | ESimple n => (n < 24 /\ b = 224 + n) \/ (32 <= n /\ n < 256 /\ b = 248)
  | EF16 _ => b = 249
  | EF32 _ => b = 250
  | EF64 _ => b = 251
  end.

Lemma ser_fb e : wf e = true -> exists t, ser e = fb e :: t.
Proof.
  destruct e; cbn [wf ser fb]; intro Hw; rewrite ?head_split; cbn [app]; try (eexists; reflexivity).
  destruct (n <? 24); eexists; reflexivity.
Qed.

Lemma ib_range mt w n : fits w n = true -> mt * 32 <= ib mt w n /\ ib mt w n < mt * 32 + 28.
Proof. intro H. apply ai_lt in H. unfold ib. lia. Qed.

Lemma fb_range e : wf e = true -> fb_spec e (fb e).
Proof.
  destruct e; cbn [wf fb fb_spec]; intro Hw; b2p; try reflexivity;
    try match goal with H : fits ?w ?n = true |- context [ib ?mt ?w ?n] =>
          pose proof (ib_range mt w n H); lia end.
  - destruct (N.ltb_spec n 24); [left; lia|right; lia].
  - destruct (N.ltb_spec n 24); [lia|right; lia].
Qed.

(* ---- rejection: the accessor's tests on the initial byte fail ---- *)
Lemma dec_str_like_rej (k : N) b :
  forall d m, b = 32 * d + m -> m < 32 -> (b < k \/ k + 28 <= b) -> d * 32 = k -> 28 <= m.
Proof. intros. lia. Qed.

Lemma dec_bytes_rej b t p L : b < 64 \/ 92 <= b -> is_err (dec_bytes (mkdst p (b :: t) L)).
Proof.
  intro H. unfold dec_bytes. rewrite (bind_ok _ _ _ _ _ (read_cons _ _ _ _)). cbv beta.
  destruct (divmod32 b) as (d & m & Hb & Hm & Hd & Hmm). unfold major, info. rewrite Hd, Hmm.
  case_if; try apply mismatch_is_err. apply bind_is_err, unsigned_ge28. lia.
Qed.

Lemma dec_str_rej b t p L : b < 96 \/ 124 <= b -> is_err (dec_str (mkdst p (b :: t) L)).
Proof.
  intro H. unfold dec_str. rewrite (bind_ok _ _ _ _ _ (read_cons _ _ _ _)). cbv beta.
  destruct (divmod32 b) as (d & m & Hb & Hm & Hd & Hmm). unfold major, info. rewrite Hd, Hmm.
  case_if; try apply mismatch_is_err. apply bind_is_err, unsigned_ge28. lia.
Qed.

Lemma dec_bytes_iter_rej f b t p L : b < 64 \/ (92 <= b /\ b <> 95) -> is_err (dec_bytes_iter f (mkdst p (b :: t) L)).
Proof.
  intro H. unfold dec_bytes_iter. rewrite (bind_ok _ _ _ _ _ (read_cons _ _ _ _)). cbv beta.
  destruct (divmod32 b) as (d & m & Hb & Hm & Hd & Hmm). unfold major, info. rewrite Hd, Hmm.
  case_if; [apply mismatch_is_err|]. case_if; [lia|]. apply bind_is_err, unsigned_ge28. lia.
Qed.

Lemma dec_str_iter_rej f b t p L : b < 96 \/ (124 <= b /\ b <> 127) -> is_err (dec_str_iter f (mkdst p (b :: t) L)).
Proof.
  intro H. unfold dec_str_iter. rewrite (bind_ok _ _ _ _ _ (read_cons _ _ _ _)). cbv beta.
  destruct (divmod32 b) as (d & m & Hb & Hm & Hd & Hmm). unfold major, info. rewrite Hd, Hmm.
  case_if; [apply mismatch_is_err|]. case_if; [lia|]. apply bind_is_err, unsigned_ge28. lia.
Qed.

Lemma dec_container_rej k b t p L : k mod 32 = 0 ->
  b < k \/ (k + 28 <= b /\ b <> k + 31) -> is_err (dec_container k (mkdst p (b :: t) L)).
Proof.
  intros Hk H. unfold dec_container. rewrite (bind_ok _ _ _ _ _ (read_cons _ _ _ _)). cbv beta.
  destruct (divmod32 b) as (d & m & Hb & Hm & Hd & Hmm). unfold major, info. rewrite Hd, Hmm.
  case_if; [apply mismatch_is_err|]. case_if; [lia|]. apply bind_is_err, unsigned_ge28. lia.
Qed.

Lemma dec_tag_rej b t p L : b < 192 \/ 220 <= b -> is_err (dec_tag (mkdst p (b :: t) L)).
Proof.
  intro H. unfold dec_tag. rewrite (bind_ok _ _ _ _ _ (read_cons _ _ _ _)). cbv beta.
  destruct (divmod32 b) as (d & m & Hb & Hm & Hd & Hmm). unfold major, info. rewrite Hd, Hmm.
  case_if; [apply mismatch_is_err|]. apply unsigned_ge28. lia.
Qed.

Lemma dec_bool_rej b t p L : b <> 244 -> b <> 245 -> is_err (dec_bool (mkdst p (b :: t) L)).
Proof.
  intros H1 H2. unfold dec_bool. rewrite (bind_ok _ _ _ _ _ (read_cons _ _ _ _)). cbv beta.
  case_if; [lia|]. case_if; [lia|]. apply mismatch_is_err.
Qed.

Lemma dec_null_rej b t p L : b <> 246 -> is_err (dec_null (mkdst p (b :: t) L)).
Proof.
  intros H1. unfold dec_null. rewrite (bind_ok _ _ _ _ _ (read_cons _ _ _ _)). cbv beta.
  case_if; [lia|]. apply mismatch_is_err.
Qed.

Lemma dec_undefined_rej b t p L : b <> 247 -> is_err (dec_undefined (mkdst p (b :: t) L)).
Proof.
  intros H1. unfold dec_undefined. rewrite (bind_ok _ _ _ _ _ (read_cons _ _ _ _)). cbv beta.
  case_if; [lia|]. apply mismatch_is_err.
Qed.

Lemma dec_simple_rej b t p L : b < 224 \/ (244 <= b /\ b <> 248) -> is_err (dec_simple (mkdst p (b :: t) L)).
Proof.
  intros H1. unfold dec_simple. rewrite (bind_ok _ _ _ _ _ (read_cons _ _ _ _)). cbv beta.
  case_if; try lia; (case_if; try lia); apply mismatch_is_err.
Qed.

Lemma dec_f16_rej b t p L : b <> 249 -> is_err (dec_f16 (mkdst p (b :: t) L)).
Proof.
  intros H1. unfold dec_f16. rewrite (bind_ok _ _ _ _ _ (read_cons _ _ _ _)). cbv beta.
  case_if; [apply mismatch_is_err|lia].
Qed.

Lemma dec_f32_rej c b t p L : b <> 249 -> b <> 250 -> is_err (dec_f32 c (mkdst p (b :: t) L)).
Proof.
  intros H1 H2. unfold dec_f32. rewrite (bind_ok _ _ _ _ _ (current_cons _ _ _ _)). cbv beta.
  destruct (N.eqb_spec b 249); [lia|]. rewrite andb_false_r.
  destruct (N.eqb_spec b 250); [lia|]. apply mismatch_is_err.
Qed.

Lemma dec_f64_rej c b t p L : b <> 249 -> b <> 250 -> b <> 251 -> is_err (dec_f64 c (mkdst p (b :: t) L)).
Proof.
  intros H1 H2 H3. unfold dec_f64. rewrite (bind_ok _ _ _ _ _ (current_cons _ _ _ _)). cbv beta.
  destruct (N.eqb_spec b 249); [lia|]. rewrite andb_false_r.
  destruct (N.eqb_spec b 250); [lia|]. destruct (N.eqb_spec b 251); [lia|]. apply mismatch_is_err.
Qed.

Lemma dec_char_rej b t p L : 28 <= b -> is_err (dec_char (mkdst p (b :: t) L)).
Proof. intro H. unfold dec_char. apply bind_is_err. unfold dec_u32. now apply dec_uint_ge28. Qed.

(* when the accessor rejects an initial byte *)
Definition rej (a : acc) (b : N) : Prop :=
  match a with
  | AU8 | AU16 | AU32 | AU64 | AChar => 28 <= b
  | AI8 | AI16 | AI32 | AI64 | AInt => 60 <= b
  | ABool => b <> 244 /\ b <> 245
  | ANull => b <> 246
  | AUndefined => b <> 247
  | ASimple => b < 224 \/ (244 <= b /\ b <> 248)
  | AF16 => b <> 249
  | AF32 => b <> 249 /\ b <> 250
  | AF64 => b <> 249 /\ b <> 250 /\ b <> 251
  | ABytes => b < 64 \/ 92 <= b
  | AStr => b < 96 \/ 124 <= b
  | ABytesIter => b < 64 \/ (92 <= b /\ b <> 95)
  | AStrIter => b < 96 \/ (124 <= b /\ b <> 127)
  | AArray => b < 128 \/ (156 <= b /\ b <> 159)
  | AMap => b < 160 \/ (188 <= b /\ b <> 191)
  | ATag => b < 192 \/ 220 <= b
  | ASkip => False
  end.

Lemma acc_rejects c a b t p L : rej a b -> is_err (run_acc c a (mkdst p (b :: t) L)).
Proof.
  destruct a; cbn [rej run_acc]; intro H; try (destruct H; fail);
    try (apply fmap_is_err;
         first [ apply dec_uint_ge28; exact H | apply dec_sint_ge60; exact H | apply dec_int_ge60; exact H
               | apply dec_char_rej; exact H | apply dec_bool_rej; lia | apply dec_null_rej; exact H
               | apply dec_undefined_rej; exact H | apply dec_simple_rej; exact H
               | apply dec_f32_rej; lia | apply dec_f64_rej; lia
               | apply dec_bytes_rej; exact H | apply dec_str_rej; exact H
               | apply dec_container_rej; [reflexivity|lia]
               | apply dec_tag_rej; exact H ]).
  - destruct (c_half c); [apply fmap_is_err, dec_f16_rej; exact H|]. eexists _, _; reflexivity.
  - apply fmap_is_err, dec_bytes_iter_rej; exact H.
  - apply fmap_is_err, dec_str_iter_rej; exact H.
Qed.

(* ---- datatype(): the RFC classification of the initial byte (Decoder::type_of) ---- *)
Definition spec_type (e : enc) : ctype :=
  match e with
  | EUInt w _ => uint_type w
  | ENInt w n => nint_type w n
  | EBytes _ _ => TBytes
  | EBytesI _ => TBytesIndef
  | EText _ _ => TString
  | ETextI _ => TStringIndef
  | EArray _ _ => TArray
  | EArrayI _ => TArrayIndef
  | EMap _ _ => TMap
  | EMapI _ => TMapIndef
  | ETag _ _ _ => TTag
  | ESimple n => if (n =? 20) || (n =? 21) then TBool
                 else if n =? 22 then TNull else if n =? 23 then TUndefined else TSimple
  | EF16 _ => TF16
  | EF32 _ => TF32
  | EF64 _ => TF64
  end.

Lemma type_of_fb e : wf e = true -> is_int_item e = false -> type_of (fb e) = ret (spec_type e).
Proof.
  intros Hw Hi. pose proof (fb_range e Hw) as Hr.
  destruct e; try discriminate; cbn [fb_spec spec_type] in Hr |- *; try (cbn [fb]; reflexivity);
    set (fbx := fb _) in *; clearbody fbx; unfold type_of; repeat (case_if; try lia; try reflexivity).
Qed.

Theorem datatype_spec e r p L : wf e = true ->
  datatype (mkdst p (ser e ++ r) L) = (Ok (spec_type e), mkdst p (ser e ++ r) L).
Proof.
  intro Hw. destruct (is_int_item e) eqn:Hi.
  - destruct e; try discriminate; cbn [wf ser spec_type] in *.
    + now apply datatype_uint.
    + now apply datatype_nint.
  - destruct (ser_fb e Hw) as [t Et]. rewrite Et. cbn [app]. unfold datatype.
    rewrite (bind_ok _ _ _ _ _ (current_cons _ _ _ _)). rewrite (type_of_fb e Hw Hi). reflexivity.
Qed.
