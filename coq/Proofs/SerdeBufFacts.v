(* Proofs/SerdeBufFacts.v — serde's ContentDeserializer / ContentRefDeserializer (fc) re-reading the buffer
   cont_of v as a type of shape sh give v back for every value outside the F12 class (buf_conf), and an earlier
   variant of an untagged enum rejects what a later one wrote (untagged_disjoint). *)
From MC Require Import Bytes BytesFacts Monad Cbor Utf8 Half Encoder Methods EncoderFacts Decoder DecoderFacts IntFacts
  Types Serde SerdeDoc SerdeAny SerdeFacts SerdeRtFacts SerdeContentFacts.
From Coq Require Import Lia.
Local Open Scope N_scope.

(* ---- induction over every constructor of shape ---- *)
Section ShapeIndAll.
  Variable P : shape -> Prop.
  Hypothesis Hleaf : forall sh, (match sh with
      | ShBool | ShI _ | ShU _ | ShF32 | ShF64 | ShChar | ShStr _ | ShDisplayStr | ShBytes _ | ShUnit | ShUnitStruct
      | ShAny | ShIgnored => True
      | _ => False end) -> P sh.
  Hypothesis Hopt : forall s, P s -> P (ShOption s).
  Hypothesis Hnt : forall s, P s -> P (ShNewtypeStruct s).
  Hypothesis Hseq : forall k s, P s -> P (ShSeq k s).
  Hypothesis Htup : forall ss, Forall P ss -> P (ShTuple ss).
  Hypothesis Hts : forall ss, Forall P ss -> P (ShTupleStruct ss).
  Hypothesis Hmap : forall b k v, P k -> P v -> P (ShMap b k v).
  Hypothesis Hstruct : forall fs, Forall (fun p => P (snd p)) fs -> P (ShStruct fs).
  Hypothesis Henum : forall vs, Forall (fun p => P (snd (snd p))) vs -> P (ShEnum vs).
  Hypothesis Hint : forall t vs, Forall (fun p => P (snd (snd p))) vs -> P (ShInternal t vs).
  Hypothesis Hadj : forall t c vs, Forall (fun p => P (snd (snd p))) vs -> P (ShAdjacent t c vs).
  Hypothesis Hunt : forall vs, Forall (fun p => P (snd p)) vs -> P (ShUntagged vs).
  Hypothesis Hflat : forall fs, Forall (fun p => P (snd (snd p))) fs -> P (ShFlat fs).

  Fixpoint shape_ind_all (sh : shape) : P sh :=
    let list_ind := fix go (l : list shape) : Forall P l :=
      match l with [] => Forall_nil _ | x :: r => Forall_cons _ (shape_ind_all x) (go r) end in
    let fields_ind := fix go (l : list (bytes * shape)) : Forall (fun p => P (snd p)) l :=
      match l with [] => Forall_nil _ | (k, x) :: r => Forall_cons (k, x) (shape_ind_all x) (go r) end in
    let vars_ind := fix go (l : list (bytes * (vkind * shape))) : Forall (fun p => P (snd (snd p))) l :=
      match l with [] => Forall_nil _ | (n, (k, x)) :: r => Forall_cons (n, (k, x)) (shape_ind_all x) (go r) end in
    let unt_ind := fix go (l : list (vkind * shape)) : Forall (fun p => P (snd p)) l :=
      match l with [] => Forall_nil _ | (k, x) :: r => Forall_cons (k, x) (shape_ind_all x) (go r) end in
    let flat_ind := fix go (l : list (bytes * (bool * shape))) : Forall (fun p => P (snd (snd p))) l :=
      match l with [] => Forall_nil _ | (n, (k, x)) :: r => Forall_cons (n, (k, x)) (shape_ind_all x) (go r) end in
    match sh with
    | ShOption s => Hopt s (shape_ind_all s)
    | ShNewtypeStruct s => Hnt s (shape_ind_all s)
    | ShSeq k s => Hseq k s (shape_ind_all s)
    | ShTuple ss => Htup ss (list_ind ss)
    | ShTupleStruct ss => Hts ss (list_ind ss)
    | ShMap b k v => Hmap b k v (shape_ind_all k) (shape_ind_all v)
    | ShStruct fs => Hstruct fs (fields_ind fs)
    | ShEnum vs => Henum vs (vars_ind vs)
    | ShInternal t vs => Hint t vs (vars_ind vs)
    | ShAdjacent t c vs => Hadj t c vs (vars_ind vs)
    | ShUntagged vs => Hunt vs (unt_ind vs)
    | ShFlat fs => Hflat fs (flat_ind fs)
    | ShBool => Hleaf ShBool I | ShI w => Hleaf (ShI w) I | ShU w => Hleaf (ShU w) I | ShF32 => Hleaf ShF32 I
    | ShF64 => Hleaf ShF64 I | ShChar => Hleaf ShChar I | ShStr b => Hleaf (ShStr b) I
    | ShDisplayStr => Hleaf ShDisplayStr I | ShBytes b => Hleaf (ShBytes b) I | ShUnit => Hleaf ShUnit I
    | ShUnitStruct => Hleaf ShUnitStruct I | ShAny => Hleaf ShAny I | ShIgnored => Hleaf ShIgnored I
    end.
End ShapeIndAll.

(* ---- lists ---- *)
Lemma zip_b_mono {A B} (f g : A -> B -> bool) l : Forall (fun a => forall b, f a b = true -> g a b = true) l ->
  forall m, zip_b f l m = true -> zip_b g l m = true.
Proof.
  induction 1 as [|a l Ha _ IH]; intros m H; destruct m as [|b m]; try discriminate; [reflexivity|].
  cbn [zip_b] in *. apply andb_prop in H as [H1 H2]. now rewrite (Ha b H1), (IH m H2).
Qed.

Lemma alt_b_mono {B} (fk fv gk gv : B -> bool) : (forall b, fk b = true -> gk b = true) ->
  (forall b, fv b = true -> gv b = true) -> forall l, alt_b fk fv l = true -> alt_b gk gv l = true.
Proof.
  intros Hk Hv. assert (G: forall m l, (length l <= m)%nat -> alt_b fk fv l = true -> alt_b gk gv l = true).
  { induction m as [|m IH]; intros l Hm H.
    - destruct l; [reflexivity|cbn in Hm; lia].
    - destruct l as [|a [|b r]]; [reflexivity|discriminate|]. cbn [alt_b] in *.
      apply andb_prop in H as [H Hr]. apply andb_prop in H as [Ha Hb].
      rewrite (Hk a Ha), (Hv b Hb), (IH r ltac:(cbn in Hm; lia) Hr). reflexivity. }
  intros l. now apply (G (length l)).
Qed.

Lemma forallb_mono {A} (f g : A -> bool) l : (forall a, f a = true -> g a = true) -> forallb f l = true -> forallb g l = true.
Proof. intros H Hf. apply forallb_forall. intros a Ha. apply H. now apply (proj1 (forallb_forall f l) Hf). Qed.

(* ---- the first variant of an untagged enum the value belongs to ---- *)
Lemma unt_first_split v d fconf fbuf vs : unt_first v d fconf fbuf vs = true ->
  existsb (fun p : vkind * shape => let (k, s) := p in match k with KUnit => is_unit_val v | _ => fconf s v end) vs = true ->
  exists pre k s post, vs = pre ++ (k, s) :: post /\ k <> KUnit /\ fconf s v = true /\ fbuf s v = true.
Proof.
  induction vs as [|[k s] r IH]; intros H He; [discriminate He|].
  cbn [unt_first existsb] in *.
  assert (Hstep: forall (Hk: k <> KUnit), (if fconf s v then fbuf s v else unt_first v d fconf fbuf r) = true ->
            (fconf s v || existsb (fun p : vkind * shape => let (k, s) := p in match k with KUnit => is_unit_val v | _ => fconf s v end) r) = true ->
            exists pre k0 s0 post, (k, s) :: r = pre ++ (k0, s0) :: post /\ k0 <> KUnit /\ fconf s0 v = true /\ fbuf s0 v = true).
  { intros Hk H1 H2. destruct (fconf s v) eqn:E.
    - exists [], k, s, r. repeat split; assumption.
    - cbn [orb] in H2. destruct (IH H1 H2) as (pre & k0 & s0 & post & -> & Hk0 & Hc & Hb).
      exists ((k, s) :: pre), k0, s0, post. repeat split; assumption. }
  destruct k; try (apply Hstep; [discriminate|exact H|exact He]).
  destruct (is_unit_val v); [discriminate H|]. cbn [orb] in He.
  destruct (IH H He) as (pre & k0 & s0 & post & -> & Hk0 & Hc & Hb).
  exists ((KUnit, s) :: pre), k0, s0, post. repeat split; assumption.
Qed.

Lemma unt_first_exists v fconf fbuf vs : unt_first v false fconf fbuf vs = true ->
  existsb (fun p : vkind * shape => let (k, s) := p in match k with KUnit => is_unit_val v | _ => fconf s v end) vs = true.
Proof.
  induction vs as [|[k s] r IH]; intro H; [discriminate H|]. cbn [unt_first existsb] in *.
  destruct k; try (destruct (fconf s v); [reflexivity|cbn [orb]; now apply IH]).
  destruct (is_unit_val v); [discriminate H|]. cbn [orb]. now apply IH.
Qed.

Lemma pairs_ok_before {A} (f : A -> A -> bool) pre b post : pairs_ok f (pre ++ b :: post) = true ->
  forall a, In a pre -> f a b = false.
Proof.
  induction pre as [|x pre IH]; intros H a Ha; [contradiction|].
  cbn [app pairs_ok] in H. apply andb_prop in H as [H1 H2]. destruct Ha as [->|Ha]; [|now apply IH].
  rewrite forallb_app in H1. apply andb_prop in H1 as [_ H1]. cbn [forallb] in H1. apply andb_prop in H1 as [H1 _].
  now apply negb_true_iff.
Qed.

(* ---- buf_conf implies conf_any ---- *)
Definition bc_ok (sh : shape) : Prop := forall owned v, buf_conf owned sh v = true -> conf_any sh v = true.

Lemma variant_at_map {A B} (g : A -> B) (vs : list (bytes * (vkind * A))) i name k :
  variant_at (map (fun p : bytes * (vkind * A) => let (n, ks) := p in let (k, s) := ks in (n, (k, g s))) vs) i name k
  = option_map g (variant_at vs i name k).
Proof.
  unfold variant_at. rewrite nth_error_map. destruct (nth_error vs (N.to_nat i)) as [[n [k' a]]|]; [|reflexivity].
  cbn [option_map]. destruct (beq n name && kind_eqb k k'); reflexivity.
Qed.

Lemma variant_at_in {A} (vs : list (bytes * (vkind * A))) i name k a :
  variant_at vs i name k = Some a -> In (name, (k, a)) vs.
Proof. intro H. apply variant_at_some in H. now apply nth_error_In in H. Qed.

Theorem buf_conf_conf sh : bc_ok sh.
Proof.
  induction sh using shape_ind_all; intros owned x Hb.
  - destruct sh; try contradiction; destruct x; try discriminate Hb; cbn [buf_conf conf_any] in *; try assumption; reflexivity.
  - destruct x; try discriminate Hb; cbn [buf_conf conf_any] in *; [reflexivity|now apply (IHsh owned)].
  - destruct x; try discriminate Hb; cbn [buf_conf conf_any] in *. now apply (IHsh owned).
  - destruct x; try discriminate Hb; cbn [buf_conf conf_any] in *.
    apply andb_prop in Hb as [H1 H2]. rewrite H1. cbn [andb]. revert H2. apply forallb_mono. apply IHsh.
  - destruct x; try discriminate Hb; cbn [buf_conf conf_any] in *.
    apply andb_prop in Hb as [H1 H2]. rewrite H1. cbn [andb]. revert H2. apply zip_b_mono.
    revert H. apply Forall_impl. intros a Ha b. apply Ha.
  - destruct x; try discriminate Hb; cbn [buf_conf conf_any] in *.
    apply andb_prop in Hb as [H1 H2]. rewrite H1. cbn [andb]. revert H2. apply zip_b_mono.
    revert H. apply Forall_impl. intros a Ha b. apply Ha.
  - destruct x; try discriminate Hb; cbn [buf_conf conf_any] in *.
    apply andb_prop in Hb as [H1 H2]. rewrite H1. cbn [andb]. revert H2. apply alt_b_mono; [apply IHsh1|apply IHsh2].
  - destruct x; try discriminate Hb; cbn [buf_conf conf_any] in *.
    apply andb_prop in Hb as [H1 H2]. rewrite H1. cbn [andb]. revert H2. apply zip_b_mono.
    revert H. apply Forall_impl. intros a Ha b. unfold field_b. intro Hf. apply andb_prop in Hf as [Hf1 Hf2].
    rewrite Hf1. cbn [andb]. now apply (Ha owned).
  - destruct x; try discriminate Hb; cbn [buf_conf conf_any] in *; try assumption;
      rewrite variant_at_map in *;
      match goal with |- context [variant_at vs ?i ?nm ?k] => destruct (variant_at vs i nm k) as [s|] eqn:Ev; [|discriminate Hb] end;
      cbn [option_map] in *; apply variant_at_in in Ev;
      apply (proj1 (Forall_forall _ _) H _ Ev owned); exact Hb.
  - destruct x; discriminate Hb.
  - destruct x; discriminate Hb.
  - assert (G: unt_first x false conf_any (buf_conf false) vs = true ->
      existsb (fun p : vkind * shape => let (k, s) := p in match k with KUnit => is_unit_val x | _ => conf_any s x end) vs = true)
      by apply unt_first_exists.
    destruct x; exact (G Hb).
  - destruct x; discriminate Hb.
Qed.

(* ---- what cont_of can and cannot be ---- *)
Lemma cont_plain v : match cont_of v with CUnit | CSome _ | CChar _ | CNewtype _ => False | _ => True end.
Proof.
  induction v using sval_ind'; cbn [cont_of]; try exact I; try assumption.
  unfold cont_int. destruct (0 <=? z)%Z; exact I.
Qed.

Lemma content_int_cont z : content_int (cont_int z) = Some z.
Proof.
  unfold cont_int. destruct (Z.leb_spec 0 z); cbn [content_int]; [|reflexivity]. now rewrite Z2N.id by lia.
Qed.

(* ---- classes ---- *)
Lemma ccls_eqb_true a b : ccls_eqb a b = true -> a = b.
Proof. destruct a, b; cbn; congruence. Qed.
Lemma ccls_eqb_refl a : ccls_eqb a a = true.
Proof. now destruct a. Qed.
Lemma cls_in_app c l m : cls_in c (l ++ m) = cls_in c l || cls_in c m.
Proof. unfold cls_in. apply existsb_app. Qed.
Lemma cls_in_all c : cls_in c cls_all = true.
Proof. destruct c; reflexivity. Qed.
Lemma cls_in_cons_r c a l : cls_in c l = true -> cls_in c (a :: l) = true.
Proof. unfold cls_in. cbn [existsb]. intros ->. apply orb_true_r. Qed.
Lemma cls_in_In c l : cls_in c l = true -> In c l.
Proof. unfold cls_in. intro H. apply existsb_exists in H as (a & Ha & E). apply ccls_eqb_true in E. now subst. Qed.
Lemma cls_meet_intro c l m : cls_in c l = true -> cls_in c m = true -> cls_meet l m = true.
Proof. intros Hl Hm. unfold cls_meet. apply existsb_exists. exists c. split; [now apply cls_in_In|exact Hm]. Qed.
Lemma cls_in_flat_map {A} (g : A -> list ccls) l a c : In a l -> cls_in c (g a) = true -> cls_in c (flat_map g l) = true.
Proof.
  induction l as [|x l IH]; intros Hin Hc; [contradiction|]. cbn [flat_map]. rewrite cls_in_app.
  destruct Hin as [->|Hin]; [now rewrite Hc|]. rewrite (IH Hin Hc). apply orb_true_r.
Qed.

Ltac solve_cls := eexists; split; [reflexivity|try reflexivity; try apply cls_in_all].

Definition prod_ok (sh : shape) : Prop := forall x, shape_ok_any sh = true -> conf_any sh x = true ->
  exists c, cls_of (cont_of x) = Some c /\ cls_in c (produces sh) = true.

Theorem produces_sound sh : prod_ok sh.
Proof.
  induction sh using shape_ind_all; intros x Hs Hc.
  - destruct sh; try contradiction; destruct x; try discriminate Hc; cbn [cont_of produces];
      try (unfold cont_int; destruct (0 <=? _)%Z); try solve_cls.
    all: destruct n; try discriminate Hc; solve_cls.
  - destruct x; try discriminate Hc; cbn [conf_any cont_of produces] in *; [solve_cls|].
    destruct (IHsh x Hs Hc) as (c & E & Hin). exists c. split; [exact E|now apply cls_in_cons_r].
  - destruct x; try discriminate Hc. cbn [conf_any cont_of produces shape_ok_any] in *. now apply IHsh.
  - destruct x; try discriminate Hc. cbn [cont_of produces]. solve_cls.
  - destruct x; try discriminate Hc. cbn [cont_of produces]. solve_cls.
  - destruct x; try discriminate Hc. cbn [cont_of produces]. solve_cls.
  - destruct x; try discriminate Hc. cbn [cont_of produces]. solve_cls.
  - destruct x; try discriminate Hc. rewrite cont_struct. cbn [produces]. solve_cls.
  - destruct x; try discriminate Hc; try rewrite cont_struct_variant; cbn [cont_of produces]; solve_cls.
  - cbn [conf_any] in Hc. unfold int_split in Hc.
    destruct (int_untag t x) as [[name body]|] eqn:Eu; [|discriminate Hc]. clear Hc.
    destruct x; try discriminate Eu; try rewrite cont_struct; cbn [cont_of produces]; solve_cls.
  - destruct x; try discriminate Hc. rewrite cont_struct. cbn [produces]. solve_cls.
  - cbn [conf_any shape_ok_any produces] in *. apply existsb_exists in Hc as ([k s] & Hin & Hk).
    pose proof (proj1 (forallb_forall _ _) Hs _ Hin) as Hks. cbn beta iota in Hks. apply andb_prop in Hks as [Hp Hss].
    pose proof (proj1 (Forall_forall _ _) H _ Hin) as IHs. cbn [snd] in IHs.
    assert (G: forall c, cls_of (cont_of x) = Some c ->
               cls_in c (match k with KUnit | KTuple => [KcSeq] | KStruct => [KcMap] | KNewtype => produces s end) = true ->
               exists c0, cls_of (cont_of x) = Some c0 /\
                 cls_in c0 (flat_map (fun p : vkind * shape => let (k0, s0) := p in
                    match k0 with KUnit | KTuple => [KcSeq] | KStruct => [KcMap] | KNewtype => produces s0 end) vs) = true).
    { intros c E Hc. exists c. split; [exact E|]. now apply (cls_in_flat_map _ vs (k, s)). }
    destruct k.
    + destruct x; try discriminate Hk. now apply (G KcSeq).
    + destruct (IHs x Hss Hk) as (c & E & Hc). now apply (G c).
    + destruct s; try discriminate Hp. destruct x; try discriminate Hk. now apply (G KcSeq).
    + destruct s; try discriminate Hp. destruct x; try discriminate Hk. rewrite cont_struct in *. now apply (G KcMap).
  - destruct x; try discriminate Hc. destruct n; try discriminate Hc. cbn [cont_of produces]. solve_cls.
Qed.

Lemma null_not_produced sh : shape_ok_any sh = true -> nullable sh = false -> cls_in KcNull (produces sh) = false.
Proof.
  induction sh using shape_ind_all; intros Hs Hn; try reflexivity; try discriminate Hn.
  - destruct sh; try contradiction; try reflexivity; discriminate Hn.
  - cbn [shape_ok_any nullable produces] in *. now apply IHsh.
  - cbn [shape_ok_any nullable produces] in *. induction H as [|[k s] r Hx _ IH]; [reflexivity|].
    cbn [forallb existsb flat_map] in *. apply andb_prop in Hs as [Hs1 Hs2]. apply orb_false_elim in Hn as [Hn1 Hn2].
    rewrite cls_in_app, (IH Hs2 Hn2), orb_false_r. apply andb_prop in Hs1 as [_ Hss].
    destruct k; try reflexivity. now apply Hx.
Qed.

Lemma conf_not_null sh x : shape_ok_any sh = true -> nullable sh = false -> conf_any sh x = true -> cont_of x <> CNone.
Proof.
  intros Hs Hn Hc E. destruct (produces_sound sh x Hs Hc) as (c & Hcls & Hin). rewrite E in Hcls. injection Hcls as <-.
  rewrite (null_not_produced sh Hs Hn) in Hin. discriminate.
Qed.

(* ---- what fc can accept ---- *)
Definition unt_step (k : vkind) (s : shape) (x : content) : option sval :=
  match k with
  | KUnit => match x with CUnit | CNone => Some SUnit | _ => None end
  | KNewtype => fc false s x
  | KTuple => fc false s x
  | KStruct => match x with CMap _ => fc false s x | _ => None end
  end.

Lemma fc_unt_cons owned k s r x :
  fc owned (ShUntagged ((k, s) :: r)) x = match unt_step k s x with Some v => Some v | None => fc owned (ShUntagged r) x end.
Proof. destruct k; reflexivity. Qed.
Lemma fc_unt_nil owned x : fc owned (ShUntagged []) x = None.
Proof. reflexivity. Qed.

Definition acc_ok (sh : shape) : Prop := forall owned x r c,
  fc owned sh x = Some r -> cls_of x = Some c -> cls_in c (accepts owned sh) = true.

Theorem accepts_sound sh : acc_ok sh.
Proof.
  induction sh using shape_ind_all; intros owned x r cl Hf Hc.
  - destruct sh; try contradiction; try (apply cls_in_all);
      destruct x; cbn [fc cls_of content_int] in *; try discriminate; injection Hc as <-; try reflexivity.
    + destruct kvs; [|discriminate Hf]. destruct owned; [reflexivity|discriminate Hf].
    + destruct l; [|discriminate Hf]. destruct owned; [reflexivity|discriminate Hf].
    + destruct kvs; [|discriminate Hf]. destruct owned; [reflexivity|discriminate Hf].
  - destruct x; cbn [fc cls_of] in *; try discriminate Hc; injection Hc as <-; try reflexivity;
      (destruct (fc owned sh _) eqn:E; [|discriminate Hf]); cbn [accepts]; apply cls_in_cons_r;
      apply (IHsh owned _ _ _ E); reflexivity.
  - destruct x; cbn [fc cls_of] in *; try discriminate Hc; injection Hc as <-;
      (destruct (fc owned sh _) eqn:E; [|discriminate Hf]); cbn [accepts];
      apply (IHsh owned _ _ _ E); reflexivity.
  - destruct x; cbn [fc cls_of] in *; try discriminate; injection Hc as <-; reflexivity.
  - destruct x; cbn [fc cls_of] in *; try discriminate; injection Hc as <-; reflexivity.
  - destruct x; cbn [fc cls_of] in *; try discriminate; injection Hc as <-; reflexivity.
  - destruct x; cbn [fc cls_of] in *; try discriminate; injection Hc as <-; reflexivity.
  - destruct x; cbn [fc cls_of] in *; try discriminate; injection Hc as <-; reflexivity.
  - destruct x; cbn [fc cls_of] in *; try discriminate; injection Hc as <-; reflexivity.
  - destruct x; discriminate Hf.
  - destruct x; discriminate Hf.
  - induction H as [|[k s] l Hx _ IH]; [discriminate Hf|].
    rewrite fc_unt_cons in Hf. cbn [accepts flat_map]. rewrite cls_in_app.
    destruct (unt_step k s x) as [v|] eqn:E.
    + apply orb_true_iff. left. cbn [snd] in Hx. destruct k; cbn [unt_step] in E.
      * destruct x; try discriminate E; try discriminate Hc. now injection Hc as <-.
      * now apply (Hx false x v cl).
      * now apply (Hx false x v cl).
      * destruct x; try discriminate E. now injection Hc as <-.
    + apply orb_true_iff. right. now apply IH.
  - destruct x; discriminate Hf.
Qed.

(* ---- a shape whose every value is in the F12 class under the buffer ---- *)
Lemma must_opaque_sound sh : forall owned x, must_opaque owned sh = true -> buf_conf owned sh x = false.
Proof.
  induction sh using shape_ind_all; intros owned x Hm; try discriminate Hm.
  - destruct sh; try contradiction; try discriminate Hm; destruct x; try reflexivity.
    cbn [must_opaque buf_conf] in *. now apply negb_true_iff.
  - destruct x; try reflexivity. cbn [must_opaque buf_conf] in *. now apply IHsh.
  - destruct x; try reflexivity. cbn [must_opaque buf_conf] in *.
    destruct ((n =? len ss) && (n <? two64)); [cbn [andb]|reflexivity].
    revert l. induction H as [|s ss Hs _ IH]; intro l; [discriminate Hm|].
    destruct l as [|y l]; [reflexivity|]. cbn [existsb zip_b] in *. apply orb_prop in Hm as [Hm|Hm].
    + now rewrite (Hs owned y Hm).
    + rewrite (IH Hm l). apply andb_false_r.
  - destruct x; try reflexivity. cbn [must_opaque buf_conf] in *.
    destruct ((n =? len ss) && (n <? two64)); [cbn [andb]|reflexivity].
    revert l. induction H as [|s ss Hs _ IH]; intro l; [discriminate Hm|].
    destruct l as [|y l]; [reflexivity|]. cbn [existsb zip_b] in *. apply orb_prop in Hm as [Hm|Hm].
    + now rewrite (Hs owned y Hm).
    + rewrite (IH Hm l). apply andb_false_r.
  - destruct x; try reflexivity. cbn [must_opaque buf_conf] in *.
    destruct ((n =? len fs) && (n <? two64)); [cbn [andb]|reflexivity].
    revert fs0. induction H as [|[nm s] fs Hs _ IH]; intro l; [discriminate Hm|].
    destruct l as [|y l]; [reflexivity|]. cbn [existsb zip_b] in *. apply orb_prop in Hm as [Hm|Hm].
    + unfold field_b at 1. cbn [snd] in *. rewrite (Hs owned (snd y) Hm). now rewrite andb_false_r.
    + rewrite (IH Hm l). apply andb_false_r.
  - destruct x; reflexivity.
  - destruct x; reflexivity.
  - destruct x; reflexivity.
Qed.

(* ---- the canonical forms are fixed points of the keep-everything visitor ---- *)
Lemma iw_eqb_eq a b : iw_eqb a b = true -> a = b.
Proof. destruct a, b; cbn; congruence. Qed.

Lemma canon_fix v : any_canon v = true -> sval_of_content (cont_of v) = v.
Proof.
  induction v using sval_ind'; intro Hc; cbn [any_canon] in Hc; try discriminate Hc; cbn [cont_of sval_of_content]; try reflexivity.
  - apply andb_prop in Hc as [Hc _]. apply andb_prop in Hc as [Hz Hw]. apply Z.ltb_lt in Hz. apply iw_eqb_eq in Hw.
    unfold cont_int. destruct (Z.leb_spec 0 z); [lia|]. cbn [sval_of_content]. now rewrite <- Hw.
  - apply andb_prop in Hc as [Hw _]. apply iw_eqb_eq in Hw. now rewrite <- Hw.
  - destruct n as [n|]; [|discriminate Hc]. apply andb_prop in Hc as [Hc Hl]. apply andb_prop in Hc as [Hn _].
    apply N.eqb_eq in Hn. subst n. rewrite len_map. f_equal. rewrite map_map.
    rewrite <- (map_id l) at 2. apply map_ext_in. intros a Ha.
    apply (proj1 (Forall_forall _ _) H a Ha). now apply (proj1 (forallb_forall _ _) Hl).
  - destruct n as [n|]; [|discriminate Hc]. apply andb_prop in Hc as [Hc Hl]. apply andb_prop in Hc as [Hc _].
    apply andb_prop in Hc as [_ Hn]. apply N.eqb_eq in Hn. subst n. rewrite len_map. f_equal. rewrite map_map.
    rewrite <- (map_id l) at 2. apply map_ext_in. intros a Ha.
    apply (proj1 (Forall_forall _ _) H a Ha). now apply (proj1 (forallb_forall _ _) Hl).
Qed.

(* ---- an earlier variant of an untagged enum rejects what a later one wrote ---- *)
Lemma fc_class_reject sa s x : shape_ok_any s = true -> conf_any s x = true ->
  cls_meet (accepts false sa) (produces s) = false -> fc false sa (cont_of x) = None.
Proof.
  intros Hs Hc Hm. destruct (fc false sa (cont_of x)) as [r|] eqn:E; [|reflexivity]. exfalso.
  destruct (produces_sound s x Hs Hc) as (c & Ec & Hin).
  pose proof (accepts_sound sa false _ _ c E Ec) as Ha. rewrite (cls_meet_intro c _ _ Ha Hin) in Hm. discriminate.
Qed.

Lemma ozip_reject ss e : shape_ok_any e = true -> forall l,
  forallb (fun s => cls_meet (accepts false s) (produces e)) ss = false -> forallb (conf_any e) l = true ->
  ozip (map (fc false) ss) (map cont_of l) = None.
Proof.
  intro He. induction ss as [|s ss IH]; intros l Hf Hl; [discriminate Hf|].
  destruct l as [|y l]; [reflexivity|]. cbn [forallb map ozip] in *. apply andb_prop in Hl as [Hy Hl].
  apply andb_false_iff in Hf as [Hf|Hf].
  - now rewrite (fc_class_reject s e y He Hy Hf).
  - rewrite (IH l Hf Hl). now destruct (fc false s (cont_of y)).
Qed.

Lemma reject ka sa k s x : may_accept (ka, sa) (k, s) = false -> k <> KUnit -> shape_ok_any s = true ->
  conf_any s x = true -> buf_conf false s x = true -> unt_step ka sa (cont_of x) = None.
Proof.
  intros Hm Hk Hs Hc Hb.
  assert (Hm': match ka with
               | KUnit => cls_in KcNull (produces s)
               | KStruct => cls_in KcMap (produces s)
               | _ => match sa, s with
                      | ShTuple ss, ShSeq _ e | ShTupleStruct ss, ShSeq _ e =>
                          forallb (fun s0 => cls_meet (accepts false s0) (produces e)) ss
                      | _, _ => cls_meet (accepts false sa) (produces s)
                      end
               end = false).
  { unfold may_accept in Hm. destruct (must_opaque false s) eqn:Em.
    - rewrite (must_opaque_sound s false x Em) in Hb. discriminate.
    - destruct k; [contradiction|exact Hm|exact Hm|exact Hm]. }
  clear Hm. destruct (produces_sound s x Hs Hc) as (c & Ec & Hin).
  assert (Hgen: cls_meet (accepts false sa) (produces s) = false -> fc false sa (cont_of x) = None)
    by (now apply fc_class_reject).
  assert (Href: forall ss b e, s = ShSeq b e -> forallb (fun s0 => cls_meet (accepts false s0) (produces e)) ss = false ->
            forall f : list sval -> sval,
            match cont_of x with CSeq l => match ozip (map (fc false) ss) l with Some vs => Some (f vs) | None => None end | _ => None end = None).
  { intros ss b e -> Hf f. destruct x; try discriminate Hc. cbn [conf_any shape_ok_any cont_of] in *.
    apply andb_prop in Hc as [_ Hl]. now rewrite (ozip_reject ss e Hs l Hf Hl). }
  pose proof (cont_plain x) as Hp.
  destruct ka; cbn [unt_step].
  - destruct (cont_of x); try reflexivity; [|contradiction]. injection Ec as <-. rewrite Hin in Hm'. discriminate.
  - destruct sa; try (now apply Hgen); destruct s; try (now apply Hgen); cbn [fc].
    + apply (Href ss known s eq_refl Hm' (fun vs => STuple (len vs) vs)).
    + apply (Href ss known s eq_refl Hm' (fun vs => STupleStruct (len vs) vs)).
  - destruct sa; try (now apply Hgen); destruct s; try (now apply Hgen); cbn [fc].
    + apply (Href ss known s eq_refl Hm' (fun vs => STuple (len vs) vs)).
    + apply (Href ss known s eq_refl Hm' (fun vs => STupleStruct (len vs) vs)).
  - destruct (cont_of x); try reflexivity. injection Ec as <-. rewrite Hin in Hm'. discriminate.
Qed.

(* ---- visitors over buffered sequences and maps ---- *)
Lemma omap_rt {A B} (f : A -> option B) (g : B -> A) l : Forall (fun x => f (g x) = Some x) l -> omap f (map g l) = Some l.
Proof. induction 1 as [|x l Hx _ IH]; [reflexivity|]. cbn [map omap]. now rewrite Hx, IH. Qed.

Lemma ozip_rt owned ss l : Forall2 (fun s x => fc owned s (cont_of x) = Some x) ss l ->
  ozip (map (fc owned) ss) (map cont_of l) = Some l.
Proof. induction 1 as [|s x ss l Hx _ IH]; [reflexivity|]. cbn [map ozip]. now rewrite Hx, IH. Qed.

Lemma zip_b_Forall2 {A B} (f : A -> B -> bool) l m : zip_b f l m = true -> Forall2 (fun a b => f a b = true) l m.
Proof.
  revert m. induction l as [|a l IH]; intros [|b m] H; try discriminate; [constructor|].
  cbn [zip_b] in H. apply andb_prop in H as [H1 H2]. constructor; [exact H1|now apply IH].
Qed.

Lemma Forall2_len {A B} (R : A -> B -> Prop) l m : Forall2 R l m -> len l = len m.
Proof. intro H. unfold len. f_equal. induction H; cbn; congruence. Qed.

Lemma oalt_ok (P Q : sval -> Prop) (fk fv : content -> option sval) :
  (forall x, P x -> fk (cont_of x) = Some x) -> (forall x, Q x -> fv (cont_of x) = Some x) ->
  forall m kvs, (length kvs <= m)%nat ->
  (fix alt (l : list sval) : Prop := match l with [] => True | k :: v :: r => P k /\ Q v /\ alt r | _ => False end) kvs ->
  oalt fk fv (map cont_of kvs) = Some kvs.
Proof.
  intros Hk Hv. induction m as [|m IH]; intros kvs Hm H.
  - destruct kvs; [reflexivity|cbn in Hm; lia].
  - destruct kvs as [|a [|b r]]; [reflexivity|contradiction|]. destruct H as (Ha & Hb & Hr).
    cbn [map oalt]. rewrite (Hk a Ha), (Hv b Hb), (IH r ltac:(cbn in Hm; lia) Hr). reflexivity.
Qed.

Lemma alt_b_prop (fk fv : sval -> bool) : forall m kvs, (length kvs <= m)%nat -> alt_b fk fv kvs = true ->
  (fix alt (l : list sval) : Prop := match l with [] => True | k :: v :: r => fk k = true /\ fv v = true /\ alt r | _ => False end) kvs.
Proof.
  induction m as [|m IH]; intros kvs Hm H.
  - destruct kvs; [exact I|cbn in Hm; lia].
  - destruct kvs as [|a [|b r]]; [exact I|discriminate|]. cbn [alt_b] in H. apply andb_prop in H as [H Hr].
    apply andb_prop in H as [Ha Hb]. repeat split; try assumption. apply IH; [cbn in Hm; lia|exact Hr].
Qed.

(* ---- the derived struct visitor over buffered entries ---- *)
Definition cdec (owned : bool) (p : bytes * shape) : bytes * (content -> option sval) := (fst p, fc owned (snd p)).

Lemma map_fst_cdec owned fs : map fst (map (cdec owned) fs) = map fst fs.
Proof. rewrite map_map. reflexivity. Qed.

Lemma cstruct_loop_rt owned fs : names_distinct (map fst fs) = true ->
  forall suf vsuf, Forall2 (fun (p : bytes * shape) (q : bytes * sval) =>
                              fst p = fst q /\ fc owned (snd p) (cont_of (snd q)) = Some (snd q)) suf vsuf ->
  forall pre pv, fs = pre ++ suf -> length pv = length pre ->
  cstruct_loop (map (cdec owned) fs) (cfields vsuf) (map Some pv ++ map (fun _ => None) suf)
  = Some (map Some (pv ++ map snd vsuf)).
Proof.
  intros Hnd suf vsuf H2. induction H2 as [|[n s] [n' x] suf vsuf [Hn Hx] _ IH]; intros pre pv Efs Hpv.
  - cbn [cfields cstruct_loop map]. now rewrite !app_nil_r.
  - cbn [fst snd] in Hn, Hx. subst n'. cbn [cfields cstruct_loop content_field].
    assert (Efind: find_idx n (map (cdec owned) fs) 0 = Some (length pre, fc owned s)).
    { rewrite (find_idx_at (map (cdec owned) fs) ltac:(now rewrite map_fst_cdec) (length pre) n (fc owned s) 0); [reflexivity|].
      rewrite Efs, map_app. cbn [map cdec fst snd]. rewrite <- (map_length (cdec owned) pre). apply nth_error_mid. }
    rewrite Efind.
    assert (Enth: nth_error (map Some pv ++ map (fun _ => None) ((n, s) :: suf)) (length pre) = Some None).
    { cbn [map]. rewrite <- Hpv, <- (map_length Some pv). apply nth_error_mid. }
    rewrite Enth, Hx. cbn [map].
    rewrite <- Hpv, <- (map_length Some pv), set_nth_app.
    replace (map Some pv ++ Some x :: map (fun _ => None) suf) with (map Some (pv ++ [x]) ++ map (fun _ : bytes * shape => @None sval) suf)
      by (rewrite map_app, <- app_assoc; reflexivity).
    rewrite (IH (pre ++ [(n, s)]) (pv ++ [x]) ltac:(now rewrite <- app_assoc) ltac:(rewrite !app_length; cbn; lia)).
    cbn [snd]. now rewrite <- app_assoc.
Qed.

Lemma cstruct_map_rt owned fs vs : names_distinct (map fst fs) = true ->
  Forall2 (fun (p : bytes * shape) (q : bytes * sval) =>
             fst p = fst q /\ fc owned (snd p) (cont_of (snd q)) = Some (snd q)) fs vs ->
  cstruct_map fs (map (cdec owned) fs) (cfields vs) = Some (SStruct (len vs) vs).
Proof.
  intros Hnd H2. unfold cstruct_map.
  pose proof (cstruct_loop_rt owned fs Hnd fs vs H2 [] [] eq_refl eq_refl) as R. cbn [map app] in R. rewrite R.
  assert (Hn: map fst vs = map fst fs).
  { clear R. induction H2 as [|p q fs' vs' [Hf _] _ IH]; [reflexivity|]. cbn [map]. rewrite Hf, IH; [reflexivity|].
    cbn [map names_distinct] in Hnd. now apply andb_prop in Hnd as [_ Hnd]. }
  now rewrite (fill_missing_all fs vs Hn).
Qed.

(* ================================================================== fc gives the value back *)
Definition fc_ok (sh : shape) : Prop := forall owned x,
  shape_ok_any sh = true -> opt_in_opt sh = false -> untagged_disjoint sh = true ->
  buf_conf owned sh x = true -> fc owned sh (cont_of x) = Some x.

Lemma fc_leaf sh :
  match sh with
  | ShBool | ShI _ | ShU _ | ShF32 | ShF64 | ShChar | ShStr _ | ShDisplayStr | ShBytes _ | ShUnit | ShUnitStruct
  | ShAny | ShIgnored => True
  | _ => False end -> fc_ok sh.
Proof.
  intros Hl owned x _ _ _ Hb.
  destruct sh; try contradiction; try (destruct x; discriminate Hb).
  - destruct x; try discriminate Hb. reflexivity.
  - destruct x; try discriminate Hb. cbn [buf_conf cont_of fc] in *. apply andb_prop in Hb as [Hw Hz].
    apply iw_eqb_eq in Hw. subst w0. now rewrite content_int_cont, Hz.
  - destruct x; try discriminate Hb. cbn [buf_conf cont_of fc content_int] in *. apply andb_prop in Hb as [Hw Hn].
    apply iw_eqb_eq in Hw. subst w0. apply N.leb_le in Hn.
    assert (E: ((0 <=? Z.of_N n) && (Z.of_N n <=? Z.of_N (umax w)))%Z = true).
    { apply andb_true_intro. split; apply Z.leb_le; lia. }
    now rewrite E, N2Z.id.
  - destruct x; try discriminate Hb. reflexivity.
  - destruct x; try discriminate Hb. reflexivity.
  - destruct x; try discriminate Hb. cbn [cont_of fc]. now rewrite andb_false_r.
  - destruct x; try discriminate Hb. reflexivity.
  - destruct x; try discriminate Hb. cbn [cont_of fc]. now rewrite andb_false_r.
  - destruct x; try discriminate Hb. cbn [buf_conf cont_of fc] in *. now rewrite Hb.
  - cbn [fc]. f_equal. apply canon_fix. destruct x; exact Hb.
Qed.

Lemma fc_option s : fc_ok s -> fc_ok (ShOption s).
Proof.
  intros IH owned x Hs Ho Hd Hb. cbn [shape_ok_any opt_in_opt untagged_disjoint] in *.
  apply orb_false_elim in Ho as [Hn Ho].
  destruct x; try discriminate Hb; [reflexivity|]. cbn [buf_conf cont_of] in *.
  pose proof (IH owned x Hs Ho Hd Hb) as R. pose proof (cont_plain x) as Hp.
  pose proof (conf_not_null s x Hs Hn (buf_conf_conf s owned x Hb)) as Hnn.
  revert R Hp Hnn. destruct (cont_of x); intros R Hp Hnn; try contradiction; try congruence; cbn [fc]; now rewrite R.
Qed.

Lemma fc_newtype s : fc_ok s -> fc_ok (ShNewtypeStruct s).
Proof.
  intros IH owned x Hs Ho Hd Hb. cbn [shape_ok_any opt_in_opt untagged_disjoint] in *.
  destruct x; try discriminate Hb. cbn [buf_conf cont_of] in *.
  pose proof (IH owned x Hs Ho Hd Hb) as R. pose proof (cont_plain x) as Hp.
  revert R Hp. destruct (cont_of x); intros R Hp; try contradiction; cbn [fc]; now rewrite R.
Qed.

Lemma fc_seq k s : fc_ok s -> fc_ok (ShSeq k s).
Proof.
  intros IH owned x Hs Ho Hd Hb. cbn [shape_ok_any opt_in_opt untagged_disjoint] in *.
  destruct x; try discriminate Hb. cbn [buf_conf cont_of fc] in *.
  apply andb_prop in Hb as [Hb Hl]. apply andb_prop in Hb as [Hn _].
  rewrite (omap_rt (fc owned s) cont_of l).
  - destruct n as [n|].
    + apply andb_prop in Hn as [-> Hn]. apply N.eqb_eq in Hn. now subst n.
    + apply negb_true_iff in Hn. now subst k.
  - apply Forall_forall. intros a Ha. apply IH; try assumption. now apply (proj1 (forallb_forall _ _) Hl).
Qed.

Lemma fc_elems owned ss : Forall fc_ok ss -> forallb shape_ok_any ss = true -> existsb opt_in_opt ss = false ->
  forallb untagged_disjoint ss = true -> forall l, zip_b (buf_conf owned) ss l = true ->
  Forall2 (fun s x => fc owned s (cont_of x) = Some x) ss l.
Proof.
  induction 1 as [|s ss Hs _ IH]; intros Hok Ho Hd l Hz; destruct l as [|y l]; try discriminate Hz; [constructor|].
  cbn [forallb existsb zip_b] in *. apply andb_prop in Hok as [Hok1 Hok2]. apply orb_false_elim in Ho as [Ho1 Ho2].
  apply andb_prop in Hd as [Hd1 Hd2]. apply andb_prop in Hz as [Hz1 Hz2].
  constructor; [now apply Hs|now apply IH].
Qed.

Lemma fc_tuple ss : Forall fc_ok ss -> fc_ok (ShTuple ss).
Proof.
  intros IH owned x Hs Ho Hd Hb. cbn [shape_ok_any opt_in_opt untagged_disjoint] in *.
  apply andb_prop in Hs as [_ Hs].
  destruct x; try discriminate Hb. cbn [buf_conf cont_of fc] in *.
  apply andb_prop in Hb as [Hb Hz]. apply andb_prop in Hb as [Hn _]. apply N.eqb_eq in Hn.
  pose proof (fc_elems owned ss IH Hs Ho Hd l Hz) as H2. rewrite (ozip_rt owned ss l H2).
  rewrite <- (Forall2_len _ _ _ H2). now subst n.
Qed.

Lemma fc_tuple_struct ss : Forall fc_ok ss -> fc_ok (ShTupleStruct ss).
Proof.
  intros IH owned x Hs Ho Hd Hb. cbn [shape_ok_any opt_in_opt untagged_disjoint] in *.
  apply andb_prop in Hs as [_ Hs].
  destruct x; try discriminate Hb. cbn [buf_conf cont_of fc] in *.
  apply andb_prop in Hb as [Hb Hz]. apply andb_prop in Hb as [Hn _]. apply N.eqb_eq in Hn.
  pose proof (fc_elems owned ss IH Hs Ho Hd l Hz) as H2. rewrite (ozip_rt owned ss l H2).
  rewrite <- (Forall2_len _ _ _ H2). now subst n.
Qed.

Lemma fc_map b k v : fc_ok k -> fc_ok v -> fc_ok (ShMap b k v).
Proof.
  intros IHk IHv owned x Hs Ho Hd Hb. cbn [shape_ok_any opt_in_opt untagged_disjoint] in *.
  apply andb_prop in Hs as [Hsk Hsv]. apply orb_false_elim in Ho as [Hok Hov]. apply andb_prop in Hd as [Hdk Hdv].
  destruct x; try discriminate Hb. cbn [buf_conf cont_of fc] in *.
  apply andb_prop in Hb as [Hb Ha]. apply andb_prop in Hb as [Hn _].
  rewrite (oalt_ok (fun y => buf_conf owned k y = true) (fun y => buf_conf owned v y = true) (fc owned k) (fc owned v)
             ltac:(intros y Hy; now apply IHk) ltac:(intros y Hy; now apply IHv) (length kvs) kvs (le_n _)
             (alt_b_prop _ _ (length kvs) kvs (le_n _) Ha)).
  destruct n as [n|].
  - apply andb_prop in Hn as [-> Hn]. apply N.eqb_eq in Hn. now subst n.
  - apply negb_true_iff in Hn. now subst b.
Qed.

Lemma fc_fields owned fs : Forall (fun p => fc_ok (snd p)) fs ->
  forallb (fun p : bytes * shape => let (n, s) := p in str_ok n && shape_ok_any s) fs = true ->
  existsb (fun p : bytes * shape => let (_, s) := p in opt_in_opt s) fs = false ->
  forallb (fun p : bytes * shape => let (_, s) := p in untagged_disjoint s) fs = true ->
  forall vs, zip_b (field_b (buf_conf owned)) fs vs = true ->
  Forall2 (fun (p : bytes * shape) (q : bytes * sval) =>
             fst p = fst q /\ fc owned (snd p) (cont_of (snd q)) = Some (snd q)) fs vs.
Proof.
  induction 1 as [|[n s] fs Hs _ IH]; intros Hok Ho Hd vs Hz; destruct vs as [|[n' y] vs]; try discriminate Hz; [constructor|].
  cbn [forallb existsb zip_b] in *. apply andb_prop in Hok as [Hok1 Hok2]. apply orb_false_elim in Ho as [Ho1 Ho2].
  apply andb_prop in Hd as [Hd1 Hd2]. apply andb_prop in Hz as [Hz1 Hz2]. apply andb_prop in Hok1 as [_ Hok1].
  unfold field_b in Hz1. cbn [fst snd] in *. apply andb_prop in Hz1 as [Hn Hy]. apply beq_true in Hn.
  constructor; [split; [exact Hn|now apply Hs]|now apply IH].
Qed.

Lemma fc_struct fs : Forall (fun p => fc_ok (snd p)) fs -> fc_ok (ShStruct fs).
Proof.
  intros IH owned x Hs Ho Hd Hb. cbn [shape_ok_any opt_in_opt untagged_disjoint] in *.
  apply andb_prop in Hs as [Hnd Hs].
  destruct x; try discriminate Hb. cbn [buf_conf] in Hb. rewrite cont_struct. cbn [fc].
  apply andb_prop in Hb as [Hb Hz]. apply andb_prop in Hb as [Hn _]. apply N.eqb_eq in Hn.
  pose proof (fc_fields owned fs IH Hs Ho Hd fs0 Hz) as H2.
  change (map (fun p : bytes * shape => (fst p, fc owned (snd p))) fs) with (map (cdec owned) fs).
  rewrite (cstruct_map_rt owned fs fs0 Hnd H2). rewrite <- (Forall2_len _ _ _ H2). now subst n.
Qed.

(* ---- externally tagged enums under the buffer ---- *)
Definition edec (owned : bool) (p : bytes * (vkind * shape)) : bytes * (bytes * (vkind * (content -> option sval))) :=
  let (n, ks) := p in let (k, s) := ks in (n, (n, (k, fc owned s))).

Definition epick (owned : bool) (vs : list (bytes * (vkind * shape))) (key : content) (v : option content) : option sval :=
  match content_field key (map (edec owned) vs) with
  | Some (Some (i, (name, (k, fp)))) => variant_payload owned k fp (N.of_nat i) name v
  | _ => None
  end.

Lemma fc_enum_unfold owned vs x :
  fc owned (ShEnum vs) x =
  match x with CMap [key; v] => epick owned vs key (Some v) | CStr _ _ => epick owned vs x None | _ => None end.
Proof. reflexivity. Qed.

Lemma map_fst_edec owned vs : map fst (map (edec owned) vs) = map fst vs.
Proof. induction vs as [|[n [k s]] r IH]; [reflexivity|]. cbn [map edec fst]. now rewrite IH. Qed.

Lemma epick_at owned vs i name k s v : names_distinct (map fst vs) = true -> nth_error vs i = Some (name, (k, s)) ->
  epick owned vs (CStr false name) v = variant_payload owned k (fc owned s) (N.of_nat i) name v.
Proof.
  intros Hnd Hn. unfold epick. cbn [content_field].
  rewrite (find_idx_at (map (edec owned) vs) ltac:(now rewrite map_fst_edec) i name (name, (k, fc owned s)) 0); [reflexivity|].
  rewrite nth_error_map, Hn. reflexivity.
Qed.

Lemma fc_enum vs : Forall (fun p => fc_ok (snd (snd p))) vs -> fc_ok (ShEnum vs).
Proof.
  intros IH owned x Hs Ho Hd Hb. cbn [shape_ok_any opt_in_opt untagged_disjoint] in *.
  apply andb_prop in Hs as [Hs Hsv]. apply andb_prop in Hs as [Hnd _].
  assert (Hvar: forall name k s, In (name, (k, s)) vs ->
            shape_ok_any s = true /\ opt_in_opt s = false /\ untagged_disjoint s = true /\ fc_ok s).
  { intros name k s Hin.
    pose proof (proj1 (forallb_forall _ _) Hsv _ Hin) as H1. cbn beta iota in H1. apply andb_prop in H1 as [_ H1].
    pose proof (proj1 (forallb_forall _ _) Hd _ Hin) as H2. cbn beta iota in H2.
    pose proof (proj1 (Forall_forall _ _) IH _ Hin) as H3. cbn [snd] in H3.
    repeat split; try assumption.
    destruct (opt_in_opt s) eqn:E; [|reflexivity]. exfalso.
    assert (existsb (fun p : bytes * (vkind * shape) => let (_, ks) := p in let (_, s0) := ks in opt_in_opt s0) vs = true)
      by (apply existsb_exists; exists (name, (k, s)); split; [exact Hin|exact E]). congruence. }
  rewrite fc_enum_unfold.
  destruct x; try discriminate Hb; cbn [buf_conf] in Hb; try rewrite variant_at_map in Hb;
    match type of Hb with context [variant_at vs ?i ?nm ?k] => destruct (variant_at vs i nm k) as [s|] eqn:Ev; [|discriminate Hb] end;
    cbn [option_map] in Hb; apply variant_at_some in Ev; pose proof (nth_error_In _ _ Ev) as Hin;
    destruct (Hvar _ _ _ Hin) as (Hss & Hos & Hds & IHs); try rewrite cont_struct_variant; cbn [cont_of];
    rewrite (epick_at owned vs _ _ _ _ _ Hnd Ev); rewrite N2Nat.id; cbn [variant_payload].
  - reflexivity.
  - now rewrite (IHs owned x Hss Hos Hds Hb).
  - change (CSeq (map cont_of l)) with (cont_of (STuple n l)). now rewrite (IHs owned _ Hss Hos Hds Hb).
  - rewrite <- (cont_struct n). now rewrite (IHs owned _ Hss Hos Hds Hb).
Qed.

(* ---- untagged enums: the first variant that deserialises ---- *)
Lemma fc_untagged vs : Forall (fun p => fc_ok (snd p)) vs -> fc_ok (ShUntagged vs).
Proof.
  intros IH owned x Hs Ho Hd Hb. cbn [shape_ok_any opt_in_opt untagged_disjoint buf_conf] in *.
  apply andb_prop in Hd as [Hpo Hd].
  destruct (unt_first_split x false conf_any (buf_conf false) vs Hb (unt_first_exists x _ _ vs Hb))
    as (pre & k & s & post & E & Hk & Hc & Hbs).
  assert (Hin: In (k, s) vs) by (rewrite E; apply in_or_app; right; now left).
  pose proof (proj1 (forallb_forall _ _) Hs _ Hin) as H1. cbn beta iota in H1. apply andb_prop in H1 as [Hp Hss].
  pose proof (proj1 (forallb_forall _ _) Hd _ Hin) as Hds. cbn beta iota in Hds.
  pose proof (proj1 (Forall_forall _ _) IH _ Hin) as IHs. cbn [snd] in IHs.
  assert (Hos: opt_in_opt s = false).
  { destruct (opt_in_opt s) eqn:Eo; [|reflexivity]. exfalso.
    assert (existsb (fun p : vkind * shape => let (_, s0) := p in opt_in_opt s0) vs = true)
      by (apply existsb_exists; exists (k, s); split; [exact Hin|exact Eo]). congruence. }
  pose proof (pairs_ok_before may_accept pre (k, s) post ltac:(now rewrite <- E)) as Hrej.
  rewrite E. clear E Hin Hb. induction pre as [|[ka sa] pre IHp].
  - cbn [app]. rewrite fc_unt_cons.
    assert (Es: unt_step k s (cont_of x) = Some x).
    { pose proof (IHs false x Hss Hos Hds Hbs) as R. destruct k; [contradiction|exact R|exact R|].
      cbn [unt_step]. destruct s; try discriminate Hp. destruct x; try discriminate Hc.
      rewrite cont_struct in *. exact R. }
    now rewrite Es.
  - cbn [app]. rewrite fc_unt_cons.
    rewrite (reject ka sa k s x (Hrej (ka, sa) ltac:(now left)) Hk Hss Hc Hbs).
    apply IHp. intros a Ha. apply Hrej. now right.
Qed.

Theorem fc_rt sh : fc_ok sh.
Proof.
  induction sh using shape_ind_all.
  - now apply fc_leaf.
  - now apply fc_option.
  - now apply fc_newtype.
  - now apply fc_seq.
  - now apply fc_tuple.
  - now apply fc_tuple_struct.
  - now apply fc_map.
  - now apply fc_struct.
  - now apply fc_enum.
  - intros owned x _ _ _ Hb. destruct x; discriminate Hb.
  - intros owned x _ _ _ Hb. destruct x; discriminate Hb.
  - now apply fc_untagged.
  - intros owned x _ _ _ Hb. destruct x; discriminate Hb.
Qed.
