(* Proofs/AccAgreeFacts.v — the success cases of every accessor on the item shape(s) it documents, the
   chunk loop of the _iter accessors, and the agreement theorem for all accessors (C04). *)
From MC Require Import Bytes BytesFacts Monad Cbor Utf8 Half Decoder Acc Accessors DecoderFacts IntFacts AccFacts.
From Coq Require Import Lia.
Local Open Scope N_scope.

(* ---- reading a definite head ---- *)
Lemma read_head mt w n rest p L : fits w n = true -> p + len (Cbor.head mt w n) <= L ->
  Cbor.head mt w n ++ rest = ib mt w n :: args w n ++ rest /\
  major (ib mt w n) = mt * 32 /\ info (ib mt w n) = ai w n /\ ai w n < 28 /\
  unsigned (ai w n) (mkdst (p + 1) (args w n ++ rest) L) = (Ok n, mkdst (p + len (Cbor.head mt w n)) rest L).
Proof.
  intros Hf HL. split; [now rewrite head_split|]. split; [now apply major_ib|].
  split; [now apply info_ib|]. split; [now apply ai_lt|].
  rewrite len_ser_int in *. rewrite unsigned_args by (assumption || lia). apply ok_pos. lia.
Qed.

Lemma head_len_eq mt w n : head_len w = len (Cbor.head mt w n).
Proof. rewrite len_head. destruct w; reflexivity. Qed.

(* ---- definite strings ---- *)
Lemma dec_bytes_ok w b r p L : fits w (len b) = true -> p + len (Cbor.head 2 w (len b) ++ b) <= L ->
  dec_bytes (mkdst p ((Cbor.head 2 w (len b) ++ b) ++ r) L)
  = (Ok b, mkdst (p + len (Cbor.head 2 w (len b) ++ b)) r L).
Proof.
  intros Hf HL. rewrite len_app in *. rewrite N.add_assoc.
  destruct (read_head 2 w (len b) (b ++ r) p L Hf ltac:(lia)) as (E & Hmaj & Hinf & Hai & Hu).
  rewrite <- app_assoc, E. unfold dec_bytes. rewrite (bind_ok _ _ _ _ _ (read_cons _ _ _ _)). cbv beta.
  rewrite Hmaj, Hinf. change (2 * 32 =? 64) with true.
  destruct (N.eqb_spec (ai w (len b)) 31); [lia|]. cbn [negb orb].
  rewrite (bind_ok _ _ _ _ _ Hu). now rewrite read_slice_app by lia.
Qed.

Lemma dec_str_spec w b r p L : fits w (len b) = true -> p + len (Cbor.head 3 w (len b) ++ b) <= L ->
  dec_str (mkdst p ((Cbor.head 3 w (len b) ++ b) ++ r) L)
  = (if utf8_valid b then Ok b else Err Utf8, mkdst (p + len (Cbor.head 3 w (len b) ++ b)) r L).
Proof.
  intros Hf HL. rewrite len_app in *. rewrite N.add_assoc.
  destruct (read_head 3 w (len b) (b ++ r) p L Hf ltac:(lia)) as (E & Hmaj & Hinf & Hai & Hu).
  rewrite <- app_assoc, E. unfold dec_str. rewrite (bind_ok _ _ _ _ _ (read_cons _ _ _ _)). cbv beta.
  rewrite Hmaj, Hinf. change (3 * 32 =? 96) with true.
  destruct (N.eqb_spec (ai w (len b)) 31); [lia|]. cbn [negb orb].
  rewrite (bind_ok _ _ _ _ _ Hu). rewrite (bind_ok _ _ _ _ _ (read_slice_app b r (p + len (Cbor.head 3 w (len b))) L ltac:(lia))).
  destruct (utf8_valid b); reflexivity.
Qed.

Lemma len0_nil {A} (l : list A) : len l = 0 -> l = [].
Proof. destruct l; [reflexivity|]. rewrite len_cons. lia. Qed.

Lemma nonempty_one b : nonempty [b] = if len b =? 0 then [] else [b].
Proof. unfold nonempty. cbn [filter]. destruct (len b =? 0); reflexivity. Qed.

Lemma dec_bytes_iter_def f w b r p L : fits w (len b) = true -> p + len (Cbor.head 2 w (len b) ++ b) <= L ->
  dec_bytes_iter f (mkdst p ((Cbor.head 2 w (len b) ++ b) ++ r) L)
  = (Ok (nonempty [b]), mkdst (p + len (Cbor.head 2 w (len b) ++ b)) r L).
Proof.
  intros Hf HL. rewrite len_app in *. rewrite N.add_assoc.
  destruct (read_head 2 w (len b) (b ++ r) p L Hf ltac:(lia)) as (E & Hmaj & Hinf & Hai & Hu).
  rewrite <- app_assoc, E. unfold dec_bytes_iter. rewrite (bind_ok _ _ _ _ _ (read_cons _ _ _ _)). cbv beta.
  rewrite Hmaj, Hinf. change (2 * 32 =? 64) with true. cbn [negb].
  destruct (N.eqb_spec (ai w (len b)) 31); [lia|].
  rewrite (bind_ok _ _ _ _ _ Hu). rewrite nonempty_one.
  destruct (N.eqb_spec (len b) 0) as [E0|E0].
  - apply len0_nil in E0. subst b. unfold ret. cbn [app]. apply ok_pos. rewrite len_nil. lia.
  - now rewrite (bind_ok _ _ _ _ _ (read_slice_app b r (p + len (Cbor.head 2 w (len b))) L ltac:(lia))).
Qed.

Lemma dec_str_iter_def f w b r p L : fits w (len b) = true -> p + len (Cbor.head 3 w (len b) ++ b) <= L ->
  dec_str_iter f (mkdst p ((Cbor.head 3 w (len b) ++ b) ++ r) L)
  = (if utf8_valid b then Ok (nonempty [b]) else Err Utf8, mkdst (p + len (Cbor.head 3 w (len b) ++ b)) r L).
Proof.
  intros Hf HL. rewrite len_app in *. rewrite N.add_assoc.
  destruct (read_head 3 w (len b) (b ++ r) p L Hf ltac:(lia)) as (E & Hmaj & Hinf & Hai & Hu).
  rewrite <- app_assoc, E. unfold dec_str_iter. rewrite (bind_ok _ _ _ _ _ (read_cons _ _ _ _)). cbv beta.
  rewrite Hmaj, Hinf. change (3 * 32 =? 96) with true. cbn [negb].
  destruct (N.eqb_spec (ai w (len b)) 31); [lia|].
  rewrite (bind_ok _ _ _ _ _ Hu). rewrite nonempty_one.
  destruct (N.eqb_spec (len b) 0) as [E0|E0].
  - apply len0_nil in E0. subst b. unfold ret. cbn [app]. change (utf8_valid []) with true. cbv iota.
    apply ok_pos. rewrite len_nil. lia.
  - rewrite (bind_ok _ _ _ _ _ (read_slice_app b r (p + len (Cbor.head 3 w (len b))) L ltac:(lia))). destruct (utf8_valid b); reflexivity.
Qed.

(* ---- headers ---- *)
Lemma dec_container_def mt w n rest p L : fits w n = true -> p + len (Cbor.head mt w n) <= L ->
  dec_container (mt * 32) (mkdst p (Cbor.head mt w n ++ rest) L)
  = (Ok (Some n), mkdst (p + len (Cbor.head mt w n)) rest L).
Proof.
  intros Hf HL.
  destruct (read_head mt w n rest p L Hf HL) as (E & Hmaj & Hinf & Hai & Hu).
  rewrite E. unfold dec_container. rewrite (bind_ok _ _ _ _ _ (read_cons _ _ _ _)). cbv beta.
  rewrite Hmaj, Hinf, N.eqb_refl. cbn [negb].
  destruct (N.eqb_spec (ai w n) 31); [lia|]. now rewrite (bind_ok _ _ _ _ _ Hu).
Qed.

Lemma dec_tag_ok w n rest p L : fits w n = true -> p + len (Cbor.head 6 w n) <= L ->
  dec_tag (mkdst p (Cbor.head 6 w n ++ rest) L) = (Ok n, mkdst (p + len (Cbor.head 6 w n)) rest L).
Proof.
  intros Hf HL.
  destruct (read_head 6 w n rest p L Hf HL) as (E & Hmaj & Hinf & Hai & Hu).
  rewrite E. unfold dec_tag. rewrite (bind_ok _ _ _ _ _ (read_cons _ _ _ _)). cbv beta.
  rewrite Hmaj, Hinf. change (6 * 32 =? 192) with true. cbn [negb]. exact Hu.
Qed.

(* ---- the chunk loop of bytes_iter / str_iter on an indefinite string ---- *)
Definition one_ok (one : M bytes) (mt : N) (good : chunk_t -> bool) : Prop :=
  forall c r p L, wf_chunk c = true -> good c = true -> p + len (ser_chunk mt c) <= L ->
    one (mkdst p (ser_chunk mt c ++ r) L) = (Ok (snd c), mkdst (p + len (ser_chunk mt c)) r L).

Definition one_bad (one : M bytes) (mt : N) (good : chunk_t -> bool) : Prop :=
  forall c r p L, wf_chunk c = true -> good c = false -> p + len (ser_chunk mt c) <= L ->
    is_err (one (mkdst p (ser_chunk mt c ++ r) L)).

Lemma ser_chunk_first mt c : exists t, ser_chunk mt c = ib mt (fst c) (len (snd c)) :: t.
Proof. unfold ser_chunk. rewrite head_split. cbn [app]. eexists; reflexivity. Qed.

Lemma current_first l b t r p L : l = b :: t -> current (mkdst p (l ++ r) L) = (Ok b, mkdst p (l ++ r) L).
Proof. intros ->. reflexivity. Qed.

Lemma chunk_ib_not_break mt c : mt <= 6 -> wf_chunk c = true -> ib mt (fst c) (len (snd c)) <> 255.
Proof.
  intros Hm Hc. unfold wf_chunk in Hc. apply andb_prop in Hc as [Hf _].
  pose proof (ib_range mt _ _ Hf). lia.
Qed.

Lemma chunks_ok one mt good : mt <= 6 -> one_ok one mt good ->
  forall cs fuel acc r p L, forallb wf_chunk cs = true -> forallb good cs = true ->
    (length cs < fuel)%nat -> p + len (flat_map (ser_chunk mt) cs) + 1 <= L ->
    chunks_until_break one fuel acc (mkdst p (flat_map (ser_chunk mt) cs ++ 255 :: r) L)
    = (Ok (rev acc ++ map snd cs), mkdst (p + len (flat_map (ser_chunk mt) cs) + 1) r L).
Proof.
  intros Hm Hone. induction cs as [|c cs IH]; intros fuel acc r p L Hw Hg Hf HL;
    cbn [length] in Hf; (destruct fuel as [|fuel]; [lia|]); cbn [chunks_until_break].
  - cbn [flat_map app map]. rewrite (bind_ok _ _ _ _ _ (current_cons _ _ _ _)). cbv beta.
    change (255 =? 255) with true. cbv iota.
    rewrite (bind_ok _ _ _ _ _ (read_cons _ _ _ _)). unfold ret. rewrite app_nil_r.
    apply ok_pos. rewrite len_nil. lia.
  - cbn [forallb] in Hw, Hg. apply andb_prop in Hw as [Hwc Hw]. apply andb_prop in Hg as [Hgc Hg].
    cbn [flat_map] in *. rewrite len_app in HL. rewrite <- app_assoc.
    destruct (ser_chunk_first mt c) as [t Et].
    rewrite (bind_ok _ _ _ _ _ (current_first _ _ _ _ _ _ Et)). cbv beta.
    destruct (N.eqb_spec (ib mt (fst c) (len (snd c))) 255) as [E|_]; [now apply chunk_ib_not_break in E|].
    rewrite (bind_ok _ _ _ _ _ (Hone c _ p L Hwc Hgc ltac:(lia))).
    rewrite IH by (assumption || lia).
    cbn [rev map]. rewrite <- app_assoc. cbn [app]. apply ok_pos. rewrite len_app. lia.
Qed.

Lemma chunks_bad one mt good : mt <= 6 -> one_ok one mt good -> one_bad one mt good ->
  forall cs fuel acc r p L, forallb wf_chunk cs = true -> forallb good cs = false ->
    (length cs < fuel)%nat -> p + len (flat_map (ser_chunk mt) cs) + 1 <= L ->
    is_err (chunks_until_break one fuel acc (mkdst p (flat_map (ser_chunk mt) cs ++ 255 :: r) L)).
Proof.
  intros Hm Hone Hbad. induction cs as [|c cs IH]; intros fuel acc r p L Hw Hg Hf HL;
    cbn [length] in Hf; (destruct fuel as [|fuel]; [lia|]); cbn [chunks_until_break].
  - discriminate.
  - cbn [forallb] in Hw, Hg. apply andb_prop in Hw as [Hwc Hw].
    cbn [flat_map] in *. rewrite len_app in HL. rewrite <- app_assoc.
    destruct (ser_chunk_first mt c) as [t Et].
    rewrite (bind_ok _ _ _ _ _ (current_first _ _ _ _ _ _ Et)). cbv beta.
    destruct (N.eqb_spec (ib mt (fst c) (len (snd c))) 255) as [E|_]; [now apply chunk_ib_not_break in E|].
    destruct (good c) eqn:Hgc.
    + rewrite (bind_ok _ _ _ _ _ (Hone c _ p L Hwc Hgc ltac:(lia))).
      apply IH; assumption || lia.
    + apply bind_is_err. apply Hbad; assumption || lia.
Qed.

Definition always (c : chunk_t) : bool := true.
Definition chunk_utf8 (c : chunk_t) : bool := utf8_valid (snd c).

Lemma bytes_one_ok : one_ok dec_bytes 2 always.
Proof.
  intros c r p L Hc _ HL. unfold wf_chunk in Hc. apply andb_prop in Hc as [Hf _].
  unfold ser_chunk in *. now apply dec_bytes_ok.
Qed.

Lemma str_one_ok : one_ok dec_str 3 chunk_utf8.
Proof.
  intros c r p L Hc Hg HL. unfold wf_chunk in Hc. apply andb_prop in Hc as [Hf _].
  unfold ser_chunk, chunk_utf8 in *. rewrite dec_str_spec by assumption. now rewrite Hg.
Qed.

Lemma str_one_bad : one_bad dec_str 3 chunk_utf8.
Proof.
  intros c r p L Hc Hg HL. unfold wf_chunk in Hc. apply andb_prop in Hc as [Hf _].
  unfold ser_chunk, chunk_utf8 in *. rewrite dec_str_spec by assumption. rewrite Hg.
  eexists _, _. reflexivity.
Qed.

Lemma forallb_always cs : forallb always cs = true.
Proof. induction cs; [reflexivity|]. cbn [forallb always]. exact IHcs. Qed.

Lemma length_chunks mt cs : (length cs <= length (flat_map (ser_chunk mt) cs))%nat.
Proof.
  induction cs as [|c cs IH]; [apply le_n|]. cbn [flat_map length]. rewrite app_length.
  destruct (ser_chunk_first mt c) as [t ->]. cbn [length]. lia.
Qed.

Lemma len_indef (b : N) (body : bytes) : len (b :: body ++ [255]) = 1 + len body + 1.
Proof. rewrite len_cons, len_app. change (len [255]) with 1. lia. Qed.

Lemma dec_bytes_iter_indef cs r p L : forallb wf_chunk cs = true ->
  p + len (ser (EBytesI cs)) <= L ->
  dec_bytes_iter (fuel_of (mkdst p (ser (EBytesI cs) ++ r) L)) (mkdst p (ser (EBytesI cs) ++ r) L)
  = (Ok (map snd cs), mkdst (p + len (ser (EBytesI cs))) r L).
Proof.
  intros Hw HL. cbn [ser] in *. rewrite len_indef in *. unfold fuel_of. cbn [drest].
  set (fuel := S _).
  assert (Hf: (length cs < fuel)%nat).
  { unfold fuel. cbn [app length]. rewrite !app_length. pose proof (length_chunks 2 cs). lia. }
  clearbody fuel. cbn [app]. rewrite <- app_assoc. cbn [app].
  unfold dec_bytes_iter. rewrite (bind_ok _ _ _ _ _ (read_cons _ _ _ _)). cbv beta.
  change (negb (major 95 =? 64)) with false. change (info 95 =? 31) with true. cbv iota.
  rewrite (chunks_ok dec_bytes 2 always ltac:(lia) bytes_one_ok cs fuel [] r (p + 1) L Hw (forallb_always cs) Hf ltac:(lia)).
  cbn [rev app]. apply ok_pos. lia.
Qed.

Lemma dec_str_iter_indef cs r p L : forallb wf_chunk cs = true ->
  p + len (ser (ETextI cs)) <= L ->
  let res := dec_str_iter (fuel_of (mkdst p (ser (ETextI cs) ++ r) L)) (mkdst p (ser (ETextI cs) ++ r) L) in
  if forallb chunk_utf8 cs then res = (Ok (map snd cs), mkdst (p + len (ser (ETextI cs))) r L)
  else is_err res.
Proof.
  intros Hw HL. cbn [ser] in *. rewrite len_indef in *. unfold fuel_of. cbn [drest].
  set (fuel := S _).
  assert (Hf: (length cs < fuel)%nat).
  { unfold fuel. cbn [app length]. rewrite !app_length. pose proof (length_chunks 3 cs). lia. }
  clearbody fuel. cbn [app]. rewrite <- app_assoc. cbn [app]. cbv zeta.
  unfold dec_str_iter. rewrite (bind_ok _ _ _ _ _ (read_cons _ _ _ _)). cbv beta.
  change (negb (major 127 =? 96)) with false. change (info 127 =? 31) with true. cbv iota.
  destruct (forallb chunk_utf8 cs) eqn:Hg.
  - rewrite (chunks_ok dec_str 3 chunk_utf8 ltac:(lia) str_one_ok cs fuel [] r (p + 1) L Hw Hg Hf ltac:(lia)).
    cbn [rev app]. apply ok_pos. lia.
  - apply (chunks_bad dec_str 3 chunk_utf8 ltac:(lia) str_one_ok str_one_bad cs fuel [] r (p + 1) L Hw Hg Hf). lia.
Qed.

(* ---- simple values and floats ---- *)
Lemma dec_simple_small n r p L : n < 20 ->
  dec_simple (mkdst p ((224 + n) :: r) L) = (Ok n, mkdst (p + 1) r L).
Proof.
  intro H. unfold dec_simple. rewrite (bind_ok _ _ _ _ _ (read_cons _ _ _ _)). cbv beta.
  destruct (N.leb_spec 224 (224 + n)); [|lia]. destruct (N.leb_spec (224 + n) 243); [|lia].
  cbn [andb]. unfold ret. now replace (224 + n - 224) with n by lia.
Qed.

Lemma dec_simple_ext n r p L : dec_simple (mkdst p (248 :: n :: r) L) = (Ok n, mkdst (p + 1 + 1) r L).
Proof. reflexivity. Qed.

Lemma dec_f32_ok c b r p L : b < 4294967296 -> p + 5 <= L ->
  dec_f32 c (mkdst p ((250 :: be 4 b) ++ r) L) = (Ok b, mkdst (p + 5) r L).
Proof.
  intros Hb HL. cbn [app]. unfold dec_f32. rewrite (bind_ok _ _ _ _ _ (current_cons _ _ _ _)). cbv beta.
  change (250 =? 249) with false. rewrite andb_false_r. change (250 =? 250) with true. cbv iota.
  rewrite (bind_ok _ _ _ _ _ (read_cons _ _ _ _)).
  rewrite (read_be_app 4 b r (p + 1) L) by (cbn; lia). apply ok_pos. cbn. lia.
Qed.

Lemma dec_f64_ok c b r p L : b < 18446744073709551616 -> p + 9 <= L ->
  dec_f64 c (mkdst p ((251 :: be 8 b) ++ r) L) = (Ok b, mkdst (p + 9) r L).
Proof.
  intros Hb HL. cbn [app]. unfold dec_f64. rewrite (bind_ok _ _ _ _ _ (current_cons _ _ _ _)). cbv beta.
  change (251 =? 249) with false. rewrite andb_false_r. change (251 =? 250) with false.
  change (251 =? 251) with true. cbv iota.
  rewrite (bind_ok _ _ _ _ _ (read_cons _ _ _ _)).
  rewrite (read_be_app 8 b r (p + 1) L) by (cbn; lia). apply ok_pos. cbn. lia.
Qed.

(* ---- char ---- *)
Lemma is_scalar_u32 n : is_scalar n = true -> n <= 4294967295.
Proof. unfold is_scalar. intro H. b2p; lia. Qed.

(* ---- the main theorem ---- *)
Definition acc_in_scope (a : acc) : bool := match a with ASkip => false | _ => true end.

(* accessors that consume the whole item when they succeed; array/map/tag stop after the head *)
Definition whole_item (a : acc) : bool := match a with AArray | AMap | ATag | ASkip => false | _ => true end.

Ltac mism Hw :=
  match goal with
  | |- agrees_at _ XErr _ _ _ =>
    cbn [agrees_at];
    let t := fresh "t" in let Et := fresh "Et" in let Hr := fresh "Hr" in
    destruct (ser_fb _ Hw) as [t Et]; pose proof (fb_range _ Hw) as Hr; rewrite Et;
    cbn [app fb_spec] in *; apply acc_rejects; cbn [rej]; lia
  end.

Lemma dropN_1 {A} (x : A) l : dropN (x :: l) 1 = l.
Proof. cbn [dropN]. change (1 =? 0) with false. cbv iota. change (N.pred 1) with 0. apply dropN_0. Qed.

(* bool / null / undefined on the one-byte simple values 20..23 *)
Ltac simple_const :=
  cbn [agrees_at run_acc ser];
  match goal with |- context [if ?n <? 24 then _ else _] => change (n <? 24) with true end;
  cbv iota; cbn [app]; rewrite dropN_1; first [apply fmap_ok | apply (fmap_ok (fun _ : unit => VU) _ _ tt)]; reflexivity.

Ltac trivial_any := match goal with |- agrees_at _ XAny _ _ _ => exact I end.

Lemma int_acc_whole a e v k : int_accessor a = true -> spec_acc a e = XOk v k -> k = len (ser e).
Proof.
  intros Hi Hx. destruct a; try discriminate Hi; cbn [spec_acc] in Hx; unfold int_acc in Hx;
    destruct (int_value e); try discriminate;
    match type of Hx with (if ?c then _ else _) = _ => destruct c end; try discriminate;
    now injection Hx.
Qed.

Theorem accessors_agree c a e r p L :
  acc_in_scope a = true -> wf e = true -> p + len (ser e) <= L ->
  agrees_at (run_acc c a (mkdst p (ser e ++ r) L)) (spec_acc a e) p (ser e ++ r) L.
Proof.
  intros Ha Hw HL. destruct (int_accessor a) eqn:Hi.
  { apply agrees_at_whole; [now apply int_accessors_agree|]. intros v k. now apply int_acc_whole. }
  destruct a; try discriminate; destruct e; cbn [spec_acc]; try (mism Hw); try trivial_any.
  (* AChar on an unsigned integer *)
  - cbn [wf ser] in *. pose proof (dec_uint_uint 4294967295 w n r p L Hw HL) as E.
    destruct (is_scalar n) eqn:Hs; cbn [agrees_at run_acc].
    + rewrite dropN_app. apply fmap_ok. unfold dec_char, dec_u32.
      apply is_scalar_u32 in Hs as Hn. destruct (N.leb_spec n 4294967295); [|lia].
      rewrite (bind_ok _ _ _ _ _ E). now rewrite Hs.
    + apply fmap_is_err. unfold dec_char, dec_u32. destruct (n <=? 4294967295).
      * rewrite (bind_ok _ _ _ _ _ E). rewrite Hs. eexists _, _. reflexivity.
      * apply bind_is_err. eexists _, _. exact E.
  (* ABool *)
  - cbn [wf ser] in *. destruct (N.eqb_spec n 20) as [->|N20]; [simple_const|].
    destruct (N.eqb_spec n 21) as [->|N21]; [simple_const|].
    cbn [agrees_at run_acc]. apply fmap_is_err.
    destruct (N.ltb_spec n 24); cbn [app]; apply dec_bool_rej; lia.
  (* ANull *)
  - cbn [wf ser] in *. destruct (N.eqb_spec n 22) as [->|N22]; [simple_const|].
    cbn [agrees_at run_acc]. apply fmap_is_err.
    destruct (N.ltb_spec n 24); cbn [app]; apply dec_null_rej; lia.
  (* AUndefined *)
  - cbn [wf ser] in *. destruct (N.eqb_spec n 23) as [->|N23]; [simple_const|].
    cbn [agrees_at run_acc]. apply fmap_is_err.
    destruct (N.ltb_spec n 24); cbn [app]; apply dec_undefined_rej; lia.
  (* ASimple *)
  - cbn [wf] in Hw. destruct ((20 <=? n) && (n <=? 23)) eqn:E; [exact I|].
    cbn [agrees_at run_acc]. rewrite dropN_app. apply fmap_ok. cbn [ser].
    destruct (N.ltb_spec n 24).
    + cbn [app]. rewrite dec_simple_small by (b2p; lia). apply ok_pos. reflexivity.
    + cbn [app]. rewrite dec_simple_ext. apply ok_pos. change (len [248; n]) with 2. lia.
  (* AF32 on EF32 *)
  - cbn [wf ser agrees_at run_acc] in *. apply N.ltb_lt in Hw. change (len (250 :: be 4 bits)) with 5 in HL.
    replace (dropN ((250 :: be 4 bits) ++ r) 5) with r by (symmetry; apply (dropN_app (250 :: be 4 bits) r)). apply fmap_ok. now apply dec_f32_ok.
  (* AF64 on EF64 *)
  - cbn [wf ser agrees_at run_acc] in *. apply N.ltb_lt in Hw. change (len (251 :: be 8 bits)) with 9 in HL.
    replace (dropN ((251 :: be 8 bits) ++ r) 9) with r by (symmetry; apply (dropN_app (251 :: be 8 bits) r)). apply fmap_ok. now apply dec_f64_ok.
  (* ABytes on EBytes *)
  - cbn [wf agrees_at run_acc] in *. apply andb_prop in Hw as [Hf _]. rewrite dropN_app. apply fmap_ok.
    cbn [ser] in *. now apply dec_bytes_ok.
  (* AStr on EText *)
  - cbn [wf run_acc] in *. apply andb_prop in Hw as [Hf _].
    pose proof (dec_str_spec w b r p L Hf HL) as E. cbn [ser].
    destruct (utf8_valid b); cbn [agrees_at].
    + rewrite dropN_app. now apply fmap_ok.
    + apply fmap_is_err. eexists _, _. exact E.
  (* ABytesIter on EBytes, EBytesI *)
  - cbn [wf agrees_at run_acc] in *. apply andb_prop in Hw as [Hf _]. rewrite dropN_app. apply fmap_ok.
    cbn [ser] in *. now apply dec_bytes_iter_def.
  - cbn [wf agrees_at run_acc] in *. rewrite dropN_app. apply fmap_ok. now apply dec_bytes_iter_indef.
  (* AStrIter on EText, ETextI *)
  - cbn [wf run_acc] in *. apply andb_prop in Hw as [Hf _].
    pose proof (dec_str_iter_def (fuel_of (mkdst p (ser (EText w b) ++ r) L)) w b r p L Hf HL) as E. cbn [ser] in *.
    destruct (utf8_valid b); cbn [agrees_at].
    + rewrite dropN_app. now apply fmap_ok.
    + apply fmap_is_err. eexists _, _. exact E.
  - cbn [wf run_acc] in *. pose proof (dec_str_iter_indef cs r p L Hw HL) as E. cbv zeta in E.
    change (forallb chunk_utf8 cs) with (forallb (fun c0 : width * bytes => utf8_valid (snd c0)) cs) in E.
    destruct (forallb (fun c0 : width * bytes => utf8_valid (snd c0)) cs); cbn [agrees_at].
    + rewrite dropN_app. now apply fmap_ok.
    + now apply fmap_is_err.
  (* AArray on EArray, EArrayI *)
  - cbn [wf ser agrees_at run_acc] in *. apply andb_prop in Hw as [Hf _]. rewrite len_app in HL.
    rewrite <- app_assoc. rewrite (head_len_eq 4 w (len es)), dropN_app. apply fmap_ok.
    apply (dec_container_def 4); [assumption|lia].
  - cbn [ser agrees_at run_acc app]. rewrite dropN_1. apply fmap_ok. reflexivity.
  (* AMap on EMap, EMapI *)
  - cbn [wf ser agrees_at run_acc] in *. apply andb_prop in Hw as [Hw _]. apply andb_prop in Hw as [_ Hf].
    rewrite len_app in HL.
    rewrite <- app_assoc. rewrite (head_len_eq 5 w (len es / 2)), dropN_app. apply fmap_ok.
    apply (dec_container_def 5); [assumption|lia].
  - cbn [ser agrees_at run_acc app]. rewrite dropN_1. apply fmap_ok. reflexivity.
  (* ATag *)
  - cbn [wf ser agrees_at run_acc] in *. apply andb_prop in Hw as [Hf _]. rewrite len_app in HL.
    rewrite <- app_assoc. rewrite (head_len_eq 6 w t), dropN_app. apply fmap_ok.
    apply dec_tag_ok; [assumption|lia].
Qed.
