(* Proofs/MachFacts.v — the Display stack machine over the peekable Tokenizer computes the same as
   the same machine over the plain list of tokens the Tokenizer yields (peek = head, next = pop).
   All later reasoning about display (C19) is done on the list form. *)
From MC Require Import Bytes BytesFacts Monad Decoder AdvFacts Text Token Tokenizer TokenFacts.
From Coq Require Import Lia.
Local Open Scope N_scope.

(* ---- two peekable iterators related by R run the machine identically ---- *)
Section Sim.
  Variables P1 P2 : Type.
  Variable peek1 next1 : P1 -> result (option titem) * P1.
  Variable peek2 next2 : P2 -> result (option titem) * P2.
  Variable R : P1 -> P2 -> Prop.
  Hypothesis Hpeek : forall a b, R a b ->
    exists v a' b', peek1 a = (Ok v, a') /\ peek2 b = (Ok v, b') /\ R a' b'.
  Hypothesis Hnext : forall a b, R a b ->
    exists v a' b', next1 a = (Ok v, a') /\ next2 b = (Ok v, b') /\ R a' b'.

  Ltac peek_tac HR :=
    let v := fresh "v" in let a' := fresh "a" in let b' := fresh "b" in let HR' := fresh "HR" in
    destruct (Hpeek _ _ HR) as (v & a' & b' & -> & -> & HR'); cbn [with_it].
  Ltac next_tac HR :=
    let v := fresh "v" in let a' := fresh "a" in let b' := fresh "b" in let HR' := fresh "HR" in
    destruct (Hnext _ _ HR) as (v & a' & b' & -> & -> & HR'); cbn [with_it].

  Lemma mach_sim : forall fuel a b stk, R a b ->
    mach P1 peek1 next1 fuel a stk = mach P2 peek2 next2 fuel b stk.
  Proof.
    induction fuel as [|fuel IH]; intros a b stk HR; [reflexivity|].
    destruct stk as [|e k]; cbn [mach].
    - peek_tac HR. destruct v; [apply IH; assumption|reflexivity].
    - destruct e as [| |o|o| | |s|s].
      + next_tac HR. destruct v as [[t|e]|]; [|reflexivity|reflexivity].
        destruct t; try (f_equal; apply IH; assumption).
        * peek_tac HR0. destruct (is_break v); [next_tac HR1|]; f_equal; apply IH; assumption.
        * peek_tac HR0. destruct (is_break v); [next_tac HR1|]; f_equal; apply IH; assumption.
      + apply IH; assumption.
      + destruct o as [n|].
        * destruct (n =? 0); [f_equal; apply IH; assumption|]. destruct (n =? 1); apply IH; assumption.
        * peek_tac HR. destruct v as [[t|e]|]; [|apply IH; assumption|reflexivity].
          destruct t; try (apply IH; assumption). next_tac HR0. f_equal; apply IH; assumption.
      + destruct o as [n|].
        * destruct (n =? 0); [f_equal; apply IH; assumption|]. destruct (n =? 1); apply IH; assumption.
        * peek_tac HR. destruct v as [[t|e]|]; [|apply IH; assumption|reflexivity].
          destruct t; try (apply IH; assumption). next_tac HR0. f_equal; apply IH; assumption.
      + peek_tac HR. destruct v as [[t|e]|]; [|apply IH; assumption|reflexivity].
        destruct t; try (apply IH; assumption). next_tac HR0. f_equal; apply IH; assumption.
      + peek_tac HR. destruct v as [[t|e]|]; [|apply IH; assumption|reflexivity].
        destruct t; try (apply IH; assumption). next_tac HR0. f_equal; apply IH; assumption.
      + f_equal. apply IH; assumption.
      + peek_tac HR. destruct v as [[t|e]|]; [|reflexivity|apply IH; assumption].
        destruct t; first [apply IH; assumption | f_equal; apply IH; assumption].
  Qed.
End Sim.

(* ---- the plain list iterator ---- *)
Definition lpeek (l : list titem) : result (option titem) * list titem := (Ok (hd_error l), l).
Definition lnext (l : list titem) : result (option titem) * list titem := (Ok (hd_error l), tl l).
Definition lm (fuel : nat) (l : list titem) (stk : list elt) : dres :=
  mach (list titem) lpeek lnext fuel l stk.

(* ---- the Tokenizer yields exactly the list L, then None for ever ---- *)
Fixpoint yields (c : cfg) (s : dst) (L : list titem) : Prop :=
  match L with
  | [] => tok_next c s = (Ok None, drained (dlen s))
  | x :: r => exists s', tok_next c s = (Ok (Some x), s') /\ yields c s' r
  end.

Definition denotes (c : cfg) (p : pk dst) (L : list titem) : Prop :=
  match fst p with
  | None => yields c (snd p) L
  | Some None => L = [] /\ snd p = drained (dlen (snd p))
  | Some (Some x) => exists L', L = x :: L' /\ yields c (snd p) L'
  end.

Lemma denotes_peek c p L : denotes c p L ->
  exists v a' b', pk_peek dst (tok_next c) p = (Ok v, a') /\ lpeek L = (Ok v, b') /\ denotes c a' b'.
Proof.
  destruct p as [[[x|]|] s]; unfold denotes, pk_peek, lpeek; cbn [fst snd].
  - intros (L' & -> & Hy). exists (Some x), (Some (Some x), s), (x :: L'). repeat split; cbn [fst snd]; eauto.
  - intros [-> Hs]. exists None, (Some None, s), []. repeat split; cbn [fst snd]; auto.
  - destruct L as [|x r]; cbn [yields hd_error].
    + intros ->. exists None, (Some None, drained (dlen s)), []. repeat split; cbn [fst snd]; auto.
    + intros (s' & -> & Hy). exists (Some x), (Some (Some x), s'), (x :: r). repeat split; cbn [fst snd]; eauto.
Qed.

Lemma denotes_next c p L : denotes c p L ->
  exists v a' b', pk_next dst (tok_next c) p = (Ok v, a') /\ lnext L = (Ok v, b') /\ denotes c a' b'.
Proof.
  destruct p as [[[x|]|] s]; unfold denotes, pk_next, lnext; cbn [fst snd].
  - intros (L' & -> & Hy). exists (Some x), (None, s), L'. repeat split; cbn [fst snd]; auto.
  - intros [-> Hs]. exists None, (None, s), []. repeat split; cbn [fst snd yields]; auto.
    rewrite Hs. apply tok_next_drained.
  - destruct L as [|x r]; cbn [yields hd_error tl].
    + intros ->. exists None, (None, drained (dlen s)), []. repeat split; cbn [fst snd yields]; auto using tok_next_drained.
    + intros (s' & -> & Hy). exists (Some x), (None, s'), r. repeat split; cbn [fst snd]; auto.
Qed.

Lemma mach_list c fuel p L stk : denotes c p L ->
  mach (pk dst) (pk_peek dst (tok_next c)) (pk_next dst (tok_next c)) fuel p stk = lm fuel L stk.
Proof.
  intro H. unfold lm. apply mach_sim with (R := denotes c); auto using denotes_peek, denotes_next.
Qed.

Lemma tokenise_yields c fuel : forall s l, wfd s -> dlen s < two64 ->
  tokenise_from c fuel s = Ok l -> yields c s l.
Proof.
  induction fuel as [|fuel IH]; intros s l Hw HL E; [discriminate|].
  cbn [tokenise_from] in E. pose proof (tok_next_spec c s Hw HL) as S0.
  destruct (tok_next c s) as [r s'] eqn:T. inversion S0 as [|t s1 pre P1 P2 P3 P4|e Hne He]; subst.
  - injection E as <-. exact T.
  - destruct (tokenise_from c fuel s') as [l'| | |] eqn:E'; try discriminate. injection E as <-.
    cbn [yields]. exists s'. split; [exact T|]. apply IH; auto. lia.
  - destruct (tokenise_from c fuel (drained (dlen s))) as [l'| | |] eqn:E'; try discriminate. injection E as <-.
    cbn [yields]. exists (drained (dlen s)). split; [exact T|].
    destruct fuel as [|fuel']; [discriminate|]. cbn [tokenise_from] in E'. rewrite tok_next_drained in E'.
    injection E' as <-. cbn [yields]. apply tok_next_drained.
Qed.

(* display on bytes = the list machine on the tokens of the bytes *)
Lemma display_list c fuel bs : len bs < two64 ->
  exists L, tokenise c bs = Ok L /\ display_fuel c fuel bs = lm fuel L [].
Proof.
  intro HL. destruct (tokenise_bound c bs HL) as (L & E & _).
  exists L. split; [exact E|]. unfold display_fuel. apply mach_list. unfold denotes. cbn [fst snd].
  eapply tokenise_yields; [apply wfd_start|exact HL|exact E].
Qed.
