(* Proofs/TypeSemPos.v — position, unconditionally: whenever decode_ty succeeds on a well-formed item whose text
   is valid UTF-8 (followed by anything), it has consumed exactly the item — also where Spec/TypeSem.v does not
   constrain the value (float widening) and on the lenient class (skipped surplus).  One more pass over the loops,
   this time with no specification of values at all. *)
From MC Require Import Bytes BytesFacts Monad Cbor Utf8 Half Decoder Acc Accessors Types TypeSem
  DecoderFacts CborFacts IntFacts AccFacts AccAgreeFacts TypesEnc TypesDec TypesFacts SkipFacts
  TypeSemFacts TypeSemLoops TypeSemFields TypeSemAgree TypeSemRound.
From Coq Require Import Lia.
Local Open Scope N_scope.

Lemma bind_ok_inv {A B} (m : M A) (f : A -> M B) s b s' : bind m f s = (Ok b, s') ->
  exists a s1, m s = (Ok a, s1) /\ f a s1 = (Ok b, s').
Proof. unfold bind. destruct (m s) as [[a|x| |] s1]; intro H; try discriminate. eauto. Qed.

Lemma fmap_ok_state {A B} (g : A -> B) (m : M A) s b s' : fmap g m s = (Ok b, s') -> exists a, m s = (Ok a, s').
Proof. intro H. apply fmap_ok_inv in H as (a & H & _). eauto. Qed.

Lemma ret_inv {A} (a b : A) s s' : ret a s = (Ok b, s') -> s' = s.
Proof. unfold ret. now intros [= _ <-]. Qed.

Lemma fail_not_ok {A} e s (b : A) s' : fail e s = (Ok b, s') -> False.
Proof. discriminate. Qed.

(* success implies: exactly the unit was consumed *)
Section PosLoops.
  Variable fuel : nat.
  Context {X : Type}.
  Variable serX : X -> bytes.
  Variable okX : X -> Prop.
  Variable d : M value.
  Hypothesis Hx : forall x r p L v s', okX x -> p + len (serX x) <= L -> len (serX x) < 18446744073709551616 ->
    (length (serX x ++ r) < fuel)%nat -> d (mkdst p (serX x ++ r) L) = (Ok v, s') -> s' = mkdst (p + len (serX x)) r L.
  Hypothesis Hfirst : forall x, okX x -> exists b t, serX x = b :: t /\ b <> 255.

  Lemma dec_n_pos : forall xs fl acc r p L vs s',
    Forall okX xs -> p + len (flat_map serX xs) <= L -> len (flat_map serX xs) < 18446744073709551616 ->
    (length (flat_map serX xs ++ r) < fuel)%nat ->
    dec_n d (len xs) fl acc (mkdst p (flat_map serX xs ++ r) L) = (Ok vs, s') ->
    s' = mkdst (p + len (flat_map serX xs)) r L.
  Proof.
    induction xs as [|x xs IH]; intros fl acc r p L vs s' Hok HL H64 Hfu H.
    - change (len (@nil X)) with 0 in H. rewrite dec_n_0 in H. apply ret_inv in H as ->. cbn [flat_map app].
      apply mkdst_pos. rewrite len_nil. lia.
    - inversion Hok as [|x0 xs0 Hx0 Hxs]; subst x0 xs0.
      destruct fl as [|fl]; [cbn [dec_n] in H; rewrite len_cons in H; destruct (N.eqb_spec (1 + len xs) 0); [lia|discriminate]|].
      rewrite dec_n_S in H by (rewrite len_cons; lia). cbn [flat_map] in *. rewrite <- app_assoc in H.
      apply bind_ok_inv in H as (a & s1 & H1 & H2).
      apply Hx in H1; [|assumption|lens'..]. subst s1.
      replace (N.pred (len (x :: xs))) with (len xs) in H2 by (rewrite len_cons; lia).
      apply IH in H2; [|assumption|lens'..]. subst s'. apply mkdst_pos. lens'.
  Qed.

  Lemma dec_until_break_pos : forall xs fl acc r p L vs s',
    Forall okX xs -> p + len (flat_map serX xs) + 1 <= L -> len (flat_map serX xs) < 18446744073709551616 ->
    (length (flat_map serX xs ++ 255%N :: r) < fuel)%nat ->
    dec_until_break d fl acc (mkdst p (flat_map serX xs ++ 255 :: r) L) = (Ok vs, s') ->
    s' = mkdst (p + len (flat_map serX xs) + 1) r L.
  Proof.
    induction xs as [|x xs IH]; intros fl acc r p L vs s' Hok HL H64 Hfu H;
      (destruct fl as [|fl]; [discriminate H|]); cbn [dec_until_break] in H.
    - cbn [flat_map app] in *. rewrite (bind_ok _ _ _ _ _ (current_cons _ _ _ _)) in H. change (255 =? 255) with true in H. cbv iota in H.
      rewrite (bind_ok _ _ _ _ _ (read_cons _ _ _ _)) in H. apply ret_inv in H as ->. apply mkdst_pos. rewrite len_nil. lia.
    - inversion Hok as [|x0 xs0 Hx0 Hxs]; subst x0 xs0.
      cbn [flat_map] in *. rewrite <- app_assoc in H.
      destruct (Hfirst x Hx0) as (b & t & Eb & Hb). rewrite Eb in H at 1. cbn [app] in H.
      rewrite (bind_ok _ _ _ _ _ (current_cons _ _ _ _)) in H.
      destruct (N.eqb_spec b 255) as [|_]; [contradiction|].
      change (b :: t ++ flat_map serX xs ++ 255 :: r) with ((b :: t) ++ flat_map serX xs ++ 255 :: r) in H. rewrite <- Eb in H.
      apply bind_ok_inv in H as (a & s1 & H1 & H2).
      apply Hx in H1; [|assumption|lens'..]. subst s1.
      apply IH in H2; [|assumption|lens'..]. subst s'. apply mkdst_pos. lens'.
  Qed.

  Lemma arr_n_pos cap : forall xs fl acc r p L vs s',
    Forall okX xs -> p + len (flat_map serX xs) <= L -> len (flat_map serX xs) < 18446744073709551616 ->
    (length (flat_map serX xs ++ r) < fuel)%nat ->
    arr_n d cap (len xs) fl acc (mkdst p (flat_map serX xs ++ r) L) = (Ok vs, s') ->
    s' = mkdst (p + len (flat_map serX xs)) r L.
  Proof.
    induction xs as [|x xs IH]; intros fl acc r p L vs s' Hok HL H64 Hfu H.
    - change (len (@nil X)) with 0 in H. rewrite arr_n_0 in H. apply ret_inv in H as ->. cbn [flat_map app].
      apply mkdst_pos. rewrite len_nil. lia.
    - inversion Hok as [|x0 xs0 Hx0 Hxs]; subst x0 xs0.
      destruct fl as [|fl]; [cbn [arr_n] in H; rewrite len_cons in H; destruct (N.eqb_spec (1 + len xs) 0); [lia|discriminate]|].
      rewrite arr_n_S in H by (rewrite len_cons; lia). cbn [flat_map] in *. rewrite <- app_assoc in H.
      apply bind_ok_inv in H as (a & s1 & H1 & H2).
      apply Hx in H1; [|assumption|lens'..]. subst s1.
      destruct (len acc <? cap); [|discriminate H2].
      replace (N.pred (len (x :: xs))) with (len xs) in H2 by (rewrite len_cons; lia).
      apply IH in H2; [|assumption|lens'..]. subst s'. apply mkdst_pos. lens'.
  Qed.

  Lemma arr_until_break_pos cap : forall xs fl acc r p L vs s',
    Forall okX xs -> p + len (flat_map serX xs) + 1 <= L -> len (flat_map serX xs) < 18446744073709551616 ->
    (length (flat_map serX xs ++ 255%N :: r) < fuel)%nat ->
    arr_until_break d cap fl acc (mkdst p (flat_map serX xs ++ 255 :: r) L) = (Ok vs, s') ->
    s' = mkdst (p + len (flat_map serX xs) + 1) r L.
  Proof.
    induction xs as [|x xs IH]; intros fl acc r p L vs s' Hok HL H64 Hfu H;
      (destruct fl as [|fl]; [discriminate H|]); cbn [arr_until_break] in H.
    - cbn [flat_map app] in *. rewrite (bind_ok _ _ _ _ _ (current_cons _ _ _ _)) in H. change (255 =? 255) with true in H. cbv iota in H.
      rewrite (bind_ok _ _ _ _ _ (read_cons _ _ _ _)) in H. apply ret_inv in H as ->. apply mkdst_pos. rewrite len_nil. lia.
    - inversion Hok as [|x0 xs0 Hx0 Hxs]; subst x0 xs0.
      cbn [flat_map] in *. rewrite <- app_assoc in H.
      destruct (Hfirst x Hx0) as (b & t & Eb & Hb). rewrite Eb in H at 1. cbn [app] in H.
      rewrite (bind_ok _ _ _ _ _ (current_cons _ _ _ _)) in H.
      destruct (N.eqb_spec b 255) as [|_]; [contradiction|].
      change (b :: t ++ flat_map serX xs ++ 255 :: r) with ((b :: t) ++ flat_map serX xs ++ 255 :: r) in H. rewrite <- Eb in H.
      apply bind_ok_inv in H as (a & s1 & H1 & H2).
      apply Hx in H1; [|assumption|lens'..]. subst s1.
      destruct (len acc <? cap); [|discriminate H2].
      apply IH in H2; [|assumption|lens'..]. subst s'. apply mkdst_pos. lens'.
  Qed.
End PosLoops.

(* an item decoder that, when it succeeds on a valid item, has consumed exactly the item *)
Definition posx (fuel : nat) (d : M value) : Prop :=
  forall e r p L v s', wf e = true -> utf8_ok e = true -> p + len (ser e) <= L -> len (ser e) < 18446744073709551616 ->
    (length (ser e ++ r) < fuel)%nat -> d (mkdst p (ser e ++ r) L) = (Ok v, s') -> s' = mkdst (p + len (ser e)) r L.

Definition valid_item (e : enc) : Prop := wf e = true /\ utf8_ok e = true.
Definition valid_pair (kv : enc * enc) : Prop := valid_item (fst kv) /\ valid_item (snd kv).

Lemma valid_items es : forallb wf es = true -> forallb utf8_ok es = true -> Forall valid_item es.
Proof.
  induction es as [|e es IH]; cbn [forallb]; intros H1 H2; [constructor|].
  apply andb_prop in H1 as [? ?]. apply andb_prop in H2 as [? ?]. constructor; [now split|auto].
Qed.

Lemma valid_first e : valid_item e -> exists b t, ser e = b :: t /\ b <> 255.
Proof. intros [Hw _]. now apply ser_first_not_break. Qed.

Lemma valid_pair_first kv : valid_pair kv -> exists b t, ser_pair kv = b :: t /\ b <> 255.
Proof. intros [[Hk _] [Hv _]]. apply pair_first. now split. Qed.

Lemma posx_Hx fuel d : posx fuel d ->
  forall x r p L v s', valid_item x -> p + len (ser x) <= L -> len (ser x) < 18446744073709551616 ->
    (length (ser x ++ r) < fuel)%nat -> d (mkdst p (ser x ++ r) L) = (Ok v, s') -> s' = mkdst (p + len (ser x)) r L.
Proof. intros H x r p L v s' [Hw Hu]. now apply H. Qed.

Lemma pair_Hx fuel dk dv : posx fuel dk -> posx fuel dv ->
  forall x r p L v s', valid_pair x -> p + len (ser_pair x) <= L -> len (ser_pair x) < 18446744073709551616 ->
    (length (ser_pair x ++ r) < fuel)%nat -> dec_pair dk dv (mkdst p (ser_pair x ++ r) L) = (Ok v, s') ->
    s' = mkdst (p + len (ser_pair x)) r L.
Proof.
  intros Hk Hv [k v0] r p L v s' [[Hwk Huk] [Hwv Huv]] HL H64 Hfu H. unfold ser_pair, dec_pair in *. cbn [fst snd] in *.
  rewrite <- app_assoc in H. apply bind_ok_inv in H as (a & s1 & H1 & H2).
  apply Hk in H1; [|assumption|assumption|lens'..]. subst s1.
  apply bind_ok_inv in H2 as (b & s2 & H2 & H3). apply Hv in H2; [|assumption|assumption|lens'..]. subst s2.
  apply ret_inv in H3 as ->. apply mkdst_pos. lens'.
Qed.

Lemma pairs_valid es : N.even (len es) = true -> forallb wf es = true -> forallb utf8_ok es = true -> Forall valid_pair (pairs_of es).
Proof.
  revert es. apply (even_list_ind (fun es => forallb wf es = true -> forallb utf8_ok es = true -> Forall valid_pair (pairs_of es))); [constructor|].
  intros k v r IH H1 H2. cbn [forallb] in *.
  apply andb_prop in H1 as [Hk H1]. apply andb_prop in H1 as [Hv H1].
  apply andb_prop in H2 as [Uk H2]. apply andb_prop in H2 as [Uv H2].
  cbn [pairs_of]. constructor; [repeat split; assumption|auto].
Qed.

(* the elements of a valid array / map item are valid *)
Lemma array_valid e es : wf e = true -> utf8_ok e = true -> array_elems e = Some es -> forallb wf es = true /\ forallb utf8_ok es = true.
Proof.
  intros Hw Hu Ha. destruct e; try discriminate Ha; injection Ha as ->; cbn [wf utf8_ok] in *; [|now split].
  apply andb_prop in Hw as [_ Hw]. now split.
Qed.

Section PosContainers.
  Variable c : cfg.
  Variable fuel : nat.
  Notation D := (fun t' : ty => decode_ty c t' fuel).

  Lemma seq_pos d : posx fuel d -> posx fuel (fmap VList (dec_seq d fuel)).
  Proof.
    intros Hd e r p L v s' Hw Hu HL H64 Hfu H. apply fmap_ok_state in H as (vs & H). unfold dec_seq in H.
    apply bind_ok_inv in H as (o & s1 & H1 & H2).
    destruct (array_elems e) as [es|] eqn:Ea.
    2:{ destruct (array_rej e r p L Hw Ea) as (x & sx & E). rewrite H1 in E. discriminate. }
    destruct (array_valid e es Hw Hu Ea) as [Hws Hus].
    destruct e; try discriminate Ea; injection Ea as ->.
    - rewrite (array_head_def w es r p L Hw HL) in H1. injection H1 as <- <-. cbn [wf ser] in *.
      rewrite len_app in *. rewrite <- app_assoc in Hfu.
      apply (dec_n_pos fuel ser valid_item d (posx_Hx _ _ Hd)) in H2; [|now apply valid_items|try lens'..].
      subst s'. apply mkdst_pos. lia.
    - rewrite (array_head_indef es r p L) in H1. injection H1 as <- <-. cbn [wf ser] in *.
      rewrite len_indef in *. cbn [app] in Hfu. rewrite <- app_assoc in Hfu. cbn [app length] in Hfu.
      apply (dec_until_break_pos fuel ser valid_item d (posx_Hx _ _ Hd) valid_first) in H2; [|now apply valid_items|try lia..].
      subst s'. apply mkdst_pos. lia.
  Qed.

  Lemma arr_pos d n : posx fuel d -> posx fuel (fmap VList (dec_arr d n fuel)).
  Proof.
    intros Hd e r p L v s' Hw Hu HL H64 Hfu H. apply fmap_ok_state in H as (vs & H). unfold dec_arr in H.
    apply bind_ok_inv in H as (o & s1 & H1 & H2). apply bind_ok_inv in H2 as (l & s2 & H2 & H3).
    assert (s' = s2) as -> by (destruct (len l =? n); [now apply ret_inv in H3|discriminate H3]).
    destruct (array_elems e) as [es|] eqn:Ea.
    2:{ destruct (array_rej e r p L Hw Ea) as (x & sx & E). rewrite H1 in E. discriminate. }
    destruct (array_valid e es Hw Hu Ea) as [Hws Hus].
    destruct e; try discriminate Ea; injection Ea as ->.
    - rewrite (array_head_def w es r p L Hw HL) in H1. injection H1 as <- <-. cbn [wf ser] in *.
      rewrite len_app in *. rewrite <- app_assoc in Hfu.
      apply (arr_n_pos fuel ser valid_item d (posx_Hx _ _ Hd)) in H2; [|now apply valid_items|try lens'..].
      subst s2. apply mkdst_pos. lia.
    - rewrite (array_head_indef es r p L) in H1. injection H1 as <- <-. cbn [wf ser] in *.
      rewrite len_indef in *. cbn [app] in Hfu. rewrite <- app_assoc in Hfu. cbn [app length] in Hfu.
      apply (arr_until_break_pos fuel ser valid_item d (posx_Hx _ _ Hd) valid_first) in H2; [|now apply valid_items|try lia..].
      subst s2. apply mkdst_pos. lia.
  Qed.

  Lemma map_pos dk dv : posx fuel dk -> posx fuel dv -> posx fuel (fmap VList (dec_map_seq dk dv fuel)).
  Proof.
    intros Hk Hv e r p L v s' Hw Hu HL H64 Hfu H. apply fmap_ok_state in H as (vs & H). unfold dec_map_seq in H.
    apply bind_ok_inv in H as (o & s1 & H1 & H2). apply bind_ok_inv in H2 as (l & s2 & H2 & H3). apply ret_inv in H3 as ->.
    destruct (map_elems e) as [es|] eqn:Ea.
    2:{ destruct (map_rej e r p L Hw Ea) as (x & sx & E). rewrite H1 in E. discriminate. }
    destruct e; try discriminate Ea; injection Ea as ->.
    - rewrite (map_head_def w es r p L Hw HL) in H1. injection H1 as <- <-. cbn [wf ser utf8_ok] in *.
      apply andb_prop in Hw as [Hw Hws]. apply andb_prop in Hw as [Hev _].
      rewrite len_app in *. rewrite <- app_assoc in Hfu.
      rewrite <- (pairs_ser es Hev) in *. rewrite <- ?(pairs_len es Hev) in *.
      apply (dec_n_pos fuel ser_pair valid_pair (dec_pair dk dv) (pair_Hx fuel dk dv Hk Hv)) in H2; [|now apply pairs_valid|try lens'..].
      subst s2. apply mkdst_pos. lia.
    - rewrite (map_head_indef es r p L) in H1. injection H1 as <- <-. cbn [wf ser utf8_ok] in *.
      apply andb_prop in Hw as [Hev Hws].
      rewrite len_indef in *. cbn [app] in Hfu. rewrite <- app_assoc in Hfu. cbn [app length] in Hfu.
      rewrite <- (pairs_ser es Hev) in *.
      apply (dec_until_break_pos fuel ser_pair valid_pair (dec_pair dk dv) (pair_Hx fuel dk dv Hk Hv) valid_pair_first) in H2;
        [|now apply pairs_valid|try lia..].
      subst s2. apply mkdst_pos. lia.
  Qed.
End PosContainers.

Section PosFields.
  Variable c : cfg.
  Variable fuel : nat.

  Lemma skip_pos e r p L s' : wf e = true -> utf8_ok e = true -> len (ser e) < 18446744073709551616 -> p + len (ser e) <= L ->
    skip_auto c (mkdst p (ser e ++ r) L) = (Ok tt, s') -> s' = mkdst (p + len (ser e)) r L.
  Proof.
    intros Hw Hu H64 HL H. unfold skip_auto, skip, fuel_of in H. cbn [drest] in H.
    assert (Hf: (length (ser e) <= S (length (ser e ++ r)))%nat) by (rewrite app_length; lia).
    destruct (c_alloc c).
    - rewrite (skip_exact e r p L _ Hw Hu H64 HL Hf) in H. now injection H as <-.
    - destruct (skip_noalloc_sound e r p L _ Hw Hu H64 HL Hf) as [E|(q & E)]; rewrite E in H; [now injection H as <-|discriminate].
  Qed.

  Lemma dec_each_pos : forall ds, Forall (posx fuel) ds -> forall es r p L vs s',
    length es = length ds -> Forall valid_item es -> p + len (flat_map ser es) <= L ->
    len (flat_map ser es) < 18446744073709551616 -> (length (flat_map ser es ++ r) < fuel)%nat ->
    dec_each ds (mkdst p (flat_map ser es ++ r) L) = (Ok vs, s') -> s' = mkdst (p + len (flat_map ser es)) r L.
  Proof.
    induction 1 as [|d ds Hd _ IH]; intros es r p L vs s' Hlen Hv HL H64 Hfu H.
    - destruct es; [|discriminate Hlen]. cbn [dec_each] in H. apply ret_inv in H as ->. cbn [flat_map app].
      apply mkdst_pos. rewrite len_nil. lia.
    - destruct es as [|e es]; [discriminate Hlen|]. cbn [length] in Hlen. inversion Hv as [|e0 es0 [Hwe Hue] Hves]; subst e0 es0.
      cbn [dec_each flat_map] in *. rewrite <- app_assoc in H.
      apply bind_ok_inv in H as (a & s1 & H1 & H2). apply Hd in H1; [|assumption|assumption|lens'..]. subst s1.
      apply bind_ok_inv in H2 as (l & s2 & H2 & H3). apply ret_inv in H3 as ->.
      apply IH in H2; [|lia|assumption|lens'..]. subst s2. apply mkdst_pos. lens'.
  Qed.

  Lemma field_step_pos ds i slots e r p L sl s' : Forall (posx fuel) ds -> valid_item e ->
    p + len (ser e) <= L -> len (ser e) < 18446744073709551616 -> (length (ser e ++ r) < fuel)%nat ->
    field_step c ds i slots (mkdst p (ser e ++ r) L) = (Ok sl, s') -> s' = mkdst (p + len (ser e)) r L.
  Proof.
    intros Hds [Hw Hu] HL H64 Hfu H. unfold field_step in H. destruct (N.ltb_spec i (len ds)) as [Hi|Hi].
    - destruct (nth_error ds (N.to_nat i)) as [d|] eqn:En.
      + apply bind_ok_inv in H as (a & s1 & H1 & H2). apply ret_inv in H2 as ->.
        rewrite Forall_forall in Hds. apply (Hds d (nth_error_In _ _ En)) in H1; assumption.
      + apply nth_error_None in En. unfold len in Hi. lia.
    - apply bind_ok_inv in H as ([] & s1 & H1 & H2). apply ret_inv in H2 as ->. now apply skip_pos in H1.
  Qed.

  Lemma fields_n_pos ds : Forall (posx fuel) ds -> forall es i fl slots r p L sl s',
    Forall valid_item es -> p + len (flat_map ser es) <= L -> len (flat_map ser es) < 18446744073709551616 ->
    (length (flat_map ser es ++ r) < fuel)%nat ->
    fields_n c ds i (len es) fl slots (mkdst p (flat_map ser es ++ r) L) = (Ok sl, s') ->
    s' = mkdst (p + len (flat_map ser es)) r L.
  Proof.
    intro Hds. induction es as [|e es IH]; intros i fl slots r p L sl s' Hv HL H64 Hfu H.
    - change (len (@nil enc)) with 0 in H. rewrite fields_n_0 in H. apply ret_inv in H as ->. cbn [flat_map app].
      apply mkdst_pos. rewrite len_nil. lia.
    - inversion Hv as [|e0 es0 Hve Hves]; subst e0 es0.
      destruct fl as [|fl]; [cbn [fields_n] in H; rewrite len_cons in H; destruct (N.eqb_spec (1 + len es) 0); [lia|discriminate]|].
      rewrite fields_n_S in H by (rewrite len_cons; lia). cbn [flat_map] in *. rewrite <- app_assoc in H.
      apply bind_ok_inv in H as (a & s1 & H1 & H2).
      apply field_step_pos in H1; [|assumption|assumption|lens'..]. subst s1.
      replace (N.pred (len (e :: es))) with (len es) in H2 by (rewrite len_cons; lia).
      apply IH in H2; [|assumption|lens'..]. subst s'. apply mkdst_pos. lens'.
  Qed.

  Lemma fields_ub_pos ds : Forall (posx fuel) ds -> forall es i fl slots r p L sl s',
    Forall valid_item es -> p + len (flat_map ser es) + 1 <= L -> len (flat_map ser es) < 18446744073709551616 ->
    (length (flat_map ser es ++ 255%N :: r) < fuel)%nat ->
    fields_until_break c ds i fl slots (mkdst p (flat_map ser es ++ 255 :: r) L) = (Ok sl, s') ->
    s' = mkdst (p + len (flat_map ser es) + 1) r L.
  Proof.
    intro Hds. induction es as [|e es IH]; intros i fl slots r p L sl s' Hv HL H64 Hfu H;
      (destruct fl as [|fl]; [discriminate H|]); cbn [fields_until_break] in H.
    - cbn [flat_map app] in *. rewrite (bind_ok _ _ _ _ _ (datatype_break r p L)) in H. cbn [ctype_is_break] in H.
      rewrite (bind_ok _ _ _ _ _ (skip_break c r p L)) in H. apply ret_inv in H as ->. apply mkdst_pos. rewrite len_nil. lia.
    - inversion Hv as [|e0 es0 [Hwe Hue] Hves]; subst e0 es0.
      cbn [flat_map] in *. rewrite <- app_assoc in H.
      rewrite (bind_ok _ _ _ _ _ (datatype_spec e _ p L Hwe)) in H. rewrite spec_type_not_break in H.
      apply bind_ok_inv in H as (a & s1 & H1 & H2).
      apply field_step_pos in H1; [|assumption|now split|lens'..]. subst s1.
      apply IH in H2; [|assumption|lens'..]. subst s'. apply mkdst_pos. lens'.
  Qed.

  Lemma dec_fields_pos ds : Forall (posx fuel) ds -> forall e r p L vs s',
    wf e = true -> utf8_ok e = true -> p + len (ser e) <= L -> len (ser e) < 18446744073709551616 ->
    (length (ser e ++ r) < fuel)%nat ->
    dec_fields c ds fuel (mkdst p (ser e ++ r) L) = (Ok vs, s') -> s' = mkdst (p + len (ser e)) r L.
  Proof.
    intros Hds e r p L vs s' Hw Hu HL H64 Hfu H. unfold dec_fields in H.
    apply bind_ok_inv in H as (o & s1 & H1 & H2). apply bind_ok_inv in H2 as (sl & s2 & H2 & H3).
    assert (s' = s2) as -> by (destruct (first_missing sl 0); [discriminate H3|now apply ret_inv in H3]).
    destruct (array_elems e) as [es|] eqn:Ea.
    2:{ destruct (array_rej e r p L Hw Ea) as (x & sx & E). rewrite H1 in E. discriminate. }
    destruct (array_valid e es Hw Hu Ea) as [Hws Hus].
    destruct e; try discriminate Ea; injection Ea as ->.
    - rewrite (array_head_def w es r p L Hw HL) in H1. injection H1 as <- <-. cbn [wf ser] in *.
      rewrite len_app in *. rewrite <- app_assoc in Hfu.
      apply fields_n_pos in H2; [|assumption|now apply valid_items|try lens'..].
      subst s2. apply mkdst_pos. lia.
    - rewrite (array_head_indef es r p L) in H1. injection H1 as <- <-. cbn [wf ser] in *.
      rewrite len_indef in *. cbn [app] in Hfu. rewrite <- app_assoc in Hfu. cbn [app length] in Hfu.
      apply fields_ub_pos in H2; [|assumption|now apply valid_items|try lia..].
      subst s2. apply mkdst_pos. lia.
  Qed.
End PosFields.

(* from the agreement theorem: where the reading is constrained, success means the specified end position *)
Lemma posx_of_agrees fuel d f : elem_ok fuel d f -> (forall e, wf e = true -> f e <> TsAny) -> posx fuel d.
Proof.
  intros Hd Hna e r p L v s' Hw _ HL H64 Hfu H. pose proof (Hd e r p L Hw HL H64 Hfu) as A. specialize (Hna e Hw).
  destruct (f e); cbn [sem_agrees] in A.
  - rewrite H in A. now injection A as _ <-.
  - destruct A as (x & sx & A). rewrite H in A. discriminate.
  - contradiction.
Qed.

Section PosAgree.
  Variable c : cfg.
  Variable fuel : nat.
  Notation alloc := (c_alloc c).
  Notation D := (fun t' : ty => decode_ty c t' fuel).

  Lemma f32_pos : posx fuel (fmap VFloat (dec_f32 c)).
  Proof.
    intros e r p L v s' Hw Hu HL H64 Hfu H.
    destruct e; try (pose proof (f32_sem fuel alloc c _ r p L Hw HL H64 Hfu) as A; cbn [sem_ty sem_agrees] in A;
                     first [ destruct A as (x & sx & A); rewrite H in A; discriminate | rewrite H in A; exact (f_equal snd A) ]).
    (* an f16 item *)
    apply fmap_ok_state in H as (a & H). cbn [wf ser app] in *. apply N.ltb_lt in Hw. unfold dec_f32 in H.
    rewrite (bind_ok _ _ _ _ _ (current_cons _ _ _ _)) in H. change (249 =? 249) with true in H. rewrite andb_true_r in H.
    change (249 =? 250) with false in H.
    destruct (c_half c).
    - unfold dec_f16 in H. rewrite (bind_ok _ _ _ _ _ (read_cons _ _ _ _)) in H. change (negb (249 =? 249)) with false in H. cbv iota in H.
      change (len (249 :: be 2 bits)) with 3 in *.
      rewrite (bind_ok _ _ _ _ _ (read_be_app 2 bits r (p + 1) L ltac:(cbn; lia) ltac:(cbn; lia))) in H.
      apply ret_inv in H as ->. apply mkdst_pos. cbn. lia.
    - destruct (mismatch_is_err (A := N) 249 (mkdst p (249 :: be 2 bits ++ r) L)) as (x & sx & E). cbv iota in H. rewrite E in H. discriminate.
  Qed.

  Lemma f64_pos : posx fuel (fmap VFloat (dec_f64 c)).
  Proof.
    intros e r p L v s' Hw Hu HL H64 Hfu H.
    destruct e; try (pose proof (f64_sem fuel alloc c _ r p L Hw HL H64 Hfu) as A; cbn [sem_ty sem_agrees] in A;
                     first [ destruct A as (x & sx & A); rewrite H in A; discriminate | rewrite H in A; exact (f_equal snd A) ]).
    - (* an f16 item *)
      apply fmap_ok_state in H as (a & H). cbn [wf ser app] in *. apply N.ltb_lt in Hw. unfold dec_f64 in H.
      rewrite (bind_ok _ _ _ _ _ (current_cons _ _ _ _)) in H. change (249 =? 249) with true in H. rewrite andb_true_r in H.
      change (249 =? 250) with false in H. change (249 =? 251) with false in H.
      destruct (c_half c).
      + apply fmap_ok_state in H as (b & H).
        unfold dec_f16 in H. rewrite (bind_ok _ _ _ _ _ (read_cons _ _ _ _)) in H. change (negb (249 =? 249)) with false in H. cbv iota in H.
        change (len (249 :: be 2 bits)) with 3 in *.
        rewrite (bind_ok _ _ _ _ _ (read_be_app 2 bits r (p + 1) L ltac:(cbn; lia) ltac:(cbn; lia))) in H.
        apply ret_inv in H as ->. apply mkdst_pos. cbn. lia.
      + destruct (mismatch_is_err (A := N) 249 (mkdst p (249 :: be 2 bits ++ r) L)) as (x & sx & E). cbv iota in H. rewrite E in H. discriminate.
    - (* an f32 item *)
      apply fmap_ok_state in H as (a & H). cbn [wf ser] in *. apply N.ltb_lt in Hw. change (len (250 :: be 4 bits)) with 5 in *.
      unfold dec_f64 in H. cbn [app] in H.
      rewrite (bind_ok _ _ _ _ _ (current_cons _ _ _ _)) in H. change (250 =? 249) with false in H. rewrite andb_false_r in H.
      change (250 =? 250) with true in H. cbv iota in H.
      apply fmap_ok_state in H as (b & H).
      change (250 :: be 4 bits ++ r) with ((250 :: be 4 bits) ++ r) in H. rewrite (dec_f32_ok c bits r p L Hw HL) in H.
      now injection H as _ <-.
  Qed.

  Lemma opt_pos d : posx fuel d ->
    posx fuel (dt <- datatype ;; if ctype_is_null dt then skip_auto c ;;; ret VNone else fmap VSome d).
  Proof.
    intros Hd e r p L v s' Hw Hu HL H64 Hfu H.
    rewrite (bind_ok _ _ _ _ _ (datatype_spec e r p L Hw)) in H.
    destruct (ctype_is_null (spec_type e)).
    - apply bind_ok_inv in H as ([] & s1 & H1 & H2). apply ret_inv in H2 as ->. now apply skip_pos in H1.
    - apply fmap_ok_state in H as (a & H). now apply Hd in H.
  Qed.

  Lemma tagged_pos d n : posx fuel d -> posx fuel (tg <- dec_tag ;; if tg =? n then d else fail (TagMismatch tg)).
  Proof.
    intros Hd e r p L v s' Hw Hu HL H64 Hfu H. apply bind_ok_inv in H as (g & s1 & H1 & H2).
    destruct e; try (destruct (tag_rej _ r p L Hw ltac:(discriminate)) as (x & sx & E); rewrite H1 in E; discriminate).
    rewrite (tag_head w t e r p L Hw HL) in H1. injection H1 as <- <-. cbn [wf ser utf8_ok] in *.
    apply andb_prop in Hw as [_ Hwe]. rewrite len_app in *. rewrite <- app_assoc in Hfu.
    destruct (t =? n); [|discriminate H2].
    apply Hd in H2; [|assumption|assumption|try lens'..]. subst s'. apply mkdst_pos. lia.
  Qed.

  Lemma tuple_pos ds : Forall (posx fuel) ds ->
    posx fuel (r <- dec_array ;; if opt_eqb r (len ds) then fmap VList (dec_each ds) else fail Message).
  Proof.
    intros Hds e r p L v s' Hw Hu HL H64 Hfu H. apply bind_ok_inv in H as (o & s1 & H1 & H2).
    destruct (array_elems e) as [es|] eqn:Ea.
    2:{ destruct (array_rej e r p L Hw Ea) as (x & sx & E). rewrite H1 in E. discriminate. }
    destruct (array_valid e es Hw Hu Ea) as [Hws Hus].
    destruct e; try discriminate Ea; injection Ea as ->.
    - rewrite (array_head_def w es r p L Hw HL) in H1. injection H1 as <- <-. cbn [opt_eqb wf ser] in *.
      destruct (N.eqb_spec (len es) (len ds)) as [El|]; [|discriminate H2].
      apply fmap_ok_state in H2 as (vs & H2). rewrite len_app in *. rewrite <- app_assoc in Hfu.
      apply (dec_each_pos fuel) in H2; [|assumption|unfold len in El; lia|now apply valid_items|try lens'..].
      subst s'. apply mkdst_pos. lia.
    - rewrite (array_head_indef es r p L) in H1. injection H1 as <- <-. discriminate H2.
  Qed.

  (* [index, payload]: the shared front part *)
  Lemma pair_front e r p L (k : N -> M value) v s' : wf e = true -> utf8_ok e = true -> p + len (ser e) <= L ->
    (r0 <- dec_array ;; if opt_eqb r0 2 then i <- dec_u32 ;; k i else fail Message) (mkdst p (ser e ++ r) L) = (Ok v, s') ->
    exists w i x n, e = EArray w [i; x] /\ valid_item x /\ ts_index i = Some n
      /\ k n (mkdst (p + len (Cbor.head 4 w 2) + len (ser i)) (ser x ++ r) L) = (Ok v, s').
  Proof.
    intros Hw Hu HL H. apply bind_ok_inv in H as (o & s1 & H1 & H2).
    destruct (array_elems e) as [es|] eqn:Ea.
    2:{ destruct (array_rej e r p L Hw Ea) as (x & sx & E). rewrite H1 in E. discriminate. }
    destruct (array_valid e es Hw Hu Ea) as [Hws Hus].
    destruct e; try discriminate Ea; injection Ea as ->.
    2:{ rewrite (array_head_indef es r p L) in H1. injection H1 as <- <-. discriminate H2. }
    rewrite (array_head_def w es r p L Hw HL) in H1. injection H1 as <- <-. cbn [opt_eqb] in H2.
    destruct (N.eqb_spec (len es) 2) as [E2|]; [|discriminate H2].
    destruct (len_two es E2) as (i & x & ->). change (len [i; x]) with 2 in *.
    cbn [forallb flat_map] in *. rewrite app_nil_r in H2.
    apply andb_prop in Hws as [Hwi Hws]. apply andb_prop in Hws as [Hwx _].
    apply andb_prop in Hus as [_ Hus]. apply andb_prop in Hus as [Hux _].
    apply bind_ok_inv in H2 as (n & s2 & H2 & H3). rewrite <- app_assoc in H2.
    cbn [ser flat_map] in HL. rewrite app_nil_r, !len_app in HL. change (len [i; x]) with 2 in HL.
    pose proof (index_sem i (ser x ++ r) (p + len (Cbor.head 4 w 2)) L Hwi ltac:(lia)) as Hi.
    destruct (ts_index i) as [n'|] eqn:Ei.
    - rewrite Hi in H2. injection H2 as <- <-. exists w, i, x, n'. repeat split; assumption.
    - destruct Hi as (y & sy & E). rewrite H2 in E. discriminate.
  Qed.

  Lemma bound_pos d : posx fuel d ->
    posx fuel (r <- dec_array ;;
               if opt_eqb r 2 then
                 i <- dec_u32 ;;
                 if i <? 2 then x <- d ;; ret (VVar i x)
                 else if i =? 2 then skip_auto c ;;; ret (VVar 2 VUnit)
                 else fail (UnknownVariant i)
               else fail Message).
  Proof.
    intros Hd e r p L v s' Hw Hu HL H64 Hfu H.
    apply (pair_front e r p L _ v s' Hw Hu HL) in H as (w & i & x & n & -> & [Hwx Hux] & Ei & H).
    cbn [ser flat_map] in *. rewrite app_nil_r in *. rewrite !len_app in *. change (len [i; x]) with 2 in *.
    rewrite <- !app_assoc in Hfu. rewrite !app_length in Hfu.
    destruct (n <? 2).
    - apply bind_ok_inv in H as (a & s1 & H1 & H2). apply ret_inv in H2 as ->.
      apply Hd in H1; [|assumption|assumption|try lens'..]. subst s1. apply mkdst_pos. lia.
    - destruct (n =? 2); [|discriminate H].
      apply bind_ok_inv in H as ([] & s1 & H1 & H2). apply ret_inv in H2 as ->.
      apply skip_pos in H1; [|assumption|assumption|lia..]. subst s1. apply mkdst_pos. lia.
  Qed.

  Lemma enum_pos ds : Forall (posx fuel) ds -> posx fuel (dec_enum ds).
  Proof.
    intros Hds e r p L v s' Hw Hu HL H64 Hfu H. unfold dec_enum in H.
    apply bind_ok_inv in H as (o & s1 & H1 & H2).
    destruct (array_elems e) as [es|] eqn:Ea.
    2:{ destruct (array_rej e r p L Hw Ea) as (x & sx & E). rewrite H1 in E. discriminate. }
    destruct (array_valid e es Hw Hu Ea) as [Hws Hus].
    destruct e; try discriminate Ea; injection Ea as ->.
    2:{ rewrite (array_head_indef es r p L) in H1. injection H1 as <- <-. discriminate H2. }
    rewrite (array_head_def w es r p L Hw HL) in H1. injection H1 as <- <-.
    destruct (N.eq_dec (len es) 2) as [E2|N2].
    2:{ exfalso. destruct (len es) as [|[[q|q|]|[q|q|]|]]; try discriminate H2. now apply N2. }
    destruct (len_two es E2) as (i & x & ->). change (len [i; x]) with 2 in *.
    cbn [forallb flat_map ser] in *. rewrite app_nil_r in *. rewrite !len_app in *. change (len [i; x]) with 2 in *.
    apply andb_prop in Hws as [Hwi Hws]. apply andb_prop in Hws as [Hwx _].
    apply andb_prop in Hus as [_ Hus]. apply andb_prop in Hus as [Hux _].
    apply bind_ok_inv in H2 as (n & s2 & H2 & H3). rewrite <- !app_assoc in *. rewrite !app_length in Hfu.
    pose proof (index_sem i (ser x ++ r) (p + len (Cbor.head 4 w 2)) L Hwi ltac:(lia)) as Hi.
    destruct (ts_index i) as [n'|] eqn:Ei; [|destruct Hi as (y & sy & E); rewrite H2 in E; discriminate].
    rewrite Hi in H2. injection H2 as <- <-.
    destruct (n' <? len ds); [|discriminate H3].
    destruct (nth_error ds (N.to_nat n')) as [d|] eqn:En; [|discriminate H3].
    apply bind_ok_inv in H3 as (a & s3 & H3 & H4). apply ret_inv in H4 as ->.
    rewrite Forall_forall in Hds. apply (Hds d (nth_error_In _ _ En)) in H3; [|assumption|assumption|try lens'..].
    subst s3. apply mkdst_pos. lia.
  Qed.

  Lemma na_neq {A} (s : tsem A) : not_any s -> s <> TsAny.
  Proof. intros H E. rewrite E in H. exact H. Qed.

  Lemma uint_posx max : max < 18446744073709551616 -> posx fuel (fmap VNat (dec_uint max)).
  Proof. intro Hm. eapply posx_of_agrees; [now apply uint_sem|]. intros e _. apply na_neq, not_any_uint. Qed.

  Lemma dur_posx : Forall (posx fuel) [fmap VNat dec_u64; fmap VNat dec_u32].
  Proof. repeat constructor; apply uint_posx; lia. Qed.

  Lemma duration_pos : posx fuel (l <- dec_fields c [fmap VNat dec_u64; fmap VNat dec_u32] fuel ;; mk_duration l).
  Proof.
    intros e r p L v s' Hw Hu HL H64 Hfu H. apply bind_ok_inv in H as (l & s1 & H1 & H2).
    apply (dec_fields_pos c fuel _ dur_posx) in H1; try assumption. subst s1.
    destruct l as [|[s| | | | | | | | |] [|[ns| | | | | | | | |] [|? ?]]]; try discriminate H2.
    cbn [mk_duration] in H2. cbv zeta in H2. destruct (_ <=? _) in H2; [now apply ret_inv in H2|discriminate H2].
  Qed.

  Lemma systemtime_pos :
    posx fuel (l <- dec_fields c [fmap VNat dec_u64; fmap VNat dec_u32] fuel ;; d <- mk_duration l ;;
               match d with
               | VList [VNat s; VNat ns] => if s <=? imax B64 then ret (VVar 0 d) else fail Message
               | _ => fun st => (Panic, st)
               end).
  Proof.
    intros e r p L v s' Hw Hu HL H64 Hfu H. apply bind_ok_inv in H as (l & s1 & H1 & H2).
    apply (dec_fields_pos c fuel _ dur_posx) in H1; try assumption. subst s1.
    apply bind_ok_inv in H2 as (dv & s2 & H2 & H3).
    destruct l as [|[s| | | | | | | | |] [|[ns| | | | | | | | |] [|? ?]]]; try discriminate H2.
    cbn [mk_duration] in H2. cbv zeta in H2. destruct (_ <=? _) in H2; [|discriminate H2]. unfold ret in H2. injection H2 as <- <-.
    destruct (_ <=? _) in H3; [now apply ret_inv in H3|discriminate H3].
  Qed.

  Lemma posx_forall ts : Forall (fun t => whole_ty t = true -> posx fuel (D t)) ts -> forallb whole_ty ts = true ->
    Forall (posx fuel) (map D ts).
  Proof.
    induction 1 as [|t ts Ht _ IH]; cbn [forallb map]; intro H; [constructor|].
    apply andb_prop in H as [H1 H2]. constructor; auto.
  Qed.

  Ltac leaf_na := intros e _; apply na_neq; cbn [sem_ty];
    destruct e; try exact I;
    repeat match goal with
           | |- context [if ?b then _ else _] => destruct b
           | |- context [match strip_nul ?b with _ => _ end] => destruct (strip_nul b)
           | |- context [match ?l with [] => _ | _ :: _ => _ end] => destruct l
           end; exact I.

  Theorem posx_all : forall t, whole_ty t = true -> posx fuel (D t).
  Proof.
    induction t using ty_ind'; intro Hwt; cbn [whole_ty] in Hwt; try discriminate Hwt; cbn [decode_ty].
    - apply uint_posx. destruct w; cbn [umax]; lia.
    - eapply posx_of_agrees; [apply sint_sem|]. intros e _. apply na_neq, not_any_sint.
    - eapply posx_of_agrees; [apply int_sem|]. intros e _. apply na_neq, not_any_map, not_any_int.
    - eapply posx_of_agrees; [apply (bool_sem fuel true)|leaf_na].
    - eapply posx_of_agrees; [apply (char_sem fuel true)|leaf_na].
    - apply f32_pos.
    - apply f64_pos.
    - eapply posx_of_agrees; [apply nzu_sem; destruct w; cbn [umax]; lia|]. intros e _. apply na_neq, not_any_nonzero, not_any_uint.
    - eapply posx_of_agrees; [apply nzi_sem|]. intros e _. apply na_neq, not_any_nonzero, not_any_sint.
    - eapply posx_of_agrees; [apply (str_sem fuel true)|leaf_na].
    - eapply posx_of_agrees; [apply (bytes_sem fuel true)|leaf_na].
    - eapply posx_of_agrees; [apply (bytearr_sem fuel true)|leaf_na].
    - eapply posx_of_agrees; [apply (cstr_sem fuel true)|leaf_na].
    - eapply posx_of_agrees; [apply (unit_sem fuel true)|leaf_na].
    - apply opt_pos. auto.
    - apply seq_pos. auto.
    - apply arr_pos. auto.
    - apply andb_prop in Hwt as [H1 H2]. apply map_pos; auto.
    - pose proof (tuple_pos _ (posx_forall ts H Hwt)) as G. rewrite len_map in G. exact G.
    - intros e r p L v s' Hw Hu HL H64 Hfu Hr. apply fmap_ok_state in Hr as (a & Hr).
      now apply (dec_fields_pos c fuel _ (posx_forall ts H Hwt)) in Hr.
    - apply enum_pos. now apply posx_forall.
    - apply bound_pos. auto.
    - apply tagged_pos. auto.
    - apply duration_pos.
    - apply systemtime_pos.
  Qed.
End PosAgree.

(* the statement pinned in Props/C04.v *)
Theorem types_position_any c t e r p L fuel v s' :
  whole_ty t = true -> wf e = true -> utf8_ok e = true -> p + len (ser e) <= L -> len (ser e) < 18446744073709551616 ->
  (length (ser e ++ r) < fuel)%nat ->
  decode_ty c t fuel (mkdst p (ser e ++ r) L) = (Ok v, s') -> s' = mkdst (p + len (ser e)) r L.
Proof. intros Ht. now apply posx_all. Qed.
