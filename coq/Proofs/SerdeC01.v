(* Proofs/SerdeC01.v — discharges the premise of C18_cross_native_reads_bridge with C01's round trip:
   every shared type is ty_ok, and a shared type without Option-in-Option is rt_ok. *)
From MC Require Import Bytes Monad Cbor Decoder Encoder Types Serde SerdeDoc CfgFacts.
From MC Require TypesEnc TypesDec TypesFacts SerdeCrossFacts.
From Coq Require Import Lia.
Local Open Scope N_scope.

Lemma shared_ty_ok t : shared t = true -> TypesEnc.ty_ok t = true.
Proof.
  induction t using ty_ind_forall; cbn [shared TypesEnc.ty_ok]; intro Hs; try reflexivity; try discriminate; auto.
  - apply andb_prop in Hs as [_ Hs]. auto.
  - apply andb_prop in Hs as [H1 H2]. rewrite IHt1, IHt2 by assumption. reflexivity.
  - apply andb_prop in Hs as [Hl Hs]. apply N.leb_le in Hl.
    destruct (N.leb_spec (len ts) 23); [|lia]. cbn [andb].
    apply forallb_forall. intros x Hx. rewrite Forall_forall in H. rewrite forallb_forall in Hs. auto.
Qed.

Lemma shared_rt_ok t : shared t = true -> ty_opt_opt t = false -> TypesFacts.rt_ok t = true.
Proof.
  induction t using ty_ind_forall; cbn [shared ty_opt_opt TypesFacts.rt_ok]; intros Hs Ho; try reflexivity; try discriminate; auto.
  - (* Option *) apply orb_false_elim in Ho as [Ho1 Ho2]. rewrite IHt by assumption. rewrite andb_true_r.
    unfold TypesDec.nullable. destruct t; try reflexivity. discriminate.
  - apply andb_prop in Hs as [_ Hs]. auto.
  - apply andb_prop in Hs as [H1 H2]. apply orb_false_elim in Ho as [Ho1 Ho2]. rewrite IHt1, IHt2 by assumption. reflexivity.
  - apply andb_prop in Hs as [_ Hs].
    apply forallb_forall. intros x Hx. rewrite Forall_forall in H. rewrite forallb_forall in Hs.
    apply H; auto. destruct (ty_opt_opt x) eqn:E; [|reflexivity].
    exfalso. assert (existsb ty_opt_opt ts = true) by (apply existsb_exists; eauto). congruence.
Qed.

Theorem native_reads_bridge_c01 c t v cs cs' fuel rest p L :
  shared t = true -> ty_opt_opt t = false -> encode_ty t v = Some cs ->
  ser_s c (embed t v) = Some cs' ->
  p + len (flat cs') <= L -> len (flat cs') < two64 -> (length (flat cs' ++ rest) < fuel)%nat ->
  decode_ty c t fuel (mkdst p (flat cs' ++ rest) L) = (Ok v, mkdst (p + len (flat cs')) rest L).
Proof.
  apply SerdeCrossFacts.native_reads_bridge.
  intros c0 t0 v0 cs0 fuel0 rest0 p0 L0 Hs Ho He HL H64 Hf.
  apply TypesFacts.roundtrip; auto using shared_ty_ok, shared_rt_ok.
Qed.
