(* Proofs/SerdeCfgFacts.v — C20 for the serde bridge: ser_s and de_s compute the same outcome in every feature
   configuration, up to the documented differences:
   - serialisation: without alloc, collect_str is refused (ser.rs:256) — nothing else;
   - deserialisation: the differences of the decoder itself (Proofs/CfgFacts.v doc_diff: without alloc skip may
     answer Err Message — Option::None, ignored / unknown fields, deserialize_any on null —; without half a
     half-precision item is TypeMismatch TF16 — f32()/f64(), and de.rs:90 under deserialize_any), plus the
     bridge's own: without alloc an indefinite-length byte / text string under deserialize_any is
     TypeMismatch TBytesIndef / TStringIndef (de.rs:114).
   `c_std` is never inspected.  Every `c_alloc c` / `c_half c` test of Model/Serde.v is covered:
     ser_s SCollectStr (C20_serde_ser) · any_head TF16, TBytesIndef, TStringIndef (hrel_any_head) ·
     skip_auto in de_option, de_ignored, any_head TNull (dd_skip_auto) · dec_f32 / dec_f64 (dd_f32, dd_f64). *)
From MC Require Import Bytes BytesFacts Monad Cbor Utf8 Half Encoder Decoder Types DecoderFacts CfgFacts
  Serde SerdeDoc SerdeFacts.
From Coq Require Import Lia.
Local Open Scope N_scope.

(* ================================================================== serialisation *)
Fixpoint uses_collect_str (v : sval) : bool :=
  let any := fix go (l : list sval) : bool := match l with [] => false | x :: r => uses_collect_str x || go r end in
  let anyf := fix go (l : list (bytes * sval)) : bool :=
    match l with [] => false | (_, x) :: r => uses_collect_str x || go r end in
  match v with
  | SCollectStr _ => true
  | SSome x | SNewtypeStruct x | SNewtypeVariant _ _ x => uses_collect_str x
  | SSeq _ l | STuple _ l | STupleStruct _ l | STupleVariant _ _ _ l | SMap _ l => any l
  | SStruct _ fs | SStructVariant _ _ _ fs => anyf fs
  | _ => false
  end.

Fixpoint any_cs (l : list sval) : bool := match l with [] => false | x :: r => uses_collect_str x || any_cs r end.
Fixpoint anyf_cs (l : list (bytes * sval)) : bool :=
  match l with [] => false | (_, x) :: r => uses_collect_str x || anyf_cs r end.

Lemma any_cs_fix l :
  (fix go (l : list sval) : bool := match l with [] => false | x :: r => uses_collect_str x || go r end) l = any_cs l.
Proof. induction l as [|x r IH]; [reflexivity|]. cbn [any_cs]. now rewrite <- IH. Qed.
Lemma anyf_cs_fix l :
  (fix go (l : list (bytes * sval)) : bool := match l with [] => false | (_, x) :: r => uses_collect_str x || go r end) l
  = anyf_cs l.
Proof. induction l as [|[k x] r IH]; [reflexivity|]. cbn [anyf_cs]. now rewrite <- IH. Qed.

Lemma all_s_ext f g l : Forall (fun x => f x = g x) l -> all_s f l = all_s g l.
Proof. induction 1 as [|x r Hx _ IH]; [reflexivity|]. cbn [all_s]. now rewrite Hx, IH. Qed.
Lemma fields_s_ext f g fs : Forall (fun p : bytes * sval => f (snd p) = g (snd p)) fs -> fields_s f fs = fields_s g fs.
Proof. induction 1 as [|[k x] r Hx _ IH]; [reflexivity|]. cbn [fields_s snd] in *. now rewrite Hx, IH. Qed.

(* ser_s looks at the configuration only through c_alloc *)
Lemma ser_s_alloc_only c1 c2 v : c_alloc c1 = c_alloc c2 -> ser_s c1 v = ser_s c2 v.
Proof.
  intro Ha. induction v using sval_ind'; cbn [ser_s]; try reflexivity; try assumption.
  - now rewrite Ha.
  - now rewrite IHv.
  - destruct n; now rewrite (all_s_ext _ _ l H).
  - now rewrite (all_s_ext _ _ l H).
  - now rewrite (all_s_ext _ _ l H).
  - now rewrite (all_s_ext _ _ l H).
  - destruct n; now rewrite (all_s_ext _ _ l H).
  - now rewrite (fields_s_ext _ _ fs H).
  - now rewrite (fields_s_ext _ _ fs H).
Qed.

Lemma all_s_no_cs c1 c2 l : Forall (fun x => uses_collect_str x = false -> ser_s c1 x = ser_s c2 x) l ->
  any_cs l = false -> all_s (ser_s c1) l = all_s (ser_s c2) l.
Proof.
  induction 1 as [|x r Hx _ IH]; intro Hn; [reflexivity|]. cbn [any_cs] in Hn. apply orb_false_elim in Hn as [H1 H2].
  cbn [all_s]. now rewrite (Hx H1), (IH H2).
Qed.
Lemma fields_s_no_cs c1 c2 fs :
  Forall (fun p : bytes * sval => uses_collect_str (snd p) = false -> ser_s c1 (snd p) = ser_s c2 (snd p)) fs ->
  anyf_cs fs = false -> fields_s (ser_s c1) fs = fields_s (ser_s c2) fs.
Proof.
  induction 1 as [|[k x] r Hx _ IH]; intro Hn; [reflexivity|]. cbn [anyf_cs] in Hn. apply orb_false_elim in Hn as [H1 H2].
  cbn [fields_s snd] in *. now rewrite (Hx H1), (IH H2).
Qed.

(* without collect_str the configuration is irrelevant *)
Lemma ser_s_no_cs c1 c2 v : uses_collect_str v = false -> ser_s c1 v = ser_s c2 v.
Proof.
  induction v using sval_ind'; intro Hn; cbn [uses_collect_str] in Hn; rewrite ?any_cs_fix, ?anyf_cs_fix in Hn;
    cbn [ser_s]; try reflexivity; try discriminate; auto.
  - now rewrite (IHv Hn).
  - destruct n; now rewrite (all_s_no_cs c1 c2 l H Hn).
  - now rewrite (all_s_no_cs c1 c2 l H Hn).
  - now rewrite (all_s_no_cs c1 c2 l H Hn).
  - now rewrite (all_s_no_cs c1 c2 l H Hn).
  - destruct n; now rewrite (all_s_no_cs c1 c2 l H Hn).
  - now rewrite (fields_s_no_cs c1 c2 fs H Hn).
  - now rewrite (fields_s_no_cs c1 c2 fs H Hn).
Qed.

Lemma ocat_none_l b : ocat None b = None.
Proof. reflexivity. Qed.
Lemma ocat_none_r a : ocat a None = None.
Proof. now destruct a. Qed.

Lemma all_s_cs c l : Forall (fun x => uses_collect_str x = true -> ser_s c x = None) l ->
  any_cs l = true -> all_s (ser_s c) l = None.
Proof.
  induction 1 as [|x r Hx _ IH]; intro Hn; [discriminate|]. cbn [any_cs] in Hn. cbn [all_s].
  apply orb_prop in Hn as [H1|H2]; [now rewrite (Hx H1)|rewrite (IH H2); apply ocat_none_r].
Qed.
Lemma fields_s_cs c fs : Forall (fun p : bytes * sval => uses_collect_str (snd p) = true -> ser_s c (snd p) = None) fs ->
  anyf_cs fs = true -> fields_s (ser_s c) fs = None.
Proof.
  induction 1 as [|[k x] r Hx _ IH]; intro Hn; [discriminate|]. cbn [anyf_cs] in Hn. cbn [fields_s snd] in *.
  apply orb_prop in Hn as [H1|H2]; [now rewrite (Hx H1)|rewrite (IH H2), ocat_none_r; reflexivity].
Qed.

(* without alloc, a call tree that uses collect_str is refused *)
Lemma ser_s_cs_refused c v : c_alloc c = false -> uses_collect_str v = true -> ser_s c v = None.
Proof.
  intro Ha. induction v using sval_ind'; intro Hn; cbn [uses_collect_str] in Hn; rewrite ?any_cs_fix, ?anyf_cs_fix in Hn;
    cbn [ser_s]; try discriminate; auto.
  - now rewrite Ha.
  - rewrite (IHv Hn). reflexivity.
  - destruct n; rewrite (all_s_cs c l H Hn); reflexivity.
  - rewrite (all_s_cs c l H Hn). reflexivity.
  - rewrite (all_s_cs c l H Hn). reflexivity.
  - rewrite (all_s_cs c l H Hn). reflexivity.
  - destruct n; rewrite (all_s_cs c l H Hn); reflexivity.
  - rewrite (fields_s_cs c fs H Hn). reflexivity.
  - rewrite (fields_s_cs c fs H Hn). reflexivity.
Qed.

Theorem ser_s_cfg c1 c2 v :
  ser_s c1 v = ser_s c2 v
  \/ (c_alloc c1 = false /\ c_alloc c2 = true /\ ser_s c1 v = None /\ uses_collect_str v = true)
  \/ (c_alloc c2 = false /\ c_alloc c1 = true /\ ser_s c2 v = None /\ uses_collect_str v = true).
Proof.
  destruct (uses_collect_str v) eqn:Hu; [|left; now apply ser_s_no_cs].
  destruct (c_alloc c1) eqn:H1, (c_alloc c2) eqn:H2.
  - left. apply ser_s_alloc_only. congruence.
  - right. right. repeat split; auto. now apply ser_s_cs_refused.
  - right. left. repeat split; auto. now apply ser_s_cs_refused.
  - left. apply ser_s_alloc_only. congruence.
Qed.

(* ================================================================== deserialisation *)
(* the error a configuration `ca` may report where `cb` does not *)
Definition documented (ca cb : cfg) (e : err) : Prop :=
  (c_alloc ca = false /\ c_alloc cb = true /\
     (e = Message \/ e = TypeMismatch TBytesIndef \/ e = TypeMismatch TStringIndef))
  \/ (c_half ca = false /\ c_half cb = true /\ e = TypeMismatch TF16).

(* doc_diff plus the bridge's two cases (de.rs:114) *)
Definition doc_diff_serde {A} (c1 c2 : cfg) (r1 r2 : result A * dst) : Prop :=
  doc_diff c1 c2 r1 r2
  \/ (c_alloc c1 = false /\ c_alloc c2 = true /\
        (fst r1 = Err (TypeMismatch TBytesIndef) \/ fst r1 = Err (TypeMismatch TStringIndef)))
  \/ (c_alloc c2 = false /\ c_alloc c1 = true /\
        (fst r2 = Err (TypeMismatch TBytesIndef) \/ fst r2 = Err (TypeMismatch TStringIndef))).

(* the working form: outcomes related by R (intermediate results may carry configuration-specific decoders),
   or the same failure, or a documented error on one side *)
Inductive bad := BErr (e : err) | BPanic | BOOF.
Definition inj {A} (b : bad) : result A := match b with BErr e => Err e | BPanic => Panic | BOOF => OutOfFuel end.

Definition hdd {A1 A2} (R : A1 -> A2 -> Prop) (c1 c2 : cfg) (r1 : result A1 * dst) (r2 : result A2 * dst) : Prop :=
  (exists a1 a2 s, r1 = (Ok a1, s) /\ r2 = (Ok a2, s) /\ R a1 a2)
  \/ (exists b s, r1 = (inj b, s) /\ r2 = (inj b, s))
  \/ (exists e, documented c1 c2 e /\ fst r1 = Err e)
  \/ (exists e, documented c2 c1 e /\ fst r2 = Err e).

Definition hrel {A1 A2} (R : A1 -> A2 -> Prop) (c1 c2 : cfg) (m1 : M A1) (m2 : M A2) : Prop :=
  forall s, hdd R c1 c2 (m1 s) (m2 s).
Notation srel := (hrel eq).

Lemma hdd_same {A} c1 c2 (r : result A * dst) : hdd eq c1 c2 r r.
Proof.
  destruct r as [[a|e| |] s].
  - left. now exists a, a, s.
  - right. left. now exists (BErr e), s.
  - right. left. now exists BPanic, s.
  - right. left. now exists BOOF, s.
Qed.

Lemma hrel_refl {A} c1 c2 (m : M A) : srel c1 c2 m m.
Proof. intro s. apply hdd_same. Qed.

Lemma hdd_of_dd {A} c1 c2 (r1 r2 : result A * dst) : doc_diff c1 c2 r1 r2 -> hdd eq c1 c2 r1 r2.
Proof.
  intros [E|[(H1 & H2 & H3)|[(H1 & H2 & H3)|[(H1 & H2 & H3)|(H1 & H2 & H3)]]]].
  - rewrite E. apply hdd_same.
  - right. right. left. exists Message. split; [left; auto|exact H3].
  - right. right. right. exists Message. split; [left; auto|exact H3].
  - right. right. left. exists (TypeMismatch TF16). split; [right; auto|exact H3].
  - right. right. right. exists (TypeMismatch TF16). split; [right; auto|exact H3].
Qed.

Lemma hrel_of_rel {A} c1 c2 (m1 m2 : M A) : rel c1 c2 m1 m2 -> srel c1 c2 m1 m2.
Proof. intros H s. apply hdd_of_dd, H. Qed.

Lemma dds_of_hdd {A} c1 c2 (r1 r2 : result A * dst) : hdd eq c1 c2 r1 r2 -> doc_diff_serde c1 c2 r1 r2.
Proof.
  intros [(a1 & a2 & s & E1 & E2 & E3)|[(b & s & E1 & E2)|[(e & D & H)|(e & D & H)]]].
  - subst. left. left. reflexivity.
  - subst. left. left. reflexivity.
  - destruct D as [(H1 & H2 & [ -> | [ -> | -> ] ])|(H1 & H2 & ->)].
    + left. right. left. auto.
    + right. left. auto.
    + right. left. auto.
    + left. right. right. right. left. auto.
  - destruct D as [(H1 & H2 & [ -> | [ -> | -> ] ])|(H1 & H2 & ->)].
    + left. right. right. left. auto.
    + right. right. auto.
    + right. right. auto.
    + left. right. right. right. right. auto.
Qed.

Lemma bind_err_fst {A B} (m : M A) (f : A -> M B) s e : fst (m s) = Err e -> fst (bind m f s) = Err e.
Proof. unfold bind. destruct (m s) as [[a|e'| |] s']; cbn [fst]; intro H; try discriminate. now injection H as ->. Qed.

Lemma bind_bad {A B} (m : M A) (f : A -> M B) s b s' : m s = (inj b, s') -> bind m f s = (inj b, s').
Proof. unfold bind. intros ->. destruct b; reflexivity. Qed.

Lemma hdd_bind {A1 A2 B1 B2} (R : A1 -> A2 -> Prop) (R' : B1 -> B2 -> Prop) c1 c2
      (m1 : M A1) (m2 : M A2) (f1 : A1 -> M B1) (f2 : A2 -> M B2) s :
  hdd R c1 c2 (m1 s) (m2 s) ->
  (forall a1 a2 s', R a1 a2 -> hdd R' c1 c2 (f1 a1 s') (f2 a2 s')) ->
  hdd R' c1 c2 (bind m1 f1 s) (bind m2 f2 s).
Proof.
  intros [(a1 & a2 & s' & E1 & E2 & HR)|[(b & s' & E1 & E2)|[(e & D & H)|(e & D & H)]]] Hf.
  - unfold bind. rewrite E1, E2. now apply Hf.
  - rewrite (bind_bad _ _ _ _ _ E1), (bind_bad _ _ _ _ _ E2). right. left. now exists b, s'.
  - right. right. left. exists e. split; [exact D|now apply bind_err_fst].
  - right. right. right. exists e. split; [exact D|now apply bind_err_fst].
Qed.

Lemma hrel_bind {A1 A2 B1 B2} (R : A1 -> A2 -> Prop) (R' : B1 -> B2 -> Prop) c1 c2 m1 m2 (f1 : A1 -> M B1) (f2 : A2 -> M B2) :
  hrel R c1 c2 m1 m2 -> (forall a1 a2, R a1 a2 -> hrel R' c1 c2 (f1 a1) (f2 a2)) ->
  hrel R' c1 c2 (bind m1 f1) (bind m2 f2).
Proof. intros H Hf s. apply (hdd_bind R R'); [apply H|intros a1 a2 s' HR; now apply Hf]. Qed.

Lemma srel_bind {A B} c1 c2 (m1 m2 : M A) (f1 f2 : A -> M B) :
  srel c1 c2 m1 m2 -> (forall a, srel c1 c2 (f1 a) (f2 a)) -> srel c1 c2 (bind m1 f1) (bind m2 f2).
Proof. intros H Hf. apply (hrel_bind eq eq); [exact H|intros a1 a2 <-; apply Hf]. Qed.

Lemma srel_bind_same {A B} c1 c2 (m : M A) (f1 f2 : A -> M B) :
  (forall a, srel c1 c2 (f1 a) (f2 a)) -> srel c1 c2 (bind m f1) (bind m f2).
Proof. intro Hf. apply srel_bind; [apply hrel_refl|exact Hf]. Qed.

Lemma srel_fmap {A B} c1 c2 (g : A -> B) (m1 m2 : M A) : srel c1 c2 m1 m2 -> srel c1 c2 (fmap g m1) (fmap g m2).
Proof. intro H. unfold fmap. apply srel_bind; [exact H|intro; apply hrel_refl]. Qed.

Lemma srel_skip c1 c2 : srel c1 c2 (skip_auto c1) (skip_auto c2).
Proof. apply hrel_of_rel. intro s. apply dd_skip_auto. Qed.
Lemma srel_f32 c1 c2 : srel c1 c2 (dec_f32 c1) (dec_f32 c2).
Proof. apply hrel_of_rel. intro s. apply dd_f32. Qed.
Lemma srel_f64 c1 c2 : srel c1 c2 (dec_f64 c1) (dec_f64 c2).
Proof. apply hrel_of_rel. intro s. apply dd_f64. Qed.

(* ---- the accesses and the visitors over them ---- *)
Lemma srel_next_element {A} c1 c2 (d1 d2 : M A) ln : srel c1 c2 d1 d2 ->
  srel c1 c2 (next_element d1 ln) (next_element d2 ln).
Proof.
  intro H. destruct ln as [n|]; cbn [next_element].
  - destruct (n =? 0); [apply hrel_refl|]. apply srel_bind; [exact H|intro; apply hrel_refl].
  - apply srel_bind_same. intro b. destruct (b =? 255); [apply hrel_refl|].
    apply srel_bind; [exact H|intro; apply hrel_refl].
Qed.

Lemma srel_next_key {A} c1 c2 (d1 d2 : M A) ln : srel c1 c2 d1 d2 -> srel c1 c2 (next_key d1 ln) (next_key d2 ln).
Proof.
  intro H. destruct ln as [n|]; cbn [next_key].
  - destruct (n =? 0); [apply hrel_refl|]. now apply srel_fmap.
  - apply srel_bind_same. intro b. destruct (b =? 255); [apply hrel_refl|]. now apply srel_fmap.
Qed.

Lemma srel_next_value {A} c1 c2 (d1 d2 : M A) ln : srel c1 c2 d1 d2 -> srel c1 c2 (next_value d1 ln) (next_value d2 ln).
Proof. intro H. destruct ln as [n|]; cbn [next_value]; (apply srel_bind; [exact H|intro; apply hrel_refl]). Qed.

Lemma srel_seq_collect {A} c1 c2 (d1 d2 : M A) : srel c1 c2 d1 d2 ->
  forall fuel ln acc, srel c1 c2 (seq_collect d1 ln fuel acc) (seq_collect d2 ln fuel acc).
Proof.
  intro H. induction fuel as [|f IH]; intros ln acc; cbn [seq_collect]; [apply hrel_refl|].
  apply srel_bind; [now apply srel_next_element|]. intros [[x|] ln']; [apply IH|apply hrel_refl].
Qed.

Lemma srel_map_collect {A} c1 c2 (k1 k2 v1 v2 : M A) : srel c1 c2 k1 k2 -> srel c1 c2 v1 v2 ->
  forall fuel ln acc, srel c1 c2 (map_collect k1 v1 ln fuel acc) (map_collect k2 v2 ln fuel acc).
Proof.
  intros Hk Hv. induction fuel as [|f IH]; intros ln acc; cbn [map_collect]; [apply hrel_refl|].
  apply srel_bind; [now apply srel_next_key|]. intros [kk|]; [|apply hrel_refl].
  apply srel_bind; [now apply srel_next_value|]. intro r. apply IH.
Qed.

Lemma srel_tuple_collect {A} c1 c2 (ds1 ds2 : list (M A)) : Forall2 (srel c1 c2) ds1 ds2 ->
  forall ln, srel c1 c2 (tuple_collect ds1 ln) (tuple_collect ds2 ln).
Proof.
  induction 1 as [|d1 d2 l1 l2 H _ IH]; intro ln; cbn [tuple_collect]; [apply hrel_refl|].
  apply srel_bind; [now apply srel_next_element|]. intros [[x|] ln']; [|apply hrel_refl].
  apply srel_bind; [apply IH|intro; apply hrel_refl].
Qed.

Lemma srel_de_tuple_of {A} c1 c2 (ds1 ds2 : list (M A)) : Forall2 (srel c1 c2) ds1 ds2 ->
  srel c1 c2 (de_tuple_of ds1) (de_tuple_of ds2).
Proof.
  intro H. unfold de_tuple_of. rewrite (Forall2_len _ _ _ H). apply srel_bind_same. intro n.
  destruct (opt_eqb n (len ds2)); [now apply srel_tuple_collect|apply hrel_refl].
Qed.

Lemma srel_de_option {A} c1 c2 (none : A) (m1 m2 : M A) : srel c1 c2 m1 m2 ->
  srel c1 c2 (de_option c1 none m1) (de_option c2 none m2).
Proof.
  intro H. unfold de_option. apply srel_bind_same. intro t. destruct (ctype_is_null t); [|exact H].
  apply srel_bind; [apply srel_skip|intro; apply hrel_refl].
Qed.

(* ---- deserialize_any: the three cfg-split arms are the documented differences ---- *)
Lemma hrel_any_head c1 c2 fuel : srel c1 c2 (any_head c1 fuel) (any_head c2 fuel).
Proof.
  unfold any_head. apply srel_bind_same. intro t. destruct t; try apply hrel_refl.
  - (* null: skip *) apply srel_bind; [apply srel_skip|intro; apply hrel_refl].
  - (* f16: half *)
    destruct (c_half c1) eqn:H1, (c_half c2) eqn:H2; try apply hrel_refl; intro s.
    + right. right. right. exists (TypeMismatch TF16). split; [right; auto|reflexivity].
    + right. right. left. exists (TypeMismatch TF16). split; [right; auto|reflexivity].
  - apply srel_fmap, srel_f32.
  - apply srel_fmap, srel_f64.
  - (* indefinite bytes: alloc *)
    destruct (c_alloc c1) eqn:H1, (c_alloc c2) eqn:H2; try apply hrel_refl; intro s.
    + right. right. right. exists (TypeMismatch TBytesIndef). split; [left; auto|reflexivity].
    + right. right. left. exists (TypeMismatch TBytesIndef). split; [left; auto|reflexivity].
  - (* indefinite text: alloc *)
    destruct (c_alloc c1) eqn:H1, (c_alloc c2) eqn:H2; try apply hrel_refl; intro s.
    + right. right. right. exists (TypeMismatch TStringIndef). split; [left; auto|reflexivity].
    + right. right. left. exists (TypeMismatch TStringIndef). split; [left; auto|reflexivity].
Qed.

Lemma srel_de_content c1 c2 : forall fuel, srel c1 c2 (de_content c1 fuel) (de_content c2 fuel).
Proof.
  induction fuel as [|f IH]; cbn [de_content]; [apply hrel_refl|].
  apply srel_bind; [apply hrel_any_head|]. intros [x|ln|ln]; [apply hrel_refl| |].
  - apply srel_fmap. now apply srel_seq_collect.
  - apply srel_fmap. now apply srel_map_collect.
Qed.

(* ---- lookups in lists of named decoders ---- *)
Definition named_rel {A} (c1 c2 : cfg) (p q : bytes * M A) : Prop := fst p = fst q /\ srel c1 c2 (snd p) (snd q).

Lemma find_idx_rel {A} c1 c2 (l1 l2 : list (bytes * M A)) name : Forall2 (named_rel c1 c2) l1 l2 -> forall k,
  match find_idx name l1 k, find_idx name l2 k with
  | Some (i, d1), Some (j, d2) => i = j /\ srel c1 c2 d1 d2
  | None, None => True
  | _, _ => False
  end.
Proof.
  induction 1 as [|[n1 d1] [n2 d2] r1 r2 [Hn Hd] _ IH]; intro k; cbn [find_idx]; [exact I|].
  cbn [fst snd] in Hn, Hd. subst n2. destruct (list_eq_dec N.eq_dec name n1); [now split|apply IH].
Qed.

Lemma srel_struct_loop c1 c2 ds1 ds2 : Forall2 (named_rel c1 c2) ds1 ds2 ->
  forall fuel ln slots, srel c1 c2 (struct_loop c1 ds1 ln fuel slots) (struct_loop c2 ds2 ln fuel slots).
Proof.
  intro H. induction fuel as [|f IH]; intros ln slots; cbn [struct_loop]; [apply hrel_refl|].
  apply srel_bind_same. intros [name|]; [|apply hrel_refl].
  pose proof (find_idx_rel c1 c2 ds1 ds2 name H 0) as G.
  destruct (find_idx name ds1 0) as [[i d1]|], (find_idx name ds2 0) as [[j d2]|]; try contradiction.
  - destruct G as [<- Hd]. destruct (nth_error slots i) as [[x|]|]; try apply hrel_refl;
      (apply srel_bind; [now apply srel_next_value|intro; apply IH]).
  - apply srel_bind; [apply srel_next_value; unfold de_ignored; apply srel_skip|intro; apply IH].
Qed.

Lemma srel_struct_visit c1 c2 fs ds1 ds2 ln fuel : Forall2 (named_rel c1 c2) ds1 ds2 ->
  srel c1 c2 (struct_visit c1 fs ds1 ln fuel) (struct_visit c2 fs ds2 ln fuel).
Proof. intro H. unfold struct_visit. apply srel_bind; [now apply srel_struct_loop|intro; apply hrel_refl]. Qed.

(* variant identifiers: the result carries the variant's decoder, related rather than equal *)
Definition vres_rel {X} (c1 c2 : cfg) (R : X -> X -> Prop) (r1 r2 : nat * (bytes * X)) : Prop :=
  fst r1 = fst r2 /\ fst (snd r1) = fst (snd r2) /\ R (snd (snd r1)) (snd (snd r2)).

Lemma find_idx_gen {X} (R : X -> X -> Prop) (l1 l2 : list (bytes * X)) name :
  Forall2 (fun p q => fst p = fst q /\ R (snd p) (snd q)) l1 l2 -> forall k,
  match find_idx name l1 k, find_idx name l2 k with
  | Some (i, a), Some (j, b) => i = j /\ R a b
  | None, None => True
  | _, _ => False
  end.
Proof.
  induction 1 as [|[n1 a1] [n2 a2] r1 r2 [Hn Ha] _ IH]; intro k; cbn [find_idx]; [exact I|].
  cbn [fst snd] in Hn, Ha. subst n2. destruct (list_eq_dec N.eq_dec name n1); [now split|apply IH].
Qed.

Lemma hrel_variant_ident {X} c1 c2 (R : X -> X -> Prop) (l1 l2 : list (bytes * X)) :
  Forall2 (fun p q => fst p = fst q /\ R (snd p) (snd q)) l1 l2 ->
  hrel (vres_rel c1 c2 R) c1 c2 (variant_ident l1) (variant_ident l2).
Proof.
  intros H s. unfold variant_ident. apply (hdd_bind eq (vres_rel c1 c2 R)); [apply hdd_same|].
  intros name ? s' <-. pose proof (find_idx_gen R l1 l2 name H 0) as G.
  destruct (find_idx name l1 0) as [[i a]|], (find_idx name l2 0) as [[j b]|]; try contradiction.
  - destruct G as [<- HR]. left. exists (i, (name, a)), (i, (name, b)), s'. repeat split; assumption.
  - right. left. now exists (BErr Message), s'.
Qed.

Lemma hrel_next_value {A1 A2} (R : A1 -> A2 -> Prop) c1 c2 (d1 : M A1) (d2 : M A2) ln : hrel R c1 c2 d1 d2 ->
  hrel (fun r1 r2 => R (fst r1) (fst r2) /\ snd r1 = snd r2) c1 c2 (next_value d1 ln) (next_value d2 ln).
Proof.
  intros H s. destruct ln as [n|]; cbn [next_value].
  - apply (hdd_bind R _); [apply H|]. intros a1 a2 s' HR. destruct (n =? 0).
    + right. left. now exists BPanic, s'.
    + left. exists (a1, Some (n - 1)), (a2, Some (n - 1)), s'. now repeat split.
  - apply (hdd_bind R _); [apply H|]. intros a1 a2 s' HR. left. exists (a1, None), (a2, None), s'. now repeat split.
Qed.

(* ---- internally tagged / adjacently tagged / flattened ---- *)
Lemma srel_tagged_loop {X} c1 c2 tag (vs : list (bytes * X)) : forall fuel ln tg acc,
  srel c1 c2 (tagged_loop c1 tag vs ln fuel tg acc) (tagged_loop c2 tag vs ln fuel tg acc).
Proof.
  induction fuel as [|f IH]; intros ln tg acc; cbn [tagged_loop]; [apply hrel_refl|].
  apply srel_bind; [apply srel_next_key, srel_de_content|]. intros [key|]; [|apply hrel_refl].
  destruct (is_tag_key tag key).
  - destruct tg; [apply hrel_refl|]. apply srel_bind_same. intro r. apply IH.
  - apply srel_bind; [apply srel_next_value, srel_de_content|]. intro r. apply IH.
Qed.

Lemma srel_adj_next c1 c2 tag content : forall fuel ln,
  srel c1 c2 (adj_next c1 tag content ln fuel) (adj_next c2 tag content ln fuel).
Proof.
  induction fuel as [|f IH]; intro ln; cbn [adj_next]; [apply hrel_refl|].
  apply srel_bind_same. intros [name|]; [|apply hrel_refl].
  destruct (beq name tag); [apply hrel_refl|]. destruct (beq name content); [apply hrel_refl|].
  apply srel_bind; [apply srel_next_value; unfold de_ignored; apply srel_skip|intro; apply IH].
Qed.

Lemma srel_adj_direct c1 c2 fuel k (d1 d2 : M sval) : srel c1 c2 d1 d2 ->
  srel c1 c2 (adj_direct c1 fuel k d1) (adj_direct c2 fuel k d2).
Proof.
  intro H. destruct k; cbn [adj_direct]; try exact H.
  - apply srel_bind; [apply hrel_any_head|intro; apply hrel_refl].
  - apply srel_bind_same. intro t. destruct (is_map_type t); [exact H|].
    apply srel_bind; [apply hrel_any_head|intro; apply hrel_refl].
Qed.

Definition flat_rel (c1 c2 : cfg) (p q : bytes * (bool * M sval)) : Prop :=
  fst p = fst q /\ fst (snd p) = fst (snd q) /\ srel c1 c2 (snd (snd p)) (snd (snd q)).

Lemma find_direct_rel c1 c2 (l1 l2 : list (bytes * (bool * M sval))) name : Forall2 (flat_rel c1 c2) l1 l2 -> forall k,
  match find_direct name l1 k, find_direct name l2 k with
  | Some (i, d1), Some (j, d2) => i = j /\ srel c1 c2 d1 d2
  | None, None => True
  | _, _ => False
  end.
Proof.
  induction 1 as [|[n1 [f1 d1]] [n2 [f2 d2]] r1 r2 (Hn & Hf & Hd) _ IH]; intro k; cbn [find_direct]; [exact I|].
  cbn [fst snd] in Hn, Hf, Hd. subst n2 f2. destruct (negb f1 && beq name n1); [now split|apply IH].
Qed.

Lemma srel_flat_loop c1 c2 ds1 ds2 : Forall2 (flat_rel c1 c2) ds1 ds2 ->
  forall fuel ln slots acc, srel c1 c2 (flat_loop c1 ds1 ln fuel slots acc) (flat_loop c2 ds2 ln fuel slots acc).
Proof.
  intro H. induction fuel as [|f IH]; intros ln slots acc; cbn [flat_loop]; [apply hrel_refl|].
  apply srel_bind_same. intros [name|]; [|apply hrel_refl].
  pose proof (find_direct_rel c1 c2 ds1 ds2 name H 0) as G.
  destruct (find_direct name ds1 0) as [[i d1]|], (find_direct name ds2 0) as [[j d2]|]; try contradiction.
  - destruct G as [<- Hd]. destruct (nth_error slots i) as [[x|]|]; try apply hrel_refl;
      (apply srel_bind; [now apply srel_next_value|intro; apply IH]).
  - apply srel_bind; [apply srel_next_value, srel_de_content|intro; apply IH].
Qed.

(* ---- induction on shapes, with hypotheses wherever de_s recurses ---- *)
Section ShapeIndFull.
  Variable P : shape -> Prop.
  Hypothesis Hleaf : forall sh, (match sh with
      | ShBool | ShI _ | ShU _ | ShF32 | ShF64 | ShChar | ShStr _ | ShDisplayStr | ShBytes _ | ShUnit | ShUnitStruct
      | ShInternal _ _ | ShUntagged _ | ShAny | ShIgnored => True
      | _ => False end) -> P sh.
  Hypothesis Hopt : forall s, P s -> P (ShOption s).
  Hypothesis Hnt : forall s, P s -> P (ShNewtypeStruct s).
  Hypothesis Hseq : forall k s, P s -> P (ShSeq k s).
  Hypothesis Htup : forall ss, Forall P ss -> P (ShTuple ss).
  Hypothesis Hts : forall ss, Forall P ss -> P (ShTupleStruct ss).
  Hypothesis Hmap : forall b k v, P k -> P v -> P (ShMap b k v).
  Hypothesis Hstruct : forall fs, Forall (fun p => P (snd p)) fs -> P (ShStruct fs).
  Hypothesis Henum : forall vs, Forall (fun p => P (snd (snd p))) vs -> P (ShEnum vs).
  Hypothesis Hadj : forall t c vs, Forall (fun p => P (snd (snd p))) vs -> P (ShAdjacent t c vs).
  Hypothesis Hflat : forall fs, Forall (fun p => P (snd (snd p))) fs -> P (ShFlat fs).

  Fixpoint shape_ind_full (sh : shape) : P sh :=
    let list_ind := fix go (l : list shape) : Forall P l :=
      match l with [] => Forall_nil _ | x :: r => Forall_cons _ (shape_ind_full x) (go r) end in
    let fields_ind := fix go (l : list (bytes * shape)) : Forall (fun p => P (snd p)) l :=
      match l with [] => Forall_nil _ | (k, x) :: r => Forall_cons (k, x) (shape_ind_full x) (go r) end in
    let vars_ind := fix go (l : list (bytes * (vkind * shape))) : Forall (fun p => P (snd (snd p))) l :=
      match l with [] => Forall_nil _ | (n, (k, x)) :: r => Forall_cons (n, (k, x)) (shape_ind_full x) (go r) end in
    let flat_ind := fix go (l : list (bytes * (bool * shape))) : Forall (fun p => P (snd (snd p))) l :=
      match l with [] => Forall_nil _ | (n, (k, x)) :: r => Forall_cons (n, (k, x)) (shape_ind_full x) (go r) end in
    match sh with
    | ShOption s => Hopt s (shape_ind_full s)
    | ShNewtypeStruct s => Hnt s (shape_ind_full s)
    | ShSeq k s => Hseq k s (shape_ind_full s)
    | ShTuple ss => Htup ss (list_ind ss)
    | ShTupleStruct ss => Hts ss (list_ind ss)
    | ShMap b k v => Hmap b k v (shape_ind_full k) (shape_ind_full v)
    | ShStruct fs => Hstruct fs (fields_ind fs)
    | ShEnum vs => Henum vs (vars_ind vs)
    | ShAdjacent t c vs => Hadj t c vs (vars_ind vs)
    | ShFlat fs => Hflat fs (flat_ind fs)
    | ShBool => Hleaf ShBool I | ShI w => Hleaf (ShI w) I | ShU w => Hleaf (ShU w) I | ShF32 => Hleaf ShF32 I
    | ShF64 => Hleaf ShF64 I | ShChar => Hleaf ShChar I | ShStr b => Hleaf (ShStr b) I
    | ShDisplayStr => Hleaf ShDisplayStr I | ShBytes b => Hleaf (ShBytes b) I | ShUnit => Hleaf ShUnit I
    | ShUnitStruct => Hleaf ShUnitStruct I | ShInternal t vs => Hleaf (ShInternal t vs) I
    | ShUntagged vs => Hleaf (ShUntagged vs) I | ShAny => Hleaf ShAny I | ShIgnored => Hleaf ShIgnored I
    end.
End ShapeIndFull.

Definition cfg_ok (c1 c2 : cfg) (sh : shape) : Prop := forall fuel, srel c1 c2 (de_s c1 sh fuel) (de_s c2 sh fuel).

Lemma Forall2_map_shapes c1 c2 fuel ss : Forall (cfg_ok c1 c2) ss ->
  Forall2 (srel c1 c2) (map (fun s => de_s c1 s fuel) ss) (map (fun s => de_s c2 s fuel) ss).
Proof. induction 1 as [|s r H _ IH]; cbn [map]; constructor; auto. Qed.

Lemma Forall2_map_fields c1 c2 fuel (fs : list (bytes * shape)) : Forall (fun p => cfg_ok c1 c2 (snd p)) fs ->
  Forall2 (named_rel c1 c2)
    (map (fun p : bytes * shape => let (n, s) := p in (n, de_s c1 s fuel)) fs)
    (map (fun p : bytes * shape => let (n, s) := p in (n, de_s c2 s fuel)) fs).
Proof. induction 1 as [|[n s] r H _ IH]; cbn [map]; constructor; auto. split; [reflexivity|apply H]. Qed.

Theorem de_s_cfg c1 c2 sh : cfg_ok c1 c2 sh.
Proof.
  induction sh using shape_ind_full; intro fuel.
  - (* leaves and the shapes that only use deserialize_any + serde's pure Content code *)
    destruct sh; try contradiction; cbn [de_s]; try apply hrel_refl.
    + apply srel_fmap, srel_f32.
    + apply srel_fmap, srel_f64.
    + (* internally tagged *)
      apply srel_bind; [apply hrel_any_head|]. intros [x|ln|ln]; [apply hrel_refl| |].
      * apply srel_bind_same. intros [[t|] ln']; [|apply hrel_refl].
        apply srel_bind; [apply srel_seq_collect, srel_de_content|intro; apply hrel_refl].
      * apply srel_bind; [apply srel_tagged_loop|intro; apply hrel_refl].
    + (* untagged *) apply srel_bind; [apply srel_de_content|intro; apply hrel_refl].
    + (* any *) apply srel_fmap, srel_de_content.
    + (* ignored *) apply srel_bind; [unfold de_ignored; apply srel_skip|intro; apply hrel_refl].
  - cbn [de_s]. apply srel_de_option, srel_fmap, IHsh.
  - cbn [de_s]. apply srel_fmap, IHsh.
  - cbn [de_s]. apply srel_bind; [|intro; apply hrel_refl]. unfold de_seq_of. apply srel_bind_same. intro ln.
    apply srel_seq_collect, IHsh.
  - cbn [de_s]. apply srel_bind; [|intro; apply hrel_refl]. apply srel_de_tuple_of. now apply Forall2_map_shapes.
  - cbn [de_s]. apply srel_bind; [|intro; apply hrel_refl]. apply srel_de_tuple_of. now apply Forall2_map_shapes.
  - cbn [de_s]. apply srel_bind; [|intro; apply hrel_refl]. unfold de_map_of. apply srel_bind_same. intro ln.
    apply srel_map_collect; [apply IHsh1|apply IHsh2].
  - cbn [de_s]. apply srel_bind_same. intro ln. apply srel_struct_visit. now apply Forall2_map_fields.
  - (* externally tagged *)
    cbn [de_s]. apply srel_bind_same. intros _.
    apply (hrel_bind (vres_rel c1 c2 (fun a b => fst a = fst b /\ srel c1 c2 (snd a) (snd b))) eq).
    + apply hrel_variant_ident. clear - H. induction H as [|[n [k s]] r Hs _ IH]; cbn [map]; constructor; auto.
      cbn [fst snd]. repeat split. apply Hs.
    + intros [i1 [n1 [k1 d1]]] [i2 [n2 [k2 d2]]] (Hi & Hn & Hk & Hd). cbn [fst snd] in *. subst i2 n2 k2.
      destruct k1; try apply hrel_refl; (apply srel_bind; [exact Hd|intro; apply hrel_refl]).
  - (* adjacently tagged *)
    cbn [de_s].
    set (dv1 := map (fun p : bytes * (vkind * shape) => let (n, ks) := p in let (k, s) := ks in (n, (k, (s, de_s c1 s fuel)))) vs).
    set (dv2 := map (fun p : bytes * (vkind * shape) => let (n, ks) := p in let (k, s) := ks in (n, (k, (s, de_s c2 s fuel)))) vs).
    set (RX := fun a b : vkind * (shape * M sval) => fst a = fst b /\ fst (snd a) = fst (snd b) /\ srel c1 c2 (snd (snd a)) (snd (snd b))).
    assert (Hdv: Forall2 (fun p q => fst p = fst q /\ RX (snd p) (snd q)) dv1 dv2).
    { unfold dv1, dv2. clear - H. induction H as [|[n [k s]] r Hs _ IH]; cbn [map]; constructor; auto.
      cbn [fst snd]. split; [reflexivity|]. unfold RX. cbn [fst snd]. repeat split. apply Hs. }
    assert (Htag: forall ln, hrel (fun r1 r2 => vres_rel c1 c2 RX (fst r1) (fst r2) /\ snd r1 = snd r2) c1 c2
                     (next_value (de_enum_prelude;;; variant_ident dv1) ln) (next_value (de_enum_prelude;;; variant_ident dv2) ln)).
    { intro ln. apply hrel_next_value. apply (hrel_bind eq _); [apply hrel_refl|]. intros ? ? _. now apply hrel_variant_ident. }
    assert (Hrest: forall ln (v : sval), srel c1 c2
              (r <- adj_next c1 t c ln fuel;; match fst r with Some _ => (fail Message : M sval) | None => ret v end)
              (r <- adj_next c2 t c ln fuel;; match fst r with Some _ => (fail Message : M sval) | None => ret v end)).
    { intros ln v. apply srel_bind; [apply srel_adj_next|intro; apply hrel_refl]. }
    apply srel_bind_same. intro ln0.
    apply srel_bind; [apply srel_adj_next|]. intros [[[|]|] ln1]; [| |apply hrel_refl].
    + (* tag first *)
      apply (hrel_bind _ eq _ _ _ _ _ _ (Htag ln1)).
      intros [[i1 [n1 [k1 [s1 d1]]]] l1] [[i2 [n2 [k2 [s2 d2]]]] l2] [(Hi & Hn & Hk & Hs & Hd) Hl].
      cbn [fst snd] in *. subst i2 n2 k2 s2 l2.
      apply srel_bind; [apply srel_adj_next|]. intros [[[|]|] ln2]; try apply hrel_refl.
      apply srel_bind; [apply srel_next_value; now apply srel_adj_direct|]. intro pv.
      apply srel_bind; [apply srel_adj_next|intro; apply hrel_refl].
    + (* content first *)
      apply srel_bind; [apply srel_next_value, srel_de_content|]. intro cv.
      apply srel_bind; [apply srel_adj_next|]. intros [[[|]|] ln2]; try apply hrel_refl.
      apply (hrel_bind _ eq _ _ _ _ _ _ (Htag ln2)).
      intros [[i1 [n1 [k1 [s1 d1]]]] l1] [[i2 [n2 [k2 [s2 d2]]]] l2] [(Hi & Hn & Hk & Hs & Hd) Hl].
      cbn [fst snd] in *. subst i2 n2 k2 s2 l2.
      destruct (adj_buffered k1 s1 (fst cv)); [|apply hrel_refl].
      apply srel_bind; [apply srel_adj_next|intro; apply hrel_refl].
  - (* flattened *)
    cbn [de_s]. apply srel_bind_same. intro ln. apply srel_bind; [|intro; apply hrel_refl].
    apply srel_flat_loop. clear - H. induction H as [|[n [fl s]] r Hs _ IH]; cbn [map]; constructor; auto.
    repeat split. apply Hs.
Qed.

Theorem de_s_cfg_dds c1 c2 sh fuel s : doc_diff_serde c1 c2 (de_s c1 sh fuel s) (de_s c2 sh fuel s).
Proof. apply dds_of_hdd. apply de_s_cfg. Qed.

Theorem de_auto_cfg_dds c1 c2 sh s : doc_diff_serde c1 c2 (de_auto c1 sh s) (de_auto c2 sh s).
Proof. unfold de_auto. apply de_s_cfg_dds. Qed.

(* with equal alloc and half flags nothing differs: c_std is irrelevant *)
Theorem de_s_std c1 c2 sh fuel s : c_alloc c1 = c_alloc c2 -> c_half c1 = c_half c2 ->
  de_s c1 sh fuel s = de_s c2 sh fuel s.
Proof.
  intros Ha Hh.
  destruct (de_s_cfg_dds c1 c2 sh fuel s) as [[E|[(A & B & _)|[(A & B & _)|[(A & B & _)|(A & B & _)]]]]|[(A & B & _)|(A & B & _)]];
    congruence.
Qed.
