(* Proofs/HalfFacts.v — facts about the float paths of the encoder/decoder model and about Model/Half.v (C12). *)
From MC Require Export Sweep16.
From MC Require Import Bytes BytesFacts Monad Encoder Decoder Half Float16.
From Coq Require Import Lia.
Local Open Scope N_scope.
(* lia with div/mod by numerals *)
Ltac Zify.zify_post_hook ::= Z.to_euclidean_division_equations.

(* ---------------------------------------------------------------------------------------------
   Same width: f32 / f64 bit patterns survive encode-then-decode, for every pattern.
   --------------------------------------------------------------------------------------------- *)

Lemma read_be_app k n rest p l :
  l = p + N.of_nat k + len rest ->
  n < 2 ^ (8 * N.of_nat k) ->
  read_be k (mkdst p (be k n ++ rest) l) = (Ok n, mkdst (p + N.of_nat k) rest l).
Proof.
  intros Hl Hn. unfold read_be, fmap, bind, read_slice. cbn [dlen dpos drest].
  destruct (N.ltb_spec l p) as [H|H]; [lia|].
  pose proof (take_app (be k n) rest) as Ht. rewrite len_be in Ht. rewrite Ht. unfold ret.
  rewrite of_be_be_small by exact Hn. reflexivity.
Qed.

Lemma same_width32 c b rest : b < 2 ^ 32 ->
  dec_f32 c (start (flat (enc_f32 b) ++ rest)) = (Ok b, mkdst 5 rest (5 + len rest)).
Proof.
  intro Hb. unfold enc_f32, flat, SIMPLE. cbn [concat app]. rewrite app_nil_r.
  unfold start, dec_f32, bind at 1, current. cbn [drest].
  change (224 + 26 =? 249) with false. rewrite andb_false_r.
  change (224 + 26 =? 250) with true. cbv iota.
  unfold bind at 1, read. cbn [drest dpos dlen].
  rewrite len_cons, len_app, len_be.
  change (0 + 1) with 1.
  rewrite (read_be_app 4 b rest 1) by (try lia; exact Hb).
  f_equal. f_equal; lia.
Qed.

Lemma same_width64 c b rest : b < 2 ^ 64 ->
  dec_f64 c (start (flat (enc_f64 b) ++ rest)) = (Ok b, mkdst 9 rest (9 + len rest)).
Proof.
  intro Hb. unfold enc_f64, flat, SIMPLE. cbn [concat app]. rewrite app_nil_r.
  unfold start, dec_f64, bind at 1, current. cbn [drest].
  change (224 + 27 =? 249) with false. rewrite andb_false_r.
  change (224 + 27 =? 250) with false.
  change (224 + 27 =? 251) with true. cbv iota.
  unfold bind at 1, read. cbn [drest dpos dlen].
  rewrite len_cons, len_app, len_be.
  change (0 + 1) with 1.
  rewrite (read_be_app 8 b rest 1) by (try lia; exact Hb).
  f_equal. f_equal; lia.
Qed.

Lemma same_width : forall c rest,
  (forall b, b < 2 ^ 32 ->
     dec_f32 c (start (flat (enc_f32 b) ++ rest)) = (Ok b, mkdst 5 rest (5 + len rest))) /\
  (forall b, b < 2 ^ 64 ->
     dec_f64 c (start (flat (enc_f64 b) ++ rest)) = (Ok b, mkdst 9 rest (9 + len rest))).
Proof. intros c rest. split; intros b Hb; [apply same_width32|apply same_width64]; exact Hb. Qed.

(* ---------------------------------------------------------------------------------------------
   The specification's reading of a pattern, in terms of its three fields.
   --------------------------------------------------------------------------------------------- *)

Lemma fdecode32_unfold x : fdecode binary32 x =
  (let b := Z.of_N x in let m := b mod 8388608 in let e := (b / 8388608) mod 256 in let s := Z.odd (b / 2147483648) in
  if e =? 255 then (if m =? 0 then FInf s else FNan)
  else if e =? 0 then (if m =? 0 then FZero s else FFin s m (-149))
  else FFin s (8388608 + m) (e - 127 - 23))%Z.
Proof. reflexivity. Qed.

Lemma fdecode32_fields s e m : s < 2 -> e < 256 -> m < 2 ^ 23 ->
  fdecode binary32 (s * 2 ^ 31 + e * 2 ^ 23 + m) =
  if e =? 255 then (if m =? 0 then FInf (s =? 1) else FNan)
  else if e =? 0 then (if m =? 0 then FZero (s =? 1) else FFin (s =? 1) (Z.of_N m) (-149))
  else FFin (s =? 1) (8388608 + Z.of_N m) (Z.of_N e - 150).
Proof.
  intros Hs He Hm. rewrite fdecode32_unfold. cbv zeta.
  set (b := Z.of_N (s * 2 ^ 31 + e * 2 ^ 23 + m)).
  assert (E1: (b mod 8388608 = Z.of_N m)%Z) by (subst b; lia).
  assert (E2: ((b / 8388608) mod 256 = Z.of_N e)%Z) by (subst b; lia).
  assert (E3: (b / 2147483648 = Z.of_N s)%Z) by (subst b; lia).
  rewrite E1, E2, E3. clearbody b.
  replace (Z.odd (Z.of_N s)) with (s =? 1) by (assert (s = 0 \/ s = 1) as [->| ->] by lia; reflexivity).
  destruct (N.eqb_spec e 255) as [->|Ne]; [change (Z.of_N 255 =? 255)%Z with true; cbv iota|].
  - destruct (N.eqb_spec m 0) as [->|Nm]; [reflexivity|].
    destruct (Z.eqb_spec (Z.of_N m) 0); [lia|reflexivity].
  - destruct (Z.eqb_spec (Z.of_N e) 255); [lia|].
    destruct (N.eqb_spec e 0) as [->|Ne0].
    + change (Z.of_N 0 =? 0)%Z with true. cbv iota.
      destruct (N.eqb_spec m 0) as [->|Nm]; [reflexivity|].
      destruct (Z.eqb_spec (Z.of_N m) 0); [lia|reflexivity].
    + destruct (Z.eqb_spec (Z.of_N e) 0); [lia|]. f_equal. lia.
Qed.

Lemma fdecode64_unfold x : fdecode binary64 x =
  (let b := Z.of_N x in let m := b mod 4503599627370496 in let e := (b / 4503599627370496) mod 2048 in
   let s := Z.odd (b / 9223372036854775808) in
  if e =? 2047 then (if m =? 0 then FInf s else FNan)
  else if e =? 0 then (if m =? 0 then FZero s else FFin s m (-1074))
  else FFin s (4503599627370496 + m) (e - 1023 - 52))%Z.
Proof. reflexivity. Qed.

Lemma fdecode64_fields s e m : s < 2 -> e < 2048 -> m < 2 ^ 52 ->
  fdecode binary64 (s * 2 ^ 63 + e * 2 ^ 52 + m) =
  if e =? 2047 then (if m =? 0 then FInf (s =? 1) else FNan)
  else if e =? 0 then (if m =? 0 then FZero (s =? 1) else FFin (s =? 1) (Z.of_N m) (-1074))
  else FFin (s =? 1) (4503599627370496 + Z.of_N m) (Z.of_N e - 1075).
Proof.
  intros Hs He Hm. rewrite fdecode64_unfold. cbv zeta.
  set (b := Z.of_N (s * 2 ^ 63 + e * 2 ^ 52 + m)).
  assert (E1: (b mod 4503599627370496 = Z.of_N m)%Z) by (subst b; lia).
  assert (E2: ((b / 4503599627370496) mod 2048 = Z.of_N e)%Z) by (subst b; lia).
  assert (E3: (b / 9223372036854775808 = Z.of_N s)%Z) by (subst b; lia).
  rewrite E1, E2, E3. clearbody b.
  replace (Z.odd (Z.of_N s)) with (s =? 1) by (assert (s = 0 \/ s = 1) as [->| ->] by lia; reflexivity).
  destruct (N.eqb_spec e 2047) as [->|Ne]; [change (Z.of_N 2047 =? 2047)%Z with true; cbv iota|].
  - destruct (N.eqb_spec m 0) as [->|Nm]; [reflexivity|].
    destruct (Z.eqb_spec (Z.of_N m) 0); [lia|reflexivity].
  - destruct (Z.eqb_spec (Z.of_N e) 2047); [lia|].
    destruct (N.eqb_spec e 0) as [->|Ne0].
    + change (Z.of_N 0 =? 0)%Z with true. cbv iota.
      destruct (N.eqb_spec m 0) as [->|Nm]; [reflexivity|].
      destruct (Z.eqb_spec (Z.of_N m) 0); [lia|reflexivity].
    + destruct (Z.eqb_spec (Z.of_N e) 0); [lia|]. f_equal. lia.
Qed.

Lemma f32_split x : x < 2 ^ 32 ->
  exists s e m, s < 2 /\ e < 256 /\ m < 2 ^ 23 /\ x = s * 2 ^ 31 + e * 2 ^ 23 + m.
Proof.
  intro H. exists (x / 2 ^ 31), ((x / 2 ^ 23) mod 256), (x mod 2 ^ 23). lia.
Qed.

Lemma scale_pow a k : (0 <= k)%Z -> scale a k = (a * 2 ^ k)%Z.
Proof. intro H. unfold scale. apply Z.shiftl_mul_pow2. exact H. Qed.

Lemma feq_refl_fin s m e : feq (FFin s m e) (FFin s m e) = true.
Proof. cbn [feq]. rewrite Bool.eqb_reflx, Z.eqb_refl. reflexivity. Qed.

Lemma f32_to_f64_fields s e m : s < 2 -> e < 256 -> m < 2 ^ 23 ->
  feq (fdecode binary64 (f32_to_f64 (s * 2 ^ 31 + e * 2 ^ 23 + m)))
      (fdecode binary32 (s * 2 ^ 31 + e * 2 ^ 23 + m)) = true.
Proof.
  intros Hs He Hm. rewrite fdecode32_fields by assumption.
  unfold f32_to_f64. cbv zeta.
  set (x := s * 2 ^ 31 + e * 2 ^ 23 + m).
  assert (E1: x mod 2 ^ 23 = m) by (subst x; lia).
  assert (E2: (x / 2 ^ 23) mod 256 = e) by (subst x; lia).
  assert (E3: x / 2 ^ 31 = s) by (subst x; lia).
  rewrite E1, E2, E3. clearbody x. clear E1 E2 E3 x.
  destruct (N.eqb_spec e 255) as [->|Ne].
  - destruct (N.eqb_spec m 0) as [->|Nm].
    + replace (s * 2 ^ 63 + 9218868437227405312) with (s * 2 ^ 63 + 2047 * 2 ^ 52 + 0) by lia.
      rewrite fdecode64_fields by lia. cbn. apply Bool.eqb_reflx.
    + assert (L: N.lor (m * 2 ^ 29) (2 ^ 51) < 2 ^ 52).
      { apply N.log2_lt_pow2.
        - assert (0 < 2 ^ 51) by lia. pose proof (N.lor_eq_0_iff (m * 2 ^ 29) (2 ^ 51)). lia.
        - rewrite N.log2_lor. apply N.max_lub_lt; [apply N.log2_lt_pow2; lia|reflexivity]. }
      assert (L0: N.lor (m * 2 ^ 29) (2 ^ 51) <> 0).
      { intro Z0. apply N.lor_eq_0_iff in Z0. destruct Z0 as [_ Z0]. discriminate Z0. }
      set (p := N.lor (m * 2 ^ 29) (2 ^ 51)) in *. clearbody p.
      replace (s * 2 ^ 63 + 9218868437227405312 + p) with (s * 2 ^ 63 + 2047 * 2 ^ 52 + p) by lia.
      rewrite fdecode64_fields by lia. cbn [N.eqb]. change (2047 =? 2047) with true. cbv iota.
      destruct (N.eqb_spec p 0); [contradiction|reflexivity].
  - destruct (N.eqb_spec e 0) as [->|Ne0].
    + destruct (N.eqb_spec m 0) as [->|Nm].
      * replace (s * 2 ^ 63) with (s * 2 ^ 63 + 0 * 2 ^ 52 + 0) by lia.
        rewrite fdecode64_fields by lia. cbn. apply Bool.eqb_reflx.
      * (* subnormal single -> normal double *)
        set (k := N.size m).
        assert (Hk: k = N.succ (N.log2 m)) by (apply N.size_log2; exact Nm).
        destruct (N.log2_spec m) as [Hl1 Hl2]; [lia|]. rewrite <- Hk in Hl2.
        assert (Hk1: m < 2 ^ k) by exact Hl2.
        assert (Hk2: 2 ^ k <= 2 * m) by (rewrite Hk, N.pow_succ_r'; lia).
        clear Hl1 Hl2.
        assert (Hk3: k <= 23).
        { destruct (N.le_gt_cases k 23) as [Q|Q]; [exact Q|exfalso].
          assert (2 ^ 24 <= 2 ^ k) by (apply N.pow_le_mono_r; lia). lia. }
        assert (Hk0: 1 <= k) by lia. clear Hk.
        assert (Hp: 2 ^ (53 - k) * 2 ^ k = 2 ^ 53) by (rewrite <- N.pow_add_r; f_equal; lia).
        clearbody k. set (p := 2 ^ (53 - k)) in *. set (r := 2 ^ k) in *.
        assert (Hmod: (m * p) mod 2 ^ 52 = m * p - 2 ^ 52).
        { symmetry. apply N.mod_unique with 1; nia. }
        rewrite Hmod.
        assert (Hlt: m * p - 2 ^ 52 < 2 ^ 52) by nia.
        assert (Hge: 2 ^ 52 <= m * p) by nia.
        rewrite fdecode64_fields by lia.
        destruct (N.eqb_spec (k + 873) 2047); [lia|].
        destruct (N.eqb_spec (k + 873) 0); [lia|].
        cbn [feq]. rewrite Bool.eqb_reflx. cbn [andb]. cbv zeta.
        rewrite Z.min_l by lia.
        rewrite !scale_pow by lia.
        replace (Z.of_N (k + 873) - 1075 - (Z.of_N (k + 873) - 1075))%Z with 0%Z by lia.
        replace (-149 - (Z.of_N (k + 873) - 1075))%Z with (Z.of_N (53 - k)) by lia.
        apply Z.eqb_eq.
        replace (2 ^ Z.of_N (53 - k))%Z with (Z.of_N p) by (subst p; lia).
        lia.
    + replace (s * 2 ^ 63 + (e + 896) * 2 ^ 52 + m * 2 ^ 29) with (s * 2 ^ 63 + (e + 896) * 2 ^ 52 + m * 2 ^ 29) by lia.
      rewrite fdecode64_fields by lia.
      destruct (N.eqb_spec (e + 896) 2047); [lia|].
      destruct (N.eqb_spec (e + 896) 0); [lia|].
      cbn [feq]. rewrite Bool.eqb_reflx. cbn [andb]. cbv zeta.
      rewrite Z.min_l by lia. rewrite !scale_pow by lia.
      replace (Z.of_N (e + 896) - 1075 - (Z.of_N (e + 896) - 1075))%Z with 0%Z by lia.
      replace (Z.of_N e - 150 - (Z.of_N (e + 896) - 1075))%Z with 29%Z by lia.
      apply Z.eqb_eq. lia.
Qed.

Lemma f32_to_f64_exact x : x < 2 ^ 32 ->
  feq (fdecode binary64 (f32_to_f64 x)) (fdecode binary32 x) = true.
Proof.
  intro H. destruct (f32_split x H) as (s & e & m & Hs & He & Hm & ->).
  apply f32_to_f64_fields; assumption.
Qed.

(* All 65536 half patterns: Proofs/Sweep16.v (nseq, l256, all16, forall16). *)

(* every half pattern is widened by f16_to_f32 to the single-precision pattern denoting the same datum *)
Lemma half_exact : forall h, h < 65536 ->
  feq (fdecode binary32 (f16_to_f32 h)) (fdecode binary16 h) = true.
Proof. apply forall16. vm_compute. reflexivity. Qed.

Lemma half_range : forall h, h < 65536 -> (f16_to_f32 h <? 2 ^ 32) = true.
Proof. apply forall16. vm_compute. reflexivity. Qed.

Lemma feq_trans a b c : feq a b = true -> feq b c = true -> feq a c = true.
Proof.
  destruct a as [|s1|s1|s1 m1 e1], b as [|s2|s2|s2 m2 e2], c as [|s3|s3|s3 m3 e3]; cbn [feq]; try discriminate; try (intros; reflexivity).
  - intros A B. apply Bool.eqb_prop in A, B. subst. apply Bool.eqb_reflx.
  - intros A B. apply Bool.eqb_prop in A, B. subst. apply Bool.eqb_reflx.
  - intros A B. apply andb_true_iff in A, B. destruct A as [A1 A2], B as [B1 B2].
    apply Bool.eqb_prop in A1, B1. subst. rewrite Bool.eqb_reflx. cbn [andb].
    apply Z.eqb_eq in A2, B2. apply Z.eqb_eq.
    rewrite !scale_pow in * by lia.
    (* scale all three to the common minimum exponent *)
    set (k := Z.min e1 (Z.min e2 e3)).
    assert (P: forall e, (k <= e)%Z -> (2 ^ (e - k) > 0)%Z) by (intros; apply Z.lt_gt, Z.pow_pos_nonneg; lia).
    assert (S12: (m1 * 2 ^ (e1 - k) = m2 * 2 ^ (e2 - k))%Z).
    { replace (e1 - k)%Z with ((e1 - Z.min e1 e2) + (Z.min e1 e2 - k))%Z by lia.
      replace (e2 - k)%Z with ((e2 - Z.min e1 e2) + (Z.min e1 e2 - k))%Z by lia.
      rewrite !Z.pow_add_r by lia. rewrite !Z.mul_assoc, A2. reflexivity. }
    assert (S23: (m2 * 2 ^ (e2 - k) = m3 * 2 ^ (e3 - k))%Z).
    { replace (e2 - k)%Z with ((e2 - Z.min e2 e3) + (Z.min e2 e3 - k))%Z by lia.
      replace (e3 - k)%Z with ((e3 - Z.min e2 e3) + (Z.min e2 e3 - k))%Z by lia.
      rewrite !Z.pow_add_r by lia. rewrite !Z.mul_assoc, B2. reflexivity. }
    assert (S13: (m1 * 2 ^ (e1 - k) = m3 * 2 ^ (e3 - k))%Z) by congruence.
    replace (e1 - k)%Z with ((e1 - Z.min e1 e3) + (Z.min e1 e3 - k))%Z in S13 by lia.
    replace (e3 - k)%Z with ((e3 - Z.min e1 e3) + (Z.min e1 e3 - k))%Z in S13 by lia.
    rewrite !Z.pow_add_r, !Z.mul_assoc in S13 by lia.
    apply Z.mul_reg_r in S13; [exact S13|].
    pose proof (P (Z.min e1 e3)). lia.
Qed.

(* ---------------------------------------------------------------------------------------------
   Reading items through accessors of another width.
   --------------------------------------------------------------------------------------------- *)
Lemma dec_f16_item h rest : h < 65536 ->
  dec_f16 (start (flat (enc_f16_bits h) ++ rest)) = (Ok (f16_to_f32 h), mkdst 3 rest (3 + len rest)).
Proof.
  intro Hh. unfold enc_f16_bits, flat, SIMPLE. cbn [concat app]. rewrite app_nil_r.
  unfold start, dec_f16, bind at 1, read. cbn [drest dpos dlen].
  change (224 + 25 =? 249) with true. cbn [negb].
  rewrite len_cons, len_app, len_be. change (0 + 1) with 1.
  unfold bind. rewrite (read_be_app 2 h rest 1) by (try lia; exact Hh).
  unfold ret. f_equal. f_equal; lia.
Qed.

Lemma dec_f32_f16_item c h rest : c_half c = true -> h < 65536 ->
  dec_f32 c (start (flat (enc_f16_bits h) ++ rest)) = (Ok (f16_to_f32 h), mkdst 3 rest (3 + len rest)).
Proof.
  intros Hc Hh. rewrite <- (dec_f16_item h rest Hh).
  unfold enc_f16_bits, flat, SIMPLE. cbn [concat app].
  unfold dec_f32, bind at 1, current, start. cbn [drest]. rewrite Hc. reflexivity.
Qed.

Lemma dec_f64_f16_item c h rest : c_half c = true -> h < 65536 ->
  dec_f64 c (start (flat (enc_f16_bits h) ++ rest)) = (Ok (f32_to_f64 (f16_to_f32 h)), mkdst 3 rest (3 + len rest)).
Proof.
  intros Hc Hh.
  assert (E: dec_f64 c (start (flat (enc_f16_bits h) ++ rest)) = fmap f32_to_f64 dec_f16 (start (flat (enc_f16_bits h) ++ rest))).
  { unfold enc_f16_bits, flat, SIMPLE. cbn [concat app].
    unfold dec_f64, bind at 1, current, start. cbn [drest]. rewrite Hc. reflexivity. }
  rewrite E. unfold fmap, bind. rewrite (dec_f16_item h rest Hh). reflexivity.
Qed.

Lemma dec_f64_f32_item c b rest : b < 2 ^ 32 ->
  dec_f64 c (start (flat (enc_f32 b) ++ rest)) = (Ok (f32_to_f64 b), mkdst 5 rest (5 + len rest)).
Proof.
  intro Hb.
  assert (E: dec_f64 c (start (flat (enc_f32 b) ++ rest)) = fmap f32_to_f64 (dec_f32 c) (start (flat (enc_f32 b) ++ rest))).
  { unfold enc_f32, flat, SIMPLE. cbn [concat app].
    unfold dec_f64, bind at 1, current, start. cbn [drest].
    change (224 + 26 =? 249) with false. rewrite andb_false_r. reflexivity. }
  rewrite E. unfold fmap, bind. rewrite (same_width32 c b rest Hb). reflexivity.
Qed.

(* a wider item is refused by a narrower accessor: type mismatch naming the item's type *)
Lemma dec_f32_rejects_f64 c b rest :
  fst (dec_f32 c (start (flat (enc_f64 b) ++ rest))) = Err (TypeMismatch TF64).
Proof.
  unfold enc_f64, flat, SIMPLE. cbn [concat app].
  unfold dec_f32, bind at 1, current, start. cbn [drest].
  change (224 + 27 =? 249) with false. rewrite andb_false_r. reflexivity.
Qed.

Lemma dec_f16_rejects_f32 b rest :
  fst (dec_f16 (start (flat (enc_f32 b) ++ rest))) = Err (TypeMismatch TF32).
Proof. reflexivity. Qed.

Lemma dec_f16_rejects_f64 b rest :
  fst (dec_f16 (start (flat (enc_f64 b) ++ rest))) = Err (TypeMismatch TF64).
Proof. reflexivity. Qed.

(* the four narrower-through-wider readings, each exact (NaN stays NaN) *)
Lemma widen_exact : forall c rest, c_half c = true ->
  (forall h, h < 2 ^ 16 -> exists y,
     dec_f16 (start (flat (enc_f16_bits h) ++ rest)) = (Ok y, mkdst 3 rest (3 + len rest)) /\
     feq (fdecode binary32 y) (fdecode binary16 h) = true) /\
  (forall h, h < 2 ^ 16 -> exists y,
     dec_f32 c (start (flat (enc_f16_bits h) ++ rest)) = (Ok y, mkdst 3 rest (3 + len rest)) /\
     feq (fdecode binary32 y) (fdecode binary16 h) = true) /\
  (forall h, h < 2 ^ 16 -> exists y,
     dec_f64 c (start (flat (enc_f16_bits h) ++ rest)) = (Ok y, mkdst 3 rest (3 + len rest)) /\
     feq (fdecode binary64 y) (fdecode binary16 h) = true) /\
  (forall b, b < 2 ^ 32 -> exists y,
     dec_f64 c (start (flat (enc_f32 b) ++ rest)) = (Ok y, mkdst 5 rest (5 + len rest)) /\
     feq (fdecode binary64 y) (fdecode binary32 b) = true).
Proof.
  intros c rest Hc. split; [|split; [|split]]; intros x Hx.
  - exists (f16_to_f32 x). split; [apply dec_f16_item; exact Hx|apply half_exact; exact Hx].
  - exists (f16_to_f32 x). split; [apply dec_f32_f16_item; assumption|apply half_exact; exact Hx].
  - exists (f32_to_f64 (f16_to_f32 x)). split; [apply dec_f64_f16_item; assumption|].
    apply feq_trans with (fdecode binary32 (f16_to_f32 x)); [|apply half_exact; exact Hx].
    apply f32_to_f64_exact. apply N.ltb_lt, half_range. exact Hx.
  - exists (f32_to_f64 x). split; [apply dec_f64_f32_item; exact Hx|apply f32_to_f64_exact; exact Hx].
Qed.

Lemma narrow_rejects : forall c b rest,
  fst (dec_f32 c (start (flat (enc_f64 b) ++ rest))) = Err (TypeMismatch TF64) /\
  fst (dec_f16 (start (flat (enc_f32 b) ++ rest))) = Err (TypeMismatch TF32) /\
  fst (dec_f16 (start (flat (enc_f64 b) ++ rest))) = Err (TypeMismatch TF64).
Proof.
  intros c b rest. split; [apply dec_f32_rejects_f64|].
  split; [apply dec_f16_rejects_f32|apply dec_f16_rejects_f64].
Qed.

(* the hypothesis c_half c = true holds for the configuration the harness builds (features std, half) *)
Example widen_cfg_instance : c_half cfg_full = true.
Proof. reflexivity. Qed.
