(* Proofs/IntConvFacts.v — Int covers exactly [-2^64, 2^64-1]; every conversion is exact or fails (C05). *)
From MC Require Import Bytes IntConv.
From Coq Require Import Lia.
Local Open Scope Z_scope.

Definition int_ok (i : int_t) : Prop := (snd i < 18446744073709551616)%N.

Lemma int_val_range i : int_ok i -> -18446744073709551616 <= int_val i <= 18446744073709551615.
Proof. destruct i as [[|] v]; unfold int_ok, int_val; cbn [fst snd]; lia. Qed.

Theorem int_of_i128_exact z :
  match int_of_i128 z with
  | Some i => int_ok i /\ int_val i = z
  | None => z < -18446744073709551616 \/ 18446744073709551615 < z
  end.
Proof.
  unfold int_of_i128. destruct (Z.ltb_spec z 0).
  - destruct (Z.ltb_spec z (-18446744073709551616)); [lia|]. unfold int_ok, int_val; cbn [fst snd]. split; lia.
  - destruct (Z.ltb_spec 18446744073709551615 z); [lia|]. unfold int_ok, int_val; cbn [fst snd]. split; lia.
Qed.

Theorem int_of_u128_exact z : 0 <= z ->
  match int_of_u128 z with
  | Some i => int_ok i /\ int_val i = z
  | None => 18446744073709551615 < z
  end.
Proof.
  intro H. unfold int_of_u128. destruct (Z.leb_spec z 18446744073709551615); [|lia].
  unfold int_ok, int_val; cbn [fst snd]. split; lia.
Qed.

Theorem int_of_i64_exact z : -9223372036854775808 <= z <= 9223372036854775807 ->
  int_ok (int_of_i64 z) /\ int_val (int_of_i64 z) = z.
Proof. intro H. unfold int_of_i64. destruct (Z.ltb_spec z 0); unfold int_ok, int_val; cbn [fst snd]; split; lia. Qed.

Theorem int_of_unsigned_exact n : (n < 18446744073709551616)%N ->
  int_ok (int_of_unsigned n) /\ int_val (int_of_unsigned n) = Z.of_N n.
Proof. intro H. unfold int_of_unsigned, int_ok, int_val. cbn [fst snd]. split; [exact H|reflexivity]. Qed.

(* narrowing: Some v iff the value is in the target range, and then v is the value *)
Theorem int_to_unsigned_exact max i : 0 <= max <= 18446744073709551615 -> int_ok i ->
  int_to_unsigned max i = if (0 <=? int_val i) && (int_val i <=? max) then Some (int_val i) else None.
Proof.
  intros Hm Hi. unfold int_to_unsigned, int_val, int_ok in *. destruct i as [[|] v]; cbn [fst snd] in *.
  - destruct (Z.leb_spec 0 (-1 - Z.of_N v)); [lia|reflexivity].
  - destruct (Z.leb_spec 0 (Z.of_N v)); [|lia]. cbn [andb]. reflexivity.
Qed.

Theorem int_to_signed_exact max i : 0 <= max <= 9223372036854775807 -> int_ok i ->
  int_to_signed max i = if (-1 - max <=? int_val i) && (int_val i <=? max) then Some (int_val i) else None.
Proof.
  intros Hm Hi. unfold int_to_signed, int_val, int_ok in *. destruct i as [[|] v]; cbn [fst snd] in *.
  - destruct (Z.leb_spec (Z.of_N v) 9223372036854775807); [reflexivity|].
    destruct (Z.leb_spec (-1 - max) (-1 - Z.of_N v)); [lia|reflexivity].
  - destruct (Z.leb_spec (Z.of_N v) 9223372036854775807); [reflexivity|].
    destruct (Z.leb_spec (-1 - max) (Z.of_N v)); [|lia]. destruct (Z.leb_spec (Z.of_N v) max); [lia|reflexivity].
Qed.

Theorem int_to_u128_exact i : int_to_u128 i = if 0 <=? int_val i then Some (int_val i) else None.
Proof.
  unfold int_to_u128, int_val. destruct i as [[|] v]; cbn [fst snd].
  - destruct (Z.leb_spec 0 (-1 - Z.of_N v)); [lia|reflexivity].
  - destruct (Z.leb_spec 0 (Z.of_N v)); [reflexivity|lia].
Qed.
