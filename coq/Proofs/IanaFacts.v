(* Proofs/IanaFacts.v — the two conversion tables of data::IanaTag are mutually inverse, agree with the IANA registry, and the
   Encode / CborLen impls write / count exactly the shortest tag head of that number. *)
From MC Require Import Bytes BytesFacts Cbor Encoder EncoderFacts Types Iana IanaReg.
From Coq Require Import Lia.
Local Open Scope N_scope.

Lemma iana_registry_agrees : forall t, iana_to_tag t = iana_registry t.
Proof. destruct t; reflexivity. Qed.

Lemma iana_of_to : forall t, iana_of_tag (iana_to_tag t) = Some t.
Proof. destruct t; reflexivity. Qed.

Lemma iana_to_of : forall n t, iana_of_tag n = Some t -> iana_to_tag t = n.
Proof.
  intros n t. unfold iana_of_tag.
  repeat match goal with
  | |- context [if n =? ?k then _ else _] => destruct (N.eqb_spec n k) as [->|_]; [intro H; injection H as <-; reflexivity|]
  end.
  discriminate.
Qed.

Lemma iana_to_tag_inj : forall t u, iana_to_tag t = iana_to_tag u -> t = u.
Proof. intros t u H. pose proof (iana_of_to t) as A. rewrite H, iana_of_to in A. now injection A. Qed.

Lemma iana_all_complete : forall t, In t iana_all.
Proof. destruct t; cbn; tauto. Qed.

Lemma iana_small : forall t, iana_to_tag t < 65536.
Proof. destruct t; cbn; lia. Qed.

Lemma iana_encode_head : forall t, flat (enc_iana t) = phead 6 (iana_registry t).
Proof. destruct t; reflexivity. Qed.

Lemma iana_len_exact : forall t, len_iana t = len (flat (enc_iana t)).
Proof. destruct t; reflexivity. Qed.
